(* Properties_C19.v — C19: option spellings are interchangeable; bad command lines are rejected.
   The theorems hold for ANY option table; the last part instantiates them with the table generated from
   /repo/src/options.cpp on every run (OptionsTable.v) and proves that table well formed, so a change to the table that
   breaks an assumption (two switches with one letter, a switch without handler, a handler for '?') breaks this file. *)
From PatchV Require Import Base Lines Options OptionsVocab OptionsTable Cmdline Proofs_Cmdline.

Section AnyTable.
Variable sw : list (Z * list N * bool).
Variable st : list (Z * setter).

(* -cARG and -c ARG *)
Theorem short_attached_eq_separate : forall c id v rest p,
  find_short sw c = Some (id, true) -> c <> DASH -> v <> [] ->
  parse_args sw st ((DASH :: c :: v) :: rest) p = parse_args sw st ([DASH; c] :: v :: rest) p.
Proof. exact (Proofs_Cmdline.short_attached_eq_separate sw st). Qed.

(* -ab... and -a -b... *)
Theorem short_bundle : forall c id cs rest p,
  find_short sw c = Some (id, false) -> c <> DASH -> cs <> [] -> hd 0%N cs <> DASH ->
  parse_args sw st ((DASH :: c :: cs) :: rest) p = parse_args sw st ([DASH; c] :: (DASH :: cs) :: rest) p.
Proof. exact (Proofs_Cmdline.short_bundle sw st). Qed.

(* --name=ARG and --name ARG *)
Theorem long_eq_eq_separate : forall name id v rest p,
  long_shape name -> ~ In 61%N name -> long_exact sw name = Some (id, name, true) ->
  parse_args sw st ((name ++ 61%N :: v) :: rest) p = parse_args sw st (name :: v :: rest) p.
Proof. exact (Proofs_Cmdline.long_eq_eq_separate sw st). Qed.

(* an unambiguous prefix and the full long name *)
Theorem long_prefix_args : forall key name id a rest p,
  long_shape key -> long_shape name ->
  long_exact sw key = None -> long_prefixed sw key = [(id, name, a)] -> long_exact sw name = Some (id, name, a) ->
  ~ In 61%N key -> ~ In 61%N name ->
  parse_args sw st (key :: rest) p = parse_args sw st (name :: rest) p.
Proof. exact (Proofs_Cmdline.long_prefix_args sw st). Qed.

(* the short and the long form of one switch *)
Theorem short_eq_long_flag : forall c name id rest p,
  find_short sw c = Some (id, false) -> c <> DASH ->
  long_shape name -> ~ In 61%N name -> long_exact sw name = Some (id, name, false) ->
  parse_args sw st ([DASH; c] :: rest) p = parse_args sw st (name :: rest) p.
Proof. exact (Proofs_Cmdline.short_eq_long_flag sw st). Qed.

Theorem short_eq_long_arg : forall c name id v rest p,
  find_short sw c = Some (id, true) -> c <> DASH ->
  long_shape name -> ~ In 61%N name -> long_exact sw name = Some (id, name, true) ->
  parse_args sw st ([DASH; c] :: v :: rest) p = parse_args sw st (name :: v :: rest) p.
Proof. exact (Proofs_Cmdline.short_eq_long_arg sw st). Qed.

(* '--' ends option parsing: everything after it is an operand *)
Theorem dashdash_ends_options : forall rest p, parse_args sw st (bs "--" :: rest) p = operands st rest p.
Proof. exact (Proofs_Cmdline.dashdash_ends_options sw st). Qed.

(* rejections *)
Theorem third_operand_rejected : forall a b c rest o,
  find_setter st 63 = None -> is_operand a = true -> is_operand b = true -> is_operand c = true ->
  parse_args sw st (a :: b :: c :: rest) (mkPS o 0) = Throw ECmdline.
Proof. exact (Proofs_Cmdline.third_operand_rejected sw st). Qed.

Theorem unknown_short_rejected : forall c cs rest p,
  find_short sw c = None -> c <> DASH -> parse_args sw st ((DASH :: c :: cs) :: rest) p = Throw ECmdline.
Proof. exact (Proofs_Cmdline.unknown_short_rejected sw st). Qed.

Theorem unknown_or_ambiguous_long_rejected : forall key next p,
  ~ In 61%N key -> long_exact sw key = None ->
  (long_prefixed sw key = [] \/ exists e1 e2 r, long_prefixed sw key = e1 :: e2 :: r) ->
  parse_long sw st key next p = Throw ECmdline.
Proof. exact (Proofs_Cmdline.unknown_or_ambiguous_long_rejected sw st). Qed.

Theorem missing_argument_rejected : forall c id p,
  find_short sw c = Some (id, true) -> c <> DASH -> parse_args sw st [[DASH; c]] p = Throw ECmdline.
Proof. exact (Proofs_Cmdline.missing_argument_rejected sw st). Qed.
End AnyTable.

Theorem non_numeric_rejected : forall f v o,
  drop_cspace v = v -> hd 0%N v <> 43%N -> hd 0%N v <> 45%N ->
  (v = [] \/ exists c, In c v /\ is_digit c = false) ->
  apply_setter (SetInt f) v o = Throw ECmdline.
Proof. exact Proofs_Cmdline.non_numeric_rejected. Qed.

Print Assumptions short_attached_eq_separate.
Print Assumptions short_bundle.
Print Assumptions long_eq_eq_separate.
Print Assumptions long_prefix_args.
Print Assumptions short_eq_long_flag.
Print Assumptions short_eq_long_arg.
Print Assumptions dashdash_ends_options.
Print Assumptions third_operand_rejected.
Print Assumptions unknown_short_rejected.
Print Assumptions unknown_or_ambiguous_long_rejected.
Print Assumptions missing_argument_rejected.
Print Assumptions non_numeric_rejected.

(* ---- the table of this source tree ---- *)
Definition opt_eqb (a b : option (Z * bool)) : bool :=
  match a, b with
  | Some (i, x), Some (j, y) => Z.eqb i j && Bool.eqb x y
  | None, None => true
  | _, _ => false
  end.

Definition entry_ok (e : Z * list N * bool) : bool :=
  let '(id, name, a) := e in
  (* a long name of the shape --x..., without '=', found under exactly that name *)
  (match name with 45%N :: 45%N :: _ :: _ => true | _ => false end)
  && negb (existsb (N.eqb 61) name)
  && (match long_exact switches name with Some (id', name', a') => Z.eqb id id' && str_eqb name name' && Bool.eqb a a' | None => false end)
  (* a handler is registered for it *)
  && (match find_setter setters id with Some _ => true | None => false end)
  (* when it has a letter, the letter finds this very switch, and the letter is not '-' *)
  && (if Z.ltb id 128 then opt_eqb (find_short switches (Z.to_N id)) (Some (id, a)) && negb (Z.eqb id 45) else true).

Fixpoint nodupb (l : list Z) : bool :=
  match l with [] => true | x :: r => negb (existsb (Z.eqb x) r) && nodupb r end.

(* Every switch of src/options.cpp has a well-formed long name, a handler, and (when it has one) a letter that designates
   it alone; identifiers are distinct; '?' (63, the operand pseudo-option) has no handler, so operands are counted. *)
Theorem table_wf :
  forallb entry_ok switches = true /\
  nodupb (map (fun e => fst (fst e)) switches) = true /\
  find_setter setters 63 = None /\
  find_short switches 45 = None.
Proof. vm_compute. repeat split; reflexivity. Qed.
Print Assumptions table_wf.

(* hence, for the real table: the short and the long spelling of every switch that has both are the same command line *)
Theorem real_table_short_eq_long_flag : forall id name c rest p,
  In (id, name, false) switches -> (id < 128)%Z -> c = Z.to_N id ->
  parse_args switches setters ([DASH; c] :: rest) p = parse_args switches setters (name :: rest) p.
Proof.
  intros id name c rest p I L ->. destruct table_wf as (W & _). rewrite forallb_forall in W. specialize (W _ I).
  unfold entry_ok in W. apply Z.ltb_lt in L. rewrite L in W.
  apply andb_prop in W. destruct W as [W Hsd]. apply andb_prop in W. destruct W as [W Hset].
  apply andb_prop in W. destruct W as [W Hle]. apply andb_prop in W. destruct W as [Hshape H61].
  apply andb_prop in Hsd. destruct Hsd as [Hs Hd].
  apply (Proofs_Cmdline.short_eq_long_flag switches setters (Z.to_N id) name id).
  - destruct (find_short switches (Z.to_N id)) as [[j y]|]; [|discriminate]. cbn [opt_eqb] in Hs.
    apply andb_prop in Hs. destruct Hs as [X1 X2]. apply Z.eqb_eq in X1. apply Bool.eqb_prop in X2. subst. reflexivity.
  - intros E. apply negb_true_iff, Z.eqb_neq in Hd. apply Hd.
    unfold DASH in E. apply (f_equal Z.of_N) in E. rewrite Z2N.id in E; [exact E|].
    destruct id; lia.
  - destruct name as [|a [|b [|c r]]]; try discriminate.
    + destruct a as [|q]; [discriminate|]. do 6 (destruct q as [q|q|]; try discriminate).
    + destruct a as [|q]; [discriminate|]. do 6 (destruct q as [q|q|]; try discriminate).
      destruct b as [|q]; [discriminate|]. do 6 (destruct q as [q|q|]; try discriminate).
    + destruct a as [|q]; [discriminate|]. do 6 (destruct q as [q|q|]; try discriminate).
      destruct b as [|q]; [discriminate|]. do 6 (destruct q as [q|q|]; try discriminate).
      exists c, r. reflexivity.
  - intros I61. apply negb_true_iff in H61.
    assert (existsb (N.eqb 61) name = true); [|congruence]. apply existsb_exists. exists 61%N. split; [exact I61|reflexivity].
  - destruct (long_exact switches name) as [[[id' name'] a']|]; [|discriminate].
    apply andb_prop in Hle. destruct Hle as [X X3]. apply andb_prop in X. destruct X as [X1 X2].
    apply Z.eqb_eq in X1. apply Proofs_Base.str_eqb_eq in X2. apply Bool.eqb_prop in X3. subst. reflexivity.
Qed.
Print Assumptions real_table_short_eq_long_flag.

Local Open Scope string_scope.
Example c19_nonvacuous :
  (* -p1 == -p 1 == --strip=1 == --strip 1 == --str 1 on the real table *)
  let run a := match parse_args switches setters (map bs a) (mkPS default_options 0) with Ok p => Some (strip_size (p_opts p), p_pos p) | Throw _ => None end in
  run ["-p1"; "f"] = Some (1%Z, 1) /\ run ["-p"; "1"; "f"] = Some (1%Z, 1) /\ run ["--strip=1"; "f"] = Some (1%Z, 1) /\
  run ["f"; "--strip"; "1"] = Some (1%Z, 1) /\ run ["--str"; "1"; "f"] = Some (1%Z, 1) /\ run ["-Np1"; "f"] = Some (1%Z, 1) /\
  run ["--re"; "f"] = None /\ run ["-p"; "x"] = None /\ run ["a"; "b"; "c"] = None /\ run ["--"; "-p1"] = Some ((-1)%Z, 1).
Proof. vm_compute. repeat split; reflexivity. Qed.
