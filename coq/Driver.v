(* Driver.v — process_patch (src/patch.cpp) and what it calls in system.cpp / file.cpp, over World.v.
   Everything that touches the outside is an explicit operation in the state monad M.  Definitions only. *)
From PatchV Require Import Base Lines Hunk Locator Formatter Options Applier LineParser Parser World.

(* the world is kept when an exception is thrown: what had been done before stays done *)
Definition M (A : Type) := world -> res A * world.
Definition mret {A} (a : A) : M A := fun w => (Ok a, w).
Definition mbind {A B} (m : M A) (f : A -> M B) : M B :=
  fun w => match m w with (Ok a, w') => f a w' | (Throw e, w') => (Throw e, w') end.
Definition mthrow {A} (e : exn) : M A := fun w => (Throw e, w).
Notation "'let!' x ':=' m 'in' f" := (mbind m (fun x => f)) (at level 200, x pattern, m at level 100, f at level 200).
Definition mlift {A} (r : res A) : M A := fun w => (r, w).

(* perform one operation: returns None on success, Some errno on failure (tree unchanged) *)
Definition perform (o : sysop) : M (option errno) :=
  fun w =>
    let tr := trace w ++ [o] in
    match fault w with
    | Some O => (Ok (Some EIO), mkWorld (fs w) (umask w) tr None (stdout_data w))
    | f =>
        let f' := match f with Some (S k) => Some k | x => x end in
        match exec_op (fs w) (umask w) o with
        | inl m' => (Ok None, mkWorld m' (umask w) tr f' (stdout_data w))
        | inr e => (Ok (Some e), mkWorld (fs w) (umask w) tr f' (stdout_data w))
        end
    end.

(* an operation whose failure is turned into a std::system_error *)
Definition checked (o : sysop) : M unit :=
  let! r := perform o in match r with None => mret tt | Some _ => mthrow ESystem end.

Definition get_fs : M fsmap := fun w => (Ok (fs w), w).

(* ---- system.cpp ---- *)
(* remove_file_and_empty_parent_folders *)
Fixpoint rmdir_parents (fuel : nat) (p : list N) : M unit :=
  match fuel with
  | O => mret tt
  | S f =>
      match parent p with
      | None => mret tt
      | Some [] => mret tt
      | Some d =>
          if str_eqb d [46%N] then mret tt else      (* "." is where the run stands: never removed *)
          let! r := perform (ORmdir d) in
          match r with
          | None => rmdir_parents f d
          | Some ENOTEMPTY | Some EEXIST | Some EACCES => mret tt      (* not empty, or not ours to remove: the walk ends *)
          | Some _ => mthrow ESystem
          end
      end
  end.

Definition remove_file_and_empty_parent_folders (p : list N) : M unit :=
  let! _ := checked (OUnlink p) in rmdir_parents (length p) p.

(* ensure_parent_directories: every proper prefix ending before a '/' *)
Fixpoint dir_prefixes (s : list N) (cur : list N) : list (list N) :=
  match s with
  | [] => []
  | c :: r => if N.eqb c 47 then (if is_nil cur then [] else [cur]) ++ dir_prefixes r (cur ++ [c])
              else dir_prefixes r (cur ++ [c])
  end.

Fixpoint mkdirs (ds : list (list N)) : M unit :=
  match ds with
  | [] => mret tt
  | d :: r =>
      let! e := perform (OMkdir d) in
      match e with
      | None | Some EEXIST => mkdirs r
      | Some _ => mthrow ESystem
      end
  end.

Definition ensure_parent_directories (p : list N) : M unit :=
  if is_nil p then mthrow ESystem else mkdirs (dir_prefixes p []).

(* ---- patch.cpp helpers ---- *)
Definition devnull : list N := bs "/dev/null".

Definition is_adding_file (p : patch) (o : options) : bool :=
  match poper p, reverse_patch_opt o with
  | OpDelete, true => true
  | OpAdd, false => true
  | _, _ => false
  end.

Definition guess_filepath (m : fsmap) (pending : list (list N)) (p : patch) (o : options) : list N :=
  let ex x := exists_ m x || existsb (str_eqb x) pending in
  if negb (str_eqb (old_path p) devnull) && ex (old_path p) then old_path p
  else if negb (str_eqb (new_path p) devnull) && ex (new_path p) then new_path p
  else if negb (str_eqb (index_path p) devnull) && ex (index_path p) then index_path p
  else if is_adding_file p o then
    let path := if reverse_patch_opt o then old_path p else new_path p in
    if str_eqb path devnull then [] else path
  else [].

Definition output_path (o : options) (p : patch) (file_to_patch : list N) : list N :=
  if negb (is_nil (out_file_path o)) then out_file_path o
  else match poper p with
       | OpRename | OpCopy => if reverse_patch_opt o then old_path p else new_path p
       | _ => file_to_patch
       end.

Definition reject_path (o : options) (output_file : list N) : list N :=
  if is_nil (reject_file_path o) then output_file ++ bs ".rej" else reject_file_path o.

Definition backup_name (o : options) (p : list N) : list N :=
  if negb (is_nil (backup_prefix o)) && negb (is_nil (backup_suffix o)) then backup_prefix o ++ p ++ backup_suffix o
  else if negb (is_nil (backup_prefix o)) then backup_prefix o ++ p
  else if negb (is_nil (backup_suffix o)) then p ++ backup_suffix o
  else p ++ bs ".orig".

Definition format_from_options (o : options) : res format :=
  if interpret_as_context o then Ok FContext
  else if interpret_as_normal o then Ok FNormal
  else if interpret_as_unified o then Ok FUnified
  else if interpret_as_ed o then Throw EInvalidArgument
  else Ok FUnknown.

Definition is_symlink_mode (mode : N) : bool := N.eqb (N.land mode 40960) 40960.   (* 0120000 *)

(* has_prerequisite: substring search in any line *)
Fixpoint has_sub (s p : list N) : bool :=
  starts_with s p || match s with [] => false | _ :: r => has_sub r p end.
Definition has_prerequisite (ls : list line) (p : list N) : bool := existsb (fun l => has_sub (txt l) p) ls.

(* ---- driver state across sections ---- *)
Record deferred := mkDef {
  d_data : list N; d_dest : list N;
  d_newname : bool;               (* the write of a rename / copy *)
  d_backup : bool;                (* take the backup of d_dest first *)
  d_chmod_first : option N;       (* make writable first (read-only target) *)
  d_perm_after : option N }.      (* permissions to set after writing *)

Record dstate := mkDS {
  had_failure : bool;
  backed_up : list (list N);      (* m_backed_up_files *)
  deferred_writes : list deferred;
  deferred_removals : list (list N);
  events : list N }.              (* the structured part of the messages: hunk reports and summaries *)

(* Backup::make_backup_for: the part after the name has been recorded and the directory of the backup made *)
Definition backup_core (st' : dstate) (p b : list N) : M dstate :=
  let! m := get_fs in
  if exists_ m p then let! _ := checked (ORename p b) in mret st'
  else let! _ := checked (OWrite b []) in mret st'.

Definition make_backup_for (o : options) (st : dstate) (p : list N) : M dstate :=
  let b := backup_name o p in
  if existsb (str_eqb b) (backed_up st) then mret st
  else
    let st' := mkDS (had_failure st) (b :: backed_up st) (deferred_writes st) (deferred_removals st) (events st) in
    let! _ := ensure_parent_directories b in
    backup_core st' p b.

Definition write_mask : N := 146.  (* 0222 *)

(* prepare_callback + open/truncate/write + permission_callback *)
Definition write_now (o : options) (st : dstate) (d : deferred) : M dstate :=
  let! st1 := (if d_backup d then make_backup_for o st (d_dest d) else mret st) in
  let! m := get_fs in
  let! _ := (match d_chmod_first d with
             | Some mode => if exists_ m (d_dest d) then checked (OChmod (d_dest d) mode) else mret tt
             | None => mret tt
             end) in
  let! _ := checked (OWrite (d_dest d) (d_data d)) in
  let! _ := (match d_perm_after d with Some mode => checked (OChmod (d_dest d) mode) | None => mret tt end) in
  mret st1.

(* the one backup of a file is taken before the first deferred write to it, whichever of the writes to that file asks for it *)
Definition with_backup_of (all : list deferred) (d : deferred) : deferred :=
  mkDef (d_data d) (d_dest d) (d_newname d)
        (d_backup d || existsb (fun x => str_eqb (d_dest x) (d_dest d) && d_backup x) all)
        (d_chmod_first d) (d_perm_after d).

Fixpoint finalize_writes_from (o : options) (all : list deferred) (st : dstate) (ds : list deferred) : M dstate :=
  match ds with
  | [] => mret st
  | d :: r =>
      (* the directory may have gone with the last file a later section removed from it *)
      let! _ := ensure_parent_directories (d_dest d) in
      let! st' := write_now o st (with_backup_of all d) in finalize_writes_from o all st' r
  end.

Definition finalize_writes (o : options) (st : dstate) (ds : list deferred) : M dstate := finalize_writes_from o ds st ds.

Fixpoint finalize_removals (ws : list deferred) (rs : list (list N)) : M unit :=
  match rs with
  | [] => mret tt
  | p :: r =>
      let! _ := (if existsb (fun d => str_eqb (d_dest d) p) ws then mret tt else remove_file_and_empty_parent_folders p) in
      finalize_removals ws r
  end.

Definition inform_hunks_failed (reason : list N) (nh : nat) (failed : nat) : list N :=
  print_nat failed ++ bs " out of " ++ print_nat nh ++ bs " hunk" ++ (if Nat.ltb 1 nh then bs "s" else []) ++ [32%N] ++ reason.

Definition add_event (st : dstate) (e : list N) : dstate :=
  mkDS (had_failure st) (backed_up st) (deferred_writes st) (deferred_removals st) (events st ++ e).
Definition set_failure (st : dstate) : dstate :=
  mkDS true (backed_up st) (deferred_writes st) (deferred_removals st) (events st).

(* refuse_to_patch: all hunks to the reject file (unless --dry-run) *)
Fixpoint reject_all (o : options) (p : patch) (hs : list hunk) (n : nat) : res (list N) :=
  match hs with
  | [] => Ok []
  | h :: r => do a <- write_reject o p n h; do b <- reject_all o p r (S n); Ok (a ++ b)
  end.

Definition refuse_to_patch (o : options) (st : dstate) (output_file : list N) (p : patch) : M dstate :=
  let st1 := add_event st (inform_hunks_failed (bs "ignored") (length (hunks p)) (length (hunks p)) ++ [10%N]) in
  if dry_run o then mret (set_failure st1)
  else
    let! t := mlift (reject_all o p (hunks p) 0) in
    let! _ := checked (OWrite (reject_path o output_file) t) in
    mret (set_failure st1).

Definition body_if (should : bool) (p : patch) (s : stream) : M (patch * stream) :=
  if should then mlift (parse_patch_body p s) else mret (p, s).

(* what a section does once its hunks have been applied to the lines read: messages, rejects, and the writes *)
Definition section_tail (o : options) (st : dstate) (file_to_patch output_file : list N) (old_perms old_perms1 : N) (needed : bool)
           (ar : aresult) (s2 : stream) : M (dstate * stream) :=
  let p3 := r_patch ar in
  let out_bytes := lines_bytes (newline_output o) (r_out ar) in
  let st1 := add_event st (r_msgs ar) in
  (* rejects *)
  let! st2 :=
    (if negb (Nat.eqb (r_failed ar) 0) then
       let st' := set_failure (add_event st1 (inform_hunks_failed (if r_skipped ar then bs "ignored" else bs "FAILED")
                                                                  (length (hunks p3)) (r_failed ar) ++ [10%N])) in
       if dry_run o then mret st'
       else let! _ := ensure_parent_directories (reject_path o output_file) in
            let! _ := checked (OWrite (reject_path o output_file) (r_rej ar)) in mret st'
     else mret st1) in
  if str_eqb (out_file_path o) (bs "-") then
    (fun w => (Ok (st2, s2), mkWorld (fs w) (umask w) (trace w) (fault w) (stdout_data w ++ out_bytes)))
  else
  let write0 := negb (dry_run o) && negb (r_skipped ar && is_nil (out_file_path o)) in
  let should_backup := save_backup o ||
      (negb (r_perfect ar) && negb (r_skipped ar) && match backup_if_mismatch o with OBYes => true | _ => false end) in
  let first_hunk_leaves_nothing :=
    match poper p3 with
    | OpChange => match hunks p3 with h :: _ => Z.eqb (rstart (newr h)) 0 && Z.eqb (rcount (newr h)) 0 | [] => false end
    | _ => false
    end in
  let is_delete := negb (r_skipped ar) && match remove_empty_files o with
                   | OBYes => match poper p3 with OpDelete => true | _ => first_hunk_leaves_nothing end
                   | _ => false
                   end in
  let! x :=
    (if is_delete then
       if is_nil out_bytes then
         if dry_run o then mret (st2, false)
         else
           let! st3 := (if should_backup then make_backup_for o st2 output_file else mret st2) in
           let! m2 := get_fs in
           let! _ := (if exists_ m2 output_file then remove_file_and_empty_parent_folders output_file else mret tt) in
           mret (st3, false)
       else mret ((if str_eqb (new_path p3) devnull then set_failure st2 else st2), write0)
     else mret (st2, write0)) in
  let '(st4, write_to_file) := x in
  let! st5 :=
    (if write_to_file then
       let! _ := ensure_parent_directories output_file in
       let perm_after := if negb (N.eqb (new_mode p3) 0) then Some (N.land (new_mode p3) 4095)
                         else if N.eqb old_perms1 perms_unknown then None else Some old_perms1 in
       let chmod_first := if needed then Some (N.lor old_perms write_mask) else None in
       let is_git := match pfmt p3 with FGit => true | _ => false end in
       let not_delete := match poper p3 with OpDelete => false | _ => true end in
       if is_git && not_delete then
         if is_symlink_mode (new_mode p3) then
           let! st' := (if should_backup then make_backup_for o st4 output_file else mret st4) in
           let! _ := checked (OSymlink out_bytes output_file) in mret st'
         else
           mret (mkDS (had_failure st4) (backed_up st4)
                      (deferred_writes st4 ++ [mkDef out_bytes output_file (match poper p3 with OpRename | OpCopy => true | _ => false end) should_backup chmod_first perm_after])
                      (deferred_removals st4) (events st4))
       else write_now o st4 (mkDef out_bytes output_file false should_backup chmod_first perm_after)
     else mret st4) in
  let! st6 :=
    (if Nat.eqb (r_failed ar) 0 && write_to_file && match poper p3 with OpRename => true | _ => false end then
       if existsb (fun d => str_eqb (d_dest d) output_file) (deferred_writes st5) then
         mret (mkDS (had_failure st5) (backed_up st5) (deferred_writes st5) (deferred_removals st5 ++ [file_to_patch]) (events st5))
       else let! _ := remove_file_and_empty_parent_folders file_to_patch in mret st5
     else mret st5) in
  mret (st6, s2).


(* fix_permissions_if_needed: the permissions an earlier section of this run is going to leave the file with (its write is
   still deferred) count before those on disk *)
Definition effective_perms (st : dstate) (m : fsmap) (f : list N) : N :=
  match find (fun d => str_eqb (d_dest d) f) (rev (deferred_writes st)) with
  | Some d => match d_perm_after d with Some pm => pm | None => get_permissions m f end
  | None => get_permissions m f
  end.

(* DeferredWriter::pending_write_to: the last deferred write to this path, unless it is the write of a rename / copy over a
   name that exists -- and only when this section writes the file it reads: the source of a copy or a rename is the file as
   it was before the run *)
Definition pending_content (st : dstate) (m : fsmap) (file_to_patch output_file : list N) : option (list N) :=
  if str_eqb file_to_patch output_file then
    match find (fun d => str_eqb (d_dest d) file_to_patch) (rev (deferred_writes st)) with
    | Some d => if d_newname d && exists_ m file_to_patch then None else Some (d_data d)
    | None => None
    end
  else None.

(* one section of the loop in process_patch, after the header has been parsed *)
Definition process_section (o : options) (st : dstate) (should : bool) (p : patch) (s : stream)
  : M (dstate * stream) :=
  let! m := get_fs in
  let file_to_patch := if is_nil (file_to_patch o) then guess_filepath m (map d_dest (deferred_writes st)) p o else file_to_patch o in
  if is_nil file_to_patch then mthrow ESystem               (* prompt_for_filepath: there is no terminal *)
  else
  let output_file := output_path o p file_to_patch in
  if exists_ m file_to_patch && negb (is_regular_file m file_to_patch) then
    let! ps := body_if should p s in
    let! st' := refuse_to_patch o st output_file (fst ps) in mret (st', snd ps)
  else
  let old_perms := effective_perms st m output_file in
  let needed := N.eqb (N.land old_perms write_mask) 0 in
  if needed && match read_only o with ROFail => true | _ => false end then
    let! ps := body_if should p s in
    let! st' := refuse_to_patch o st output_file (fst ps) in mret (st', snd ps)
  else
  let old_perms1 :=
    if N.eqb old_perms perms_unknown && match poper p with OpRename | OpCopy => true | _ => false end
    then get_permissions m file_to_patch else old_perms in
  (* read the file to patch *)
  (* DeferredWriter::pending_write_to: the last deferred write to this path, unless it is the write of a rename / copy
     over a name that exists *)
  let pending := pending_content st m file_to_patch output_file in
  let! input_lines :=
    (match pending with
     | Some data => mret (split_lines data)
     | None =>
         let! r := perform (OOpenRead file_to_patch) in
         match r with
         | None => match stat m file_to_patch with
                   | Some (Reg d _) => mret (split_lines d)
                   | _ => mthrow ESystem                      (* reading a directory fails *)
                   end
         | Some ENOENT => if is_adding_file p o then mret [] else mthrow ESystem
         | Some _ => mthrow ESystem
         end
     end) in
  let! _ := (if negb (is_nil (prereq p)) && negb (has_prerequisite input_lines (prereq p)) then
               if batch o then mthrow ERuntime else if force o then mret tt else mthrow ESystem
             else mret tt) in
  let p1 := match poper p with
            | OpRename => if str_eqb file_to_patch output_file then set_oper p OpChange else p
            | _ => p
            end in
  let! ps := body_if should p1 s in
  let '(p2, s2) := ps in
  let! ar := mlift (apply_patch o input_lines p2) in
  section_tail o st file_to_patch output_file old_perms old_perms1 needed ar s2.

Fixpoint section_loop (fuel : nat) (o : options) (f : format) (st : dstate) (s : stream) (first : bool) : M dstate :=
  match fuel with
  | O => mthrow EOutOfFuel
  | S k =>
      if seof s then mret st
      else
        let! x := mlift (parse_patch_header_full (empty_patch f) (strip_size o) s) in
        let '(should, p, s1, found) := x in
        match (if negb found && should then FUnknown else pfmt p) with
        | FUnknown => if first then mthrow EInvalidArgument else mret st
        | _ =>
            match poper p with
            | OpBinary => section_loop k o f (set_failure st) s1 false
            | _ =>
                let! y := process_section o st should p s1 in
                section_loop k o f (fst y) (snd y) false
            end
        end
  end.

(* process_patch after option parsing: patch_bytes = the patch as read from -i or standard input *)
Definition process_patch (o : options) (patch_bytes : list N) : M (nat * list N) :=
  let! f := mlift (format_from_options o) in
  let st0 := mkDS false [] [] [] [] in
  let! st := section_loop (S (S (length patch_bytes))) o f st0 (stream_of patch_bytes) true in
  let! st1 := finalize_writes o st (deferred_writes st) in
  let! _ := finalize_removals (deferred_writes st) (deferred_removals st) in
  mret (if had_failure st1 then 1 else 0, events st1).

(* the whole run on a world: (exit status, events, world afterwards).  A Throw that reaches main is status 2;
   the tree keeps whatever had been done before the throw. *)
Definition patch_file_bytes (o : options) (stdin : list N) : M (list N) :=
  if is_nil (patch_file_path o) || str_eqb (patch_file_path o) (bs "-") then mret stdin
  else
    let! r := perform (OOpenRead (patch_file_path o)) in
    let! m := get_fs in
    match r with
    | None => match stat m (patch_file_path o) with
              | Some (Reg d _) => mret d
              | _ => mthrow ESystem
              end
    | Some _ => mthrow ESystem
    end.

Record run_result := mkRR { rr_exit : nat; rr_events : list N; rr_world : world }.

Definition run_patch (o : options) (stdin : list N) (w : world) : run_result :=
  match (let! b := patch_file_bytes o stdin in process_patch o b) w with
  | (Ok (code, ev), w') => mkRR code ev w'
  | (Throw _, w') => mkRR 2 [] w'
  end.
