(* Proofs_Conf.v — C01 at hunk level: applying conforming hunks to A yields exactly B, every hunk at
   its stated line, nothing rejected; C05: the reverse of a conforming diff is conforming. *)
From PatchV Require Import Base Lines Hunk Locator Formatter Options Applier Spec_Locate Spec_Apply
     Proofs_Base Proofs_Ws Proofs_Locate Proofs_Apply.

Lemma lmatch_refl ws l : lmatch ws l l.
Proof. unfold lmatch. destruct ws; reflexivity. Qed.

Lemma Forall2_refl {A} (R : A -> A -> Prop) : (forall x, R x x) -> forall l, Forall2 R l l.
Proof. intros H l; induction l; constructor; auto. Qed.

Lemma middle_0_0 {A} (l : list A) : middle 0 0 l = l.
Proof. unfold middle. cbn [skipn]. rewrite !Nat.sub_0_r. apply firstn_all. Qed.

Lemma sat64_id z : (MINZ <= z <= MAXZ)%Z -> sat64 z = z.
Proof. unfold sat64, MINZ, MAXZ. lia. Qed.

(* the locator on a file that carries the hunk's old side at the stated place *)
Lemma locate_conf ws F cursor (f pre post : list line) (h : hunk) :
  f = pre ++ old_side (body h) ++ post ->
  body h <> [] ->
  rcount (oldr h) = Z.of_nat (length (old_side (body h))) ->
  rstart (oldr h) = (if Z.eqb (rcount (oldr h)) 0 then Z.of_nat (length pre) else Z.of_nat (length pre) + 1)%Z ->
  cursor <= length pre -> (0 <= F)%Z ->
  (Z.of_nat (length f) < MAXZ)%Z ->
  locate_hunk f h ws 0 F cursor = Some (mkLoc (length pre) 0 0).
Proof.
  intros Ef Hb Hc Hs Hcur HF Hlen.
  assert (Hpre : (Z.of_nat (length pre) < MAXZ)%Z).
  { rewrite Ef in Hlen. rewrite app_length in Hlen. lia. }
  destruct (Z.eqb (rcount (oldr h)) 0) eqn:E.
  - apply Z.eqb_eq in E.
    assert (Hsp : stated_pos h 0 = Z.of_nat (length pre)).
    { unfold stated_pos. apply Z.eqb_eq in E. rewrite E. rewrite Hs.
      unfold sadd, ssub, sat64, MINZ, MAXZ in *. lia. }
    rewrite (locate_insertion_complete f h ws 0 F cursor E).
    + rewrite Hsp. rewrite Nat2Z.id. reflexivity.
    + rewrite Hsp. rewrite Ef. rewrite app_length. lia.
  - apply Z.eqb_neq in E.
    assert (Hold : old_side (body h) <> []).
    { intros Hn. rewrite Hn in Hc. cbn in Hc. contradiction. }
    apply locate_exact_at_stated.
    + exact E.
    + unfold Admissible. split; [exact Hcur|]. split; [lia|].
      assert (P0 : pfz (body h) 0 = 0) by (unfold pfz; lia).
      assert (S0 : sfz (body h) 0 = 0) by (unfold sfz; lia).
      rewrite P0, S0. split; [destruct (body h); [contradiction|cbn; lia]|].
      cbv zeta. rewrite middle_0_0, Nat.add_0_r. rewrite Ef.
      rewrite skipn_app, skipn_all, Nat.sub_diag. cbn [skipn app].
      rewrite firstn_app, firstn_all, Nat.sub_diag. cbn [firstn]. rewrite app_nil_r.
      apply Forall2_refl. apply lmatch_refl.
    + rewrite Ef. rewrite !app_length. destruct (old_side (body h)); [contradiction|cbn; lia].
    + exact HF.
    + unfold stated_pos. apply Z.eqb_neq in E. rewrite E. rewrite Hs.
      unfold sadd, ssub, sat64, MINZ, MAXZ in *. lia.
Qed.

(* context lines are taken from the file: when the file carries the old side, the result is the new side *)
Lemma splice_conf : forall b pre post,
  splice (pre ++ old_side b ++ post) (length pre) b = new_side b.
Proof.
  induction b as [|p r IH]; intros pre post; cbn [splice]; [reflexivity|].
  rewrite old_side_cons, new_side_cons. unfold is_add, is_del.
  destruct (pop p) eqn:E.
  - replace (pre ++ (pl p :: old_side r) ++ post) with ((pre ++ [pl p]) ++ old_side r ++ post)
      by (rewrite <- app_assoc; reflexivity).
    rewrite nth_error_app1 by (rewrite app_length; cbn; lia).
    rewrite nth_error_app2 by lia. rewrite Nat.sub_diag. cbn [nth_error app].
    specialize (IH (pre ++ [pl p]) post). rewrite app_length in IH. cbn [length] in IH.
    replace (length pre + 1) with (S (length pre)) in IH by lia. rewrite IH. reflexivity.
  - rewrite IH. reflexivity.
  - replace (pre ++ (pl p :: old_side r) ++ post) with ((pre ++ [pl p]) ++ old_side r ++ post)
      by (rewrite <- app_assoc; reflexivity).
    specialize (IH (pre ++ [pl p]) post). rewrite app_length in IH. cbn [length] in IH.
    replace (length pre + 1) with (S (length pre)) in IH by lia. exact IH.
Qed.

Lemma splice_conf_eq f b pre post : f = pre ++ old_side b ++ post -> splice f (length pre) b = new_side b.
Proof. intros ->. apply splice_conf. Qed.

Lemma copy_range_eq (f pre gap rest : list line) :
  f = pre ++ gap ++ rest -> copy_range f (length pre) (length pre + length gap) = gap.
Proof.
  intros ->. unfold copy_range. rewrite skipn_app, skipn_all, Nat.sub_diag. cbn [skipn app].
  replace (length pre + length gap - length pre) with (length gap) by lia.
  rewrite firstn_app, firstn_all, Nat.sub_diag. cbn [firstn]. apply app_nil_r.
Qed.

(* the effect of one perfectly located hunk on the loop state, without -D and --verbose *)
Lemma apply_one_perfect o p f k s h g :
  define_macro o = [] -> verbose o = false -> a_skip s = false ->
  apply_one o p f k s h (Some (mkLoc g 0 0)) =
  Ok (mkAS (a_out s ++ copy_range f (a_ln s) g ++ splice f g (body h)) (a_rej s) (a_rejected s)
           (g + length (old_side (body h))) (a_o2n s + (rcount (newr h) - rcount (oldr h)))%Z
           (sadd (a_offerr s) 0) false (a_perfect s && true) (a_msgs s) (a_hunks s ++ [h])).
Proof.
  intros Hd Hv Hs. unfold apply_one. rewrite Hd, Hs, Hv. cbn [is_nil negb lline loffset].
  rewrite write_hunk_splice. cbn [rbind fst snd]. cbn. reflexivity.
Qed.

(* a patch that creates a file (old file /dev/null) is only meaningful against an absent or empty file *)
Definition creation_guard (p : patch) (f : list line) : Prop := creates_file p = true -> f = [].

Lemma locate_for_guard p f h ws off F lo : creation_guard p f -> locate_for p f h ws off F lo = locate_hunk f h ws off F lo.
Proof.
  intros G. unfold locate_for. destruct (creates_file p) eqn:E; [|reflexivity].
  rewrite (G E). reflexivity.
Qed.

Lemma apply_rest_conf o p : define_macro o = [] -> verbose o = false -> (0 <= max_fuzz o)%Z ->
  forall hs a b A' B' done s k f,
  Conf a b A' B' hs -> f = done ++ A' -> length done = a ->
  (Z.of_nat (length f) < MAXZ)%Z ->
  creation_guard p f ->
  a_ln s = a -> a_offerr s = 0%Z -> a_skip s = false ->
  exists s', apply_rest o p f k s hs = Ok s' /\
             a_out s' ++ skipn (a_ln s') f = a_out s ++ B' /\
             a_rejected s' = a_rejected s /\ a_rej s' = a_rej s /\ a_skip s' = false /\
             a_perfect s' = a_perfect s /\ a_msgs s' = a_msgs s.
Proof.
  intros Hd Hv HF. induction hs as [|h hs IH]; intros a b A' B' done s k f HC Ef Hlen Hmax Hk Hln Hoff Hsk.
  - inversion HC; subst. exists s. cbn [apply_rest]. rewrite Hln.
    rewrite skipn_app, skipn_all, Nat.sub_diag. cbn. repeat split; auto.
  - inversion HC as [|a0 b0 gap h0 hs0 A0 B0 Hb Hoc Hnc Hos Hns HC']; subst a0 b0 h0 hs0 A' B'.
    cbn [apply_rest]. rewrite Hoff. rewrite (locate_for_guard p f h _ _ _ _ Hk).
    assert (E1 : f = (done ++ gap) ++ old_side (body h) ++ A0) by (rewrite Ef, <- app_assoc; reflexivity).
    assert (E2 : f = (done ++ gap ++ old_side (body h)) ++ A0) by (rewrite Ef, <- !app_assoc; reflexivity).
    assert (Lg : length (done ++ gap) = a + length gap) by (rewrite app_length; lia).
    rewrite (locate_conf (ignore_whitespace o) (max_fuzz o) (a_ln s) f (done ++ gap) A0 h E1 Hb Hoc).
    + rewrite (apply_one_perfect o p f k s h _ Hd Hv Hsk). cbn [rbind].
      set (s1 := mkAS _ _ _ _ _ _ _ _ _ _).
      destruct (IH _ _ A0 B0 (done ++ gap ++ old_side (body h)) s1 (S k) f HC' E2) as (s' & Es & Ho & Hr & Hrej & Hs' & Hp & Hm).
      * rewrite !app_length. lia.
      * exact Hmax.
      * exact Hk.
      * unfold s1. cbn [a_ln]. rewrite Lg. lia.
      * unfold s1. cbn [a_offerr]. rewrite Hoff. reflexivity.
      * reflexivity.
      * exists s'. split; [exact Es|]. split.
        -- rewrite Ho. unfold s1. cbn [a_out]. rewrite <- !app_assoc. f_equal.
           rewrite (splice_conf_eq f (body h) (done ++ gap) A0 E1).
           rewrite Lg, Hln, <- Hlen. rewrite (copy_range_eq f done gap (old_side (body h) ++ A0) Ef). reflexivity.
        -- unfold s1 in *. cbn [a_rejected a_rej a_skip a_perfect a_msgs] in *. repeat split; auto.
           rewrite Hp. apply andb_true_r.
    + rewrite Lg. rewrite Hos. rewrite Nat2Z.inj_add. reflexivity.
    + rewrite Lg. lia.
    + exact HF.
    + exact Hmax.
Qed.

Lemma apply_first_perfect o p f s h hs :
  loc_perfect (locate_for p f h (ignore_whitespace o) (a_offerr s) (max_fuzz o) (a_ln s)) = true ->
  apply_first o p f s (h :: hs) = with_patch p (apply_rest o p f 0 s (h :: hs)).
Proof.
  intros H. cbn [apply_first apply_rest]. unfold should_check_if_patch_is_reversed. rewrite H. reflexivity.
Qed.

Definition effective (o : options) (p : patch) : patch := if reverse_patch_opt o then reverse_patch p else p.

Lemma apply_conforming_gen_full o p A B :
  define_macro o = [] -> verbose o = false -> (0 <= max_fuzz o)%Z ->
  Conforming A B (hunks (effective o p)) -> (Z.of_nat (length A) < MAXZ)%Z ->
  creation_guard (effective o p) A ->
  exists r, apply_patch o A p = Ok r /\ r_out r = B /\ r_failed r = 0 /\ r_rej r = [] /\
            r_skipped r = false /\ r_perfect r = true /\ r_msgs r = [] /\
            exists hs', r_patch r = set_hunks (effective o p) hs'.
Proof.
  intros Hd Hv HF HC Hmax Hk. unfold apply_patch. fold (effective o p). fold init_state.
  set (p1 := effective o p) in *.
  assert (Hrest : exists s', apply_first o p1 A init_state (hunks p1) = Ok (s', p1) /\
             a_out s' ++ skipn (a_ln s') A = B /\ a_rejected s' = 0 /\ a_rej s' = [] /\ a_skip s' = false /\
             a_perfect s' = true /\ a_msgs s' = []).
  { destruct (apply_rest_conf o p1 Hd Hv HF (hunks p1) 0 0 A B [] init_state 0 A HC eq_refl eq_refl Hmax Hk eq_refl eq_refl eq_refl)
      as (s' & Es & Ho & H1 & H2 & H3 & H4 & H5).
    exists s'. split; [|cbn in *; repeat split; assumption].
    destruct (hunks p1) as [|h hs] eqn:Eh; [cbn in Es |- *; congruence|].
    rewrite apply_first_perfect; [unfold with_patch; rewrite Es; reflexivity|].
    unfold Conforming in HC. inversion HC as [|a0 b0 gap h0 hs0 A0 B0 Hb Hoc Hnc Hos Hns HC' Ea Eb]; subst.
    cbn [a_offerr a_ln init_state]. rewrite (locate_for_guard p1 _ h _ _ _ _ Hk).
    rewrite (locate_conf (ignore_whitespace o) (max_fuzz o) 0 (gap ++ old_side (body h) ++ A0) gap A0 h eq_refl Hb Hoc Hos).
    - reflexivity.
    - lia.
    - exact HF.
    - exact Hmax. }
  destruct Hrest as (s' & Es & Ho & H1 & H2 & H3 & H4 & H5). rewrite Es. cbn [rbind].
  eexists. split; [reflexivity|]. cbn [r_out r_failed r_rej r_skipped r_perfect r_msgs r_patch fst snd].
  repeat split; try assumption. eexists. reflexivity.
Qed.

Theorem apply_conforming_gen o p A B :
  define_macro o = [] -> verbose o = false -> (0 <= max_fuzz o)%Z ->
  Conforming A B (hunks (effective o p)) -> (Z.of_nat (length A) < MAXZ)%Z ->
  creation_guard (effective o p) A ->
  exists r, apply_patch o A p = Ok r /\ r_out r = B /\ r_failed r = 0 /\ r_rej r = [] /\
            r_skipped r = false /\ r_perfect r = true /\ r_msgs r = [].
Proof.
  intros Hd Hv HF HC Hmax Hk.
  destruct (apply_conforming_gen_full o p A B Hd Hv HF HC Hmax Hk) as (r & H1 & H2 & H3 & H4 & H5 & H6 & H7 & _).
  exists r. repeat split; assumption.
Qed.


(* C01, hunk level.  For every option record without -R, -D and --verbose (any -F >= 0, -l, -N/-t/-f,
   newline mode, reject format), conforming hunks applied to A give exactly B: every hunk at its stated
   line, none rejected, the run counted as perfect (hence no backup), no message, no question. *)
Theorem apply_conforming o p A B :
  define_macro o = [] -> verbose o = false -> reverse_patch_opt o = false -> (0 <= max_fuzz o)%Z ->
  Conforming A B (hunks p) -> (Z.of_nat (length A) < MAXZ)%Z -> creation_guard p A ->
  exists r, apply_patch o A p = Ok r /\ r_out r = B /\ r_failed r = 0 /\ r_rej r = [] /\
            r_skipped r = false /\ r_perfect r = true /\ r_msgs r = [].
Proof.
  intros Hd Hv Hr HF HC Hmax Hk. apply apply_conforming_gen; auto; unfold effective; rewrite Hr; assumption.
Qed.

(* ---------- C05: reversal ---------- *)
Lemma old_side_reverse b : old_side (map reverse_pline b) = new_side b.
Proof.
  induction b as [|p r IH]; [reflexivity|]. cbn [map]. rewrite old_side_cons, new_side_cons, IH.
  unfold is_add, is_del, reverse_pline. cbn. destruct (pop p); reflexivity.
Qed.

Lemma new_side_reverse b : new_side (map reverse_pline b) = old_side b.
Proof.
  induction b as [|p r IH]; [reflexivity|]. cbn [map]. rewrite old_side_cons, new_side_cons, IH.
  unfold is_add, is_del, reverse_pline. cbn. destruct (pop p); reflexivity.
Qed.

Lemma reverse_hunk_involutive h : reverse_hunk (reverse_hunk h) = h.
Proof.
  destruct h as [o n b]. unfold reverse_hunk. cbn. f_equal. rewrite map_map.
  rewrite <- (map_id b) at 2. apply map_ext. intros [op l]. unfold reverse_pline. cbn. destruct op; reflexivity.
Qed.

Theorem conforming_reverse : forall hs a b A B,
  Conf a b A B hs -> Conf b a B A (map reverse_hunk hs).
Proof.
  induction hs as [|h hs IH]; intros a b A B HC; inversion HC; subst; cbn [map]; [constructor|].
  assert (Eo : old_side (body (reverse_hunk h)) = new_side (body h)) by apply old_side_reverse.
  assert (En : new_side (body (reverse_hunk h)) = old_side (body h)) by apply new_side_reverse.
  rewrite <- Eo, <- En.
  constructor; cbn [reverse_hunk oldr newr body]; try rewrite old_side_reverse; try rewrite new_side_reverse; auto.
  intros E. destruct (body h); [contradiction|discriminate].
Qed.

(* C05, hunk level: a diff of A to B applied with -R to B gives exactly A *)
Theorem apply_reverse o p A B :
  define_macro o = [] -> verbose o = false -> reverse_patch_opt o = true -> (0 <= max_fuzz o)%Z ->
  Conforming A B (hunks p) -> (Z.of_nat (length B) < MAXZ)%Z ->
  creation_guard (reverse_patch p) B ->
  exists r, apply_patch o B p = Ok r /\ r_out r = A /\ r_failed r = 0 /\ r_rej r = [] /\
            r_skipped r = false /\ r_perfect r = true /\ r_msgs r = [].
Proof.
  intros Hd Hv Hr HF HC Hmax Hk. apply apply_conforming_gen; auto; unfold effective; rewrite Hr; cbn [reverse_patch hunks].
  - apply conforming_reverse. exact HC.
  - exact Hk.
Qed.
