(* Proofs_Ws.v — matches_ignoring_whitespace (two-cursor loop) decides equality of norm_ws. *)
From PatchV Require Import Base Lines Hunk Locator Spec_Locate Proofs_Base.

Lemma ws_not_32 c : is_whitespace c = false -> N.eqb c 32 = false.
Proof. unfold is_whitespace. intros H. apply orb_false_iff in H. tauto. Qed.

Lemma drop_ws_length s : length (drop_ws s) <= length s.
Proof. induction s as [|c r IH]; cbn; [lia|]. destruct (is_whitespace c); cbn; lia. Qed.

Lemma norm_ws_cons c r : norm_ws (c :: r) =
  if is_whitespace c then match norm_ws r with [] => [] | d :: _ => if N.eqb d 32 then norm_ws r else 32%N :: norm_ws r end
  else c :: norm_ws r.
Proof. reflexivity. Qed.

Lemma norm_ws_nonws c r : is_whitespace c = false -> norm_ws (c :: r) = c :: norm_ws r.
Proof. intros H; rewrite norm_ws_cons, H. reflexivity. Qed.

(* a blank in front: the whole run it starts collapses to one blank, or to nothing at the end *)
Lemma norm_ws_ws c r : is_whitespace c = true ->
  norm_ws (c :: r) = match drop_ws r with [] => [] | _ => 32%N :: norm_ws (drop_ws r) end.
Proof.
  revert c; induction r as [|d r IH]; intros c Hc.
  - cbn. rewrite Hc. reflexivity.
  - rewrite norm_ws_cons, Hc.
    destruct (is_whitespace d) eqn:Hd.
    + rewrite (IH d Hd). cbn [drop_ws]. rewrite Hd.
      destruct (drop_ws r) eqn:E; [reflexivity|]. cbn. reflexivity.
    + cbn [drop_ws]. rewrite Hd. rewrite (norm_ws_nonws d r Hd).
      rewrite (ws_not_32 d Hd). reflexivity.
Qed.

Lemma norm_ws_nil_iff s : norm_ws s = [] <-> drop_ws s = [].
Proof.
  destruct s as [|c r]; [cbn; tauto|].
  destruct (is_whitespace c) eqn:Hc.
  - rewrite (norm_ws_ws c r Hc). cbn [drop_ws]. rewrite Hc.
    destruct (drop_ws r); split; congruence.
  - rewrite (norm_ws_nonws c r Hc). cbn [drop_ws]. rewrite Hc. split; discriminate.
Qed.

Lemma drop_ws_head s c r : drop_ws s = c :: r -> is_whitespace c = false.
Proof.
  induction s as [|d s IH]; cbn; [discriminate|].
  destruct (is_whitespace d) eqn:Hd; [exact IH|]. intros [= <- <-]. exact Hd.
Qed.

Definition P (a b : list N) : Prop := norm_ws a = norm_ws b.

Lemma mws_step_inl a b r : mws_step a b = inl r -> (r = true <-> P a b).
Proof.
  unfold P, mws_step. destruct b as [|cb rb].
  - destruct a as [|ca ra]; [intros [= <-]; cbn; tauto|].
    destruct (is_whitespace ca) eqn:Hca; intros [= <-].
    + rewrite is_nil_true. change (norm_ws []) with (@nil N).
      rewrite (norm_ws_nil_iff (ca :: ra)). cbn [drop_ws]. rewrite Hca. tauto.
    + rewrite (norm_ws_nonws _ _ Hca). cbn. split; discriminate.
  - destruct (is_whitespace cb) eqn:Hcb.
    + rewrite (norm_ws_ws cb rb Hcb).
      destruct a as [|ca ra].
      * intros [= <-]. rewrite is_nil_true. cbn [norm_ws]. destruct (drop_ws rb); split; congruence.
      * destruct (is_whitespace ca) eqn:Hca; cbn [negb].
        -- rewrite (norm_ws_ws ca ra Hca).
           destruct (drop_ws ra) as [|xa ta] eqn:Ea; cbn [is_nil].
           ++ intros [= <-]. rewrite is_nil_true. destruct (drop_ws rb); split; congruence.
           ++ destruct (drop_ws rb) as [|xb tb] eqn:Eb; cbn [is_nil]; [|discriminate].
              intros [= <-]. split; discriminate.
        -- intros [= <-]. rewrite (norm_ws_nonws _ _ Hca).
           split; [discriminate|]. destruct (drop_ws rb); [discriminate|].
           intros [= E _]. subst ca. cbn in Hca. discriminate.
    + rewrite (norm_ws_nonws _ _ Hcb).
      destruct a as [|ca ra]; [intros [= <-]; cbn; split; discriminate|].
      destruct (N.eqb ca cb) eqn:E; [discriminate|]. intros [= <-].
      split; [discriminate|]. intros H. exfalso.
      destruct (is_whitespace ca) eqn:Hca.
      * rewrite (norm_ws_ws _ _ Hca) in H. destruct (drop_ws ra); [discriminate|].
        injection H as H _. subst cb. cbn in Hcb. discriminate.
      * rewrite (norm_ws_nonws _ _ Hca) in H. injection H as H _. subst. rewrite N.eqb_refl in E. discriminate.
Qed.

Lemma mws_step_inr a b a' b' : mws_step a b = inr (a', b') -> (P a b <-> P a' b') /\ length b' < length b.
Proof.
  unfold P, mws_step. destruct b as [|cb rb].
  - destruct a as [|ca ra]; [discriminate|]. destruct (is_whitespace ca); discriminate.
  - destruct (is_whitespace cb) eqn:Hcb.
    + destruct a as [|ca ra]; [discriminate|].
      destruct (is_whitespace ca) eqn:Hca; cbn [negb]; [|discriminate].
      destruct (drop_ws ra) as [|xa ta] eqn:Ea; cbn [is_nil]; [discriminate|].
      destruct (drop_ws rb) as [|xb tb] eqn:Eb; cbn [is_nil]; [discriminate|].
      intros [= <- <-]. rewrite (norm_ws_ws _ _ Hca), (norm_ws_ws _ _ Hcb), Ea, Eb.
      split; [split; [intros [= H]; exact H | intros ->; reflexivity]|].
      pose proof (drop_ws_length rb) as L. rewrite Eb in L. cbn [length] in *. lia.
    + destruct a as [|ca ra]; [discriminate|].
      destruct (N.eqb ca cb) eqn:E; [|discriminate]. apply N.eqb_eq in E. subst ca.
      intros [= <- <-]. rewrite !(norm_ws_nonws _ _ Hcb).
      split; [split; [intros [= H]; exact H | intros ->; reflexivity]|]. cbn; lia.
Qed.

Lemma mws_loop_spec fuel : forall a b, length b < fuel -> (mws_loop fuel a b = true <-> P a b).
Proof.
  induction fuel as [|f IH]; intros a b Hf; [lia|].
  cbn [mws_loop]. destruct (mws_step a b) as [r|[a' b']] eqn:E.
  - apply mws_step_inl in E. exact E.
  - apply mws_step_inr in E. destruct E as [E L]. rewrite E. apply IH. lia.
Qed.

Theorem mws_spec a b : matches_ignoring_whitespace a b = true <-> norm_ws a = norm_ws b.
Proof. unfold matches_ignoring_whitespace. apply mws_loop_spec. lia. Qed.

Lemma line_eq_iff (c p : line) : c = p <-> txt c = txt p /\ nl c = nl p.
Proof. destruct c, p; cbn; split; [intros [= -> ->]; auto|intros [-> ->]; reflexivity]. Qed.

Theorem matches_spec c p ws : matches c p ws = true <-> lmatch ws c p.
Proof.
  unfold matches, lmatch.
  destruct (newline_eqb (nl c) (nl p)) eqn:En; destruct (str_eqb (txt c) (txt p)) eqn:Et; cbn [andb].
  - apply newline_eqb_eq in En. apply str_eqb_eq in Et.
    destruct ws; split; auto; intros _; [rewrite Et; reflexivity | apply line_eq_iff; auto].
  - destruct ws; cbn [negb].
    + apply mws_spec.
    + split; [discriminate|]. intros ->. rewrite str_eqb_refl in Et. discriminate.
  - apply str_eqb_eq in Et. destruct ws; cbn [negb].
    + split; auto. intros _. rewrite Et. reflexivity.
    + split; [discriminate|]. intros ->. destruct (nl p); discriminate.
  - destruct ws; cbn [negb].
    + apply mws_spec.
    + split; [discriminate|]. intros ->. rewrite str_eqb_refl in Et. discriminate.
Qed.

Lemma lmatchb_spec ws c p : lmatchb ws c p = true <-> lmatch ws c p.
Proof.
  unfold lmatchb, lmatch, line_eqb. destruct ws.
  - apply str_eqb_eq.
  - rewrite andb_true_iff, str_eqb_eq, newline_eqb_eq. symmetry. apply line_eq_iff.
Qed.
