(* Properties_C11.v — C11 over the parser model: surrounding text is ignored; a section ends where its hunks end.
   Statements only; proofs in Proofs_Filler.v and Proofs_Unified.v. *)
From PatchV Require Import Base Lines Hunk LineParser Parser Proofs_Unified Proofs_Filler.

(* the header scan does not depend on how many lines came before: k lines further down it takes the same decisions and
   records line numbers k larger *)
Theorem header_step_shift : forall k strip st line,
  header_step strip (shift k st) line = shift_r k (header_step strip st line).
Proof. exact Proofs_Filler.header_step_shift. Qed.
Print Assumptions header_step_shift.

(* Text in front of a section (mail headers, commit messages, blank lines: lines on which the scan does nothing but count,
   [Filler]) changes nothing: the scan of "filler + section" finds the same patch record, takes the same decision about the
   body and leaves the stream at the same place as the scan of the section alone. *)
Theorem filler_prefix : forall strip p ls rest_ should p' s1,
  Forall (Filler strip p) ls -> Forall clean ls ->
  parse_patch_header_full p strip (strm rest_) = Ok (should, p', s1, true) ->
  parse_patch_header_full p strip (strm (join_lines ls ++ rest_)) = Ok (should, p', s1, true).
Proof. exact Proofs_Filler.filler_prefix. Qed.
Print Assumptions filler_prefix.

(* A section ends where its hunks end: the unified body parser returns exactly the hunks of the section and leaves the
   stream at the first line that is not part of it (text, or the header of the next section), untouched. *)
Theorem unified_section_stops : forall hs tail,
  hs <> [] -> Forall wf_hunk hs -> tail_ok tail ->
  parse_unified_patch (strm (emit_hunks hs ++ tail)) = Ok (hs, after tail).
Proof. exact Proofs_Unified.unified_roundtrip. Qed.
Print Assumptions unified_section_stops.

Local Open Scope string_scope.
Definition nlb : list N := [10%N].
Definition ex_filler := [bs "From: someone"; bs "Subject: [PATCH] fix"; []; bs "Some text, and more."; bs "diff -ruN a/f b/f"].
Definition ex_section := bs "--- a/f" ++ nlb ++ bs "+++ b/f" ++ nlb ++ bs "@@ -1 +1 @@" ++ nlb ++ bs "-a" ++ nlb ++ bs "+b" ++ nlb.
Example filler_nonvacuous :
  Forall (Filler 1 (empty_patch FUnknown)) ex_filler /\ Forall clean ex_filler /\
  match parse_patch_header_full (empty_patch FUnknown) 1 (strm ex_section) with
  | Ok (should, p, s1, found) => found = true /\ old_path p = bs "f" /\ rest s1 = bs "@@ -1 +1 @@" ++ nlb ++ bs "-a" ++ nlb ++ bs "+b" ++ nlb
  | Throw _ => False
  end /\
  parse_patch_header_full (empty_patch FUnknown) 1 (strm (join_lines ex_filler ++ ex_section)) =
  parse_patch_header_full (empty_patch FUnknown) 1 (strm ex_section).
Proof.
  split; [|split; [|split]].
  - repeat constructor; vm_compute; reflexivity.
  - repeat constructor; vm_compute; intuition discriminate.
  - vm_compute. repeat split; reflexivity.
  - vm_compute. reflexivity.
Qed.
