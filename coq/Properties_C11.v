(* Properties_C11.v — C11 over the parser model: surrounding text is ignored; a section ends where its hunks end.
   Statements only; proofs in Proofs_Filler.v and Proofs_Unified.v. *)
From PatchV Require Import Base Lines Hunk Locator Formatter Options Applier LineParser Parser World Driver
     Proofs_Unified Proofs_Filler Proofs_Sections Proofs_Sections_Unified.

(* the header scan does not depend on how many lines came before: k lines further down it takes the same decisions and
   records line numbers k larger *)
Theorem header_step_shift : forall k strip st line,
  header_step strip (shift k st) line = shift_r k (header_step strip st line).
Proof. exact Proofs_Filler.header_step_shift. Qed.
Print Assumptions header_step_shift.

(* Text in front of a section (mail headers, commit messages, blank lines: lines on which the scan does nothing but count,
   [Filler]) changes nothing: the scan of "filler + section" finds the same patch record, takes the same decision about the
   body and leaves the stream at the same place as the scan of the section alone. *)
Theorem filler_prefix : forall strip p ls rest_ should p' s1,
  Forall (Filler strip p) ls -> Forall clean ls ->
  parse_patch_header_full p strip (strm rest_) = Ok (should, p', s1, true) ->
  parse_patch_header_full p strip (strm (join_lines ls ++ rest_)) = Ok (should, p', s1, true).
Proof. exact Proofs_Filler.filler_prefix. Qed.
Print Assumptions filler_prefix.

(* A section ends where its hunks end: the unified body parser returns exactly the hunks of the section and leaves the
   stream at the first line that is not part of it (text, or the header of the next section), untouched. *)
Theorem unified_section_stops : forall hs tail,
  hs <> [] -> Forall wf_hunk hs -> tail_ok tail ->
  parse_unified_patch (strm (emit_hunks hs ++ tail)) = Ok (hs, after tail).
Proof. exact Proofs_Unified.unified_roundtrip. Qed.
Print Assumptions unified_section_stops.

Local Open Scope string_scope.
Definition nlb : list N := [10%N].
Definition ex_filler := [bs "From: someone"; bs "Subject: [PATCH] fix"; []; bs "Some text, and more."; bs "diff -ruN a/f b/f"].
Definition ex_section := bs "--- a/f" ++ nlb ++ bs "+++ b/f" ++ nlb ++ bs "@@ -1 +1 @@" ++ nlb ++ bs "-a" ++ nlb ++ bs "+b" ++ nlb.
Example filler_nonvacuous :
  Forall (Filler 1 (empty_patch FUnknown)) ex_filler /\ Forall clean ex_filler /\
  match parse_patch_header_full (empty_patch FUnknown) 1 (strm ex_section) with
  | Ok (should, p, s1, found) => found = true /\ old_path p = bs "f" /\ rest s1 = bs "@@ -1 +1 @@" ++ nlb ++ bs "-a" ++ nlb ++ bs "+b" ++ nlb
  | Throw _ => False
  end /\
  parse_patch_header_full (empty_patch FUnknown) 1 (strm (join_lines ex_filler ++ ex_section)) =
  parse_patch_header_full (empty_patch FUnknown) 1 (strm ex_section).
Proof.
  split; [|split; [|split]].
  - repeat constructor; vm_compute; reflexivity.
  - repeat constructor; vm_compute; intuition discriminate.
  - vm_compute. repeat split; reflexivity.
  - vm_compute. reflexivity.
Qed.

(* ---------------------------------------------------------------------------------------------------------------
   C11 over the driver model: the concatenation of sections is the sequence of separate runs; text before, between and
   after sections changes nothing.  Proofs in Proofs_Sections.v and Proofs_Sections_Unified.v (non-vacuity Examples there). *)

(* (1) One section run after earlier sections summarised by [a] (failure flag, backups taken, report so far) does exactly
   what it does in a run of its own from the same tree; the earlier sections are felt only through the tree and through
   the list of backups already taken: when backups are requested, the backup of this section's output file must not be one
   of them. *)
Theorem section_state_independent : forall o a st should p s w,
  (may_backup o = true -> fresh_backup o a (section_target o st p (fs w))) ->
  process_section o (merge a st) should p s w =
  map_result (fun '(st', s') => (merge a st', s')) (process_section o st should p s) w.
Proof. exact Proofs_Sections.process_section_merge'. Qed.
Print Assumptions section_state_independent.

(* (2) The same for the loop over the remaining sections; [targets_met] lists the output files of the sections the loop of
   the run of its own meets. *)
Theorem loop_state_independent : forall o f a fuel st s first w,
  (may_backup o = true -> forall q, In q (targets_met fuel o f st s w) -> fresh_backup o a q) ->
  section_loop fuel o f (merge a st) s first w = map_result (merge a) (section_loop fuel o f st s first) w.
Proof. exact Proofs_Sections.section_loop_merge. Qed.
Print Assumptions loop_state_independent.

Theorem loop_state_independent_nobackup : forall o f a fuel st s first w,
  save_backup o = false -> backup_if_mismatch o <> OBYes ->
  section_loop fuel o f (merge a st) s first w = map_result (merge a) (section_loop fuel o f st s first) w.
Proof. exact Proofs_Sections.section_loop_merge_nobackup. Qed.
Print Assumptions loop_state_independent_nobackup.

(* fuel: with more than "bytes + 1" the loop does not depend on it *)
Theorem loop_fuel_irrelevant : forall o f st s first w k1 k2,
  length (rest s) + 1 < k1 -> length (rest s) + 1 < k2 ->
  section_loop k1 o f st s first w = section_loop k2 o f st s first w.
Proof. exact Proofs_Sections.section_loop_fuel. Qed.
Print Assumptions loop_fuel_irrelevant.

(* (3) The sum, for the loop (with the fuel process_patch gives each run) and for the whole run. *)
Theorem loop_sum : forall o f st s first should p s1 found st1 s2 w w1,
  seof s = false ->
  parse_patch_header_full (empty_patch f) (strip_size o) s = Ok (should, p, s1, found) ->
  (if negb found && should then FUnknown else pfmt p) <> FUnknown ->
  poper p <> OpBinary ->
  process_section o st should p s1 w = (Ok (st1, s2), w1) ->
  deferred_writes st1 = [] -> deferred_removals st1 = [] ->
  (may_backup o = true -> forall q, In q (targets_met (S (S (length (rest s2)))) o f ds0 s2 w1) -> fresh_backup o st1 q) ->
  section_loop (S (S (length (rest s)))) o f st s first w =
  map_result (merge st1) (section_loop (S (S (length (rest s2)))) o f ds0 s2 false) w1.
Proof. exact Proofs_Sections.section_loop_sum. Qed.
Print Assumptions loop_sum.

Theorem run_sum : forall o f t t2 should p s1 found st1 w w1,
  format_from_options o = Ok f ->
  parse_patch_header_full (empty_patch f) (strip_size o) (stream_of t) = Ok (should, p, s1, found) ->
  (if negb found && should then FUnknown else pfmt p) <> FUnknown ->
  poper p <> OpBinary ->
  process_section o ds0 should p s1 w = (Ok (st1, stream_of t2), w1) ->
  deferred_writes st1 = [] -> deferred_removals st1 = [] ->
  has_patch o f (stream_of t2) = true ->
  (may_backup o = true -> forall q, In q (targets_met (S (S (length t2))) o f ds0 (stream_of t2) w1) -> fresh_backup o st1 q) ->
  process_patch o t w = map_result (after_run st1) (process_patch o t2) w1.
Proof. exact Proofs_Sections.process_patch_sum. Qed.
Print Assumptions run_sum.

(* (3) for unified sections, the parser hypotheses discharged: two runs, and any number of runs *)
Theorem unified_two_runs : forall o f pre h1 hs' st',
  format_from_options o = Ok f ->
  Forall clean pre ->
  Forall wf_hunk (h1 :: hs') ->
  scan (strip_size o) (st0 (empty_patch f)) (pre ++ [unified_header (oldr h1) (newr h1); first_line h1]) = Some st' ->
  h_first st' = S (length pre) ->
  h_body st' = true ->
  pfmt (header_patch st') = FUnified \/ pfmt (header_patch st') = FGit ->
  poper (header_patch st') <> OpBinary ->
  forall t2 st1 sA w w1,
  tail_ok t2 -> t2 <> [] ->
  process_section o ds0 true (header_patch st') (strm (emit_hunks (h1 :: hs'))) w = (Ok (st1, sA), w1) ->
  deferred_writes st1 = [] -> deferred_removals st1 = [] ->
  has_patch o f (stream_of t2) = true ->
  (may_backup o = true -> forall q, In q (targets_met (S (S (length t2))) o f ds0 (stream_of t2) w1) -> fresh_backup o st1 q) ->
  process_patch o (join_lines pre ++ emit_hunks (h1 :: hs')) w = (Ok (exit_of st1, events st1), w1) /\
  process_patch o ((join_lines pre ++ emit_hunks (h1 :: hs')) ++ t2) w = map_result (after_run st1) (process_patch o t2) w1.
Proof. exact Proofs_Sections_Unified.unified_sections_sum. Qed.
Print Assumptions unified_two_runs.

Theorem concatenation_is_sequence : forall o f ts w,
  format_from_options o = Ok f -> sections_ok o f ts w ->
  process_patch o (concat ts) w = runs o ts w.
Proof. exact Proofs_Sections_Unified.sections_sum. Qed.
Print Assumptions concatenation_is_sequence.

(* text before the first section, and after the last *)
Theorem text_in_front : forall o f fl t should p' s1 w,
  format_from_options o = Ok f ->
  Forall (Filler (strip_size o) (empty_patch f)) fl -> Forall clean fl ->
  parse_patch_header_full (empty_patch f) (strip_size o) (strm t) = Ok (should, p', s1, true) ->
  process_patch o (join_lines fl ++ t) w = process_patch o t w.
Proof. exact Proofs_Sections_Unified.text_before. Qed.
Print Assumptions text_in_front.

Theorem text_after : forall o f pre h1 hs' st',
  format_from_options o = Ok f ->
  Forall clean pre ->
  Forall wf_hunk (h1 :: hs') ->
  scan (strip_size o) (st0 (empty_patch f)) (pre ++ [unified_header (oldr h1) (newr h1); first_line h1]) = Some st' ->
  h_first st' = S (length pre) ->
  h_body st' = true ->
  pfmt (header_patch st') = FUnified \/ pfmt (header_patch st') = FGit ->
  poper (header_patch st') <> OpBinary ->
  forall t2 st1 sA w w1,
  tail_ok t2 -> t2 <> [] ->
  process_section o ds0 true (header_patch st') (strm (emit_hunks (h1 :: hs'))) w = (Ok (st1, sA), w1) ->
  deferred_writes st1 = [] -> deferred_removals st1 = [] ->
  ends_here o f (stream_of t2) = true ->
  process_patch o ((join_lines pre ++ emit_hunks (h1 :: hs')) ++ t2) w = (Ok (exit_of st1, events st1), w1) /\
  process_patch o ((join_lines pre ++ emit_hunks (h1 :: hs')) ++ t2) w = process_patch o (join_lines pre ++ emit_hunks (h1 :: hs')) w.
Proof. exact Proofs_Sections_Unified.unified_section_text_after. Qed.
Print Assumptions text_after.

(* ===== merged from Properties_Sections_Other.v (context and normal sections) ===== *)
From PatchV Require Import Base Lines Hunk Locator Formatter Options Applier LineParser Parser World Driver
     Proofs_Base Proofs_Lines Proofs_Fuel Proofs_Unified Proofs_Filler Proofs_Progress Proofs_Sections Proofs_Sections_Unified
     Proofs_Names Proofs_CtxLines Proofs_CtxMerge Proofs_Context Spec_Normal Proofs_Normal
     Proofs_ArithParse Proofs_ArithHeader Proofs_Status Proofs_StatusDriver Proofs_Whole Proofs_Sections_Other.
(* ---------------------------------------------------------------------------------------------------------------
   C11, context sections
   --------------------------------------------------------------------------------------------------------------- *)
Theorem context_header_scan : forall strip f fl oldname t1 newname t2 h1 hs tail,
  f = FUnknown \/ f = FContext ->
  Forall (Filler strip (empty_patch f)) fl -> Forall clean fl ->
  plain_name oldname -> plain_name newname -> clean (oldname ++ tab_time t1) -> clean (newname ++ tab_time t2) ->
  Forall wf_hunk_c (h1 :: hs) ->
  parse_patch_header_full (empty_patch f) strip
    (strm (join_lines (fl ++ [bs "*** " ++ oldname ++ tab_time t1; bs "--- " ++ newname ++ tab_time t2]) ++ emit_c (h1 :: hs) ++ tail)) =
  Ok (true,
      mkPatch FContext (decide_oper_c h1 (stripped oldname strip) (stripped newname strip)) [] []
              (stripped oldname strip) (stripped newname strip) (opt_or (time_read t1) []) (opt_or (time_read t2) []) 0 0 [],
      strm (emit_c (h1 :: hs) ++ tail), true).
Proof. exact Proofs_Sections_Other.context_header_scan. Qed.
Print Assumptions context_header_scan.

(* with the result of the header scan as a hypothesis (any lines in front) *)
Theorem context_sections_sum : forall o f pre h1 hs' st',
  format_from_options o = Ok f ->
  Forall clean pre ->
  Forall wf_hunk_c (h1 :: hs') ->
  scan (strip_size o) (st0 (empty_patch f)) (pre ++ [stars; orange_line (oldr h1)]) = Some st' ->
  h_first st' = S (length pre) ->
  h_body st' = true ->
  pfmt (header_patch st') = FContext ->
  poper (header_patch st') <> OpBinary ->
  forall t2 st1 sA w w1,
  tail_ok_c t2 -> t2 <> [] ->
  process_section o ds0 true (header_patch st') (strm (emit_c (h1 :: hs'))) w = (Ok (st1, sA), w1) ->
  deferred_writes st1 = [] -> deferred_removals st1 = [] ->
  has_patch o f (stream_of t2) = true ->
  (may_backup o = true -> forall q, In q (targets_met (S (S (length t2))) o f ds0 (stream_of t2) w1) -> fresh_backup o st1 q) ->
  process_patch o (join_lines pre ++ emit_c (h1 :: hs')) w = (Ok (exit_of st1, events st1), w1) /\
  process_patch o ((join_lines pre ++ emit_c (h1 :: hs')) ++ t2) w = map_result (after_run st1) (process_patch o t2) w1.
Proof. exact Proofs_Sections_Other.context_sections_sum. Qed.
Print Assumptions context_sections_sum.

(* with the header diff -c writes: nothing about the parser is left among the hypotheses *)
Theorem context_run_sum : forall o f fl oldname t1 newname t2 h1 hs' tx st1 sA w w1,
  format_from_options o = Ok f -> f = FUnknown \/ f = FContext ->
  Forall (Filler (strip_size o) (empty_patch f)) fl -> Forall clean fl ->
  plain_name oldname -> plain_name newname -> clean (oldname ++ tab_time t1) -> clean (newname ++ tab_time t2) ->
  Forall wf_hunk_c (h1 :: hs') ->
  let oldp := stripped oldname (strip_size o) in
  let newp := stripped newname (strip_size o) in
  let p := mkPatch FContext (decide_oper_c h1 oldp newp) [] [] oldp newp (opt_or (time_read t1) []) (opt_or (time_read t2) []) 0 0 [] in
  let text := join_lines (fl ++ [bs "*** " ++ oldname ++ tab_time t1; bs "--- " ++ newname ++ tab_time t2]) ++ emit_c (h1 :: hs') in
  tail_ok_c tx -> tx <> [] ->
  process_section o ds0 true p (strm (emit_c (h1 :: hs'))) w = (Ok (st1, sA), w1) ->
  deferred_writes st1 = [] -> deferred_removals st1 = [] ->
  has_patch o f (stream_of tx) = true ->
  (may_backup o = true -> forall q, In q (targets_met (S (S (length tx))) o f ds0 (stream_of tx) w1) -> fresh_backup o st1 q) ->
  process_patch o text w = (Ok (exit_of st1, events st1), w1) /\
  process_patch o (text ++ tx) w = map_result (after_run st1) (process_patch o tx) w1.
Proof. exact Proofs_Sections_Other.context_run_sum. Qed.
Print Assumptions context_run_sum.

Theorem context_section_text_after : forall o f pre h1 hs' st',
  format_from_options o = Ok f ->
  Forall clean pre ->
  Forall wf_hunk_c (h1 :: hs') ->
  scan (strip_size o) (st0 (empty_patch f)) (pre ++ [stars; orange_line (oldr h1)]) = Some st' ->
  h_first st' = S (length pre) ->
  h_body st' = true ->
  pfmt (header_patch st') = FContext ->
  poper (header_patch st') <> OpBinary ->
  forall t2 st1 sA w w1,
  tail_ok_c t2 -> t2 <> [] ->
  process_section o ds0 true (header_patch st') (strm (emit_c (h1 :: hs'))) w = (Ok (st1, sA), w1) ->
  deferred_writes st1 = [] -> deferred_removals st1 = [] ->
  ends_here o f (stream_of t2) = true ->
  process_patch o ((join_lines pre ++ emit_c (h1 :: hs')) ++ t2) w = (Ok (exit_of st1, events st1), w1) /\
  process_patch o ((join_lines pre ++ emit_c (h1 :: hs')) ++ t2) w = process_patch o (join_lines pre ++ emit_c (h1 :: hs')) w.
Proof. exact Proofs_Sections_Other.context_section_text_after. Qed.
Print Assumptions context_section_text_after.

Theorem context_section_throws : forall o f pre h1 hs' st',
  format_from_options o = Ok f ->
  Forall clean pre ->
  Forall wf_hunk_c (h1 :: hs') ->
  scan (strip_size o) (st0 (empty_patch f)) (pre ++ [stars; orange_line (oldr h1)]) = Some st' ->
  h_first st' = S (length pre) ->
  h_body st' = true ->
  pfmt (header_patch st') = FContext ->
  poper (header_patch st') <> OpBinary ->
  forall t2 e w w1,
  tail_ok_c t2 ->
  process_section o ds0 true (header_patch st') (strm (emit_c (h1 :: hs'))) w = (Throw e, w1) ->
  process_patch o (join_lines pre ++ emit_c (h1 :: hs')) w = (Throw e, w1) /\
  process_patch o ((join_lines pre ++ emit_c (h1 :: hs')) ++ t2) w = (Throw e, w1).
Proof. exact Proofs_Sections_Other.context_section_throws. Qed.
Print Assumptions context_section_throws.

(* ---------------------------------------------------------------------------------------------------------------
   C11, normal sections
   --------------------------------------------------------------------------------------------------------------- *)
Theorem normal_header_scan : forall strip f fl h1 hs tail,
  f = FUnknown \/ f = FNormal ->
  Forall (Filler strip (empty_patch f)) fl -> Forall clean fl ->
  Forall wf_hunk_n (h1 :: hs) ->
  parse_patch_header_full (empty_patch f) strip (strm (join_lines fl ++ emit_normal (h1 :: hs) ++ tail)) =
  Ok (true, mkPatch FNormal (decide_oper_n h1) [] [] [] [] [] [] 0 0 [], strm (emit_normal (h1 :: hs) ++ tail), true).
Proof. exact Proofs_Sections_Other.normal_header_scan. Qed.
Print Assumptions normal_header_scan.

Theorem normal_header_scan_index : forall strip f fl ixname ixt fl2 h1 hs tail,
  f = FUnknown \/ f = FNormal ->
  Forall (Filler strip (empty_patch f)) fl -> Forall clean fl ->
  plain_name ixname -> clean (ixname ++ tab_time ixt) ->
  Forall (Filler strip (set_index (empty_patch f) (stripped ixname strip))) fl2 -> Forall clean fl2 ->
  Forall wf_hunk_n (h1 :: hs) ->
  parse_patch_header_full (empty_patch f) strip
    (strm (join_lines (fl ++ [bs "Index: " ++ ixname ++ tab_time ixt] ++ fl2) ++ emit_normal (h1 :: hs) ++ tail)) =
  Ok (true, mkPatch FNormal (decide_oper_n h1) (stripped ixname strip) [] [] [] [] [] 0 0 [], strm (emit_normal (h1 :: hs) ++ tail), true).
Proof. exact Proofs_Sections_Other.normal_header_scan_index. Qed.
Print Assumptions normal_header_scan_index.

Theorem normal_sections_sum : forall o f pre h1 hs' st',
  format_from_options o = Ok f ->
  Forall clean pre ->
  Forall wf_hunk_n (h1 :: hs') ->
  scan (strip_size o) (st0 (empty_patch f)) (pre ++ [normal_header h1; first_line_n h1]) = Some st' ->
  h_first st' = S (length pre) ->
  h_body st' = true ->
  pfmt (header_patch st') = FNormal ->
  poper (header_patch st') <> OpBinary ->
  forall t2 st1 sA w w1,
  tail_ok_n t2 -> seof (after_n t2) = false ->
  let t2' := rest (after_n t2) in
  process_section o ds0 true (header_patch st') (strm (emit_normal (h1 :: hs'))) w = (Ok (st1, sA), w1) ->
  deferred_writes st1 = [] -> deferred_removals st1 = [] ->
  has_patch o f (stream_of t2') = true ->
  (may_backup o = true -> forall q, In q (targets_met (S (S (length t2'))) o f ds0 (stream_of t2') w1) -> fresh_backup o st1 q) ->
  process_patch o (join_lines pre ++ emit_normal (h1 :: hs')) w = (Ok (exit_of st1, events st1), w1) /\
  process_patch o ((join_lines pre ++ emit_normal (h1 :: hs')) ++ t2) w = map_result (after_run st1) (process_patch o t2') w1.
Proof. exact Proofs_Sections_Other.normal_sections_sum. Qed.
Print Assumptions normal_sections_sum.

(* the file named by an "Index:" line *)
Theorem normal_run_sum_index : forall o f fl ixname ixt fl2 h1 hs' tx st1 sA w w1,
  format_from_options o = Ok f -> f = FUnknown \/ f = FNormal ->
  Forall (Filler (strip_size o) (empty_patch f)) fl -> Forall clean fl ->
  plain_name ixname -> clean (ixname ++ tab_time ixt) ->
  Forall (Filler (strip_size o) (set_index (empty_patch f) (stripped ixname (strip_size o)))) fl2 -> Forall clean fl2 ->
  Forall wf_hunk_n (h1 :: hs') ->
  let p := mkPatch FNormal (decide_oper_n h1) (stripped ixname (strip_size o)) [] [] [] [] [] 0 0 [] in
  let text := join_lines (fl ++ [bs "Index: " ++ ixname ++ tab_time ixt] ++ fl2) ++ emit_normal (h1 :: hs') in
  tail_ok_n tx -> seof (after_n tx) = false ->
  let tx' := rest (after_n tx) in
  process_section o ds0 true p (strm (emit_normal (h1 :: hs'))) w = (Ok (st1, sA), w1) ->
  deferred_writes st1 = [] -> deferred_removals st1 = [] ->
  has_patch o f (stream_of tx') = true ->
  (may_backup o = true -> forall q, In q (targets_met (S (S (length tx'))) o f ds0 (stream_of tx') w1) -> fresh_backup o st1 q) ->
  process_patch o text w = (Ok (exit_of st1, events st1), w1) /\
  process_patch o (text ++ tx) w = map_result (after_run st1) (process_patch o tx') w1.
Proof. exact Proofs_Sections_Other.normal_run_sum_index. Qed.
Print Assumptions normal_run_sum_index.

(* the file named by the operand *)
Theorem normal_run_sum_operand : forall o f fl h1 hs' tx st1 sA w w1,
  format_from_options o = Ok f -> f = FUnknown \/ f = FNormal ->
  Forall (Filler (strip_size o) (empty_patch f)) fl -> Forall clean fl ->
  Forall wf_hunk_n (h1 :: hs') ->
  let p := mkPatch FNormal (decide_oper_n h1) [] [] [] [] [] [] 0 0 [] in
  let text := join_lines fl ++ emit_normal (h1 :: hs') in
  tail_ok_n tx -> seof (after_n tx) = false ->
  let tx' := rest (after_n tx) in
  process_section o ds0 true p (strm (emit_normal (h1 :: hs'))) w = (Ok (st1, sA), w1) ->
  deferred_writes st1 = [] -> deferred_removals st1 = [] ->
  has_patch o f (stream_of tx') = true ->
  (may_backup o = true -> forall q, In q (targets_met (S (S (length tx'))) o f ds0 (stream_of tx') w1) -> fresh_backup o st1 q) ->
  process_patch o text w = (Ok (exit_of st1, events st1), w1) /\
  process_patch o (text ++ tx) w = map_result (after_run st1) (process_patch o tx') w1.
Proof. exact Proofs_Sections_Other.normal_run_sum_operand. Qed.
Print Assumptions normal_run_sum_operand.

Theorem normal_section_text_after : forall o f pre h1 hs' st',
  format_from_options o = Ok f ->
  Forall clean pre ->
  Forall wf_hunk_n (h1 :: hs') ->
  scan (strip_size o) (st0 (empty_patch f)) (pre ++ [normal_header h1; first_line_n h1]) = Some st' ->
  h_first st' = S (length pre) ->
  h_body st' = true ->
  pfmt (header_patch st') = FNormal ->
  poper (header_patch st') <> OpBinary ->
  forall t2 st1 sA w w1,
  tail_ok_n t2 ->
  process_section o ds0 true (header_patch st') (strm (emit_normal (h1 :: hs'))) w = (Ok (st1, sA), w1) ->
  deferred_writes st1 = [] -> deferred_removals st1 = [] ->
  ends_here o f (after_n t2) = true ->
  process_patch o ((join_lines pre ++ emit_normal (h1 :: hs')) ++ t2) w = (Ok (exit_of st1, events st1), w1) /\
  process_patch o ((join_lines pre ++ emit_normal (h1 :: hs')) ++ t2) w = process_patch o (join_lines pre ++ emit_normal (h1 :: hs')) w.
Proof. exact Proofs_Sections_Other.normal_section_text_after. Qed.
Print Assumptions normal_section_text_after.

Theorem normal_section_throws : forall o f pre h1 hs' st',
  format_from_options o = Ok f ->
  Forall clean pre ->
  Forall wf_hunk_n (h1 :: hs') ->
  scan (strip_size o) (st0 (empty_patch f)) (pre ++ [normal_header h1; first_line_n h1]) = Some st' ->
  h_first st' = S (length pre) ->
  h_body st' = true ->
  pfmt (header_patch st') = FNormal ->
  poper (header_patch st') <> OpBinary ->
  forall t2 e w w1,
  tail_ok_n t2 ->
  process_section o ds0 true (header_patch st') (strm (emit_normal (h1 :: hs'))) w = (Throw e, w1) ->
  process_patch o (join_lines pre ++ emit_normal (h1 :: hs')) w = (Throw e, w1) /\
  process_patch o ((join_lines pre ++ emit_normal (h1 :: hs')) ++ t2) w = (Throw e, w1).
Proof. exact Proofs_Sections_Other.normal_section_throws. Qed.
Print Assumptions normal_section_throws.

(* ---------------------------------------------------------------------------------------------------------------
   sections of any formats, chained
   --------------------------------------------------------------------------------------------------------------- *)
Theorem mixed_concatenation_is_sequence : forall o ts w, seq_ok o ts w -> process_patch o (concat ts) w = runs o ts w.
Proof. exact Proofs_Sections_Other.seq_sum. Qed.
Print Assumptions mixed_concatenation_is_sequence.
