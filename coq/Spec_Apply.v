(* Spec_Apply.v — specification vocabulary for what apply_patch may produce (C01, C02, C04, C05).
   Does not mention the model. *)
From PatchV Require Import Base Lines Hunk Spec_Locate.

(* what happened to one hunk *)
Inductive verdict := VApplied (pos fz : nat) | VRejected.

(* The lines a hunk body turns into when put at line pos of file f: context lines are the FILE's
   lines (their original bytes), added lines are the patch's, deleted lines vanish.  Ignored trailing
   context that lies past the end of the file contributes nothing. *)
Fixpoint splice (f : list line) (pos : nat) (b : list pline) : list line :=
  match b with
  | [] => []
  | p :: r =>
      match pop p with
      | Ctx => (match nth_error f pos with Some l => [l] | None => [] end) ++ splice f (S pos) r
      | Add => pl p :: splice f pos r
      | Del => splice f (S pos) r
      end
  end.

(* The output determined by the verdicts: hunks in order, each at or after the cursor; lines between
   hunks and after the last one copied through; a rejected hunk leaves no trace. *)
Fixpoint replay (f : list line) (cursor : nat) (hs : list hunk) (vs : list verdict) : option (list line) :=
  match hs, vs with
  | [], [] => Some (skipn cursor f)
  | h :: hs', VRejected :: vs' => replay f cursor hs' vs'
  | h :: hs', VApplied pos _ :: vs' =>
      if Nat.leb cursor pos then
        match replay f (pos + length (old_side (body h))) hs' vs' with
        | Some r => Some (firstn (pos - cursor) (skipn cursor f) ++ splice f pos (body h) ++ r)
        | None => None
        end
      else None
  | _, _ => None
  end.

Definition count_rejected (vs : list verdict) : nat :=
  length (filter (fun v => match v with VRejected => true | _ => false end) vs).

(* Conforming: the hunks tile A and B truthfully (any correct diff producer, any context width).
   a, b = number of lines of A, B before this point. *)
Inductive Conf : nat -> nat -> list line -> list line -> list hunk -> Prop :=
| Conf_nil a b rest : Conf a b rest rest []
| Conf_cons a b gap h hs A' B' :
    body h <> [] ->
    rcount (oldr h) = Z.of_nat (length (old_side (body h))) ->
    rcount (newr h) = Z.of_nat (length (new_side (body h))) ->
    (* stated old start: 1-based first line, or the line before when the old side is empty *)
    rstart (oldr h) = (if Z.eqb (rcount (oldr h)) 0 then Z.of_nat (a + length gap) else Z.of_nat (a + length gap) + 1)%Z ->
    rstart (newr h) = (if Z.eqb (rcount (newr h)) 0 then Z.of_nat (b + length gap) else Z.of_nat (b + length gap) + 1)%Z ->
    Conf (a + length gap + length (old_side (body h))) (b + length gap + length (new_side (body h))) A' B' hs ->
    Conf a b (gap ++ old_side (body h) ++ A') (gap ++ new_side (body h) ++ B') (h :: hs).

Definition Conforming (A B : list line) (hs : list hunk) : Prop := Conf 0 0 A B hs.
