(* Proofs_StatusParse.v — C04: the hunks the unified parser hands over (unified and git patches) have counts that are the
   numbers of lines of their two sides, so the reject writer and -D never throw on them. *)
From PatchV Require Import Base Lines Hunk Locator Formatter Options Applier LineParser Parser World Driver
     Proofs_Base Proofs_Apply Proofs_Progress Proofs_Status Proofs_StatusDriver.

Lemma n_old_app a b : n_old (a ++ b) = n_old a + n_old b.
Proof. unfold n_old, old_side. rewrite filter_app, map_app, app_length. reflexivity. Qed.
Lemma n_new_app a b : n_new (a ++ b) = n_new a + n_new b.
Proof. unfold n_new, new_side. rewrite filter_app, map_app, app_length. reflexivity. Qed.

Lemma set_last_nonl_counts ls : n_old (set_last_nonl ls) = n_old ls /\ n_new (set_last_nonl ls) = n_new ls.
Proof.
  unfold set_last_nonl. destruct (rev ls) as [|p r] eqn:E.
  - apply (f_equal (@rev pline)) in E. rewrite rev_involutive in E. subst ls. auto.
  - apply (f_equal (@rev pline)) in E. rewrite rev_involutive in E. subst ls. cbn [rev].
    rewrite !n_old_app, !n_new_app. split; f_equal;
      unfold n_old, n_new, old_side, new_side, is_add, is_del; cbn [filter pop]; destruct (pop p); reflexivity.
Qed.

Lemma eat_marker_counts hit ls s : n_old (fst (eat_marker hit ls s)) = n_old ls /\ n_new (fst (eat_marker hit ls s)) = n_new ls.
Proof. unfold eat_marker. destruct (hit && peek_is s 92); cbn [fst]; [apply set_last_nonl_counts|auto]. Qed.

Definition uinv (acc : list hunk) (cur : option (hunk * Z * Z)) : Prop :=
  Forall hunk_counts_ok acc /\
  match cur with
  | None => True
  | Some (h, oe, ne) => rcount (oldr h) = (Z.of_nat (n_old (body h)) + oe)%Z /\ rcount (newr h) = (Z.of_nat (n_new (body h)) + ne)%Z
  end.

Lemma uinv_fresh acc h : Forall hunk_counts_ok acc -> uinv acc (Some (mkHunk (oldr h) (newr h) [], rcount (oldr h), rcount (newr h))).
Proof. intros F. split; [exact F|]. cbn. split; reflexivity. Qed.

Lemma unified_loop_counts : forall fuel s acc cur le hs s',
  uinv acc cur -> unified_loop fuel s acc cur le = Ok (hs, s') -> Forall hunk_counts_ok hs.
Proof.
  induction fuel as [|f IH]; intros s acc cur le hs s' [Ia Ic] H; [discriminate|]. cbn [unified_loop] in H.
  destruct (sget_line s) as [[[line n]|] s1] eqn:G.
  - destruct cur as [[[h oe] ne]|].
    + destruct (match line with [] => [32%N] | _ :: _ => line end) as [|what content]; [discriminate|].
      destruct (op_of_char what) as [o|]; [|discriminate].
      set (ls0 := body h ++ [mkPL o (mkLine content n)]) in *.
      set (ne1 := match o with Del => ne | _ => (ne - 1)%Z end) in *.
      destruct (match o with Del => (ls0, s1) | _ => eat_marker (ne1 =? 0)%Z ls0 s1 end) as [ls1 s2] eqn:E1.
      assert (C1 : n_old ls1 = n_old ls0 /\ n_new ls1 = n_new ls0).
      { destruct o; try (inversion E1; subst; auto; fail);
          pose proof (eat_marker_counts (ne1 =? 0)%Z ls0 s1) as X; rewrite E1 in X; exact X. }
      set (oe1 := match o with Add => oe | _ => (oe - 1)%Z end) in *.
      destruct (match o with Add => (ls1, s2) | _ => eat_marker (oe1 =? 0)%Z ls1 s2 end) as [ls2 s3] eqn:E2.
      assert (C2 : n_old ls2 = n_old ls1 /\ n_new ls2 = n_new ls1).
      { destruct o; try (inversion E2; subst; auto; fail);
          pose proof (eat_marker_counts (oe1 =? 0)%Z ls1 s2) as X; rewrite E2 in X; exact X. }
      assert (C0 : rcount (oldr h) = (Z.of_nat (n_old ls2) + oe1)%Z /\ rcount (newr h) = (Z.of_nat (n_new ls2) + ne1)%Z).
      { destruct C1 as [A1 B1], C2 as [A2 B2], Ic as [Io In]. rewrite A2, A1, B2, B1. unfold ls0. rewrite n_old_app, n_new_app.
        unfold n_old at 2, n_new at 2, old_side, new_side, is_add, is_del. cbn [filter pop].
        unfold oe1, ne1. destruct o; cbn [negb map length]; lia. }
      destruct ((oe1 =? 0)%Z && (ne1 =? 0)%Z) eqn:Z0.
      * apply andb_true_iff in Z0. destruct Z0 as [Zo Zn]. apply Z.eqb_eq in Zo, Zn.
        assert (Ia' : Forall hunk_counts_ok (acc ++ [mkHunk (oldr h) (newr h) ls2])).
        { apply Forall_app. split; [exact Ia|]. constructor; [|constructor]. unfold hunk_counts_ok. cbn [oldr newr body]. lia. }
        destruct (sget_line s3) as [[[l2 n2]|] s4] eqn:G2.
        -- destruct (parse_unified_range (mkHunk (oldr h) (newr h) []) l2) as [ok h2]. destruct ok.
           ++ eapply IH; [|exact H]. apply uinv_fresh. exact Ia'.
           ++ inversion H; subst. exact Ia'.
        -- inversion H; subst. exact Ia'.
      * eapply IH; [|exact H]. split; [exact Ia|]. cbn [body oldr newr]. exact C0.
    + destruct (parse_unified_range empty_hunk line) as [ok h]. destruct ok; (eapply IH; [|exact H]).
      * apply uinv_fresh. exact Ia.
      * split; [exact Ia|exact I].
  - destruct cur as [[[h oe] ne]|].
    + destruct (negb (ne =? 0)%Z); [discriminate|]. destruct (negb (oe =? 0)%Z); [discriminate|]. inversion H; subst. exact Ia.
    + destruct (is_nil acc); [inversion H; subst; exact Ia|]. destruct (negb (snd le =? 0)%Z); [discriminate|]. destruct (negb (fst le =? 0)%Z); [discriminate|].
      inversion H; subst. exact Ia.
Qed.

(* the hunks of a unified / git patch body, as parsed *)
Theorem parse_unified_counts s hs s' : parse_unified_patch s = Ok (hs, s') -> Forall hunk_counts_ok hs.
Proof. unfold parse_unified_patch. apply unified_loop_counts. split; [constructor|exact I]. Qed.

Theorem parse_body_unified_counts p s p' s' :
  (pfmt p = FUnified \/ pfmt p = FGit) -> Forall hunk_counts_ok (hunks p) ->
  parse_patch_body p s = Ok (p', s') -> Forall hunk_counts_ok (hunks p').
Proof.
  intros Hf Hh. unfold parse_patch_body.
  assert (X : (do x <- parse_unified_patch s; Ok (set_hunks p (hunks p ++ fst x), snd x)) = Ok (p', s') -> Forall hunk_counts_ok (hunks p')).
  { destruct (parse_unified_patch s) as [[hs s1]|e] eqn:P; cbn [rbind]; [|discriminate]. intros [= <- <-]. cbn [hunks set_hunks fst].
    apply Forall_app. split; [exact Hh|]. eapply parse_unified_counts. exact P. }
  destruct Hf as [-> | ->]; exact X.
Qed.

(* Hence for a unified or git patch that parses, whatever the options (reject format, -D, -R), whatever the lines of the
   target: applying it ends normally unless the question has to be asked.  Failing to place a hunk is never fatal. *)
Theorem parsed_unified_never_fatal o lines p s p' s' :
  (pfmt p = FUnified \/ pfmt p = FGit) -> hunks p = [] ->
  parse_patch_body p s = Ok (p', s') ->
  ~ question_needed o lines p' ->
  exists r, apply_patch o lines p' = Ok r.
Proof.
  intros Hf Hh P Q. apply apply_never_fatal_define; [|exact Q].
  eapply parse_body_unified_counts; [exact Hf| |exact P]. rewrite Hh. constructor.
Qed.

(* ---------- the header scan leaves the list of hunks alone ---------- *)
Lemma git_ext_hunks p strip line b p' : parse_git_extended_info p strip line = Ok (b, p') -> hunks p' = hunks p.
Proof. unfold parse_git_extended_info. intros H. hs_crunch; reflexivity. Qed.

Lemma header_step_hunks strip st line r :
  header_step strip st line = Ok r ->
  match r with inl st' => hunks (h_patch st') = hunks (h_patch st) | inr st' => hunks (h_patch st') = hunks (h_patch st) end.
Proof.
  intros H. unfold header_step in H.
  destruct (if h_git st then parse_git_extended_info (h_patch st) strip line else Ok (false, h_patch st)) as [[b p1]|e] eqn:G.
  2:{ hs_crunch; reflexivity. }
  assert (Hp1 : hunks p1 = hunks (h_patch st)).
  { destruct (h_git st); [eapply git_ext_hunks; exact G|inversion G; reflexivity]. }
  hs_crunch; cbn [h_patch hunks set_paths set_index set_prereq set_fmt set_oper snd fst] in *; try reflexivity; try exact Hp1.
Qed.

Lemma header_loop_hunks : forall fuel strip st s st' s',
  header_loop fuel strip st s = Ok (st', s') -> hunks (h_patch st') = hunks (h_patch st).
Proof.
  induction fuel as [|f IH]; intros strip st s st' s' H; [discriminate|]. cbn [header_loop] in H.
  destruct (sget_line s) as [[[line n]|] s1]; [|inversion H; subst; reflexivity].
  destruct (header_step strip st line) as [r|e] eqn:E; cbn [rbind] in H; [|discriminate].
  pose proof (header_step_hunks _ _ _ _ E) as I'. destruct r as [st1|st1].
  - rewrite (IH _ _ _ _ _ H). exact I'.
  - inversion H; subst. exact I'.
Qed.

Theorem header_full_hunks f strip s should p s1 found :
  parse_patch_header_full (empty_patch f) strip s = Ok (should, p, s1, found) -> hunks p = [].
Proof.
  unfold parse_patch_header_full.
  destruct (header_loop (S (length (rest s))) strip (mkHS (empty_patch f) LKUnknown 0 false true empty_hunk 0) s) as [[st s0]|e] eqn:HL; cbn [rbind]; [|discriminate].
  apply header_loop_hunks in HL. cbn [h_patch] in HL.
  destruct (skip_lines (h_first st - 1) (sseek (sclear s0) (rest s))) as [s3|e]; cbn [rbind]; [|discriminate].
  intros [= _ <- _ _].
  assert (X : hunks (if h_git st then set_fmt (h_patch st) FGit else h_patch st) = []) by (destruct (h_git st); exact HL).
  revert X. generalize (if h_git st then set_fmt (h_patch st) FGit else h_patch st). intros p1 X.
  destruct (poper p1); try exact X.
  repeat match goal with |- context [if ?c then _ else _] => destruct c end; exact X.
Qed.

(* ---------- a section of a unified or git patch ---------- *)
Lemma sec_patch_fmt p a b : pfmt (sec_patch p a b) = pfmt p.
Proof. unfold sec_patch. destruct (poper p); try reflexivity. destruct (str_eqb a b); reflexivity. Qed.
Lemma sec_patch_hunks p a b : hunks (sec_patch p a b) = hunks p.
Proof. unfold sec_patch. destruct (poper p); try reflexivity. destruct (str_eqb a b); reflexivity. Qed.

(* Applying the hunks of a section of a unified or git patch (as the header scan delivers it: no hunks yet) to whatever the
   target holds: the only exceptions are the body parser's own and the question that cannot be asked. *)
Theorem section_apply_throws o st should p s m e :
  (pfmt p = FUnified \/ pfmt p = FGit) -> hunks p = [] ->
  sec_apply o st should p s m = Throw e ->
  (should = true /\ parse_patch_body (sec_patch p (sec_ftp o st p m) (sec_out o st p m)) s = Throw e) \/
  (e = ESystem /\ exists p', question_needed o (sec_lines st m (sec_ftp o st p m) (sec_out o st p m)) p').
Proof.
  intros Hf Hh. unfold sec_apply, sec_body.
  set (q := sec_patch p (sec_ftp o st p m) (sec_out o st p m)).
  assert (Qf : pfmt q = FUnified \/ pfmt q = FGit) by (unfold q; rewrite sec_patch_fmt; exact Hf).
  assert (Qh : Forall hunk_counts_ok (hunks q)) by (unfold q; rewrite sec_patch_hunks, Hh; constructor).
  set (lines := sec_lines st m (sec_ftp o st p m) (sec_out o st p m)).
  assert (Ap : forall p', Forall hunk_counts_ok (hunks p') -> apply_patch o lines p' = Throw e -> e = ESystem /\ question_needed o lines p').
  { intros p' Hc A. destruct (apply_patch_throws_only_from _ _ _ _ A) as [[(_ & _ & X)|(_ & _ & X)]|Q]; [| |exact Q];
      exfalso; apply Exists_exists in X; destruct X as (h & I & N); rewrite Forall_forall in Hc; specialize (Hc h I).
    - apply N. apply counts_ok_writable. exact Hc.
    - destruct Hc as [A1 B1]. destruct N as [N|N]; apply N; assumption. }
  destruct should.
  - destruct (parse_patch_body q s) as [[p' s']|e0] eqn:P; cbn [rbind fst].
    + intros A. right. destruct (Ap p' (parse_body_unified_counts _ _ _ _ Qf Qh P) A) as [E Q]. eauto.
    + intros [= <-]. left. auto.
  - cbn [rbind fst]. intros A. right. destruct (Ap q Qh A) as [E Q]. eauto.
Qed.

(* ---------- through the driver ---------- *)
Definition unified_good (q : patch) : Prop := (pfmt q = FUnified \/ pfmt q = FGit) /\ Forall hunk_counts_ok (hunks q).

Lemma parse_body_fmt q s q' s' : parse_patch_body q s = Ok (q', s') -> pfmt q' = pfmt q.
Proof.
  unfold parse_patch_body. destruct (pfmt q) eqn:F; try discriminate;
    match goal with |- rbind ?m _ = _ -> _ => destruct m as [x|e]; cbn [rbind]; [|discriminate] end;
    intros [= <- _]; cbn [pfmt set_hunks]; exact F.
Qed.

(* A section of a unified or git patch (as the header scan hands it over: header_full_hunks), whatever the options, the tree
   and the target: when it ends with an exception, the cause is none of "a hunk could not be placed / written as a reject";
   of apply_patch only the question that cannot be asked is left. *)
Theorem unified_section_hunk_failure_never_fatal o st should p s w e w' :
  (pfmt p = FUnified \/ pfmt p = FGit) -> hunks p = [] ->
  process_section o st should p s w = (Throw e, w') ->
  exists c, benign_cause o c /\ explains o c e w'.
Proof.
  intros Hf Hh. apply (section_hunk_failure_never_fatal o unified_good).
  - intros q s0 q' s1 [Gf Gc] P. split.
    + rewrite (parse_body_fmt _ _ _ _ P). exact Gf.
    + eapply parse_body_unified_counts; eauto.
  - intros q x [Gf Gc]. split; [exact Gf|exact Gc].
  - intros q [_ Gc]. exact Gc.
  - split; [exact Hf|]. rewrite Hh. constructor.
Qed.

(* ---------- under -u every section is a unified or a git patch ---------- *)
Lemma git_ext_fmt p strip line b p' : parse_git_extended_info p strip line = Ok (b, p') -> pfmt p' = pfmt p.
Proof. unfold parse_git_extended_info. intros H. hs_crunch; reflexivity. Qed.

Lemma header_step_fmt strip st line r :
  header_step strip st line = Ok r -> pfmt (h_patch st) = FUnified ->
  match r with inl st' => pfmt (h_patch st') = FUnified | inr st' => pfmt (h_patch st') = FUnified end.
Proof.
  intros H Hf. unfold header_step in H.
  destruct (if h_git st then parse_git_extended_info (h_patch st) strip line else Ok (false, h_patch st)) as [[b p1]|e] eqn:G.
  2:{ hs_crunch; cbn [h_patch pfmt set_paths set_index set_prereq set_fmt set_oper snd fst] in *; try reflexivity; try exact Hf. }
  assert (Hp1 : pfmt p1 = FUnified).
  { destruct (h_git st); [rewrite (git_ext_fmt _ _ _ _ _ G); exact Hf|inversion G; subst; exact Hf]. }
  cbn [rbind snd fst] in H. unfold fmt_unknown_or in H. rewrite ?Hp1, ?Hf in H. cbn [format_eqb orb] in H.
  hs_crunch; cbn [h_patch pfmt set_paths set_index set_prereq set_fmt set_oper snd fst] in *; try reflexivity; try exact Hf; try exact Hp1.
Qed.

Lemma header_loop_fmt : forall fuel strip st s st' s',
  header_loop fuel strip st s = Ok (st', s') -> pfmt (h_patch st) = FUnified -> pfmt (h_patch st') = FUnified.
Proof.
  induction fuel as [|f IH]; intros strip st s st' s' H Hf; [discriminate|]. cbn [header_loop] in H.
  destruct (sget_line s) as [[[line n]|] s1]; [|inversion H; subst; exact Hf].
  destruct (header_step strip st line) as [r|e] eqn:E; cbn [rbind] in H; [|discriminate].
  pose proof (header_step_fmt _ _ _ _ E Hf) as I'. destruct r as [st1|st1].
  - eapply IH; eauto.
  - inversion H; subst. exact I'.
Qed.

Theorem header_full_fmt_unified strip s should p s1 found :
  parse_patch_header_full (empty_patch FUnified) strip s = Ok (should, p, s1, found) -> pfmt p = FUnified \/ pfmt p = FGit.
Proof.
  unfold parse_patch_header_full.
  destruct (header_loop (S (length (rest s))) strip (mkHS (empty_patch FUnified) LKUnknown 0 false true empty_hunk 0) s) as [[st s0]|e] eqn:HL; cbn [rbind]; [|discriminate].
  apply header_loop_fmt in HL; [|reflexivity].
  destruct (skip_lines (h_first st - 1) (sseek (sclear s0) (rest s))) as [s3|e]; cbn [rbind]; [|discriminate].
  intros [= _ <- _ _].
  assert (X : pfmt (if h_git st then set_fmt (h_patch st) FGit else h_patch st) = FUnified \/
              pfmt (if h_git st then set_fmt (h_patch st) FGit else h_patch st) = FGit) by (destruct (h_git st); [right; reflexivity|left; exact HL]).
  revert X. generalize (if h_git st then set_fmt (h_patch st) FGit else h_patch st). intros p1 X.
  destruct (poper p1); try exact X.
  repeat match goal with |- context [if ?c then _ else _] => destruct c end; exact X.
Qed.

(* A whole run under -u (every section is read as a unified or git patch), any other options (-R, -D, reject format, ...), any
   tree: when the run ends with an exception — exit status 2 — the cause is never that a hunk could not be placed or not be
   written to the reject file. *)
Theorem unified_run_hunk_failure_never_fatal o stdin w e w' :
  format_from_options o = Ok FUnified ->
  (let! b := patch_file_bytes o stdin in process_patch o b) w = (Throw e, w') ->
  exists c, benign_cause o c /\ explains o c e w'.
Proof.
  intros Hfo. apply (run_hunk_failure_never_fatal o unified_good).
  - intros q s0 q' s1 [Gf Gc] P. split.
    + rewrite (parse_body_fmt _ _ _ _ P). exact Gf.
    + eapply parse_body_unified_counts; eauto.
  - intros q x [Gf Gc]. split; [exact Gf|exact Gc].
  - intros q [_ Gc]. exact Gc.
  - intros f strip s should p s1 found Hf HP. rewrite Hfo in Hf. inversion Hf; subst f. split.
    + eapply header_full_fmt_unified; eauto.
    + rewrite (header_full_hunks _ _ _ _ _ _ _ HP). constructor.
Qed.
