(* Proofs_DriverMore.v — driver-level statements for C06 (-N), C18 (the one backup of a series of deferred writes) and
   C17 (a series of git sections for one file: the mode an earlier, still deferred write is going to leave).
   Same cut of Driver.process_section as in Proofs_Reverse.v: head (choice of the file, reading it), apply_patch,
   section_tail. *)
From PatchV Require Import Base Lines Hunk Locator Formatter Options Applier LineParser Parser World Driver
     Spec_Locate Spec_Apply Proofs_Base Proofs_Locate Proofs_Apply Proofs_Conf Proofs_World Proofs_Crash Proofs_Lines
     Proofs_EndToEnd Proofs_Reverse Proofs_Reapply Proofs_Rejects Proofs_Touch Proofs_Progress.

(* ================================================================================================================== *)
(* (A) C06 at driver level: -N on an already applied patch                                                            *)
(* ================================================================================================================== *)

(* ---------- apply level: in skipping mode every hunk is rejected, whatever the locator says, and nothing can fail ---------- *)
Lemma apply_one_skip o p f k s h loc :
  define_macro o = [] -> verbose o = false -> should_write_as_unified o p = true -> a_skip s = true ->
  apply_one o p f k s h loc =
  Ok (mkAS (a_out s)
           (a_rej s ++ (if Nat.eqb (a_rejected s) 0 then write_patch_header_as_unified p else [])
                    ++ write_hunk_as_unified (shift_hunk h (a_o2n s)))
           (S (a_rejected s)) (a_ln s) (a_o2n s) (a_offerr s) true (a_perfect s && loc_perfect loc) (a_msgs s)
           (a_hunks s ++ [shift_hunk h (a_o2n s)])).
Proof.
  intros Hd Hv Hu Hs. unfold apply_one. unfold write_reject. rewrite Hu, Hs, Hv.
  destruct loc as [l|]; cbn [negb rbind a_skip a_msgs a_out a_rej a_rejected a_ln a_o2n a_offerr a_perfect a_hunks orb andb];
    rewrite ?andb_false_r; reflexivity.
Qed.

Lemma apply_rest_skip o p f :
  define_macro o = [] -> verbose o = false -> should_write_as_unified o p = true ->
  forall hs k s, a_skip s = true ->
  exists s', apply_rest o p f k s hs = Ok s' /\ a_msgs s' = a_msgs s.
Proof.
  intros Hd Hv Hu. induction hs as [|h hs IH]; intros k s Hs; cbn [apply_rest].
  - exists s. split; reflexivity.
  - rewrite (apply_one_skip o p f k s h _ Hd Hv Hu Hs). cbn [rbind].
    match goal with |- context [apply_rest o p f (S k) ?s1 hs] => destruct (IH (S k) s1 eq_refl) as (s' & E & M) end.
    exists s'. split; [exact E|]. rewrite M. reflexivity.
Qed.

(* what -N says when it decides to skip *)
Definition skipping_msg (o : options) : list N :=
  (if reverse_patch_opt o then bs "Unreversed" else bs "Reversed (or previously applied)")
  ++ bs " patch detected!  " ++ bs "Skipping patch." ++ [10%N].

(* the reject file of a skipped patch: the header, then every hunk (start lines passed through the saturating addition
   of 0, which is the identity inside the int64 range) *)
Definition skipped_rejects (p : patch) (hs : list hunk) : list N :=
  write_patch_header_as_unified p ++ flat_map write_hunk_as_unified (map (fun h => shift_hunk h 0) hs).

(* -N, total version of Proofs_Reapply.reapply_ignored: the run of apply_patch cannot fail when the rejects are written
   in unified format, and its messages and reject bytes are these *)
Lemma apply_ignored_total o f p h hs :
  define_macro o = [] -> verbose o = false -> force o = false -> ignore_reversed o = true ->
  should_write_as_unified o p = true ->
  hunks (effective o p) = h :: hs ->
  looks_reversed o (effective o p) f h ->
  exists r, apply_patch o f p = Ok r /\ r_out r = f /\ r_failed r = length (hunks p) /\ r_skipped r = true /\
            r_msgs r = skipping_msg o /\
            r_rej r = skipped_rejects (effective o p) (h :: hs) /\
            length (hunks (r_patch r)) = length (hunks p).
Proof.
  intros Hd Hv Hf Hi Hu Hh L.
  assert (Hu1 : should_write_as_unified o (effective o p) = true).
  { unfold should_write_as_unified in *. rewrite eff_pfmt. exact Hu. }
  assert (Ex : exists r, apply_patch o f p = Ok r /\ r_msgs r = skipping_msg o).
  { unfold apply_patch. fold (effective o p). set (p1 := effective o p) in *.
    rewrite Hh. cbn [apply_first a_offerr a_ln].
    fold (first_loc o p1 f h). fold (first_rloc o f h).
    unfold should_check_if_patch_is_reversed. destruct L as [L1 L2]. rewrite L1, Hf.
    rewrite (looks_reversed_cond o p1 f h (conj L1 L2)).
    unfold handle_probably_reversed_patch, check_how_to_handle_reversed_patch. rewrite Hi. cbn [negb rbind fst snd].
    unfold with_patch.
    match goal with |- context [apply_one o p1 f 0 ?s0 h ?loc] => rewrite (apply_one_skip o p1 f 0 s0 h loc Hd Hv Hu1 eq_refl) end. cbn [rbind].
    match goal with |- context [apply_rest o p1 f 1 ?s1 hs] =>
      destruct (apply_rest_skip o p1 f Hd Hv Hu1 hs 1 s1 eq_refl) as (s' & E & M) end.
    rewrite E. cbn [rbind]. eexists. split; [reflexivity|]. cbn [r_msgs fst]. rewrite M. cbn [a_msgs app].
    unfold skipping_msg. rewrite <- ?app_assoc. reflexivity. }
  destruct Ex as (r & Er & Mr). exists r. split; [exact Er|].
  destruct (reapply_ignored o f p r h hs Hd Hf Hi Hh L Er) as (Ro & Rf & Rs).
  split; [exact Ro|]. split; [exact Rf|]. split; [exact Rs|]. split; [exact Mr|].
  destruct (apply_patch_replay o f p r Hd Er) as (vs & _ & _ & Hl). split; [|exact Hl].
  (* the reject bytes *)
  revert Er. unfold apply_patch. fold (effective o p). set (p1 := effective o p) in *.
  rewrite Hh. cbn [apply_first a_offerr a_ln].
  fold (first_loc o p1 f h). fold (first_rloc o f h).
  unfold should_check_if_patch_is_reversed. destruct L as [L1 L2]. rewrite L1, Hf.
  rewrite (looks_reversed_cond o p1 f h (conj L1 L2)).
  unfold handle_probably_reversed_patch, check_how_to_handle_reversed_patch. rewrite Hi. cbn [negb rbind fst snd].
  unfold with_patch.
  match goal with |- context [apply_one o p1 f 0 ?s0 h ?loc] => rewrite (apply_one_skip o p1 f 0 s0 h loc Hd Hv Hu1 eq_refl) end. cbn [rbind].
  match goal with |- context [apply_rest o p1 f 1 ?s1 hs] => set (s1x := s1) end.
  destruct (apply_rest o p1 f 1 s1x hs) as [s2|e] eqn:E2; cbn [rbind]; [|discriminate].
  intros [= <-]. cbn [r_rej fst].
  destruct (rejects_skipped o p1 f Hd Hu1 hs 1 s1x s2 eq_refl E2) as (Hr & _). rewrite Hr.
  unfold s1x. cbn [a_rej a_rejected a_o2n Nat.eqb app].
  unfold skipped_rejects. cbn [map flat_map]. unfold rej_bytes.
  destruct (map (fun h0 => shift_hunk h0 0) hs) as [|x xs]; cbn [Nat.eqb flat_map app]; rewrite <- ?app_assoc; rewrite ?app_nil_r; reflexivity.
Qed.

(* ---------- elementary successful operations on names of the working directory ---------- *)
Definition wstep (w : world) (m' : fsmap) (op : sysop) : world :=
  mkWorld m' (umask w) (trace w ++ [op]) None (stdout_data w).

Lemma chk_write_reg f bytes w data mode :
  fault w = None -> ~ In 47%N f -> lookup (fs w) f = Some (Reg data mode) -> owner_w mode = true ->
  checked (OWrite f bytes) w = (Ok tt, wstep w (upd (fs w) f (Reg bytes mode)) (OWrite f bytes)).
Proof.
  intros Fw Hs Lf Hw. apply (checked_ok_run _ w); [exact Fw|]. cbn [exec_op]. rewrite Lf. unfold parent_ok.
  rewrite (noslash_parent f Hs), Hw. reflexivity.
Qed.

Lemma chk_write_absent f bytes w :
  fault w = None -> ~ In 47%N f -> lookup (fs w) f = None ->
  checked (OWrite f bytes) w = (Ok tt, wstep w (upd (fs w) f (Reg bytes (created_mode (umask w)))) (OWrite f bytes)).
Proof.
  intros Fw Hs Lf. apply (checked_ok_run _ w); [exact Fw|]. cbn [exec_op]. rewrite Lf. unfold parent_ok.
  rewrite (noslash_parent f Hs). reflexivity.
Qed.

Lemma chk_chmod_reg f pm w data mode :
  fault w = None -> ~ In 47%N f -> lookup (fs w) f = Some (Reg data mode) ->
  checked (OChmod f pm) w = (Ok tt, wstep w (upd (fs w) f (Reg data pm)) (OChmod f pm)).
Proof.
  intros Fw Hs Lf. apply (checked_ok_run _ w); [exact Fw|]. cbn [exec_op]. unfold parent_ok.
  rewrite (noslash_parent f Hs). cbn [negb]. rewrite Lf. reflexivity.
Qed.

Lemma chk_rename f b w n :
  fault w = None -> ~ In 47%N f -> ~ In 47%N b -> lookup (fs w) f = Some n -> lookup (fs w) b = None ->
  checked (ORename f b) w = (Ok tt, wstep w (upd (remove_key (fs w) f) b n) (ORename f b)).
Proof.
  intros Fw Hs Hb Lf Lb. apply (checked_ok_run _ w); [exact Fw|]. cbn [exec_op]. unfold parent_ok.
  rewrite (noslash_parent f Hs), (noslash_parent b Hb). cbn [negb andb]. rewrite Lf, Lb. reflexivity.
Qed.

(* ---------- section_tail of a run that skipped everything: the reject file and nothing else ---------- *)
Definition ignored_state (st : dstate) (msgs : list N) (nh nf : nat) : dstate :=
  set_failure (add_event (add_event st msgs) (inform_hunks_failed (bs "ignored") nh nf ++ [10%N])).

Lemma tail_skipped o st ftp f operms pm needed (ar : aresult) s2 w :
  out_file_path o = [] -> dry_run o = false ->
  r_skipped ar = true -> r_failed ar <> 0 ->
  section_tail o st ftp f operms pm needed ar s2 w =
  (let! _ := ensure_parent_directories (reject_path o f) in
   let! _ := checked (OWrite (reject_path o f) (r_rej ar)) in
   mret (ignored_state st (r_msgs ar) (length (hunks (r_patch ar))) (r_failed ar), s2)) w.
Proof.
  intros O2 O3 Rs Rf.
  unfold section_tail. rewrite Rs, O2, O3.
  assert (Nz : Nat.eqb (r_failed ar) 0 = false) by (apply Nat.eqb_neq; exact Rf). rewrite Nz.
  cbn [negb andb orb is_nil]. change (str_eqb [] (bs "-")) with false. cbv iota.
  fold (ignored_state st (r_msgs ar) (length (hunks (r_patch ar))) (r_failed ar)).
  set (st' := ignored_state st (r_msgs ar) (length (hunks (r_patch ar))) (r_failed ar)).
  rewrite !mbind_eq.
  destruct (ensure_parent_directories (reject_path o f) w) as [[[]|e] w1]; [|reflexivity].
  rewrite !mbind_eq.
  destruct (checked (OWrite (reject_path o f) (r_rej ar)) w1) as [[[]|e] w2]; [|reflexivity].
  cbn [mret]. rewrite !mbind_eq. cbn [mret]. rewrite !mbind_eq. cbn [mret]. reflexivity.
Qed.

Lemma noslash_app a b : ~ In 47%N a -> ~ In 47%N b -> ~ In 47%N (a ++ b).
Proof. intros Ha Hb I. apply in_app_or in I. destruct I as [I|I]; [apply Ha|apply Hb]; exact I. Qed.

Lemma noslash_rej : ~ In 47%N (bs ".rej").
Proof. vm_compute. intros [H|[H|[H|[H|[]]]]]; discriminate H. Qed.

Lemma app_nonnil {A} (a b : list A) : a <> [] -> a ++ b <> [].
Proof. destruct a; [congruence|discriminate]. Qed.

(* the options under which (A) is stated: the file is chosen from the patch, no -o, no -r, no --dry-run, no -D, not
   --verbose, no -f, and -N *)
Definition ignoring_options (o : options) : Prop :=
  file_to_patch o = [] /\ out_file_path o = [] /\ reject_file_path o = [] /\ dry_run o = false /\ define_macro o = [] /\
  verbose o = false /\ force o = false /\ ignore_reversed o = true.

(* the whole section is: open f for reading, write the reject file *)
Lemma section_ignored_gen o p f h hs st s w data mode :
  ignoring_options o -> should_write_as_unified o p = true ->
  poper p = OpChange -> prereq p = [] -> old_path p = f -> new_path p = f -> f <> devnull -> f <> [] -> ~ In 47%N f ->
  hunks (effective o p) = h :: hs -> looks_reversed o (effective o p) (split_lines data) h ->
  fault w = None -> deferred_writes st = [] ->
  lookup (fs w) f = Some (Reg data mode) -> (mode < 4096)%N -> owner_r mode = true ->
  (N.land mode write_mask <> 0%N \/ read_only o <> ROFail) ->
  process_section o st false p s w =
  (let! _ := checked (OWrite (f ++ bs ".rej") (skipped_rejects (effective o p) (h :: hs))) in
   mret (ignored_state st (skipping_msg o) (length (hunks p)) (length (hunks p)), s))
    (wstep w (fs w) (OOpenRead f)).
Proof.
  intros (O1 & O2 & O3 & O4 & O5 & O6 & O7 & O8) Hu Pop P3 Po Pn Hd Hn Hs Hh L Fw Dw Lf Hm Hr Hw.
  assert (Ex : exists_ (fs w) f = true) by (unfold exists_; rewrite (stat_reg _ _ _ _ Hs Lf); reflexivity).
  assert (G : guess_filepath (fs w) (map d_dest (deferred_writes st)) p o = f).
  { unfold guess_filepath. rewrite Po. apply str_eqb_neq in Hd. rewrite Hd. cbn [negb andb]. rewrite Ex. reflexivity. }
  assert (Out : output_path o p f = f) by (unfold output_path; rewrite O2, Pop; reflexivity).
  rewrite (head_existing o st p s w f data mode O1 G Out Dw Fw Lf Hm Hr Hw P3).
  2:{ rewrite Pop. discriminate. } 2: exact Hn. 2: exact Hs.
  destruct (apply_ignored_total o (split_lines data) p h hs O5 O6 O7 O8 Hu Hh L) as (r & Er & Ro & Rf & Rs & Rm & Rj & Rl).
  rewrite mbind_eq. unfold mlift. rewrite Er.
  assert (Nz : r_failed r <> 0).
  { rewrite Rf. intros E. assert (X : length (hunks (effective o p)) = 0).
    { unfold effective. destruct (reverse_patch_opt o); [cbn [reverse_patch hunks]; rewrite map_length|]; exact E. }
    rewrite Hh in X. discriminate X. }
  rewrite (tail_skipped o st f f mode mode _ r s _ O2 O4 Rs Nz).
  assert (Rp : reject_path o f = f ++ bs ".rej") by (unfold reject_path; rewrite O3; reflexivity).
  rewrite Rp, Rm, Rj, Rl, Rf.
  rewrite (ensure_noslash (f ++ bs ".rej") (app_nonnil _ _ Hn) (noslash_app _ _ Hs noslash_rej)).
  rewrite (mbind_eq (mret tt)). cbn [mret]. reflexivity.
Qed.

(* (A), the tree: no reject file was there *)
Theorem section_ignored_N o p f h hs st s w data mode :
  ignoring_options o -> should_write_as_unified o p = true ->
  poper p = OpChange -> prereq p = [] -> old_path p = f -> new_path p = f -> f <> devnull -> f <> [] -> ~ In 47%N f ->
  hunks (effective o p) = h :: hs -> looks_reversed o (effective o p) (split_lines data) h ->
  fault w = None -> deferred_writes st = [] ->
  lookup (fs w) f = Some (Reg data mode) -> (mode < 4096)%N -> owner_r mode = true ->
  (N.land mode write_mask <> 0%N \/ read_only o <> ROFail) ->
  lookup (fs w) (f ++ bs ".rej") = None ->
  let rej := skipped_rejects (effective o p) (h :: hs) in
  let st' := ignored_state st (skipping_msg o) (length (hunks p)) (length (hunks p)) in
  exists w',
    process_section o st false p s w = (Ok (st', s), w') /\
    fs w' = upd (fs w) (f ++ bs ".rej") (Reg rej (created_mode (umask w))) /\
    trace w' = trace w ++ [OOpenRead f; OWrite (f ++ bs ".rej") rej] /\
    fault w' = None /\ umask w' = umask w /\ stdout_data w' = stdout_data w.
Proof.
  intros Op Hu Pop P3 Po Pn Hd Hn Hs Hh L Fw Dw Lf Hm Hr Hw Lr. cbv zeta.
  rewrite (section_ignored_gen o p f h hs st s w data mode Op Hu Pop P3 Po Pn Hd Hn Hs Hh L Fw Dw Lf Hm Hr Hw).
  set (w1 := wstep w (fs w) (OOpenRead f)).
  rewrite mbind_eq.
  rewrite (chk_write_absent (f ++ bs ".rej") _ w1 eq_refl (noslash_app _ _ Hs noslash_rej) Lr). cbn [mret].
  eexists. split; [reflexivity|]. unfold wstep, w1. cbn [fs trace fault umask stdout_data wstep].
  rewrite <- app_assoc. repeat split; reflexivity.
Qed.

(* (A), the tree: a writable regular reject file was there already; it is overwritten and keeps its mode *)
Theorem section_ignored_N_over o p f h hs st s w data mode rdata rmode :
  ignoring_options o -> should_write_as_unified o p = true ->
  poper p = OpChange -> prereq p = [] -> old_path p = f -> new_path p = f -> f <> devnull -> f <> [] -> ~ In 47%N f ->
  hunks (effective o p) = h :: hs -> looks_reversed o (effective o p) (split_lines data) h ->
  fault w = None -> deferred_writes st = [] ->
  lookup (fs w) f = Some (Reg data mode) -> (mode < 4096)%N -> owner_r mode = true ->
  (N.land mode write_mask <> 0%N \/ read_only o <> ROFail) ->
  lookup (fs w) (f ++ bs ".rej") = Some (Reg rdata rmode) -> owner_w rmode = true ->
  let rej := skipped_rejects (effective o p) (h :: hs) in
  let st' := ignored_state st (skipping_msg o) (length (hunks p)) (length (hunks p)) in
  exists w',
    process_section o st false p s w = (Ok (st', s), w') /\
    fs w' = upd (fs w) (f ++ bs ".rej") (Reg rej rmode) /\
    trace w' = trace w ++ [OOpenRead f; OWrite (f ++ bs ".rej") rej] /\
    fault w' = None /\ umask w' = umask w /\ stdout_data w' = stdout_data w.
Proof.
  intros Op Hu Pop P3 Po Pn Hd Hn Hs Hh L Fw Dw Lf Hm Hr Hw Lr Hrw. cbv zeta.
  rewrite (section_ignored_gen o p f h hs st s w data mode Op Hu Pop P3 Po Pn Hd Hn Hs Hh L Fw Dw Lf Hm Hr Hw).
  set (w1 := wstep w (fs w) (OOpenRead f)).
  rewrite mbind_eq.
  rewrite (chk_write_reg (f ++ bs ".rej") _ w1 rdata rmode eq_refl (noslash_app _ _ Hs noslash_rej) Lr Hrw). cbn [mret].
  eexists. split; [reflexivity|]. unfold wstep, w1. cbn [fs trace fault umask stdout_data wstep].
  rewrite <- app_assoc. repeat split; reflexivity.
Qed.

Lemma rej_name_longer (f : list N) : f <> f ++ bs ".rej".
Proof. intros E. apply (f_equal (@length N)) in E. rewrite app_length in E. cbn in E. lia. Qed.

(* (A) in the words of the claim: the file, its backup name and every other entry but the reject file are what they were;
   the reject file holds the header and every hunk; the run has failed (exit status 1) and says "n out of n hunks ignored" *)
Theorem section_ignored_N_frame o p f h hs st s w data mode :
  ignoring_options o -> should_write_as_unified o p = true ->
  poper p = OpChange -> prereq p = [] -> old_path p = f -> new_path p = f -> f <> devnull -> f <> [] -> ~ In 47%N f ->
  hunks (effective o p) = h :: hs -> looks_reversed o (effective o p) (split_lines data) h ->
  fault w = None -> deferred_writes st = [] ->
  lookup (fs w) f = Some (Reg data mode) -> (mode < 4096)%N -> owner_r mode = true ->
  (N.land mode write_mask <> 0%N \/ read_only o <> ROFail) ->
  lookup (fs w) (f ++ bs ".rej") = None ->
  exists st' w' rest,
    process_section o st false p s w = (Ok (st', s), w') /\
    lookup (fs w') f = Some (Reg data mode) /\
    (backup_name o f <> f ++ bs ".rej" -> lookup (fs w') (backup_name o f) = lookup (fs w) (backup_name o f)) /\
    (forall q, q <> f ++ bs ".rej" -> lookup (fs w') q = lookup (fs w) q) /\
    lookup (fs w') (f ++ bs ".rej") =
      Some (Reg (write_patch_header_as_unified (effective o p) ++ rest) (created_mode (umask w))) /\
    Forall (fun op => op = OOpenRead f \/ exists d, op = OWrite (f ++ bs ".rej") d) (skipn (length (trace w)) (trace w')) /\
    had_failure st' = true /\ backed_up st' = backed_up st /\ deferred_writes st' = [] /\
    deferred_removals st' = deferred_removals st /\
    events st' = events st ++ skipping_msg o
                 ++ inform_hunks_failed (bs "ignored") (length (hunks p)) (length (hunks p)) ++ [10%N] /\
    fault w' = None.
Proof.
  intros Op Hu Pop P3 Po Pn Hd Hn Hs Hh L Fw Dw Lf Hm Hr Hw Lr.
  destruct (section_ignored_N o p f h hs st s w data mode Op Hu Pop P3 Po Pn Hd Hn Hs Hh L Fw Dw Lf Hm Hr Hw Lr)
    as (w' & E & Fs' & Tr & Fa & Um & So).
  eexists. exists w'. eexists. split; [exact E|].
  destruct (upd_lookup (fs w) (f ++ bs ".rej") (Reg (skipped_rejects (effective o p) (h :: hs)) (created_mode (umask w)))) as [L1 L2].
  rewrite Fs'. split; [rewrite L2 by apply rej_name_longer; exact Lf|].
  split; [intros Hb; apply L2; exact Hb|]. split; [exact L2|]. split; [rewrite L1; unfold skipped_rejects; reflexivity|].
  split.
  { rewrite Tr. rewrite skipn_app, skipn_all, Nat.sub_diag. cbn [app skipn].
    constructor; [left; reflexivity|]. constructor; [right; eexists; reflexivity|constructor]. }
  unfold ignored_state, set_failure, add_event. cbn [had_failure backed_up deferred_writes deferred_removals events].
  rewrite <- app_assoc. repeat split; try reflexivity; assumption.
Qed.

(* ================================================================================================================== *)
(* (C) C18: the one backup of a series of deferred writes                                                             *)
(* ================================================================================================================== *)

(* the backup name is never the name itself, and different names have different backup names *)
Lemma backup_name_neq o f : backup_name o f <> f.
Proof.
  rewrite backup_name_spec. intros E. apply (f_equal (@length N)) in E. rewrite !app_length in E.
  destruct (backup_prefix o) as [|a x], (backup_suffix o) as [|b y]; cbn in E; lia.
Qed.

Lemma backup_name_inj o f g : backup_name o f = backup_name o g -> f = g.
Proof.
  rewrite !backup_name_spec. intros E. apply app_inv_head in E. apply app_inv_tail in E. exact E.
Qed.

Lemma backup_name_nonnil o f : f <> [] -> backup_name o f <> [].
Proof.
  intros Hn E. rewrite backup_name_spec in E. apply app_eq_nil in E. destruct E as [_ E].
  apply app_eq_nil in E. destruct E as [E _]. contradiction.
Qed.

(* the mode a deferred write leaves *)
Definition mode_before_write (cf : option N) (mode : N) : N := match cf with Some c => c | None => mode end.
Definition mode_after_write (pa : option N) (mode : N) : N := match pa with Some pm => pm | None => mode end.

(* write_now on a regular file of the working directory, no backup to take (none asked for, or taken already) *)
Lemma write_now_reg o st bytes f nn bk cf pa w data mode :
  (bk = true -> existsb (str_eqb (backup_name o f)) (backed_up st) = true) ->
  fault w = None -> ~ In 47%N f -> lookup (fs w) f = Some (Reg data mode) ->
  owner_w (mode_before_write cf mode) = true ->
  exists w', write_now o st (mkDef bytes f nn bk cf pa) w = (Ok st, w') /\
             lookup (fs w') f = Some (Reg bytes (mode_after_write pa (mode_before_write cf mode))) /\
             (forall q, q <> f -> lookup (fs w') q = lookup (fs w) q) /\ fault w' = None /\ umask w' = umask w.
Proof.
  intros Hb Fw Hs Lf Hw.
  unfold write_now. cbn [d_backup d_dest d_chmod_first d_data d_perm_after].
  assert (B : (if bk then make_backup_for o st f else mret st) w = (Ok st, w)).
  { destruct bk; [rewrite (backup_only_once o st f (Hb eq_refl))|]; reflexivity. }
  rewrite mbind_eq, B. rewrite mbind_eq. cbn [get_fs].
  assert (Ex : exists_ (fs w) f = true) by (unfold exists_; rewrite (stat_reg _ _ _ _ Hs Lf); reflexivity).
  (* chmod first *)
  assert (S1 : exists w2, (match cf with
                           | Some c => if exists_ (fs w) f then checked (OChmod f c) else mret tt
                           | None => mret tt end) w = (Ok tt, w2) /\
                          lookup (fs w2) f = Some (Reg data (mode_before_write cf mode)) /\
                          (forall q, q <> f -> lookup (fs w2) q = lookup (fs w) q) /\ fault w2 = None /\ umask w2 = umask w).
  { destruct cf as [c|]; cbn [mode_before_write].
    - rewrite Ex, (chk_chmod_reg f c w data mode Fw Hs Lf). eexists. split; [reflexivity|]. cbn [wstep fs fault umask].
      destruct (upd_lookup (fs w) f (Reg data c)) as [L1 L2]. repeat split; assumption.
    - exists w. repeat split; try assumption; reflexivity. }
  destruct S1 as (w2 & E1 & L2f & L2o & F2 & U2). rewrite mbind_eq, E1.
  (* write *)
  rewrite mbind_eq, (chk_write_reg f bytes w2 data _ F2 Hs L2f Hw).
  set (w3 := wstep w2 (upd (fs w2) f (Reg bytes (mode_before_write cf mode))) (OWrite f bytes)).
  destruct (upd_lookup (fs w2) f (Reg bytes (mode_before_write cf mode))) as [L3f L3o].
  (* chmod after *)
  destruct pa as [pm|]; cbn [mode_after_write].
  - rewrite mbind_eq, (chk_chmod_reg f pm w3 bytes (mode_before_write cf mode) eq_refl Hs L3f). cbn [mret].
    eexists. split; [reflexivity|]. cbn [wstep fs fault umask w3].
    destruct (upd_lookup (upd (fs w2) f (Reg bytes (mode_before_write cf mode))) f (Reg bytes pm)) as [L4f L4o].
    split; [exact L4f|]. split; [|split; [reflexivity|exact U2]].
    intros q Hq. rewrite (L4o q Hq), (L3o q Hq). apply L2o. exact Hq.
  - rewrite mbind_eq. cbn [mret]. exists w3. split; [reflexivity|]. cbn [wstep fs fault umask w3].
    split; [exact L3f|]. split; [|split; [reflexivity|exact U2]].
    intros q Hq. rewrite (L3o q Hq). apply L2o. exact Hq.
Qed.

Definition with_backed_up (st : dstate) (b : list N) : dstate :=
  mkDS (had_failure st) (b :: backed_up st) (deferred_writes st) (deferred_removals st) (events st).

(* write_now on a regular file of the working directory whose backup is due: the file goes to the backup name as it is
   (bytes and mode), and the name comes into being again with the new bytes *)
Lemma write_now_backup_reg o st bytes f nn cf pa w c0 mode0 :
  existsb (str_eqb (backup_name o f)) (backed_up st) = false ->
  fault w = None -> f <> [] -> ~ In 47%N f -> ~ In 47%N (backup_name o f) ->
  lookup (fs w) f = Some (Reg c0 mode0) -> lookup (fs w) (backup_name o f) = None ->
  exists w', write_now o st (mkDef bytes f nn true cf pa) w = (Ok (with_backed_up st (backup_name o f)), w') /\
             lookup (fs w') (backup_name o f) = Some (Reg c0 mode0) /\
             lookup (fs w') f = Some (Reg bytes (mode_after_write pa (created_mode (umask w)))) /\
             (forall q, q <> f -> q <> backup_name o f -> lookup (fs w') q = lookup (fs w) q) /\
             fault w' = None /\ umask w' = umask w.
Proof.
  intros Hb Fw Hn Hs Hsb Lf Lb. set (b := backup_name o f) in *.
  assert (Nb : b <> f) by apply backup_name_neq.
  unfold write_now. cbn [d_backup d_dest d_chmod_first d_data d_perm_after].
  rewrite (make_backup_for_shape o st f Hb). fold b. fold (with_backed_up st b).
  assert (Ex : exists_ (fs w) f = true) by (unfold exists_; rewrite (stat_reg _ _ _ _ Hs Lf); reflexivity).
  rewrite mbind_eq. rewrite mbind_eq.
  rewrite (ensure_noslash b (backup_name_nonnil o f Hn) Hsb). cbn [mret].
  unfold backup_core. rewrite mbind_eq. cbn [get_fs]. rewrite Ex.
  rewrite mbind_eq, (chk_rename f b w _ Fw Hs Hsb Lf Lb). cbn [mret].
  set (w1 := wstep w (upd (remove_key (fs w) f) b (Reg c0 mode0)) (ORename f b)).
  assert (L1f : lookup (fs w1) f = None).
  { cbn [w1 wstep fs]. rewrite lookup_upd_other by exact Nb. apply lookup_remove_same. }
  assert (L1b : lookup (fs w1) b = Some (Reg c0 mode0)) by (cbn [w1 wstep fs]; apply lookup_upd_same).
  assert (L1o : forall q, q <> f -> q <> b -> lookup (fs w1) q = lookup (fs w) q).
  { intros q H1 H2. cbn [w1 wstep fs]. rewrite lookup_upd_other by (intros E; apply H2; symmetry; exact E).
    apply lookup_remove_other. intros E; apply H1; symmetry; exact E. }
  rewrite mbind_eq. cbn [get_fs]. rewrite (exists_none _ _ L1f).
  assert (S1 : (match cf with Some c => mret tt | None => mret tt end) w1 = (Ok tt, w1)) by (destruct cf; reflexivity).
  rewrite mbind_eq, S1.
  rewrite mbind_eq, (chk_write_absent f bytes w1 eq_refl Hs L1f).
  set (w2 := wstep w1 (upd (fs w1) f (Reg bytes (created_mode (umask w1)))) (OWrite f bytes)).
  destruct (upd_lookup (fs w1) f (Reg bytes (created_mode (umask w1)))) as [L2f L2o].
  destruct pa as [pm|]; cbn [mode_after_write].
  - rewrite mbind_eq, (chk_chmod_reg f pm w2 bytes _ eq_refl Hs L2f). cbn [mret].
    eexists. split; [reflexivity|]. cbn [wstep fs fault umask w2].
    destruct (upd_lookup (upd (fs w1) f (Reg bytes (created_mode (umask w1)))) f (Reg bytes pm)) as [L3f L3o].
    split; [rewrite (L3o b Nb), (L2o b Nb); exact L1b|]. split; [exact L3f|].
    split; [|split; reflexivity].
    intros q H1 H2. rewrite (L3o q H1), (L2o q H1). apply L1o; assumption.
  - rewrite mbind_eq. cbn [mret]. exists w2. split; [reflexivity|]. cbn [wstep fs fault umask w2].
    split; [rewrite (L2o b Nb); exact L1b|]. split; [exact L2f|]. split; [|split; reflexivity].
    intros q H1 H2. rewrite (L2o q H1). apply L1o; assumption.
Qed.

(* (C), two writes to one file, at least one of which asks for the backup (in particular: the second asks for it and the
   first does not): the backup is taken before the FIRST write, so that it holds the original and not what the first
   write left *)
Theorem series_backup_two_gen o st w f c0 mode0 data1 data2 nn1 nn2 bk1 bk2 cf1 cf2 pa1 pa2 :
  let d1 := mkDef data1 f nn1 bk1 cf1 pa1 in
  let d2 := mkDef data2 f nn2 bk2 cf2 pa2 in
  let m1 := mode_after_write pa1 (created_mode (umask w)) in
  bk1 || bk2 = true ->
  fault w = None -> f <> [] -> ~ In 47%N f -> ~ In 47%N (backup_name o f) ->
  lookup (fs w) f = Some (Reg c0 mode0) -> lookup (fs w) (backup_name o f) = None ->
  existsb (str_eqb (backup_name o f)) (backed_up st) = false ->
  owner_w (mode_before_write cf2 m1) = true ->
  exists w',
    finalize_writes o st [d1; d2] w = (Ok (with_backed_up st (backup_name o f)), w') /\
    lookup (fs w') (backup_name o f) = Some (Reg c0 mode0) /\
    lookup (fs w') f = Some (Reg data2 (mode_after_write pa2 (mode_before_write cf2 m1))) /\
    (forall q, q <> f -> q <> backup_name o f -> lookup (fs w') q = lookup (fs w) q) /\
    fault w' = None /\ umask w' = umask w.
Proof.
  cbv zeta. intros Hbk Fw Hn Hs Hsb Lf Lb Hb Hw. set (b := backup_name o f) in *.
  assert (Nb : b <> f) by apply backup_name_neq.
  unfold finalize_writes. cbn [finalize_writes_from d_dest]. unfold with_backup_of.
  cbn [d_data d_dest d_newname d_backup d_chmod_first d_perm_after existsb orb]. rewrite str_eqb_refl. cbn [andb].
  rewrite orb_false_r, Hbk, !orb_true_r.
  rewrite (ensure_noslash f Hn Hs). rewrite mbind_eq. cbn [mret].
  destruct (write_now_backup_reg o st data1 f nn1 cf1 pa1 w c0 mode0 Hb Fw Hn Hs Hsb Lf Lb)
    as (w1 & E1 & L1b & L1f & L1o & F1 & U1).
  fold b in E1, L1b, L1o. rewrite mbind_eq, E1. rewrite mbind_eq. cbn [mret].
  assert (Hb2 : true = true -> existsb (str_eqb (backup_name o f)) (backed_up (with_backed_up st b)) = true).
  { intros _. cbn [with_backed_up backed_up existsb]. fold b. rewrite str_eqb_refl. reflexivity. }
  destruct (write_now_reg o (with_backed_up st b) data2 f nn2 true cf2 pa2 w1 data1 _ Hb2 F1 Hs L1f Hw)
    as (w2 & E2 & L2f & L2o & F2 & U2).
  rewrite mbind_eq, E2. cbn [mret]. exists w2. split; [reflexivity|].
  split; [rewrite (L2o b Nb); exact L1b|]. split; [exact L2f|]. split; [|split; [exact F2|rewrite U2; exact U1]].
  intros q H1 H2. rewrite (L2o q H1). apply L1o; assumption.
Qed.

Theorem series_backup_two o st w f c0 mode0 data1 data2 nn1 nn2 cf1 cf2 pa1 pa2 :
  let d1 := mkDef data1 f nn1 false cf1 pa1 in
  let d2 := mkDef data2 f nn2 true cf2 pa2 in
  let m1 := mode_after_write pa1 (created_mode (umask w)) in
  fault w = None -> f <> [] -> ~ In 47%N f -> ~ In 47%N (backup_name o f) ->
  lookup (fs w) f = Some (Reg c0 mode0) -> lookup (fs w) (backup_name o f) = None ->
  existsb (str_eqb (backup_name o f)) (backed_up st) = false ->
  owner_w (mode_before_write cf2 m1) = true ->
  exists w',
    finalize_writes o st [d1; d2] w = (Ok (with_backed_up st (backup_name o f)), w') /\
    lookup (fs w') (backup_name o f) = Some (Reg c0 mode0) /\
    lookup (fs w') f = Some (Reg data2 (mode_after_write pa2 (mode_before_write cf2 m1))) /\
    (forall q, q <> f -> q <> backup_name o f -> lookup (fs w') q = lookup (fs w) q) /\
    fault w' = None /\ umask w' = umask w.
Proof. cbv zeta. apply (series_backup_two_gen o st w f c0 mode0 data1 data2 nn1 nn2 false true cf1 cf2 pa1 pa2). reflexivity. Qed.

(* ---------- the general statement, on the trace: no write to f before the backup of f ---------- *)
Definition is_write_to (f : list N) (op : sysop) : Prop := exists data, op = OWrite f data.
Definition is_backup_of (o : options) (f : list N) (op : sysop) : Prop :=
  op = ORename f (backup_name o f) \/ op = OWrite (backup_name o f) [].

(* every operation of l that satisfies R has an operation that satisfies Q somewhere before it *)
Definition preceded (Q R : sysop -> Prop) (l : list sysop) : Prop :=
  forall pre x post, l = pre ++ x :: post -> R x -> Exists Q pre.

Lemma Forall_not_in (R : sysop -> Prop) l pre x post : Forall (fun y => ~ R y) l -> l = pre ++ x :: post -> R x -> False.
Proof.
  intros F E Hx. rewrite E in F. apply Forall_app in F. destruct F as [_ F]. inversion F as [|y r Hy Hr]; subst. exact (Hy Hx).
Qed.

Lemma preceded_none Q R l : Forall (fun y => ~ R y) l -> preceded Q R l.
Proof. intros F pre x post E Hx. exfalso. exact (Forall_not_in R l pre x post F E Hx). Qed.

Lemma preceded_app_none Q R l1 l2 : Forall (fun y => ~ R y) l1 -> preceded Q R l2 -> preceded Q R (l1 ++ l2).
Proof.
  intros F P pre x post E Hx. apply app_eq_app in E. destruct E as (l & [[E1 E2]|[E1 E2]]).
  - destruct l as [|y l].
    + cbn [app] in E2. assert (X : Exists Q []) by (apply (P [] x post); [symmetry; exact E2|exact Hx]). inversion X.
    + cbn [app] in E2. inversion E2; subst. exfalso. exact (Forall_not_in R _ pre y l F eq_refl Hx).
  - subst pre. apply Exists_app. right. apply (P l x post); [exact E2|exact Hx].
Qed.

Lemma preceded_app_done Q R l1 l2 : preceded Q R l1 -> Exists Q l1 -> preceded Q R (l1 ++ l2).
Proof.
  intros P Ex pre x post E Hx. apply app_eq_app in E. destruct E as (l & [[E1 E2]|[E1 E2]]).
  - destruct l as [|y l].
    + rewrite app_nil_r in E1. subst pre. exact Ex.
    + cbn [app] in E2. inversion E2; subst. apply (P pre y l eq_refl Hx).
  - subst pre. apply Exists_app. left. exact Ex.
Qed.

Section Ordered.
Variables Q R : sysop -> Prop.

(* m's operations are in order *)
Definition TO {A} (m : M A) : Prop :=
  forall w, exists ext, trace (snd (m w)) = trace w ++ ext /\ preceded Q R ext.
(* ... and when m succeeds, an operation satisfying Q has been performed *)
Definition TD {A} (m : M A) : Prop :=
  forall w, exists ext, trace (snd (m w)) = trace w ++ ext /\ preceded Q R ext /\
                        (forall a, fst (m w) = Ok a -> Exists Q ext).
(* m performs no operation satisfying R, and leaves a state satisfying G *)
Definition TN {A} (G : A -> Prop) (m : M A) : Prop :=
  forall w, exists ext, trace (snd (m w)) = trace w ++ ext /\ Forall (fun y => ~ R y) ext /\
                        (forall a, fst (m w) = Ok a -> G a).

Lemma TN_of {A} (G : A -> Prop) (m : M A) : TP (fun y => ~ R y) m -> Post m G -> TN G m.
Proof.
  intros H P w. destruct (H w) as (ext & T & F). exists ext. split; [exact T|]. split; [exact F|].
  intros a E. destruct (m w) as [r w'] eqn:Em. cbn [fst] in E. subst r. exact (P w a w' Em).
Qed.

Lemma TD_TO {A} (m : M A) : TD m -> TO m.
Proof. intros H w. destruct (H w) as (ext & T & P & _). exists ext. auto. Qed.

Lemma TO_bind_TN {A B} (G : A -> Prop) (m : M A) (k : A -> M B) :
  TN G m -> (forall a, G a -> TO (k a)) -> TO (mbind m k).
Proof.
  intros Hm Hk w. unfold mbind. destruct (Hm w) as (e1 & T1 & F1 & G1). destruct (m w) as [[a|e] w1]; cbn [fst snd] in *.
  - destruct (Hk a (G1 a eq_refl) w1) as (e2 & T2 & P2). exists (e1 ++ e2). rewrite T2, T1, app_assoc. split; [reflexivity|].
    apply preceded_app_none; assumption.
  - exists e1. split; [exact T1|]. apply preceded_none. exact F1.
Qed.

Lemma TD_bind_any {A B} (m : M A) (k : A -> M B) :
  TD m -> (forall a, TP (fun _ => True) (k a)) -> TD (mbind m k).
Proof.
  intros Hm Hk w. unfold mbind. destruct (Hm w) as (e1 & T1 & P1 & X1). destruct (m w) as [[a|e] w1]; cbn [fst snd] in *.
  - destruct (Hk a w1) as (e2 & T2 & _). exists (e1 ++ e2). rewrite T2, T1, app_assoc. split; [reflexivity|].
    pose proof (X1 a eq_refl) as Ex. split; [apply preceded_app_done; assumption|].
    intros _ _. apply Exists_app. left. exact Ex.
  - exists e1. split; [exact T1|]. split; [exact P1|]. intros a E. discriminate E.
Qed.

Lemma TD_bind_TN {A B} (G : A -> Prop) (m : M A) (k : A -> M B) :
  TN G m -> (forall a, G a -> TD (k a)) -> TD (mbind m k).
Proof.
  intros Hm Hk w. unfold mbind. destruct (Hm w) as (e1 & T1 & F1 & G1). destruct (m w) as [[a|e] w1]; cbn [fst snd] in *.
  - destruct (Hk a (G1 a eq_refl) w1) as (e2 & T2 & P2 & X2). exists (e1 ++ e2). rewrite T2, T1, app_assoc. split; [reflexivity|].
    split; [apply preceded_app_none; assumption|]. intros b E. apply Exists_app. right. exact (X2 b E).
  - exists e1. split; [exact T1|]. split; [apply preceded_none; exact F1|]. intros a E. discriminate E.
Qed.

(* one checked operation which satisfies Q and not R *)
Lemma TD_checked op : Q op -> ~ R op -> TD (checked op).
Proof.
  intros Hq Hr w. exists [op]. split.
  - unfold checked, mbind, perform.
    destruct (fault w) as [[|k]|]; [reflexivity| |]; destruct (exec_op (fs w) (umask w) op); reflexivity.
  - split; [apply preceded_none; constructor; [exact Hr|constructor]|]. intros _ _. constructor. exact Hq.
Qed.
End Ordered.

Lemma TO_ret Q R {A} (a : A) : TO Q R (mret a).
Proof. intros w. exists []. rewrite app_nil_r. split; [reflexivity|]. apply preceded_none. constructor. Qed.

Lemma TP_ensure_nowrite f p : TP (fun y => ~ is_write_to f y) (ensure_parent_directories p).
Proof. eapply TP_weaken; [apply TP_ensure|]. intros op (d & -> & _) (data & E). discriminate E. Qed.

Lemma TP_any_write_now o st d : TP (fun _ => True) (write_now o st d).
Proof. destruct d as [data dest nn bk cf pa]. eapply TP_weaken; [apply (TP_write_now o dest dest)|]. intros op _. exact I. Qed.

Lemma TP_any_finalize_from o all ds st : TP (fun _ => True) (finalize_writes_from o all st ds).
Proof. eapply TP_weaken; [apply finalize_from_ops_allowed|]. intros op _. exact I. Qed.

(* a write to another name, whose backup name is not f either, performs no write to f *)
Lemma TP_write_now_other o st d f :
  d_dest d <> f -> backup_name o (d_dest d) <> f -> TP (fun y => ~ is_write_to f y) (write_now o st d).
Proof.
  intros Hg Hb. unfold write_now, make_backup_for, backup_core.
  pose proof (TP_ensure_nowrite f (backup_name o (d_dest d))) as He.
  tp; intros (data & E); inversion E; congruence.
Qed.

Lemma Post_weaken {A} (m : M A) (G H : A -> Prop) : Post m G -> (forall x, G x -> H x) -> Post m H.
Proof. intros P I w x w' E. apply I. eapply P. exact E. Qed.

Lemma Post_write_now_backed_up o st d :
  Post (write_now o st d)
       (fun st' => backed_up st' = backed_up st \/ backed_up st' = backup_name o (d_dest d) :: backed_up st).
Proof.
  unfold write_now.
  eapply Post_bind with (Q := fun st1 => backed_up st1 = backed_up st \/ backed_up st1 = backup_name o (d_dest d) :: backed_up st).
  - destruct (d_backup d); [|apply Post_ret; left; reflexivity].
    unfold make_backup_for. destruct (existsb _ _); [apply Post_ret; left; reflexivity|].
    eapply Post_bind; [apply Post_true|intros _ _]. unfold backup_core.
    eapply Post_bind; [apply Post_true|intros m _].
    destruct (exists_ m (d_dest d)); (eapply Post_bind; [apply Post_true|intros _ _]); apply Post_ret; right; reflexivity.
  - intros st1 H1.
    eapply Post_bind; [apply Post_true|intros m _].
    eapply Post_bind; [apply Post_true|intros _ _].
    eapply Post_bind; [apply Post_true|intros _ _].
    eapply Post_bind; [apply Post_true|intros _ _].
    apply Post_ret. exact H1.
Qed.

(* the first backup of f: whatever else happens, if it succeeds the rename (or the creation of the empty backup) has been
   performed, and no write to f *)
Lemma TD_make_backup o st f :
  existsb (str_eqb (backup_name o f)) (backed_up st) = false ->
  TD (is_backup_of o f) (is_write_to f) (make_backup_for o st f).
Proof.
  intros Hb. rewrite (make_backup_for_shape o st f Hb).
  apply TD_bind_TN with (G := fun _ => True).
  { apply TN_of; [apply TP_ensure_nowrite|apply Post_true]. }
  intros _ _. unfold backup_core.
  apply TD_bind_TN with (G := fun _ => True).
  { apply TN_of; [apply TP_getfs|apply Post_true]. }
  intros m _. destruct (exists_ m f).
  - apply TD_bind_any; [|intros _; apply TP_ret]. apply TD_checked; [left; reflexivity|].
    intros (data & E). discriminate E.
  - apply TD_bind_any; [|intros _; apply TP_ret]. apply TD_checked; [right; reflexivity|].
    intros (data & E). inversion E as [E1]. exact (backup_name_neq o f E1).
Qed.

Lemma finalize_from_backup_first o all f :
  existsb (fun x => str_eqb (d_dest x) f && d_backup x) all = true ->
  forall ds st,
  (forall d, In d ds -> backup_name o (d_dest d) <> f) ->
  existsb (str_eqb (backup_name o f)) (backed_up st) = false ->
  TO (is_backup_of o f) (is_write_to f) (finalize_writes_from o all st ds).
Proof.
  intros Hall. induction ds as [|d r IH]; intros st Hside Hfresh; cbn [finalize_writes_from]; [apply TO_ret|].
  apply TO_bind_TN with (G := fun _ => True).
  { apply TN_of; [apply TP_ensure_nowrite|apply Post_true]. }
  intros _ _. destruct (str_eqb (d_dest d) f) eqn:E.
  - (* the first write to f of what is left: it takes the backup first *)
    apply str_eqb_eq in E. apply TD_TO. apply TD_bind_any; [|intros st'; apply TP_any_finalize_from].
    unfold write_now.
    assert (Bk : d_backup (with_backup_of all d) = true).
    { unfold with_backup_of. cbn [d_backup]. rewrite E, Hall. apply orb_true_r. }
    assert (De : d_dest (with_backup_of all d) = f) by (unfold with_backup_of; cbn [d_dest]; exact E).
    rewrite Bk, De.
    apply TD_bind_any; [apply TD_make_backup; exact Hfresh|]. intros st1.
    pose proof (fun p => TP_weaken _ (fun _ => True) _ (TP_ensure p) (fun _ _ => I)) as He.
    tp; exact I.
  - (* a write to another name *)
    apply str_eqb_neq in E.
    assert (De : d_dest (with_backup_of all d) = d_dest d) by reflexivity.
    apply TO_bind_TN with (G := fun st' => existsb (str_eqb (backup_name o f)) (backed_up st') = false).
    + apply TN_of.
      * apply TP_write_now_other; rewrite De; [exact E|apply Hside; left; reflexivity].
      * eapply Post_weaken; [apply Post_write_now_backed_up|]. cbv beta. rewrite De.
        intros st' [H|H]; rewrite H; [exact Hfresh|]. cbn [existsb]. rewrite Hfresh, orb_false_r.
        apply str_eqb_neq. intros Eb. apply E. symmetry. exact (backup_name_inj o _ _ Eb).
    + intros st' Hst'. apply IH; [|exact Hst']. intros d0 I0. apply Hside. right. exact I0.
Qed.

(* (C), any series: when some deferred write to f asks for a backup, the backup of f has not been taken yet in this run, and
   f is not itself the backup name of a destination of the series, then in the operations finalize_writes performs every
   write to f comes after the operation that takes the backup of f (the rename of f to its backup name, or the creation of
   an empty backup file when f is not there) *)
Theorem backup_before_first_write o st ds f w :
  (exists d, In d ds /\ d_dest d = f /\ d_backup d = true) ->
  (forall d, In d ds -> backup_name o (d_dest d) <> f) ->
  existsb (str_eqb (backup_name o f)) (backed_up st) = false ->
  exists ext, trace (snd (finalize_writes o st ds w)) = trace w ++ ext /\
    forall pre data post, ext = pre ++ OWrite f data :: post -> Exists (is_backup_of o f) pre.
Proof.
  intros (d & Id & Ed & Bd) Hside Hfresh. unfold finalize_writes.
  assert (Hall : existsb (fun x => str_eqb (d_dest x) f && d_backup x) ds = true).
  { apply existsb_exists. exists d. split; [exact Id|]. rewrite Ed, Bd, str_eqb_refl. reflexivity. }
  destruct (finalize_from_backup_first o ds f Hall ds st Hside Hfresh w) as (ext & T & P).
  exists ext. split; [exact T|]. intros pre data post E. apply (P pre (OWrite f data) post E). exists data. reflexivity.
Qed.

(* ================================================================================================================== *)
(* (B) C17: a series of git sections for one file                                                                     *)
(* ================================================================================================================== *)

(* the permissions section_tail is going to set after writing *)
Definition perm_after_of (nm pm : N) : option N :=
  if negb (N.eqb nm 0) then Some (N.land nm 4095) else if N.eqb pm perms_unknown then None else Some pm.

(* the state a git change section leaves: one more deferred write, nothing else *)
Definition deferring_state (st : dstate) (d : deferred) : dstate :=
  mkDS (had_failure st) (backed_up st) (deferred_writes st ++ [d]) (deferred_removals st) (events st ++ []).

(* section_tail of a perfectly applied git change: nothing is done yet, the write is put off to the end of the run *)
Lemma tail_git_defer o st ftp f operms pm needed (ar : aresult) s2 w :
  out_file_path o = [] -> dry_run o = false ->
  r_failed ar = 0 -> r_skipped ar = false -> r_perfect ar = true -> r_msgs ar = [] ->
  pfmt (r_patch ar) = FGit -> poper (r_patch ar) = OpChange ->
  is_symlink_mode (new_mode (r_patch ar)) = false ->
  (remove_empty_files o <> OBYes \/
   (new_path (r_patch ar) <> devnull /\ lines_bytes (newline_output o) (r_out ar) <> [])) ->
  f <> [] -> ~ In 47%N f ->
  section_tail o st ftp f operms pm needed ar s2 w =
  (Ok (deferring_state st (mkDef (lines_bytes (newline_output o) (r_out ar)) f false (save_backup o)
                                 (if needed then Some (N.lor operms write_mask) else None)
                                 (perm_after_of (new_mode (r_patch ar)) pm)), s2), w).
Proof.
  intros O2 O3 Rf Rs Rp Rm Pf Pop Sy Nd Hn Hs.
  unfold section_tail. rewrite Rf, Rs, Rp, Rm, O2, O3, Pf, Pop, Sy.
  cbn [Nat.eqb negb andb orb is_nil]. rewrite orb_false_r.
  change (str_eqb [] (bs "-")) with false. cbv iota.
  rewrite mbind_eq. cbn [mret].
  rewrite (ensure_noslash f Hn Hs).
  match goal with |- context [if ?c then (if is_nil ?b then ?x else ?y) else ?z] =>
    assert (X : (if c then (if is_nil b then x else y) else z) = z) end.
  { destruct (remove_empty_files o) eqn:Re; try reflexivity.
    destruct Nd as [Nr|(Pn & Nb)]; [congruence|].
    apply str_eqb_neq in Pn. rewrite Pn.
    destruct (lines_bytes (newline_output o) (r_out ar)); [congruence|]. cbn [is_nil].
    destruct (hunks (r_patch ar)) as [|h hs]; [reflexivity|].
    destruct ((rstart (newr h) =? 0)%Z && (rcount (newr h) =? 0)%Z); reflexivity. }
  rewrite X. clear X.
  rewrite mbind_eq. cbn [mret]. rewrite mbind_eq. rewrite mbind_eq. cbn [mret]. rewrite mbind_eq. cbn [mret andb].
  rewrite ?mbind_eq. cbn [mret]. unfold deferring_state, perm_after_of, add_event.
  cbn [had_failure backed_up deferred_writes deferred_removals events]. reflexivity.
Qed.

(* the head of a section whose file has a write pending from an earlier section of the run: the permissions and the
   content are those the pending write is going to leave; nothing is read from the disk *)
Lemma head_pending o st p s w f d pm ndata nmode :
  file_to_patch o = [] ->
  guess_filepath (fs w) (map d_dest (deferred_writes st)) p o = f -> output_path o p f = f ->
  find (fun x => str_eqb (d_dest x) f) (rev (deferred_writes st)) = Some d ->
  d_newname d = false -> d_perm_after d = Some pm -> (pm < 4096)%N ->
  (N.land pm write_mask <> 0%N \/ read_only o <> ROFail) ->
  lookup (fs w) f = Some (Reg ndata nmode) -> f <> [] -> ~ In 47%N f ->
  prereq p = [] -> poper p <> OpRename ->
  process_section o st false p s w =
  (let! ar := mlift (apply_patch o (split_lines (d_data d)) p) in
   section_tail o st f f pm pm (N.eqb (N.land pm write_mask) 0) ar s) w.
Proof.
  intros O1 G Out Fd Dn Dp Hm Hw Lf Hn Hs P3 Pop.
  pose proof (stat_reg _ _ _ _ Hs Lf) as St.
  assert (Ex : exists_ (fs w) f = true) by (unfold exists_; rewrite St; reflexivity).
  assert (Rg : is_regular_file (fs w) f = true) by (unfold is_regular_file; rewrite St; reflexivity).
  unfold process_section. rewrite mbind_eq. cbn [get_fs]. rewrite O1. cbn [is_nil]. rewrite G.
  assert (Nn : is_nil f = false) by (destruct f; [congruence|reflexivity]). rewrite Nn.
  rewrite Ex, Rg. cbn [negb andb]. rewrite Out.
  assert (EP : effective_perms st (fs w) f = pm) by (unfold effective_perms; rewrite Fd, Dp; reflexivity).
  rewrite EP.
  assert (Ref : (N.eqb (N.land pm write_mask) 0 && match read_only o with ROFail => true | _ => false end) = false).
  { destruct Hw as [Hw|Hw].
    - apply N.eqb_neq in Hw. rewrite Hw. reflexivity.
    - destruct (read_only o); try congruence; apply andb_false_r. }
  rewrite Ref.
  assert (Unk : N.eqb pm perms_unknown = false) by (apply N.eqb_neq; unfold perms_unknown; lia).
  rewrite Unk. cbn [andb].
  assert (PC : pending_content st (fs w) f f = Some (d_data d)).
  { unfold pending_content. rewrite str_eqb_refl, Fd, Dn. reflexivity. }
  rewrite PC.
  rewrite mbind_eq. cbn [mret]. rewrite mbind_eq. rewrite P3. cbn [is_nil negb andb mret].
  assert (P1 : match poper p with OpRename => if str_eqb f f then set_oper p OpChange else p | _ => p end = p)
    by (destruct (poper p); try reflexivity; congruence).
  rewrite P1. unfold body_if. rewrite mbind_eq. cbn [mret]. reflexivity.
Qed.

Lemma git_guess o p f m pend :
  old_path p = f -> f <> devnull -> exists_ m f = true -> guess_filepath m pend p o = f.
Proof.
  intros Po Hd Ex. unfold guess_filepath. rewrite Po. apply str_eqb_neq in Hd. rewrite Hd. cbn [negb andb]. rewrite Ex. reflexivity.
Qed.

(* the record section_tail sees after a conforming git change *)
Lemma git_result_fields o p f (r : aresult) hs' :
  pfmt p = FGit -> poper p = OpChange -> old_path p = f -> new_path p = f -> f <> devnull ->
  r_patch r = set_hunks (effective o p) hs' ->
  pfmt (r_patch r) = FGit /\ poper (r_patch r) = OpChange /\ new_path (r_patch r) <> devnull /\
  new_mode (r_patch r) = new_mode (effective o p).
Proof.
  intros Pf Pop Po Pn Hd Hp3. rewrite Hp3. cbn [set_hunks pfmt poper new_path new_mode]. rewrite eff_pfmt.
  split; [exact Pf|]. unfold effective. destruct (reverse_patch_opt o); cbn [reverse_patch poper new_path]; rewrite ?Pop;
    repeat split; try reflexivity; congruence.
Qed.

(* the options under which (B) is stated: the file is chosen from the patch, no -o, no --dry-run, no -D, not --verbose;
   -b may or may not be given *)
Definition git_options (o : options) : Prop :=
  file_to_patch o = [] /\ out_file_path o = [] /\ dry_run o = false /\ define_macro o = [] /\
  verbose o = false /\ (0 <= max_fuzz o)%Z.

Lemma plain_git_options o : plain_options o -> git_options o /\ save_backup o = false.
Proof. intros (O1 & O2 & O3 & O4 & O5 & O6 & O8). unfold git_options. auto 10. Qed.

(* a git change section, the first one of the run for its file: the tree is left alone; the write is deferred, with the
   permissions to set afterwards: those of the mode header when there is one, else those the file has *)
Lemma section_git_first o p f X Y st s w data mode :
  git_options o ->
  pfmt p = FGit -> poper p = OpChange -> prereq p = [] -> old_path p = f -> new_path p = f ->
  is_symlink_mode (new_mode (effective o p)) = false ->
  f <> devnull -> f <> [] -> ~ In 47%N f ->
  Conforming X Y (hunks (effective o p)) ->
  (remove_empty_files o <> OBYes \/ lines_bytes (newline_output o) Y <> []) ->
  (Z.of_nat (length X) < MAXZ)%Z ->
  fault w = None -> deferred_writes st = [] ->
  lookup (fs w) f = Some (Reg data mode) -> (mode < 4096)%N -> owner_r mode = true ->
  (N.land mode write_mask <> 0%N \/ read_only o <> ROFail) ->
  split_lines data = X ->
  process_section o st false p s w =
  (Ok (deferring_state st (mkDef (lines_bytes (newline_output o) Y) f false (save_backup o)
                                 (if N.eqb (N.land mode write_mask) 0 then Some (N.lor mode write_mask) else None)
                                 (perm_after_of (new_mode (effective o p)) mode)), s),
   wstep w (fs w) (OOpenRead f)).
Proof.
  intros (O1 & O2 & O3 & O5 & O6 & O8) Pf Pop P3 Po Pn Sy Hd Hn Hs HC Ne Hx Fw Dw Lf Hm Hr Hw HX.
  assert (Ex : exists_ (fs w) f = true) by (unfold exists_; rewrite (stat_reg _ _ _ _ Hs Lf); reflexivity).
  pose proof (git_guess o p f (fs w) (map d_dest (deferred_writes st)) Po Hd Ex) as G.
  assert (Out : output_path o p f = f) by (unfold output_path; rewrite O2, Pop; reflexivity).
  rewrite (head_existing o st p s w f data mode O1 G Out Dw Fw Lf Hm Hr Hw P3).
  2:{ rewrite Pop. discriminate. } 2: exact Hn. 2: exact Hs.
  rewrite HX.
  assert (Guard : creation_guard (effective o p) X).
  { intros E. exfalso. unfold creates_file, effective in E. destruct (reverse_patch_opt o); cbn [reverse_patch old_path] in E;
      [rewrite Pn in E|rewrite Po in E]; apply str_eqb_eq in E; contradiction. }
  destruct (apply_conforming_gen_full o p X Y O5 O6 O8 HC Hx Guard) as (r & Er & Ro & Rf & Rr & Rs & Rp & Rm & hs & Hp3).
  rewrite mbind_eq. unfold mlift. rewrite Er.
  destruct (git_result_fields o p f r hs Pf Pop Po Pn Hd Hp3) as (Q1 & Q2 & Q4 & Q3).
  rewrite (tail_git_defer o st f f mode mode _ r s _ O2 O3 Rf Rs Rp Rm Q1 Q2).
  - rewrite Ro, Q3. reflexivity.
  - rewrite Q3. exact Sy.
  - rewrite Ro. destruct Ne as [Ne|Ne]; [left; exact Ne|right; split; assumption].
  - exact Hn.
  - exact Hs.
Qed.

(* a later git change section for a file with a write pending: it reads what the pending write is going to leave, and the
   permissions it works with (and, without a mode header of its own, sets again after its write) are those the pending
   write is going to set, not those on disk *)
Lemma section_git_next o p f X Y st s w d pm ndata nmode :
  git_options o ->
  pfmt p = FGit -> poper p = OpChange -> prereq p = [] -> old_path p = f -> new_path p = f ->
  is_symlink_mode (new_mode (effective o p)) = false ->
  f <> devnull -> f <> [] -> ~ In 47%N f ->
  Conforming X Y (hunks (effective o p)) ->
  (remove_empty_files o <> OBYes \/ lines_bytes (newline_output o) Y <> []) ->
  (Z.of_nat (length X) < MAXZ)%Z ->
  find (fun x => str_eqb (d_dest x) f) (rev (deferred_writes st)) = Some d ->
  d_newname d = false -> d_perm_after d = Some pm -> (pm < 4096)%N ->
  (N.land pm write_mask <> 0%N \/ read_only o <> ROFail) ->
  lookup (fs w) f = Some (Reg ndata nmode) ->
  split_lines (d_data d) = X ->
  process_section o st false p s w =
  (Ok (deferring_state st (mkDef (lines_bytes (newline_output o) Y) f false (save_backup o)
                                 (if N.eqb (N.land pm write_mask) 0 then Some (N.lor pm write_mask) else None)
                                 (perm_after_of (new_mode (effective o p)) pm)), s), w).
Proof.
  intros (O1 & O2 & O3 & O5 & O6 & O8) Pf Pop P3 Po Pn Sy Hd Hn Hs HC Ne Hx Fd Dn Dp Hm Hw Lf HX.
  assert (Ex : exists_ (fs w) f = true) by (unfold exists_; rewrite (stat_reg _ _ _ _ Hs Lf); reflexivity).
  pose proof (git_guess o p f (fs w) (map d_dest (deferred_writes st)) Po Hd Ex) as G.
  assert (Out : output_path o p f = f) by (unfold output_path; rewrite O2, Pop; reflexivity).
  rewrite (head_pending o st p s w f d pm ndata nmode O1 G Out Fd Dn Dp Hm Hw Lf Hn Hs P3).
  2:{ rewrite Pop. discriminate. }
  rewrite HX.
  assert (Guard : creation_guard (effective o p) X).
  { intros E. exfalso. unfold creates_file, effective in E. destruct (reverse_patch_opt o); cbn [reverse_patch old_path] in E;
      [rewrite Pn in E|rewrite Po in E]; apply str_eqb_eq in E; contradiction. }
  destruct (apply_conforming_gen_full o p X Y O5 O6 O8 HC Hx Guard) as (r & Er & Ro & Rf & Rr & Rs & Rp & Rm & hs & Hp3).
  rewrite mbind_eq. unfold mlift. rewrite Er.
  destruct (git_result_fields o p f r hs Pf Pop Po Pn Hd Hp3) as (Q1 & Q2 & Q4 & Q3).
  rewrite (tail_git_defer o st f f pm pm _ r s _ O2 O3 Rf Rs Rp Rm Q1 Q2).
  - rewrite Ro, Q3. reflexivity.
  - rewrite Q3. exact Sy.
  - rewrite Ro. destruct Ne as [Ne|Ne]; [left; exact Ne|right; split; assumption].
  - exact Hn.
  - exact Hs.
Qed.

(* the end of the run for one or two deferred writes to a regular file of the working directory, no backup asked for *)
Lemma finalize_one_plain o st f b1 nn1 cf1 pa1 w data mode :
  fault w = None -> f <> [] -> ~ In 47%N f -> lookup (fs w) f = Some (Reg data mode) ->
  owner_w (mode_before_write cf1 mode) = true ->
  exists w', finalize_writes o st [mkDef b1 f nn1 false cf1 pa1] w = (Ok st, w') /\
             lookup (fs w') f = Some (Reg b1 (mode_after_write pa1 (mode_before_write cf1 mode))) /\
             (forall q, q <> f -> lookup (fs w') q = lookup (fs w) q) /\ fault w' = None /\ umask w' = umask w.
Proof.
  intros Fw Hn Hs Lf Hw1.
  unfold finalize_writes. cbn [finalize_writes_from d_dest]. unfold with_backup_of.
  cbn [d_data d_dest d_newname d_backup d_chmod_first d_perm_after existsb orb]. rewrite !andb_false_r. cbn [orb].
  rewrite (ensure_noslash f Hn Hs). rewrite mbind_eq. cbn [mret].
  assert (Nb : false = true -> existsb (str_eqb (backup_name o f)) (backed_up st) = true) by discriminate.
  destruct (write_now_reg o st b1 f nn1 false cf1 pa1 w data mode Nb Fw Hs Lf Hw1) as (w1 & E1 & L1f & L1o & F1 & U1).
  rewrite mbind_eq, E1. cbn [mret]. exists w1. repeat split; assumption.
Qed.

Lemma finalize_two_plain o st f b1 b2 nn1 nn2 cf1 cf2 pa1 pa2 w data mode :
  fault w = None -> f <> [] -> ~ In 47%N f -> lookup (fs w) f = Some (Reg data mode) ->
  owner_w (mode_before_write cf1 mode) = true ->
  owner_w (mode_before_write cf2 (mode_after_write pa1 (mode_before_write cf1 mode))) = true ->
  exists w', finalize_writes o st [mkDef b1 f nn1 false cf1 pa1; mkDef b2 f nn2 false cf2 pa2] w = (Ok st, w') /\
             lookup (fs w') f = Some (Reg b2 (mode_after_write pa2 (mode_before_write cf2
                                               (mode_after_write pa1 (mode_before_write cf1 mode))))) /\
             (forall q, q <> f -> lookup (fs w') q = lookup (fs w) q) /\ fault w' = None /\ umask w' = umask w.
Proof.
  intros Fw Hn Hs Lf Hw1 Hw2.
  unfold finalize_writes. cbn [finalize_writes_from d_dest]. unfold with_backup_of.
  cbn [d_data d_dest d_newname d_backup d_chmod_first d_perm_after existsb orb]. rewrite !andb_false_r. cbn [orb].
  rewrite (ensure_noslash f Hn Hs). rewrite mbind_eq. cbn [mret].
  assert (Nb : false = true -> existsb (str_eqb (backup_name o f)) (backed_up st) = true) by discriminate.
  destruct (write_now_reg o st b1 f nn1 false cf1 pa1 w data mode Nb Fw Hs Lf Hw1) as (w1 & E1 & L1f & L1o & F1 & U1).
  rewrite mbind_eq, E1. rewrite mbind_eq. cbn [mret].
  destruct (write_now_reg o st b2 f nn2 false cf2 pa2 w1 b1 _ Nb F1 Hs L1f Hw2) as (w2 & E2 & L2f & L2o & F2 & U2).
  rewrite mbind_eq, E2. cbn [mret]. exists w2. split; [reflexivity|]. split; [exact L2f|].
  split; [|split; [exact F2|rewrite U2; exact U1]]. intros q Hq. rewrite (L2o q Hq). apply L1o. exact Hq.
Qed.

Lemma land_4095_lt x : (N.land x 4095 < 4096)%N.
Proof. change 4095%N with (N.ones 12). rewrite N.land_ones. apply N.mod_lt. discriminate. Qed.

Lemma not_needed_of_owner_w mode : owner_w mode = true -> N.eqb (N.land mode write_mask) 0 = false.
Proof. intros H. apply N.eqb_neq. apply owner_w_write_mask. exact H. Qed.

Lemma perm_after_known nm pm : (pm < 4096)%N ->
  perm_after_of nm pm = Some (if N.eqb nm 0 then pm else N.land nm 4095).
Proof.
  intros H. unfold perm_after_of. destruct (N.eqb nm 0); cbn [negb]; [|reflexivity].
  assert (Unk : N.eqb pm perms_unknown = false) by (apply N.eqb_neq; unfold perms_unknown; lia).
  rewrite Unk. reflexivity.
Qed.

(* C17, one git change section and the end of the run: the file ends with the new content and with the permissions of its
   mode header when there is one ("new mode 100755"), else with those it had *)
Theorem git_section_mode o p f A B st s w data mode :
  plain_options o -> reverse_patch_opt o = false ->
  pfmt p = FGit -> poper p = OpChange -> prereq p = [] -> old_path p = f -> new_path p = f ->
  is_symlink_mode (new_mode p) = false ->
  f <> devnull -> f <> [] -> ~ In 47%N f ->
  Conforming A B (hunks p) ->
  (remove_empty_files o <> OBYes \/ lines_bytes (newline_output o) B <> []) ->
  (Z.of_nat (length A) < MAXZ)%Z ->
  fault w = None -> deferred_writes st = [] -> deferred_removals st = [] ->
  lookup (fs w) f = Some (Reg data mode) -> (mode < 4096)%N -> owner_r mode = true -> owner_w mode = true ->
  split_lines data = A ->
  exists st1 w1 st2 w2 w3,
    process_section o st false p s w = (Ok (st1, s), w1) /\ fs w1 = fs w /\
    finalize_writes o st1 (deferred_writes st1) w1 = (Ok st2, w2) /\
    finalize_removals (deferred_writes st1) (deferred_removals st1) w2 = (Ok tt, w3) /\
    lookup (fs w3) f = Some (Reg (lines_bytes (newline_output o) B)
                                 (if N.eqb (new_mode p) 0 then mode else N.land (new_mode p) 4095)) /\
    (forall q, q <> f -> lookup (fs w3) q = lookup (fs w) q) /\
    had_failure st2 = had_failure st /\ events st2 = events st /\ fault w3 = None /\ umask w3 = umask w.
Proof.
  intros Op Rv Pf Pop P3 Po Pn Sy Hd Hn Hs HC Ne Hx Fw Dw Dr Lf Hm Hr Hw HA.
  assert (Ef : effective o p = p) by (unfold effective; rewrite Rv; reflexivity).
  destruct (plain_git_options o Op) as [Og Sb].
  pose proof (section_git_first o p f A B st s w data mode Og Pf Pop P3 Po Pn) as E1.
  rewrite Ef, Sb in E1. specialize (E1 Sy Hd Hn Hs HC Ne Hx Fw Dw Lf Hm Hr (or_introl (owner_w_write_mask _ Hw)) HA).
  rewrite (not_needed_of_owner_w _ Hw), (perm_after_known _ _ Hm) in E1.
  set (pm := if N.eqb (new_mode p) 0 then mode else N.land (new_mode p) 4095) in *.
  set (d1 := mkDef (lines_bytes (newline_output o) B) f false false None (Some pm)) in *.
  set (st1 := deferring_state st d1) in *. set (w1 := wstep w (fs w) (OOpenRead f)) in *.
  assert (D1 : deferred_writes st1 = [d1]) by (unfold st1, deferring_state; cbn [deferred_writes]; rewrite Dw; reflexivity).
  assert (R1 : deferred_removals st1 = []) by (unfold st1, deferring_state; cbn [deferred_removals]; exact Dr).
  destruct (finalize_one_plain o st1 f (lines_bytes (newline_output o) B) false None (Some pm) w1 data mode eq_refl Hn Hs Lf Hw)
    as (w2 & E2 & L2f & L2o & F2 & U2).
  exists st1, w1, st1, w2, w2. split; [exact E1|]. split; [reflexivity|]. rewrite D1, R1.
  split; [exact E2|]. split; [reflexivity|]. split; [exact L2f|]. split; [exact L2o|].
  split; [reflexivity|]. split; [unfold st1, deferring_state; cbn [events]; apply app_nil_r|]. split; [exact F2|exact U2].
Qed.

(* C17, a series: the first section carries a mode header, the second does not.  The second section sees the permissions the
   first one is going to leave (its own deferred write sets them again), so that at the end of the run the file has the
   content after both sections and the permissions of the header -- not those it had on disk while the sections ran *)
Theorem git_series_mode o p1 p2 f A0 A1 A2 st s1 s2 w data m0 :
  plain_options o -> reverse_patch_opt o = false ->
  pfmt p1 = FGit -> poper p1 = OpChange -> prereq p1 = [] -> old_path p1 = f -> new_path p1 = f ->
  new_mode p1 <> 0%N -> is_symlink_mode (new_mode p1) = false -> owner_w (N.land (new_mode p1) 4095) = true ->
  pfmt p2 = FGit -> poper p2 = OpChange -> prereq p2 = [] -> old_path p2 = f -> new_path p2 = f ->
  new_mode p2 = 0%N ->
  f <> devnull -> f <> [] -> ~ In 47%N f ->
  Conforming A0 A1 (hunks p1) -> Conforming A1 A2 (hunks p2) ->
  split_lines (lines_bytes (newline_output o) A1) = A1 ->
  (remove_empty_files o <> OBYes \/
   (lines_bytes (newline_output o) A1 <> [] /\ lines_bytes (newline_output o) A2 <> [])) ->
  (Z.of_nat (length A0) < MAXZ)%Z -> (Z.of_nat (length A1) < MAXZ)%Z ->
  fault w = None -> deferred_writes st = [] -> deferred_removals st = [] ->
  lookup (fs w) f = Some (Reg data m0) -> (m0 < 4096)%N -> owner_r m0 = true -> owner_w m0 = true ->
  split_lines data = A0 ->
  let pm1 := N.land (new_mode p1) 4095 in
  exists st1 w1 st2 w2 st3 w3 w4 d1 d2,
    process_section o st false p1 s1 w = (Ok (st1, s1), w1) /\ fs w1 = fs w /\
    process_section o st1 false p2 s2 w1 = (Ok (st2, s2), w2) /\ fs w2 = fs w /\
    deferred_writes st2 = [d1; d2] /\ d_perm_after d1 = Some pm1 /\ d_perm_after d2 = Some pm1 /\
    finalize_writes o st2 (deferred_writes st2) w2 = (Ok st3, w3) /\
    finalize_removals (deferred_writes st2) (deferred_removals st2) w3 = (Ok tt, w4) /\
    lookup (fs w4) f = Some (Reg (lines_bytes (newline_output o) A2) pm1) /\
    (forall q, q <> f -> lookup (fs w4) q = lookup (fs w) q) /\
    had_failure st3 = had_failure st /\ events st3 = events st /\ fault w4 = None /\ umask w4 = umask w.
Proof.
  intros Op Rv Pf1 Pop1 P31 Po1 Pn1 Nm1 Sy1 Hw1 Pf2 Pop2 P32 Po2 Pn2 Nm2 Hd Hn Hs HC1 HC2 Can Ne Hx0 Hx1 Fw Dw Dr Lf Hm Hr Hw HA.
  cbv zeta. set (pm1 := N.land (new_mode p1) 4095).
  assert (Ef1 : effective o p1 = p1) by (unfold effective; rewrite Rv; reflexivity).
  assert (Ef2 : effective o p2 = p2) by (unfold effective; rewrite Rv; reflexivity).
  assert (Ne1 : remove_empty_files o <> OBYes \/ lines_bytes (newline_output o) A1 <> []) by (destruct Ne as [N|[N _]]; auto).
  assert (Ne2 : remove_empty_files o <> OBYes \/ lines_bytes (newline_output o) A2 <> []) by (destruct Ne as [N|[_ N]]; auto).
  (* first section *)
  destruct (plain_git_options o Op) as [Og Sb].
  pose proof (section_git_first o p1 f A0 A1 st s1 w data m0 Og Pf1 Pop1 P31 Po1 Pn1) as E1.
  rewrite Ef1, Sb in E1. specialize (E1 Sy1 Hd Hn Hs HC1 Ne1 Hx0 Fw Dw Lf Hm Hr (or_introl (owner_w_write_mask _ Hw)) HA).
  rewrite (not_needed_of_owner_w _ Hw), (perm_after_known _ _ Hm) in E1.
  apply N.eqb_neq in Nm1. rewrite Nm1 in E1. fold pm1 in E1.
  set (d1 := mkDef (lines_bytes (newline_output o) A1) f false false None (Some pm1)) in *.
  set (st1 := deferring_state st d1) in *. set (w1 := wstep w (fs w) (OOpenRead f)) in *.
  assert (D1 : deferred_writes st1 = [d1]) by (unfold st1, deferring_state; cbn [deferred_writes]; rewrite Dw; reflexivity).
  (* second section *)
  assert (Hp1 : (pm1 < 4096)%N) by apply land_4095_lt.
  assert (Fd : find (fun x => str_eqb (d_dest x) f) (rev (deferred_writes st1)) = Some d1).
  { rewrite D1. cbn [rev app find d1 d_dest]. rewrite str_eqb_refl. reflexivity. }
  pose proof (section_git_next o p2 f A1 A2 st1 s2 w1 d1 pm1 data m0 Og Pf2 Pop2 P32 Po2 Pn2) as E2.
  rewrite Ef2, Nm2, Sb in E2.
  specialize (E2 eq_refl Hd Hn Hs HC2 Ne2 Hx1 Fd eq_refl eq_refl Hp1 (or_introl (owner_w_write_mask _ Hw1)) Lf Can).
  assert (Nn1 : N.eqb (N.land pm1 write_mask) 0 = false) by (apply not_needed_of_owner_w; exact Hw1).
  rewrite Nn1, (perm_after_known _ _ Hp1) in E2. change (N.eqb 0 0) with true in E2. cbv iota in E2.
  set (d2 := mkDef (lines_bytes (newline_output o) A2) f false false None (Some pm1)) in *.
  set (st2 := deferring_state st1 d2) in *.
  assert (D2 : deferred_writes st2 = [d1; d2]) by (unfold st2, deferring_state; cbn [deferred_writes]; rewrite D1; reflexivity).
  assert (R2 : deferred_removals st2 = []) by (unfold st2, st1, deferring_state; cbn [deferred_removals]; exact Dr).
  (* the end of the run *)
  destruct (finalize_two_plain o st2 f (lines_bytes (newline_output o) A1) (lines_bytes (newline_output o) A2)
              false false None None (Some pm1) (Some pm1) w1 data m0 eq_refl Hn Hs Lf Hw Hw1)
    as (w3 & E3 & L3f & L3o & F3 & U3).
  exists st1, w1, st2, w1, st2, w3, w3, d1, d2.
  split; [exact E1|]. split; [reflexivity|]. split; [exact E2|]. split; [reflexivity|].
  split; [exact D2|]. split; [reflexivity|]. split; [reflexivity|]. rewrite D2, R2.
  split; [exact E3|]. split; [reflexivity|]. split; [exact L3f|]. split; [exact L3o|].
  split; [reflexivity|]. split; [unfold st2, st1, deferring_state; cbn [events]; rewrite !app_nil_r; reflexivity|].
  split; [exact F3|exact U3].
Qed.

(* C18 and C17 together, through the driver: the same series under -b.  Both sections defer their write and both ask for the
   backup; it is taken once, before the first of the two writes: the backup file holds the content and the mode f had
   before the run, f ends with the content after both sections and the permissions of the mode header *)
Theorem git_series_backup o p1 p2 f A0 A1 A2 st s1 s2 w data m0 :
  git_options o -> save_backup o = true -> reverse_patch_opt o = false ->
  pfmt p1 = FGit -> poper p1 = OpChange -> prereq p1 = [] -> old_path p1 = f -> new_path p1 = f ->
  new_mode p1 <> 0%N -> is_symlink_mode (new_mode p1) = false -> owner_w (N.land (new_mode p1) 4095) = true ->
  pfmt p2 = FGit -> poper p2 = OpChange -> prereq p2 = [] -> old_path p2 = f -> new_path p2 = f ->
  new_mode p2 = 0%N ->
  f <> devnull -> f <> [] -> ~ In 47%N f -> ~ In 47%N (backup_name o f) ->
  Conforming A0 A1 (hunks p1) -> Conforming A1 A2 (hunks p2) ->
  split_lines (lines_bytes (newline_output o) A1) = A1 ->
  (remove_empty_files o <> OBYes \/
   (lines_bytes (newline_output o) A1 <> [] /\ lines_bytes (newline_output o) A2 <> [])) ->
  (Z.of_nat (length A0) < MAXZ)%Z -> (Z.of_nat (length A1) < MAXZ)%Z ->
  fault w = None -> deferred_writes st = [] -> deferred_removals st = [] ->
  existsb (str_eqb (backup_name o f)) (backed_up st) = false ->
  lookup (fs w) f = Some (Reg data m0) -> (m0 < 4096)%N -> owner_r m0 = true ->
  (N.land m0 write_mask <> 0%N \/ read_only o <> ROFail) ->
  lookup (fs w) (backup_name o f) = None ->
  split_lines data = A0 ->
  let pm1 := N.land (new_mode p1) 4095 in
  exists st1 w1 st2 w2 st3 w3 w4,
    process_section o st false p1 s1 w = (Ok (st1, s1), w1) /\ fs w1 = fs w /\
    process_section o st1 false p2 s2 w1 = (Ok (st2, s2), w2) /\ fs w2 = fs w /\
    finalize_writes o st2 (deferred_writes st2) w2 = (Ok st3, w3) /\
    finalize_removals (deferred_writes st2) (deferred_removals st2) w3 = (Ok tt, w4) /\
    lookup (fs w4) (backup_name o f) = Some (Reg data m0) /\
    lookup (fs w4) f = Some (Reg (lines_bytes (newline_output o) A2) pm1) /\
    (forall q, q <> f -> q <> backup_name o f -> lookup (fs w4) q = lookup (fs w) q) /\
    had_failure st3 = had_failure st /\ events st3 = events st /\ backed_up st3 = backup_name o f :: backed_up st /\
    fault w4 = None /\ umask w4 = umask w.
Proof.
  intros Og Sb Rv Pf1 Pop1 P31 Po1 Pn1 Nm1 Sy1 Hw1 Pf2 Pop2 P32 Po2 Pn2 Nm2 Hd Hn Hs Hsb HC1 HC2 Can Ne Hx0 Hx1 Fw Dw Dr Hb Lf Hm Hr Hw Lb HA.
  cbv zeta. set (pm1 := N.land (new_mode p1) 4095).
  assert (Ef1 : effective o p1 = p1) by (unfold effective; rewrite Rv; reflexivity).
  assert (Ef2 : effective o p2 = p2) by (unfold effective; rewrite Rv; reflexivity).
  assert (Ne1 : remove_empty_files o <> OBYes \/ lines_bytes (newline_output o) A1 <> []) by (destruct Ne as [N|[N _]]; auto).
  assert (Ne2 : remove_empty_files o <> OBYes \/ lines_bytes (newline_output o) A2 <> []) by (destruct Ne as [N|[_ N]]; auto).
  (* first section *)
  pose proof (section_git_first o p1 f A0 A1 st s1 w data m0 Og Pf1 Pop1 P31 Po1 Pn1) as E1.
  rewrite Ef1, Sb in E1. specialize (E1 Sy1 Hd Hn Hs HC1 Ne1 Hx0 Fw Dw Lf Hm Hr Hw HA).
  rewrite (perm_after_known _ _ Hm) in E1.
  apply N.eqb_neq in Nm1. rewrite Nm1 in E1. fold pm1 in E1.
  set (cf1 := if N.eqb (N.land m0 write_mask) 0 then Some (N.lor m0 write_mask) else None) in *.
  set (d1 := mkDef (lines_bytes (newline_output o) A1) f false true cf1 (Some pm1)) in *.
  set (st1 := deferring_state st d1) in *. set (w1 := wstep w (fs w) (OOpenRead f)) in *.
  assert (D1 : deferred_writes st1 = [d1]) by (unfold st1, deferring_state; cbn [deferred_writes]; rewrite Dw; reflexivity).
  (* second section *)
  assert (Hp1 : (pm1 < 4096)%N) by apply land_4095_lt.
  assert (Fd : find (fun x => str_eqb (d_dest x) f) (rev (deferred_writes st1)) = Some d1).
  { rewrite D1. cbn [rev app find d1 d_dest]. rewrite str_eqb_refl. reflexivity. }
  pose proof (section_git_next o p2 f A1 A2 st1 s2 w1 d1 pm1 data m0 Og Pf2 Pop2 P32 Po2 Pn2) as E2.
  rewrite Ef2, Nm2, Sb in E2.
  specialize (E2 eq_refl Hd Hn Hs HC2 Ne2 Hx1 Fd eq_refl eq_refl Hp1 (or_introl (owner_w_write_mask _ Hw1)) Lf Can).
  assert (Nn1 : N.eqb (N.land pm1 write_mask) 0 = false) by (apply not_needed_of_owner_w; exact Hw1).
  rewrite Nn1, (perm_after_known _ _ Hp1) in E2. change (N.eqb 0 0) with true in E2. cbv iota in E2.
  set (d2 := mkDef (lines_bytes (newline_output o) A2) f false true None (Some pm1)) in *.
  set (st2 := deferring_state st1 d2) in *.
  assert (D2 : deferred_writes st2 = [d1; d2]) by (unfold st2, deferring_state; cbn [deferred_writes]; rewrite D1; reflexivity).
  assert (R2 : deferred_removals st2 = []) by (unfold st2, st1, deferring_state; cbn [deferred_removals]; exact Dr).
  assert (B2 : existsb (str_eqb (backup_name o f)) (backed_up st2) = false) by exact Hb.
  (* the end of the run *)
  destruct (series_backup_two_gen o st2 w1 f data m0 (lines_bytes (newline_output o) A1) (lines_bytes (newline_output o) A2)
              false false true true cf1 None (Some pm1) (Some pm1) eq_refl eq_refl Hn Hs Hsb Lf Lb B2 Hw1)
    as (w3 & E3 & L3b & L3f & L3o & F3 & U3).
  exists st1, w1, st2, w1, (with_backed_up st2 (backup_name o f)), w3, w3.
  split; [exact E1|]. split; [reflexivity|]. split; [exact E2|]. split; [reflexivity|]. rewrite D2, R2.
  split; [exact E3|]. split; [reflexivity|]. split; [exact L3b|]. split; [exact L3f|]. split; [exact L3o|].
  split; [reflexivity|]. split; [unfold st2, st1, deferring_state; cbn [with_backed_up events]; rewrite !app_nil_r; reflexivity|].
  split; [reflexivity|]. split; [exact F3|exact U3].
Qed.
