(* Spec_Normal.v — a WRITER for normal-format diffs ("3c3", "5,6d4", "0a1,2"; "< old", "---", "> new").
   The program only READS this format (Parser.parse_normal_patch); the writer below is a specification of what
   `diff` prints for a change group without context, used by Proofs_Normal.v to state that the reader reads a
   normal diff back as the change it denotes.  Does not mention the parser. *)
From PatchV Require Import Base Lines Hunk Formatter.

(* one line of a side: the marker character ('<' = 60 for the old side, '>' = 62 for the new side), a blank, the
   text, a line feed; a line that lacks its newline is followed by the line "\ No newline at end of file" *)
Definition fmt_nline (m : N) (l : line) : list N :=
  m :: 32%N :: txt l ++ [10%N] ++ (if is_nonl l then nonl_marker else []).
Definition emit_side (m : N) (ls : list line) : list N := flat_map (fmt_nline m) ls.

(* a line span: "s" for one line, "s,e" (first and LAST line) otherwise *)
Definition fmt_nspan (r : range) : list N :=
  print_Z (rstart r) ++ (if Z.eqb (rcount r) 1 then [] else 44%N :: print_Z (rstart r + rcount r - 1)).

(* the command: 'a' when the old side is empty, 'd' when the new side is empty, 'c' otherwise *)
Inductive ncmd := NA | ND | NC.
Definition ncmd_of (h : hunk) : ncmd :=
  if is_nil (old_side (body h)) then NA else if is_nil (new_side (body h)) then ND else NC.

(* The command line.  The numbers follow the convention of hunk ranges with count 0 (Spec_Apply.Conf): the start of
   an empty side is the line AFTER WHICH the other side's lines go, so it is printed as it stands:
     a :  <old start>a<new span>         d :  <old span>d<new start>        c :  <old span>c<new span> *)
Definition normal_header (h : hunk) : list N :=
  match ncmd_of h with
  | NA => print_Z (rstart (oldr h)) ++ [97%N] ++ fmt_nspan (newr h)
  | ND => fmt_nspan (oldr h) ++ [100%N] ++ print_Z (rstart (newr h))
  | NC => fmt_nspan (oldr h) ++ [99%N] ++ fmt_nspan (newr h)
  end.

Definition nsep : list N := bs "---" ++ [10%N].

Definition emit_normal_hunk (h : hunk) : list N :=
  normal_header h ++ [10%N]
  ++ emit_side 60 (old_side (body h))
  ++ (match ncmd_of h with NC => nsep | _ => [] end)
  ++ emit_side 62 (new_side (body h)).

Definition emit_normal (hs : list hunk) : list N := flat_map emit_normal_hunk hs.
