(* Proofs_Touch.v — which paths the operations of a run are performed on (C16), what a refusal touches (C17). *)
From PatchV Require Import Base Lines Hunk Locator Formatter Options Applier LineParser Parser World Driver Proofs_Base.

(* TP P m: every operation m records satisfies P *)
Definition TP {A} (P : sysop -> Prop) (m : M A) : Prop :=
  forall w, exists ext, trace (snd (m w)) = trace w ++ ext /\ Forall P ext.

Lemma TP_nil {A} (P : sysop -> Prop) (m : M A) : (forall w, trace (snd (m w)) = trace w) -> TP P m.
Proof. intros H w. exists []. rewrite app_nil_r. auto. Qed.

Lemma TP_ret {A} (P : sysop -> Prop) (a : A) : TP P (mret a). Proof. apply TP_nil. reflexivity. Qed.
Lemma TP_throw {A} (P : sysop -> Prop) e : TP P (@mthrow A e). Proof. apply TP_nil. reflexivity. Qed.
Lemma TP_lift {A} (P : sysop -> Prop) (r : res A) : TP P (mlift r). Proof. apply TP_nil. reflexivity. Qed.
Lemma TP_getfs (P : sysop -> Prop) : TP P get_fs. Proof. apply TP_nil. reflexivity. Qed.
Lemma TP_stdout {A} (P : sysop -> Prop) (a : A) data : TP P (fun w => (Ok a, mkWorld (fs w) (umask w) (trace w) (fault w) (stdout_data w ++ data))).
Proof. apply TP_nil. reflexivity. Qed.

Lemma TP_bind {A B} (P : sysop -> Prop) (m : M A) (f : A -> M B) : TP P m -> (forall a, TP P (f a)) -> TP P (mbind m f).
Proof.
  intros Hm Hf w. unfold mbind. destruct (Hm w) as (e1 & T1 & F1). destruct (m w) as [[a|e] w1]; cbn [snd] in *.
  - destruct (Hf a w1) as (e2 & T2 & F2). exists (e1 ++ e2). rewrite T2, T1, app_assoc. split; [reflexivity|]. apply Forall_app. auto.
  - exists e1. auto.
Qed.

Lemma TP_perform (P : sysop -> Prop) op : P op -> TP P (perform op).
Proof.
  intros H w. exists [op]. split; [|repeat constructor; exact H]. unfold perform.
  destruct (fault w) as [[|k]|]; [reflexivity| |]; destruct (exec_op (fs w) (umask w) op); reflexivity.
Qed.

Lemma TP_checked (P : sysop -> Prop) op : P op -> TP P (checked op).
Proof. intros H. unfold checked. apply TP_bind; [apply TP_perform; exact H|]. intros [e|]; [apply TP_throw|apply TP_ret]. Qed.

Lemma TP_weaken {A} (P Q : sysop -> Prop) (m : M A) : TP P m -> (forall op, P op -> Q op) -> TP Q m.
Proof. intros H I w. destruct (H w) as (e & T & F). exists e. split; [exact T|]. eapply Forall_impl; eauto. Qed.

Ltac tp :=
  repeat first
    [ apply TP_ret | apply TP_throw | apply TP_lift | apply TP_getfs | apply TP_stdout
    | assumption
    | match goal with H : context [TP _ _] |- TP _ _ => apply H end
    | match goal with
      | |- TP _ (checked _) => apply TP_checked
      | |- TP _ (perform _) => apply TP_perform
      | |- TP _ (mbind _ _) => apply TP_bind; [|intros ?]
      | |- TP _ (if ?c then _ else _) => destruct c
      | |- TP _ (match ?x with _ => _ end) => destruct x
      | |- TP _ (let '(_, _) := ?x in _) => destruct x
      end ].

(* ---------- ancestors ---------- *)
Definition is_ancestor (d p : list N) : Prop := exists r, p = d ++ 47%N :: r.

Lemma is_ancestor_trans a b c : is_ancestor a b -> is_ancestor b c -> is_ancestor a c.
Proof. intros (r1 & ->) (r2 & ->). exists (r1 ++ 47%N :: r2). rewrite <- app_assoc. reflexivity. Qed.

Lemma parent_aux_spec : forall s cur best d,
  parent_aux s cur best = Some d -> best = Some d \/ exists s1 s2, s = s1 ++ 47%N :: s2 /\ d = cur ++ s1.
Proof.
  induction s as [|c r IH]; intros cur best d H; cbn [parent_aux] in H; [left; exact H|].
  destruct (N.eqb_spec c 47) as [->|Hc].
  - destruct (IH _ _ _ H) as [E|(s1 & s2 & -> & ->)].
    + inversion E; subst. right. exists [], r. rewrite app_nil_r. auto.
    + right. exists (47%N :: s1), s2. rewrite <- app_assoc. auto.
  - destruct (IH _ _ _ H) as [E|(s1 & s2 & -> & ->)]; [left; exact E|].
    right. exists (c :: s1), s2. rewrite <- app_assoc. auto.
Qed.

Lemma parent_ancestor p d : parent p = Some d -> is_ancestor d p.
Proof.
  unfold parent. intros H. destruct (parent_aux_spec _ _ _ _ H) as [E|(s1 & s2 & -> & ->)]; [discriminate|]. exists s2. reflexivity.
Qed.

Lemma dir_prefixes_ancestor : forall s cur d, In d (dir_prefixes s cur) -> exists r, cur ++ s = d ++ 47%N :: r.
Proof.
  induction s as [|c r IH]; intros cur d H; cbn [dir_prefixes] in H; [destruct H|].
  destruct (N.eqb_spec c 47) as [->|Hc].
  - apply in_app_or in H. destruct H as [H|H].
    + destruct (is_nil cur); [destruct H|]. destruct H as [<-|[]]. exists r. reflexivity.
    + destruct (IH _ _ H) as (r' & E). exists r'. rewrite <- E, <- app_assoc. reflexivity.
  - destruct (IH _ _ H) as (r' & E). exists r'. rewrite <- E, <- app_assoc. reflexivity.
Qed.

(* ---------- the elementary actions ---------- *)
Lemma TP_rmdir_parents : forall fuel p, TP (fun op => exists d, op = ORmdir d /\ is_ancestor d p) (rmdir_parents fuel p).
Proof.
  induction fuel as [|f IH]; intros p; cbn [rmdir_parents]; [apply TP_ret|].
  destruct (parent p) as [d|] eqn:E; [|apply TP_ret]. destruct d as [|c d']; [apply TP_ret|].
  destruct (str_eqb (c :: d') [46%N]); [apply TP_ret|].
  pose proof (parent_ancestor _ _ E) as A.
  apply TP_bind; [apply TP_perform; eauto|]. intros r.
  assert (R : TP (fun op => exists d0, op = ORmdir d0 /\ is_ancestor d0 p) (rmdir_parents f (c :: d'))).
  { eapply TP_weaken; [apply IH|]. intros op (d0 & -> & A0). exists d0. split; [reflexivity|]. eapply is_ancestor_trans; eauto. }
  destruct r as [e|]; [destruct e|]; tp.
Qed.

Lemma TP_remove p : TP (fun op => op = OUnlink p \/ exists d, op = ORmdir d /\ is_ancestor d p) (remove_file_and_empty_parent_folders p).
Proof.
  unfold remove_file_and_empty_parent_folders. apply TP_bind; [apply TP_checked; left; reflexivity|intros _].
  eapply TP_weaken; [apply TP_rmdir_parents|]. intros op H. right. exact H.
Qed.

Lemma TP_mkdirs (P : sysop -> Prop) : forall ds, (forall d, In d ds -> P (OMkdir d)) -> TP P (mkdirs ds).
Proof.
  induction ds as [|d r IH]; intros H; cbn [mkdirs]; [apply TP_ret|].
  apply TP_bind; [apply TP_perform; apply H; left; reflexivity|]. intros e.
  assert (R : TP P (mkdirs r)) by (apply IH; intros d0 I; apply H; right; exact I).
  destruct e as [e|]; [destruct e|]; tp.
Qed.

Lemma TP_ensure p : TP (fun op => exists d, op = OMkdir d /\ is_ancestor d p) (ensure_parent_directories p).
Proof.
  unfold ensure_parent_directories. destruct (is_nil p); [apply TP_throw|].
  apply TP_mkdirs. intros d I. exists d. split; [reflexivity|]. destruct (dir_prefixes_ancestor _ _ _ I) as (r & E). exists r. exact E.
Qed.

(* ---------- what one section may do ---------- *)
Definition allowed (o : options) (ftp outf : list N) (op : sysop) : Prop :=
  match op with
  | OOpenRead _ => True
  | OWrite p _ => p = outf \/ p = reject_path o outf \/ p = backup_name o outf
  | ORename a b => a = outf /\ b = backup_name o outf
  | OChmod p _ => p = outf
  | OUnlink p => p = outf \/ p = ftp
  | OSymlink _ p => p = outf
  | OMkdir d => is_ancestor d outf \/ is_ancestor d (reject_path o outf) \/ is_ancestor d (backup_name o outf)
  | ORmdir d => is_ancestor d outf \/ is_ancestor d ftp
  end.

Section OneSection.
Variable o : options.
Variables ftp outf : list N.
Notation OKP := (allowed o ftp outf).

Lemma TP_ensure_bak : TP OKP (ensure_parent_directories (backup_name o outf)).
Proof. eapply TP_weaken; [apply TP_ensure|]. intros op (d & -> & A). cbn [allowed]. auto. Qed.

Lemma TP_backup st : TP OKP (make_backup_for o st outf).
Proof. unfold make_backup_for, backup_core. pose proof TP_ensure_bak. tp; cbn [allowed]; auto. Qed.

Lemma TP_write_now st data nn bk cf pa : TP OKP (write_now o st (mkDef data outf nn bk cf pa)).
Proof. unfold write_now. cbn [d_backup d_dest d_chmod_first d_data d_perm_after]. pose proof TP_backup. tp; cbn [allowed]; auto. Qed.

Lemma TP_refuse st p : TP OKP (refuse_to_patch o st outf p).
Proof. unfold refuse_to_patch. tp. cbn [allowed]. auto. Qed.

Lemma TP_body_if should p s : TP OKP (body_if should p s).
Proof. unfold body_if. tp. Qed.

Lemma TP_remove_outf : TP OKP (remove_file_and_empty_parent_folders outf).
Proof. eapply TP_weaken; [apply TP_remove|]. intros op [->|(d & -> & A)]; cbn [allowed]; auto. Qed.

Lemma TP_remove_ftp : TP OKP (remove_file_and_empty_parent_folders ftp).
Proof. eapply TP_weaken; [apply TP_remove|]. intros op [->|(d & -> & A)]; cbn [allowed]; auto. Qed.

Lemma TP_ensure_outf : TP OKP (ensure_parent_directories outf).
Proof. eapply TP_weaken; [apply TP_ensure|]. intros op (d & -> & A). cbn [allowed]. auto. Qed.

Lemma TP_ensure_rej : TP OKP (ensure_parent_directories (reject_path o outf)).
Proof. eapply TP_weaken; [apply TP_ensure|]. intros op (d & -> & A). cbn [allowed]. auto. Qed.
End OneSection.

(* Every operation one section of the patch performs is: the opening of a file for reading; a write, chmod, rename to the
   backup name, removal or symlink on the selected target (the -o file); a write of its reject or backup file; the creation
   of a missing parent directory of the target or of the reject file; the removal of the source of a rename; the removal of
   a now-empty parent directory of a removed file. *)
Theorem section_ops_allowed o st should p s w :
  let ftp := if is_nil (file_to_patch o) then guess_filepath (fs w) (map d_dest (deferred_writes st)) p o else file_to_patch o in
  let outf := output_path o p ftp in
  exists ext, trace (snd (process_section o st should p s w)) = trace w ++ ext /\ Forall (allowed o ftp outf) ext.
Proof.
  cbv zeta. unfold process_section, section_tail. unfold mbind at 1. cbn [get_fs].
  set (ftp := if is_nil (file_to_patch o) then guess_filepath (fs w) (map d_dest (deferred_writes st)) p o else file_to_patch o).
  set (outf := output_path o p ftp).
  match goal with |- exists ext, trace (snd (?body w)) = _ /\ _ => assert (H : TP (allowed o ftp outf) body); [|exact (H w)] end.
  pose proof (TP_backup o ftp outf). pose proof (TP_write_now o ftp outf). pose proof (TP_refuse o ftp outf).
  pose proof (TP_body_if o ftp outf). pose proof (TP_remove_outf o ftp outf). pose proof (TP_remove_ftp o ftp outf).
  pose proof (TP_ensure_outf o ftp outf). pose proof (TP_ensure_rej o ftp outf).
  tp; cbn [allowed]; auto.
Qed.

(* the writes deferred to the end of a git-style patch: each acts on its own destination only *)
Lemma finalize_from_ops_allowed o all : forall ds st,
  TP (fun op => exists d, In d ds /\ allowed o (d_dest d) (d_dest d) op) (finalize_writes_from o all st ds).
Proof.
  induction ds as [|d r IH]; intros st; cbn [finalize_writes_from]; [apply TP_ret|].
  apply TP_bind.
  - destruct d as [data dest nn bk cf pa]. cbn [d_dest]. eapply TP_weaken; [apply (TP_ensure_outf o dest dest)|].
    intros op A. eexists. split; [left; reflexivity|exact A].
  - intros _. apply TP_bind.
    + destruct d as [data dest nn bk cf pa]. unfold with_backup_of. cbn [d_data d_dest d_newname d_backup d_chmod_first d_perm_after].
      eapply TP_weaken; [apply (TP_write_now o dest dest)|].
      intros op A. eexists. split; [left; reflexivity|exact A].
    + intros st'. eapply TP_weaken; [apply IH|]. intros op (d0 & I & A). exists d0. split; [right; exact I|exact A].
Qed.

Theorem finalize_ops_allowed o ds st :
  TP (fun op => exists d, In d ds /\ allowed o (d_dest d) (d_dest d) op) (finalize_writes o st ds).
Proof. apply finalize_from_ops_allowed. Qed.

(* a refusal (target not a regular file; read-only with --read-only=fail) performs nothing but the write of the reject file *)
Theorem refusal_writes_only_rejects o st outf p :
  TP (fun op => exists data, op = OWrite (reject_path o outf) data) (refuse_to_patch o st outf p).
Proof. unfold refuse_to_patch. tp. eauto. Qed.

(* the removals deferred to the end: the sources of renames and their emptied parent directories *)
Theorem finalize_removals_allowed ws : forall rs,
  TP (fun op => exists p, In p rs /\ (op = OUnlink p \/ exists d, op = ORmdir d /\ is_ancestor d p)) (finalize_removals ws rs).
Proof.
  induction rs as [|p r IH]; cbn [finalize_removals]; [apply TP_ret|].
  apply TP_bind.
  - destruct (existsb _ ws); [apply TP_ret|]. eapply TP_weaken; [apply TP_remove|]. intros op H. exists p. split; [left; reflexivity|exact H].
  - intros _. eapply TP_weaken; [apply IH|]. intros op (p0 & I & H). exists p0. split; [right; exact I|exact H].
Qed.
