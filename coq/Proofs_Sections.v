(* Proofs_Sections.v — C11 at the level of the driver: a section of a patch depends on the sections before it only
   through the file system (and the list of backups already taken); the run over a concatenation is the sum of the runs. *)
From PatchV Require Import Base Lines Hunk Locator Formatter Options Applier LineParser Parser World Driver
     Proofs_Base Proofs_Fuel Proofs_Progress.

(* ---------- the state of a run that has already processed earlier sections ---------- *)
(* [a] summarises the earlier sections (failure flag, backups taken, report text); [st] is the state of the run that starts
   here.  The deferred writes / removals are those of [st]: the earlier sections are supposed to have none pending. *)
Definition merge (a st : dstate) : dstate :=
  mkDS (had_failure a || had_failure st) (backed_up st ++ backed_up a) (deferred_writes st) (deferred_removals st)
       (events a ++ events st).

Definition ds0 : dstate := mkDS false [] [] [] [].

(* the result of a computation seen through f: same world afterwards, same exception *)
Definition map_result {A B} (f : A -> B) (m : M A) : M B :=
  fun w => match m w with (Ok x, w') => (Ok (f x), w') | (Throw e, w') => (Throw e, w') end.

Definition on_fst {A B C} (f : A -> B) (x : A * C) : B * C := (f (fst x), snd x).

(* m' is m with its result seen through f *)
Definition Sim {A B} (f : A -> B) (m : M A) (m' : M B) : Prop := forall w, m' w = map_result f m w.

Lemma Sim_ret {A B} (f : A -> B) x : Sim f (mret x) (mret (f x)).
Proof. intros w. reflexivity. Qed.

Lemma Sim_ret_eq {A B} (f : A -> B) x y : y = f x -> Sim f (mret x) (mret y).
Proof. intros ->. apply Sim_ret. Qed.

Lemma Sim_throw {A B} (f : A -> B) e : Sim f (mthrow e) (mthrow e).
Proof. intros w. reflexivity. Qed.

Lemma Sim_bind {A A' B B'} (f : A -> A') (g : B -> B') (m : M A) (m' : M A') (k : A -> M B) (k' : A' -> M B') :
  Sim f m m' -> (forall x, Sim g (k x) (k' (f x))) -> Sim g (mbind m k) (mbind m' k').
Proof.
  intros Hm Hk w. unfold mbind, map_result. rewrite (Hm w). unfold map_result.
  destruct (m w) as [[x|e] w1]; [|reflexivity]. rewrite (Hk x w1). reflexivity.
Qed.

(* the same first step on both sides *)
Lemma Sim_bind_same {A B B'} (g : B -> B') (m : M A) (k : A -> M B) (k' : A -> M B') :
  (forall x, Sim g (k x) (k' x)) -> Sim g (mbind m k) (mbind m k').
Proof.
  intros Hk w. unfold mbind, map_result. destruct (m w) as [[x|e] w1]; [|reflexivity]. rewrite (Hk x w1). reflexivity.
Qed.

Lemma Sim_stdout {A B} (f : A -> B) x data :
  Sim f (fun w => (Ok x, mkWorld (fs w) (umask w) (trace w) (fault w) (stdout_data w ++ data)))
        (fun w => (Ok (f x), mkWorld (fs w) (umask w) (trace w) (fault w) (stdout_data w ++ data))).
Proof. intros w. reflexivity. Qed.

(* ---------- the elementary state changes commute with merge ---------- *)
Lemma merge_add_event a st e : add_event (merge a st) e = merge a (add_event st e).
Proof. unfold add_event, merge. cbn [had_failure backed_up deferred_writes deferred_removals events]. rewrite app_assoc. reflexivity. Qed.

Lemma merge_set_failure a st : set_failure (merge a st) = merge a (set_failure st).
Proof. unfold set_failure, merge. cbn [had_failure backed_up deferred_writes deferred_removals events]. rewrite orb_true_r. reflexivity. Qed.

Lemma merge_deferred_writes a st : deferred_writes (merge a st) = deferred_writes st. Proof. reflexivity. Qed.
Lemma merge_effective_perms a st m f : effective_perms (merge a st) m f = effective_perms st m f. Proof. reflexivity. Qed.
Lemma merge_deferred_removals a st : deferred_removals (merge a st) = deferred_removals st. Proof. reflexivity. Qed.

Lemma merge_ds0_r a : deferred_writes a = [] -> deferred_removals a = [] -> merge a ds0 = a.
Proof.
  intros H1 H2. destruct a as [h b dw dr ev]. cbn [deferred_writes deferred_removals] in H1, H2. subst dw dr.
  unfold merge, ds0. cbn [had_failure backed_up deferred_writes deferred_removals events app]. rewrite orb_false_r, app_nil_r. reflexivity.
Qed.

Lemma merge_ds0_l st : merge ds0 st = st.
Proof. destruct st as [h b dw dr ev]. unfold merge, ds0. cbn [had_failure backed_up deferred_writes deferred_removals events app orb]. rewrite app_nil_r. reflexivity. Qed.

Lemma merge_assoc a b st : merge a (merge b st) = merge (merge a b) st.
Proof. unfold merge. cbn [had_failure backed_up deferred_writes deferred_removals events]. rewrite orb_assoc, !app_assoc. reflexivity. Qed.

(* ---------- one lemma per model function ---------- *)
(* the backup of p is not among those the earlier sections have taken *)
Definition fresh_backup (o : options) (a : dstate) (p : list N) : Prop :=
  existsb (str_eqb (backup_name o p)) (backed_up a) = false.

Lemma Sim_make_backup o a st p : fresh_backup o a p ->
  Sim (merge a) (make_backup_for o st p) (make_backup_for o (merge a st) p).
Proof.
  intros Hf. unfold make_backup_for. cbn [merge backed_up]. rewrite existsb_app. unfold fresh_backup in Hf. rewrite Hf, orb_false_r.
  destruct (existsb (str_eqb (backup_name o p)) (backed_up st)).
  - apply Sim_ret.
  - apply Sim_bind_same. intros _. unfold backup_core. apply Sim_bind_same. intros m.
    destruct (exists_ m p); apply Sim_bind_same; intros _; apply Sim_ret_eq; reflexivity.
Qed.

Lemma Sim_backup_if o a st p (c : bool) : (c = true -> fresh_backup o a p) ->
  Sim (merge a) (if c then make_backup_for o st p else mret st) (if c then make_backup_for o (merge a st) p else mret (merge a st)).
Proof. intros H. destruct c; [apply Sim_make_backup; auto|apply Sim_ret]. Qed.

Lemma Sim_write_now o a st d : (d_backup d = true -> fresh_backup o a (d_dest d)) ->
  Sim (merge a) (write_now o st d) (write_now o (merge a st) d).
Proof.
  intros H. unfold write_now. eapply Sim_bind; [apply Sim_backup_if; exact H|]. intros st1.
  apply Sim_bind_same. intros m. apply Sim_bind_same. intros _. apply Sim_bind_same. intros _. apply Sim_bind_same. intros _.
  apply Sim_ret.
Qed.

Lemma Sim_refuse o a st out p : Sim (merge a) (refuse_to_patch o st out p) (refuse_to_patch o (merge a st) out p).
Proof.
  unfold refuse_to_patch. rewrite merge_add_event, merge_set_failure.
  destruct (dry_run o); [apply Sim_ret|]. apply Sim_bind_same. intros t. apply Sim_bind_same. intros _. apply Sim_ret.
Qed.

(* whether this section may take a backup of its output file: -b, or --backup-if-mismatch *)
Definition may_backup (o : options) : bool :=
  save_backup o || match backup_if_mismatch o with OBYes => true | _ => false end.

Lemma should_backup_may o (x : bool) :
  save_backup o || (x && match backup_if_mismatch o with OBYes => true | _ => false end) = true -> may_backup o = true.
Proof. unfold may_backup. destruct (save_backup o); [reflexivity|]. cbn [orb]. destruct x; [auto|discriminate]. Qed.

Lemma Sim_section_tail o a st ftp out op op1 needed ar s2 :
  (may_backup o = true -> fresh_backup o a out) ->
  Sim (on_fst (merge a)) (section_tail o st ftp out op op1 needed ar s2) (section_tail o (merge a st) ftp out op op1 needed ar s2).
Proof.
  intros Hb. unfold section_tail. rewrite !merge_add_event, !merge_set_failure.
  assert (Hsb : forall x : bool, save_backup o || (x && match backup_if_mismatch o with OBYes => true | _ => false end) = true -> fresh_backup o a out).
  { intros x Hx. apply Hb. eapply should_backup_may. exact Hx. }
  eapply Sim_bind with (f := merge a).
  { destruct (negb (Nat.eqb (r_failed ar) 0)); [|apply Sim_ret].
    destruct (dry_run o); [apply Sim_ret|]. apply Sim_bind_same. intros _. apply Sim_bind_same. intros _. apply Sim_ret. }
  intros st2.
  destruct (str_eqb (out_file_path o) (bs "-")); [apply (Sim_stdout (on_fst (merge a)) (st2, s2))|].
  eapply Sim_bind with (f := on_fst (merge a)).
  { match goal with |- Sim _ (if ?c then _ else _) _ => destruct c end; [|apply (Sim_ret (on_fst (merge a)) (st2, _))].
    destruct (is_nil (lines_bytes (newline_output o) (r_out ar))).
    - destruct (dry_run o); [apply (Sim_ret (on_fst (merge a)) (st2, false))|].
      eapply Sim_bind; [apply Sim_backup_if; apply Hsb|]. intros st3.
      apply Sim_bind_same. intros m2. apply Sim_bind_same. intros _. apply (Sim_ret (on_fst (merge a)) (st3, false)).
    - apply Sim_ret_eq. unfold on_fst. cbn [fst snd]. destruct (str_eqb (new_path (r_patch ar)) devnull); [rewrite merge_set_failure|]; reflexivity. }
  intros [st4 wtf]. unfold on_fst at 2. cbn [fst snd].
  eapply Sim_bind with (f := merge a).
  { destruct wtf; [|apply Sim_ret]. apply Sim_bind_same. intros _.
    match goal with |- Sim _ (if ?c then _ else _) _ => destruct c end.
    - destruct (is_symlink_mode (new_mode (r_patch ar))).
      + eapply Sim_bind; [apply Sim_backup_if; apply Hsb|]. intros st'. apply Sim_bind_same. intros _. apply Sim_ret.
      + apply Sim_ret_eq. reflexivity.
    - apply Sim_write_now. cbn [d_backup d_dest]. apply Hsb. }
  intros st5.
  eapply Sim_bind with (f := merge a).
  { match goal with |- Sim _ (if ?c then _ else _) _ => destruct c end; [|apply Sim_ret].
    rewrite merge_deferred_writes.
    destruct (existsb (fun d => str_eqb (d_dest d) out) (deferred_writes st5)).
    - apply Sim_ret_eq. reflexivity.
    - apply Sim_bind_same. intros _. apply Sim_ret. }
  intros st6. apply (Sim_ret (on_fst (merge a)) (st6, s2)).
Qed.

(* the file a section writes to, as the driver determines it from the tree *)
Definition section_target (o : options) (st : dstate) (p : patch) (m : fsmap) : list N :=
  output_path o p (if is_nil (file_to_patch o) then guess_filepath m (map d_dest (deferred_writes st)) p o else file_to_patch o).

(* (1) One section, run after earlier sections summarised by [a], does exactly what it does in a run of its own from the
   same tree: same operations, same world afterwards, same place in the patch, same exception if there is one; its
   state is the state of the separate run merged with [a].  The only way the earlier sections are felt other than through
   the tree is the list of backups taken: the hypothesis says that, when this run may take backups at all (-b or
   --backup-if-mismatch), the backup of this section's output file is not one an earlier section has already taken. *)
Lemma Sim_getfs_at {B B'} (g : B -> B') (k : fsmap -> M B) (k' : fsmap -> M B') w :
  Sim g (k (fs w)) (k' (fs w)) -> mbind get_fs k' w = map_result g (mbind get_fs k) w.
Proof. intros H. unfold mbind, map_result. cbn [get_fs]. apply H. Qed.

Theorem process_section_merge o a st should p s w :
  (may_backup o = true -> fresh_backup o a (section_target o st p (fs w))) ->
  process_section o (merge a st) should p s w = map_result (on_fst (merge a)) (process_section o st should p s) w.
Proof.
  intros Hb. unfold process_section. rewrite merge_deferred_writes.
  apply Sim_getfs_at. cbv beta.
  unfold section_target in Hb. revert Hb. generalize (fs w) as m. clear w. intros m Hb.
  set (ftp := if is_nil (file_to_patch o) then guess_filepath m (map d_dest (deferred_writes st)) p o else file_to_patch o) in *.
  destruct (is_nil ftp); [apply Sim_throw|].
  set (outf := output_path o p ftp) in *.
  destruct (exists_ m ftp && negb (is_regular_file m ftp)).
  { apply Sim_bind_same. intros ps. eapply Sim_bind; [apply Sim_refuse|]. intros st'. apply (Sim_ret (on_fst (merge a)) (st', snd ps)). }
  change (effective_perms (merge a st) m outf) with (effective_perms st m outf).
  destruct (N.eqb (N.land (effective_perms st m outf) write_mask) 0 && match read_only o with ROFail => true | _ => false end).
  { apply Sim_bind_same. intros ps. eapply Sim_bind; [apply Sim_refuse|]. intros st'. apply (Sim_ret (on_fst (merge a)) (st', snd ps)). }
  apply Sim_bind_same. intros input_lines.
  apply Sim_bind_same. intros _.
  apply Sim_bind_same. intros [p2 s2].
  apply Sim_bind_same. intros ar.
  apply Sim_section_tail. exact Hb.
Qed.
Print Assumptions process_section_merge.

(* the same statement with the result map written out *)
Corollary process_section_merge' o a st should p s w :
  (may_backup o = true -> fresh_backup o a (section_target o st p (fs w))) ->
  process_section o (merge a st) should p s w =
  map_result (fun '(st', s') => (merge a st', s')) (process_section o st should p s) w.
Proof.
  intros H. rewrite (process_section_merge o a st should p s w H). unfold map_result.
  destruct (process_section o st should p s w) as [[[st' s']|e] w']; reflexivity.
Qed.

Lemma fresh_backup_iff o a p : fresh_backup o a p <-> ~ In (backup_name o p) (backed_up a).
Proof.
  unfold fresh_backup. split.
  - intros H I. assert (X : existsb (str_eqb (backup_name o p)) (backed_up a) = true); [|congruence].
    apply existsb_exists. exists (backup_name o p). split; [exact I|apply str_eqb_refl].
  - intros H. destruct (existsb (str_eqb (backup_name o p)) (backed_up a)) eqn:E; [|reflexivity].
    apply existsb_exists in E. destruct E as (x & I & E). apply str_eqb_eq in E. subst x. contradiction.
Qed.

(* the simplest sufficient conditions *)
Corollary process_section_merge_nobackup o a st should p s w :
  save_backup o = false -> backup_if_mismatch o <> OBYes ->
  process_section o (merge a st) should p s w = map_result (on_fst (merge a)) (process_section o st should p s) w.
Proof.
  intros H1 H2. apply process_section_merge. unfold may_backup. rewrite H1. destruct (backup_if_mismatch o); try discriminate. congruence.
Qed.

Corollary process_section_merge_global o a st should p s w :
  (forall q, ~ In (backup_name o q) (backed_up a)) ->
  process_section o (merge a st) should p s w = map_result (on_fst (merge a)) (process_section o st should p s) w.
Proof. intros H. apply process_section_merge. intros _. apply fresh_backup_iff. apply H. Qed.

(* ---------- (2) the loop over sections ---------- *)
(* the output files of the sections the loop meets when it runs from st on s in the world w (the run of its own) *)
Fixpoint targets_met (fuel : nat) (o : options) (f : format) (st : dstate) (s : stream) (w : world) : list (list N) :=
  match fuel with
  | O => []
  | S k =>
      if seof s then []
      else match parse_patch_header_full (empty_patch f) (strip_size o) s with
           | Throw _ => []
           | Ok (should, p, s1, found) =>
               match (if negb found && should then FUnknown else pfmt p) with
               | FUnknown => []
               | _ => match poper p with
                      | OpBinary => targets_met k o f (set_failure st) s1 w
                      | _ => section_target o st p (fs w) ::
                             match process_section o st should p s1 w with
                             | (Ok y, w') => targets_met k o f (fst y) (snd y) w'
                             | (Throw _, _) => []
                             end
                      end
               end
           end
  end.

Lemma bind_lift {A B} (r : res A) (k : A -> M B) w :
  mbind (mlift r) k w = match r with Ok x => k x w | Throw e => (Throw e, w) end.
Proof. unfold mbind, mlift. destruct r; reflexivity. Qed.

Lemma map_result_bind_lift {A B C} (g : B -> C) (r : res A) (k : A -> M B) w :
  map_result g (mbind (mlift r) k) w = match r with Ok x => map_result g (k x) w | Throw e => (Throw e, w) end.
Proof. unfold map_result. rewrite bind_lift. destruct r; reflexivity. Qed.

Lemma map_result_bind {A B C} (g : B -> C) (m : M A) (k : A -> M B) w :
  map_result g (mbind m k) w = match m w with (Ok x, w1) => map_result g (k x) w1 | (Throw e, w1) => (Throw e, w1) end.
Proof. unfold map_result, mbind. destruct (m w) as [[x|e] w1]; reflexivity. Qed.

Theorem section_loop_merge o f a : forall fuel st s first w,
  (may_backup o = true -> forall q, In q (targets_met fuel o f st s w) -> fresh_backup o a q) ->
  section_loop fuel o f (merge a st) s first w = map_result (merge a) (section_loop fuel o f st s first) w.
Proof.
  induction fuel as [|k IH]; intros st s first w Hb; [reflexivity|].
  cbn [section_loop targets_met] in *.
  destruct (seof s); [reflexivity|].
  rewrite map_result_bind_lift, bind_lift.
  destruct (parse_patch_header_full (empty_patch f) (strip_size o) s) as [[[[should p] s1] found]|e]; [|reflexivity].
  set (fm := if negb found && should then FUnknown else pfmt p) in *.
  assert (Go : (match fm with FUnknown => True | _ => False end) \/
               (may_backup o = true -> forall q,
                  In q (match poper p with
                        | OpBinary => targets_met k o f (set_failure st) s1 w
                        | _ => section_target o st p (fs w) ::
                               match process_section o st should p s1 w with
                               | (Ok y, w') => targets_met k o f (fst y) (snd y) w'
                               | (Throw _, _) => []
                               end
                        end) -> fresh_backup o a q)).
  { destruct fm; try (right; exact Hb). left; exact I. }
  assert (Main : (may_backup o = true -> forall q,
                  In q (match poper p with
                        | OpBinary => targets_met k o f (set_failure st) s1 w
                        | _ => section_target o st p (fs w) ::
                               match process_section o st should p s1 w with
                               | (Ok y, w') => targets_met k o f (fst y) (snd y) w'
                               | (Throw _, _) => []
                               end
                        end) -> fresh_backup o a q) ->
          match poper p with
          | OpBinary => section_loop k o f (set_failure (merge a st)) s1 false
          | _ => let! y := process_section o (merge a st) should p s1 in section_loop k o f (fst y) (snd y) false
          end w =
          map_result (merge a)
            match poper p with
            | OpBinary => section_loop k o f (set_failure st) s1 false
            | _ => let! y := process_section o st should p s1 in section_loop k o f (fst y) (snd y) false
            end w).
  { clear Go Hb. intros Hb.
    assert (A : (may_backup o = true -> forall q,
                  In q (section_target o st p (fs w) ::
                        match process_section o st should p s1 w with
                        | (Ok y, w') => targets_met k o f (fst y) (snd y) w'
                        | (Throw _, _) => []
                        end) -> fresh_backup o a q) ->
                (let! y := process_section o (merge a st) should p s1 in section_loop k o f (fst y) (snd y) false) w =
                map_result (merge a) (let! y := process_section o st should p s1 in section_loop k o f (fst y) (snd y) false) w).
    { intros Hc. rewrite map_result_bind. unfold mbind at 1.
      rewrite process_section_merge; [|intros Hm; apply (Hc Hm); left; reflexivity].
      unfold map_result at 1.
      destruct (process_section o st should p s1 w) as [[y|e] w1]; [|reflexivity].
      unfold on_fst. cbn [fst snd]. apply IH. intros Hm q Hq. apply (Hc Hm). right. exact Hq. }
    destruct (poper p); try (apply A; exact Hb).
    rewrite merge_set_failure. apply IH. exact Hb. }
  destruct Go as [Go|Go].
  - destruct fm; try contradiction. destruct first; reflexivity.
  - destruct fm; try (apply Main; exact Go). destruct first; reflexivity.
Qed.
Print Assumptions section_loop_merge.

(* no backups requested: no hypothesis at all *)
Corollary section_loop_merge_nobackup o f a fuel st s first w :
  save_backup o = false -> backup_if_mismatch o <> OBYes ->
  section_loop fuel o f (merge a st) s first w = map_result (merge a) (section_loop fuel o f st s first) w.
Proof.
  intros H1 H2. apply section_loop_merge. unfold may_backup. rewrite H1. destruct (backup_if_mismatch o); try discriminate. congruence.
Qed.

(* the global form of the hypothesis (in a run with -b it says that the earlier sections have taken no backup) *)
Corollary section_loop_merge_global o f a fuel st s first w :
  (forall q, ~ In (backup_name o q) (backed_up a)) ->
  section_loop fuel o f (merge a st) s first w = map_result (merge a) (section_loop fuel o f st s first) w.
Proof. intros H. apply section_loop_merge. intros _ q _. apply fresh_backup_iff. apply H. Qed.

(* ---------- (3) the sum ---------- *)
(* The loop started on a stream whose first section is processed normally (state st1, world w1, stream s2 afterwards, no
   deferred write pending) is: that section, then the loop of a run of its own on what follows, started from the initial
   state in the world the section left, its result merged with st1.  No hypothesis on the fuel: one unit is used by the
   section. *)
Theorem section_loop_sum_core o f k st s first should p s1 found st1 s2 w w1 :
  seof s = false ->
  parse_patch_header_full (empty_patch f) (strip_size o) s = Ok (should, p, s1, found) ->
  (if negb found && should then FUnknown else pfmt p) <> FUnknown ->
  poper p <> OpBinary ->
  process_section o st should p s1 w = (Ok (st1, s2), w1) ->
  deferred_writes st1 = [] -> deferred_removals st1 = [] ->
  (may_backup o = true -> forall q, In q (targets_met k o f ds0 s2 w1) -> fresh_backup o st1 q) ->
  section_loop (S k) o f st s first w = map_result (merge st1) (section_loop k o f ds0 s2 false) w1.
Proof.
  intros He Hh Hf Hop Hps Hdw Hdr Hb. cbn [section_loop]. rewrite He, bind_lift, Hh.
  assert (E : (let! y := process_section o st should p s1 in section_loop k o f (fst y) (snd y) false) w =
              map_result (merge st1) (section_loop k o f ds0 s2 false) w1).
  { unfold mbind. rewrite Hps. cbn [fst snd]. rewrite <- (merge_ds0_r st1 Hdw Hdr) at 1. apply section_loop_merge. exact Hb. }
  destruct (if negb found && should then FUnknown else pfmt p); try congruence; destruct (poper p); try congruence; exact E.
Qed.
Print Assumptions section_loop_sum_core.

(* when the first section throws, so does the loop, in the same world *)
Lemma section_loop_first_throws o f k st s first should p s1 found e w w1 :
  seof s = false ->
  parse_patch_header_full (empty_patch f) (strip_size o) s = Ok (should, p, s1, found) ->
  (if negb found && should then FUnknown else pfmt p) <> FUnknown ->
  poper p <> OpBinary ->
  process_section o st should p s1 w = (Throw e, w1) ->
  section_loop (S k) o f st s first w = (Throw e, w1).
Proof.
  intros He Hh Hf Hop Hps. cbn [section_loop]. rewrite He, bind_lift, Hh.
  assert (E : (let! y := process_section o st should p s1 in section_loop k o f (fst y) (snd y) false) w = (Throw e, w1)).
  { unfold mbind. rewrite Hps. reflexivity. }
  destruct (if negb found && should then FUnknown else pfmt p); try congruence; destruct (poper p); try congruence; exact E.
Qed.

(* ---------- fuel: more than enough changes nothing ---------- *)
Definition loop_step (rec : dstate -> stream -> M dstate) (o : options) (f : format) (st : dstate) (s : stream) (first : bool) : M dstate :=
  if seof s then mret st
  else
    let! x := mlift (parse_patch_header_full (empty_patch f) (strip_size o) s) in
    let '(should, p, s1, found) := x in
    match (if negb found && should then FUnknown else pfmt p) with
    | FUnknown => if first then mthrow EInvalidArgument else mret st
    | _ =>
        match poper p with
        | OpBinary => rec (set_failure st) s1
        | _ =>
            let! y := process_section o st should p s1 in
            rec (fst y) (snd y)
        end
    end.

Lemma section_loop_S k o f st s first :
  section_loop (S k) o f st s first = loop_step (fun st' s' => section_loop k o f st' s' false) o f st s first.
Proof. reflexivity. Qed.

Definition targets_step (rec : dstate -> stream -> world -> list (list N)) (o : options) (f : format) (st : dstate) (s : stream) (w : world) : list (list N) :=
  if seof s then []
  else match parse_patch_header_full (empty_patch f) (strip_size o) s with
       | Throw _ => []
       | Ok (should, p, s1, found) =>
           match (if negb found && should then FUnknown else pfmt p) with
           | FUnknown => []
           | _ => match poper p with
                  | OpBinary => rec (set_failure st) s1 w
                  | _ => section_target o st p (fs w) ::
                         match process_section o st should p s1 w with
                         | (Ok y, w') => rec (fst y) (snd y) w'
                         | (Throw _, _) => []
                         end
                  end
           end
       end.

Lemma targets_met_S k o f st s w :
  targets_met (S k) o f st s w = targets_step (fun st' s' w' => targets_met k o f st' s' w') o f st s w.
Proof. reflexivity. Qed.

Lemma loop_step_ext (rec1 rec2 : dstate -> stream -> M dstate) o f st s first w :
  (forall st' s' w', fueled (fst (rec1 st' s' w')) -> rec2 st' s' w' = rec1 st' s' w') ->
  fueled (fst (loop_step rec1 o f st s first w)) ->
  loop_step rec2 o f st s first w = loop_step rec1 o f st s first w.
Proof.
  intros Hr. unfold loop_step. destruct (seof s); [reflexivity|]. rewrite !bind_lift.
  destruct (parse_patch_header_full (empty_patch f) (strip_size o) s) as [[[[should p] s1] found]|e]; [|reflexivity].
  intros Hfu.
  assert (A : fueled (fst ((let! y := process_section o st should p s1 in rec1 (fst y) (snd y)) w)) ->
              (let! y := process_section o st should p s1 in rec2 (fst y) (snd y)) w =
              (let! y := process_section o st should p s1 in rec1 (fst y) (snd y)) w).
  { unfold mbind. destruct (process_section o st should p s1 w) as [[y|e] w1]; [|reflexivity]. apply Hr. }
  destruct (if negb found && should then FUnknown else pfmt p); try reflexivity;
    destruct (poper p); try (apply A; exact Hfu); apply Hr; exact Hfu.
Qed.

Lemma targets_step_ext (recL : dstate -> stream -> M dstate) (rec1 rec2 : dstate -> stream -> world -> list (list N)) o f st s first w :
  (forall st' s' w', fueled (fst (recL st' s' w')) -> rec2 st' s' w' = rec1 st' s' w') ->
  fueled (fst (loop_step recL o f st s first w)) ->
  targets_step rec2 o f st s w = targets_step rec1 o f st s w.
Proof.
  intros Hr. unfold loop_step, targets_step. destruct (seof s); [reflexivity|]. rewrite !bind_lift.
  destruct (parse_patch_header_full (empty_patch f) (strip_size o) s) as [[[[should p] s1] found]|e]; [|reflexivity].
  intros Hfu.
  assert (A : fueled (fst ((let! y := process_section o st should p s1 in recL (fst y) (snd y)) w)) ->
              section_target o st p (fs w) :: match process_section o st should p s1 w with (Ok y, w') => rec2 (fst y) (snd y) w' | (Throw _, _) => [] end =
              section_target o st p (fs w) :: match process_section o st should p s1 w with (Ok y, w') => rec1 (fst y) (snd y) w' | (Throw _, _) => [] end).
  { unfold mbind. destruct (process_section o st should p s1 w) as [[y|e] w1]; [|reflexivity]. intros H. f_equal. apply Hr. exact H. }
  destruct (if negb found && should then FUnknown else pfmt p); try reflexivity;
    destruct (poper p); try (apply A; exact Hfu); apply Hr; exact Hfu.
Qed.

Lemma section_loop_mono o f : forall k st s first w,
  fueled (fst (section_loop k o f st s first w)) ->
  section_loop (S k) o f st s first w = section_loop k o f st s first w.
Proof.
  induction k as [|k IH]; intros st s first w H.
  - exfalso. apply H. reflexivity.
  - rewrite (section_loop_S (S k)), (section_loop_S k). rewrite (section_loop_S k) in H.
    apply loop_step_ext; [|exact H]. intros st' s' w' H'. apply IH. exact H'.
Qed.

Lemma targets_met_mono o f : forall k st s first w,
  fueled (fst (section_loop k o f st s first w)) ->
  targets_met (S k) o f st s w = targets_met k o f st s w.
Proof.
  induction k as [|k IH]; intros st s first w H.
  - exfalso. apply H. reflexivity.
  - rewrite (targets_met_S (S k)), (targets_met_S k). rewrite (section_loop_S k) in H.
    eapply targets_step_ext; [|exact H]. intros st' s' w' H'. cbv beta. eapply IH. exact H'.
Qed.

Lemma section_loop_more o f st s first w : forall d k,
  length (rest s) + 1 < k ->
  section_loop (d + k) o f st s first w = section_loop k o f st s first w /\
  targets_met (d + k) o f st s w = targets_met k o f st s w.
Proof.
  induction d as [|d IH]; intros k L; [split; reflexivity|]. cbn [Nat.add].
  destruct (IH k L) as [E1 E2].
  assert (Fu : fueled (fst (section_loop (d + k) o f st s first w))) by (apply section_loop_fueled; lia).
  split.
  - rewrite section_loop_mono; [exact E1|exact Fu].
  - rewrite (targets_met_mono o f (d + k) st s first w Fu). exact E2.
Qed.

(* with more fuel than "bytes + 1" the loop over sections does not depend on the fuel *)
Theorem section_loop_fuel o f st s first w k1 k2 :
  length (rest s) + 1 < k1 -> length (rest s) + 1 < k2 ->
  section_loop k1 o f st s first w = section_loop k2 o f st s first w.
Proof.
  intros L1 L2. set (m := S (S (length (rest s)))).
  assert (E : forall k, length (rest s) + 1 < k -> section_loop k o f st s first w = section_loop m o f st s first w).
  { intros k L. replace k with ((k - m) + m) by (unfold m; lia). apply section_loop_more. unfold m. lia. }
  rewrite (E k1 L1), (E k2 L2). reflexivity.
Qed.
Print Assumptions section_loop_fuel.

Lemma targets_met_fuel o f st s w k1 k2 :
  length (rest s) + 1 < k1 -> length (rest s) + 1 < k2 ->
  targets_met k1 o f st s w = targets_met k2 o f st s w.
Proof.
  intros L1 L2. set (m := S (S (length (rest s)))).
  assert (E : forall k, length (rest s) + 1 < k -> targets_met k o f st s w = targets_met m o f st s w).
  { intros k L. replace k with ((k - m) + m) by (unfold m; lia). apply (section_loop_more o f st s false w). unfold m. lia. }
  rewrite (E k1 L1), (E k2 L2). reflexivity.
Qed.

(* a section that is processed consumes at least one byte of the patch *)
Lemma section_progress o f st s should p s1 found st1 s2 w w1 :
  parse_patch_header_full (empty_patch f) (strip_size o) s = Ok (should, p, s1, found) ->
  (if negb found && should then FUnknown else pfmt p) <> FUnknown ->
  process_section o st should p s1 w = (Ok (st1, s2), w1) ->
  length (rest s2) < length (rest s).
Proof.
  intros HF Hf Hps.
  destruct (header_full_spec _ _ _ _ _ _ _ HF) as (L1 & F0 & F1 & F2 & F3).
  destruct found; [|rewrite (F0 eq_refl) in Hf; cbn [negb andb] in Hf; congruence].
  pose proof (Post_process_section o st should p s1 w (st1, s2) w1 Hps) as HB. cbn [snd] in HB.
  unfold BQ in HB. destruct should.
  - destruct HB as (p1 & p2 & HB).
    destruct (F1 eq_refl) as [Lt|(_ & _ & E1)].
    + assert (length (rest s2) <= length (rest s1)); [|lia].
      unfold parse_patch_body in HB.
      destruct (pfmt p1); try discriminate;
        match type of HB with rbind ?m _ = _ => destruct m as [[hs sx]|e] eqn:C; cbn [rbind] in HB; [|discriminate] end;
        inversion HB; subst; cbn [snd].
      * unfold parse_context_patch in C. apply context_loop_lt in C. lia.
      * unfold parse_unified_patch in C. apply unified_loop_le in C. exact C.
      * unfold parse_unified_patch in C. apply unified_loop_le in C. exact C.
      * unfold parse_normal_patch in C. apply normal_loop_le in C. exact C.
    + subst s1. pose proof (found_nonempty _ _ _ _ _ _ HF) as Ne.
      pose proof (body_progress _ _ _ _ HB eq_refl eq_refl Ne) as Lt. cbn [rest] in Lt. lia.
  - subst s2. specialize (F2 eq_refl eq_refl). lia.
Qed.

(* (3) with the fuel process_patch gives to each run: "bytes + 2" of the whole stream on the left, of what follows the
   first section on the right *)
Theorem section_loop_sum o f st s first should p s1 found st1 s2 w w1 :
  seof s = false ->
  parse_patch_header_full (empty_patch f) (strip_size o) s = Ok (should, p, s1, found) ->
  (if negb found && should then FUnknown else pfmt p) <> FUnknown ->
  poper p <> OpBinary ->
  process_section o st should p s1 w = (Ok (st1, s2), w1) ->
  deferred_writes st1 = [] -> deferred_removals st1 = [] ->
  (may_backup o = true -> forall q, In q (targets_met (S (S (length (rest s2)))) o f ds0 s2 w1) -> fresh_backup o st1 q) ->
  section_loop (S (S (length (rest s)))) o f st s first w =
  map_result (merge st1) (section_loop (S (S (length (rest s2)))) o f ds0 s2 false) w1.
Proof.
  intros He Hh Hf Hop Hps Hdw Hdr Hb.
  pose proof (section_progress _ _ _ _ _ _ _ _ _ _ _ _ Hh Hf Hps) as Lt.
  rewrite (section_loop_sum_core o f (S (length (rest s))) st s first should p s1 found st1 s2 w w1 He Hh Hf Hop Hps Hdw Hdr).
  - unfold map_result. rewrite (section_loop_fuel o f ds0 s2 false w1 (S (length (rest s))) (S (S (length (rest s2))))); [reflexivity|lia|lia].
  - intros Hm q Hq. apply (Hb Hm). rewrite (targets_met_fuel o f ds0 s2 w1 _ (S (length (rest s)))); [exact Hq|lia|lia].
Qed.
Print Assumptions section_loop_sum.

(* ---------- the first flag: it only matters when what is left holds no patch at all ---------- *)
Definition has_patch (o : options) (f : format) (s : stream) : bool :=
  seof s ||
  match parse_patch_header_full (empty_patch f) (strip_size o) s with
  | Ok (should, p, _, found) => match (if negb found && should then FUnknown else pfmt p) with FUnknown => false | _ => true end
  | Throw _ => true
  end.

Lemma section_loop_first o f k st s w :
  has_patch o f s = true -> section_loop k o f st s true w = section_loop k o f st s false w.
Proof.
  intros H. destruct k as [|k]; [reflexivity|]. cbn [section_loop]. unfold has_patch in H.
  destruct (seof s); [reflexivity|]. cbn [orb] in H. rewrite !bind_lift.
  destruct (parse_patch_header_full (empty_patch f) (strip_size o) s) as [[[[should p] s1] found]|e]; [|reflexivity].
  destruct (if negb found && should then FUnknown else pfmt p); try reflexivity. discriminate.
Qed.

(* ---------- the end of the run: deferred writes and removals ---------- *)
Definition finish (o : options) (st : dstate) : M (nat * list N) :=
  let! st1 := finalize_writes o st (deferred_writes st) in
  let! _ := finalize_removals (deferred_writes st) (deferred_removals st) in
  mret (if had_failure st1 then 1 else 0, events st1).

Lemma process_patch_unfold o bytes :
  process_patch o bytes =
  (let! f := mlift (format_from_options o) in
   let! st := section_loop (S (S (length bytes))) o f ds0 (stream_of bytes) true in finish o st).
Proof. reflexivity. Qed.

Lemma Sim_finalize_writes_from o a all : forall ds st,
  (forall d, In d all -> d_backup d = true -> fresh_backup o a (d_dest d)) ->
  incl ds all ->
  Sim (merge a) (finalize_writes_from o all st ds) (finalize_writes_from o all (merge a st) ds).
Proof.
  induction ds as [|d r IH]; intros st H Hi; cbn [finalize_writes_from]; [apply Sim_ret|].
  apply Sim_bind_same. intros _. eapply Sim_bind.
  - apply Sim_write_now. unfold with_backup_of. cbn [d_backup d_dest]. intros Hb.
    apply orb_true_iff in Hb. destruct Hb as [Hb|Hb].
    + apply H; [apply Hi; left; reflexivity|exact Hb].
    + apply existsb_exists in Hb. destruct Hb as (x & Ix & Hx). apply andb_true_iff in Hx. destruct Hx as [Hd Hbx].
      apply str_eqb_eq in Hd. rewrite <- Hd. apply H; [exact Ix|exact Hbx].
  - intros st'. apply IH; [exact H|]. intros d' I'. apply Hi. right. exact I'.
Qed.

Lemma Sim_finalize_writes o a ds st :
  (forall d, In d ds -> d_backup d = true -> fresh_backup o a (d_dest d)) ->
  Sim (merge a) (finalize_writes o st ds) (finalize_writes o (merge a st) ds).
Proof. intros H. unfold finalize_writes. apply Sim_finalize_writes_from; [exact H|apply incl_refl]. Qed.

(* exit status and report of a run that comes after sections summarised by a *)
Definition exit_of (st : dstate) : nat := if had_failure st then 1 else 0.
Definition after_run (a : dstate) (r : nat * list N) : nat * list N := (Nat.max (exit_of a) (fst r), events a ++ snd r).

Lemma Sim_finish o a st :
  (forall d, In d (deferred_writes st) -> d_backup d = true -> fresh_backup o a (d_dest d)) ->
  Sim (after_run a) (finish o st) (finish o (merge a st)).
Proof.
  intros H. unfold finish. rewrite merge_deferred_writes, merge_deferred_removals.
  eapply Sim_bind; [apply Sim_finalize_writes; exact H|]. intros st1.
  apply Sim_bind_same. intros _. apply Sim_ret_eq. unfold after_run, exit_of. cbn [fst snd merge had_failure events].
  destruct (had_failure a), (had_failure st1); reflexivity.
Qed.

(* ---------- the deferred writes a section adds are writes to its output file ---------- *)
Definition DW (o : options) (st : dstate) (out : list N) (st' : dstate) : Prop :=
  forall d, In d (deferred_writes st') ->
    In d (deferred_writes st) \/ (d_dest d = out /\ (d_backup d = true -> may_backup o = true)).

Lemma DW_same o st out st' : deferred_writes st' = deferred_writes st -> DW o st out st'.
Proof. intros E d I. left. rewrite <- E. exact I. Qed.

Lemma Post_backup o st p : Post (make_backup_for o st p) (fun st' => deferred_writes st' = deferred_writes st).
Proof.
  unfold make_backup_for. destruct (existsb _ _); [apply Post_ret; reflexivity|].
  eapply Post_bind; [apply Post_true|intros _ _]. unfold backup_core.
  eapply Post_bind; [apply Post_true|intros m _].
  destruct (exists_ m p); (eapply Post_bind; [apply Post_true|intros _ _]); apply Post_ret; reflexivity.
Qed.

Lemma Post_backup_if o st p (c : bool) :
  Post (if c then make_backup_for o st p else mret st) (fun st' => deferred_writes st' = deferred_writes st).
Proof. destruct c; [apply Post_backup|apply Post_ret; reflexivity]. Qed.

Lemma Post_write_now o st d : Post (write_now o st d) (fun st' => deferred_writes st' = deferred_writes st).
Proof.
  unfold write_now. eapply Post_bind; [apply Post_backup_if|intros st1 H1].
  eapply Post_bind; [apply Post_true|intros m _].
  eapply Post_bind; [apply Post_true|intros _ _].
  eapply Post_bind; [apply Post_true|intros _ _].
  eapply Post_bind; [apply Post_true|intros _ _].
  apply Post_ret. exact H1.
Qed.

Lemma Post_refuse o st out p : Post (refuse_to_patch o st out p) (fun st' => deferred_writes st' = deferred_writes st).
Proof.
  unfold refuse_to_patch. destruct (dry_run o); [apply Post_ret; reflexivity|].
  eapply Post_bind; [apply Post_true|intros t _]. eapply Post_bind; [apply Post_true|intros _ _]. apply Post_ret; reflexivity.
Qed.

Lemma Post_weaken_dw {A} (m : M A) (Q R : A -> Prop) : Post m Q -> (forall x, Q x -> R x) -> Post m R.
Proof. intros H I w x w' E. apply I. eapply H. exact E. Qed.

Lemma Post_section_tail o st ftp out op op1 needed ar s2 :
  Post (section_tail o st ftp out op op1 needed ar s2) (fun y => DW o st out (fst y)).
Proof.
  unfold section_tail.
  eapply Post_bind with (Q := fun st2 => deferred_writes st2 = deferred_writes st).
  { destruct (negb (Nat.eqb (r_failed ar) 0)); [|apply Post_ret; reflexivity].
    destruct (dry_run o); [apply Post_ret; reflexivity|].
    eapply Post_bind; [apply Post_true|intros _ _]. eapply Post_bind; [apply Post_true|intros _ _]. apply Post_ret; reflexivity. }
  intros st2 H2.
  destruct (str_eqb (out_file_path o) (bs "-")); [apply Post_stdout; apply DW_same; exact H2|].
  eapply Post_bind with (Q := fun x => deferred_writes (fst x) = deferred_writes st).
  { match goal with |- Post (if ?c then _ else _) _ => destruct c end; [|apply Post_ret; exact H2].
    destruct (is_nil (lines_bytes (newline_output o) (r_out ar))).
    - destruct (dry_run o); [apply Post_ret; exact H2|].
      eapply Post_bind; [apply Post_backup_if|intros st3 H3].
      eapply Post_bind; [apply Post_true|intros m2 _]. eapply Post_bind; [apply Post_true|intros _ _].
      apply Post_ret. cbn [fst]. congruence.
    - apply Post_ret. cbn [fst]. destruct (str_eqb _ devnull); exact H2. }
  intros [st4 wtf] H4. cbn [fst] in H4.
  eapply Post_bind with (Q := DW o st out).
  { destruct wtf; [|apply Post_ret; apply DW_same; exact H4].
    eapply Post_bind; [apply Post_true|intros _ _].
    match goal with |- Post (if ?c then _ else _) _ => destruct c end.
    - destruct (is_symlink_mode (new_mode (r_patch ar))).
      + eapply Post_bind; [apply Post_backup_if|intros st' H']. eapply Post_bind; [apply Post_true|intros _ _].
        apply Post_ret. apply DW_same. congruence.
      + apply Post_ret. intros d I. cbn [deferred_writes] in I. apply in_app_or in I. destruct I as [I|[<-|[]]].
        * left. rewrite <- H4. exact I.
        * right. cbn [d_dest d_backup]. split; [reflexivity|]. apply should_backup_may.
    - eapply Post_weaken_dw; [apply Post_write_now|]. intros st' H'. apply DW_same. congruence. }
  intros st5 H5.
  eapply Post_bind with (Q := DW o st out).
  { match goal with |- Post (if ?c then _ else _) _ => destruct c end; [|apply Post_ret; exact H5].
    destruct (existsb _ (deferred_writes st5)).
    - apply Post_ret. exact H5.
    - eapply Post_bind; [apply Post_true|intros _ _]. apply Post_ret. exact H5. }
  intros st6 H6. apply Post_ret. exact H6.
Qed.

Lemma Post_getfs_at {B} (k : fsmap -> M B) (Q : B -> Prop) w x w' :
  Post (k (fs w)) Q -> mbind get_fs k w = (Ok x, w') -> Q x.
Proof. intros H E. unfold mbind in E. cbn [get_fs] in E. eapply H. exact E. Qed.

Lemma deferred_of_section o st should p s w st' s' w' :
  process_section o st should p s w = (Ok (st', s'), w') ->
  DW o st (section_target o st p (fs w)) st'.
Proof.
  intros E. unfold process_section in E. change st' with (fst (st', s')).
  eapply Post_getfs_at with (Q := fun y => DW o st (section_target o st p (fs w)) (fst y)); [|exact E]. cbv beta.
  unfold section_target. generalize (fs w) as m. clear E. intros m.
  set (ftp := if is_nil (file_to_patch o) then guess_filepath m (map d_dest (deferred_writes st)) p o else file_to_patch o).
  destruct (is_nil ftp); [apply Post_throw|].
  destruct (exists_ m ftp && negb (is_regular_file m ftp)).
  { eapply Post_bind; [apply Post_true|intros ps _]. eapply Post_bind; [apply Post_refuse|intros st1 H1]. apply Post_ret. apply DW_same. exact H1. }
  destruct (_ && _).
  { eapply Post_bind; [apply Post_true|intros ps _]. eapply Post_bind; [apply Post_refuse|intros st1 H1]. apply Post_ret. apply DW_same. exact H1. }
  eapply Post_bind; [apply Post_true|intros input_lines _].
  eapply Post_bind; [apply Post_true|intros _ _].
  eapply Post_bind; [apply Post_true|intros [p2 s2] _].
  eapply Post_bind; [apply Post_true|intros ar _].
  apply Post_section_tail.
Qed.

(* every deferred write with a backup that is pending when the loop ends was either pending when it started or is a write
   to the output file of one of the sections met *)
Lemma deferred_of_loop o f : forall k st s first w st' w',
  section_loop k o f st s first w = (Ok st', w') ->
  forall d, In d (deferred_writes st') ->
    In d (deferred_writes st) \/ (In (d_dest d) (targets_met k o f st s w) /\ (d_backup d = true -> may_backup o = true)).
Proof.
  induction k as [|k IH]; intros st s first w st' w' E d I; [discriminate|].
  cbn [section_loop targets_met] in *.
  destruct (seof s); [inversion E; subst; left; exact I|].
  rewrite bind_lift in E.
  destruct (parse_patch_header_full (empty_patch f) (strip_size o) s) as [[[[should p] s1] found]|e]; [|discriminate].
  assert (A : (let! y := process_section o st should p s1 in section_loop k o f (fst y) (snd y) false) w = (Ok st', w') ->
              In d (deferred_writes st) \/
              (In (d_dest d) (section_target o st p (fs w) ::
                              match process_section o st should p s1 w with
                              | (Ok y, w1) => targets_met k o f (fst y) (snd y) w1
                              | (Throw _, _) => []
                              end) /\ (d_backup d = true -> may_backup o = true))).
  { unfold mbind. destruct (process_section o st should p s1 w) as [[[st1 s2]|e] w1] eqn:P; [|discriminate].
    cbn [fst snd]. intros E'. destruct (IH _ _ _ _ _ _ E' d I) as [I1|[I1 B1]].
    - destruct (deferred_of_section _ _ _ _ _ _ _ _ _ P d I1) as [I2|[I2 B2]]; [left; exact I2|].
      right. split; [left; symmetry; exact I2|exact B2].
    - right. split; [right; exact I1|exact B1]. }
  destruct (if negb found && should then FUnknown else pfmt p);
    try (destruct (poper p); try (apply A; exact E); apply (IH _ _ _ _ _ _ E d I)).
  destruct first; [discriminate|]. inversion E; subst. left; exact I.
Qed.

(* ---------- the whole run ---------- *)
(* The run on a patch whose first section is processed normally (state st1, no write left pending, what follows is t2) is
   that section followed by a run of its own on t2 in the world the section left: same final world, same exception if the
   second run throws, exit status the larger of the two, report the concatenation. *)
Theorem process_patch_sum o f t t2 should p s1 found st1 w w1 :
  format_from_options o = Ok f ->
  parse_patch_header_full (empty_patch f) (strip_size o) (stream_of t) = Ok (should, p, s1, found) ->
  (if negb found && should then FUnknown else pfmt p) <> FUnknown ->
  poper p <> OpBinary ->
  process_section o ds0 should p s1 w = (Ok (st1, stream_of t2), w1) ->
  deferred_writes st1 = [] -> deferred_removals st1 = [] ->
  has_patch o f (stream_of t2) = true ->
  (may_backup o = true -> forall q, In q (targets_met (S (S (length t2))) o f ds0 (stream_of t2) w1) -> fresh_backup o st1 q) ->
  process_patch o t w = map_result (after_run st1) (process_patch o t2) w1.
Proof.
  intros Hfo Hh Hf Hop Hps Hdw Hdr Hhp Hb.
  rewrite !process_patch_unfold. rewrite map_result_bind_lift, bind_lift, Hfo.
  rewrite map_result_bind. unfold mbind at 1.
  change (length t) with (length (rest (stream_of t))).
  rewrite (section_loop_sum o f ds0 (stream_of t) true should p s1 found st1 (stream_of t2) w w1 eq_refl Hh Hf Hop Hps Hdw Hdr Hb).
  change (rest (stream_of t2)) with t2.
  rewrite (section_loop_first o f _ ds0 (stream_of t2) w1 Hhp).
  unfold map_result at 1 2.
  destruct (section_loop (S (S (length t2))) o f ds0 (stream_of t2) false w1) as [[st2|e] w2] eqn:L; [|reflexivity].
  fold (map_result (after_run st1) (finish o st2) w2).
  apply Sim_finish. intros d I Bk.
  destruct (deferred_of_loop o f _ _ _ _ _ _ _ L d I) as [[]|[I1 B1]].
  apply (Hb (B1 Bk)). exact I1.
Qed.
Print Assumptions process_patch_sum.

(* ---------- a run of its own on one section ---------- *)
(* nothing (more) to do on this stream: it is at its end, or what is left holds nothing that looks like a patch *)
Definition ends_here (o : options) (f : format) (s : stream) : bool :=
  seof s ||
  match parse_patch_header_full (empty_patch f) (strip_size o) s with
  | Ok (should, p, _, found) => match (if negb found && should then FUnknown else pfmt p) with FUnknown => true | _ => false end
  | Throw _ => false
  end.

Lemma section_loop_ends o f k st s w : ends_here o f s = true -> section_loop (S k) o f st s false w = (Ok st, w).
Proof.
  intros H. cbn [section_loop]. unfold ends_here in H. destruct (seof s); [reflexivity|]. cbn [orb] in H. rewrite bind_lift.
  destruct (parse_patch_header_full (empty_patch f) (strip_size o) s) as [[[[should p] s1] found]|e]; [|discriminate].
  destruct (if negb found && should then FUnknown else pfmt p); try discriminate. reflexivity.
Qed.

Lemma finish_nothing o st : deferred_writes st = [] -> deferred_removals st = [] -> finish o st = mret (exit_of st, events st).
Proof. intros H1 H2. unfold finish. rewrite H1, H2. reflexivity. Qed.

(* the run on a patch that consists of one section (and possibly text after it) *)
Theorem process_patch_single o f t should p s1 found st1 s2 w w1 :
  format_from_options o = Ok f ->
  parse_patch_header_full (empty_patch f) (strip_size o) (stream_of t) = Ok (should, p, s1, found) ->
  (if negb found && should then FUnknown else pfmt p) <> FUnknown ->
  poper p <> OpBinary ->
  process_section o ds0 should p s1 w = (Ok (st1, s2), w1) ->
  deferred_writes st1 = [] -> deferred_removals st1 = [] ->
  ends_here o f s2 = true ->
  process_patch o t w = (Ok (exit_of st1, events st1), w1).
Proof.
  intros Hfo Hh Hf Hop Hps Hdw Hdr He.
  rewrite process_patch_unfold, bind_lift, Hfo. unfold mbind.
  assert (L : section_loop (S (S (length t))) o f ds0 (stream_of t) true w = (Ok st1, w1)).
  { cbn [section_loop]. change (seof (stream_of t)) with false. cbv iota. rewrite bind_lift, Hh.
    assert (E : (let! y := process_section o ds0 should p s1 in section_loop (S (length t)) o f (fst y) (snd y) false) w = (Ok st1, w1)).
    { unfold mbind. rewrite Hps. cbn [fst snd]. apply section_loop_ends. exact He. }
    destruct (if negb found && should then FUnknown else pfmt p); try congruence; destruct (poper p); try congruence; exact E. }
  rewrite L. rewrite (finish_nothing o st1 Hdw Hdr). reflexivity.
Qed.
Print Assumptions process_patch_single.

(* when the first section throws, the run ends there: same exception, same world *)
Theorem process_patch_first_throws o f t should p s1 found e w w1 :
  format_from_options o = Ok f ->
  parse_patch_header_full (empty_patch f) (strip_size o) (stream_of t) = Ok (should, p, s1, found) ->
  (if negb found && should then FUnknown else pfmt p) <> FUnknown ->
  poper p <> OpBinary ->
  process_section o ds0 should p s1 w = (Throw e, w1) ->
  process_patch o t w = (Throw e, w1).
Proof.
  intros Hfo Hh Hf Hop Hps. rewrite process_patch_unfold, bind_lift, Hfo. unfold mbind.
  rewrite (section_loop_first_throws o f (S (length t)) ds0 (stream_of t) true should p s1 found e w w1 eq_refl Hh Hf Hop Hps).
  reflexivity.
Qed.
Print Assumptions process_patch_first_throws.

(* ---------- a section looks at the patch stream only through the parser of its body ---------- *)
Lemma Sim_section_tail_stream o st ftp out op op1 needed ar s2 s2' :
  Sim (fun y => (fst y, s2')) (section_tail o st ftp out op op1 needed ar s2) (section_tail o st ftp out op op1 needed ar s2').
Proof.
  unfold section_tail. apply Sim_bind_same. intros st2.
  destruct (str_eqb (out_file_path o) (bs "-")); [apply (Sim_stdout (fun y => (fst y, s2')) (st2, s2))|].
  apply Sim_bind_same. intros [st4 wtf]. apply Sim_bind_same. intros st5. apply Sim_bind_same. intros st6.
  apply (Sim_ret (fun y => (fst y, s2')) (st6, s2)).
Qed.

Theorem process_section_stream o st should p s s' s2' :
  (forall p1, pfmt p1 = pfmt p -> hunks p1 = hunks p -> Sim (fun ps => (fst ps, s2')) (body_if should p1 s) (body_if should p1 s')) ->
  Sim (fun y => (fst y, s2')) (process_section o st should p s) (process_section o st should p s').
Proof.
  intros Hbody. unfold process_section. apply Sim_bind_same. intros m.
  set (ftp := if is_nil (file_to_patch o) then guess_filepath m (map d_dest (deferred_writes st)) p o else file_to_patch o).
  destruct (is_nil ftp); [apply Sim_throw|].
  set (outf := output_path o p ftp).
  destruct (exists_ m ftp && negb (is_regular_file m ftp)).
  { eapply Sim_bind; [apply Hbody; reflexivity|]. intros ps. cbn [fst snd]. apply Sim_bind_same. intros st'.
    apply (Sim_ret (fun y => (fst y, s2')) (st', snd ps)). }
  destruct (N.eqb (N.land (effective_perms st m outf) write_mask) 0 && match read_only o with ROFail => true | _ => false end).
  { eapply Sim_bind; [apply Hbody; reflexivity|]. intros ps. cbn [fst snd]. apply Sim_bind_same. intros st'.
    apply (Sim_ret (fun y => (fst y, s2')) (st', snd ps)). }
  apply Sim_bind_same. intros input_lines.
  apply Sim_bind_same. intros _.
  eapply Sim_bind.
  { apply Hbody; destruct (poper p); try reflexivity; destruct (str_eqb ftp outf); reflexivity. }
  intros [p2 s2]. cbn [fst snd].
  apply Sim_bind_same. intros ar. apply Sim_section_tail_stream.
Qed.
Print Assumptions process_section_stream.

(* ---------- non-vacuity: a run with -b over two sections (files f and g) with text between and after them ---------- *)
Local Open Scope string_scope.
Definition ex_o : options :=
  mkOptions true false [] [] false [] false false false [] (-1) 2 false [] [] false false false false false false false false
            OBUnset OBUnset MNative RFDefault ROWarn QSUnset [] [].
Definition nlb : list N := [10%N].
Definition ex_sec_f := bs "--- f" ++ nlb ++ bs "+++ f" ++ nlb ++ bs "@@ -1 +1 @@" ++ nlb ++ bs "-a" ++ nlb ++ bs "+b" ++ nlb.
Definition ex_sec_g := bs "--- g" ++ nlb ++ bs "+++ g" ++ nlb ++ bs "@@ -1 +1 @@" ++ nlb ++ bs "-c" ++ nlb ++ bs "+d" ++ nlb.
Definition ex_t2 := bs "Some text between the two." ++ nlb ++ nlb ++ ex_sec_g ++ bs "trailing text" ++ nlb.
Definition ex_t := ex_sec_f ++ ex_t2.
(* f does not hold what the first section expects (its hunk fails: exit status 1, f.rej, f.orig); g does *)
Definition ex_w := mkWorld [(bs "f", Reg (bs "x" ++ nlb) 420); (bs "g", Reg (bs "c" ++ nlb) 420)] 18 [] None [].

Definition ex_hdr (t : list N) : bool * patch * stream * bool :=
  match parse_patch_header_full (empty_patch FUnknown) (strip_size ex_o) (stream_of t) with
  | Ok x => x
  | Throw _ => (false, empty_patch FUnknown, stream_of [], false)
  end.
Definition ex_should t := fst (fst (fst (ex_hdr t))).
Definition ex_p t := snd (fst (fst (ex_hdr t))).
Definition ex_s1 t := snd (fst (ex_hdr t)).
Definition ex_found t := snd (ex_hdr t).
(* the first section, run from the initial state *)
Definition ex_run1 := process_section ex_o ds0 (ex_should ex_t) (ex_p ex_t) (ex_s1 ex_t) ex_w.
Definition ex_st1 : dstate := match fst ex_run1 with Ok y => fst y | Throw _ => ds0 end.
Definition ex_w1 : world := snd ex_run1.

Example ex_first_section :
  ex_run1 = (Ok (ex_st1, stream_of ex_t2), ex_w1) /\
  had_failure ex_st1 = true /\ backed_up ex_st1 = [bs "f.orig"] /\
  deferred_writes ex_st1 = [] /\ deferred_removals ex_st1 = [] /\
  lookup (fs ex_w1) (bs "f.orig") = Some (Reg (bs "x" ++ nlb) 420) /\
  may_backup ex_o = true.
Proof. vm_compute. repeat split; reflexivity. Qed.

(* (1): the section for g, run after the section for f *)
Example process_section_merge_nonvacuous :
  fresh_backup ex_o ex_st1 (section_target ex_o ds0 (ex_p ex_t2) (fs ex_w1)) /\
  section_target ex_o ds0 (ex_p ex_t2) (fs ex_w1) = bs "g" /\
  process_section ex_o (merge ex_st1 ds0) (ex_should ex_t2) (ex_p ex_t2) (ex_s1 ex_t2) ex_w1 =
    map_result (on_fst (merge ex_st1)) (process_section ex_o ds0 (ex_should ex_t2) (ex_p ex_t2) (ex_s1 ex_t2)) ex_w1 /\
  (let r := process_section ex_o (merge ex_st1 ds0) (ex_should ex_t2) (ex_p ex_t2) (ex_s1 ex_t2) ex_w1 in
   lookup (fs (snd r)) (bs "g") = Some (Reg (bs "d" ++ nlb) 420) /\
   lookup (fs (snd r)) (bs "g.orig") = Some (Reg (bs "c" ++ nlb) 420) /\
   match fst r with Ok y => backed_up (fst y) = [bs "g.orig"; bs "f.orig"] /\ had_failure (fst y) = true | Throw _ => False end).
Proof.
  assert (F : fresh_backup ex_o ex_st1 (section_target ex_o ds0 (ex_p ex_t2) (fs ex_w1))) by (vm_compute; reflexivity).
  split; [exact F|]. split; [vm_compute; reflexivity|]. split.
  - apply process_section_merge. intros _. exact F.
  - vm_compute. repeat split; reflexivity.
Qed.

(* the hypothesis is needed: when the backup of the output file is among those already taken, the merged run does not
   take it again (the original of g would be lost in the run that follows a section that backed up g) *)
Example process_section_merge_needs_fresh :
  let a := mkDS false [bs "g.orig"] [] [] [] in
  process_section ex_o (merge a ds0) (ex_should ex_t2) (ex_p ex_t2) (ex_s1 ex_t2) ex_w1 <>
  map_result (on_fst (merge a)) (process_section ex_o ds0 (ex_should ex_t2) (ex_p ex_t2) (ex_s1 ex_t2)) ex_w1.
Proof. vm_compute. discriminate. Qed.

(* (2): the loop on what follows the first section, started from the state the first section left *)
Example section_loop_merge_nonvacuous :
  targets_met (S (S (length ex_t2))) ex_o FUnknown ds0 (stream_of ex_t2) ex_w1 = [bs "g"] /\
  section_loop (S (S (length ex_t2))) ex_o FUnknown (merge ex_st1 ds0) (stream_of ex_t2) false ex_w1 =
    map_result (merge ex_st1) (section_loop (S (S (length ex_t2))) ex_o FUnknown ds0 (stream_of ex_t2) false) ex_w1 /\
  match fst (section_loop (S (S (length ex_t2))) ex_o FUnknown ds0 (stream_of ex_t2) false ex_w1) with
  | Ok st => backed_up st = [bs "g.orig"] /\ had_failure st = false
  | Throw _ => False
  end.
Proof.
  assert (T : targets_met (S (S (length ex_t2))) ex_o FUnknown ds0 (stream_of ex_t2) ex_w1 = [bs "g"]) by (vm_compute; reflexivity).
  split; [exact T|]. split.
  - apply section_loop_merge. intros _ q Hq. rewrite T in Hq. destruct Hq as [<-|[]]. vm_compute. reflexivity.
  - vm_compute. split; reflexivity.
Qed.

(* (3): the whole run on "section for f, text, section for g, text" is the section for f followed by the run on the rest;
   exit status 1 = max 1 0, the report is the concatenation, the final world is that of the two runs in sequence *)
Example process_patch_sum_nonvacuous :
  process_patch ex_o ex_t ex_w = map_result (after_run ex_st1) (process_patch ex_o ex_t2) ex_w1 /\
  (match fst (process_patch ex_o ex_t2 ex_w1) with Ok (c, ev) => c = 0 | Throw _ => False end) /\
  (match fst (process_patch ex_o ex_t ex_w) with Ok (c, ev) => c = 1 | Throw _ => False end) /\
  snd (process_patch ex_o ex_t ex_w) = snd (process_patch ex_o ex_t2 ex_w1) /\
  lookup (fs (snd (process_patch ex_o ex_t ex_w))) (bs "g") = Some (Reg (bs "d" ++ nlb) 420).
Proof.
  assert (S : process_patch ex_o ex_t ex_w = map_result (after_run ex_st1) (process_patch ex_o ex_t2) ex_w1).
  { apply (process_patch_sum ex_o FUnknown ex_t ex_t2 (ex_should ex_t) (ex_p ex_t) (ex_s1 ex_t) (ex_found ex_t) ex_st1 ex_w ex_w1).
    - reflexivity.
    - vm_compute. reflexivity.
    - vm_compute. discriminate.
    - vm_compute. discriminate.
    - vm_compute. reflexivity.
    - vm_compute. reflexivity.
    - vm_compute. reflexivity.
    - vm_compute. reflexivity.
    - intros _ q Hq.
      assert (T : targets_met (S (S (length ex_t2))) ex_o FUnknown ds0 (stream_of ex_t2) ex_w1 = [bs "g"]) by (vm_compute; reflexivity).
      rewrite T in Hq. destruct Hq as [<-|[]]. vm_compute. reflexivity. }
  split; [exact S|]. vm_compute. repeat split; reflexivity.
Qed.

(* why has_patch is asked of what follows: a run of its own on text that holds no patch ends with "unable to determine the
   format" (status 2), whereas the same text after a section is ignored *)
Example first_flag_matters :
  fst (process_patch ex_o (bs "trailing text" ++ nlb) ex_w1) = Throw EInvalidArgument /\
  has_patch ex_o FUnknown (stream_of (bs "trailing text" ++ nlb)) = false /\
  match fst (process_patch ex_o (ex_sec_f ++ bs "trailing text" ++ nlb) ex_w) with Ok (c, _) => c = 1 | Throw _ => False end.
Proof. vm_compute. repeat split; reflexivity. Qed.
