(* Proofs_World.v — facts about the file-system world and the driver's elementary actions: backups hold the original
   (C18), the mode set after writing is the mode the file ends with (C17). *)
From PatchV Require Import Base Lines Hunk Options World Driver Proofs_Base.

Lemma lookup_remove_same m p : lookup (remove_key m p) p = None.
Proof.
  induction m as [|[q n] r IH]; [reflexivity|]. cbn [remove_key]. destruct (str_eqb q p) eqn:E; [exact IH|].
  cbn [lookup]. rewrite E. exact IH.
Qed.

Lemma lookup_remove_other m p q : p <> q -> lookup (remove_key m p) q = lookup m q.
Proof.
  intros H. induction m as [|[k n] r IH]; [reflexivity|]. cbn [remove_key lookup].
  destruct (str_eqb k p) eqn:E1.
  - apply str_eqb_eq in E1. subst k. destruct (str_eqb p q) eqn:E2; [apply str_eqb_eq in E2; contradiction|exact IH].
  - cbn [lookup]. destruct (str_eqb k q); [reflexivity|exact IH].
Qed.

Lemma lookup_upd_same m p n : lookup (upd m p n) p = Some n.
Proof. unfold upd. cbn [lookup]. rewrite str_eqb_refl. reflexivity. Qed.

Lemma lookup_upd_other m p q n : p <> q -> lookup (upd m p n) q = lookup m q.
Proof.
  intros H. unfold upd. cbn [lookup]. destruct (str_eqb p q) eqn:E; [apply str_eqb_eq in E; contradiction|].
  apply lookup_remove_other. exact H.
Qed.

(* ---------- one operation ---------- *)
Lemma perform_ok op w r w' : perform op w = (r, w') ->
  (r = Ok None /\ exec_op (fs w) (umask w) op = inl (fs w')) \/ (exists e, r = Ok (Some e) /\ fs w' = fs w).
Proof.
  unfold perform. destruct (fault w) as [[|k]|].
  - intros [= <- <-]. right. eexists. split; reflexivity.
  - destruct (exec_op (fs w) (umask w) op) eqn:E; intros [= <- <-]; [left|right; eexists]; split; reflexivity.
  - destruct (exec_op (fs w) (umask w) op) eqn:E; intros [= <- <-]; [left|right; eexists]; split; reflexivity.
Qed.

Lemma checked_ok op w w' : checked op w = (Ok tt, w') -> exec_op (fs w) (umask w) op = inl (fs w').
Proof.
  unfold checked, mbind. destruct (perform op w) as [r w1] eqn:E. destruct (perform_ok _ _ _ _ E) as [[-> H]|(e & -> & H)].
  - cbn. intros [= <-]. exact H.
  - cbn. discriminate.
Qed.

(* ---------- backups (C18) ---------- *)
(* the name: prefix + path + suffix, '.orig' appended when neither is given *)
Theorem backup_name_spec o p :
  backup_name o p = backup_prefix o ++ p ++ (if is_nil (backup_prefix o) && is_nil (backup_suffix o) then bs ".orig" else backup_suffix o).
Proof.
  unfold backup_name. destruct (backup_prefix o) as [|a x], (backup_suffix o) as [|b y]; cbn [is_nil negb andb app]; try reflexivity.
  rewrite app_nil_r. reflexivity.
Qed.

(* making directories only adds directories: every entry that was there stays as it was *)
Definition extends (m m' : fsmap) : Prop := forall q n, lookup m q = Some n -> lookup m' q = Some n.

Lemma extends_refl m : extends m m. Proof. intros q n H; exact H. Qed.
Lemma extends_trans a b c : extends a b -> extends b c -> extends a c. Proof. intros H1 H2 q n H. auto. Qed.

Lemma mkdir_extends m um d m' : exec_op m um (OMkdir d) = inl m' -> extends m m'.
Proof.
  cbn [exec_op]. destruct (lookup m d) eqn:L; [discriminate|]. destruct (parent_ok m d true); [|discriminate].
  intros [= <-] q n H. rewrite lookup_upd_other; [exact H|]. intros ->. congruence.
Qed.

Lemma mkdirs_extends : forall ds w r w', mkdirs ds w = (r, w') -> extends (fs w) (fs w').
Proof.
  induction ds as [|d ds IH]; intros w r w' H; cbn [mkdirs] in H.
  - inversion H. apply extends_refl.
  - unfold mbind in H. destruct (perform (OMkdir d) w) as [[e|ex] w1] eqn:P.
    + assert (E1 : extends (fs w) (fs w1)).
      { destruct (perform_ok _ _ _ _ P) as [[_ X]|(e0 & _ & X)]; [eapply mkdir_extends; eauto|rewrite X; apply extends_refl]. }
      destruct e as [e|]; [destruct e|]; try (inversion H; subst; exact E1); (eapply extends_trans; [exact E1|eapply IH; eauto]).
    + unfold perform in P. destruct (fault w) as [[|k]|]; [discriminate| |]; destruct (exec_op (fs w) (umask w) (OMkdir d)); discriminate.
Qed.

Lemma ensure_extends p w r w' : ensure_parent_directories p w = (r, w') -> extends (fs w) (fs w').
Proof.
  unfold ensure_parent_directories. destruct (is_nil p); [intros [= <- <-]; apply extends_refl|]. apply mkdirs_extends.
Qed.

Lemma parent_ok_extends m m' p nw : extends m m' -> parent_ok m p nw = true -> parent_ok m' p nw = true.
Proof.
  intros E. unfold parent_ok. destruct (parent p) as [[|c d]|]; auto.
  destruct (lookup m (c :: d)) as [[x y|y|t|y]|] eqn:L; try discriminate. rewrite (E _ _ L). auto.
Qed.

Lemma stat_extends m m' p n : extends m m' -> stat m p = Some n -> stat m' p = Some n.
Proof.
  intros E. unfold stat. destruct (parent_ok m p false) eqn:A; cbn [negb]; [|discriminate].
  rewrite (parent_ok_extends _ _ _ _ E A). cbn [negb].
  destruct (lookup m p) as [[x y|y|t|y]|] eqn:L; try discriminate; rewrite (E _ _ L); auto.
  destruct (lookup m (link_target p t)) as [[x2 y2|y2|t2|y2]|] eqn:L2; try discriminate; rewrite (E _ _ L2); auto.
Qed.

Lemma exists_extends m m' p : extends m m' -> exists_ m p = true -> exists_ m' p = true.
Proof. intros E. unfold exists_. destruct (stat m p) eqn:S; [|discriminate]. rewrite (stat_extends _ _ _ _ E S). auto. Qed.

(* the first backup of a path in a run, once the directory for it is there: an existing target is moved there as it is
   (bytes and mode), an absent one gives an empty file *)
Theorem backup_holds_original st' p b w st1 w' :
  backup_core st' p b w = (Ok st1, w') ->
  st1 = st' /\
  (exists_ (fs w) p = true ->
     exists n, lookup (fs w) p = Some n /\ lookup (fs w') b = Some n /\
               (p <> b -> lookup (fs w') p = None)) /\
  (exists_ (fs w) p = false ->
     match lookup (fs w) b with
     | Some (Sym _) => True
     | _ => exists mode, lookup (fs w') b = Some (Reg [] mode)
     end).
Proof.
  unfold backup_core. unfold mbind at 1. cbn [get_fs].
  destruct (exists_ (fs w) p) eqn:Ex.
  - unfold mbind. destruct (checked (ORename p b) w) as [[[]|e] w1] eqn:C; [|discriminate].
    cbn [mret]. intros [= <- <-]. split; [reflexivity|]. split; [|discriminate]. intros _.
    apply checked_ok in C. cbn [exec_op] in C.
    destruct (parent_ok (fs w) p true && parent_ok (fs w) b true); cbn [negb] in C; [|discriminate].
    destruct (lookup (fs w) p) as [n|] eqn:L; [|discriminate]. exists n. split; [reflexivity|].
    destruct (lookup (fs w) b) as [[d md|md|t|md]|]; try discriminate; inversion C as [C'];
      (split; [apply lookup_upd_same|intros Hne; rewrite lookup_upd_other by (intros E; apply Hne; symmetry; exact E); apply lookup_remove_same]).
  - unfold mbind. destruct (checked (OWrite b []) w) as [[[]|e] w1] eqn:C; [|discriminate].
    cbn [mret]. intros [= <- <-]. split; [reflexivity|]. split; [discriminate|]. intros _.
    apply checked_ok in C. cbn [exec_op] in C.
    destruct (lookup (fs w) b) as [[d md|md|t|md]|] eqn:L; try exact I; try discriminate.
    + destruct (parent_ok (fs w) b false && owner_w md); [|discriminate]. inversion C as [C']. eexists. apply lookup_upd_same.
    + destruct (parent_ok (fs w) b true); [|discriminate]. inversion C as [C']. eexists. apply lookup_upd_same.
Qed.

(* make_backup_for = remember the name, make the directory the backup goes to (only adding directories), then the above *)
Theorem make_backup_for_shape o st p :
  existsb (str_eqb (backup_name o p)) (backed_up st) = false ->
  make_backup_for o st p =
  (let! _ := ensure_parent_directories (backup_name o p) in
   backup_core (mkDS (had_failure st) (backup_name o p :: backed_up st) (deferred_writes st) (deferred_removals st) (events st)) p (backup_name o p)).
Proof. intros H. unfold make_backup_for. rewrite H. reflexivity. Qed.

(* several patches of one run to the same file: only the first of them takes the backup *)
Theorem backup_only_once o st p :
  existsb (str_eqb (backup_name o p)) (backed_up st) = true -> make_backup_for o st p = mret st.
Proof. intros H. unfold make_backup_for. rewrite H. reflexivity. Qed.

(* ---------- modes (C17) ---------- *)
Definition node_mode (n : option node) : option N :=
  match n with Some (Reg _ m) | Some (Dir m) | Some (Other m) => Some m | _ => None end.

Lemma chmod_sets_mode m um p mode m' :
  exec_op m um (OChmod p mode) = inl m' -> (forall t, lookup m p <> Some (Sym t)) -> node_mode (lookup m' p) = Some mode.
Proof.
  cbn [exec_op]. destruct (parent_ok m p false); cbn [negb]; [|discriminate].
  destruct (lookup m p) as [[d md|md|t|md]|] eqn:L; try discriminate; intros E Hs; try (inversion E; rewrite lookup_upd_same; reflexivity).
  exfalso. apply (Hs t). reflexivity.
Qed.

(* writing a target: when the write succeeds and a mode is to be set afterwards, the file ends with exactly that mode
   (the permission bits it had before, or the new mode of a git header), whether or not a backup was taken *)
Theorem write_now_sets_mode o st d w st' w' mode :
  write_now o st d w = (Ok st', w') -> d_perm_after d = Some mode ->
  (forall t, lookup (fs w') (d_dest d) <> Some (Sym t)) ->
  node_mode (lookup (fs w') (d_dest d)) = Some mode.
Proof.
  unfold write_now. intros H Hp Hs. rewrite Hp in H.
  unfold mbind in H.
  destruct ((if d_backup d then make_backup_for o st (d_dest d) else mret st) w) as [[st1|e] w1]; [|discriminate].
  cbn [get_fs] in H.
  destruct ((match d_chmod_first d with
             | Some mode0 => if exists_ (fs w1) (d_dest d) then checked (OChmod (d_dest d) mode0) else mret tt
             | None => mret tt end) w1) as [[[]|e] w2]; [|discriminate].
  destruct (checked (OWrite (d_dest d) (d_data d)) w2) as [[[]|e] w3]; [|discriminate].
  destruct (checked (OChmod (d_dest d) mode) w3) as [[[]|e] w4] eqn:C; [|discriminate].
  cbn [mret] in H. inversion H; subst. apply checked_ok in C.
  (* a successful chmod on a path that is not a link afterwards was not one before either *)
  cbn [exec_op] in C. destruct (parent_ok (fs w3) (d_dest d) false); cbn [negb] in C; [|discriminate].
  destruct (lookup (fs w3) (d_dest d)) as [[dd md|md|t|md]|] eqn:L; try discriminate.
  - inversion C as [C']. rewrite lookup_upd_same. reflexivity.
  - inversion C as [C']. rewrite lookup_upd_same. reflexivity.
  - destruct (lookup (fs w3) (link_target (d_dest d) t)) as [[d2 m2|m2|t2|m2]|] eqn:L2; try discriminate. inversion C as [C2]. rewrite <- C2 in Hs.
    exfalso. destruct (list_eq_dec N.eq_dec (link_target (d_dest d) t) (d_dest d)) as [E|E].
    + rewrite E in L2. congruence.
    + apply (Hs t). rewrite lookup_upd_other by exact E. exact L.
  - inversion C as [C']. rewrite lookup_upd_same. reflexivity.
Qed.

(* ---------- frame: an operation changes nothing outside the paths it names (and the target of a link it writes through) ---------- *)
Theorem exec_op_frame m um op m' q :
  exec_op m um op = inl m' -> ~ In q (op_paths op) ->
  (forall p t, In p (op_paths op) -> lookup m p = Some (Sym t) -> q <> link_target p t) ->
  lookup m' q = lookup m q.
Proof.
  intros E Hq Hl. destruct op as [p md|a b|p|p|p|p data|t p|p]; cbn [exec_op op_paths In] in *.
  - destruct (parent_ok m p false); cbn [negb] in E; [|discriminate].
    destruct (lookup m p) as [[d x|x|t|x]|] eqn:L; try discriminate.
    + inversion E. apply lookup_upd_other. intros ->. apply Hq. auto.
    + inversion E. apply lookup_upd_other. intros ->. apply Hq. auto.
    + destruct (lookup m (link_target p t)) as [[d x|x|t2|x]|]; try discriminate. inversion E. apply lookup_upd_other.
      intros Eq. apply (Hl p t); auto.
    + inversion E. apply lookup_upd_other. intros ->. apply Hq. auto.
  - destruct (parent_ok m a true && parent_ok m b true); cbn [negb] in E; [|discriminate].
    destruct (lookup m a) as [n|]; [|discriminate].
    assert (R : lookup (upd (remove_key m a) b n) q = lookup m q).
    { rewrite lookup_upd_other by (intros ->; apply Hq; auto). apply lookup_remove_other. intros ->. apply Hq. auto. }
    destruct (lookup m b) as [[d x|x|t|x]|]; try discriminate; inversion E; exact R.
  - destruct (parent_ok m p true); cbn [negb] in E; [|discriminate].
    assert (R : lookup (remove_key m p) q = lookup m q) by (apply lookup_remove_other; intros ->; apply Hq; auto).
    destruct (lookup m p) as [[d x|x|t|x]|]; try discriminate; try (inversion E; exact R).
    destruct (has_children m p); [discriminate|]. inversion E; exact R.
  - destruct (parent_ok m p true); cbn [negb] in E; [|discriminate].
    destruct (lookup m p) as [[d x|x|t|x]|]; try discriminate. destruct (has_children m p); [discriminate|].
    inversion E. apply lookup_remove_other. intros ->. apply Hq. auto.
  - destruct (lookup m p); [discriminate|]. destruct (parent_ok m p true); [|discriminate].
    inversion E. apply lookup_upd_other. intros ->. apply Hq. auto.
  - destruct (lookup m p) as [[d x|x|t|x]|] eqn:L; try discriminate.
    + destruct (parent_ok m p false && owner_w x); [|discriminate]. inversion E. apply lookup_upd_other. intros ->. apply Hq. auto.
    + assert (Q : link_target p t <> q) by (intros Eq; apply (Hl p t); auto).
      destruct (lookup m (link_target p t)) as [[d2 x2|x2|t2|x2]|]; try discriminate.
      * destruct (owner_w x2); [|discriminate]. inversion E. apply lookup_upd_other. exact Q.
      * inversion E. apply lookup_upd_other. exact Q.
    + destruct (parent_ok m p true); [|discriminate]. inversion E. apply lookup_upd_other. intros ->. apply Hq. auto.
  - destruct (lookup m p); [discriminate|]. destruct (parent_ok m p true); [|discriminate].
    inversion E. apply lookup_upd_other. intros ->. apply Hq. auto.
  - destruct (stat m p) as [[d x|x|t|x]|]; try discriminate; try (inversion E; reflexivity).
    destruct (owner_r x); [inversion E; reflexivity|discriminate].
Qed.
