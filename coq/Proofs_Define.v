(* Proofs_Define.v — C20: the -D output, read by a preprocessor, is the new file when the symbol is defined and the
   original file when it is not. *)
From PatchV Require Import Base Lines Hunk Locator Formatter Options Applier Spec_Locate Spec_Apply Spec_Define
     Proofs_Base Proofs_Locate Proofs_Apply.

(* the same options without -D *)
Definition no_define (o : options) : options :=
  mkOptions (save_backup o) (interpret_as_context o) (patch_directory_path o) [] (interpret_as_ed o) (patch_file_path o)
            (ignore_whitespace o) (interpret_as_normal o) (ignore_reversed o) (out_file_path o) (strip_size o) (max_fuzz o)
            (reverse_patch_opt o) (file_to_patch o) (reject_file_path o) (force o) (batch o) (show_help o) (show_version o)
            (interpret_as_unified o) (verbose o) (dry_run o) (posix o) (backup_if_mismatch o) (remove_empty_files o)
            (newline_output o) (reject_format_opt o) (read_only o) (quoting o) (backup_suffix o) (backup_prefix o).

Lemma bs_ifdef : bs "#ifdef " = [35; 105; 102; 100; 101; 102; 32]%N. Proof. reflexivity. Qed.
Lemma bs_ifndef : bs "#ifndef " = [35; 105; 102; 110; 100; 101; 102; 32]%N. Proof. reflexivity. Qed.
Lemma bs_else : bs "#else" = [35; 101; 108; 115; 101]%N. Proof. reflexivity. Qed.
Lemma bs_endif : bs "#endif" = [35; 101; 110; 100; 105; 102]%N. Proof. reflexivity. Qed.

Section Define.
Variable sym : list N.
Variable f : list line.

Definition plain (l : line) : Prop := classify sym l = KText.
Definition complete (l : line) : Prop := nl l <> NoNL.
Definition line_ok (l : line) : Prop := plain l /\ complete l.
Definition body_ok (b : list pline) : Prop := Forall (fun p => line_ok (pl p)) b.

Hypothesis f_ok : Forall line_ok f.

Lemma nth_ok ln l : nth_opt f ln = Some l -> line_ok l.
Proof.
  rewrite nth_opt_nth_error. intros H. apply nth_error_In in H.
  rewrite Forall_forall in f_ok. auto.
Qed.

(* ---- the evaluator on the directives -D writes ---- *)
Lemma classify_ifdef n : classify sym (mkLine (bs "#ifdef " ++ sym) n) = KIfdef.
Proof. unfold classify. cbn [txt]. rewrite str_eqb_refl. reflexivity. Qed.

Lemma classify_ifndef n : classify sym (mkLine (bs "#ifndef " ++ sym) n) = KIfndef.
Proof.
  unfold classify. cbn [txt]. rewrite str_eqb_refl.
  replace (str_eqb (bs "#ifndef " ++ sym) (bs "#ifdef " ++ sym)) with false; [reflexivity|].
  rewrite bs_ifdef, bs_ifndef. reflexivity.
Qed.

Lemma classify_else n : classify sym (mkLine (bs "#else" ++ []) n) = KElse.
Proof.
  unfold classify. cbn [txt]. rewrite app_nil_r, str_eqb_refl.
  replace (str_eqb (bs "#else") (bs "#ifdef " ++ sym)) with false by (rewrite bs_ifdef, bs_else; reflexivity).
  replace (str_eqb (bs "#else") (bs "#ifndef " ++ sym)) with false by (rewrite bs_ifndef, bs_else; reflexivity).
  reflexivity.
Qed.

Lemma classify_endif n : classify sym (mkLine (bs "#endif" ++ []) n) = KEndif.
Proof.
  unfold classify. cbn [txt]. rewrite app_nil_r, str_eqb_refl.
  replace (str_eqb (bs "#endif") (bs "#ifdef " ++ sym)) with false by (rewrite bs_ifdef, bs_endif; reflexivity).
  replace (str_eqb (bs "#endif") (bs "#ifndef " ++ sym)) with false by (rewrite bs_ifndef, bs_endif; reflexivity).
  replace (str_eqb (bs "#endif") (bs "#else")) with false by reflexivity.
  reflexivity.
Qed.

Lemma run_ifdef d st n rest :
  cpp_run sym d st (mkLine (bs "#ifdef " ++ sym) n :: rest) = cpp_run sym d (d :: st) rest.
Proof. cbn [cpp_run]. rewrite classify_ifdef. reflexivity. Qed.
Lemma run_ifndef d st n rest :
  cpp_run sym d st (mkLine (bs "#ifndef " ++ sym) n :: rest) = cpp_run sym d (negb d :: st) rest.
Proof. cbn [cpp_run]. rewrite classify_ifndef. reflexivity. Qed.
Lemma run_else d b st n rest :
  cpp_run sym d (b :: st) (mkLine (bs "#else" ++ []) n :: rest) = cpp_run sym d (negb b :: st) rest.
Proof. cbn [cpp_run]. rewrite classify_else. reflexivity. Qed.
Lemma run_endif d b st n rest :
  cpp_run sym d (b :: st) (mkLine (bs "#endif" ++ []) n :: rest) = cpp_run sym d st rest.
Proof. cbn [cpp_run]. rewrite classify_endif. reflexivity. Qed.
Lemma run_text d st l rest : plain l ->
  cpp_run sym d st (l :: rest) =
  match cpp_run sym d st rest with Some (o, s) => Some (if all_active st then l :: o else o, s) | None => None end.
Proof. intros H. cbn [cpp_run]. rewrite H. reflexivity. Qed.

Lemma cpp_run_app d : forall a st b,
  cpp_run sym d st (a ++ b) =
  match cpp_run sym d st a with
  | Some (oa, sa) => match cpp_run sym d sa b with Some (ob, sb) => Some (oa ++ ob, sb) | None => None end
  | None => None
  end.
Proof.
  induction a as [|l a IH]; intros st b; cbn [app].
  - cbn [cpp_run]. destruct (cpp_run sym d st b) as [[ob sb]|]; reflexivity.
  - cbn [cpp_run]. destruct (classify sym l).
    + apply IH.
    + apply IH.
    + destruct st; [reflexivity|apply IH].
    + destruct st; [reflexivity|apply IH].
    + rewrite IH. destruct (cpp_run sym d st a) as [[oa sa]|]; [|reflexivity].
      destruct (cpp_run sym d sa b) as [[ob sb]|]; [|reflexivity]. destruct (all_active st); reflexivity.
Qed.

Lemma run_plain d : forall ls, Forall plain ls -> cpp_run sym d [] ls = Some (ls, []).
Proof.
  induction ls as [|l ls IH]; intros H; [reflexivity|]. inversion H; subst.
  rewrite run_text by assumption. rewrite IH by assumption. reflexivity.
Qed.

(* ---- one hunk ---- *)
Definition stack_of (st : dstate) (d : bool) : list bool :=
  match st with DOutside => [] | DIfndef => [negb d] | DIfdef => [d] | DElseNew => [d] | DElseOld => [negb d] end.

(* the original lines a hunk walks over *)
Fixpoint old_walk (ln : nat) (b : list pline) : list line :=
  match b with
  | [] => []
  | p :: r => match pop p with
              | Add => old_walk ln r
              | _ => (match nth_opt f ln with Some l => [l] | None => [] end) ++ old_walk (S ln) r
              end
  end.

Definition expected (d : bool) (ln : nat) (b : list pline) : list line :=
  if d then fst (write_hunk f ln b) else old_walk ln b.

Definition opt1 (x : option line) : list line := match x with Some l => [l] | None => [] end.

Lemma expected_ctx d ln p r : pop p = Ctx -> expected d ln (p :: r) = opt1 (nth_opt f ln) ++ expected d (S ln) r.
Proof.
  intros E. unfold expected. destruct d; cbn [write_hunk old_walk]; rewrite E; [|reflexivity].
  destruct (write_hunk f (S ln) r) as [o e]. cbn [fst]. destruct (nth_opt f ln); reflexivity.
Qed.
Lemma expected_add d ln p r : pop p = Add -> expected d ln (p :: r) = (if d then [pl p] else []) ++ expected d ln r.
Proof.
  intros E. unfold expected. destruct d; cbn [write_hunk old_walk]; rewrite E; [|reflexivity].
  destruct (write_hunk f ln r) as [o e]. reflexivity.
Qed.
Lemma expected_del d ln p r : pop p = Del -> expected d ln (p :: r) = (if d then [] else opt1 (nth_opt f ln)) ++ expected d (S ln) r.
Proof. intros E. unfold expected. destruct d; cbn [write_hunk old_walk]; rewrite E; reflexivity. Qed.

Lemma snd_write_hunk ln b : snd (write_hunk f ln b) = ln + length (old_side b).
Proof. rewrite write_hunk_splice. reflexivity. Qed.

Lemma wd_ok last dir s n : last <> NoNL -> write_directive last dir s n = [mkLine (dir ++ s) (nl_or_lf n)].
Proof. intros H. unfold write_directive. destruct last; [reflexivity|reflexivity|contradiction]. Qed.

Lemma nl_or_lf_ok n : nl_or_lf n <> NoNL.
Proof. destruct n; discriminate. Qed.

Lemma loop_eval d : forall b ln st last o e st' last',
  last <> NoNL -> body_ok b ->
  write_define_loop f sym b ln st last = Ok (o, e, st', last') ->
  cpp_run sym d (stack_of st d) o = Some (expected d ln b, stack_of st' d) /\ e = ln + length (old_side b) /\ last' <> NoNL.
Proof.
  induction b as [|p r IH]; intros ln st last o e st' last' Hl Hb H.
  - cbn in H. inversion H; subst. cbn. destruct d; cbn; repeat split; auto.
  - cbn [write_define_loop] in H. inversion Hb as [|? ? Hp Hr]; subst. destruct Hp as [Hpp Hpc].
    rewrite old_side_cons. unfold is_add.
    destruct (pop p) eqn:Ep.
    + (* context *)
      rewrite (expected_ctx d ln p r Ep).
      destruct (nth_opt f ln) as [l|] eqn:En.
      * destruct (nth_ok _ _ En) as [Lp Lc].
        destruct (write_define_loop f sym r (S ln) DOutside (nl l)) as [[[[o1 e1] st1] l1]|ex] eqn:R; cbn [rbind] in H; [|discriminate].
        inversion H; subst; clear H.
        destruct (IH _ _ _ _ _ _ _ Lc Hr R) as (A & B & C). cbn [stack_of] in A.
        split; [|split; [cbn [length]; lia|exact C]].
        destruct st; cbn [dstate_outside stack_of app opt1];
          try (rewrite (wd_ok _ _ _ _ Hl); cbn [app]; rewrite run_endif);
          rewrite (run_text _ _ _ _ Lp), A; reflexivity.
      * apply (IH _ _ _ _ _ _ _ Hl Hr) in H. destruct H as (A & B & C). cbn [opt1 app].
        split; [exact A|split; [cbn [length]; lia|exact C]].
    + (* addition *)
      rewrite (expected_add d ln p r Ep).
      destruct st; cbn [stack_of] in *.
      * destruct (write_define_loop f sym r ln DIfdef (nl (pl p))) as [[[[o1 e1] st1] l1]|ex] eqn:R; cbn [rbind] in H; [|discriminate].
        inversion H; subst; clear H. destruct (IH _ _ _ _ _ _ _ Hpc Hr R) as (A & B & C). cbn [stack_of] in A.
        split; [|split; [exact B|exact C]].
        rewrite (wd_ok _ _ _ _ Hl). cbn [app]. rewrite run_ifdef, (run_text _ _ _ _ Hpp), A. destruct d; reflexivity.
      * destruct (write_define_loop f sym r ln DElseNew (nl (pl p))) as [[[[o1 e1] st1] l1]|ex] eqn:R; cbn [rbind] in H; [|discriminate].
        inversion H; subst; clear H. destruct (IH _ _ _ _ _ _ _ Hpc Hr R) as (A & B & C). cbn [stack_of] in A.
        split; [|split; [exact B|exact C]].
        rewrite (wd_ok _ _ _ _ Hl). cbn [app]. rewrite run_else, Bool.negb_involutive, (run_text _ _ _ _ Hpp), A. destruct d; reflexivity.
      * destruct (write_define_loop f sym r ln DIfdef (nl (pl p))) as [[[[o1 e1] st1] l1]|ex] eqn:R; cbn [rbind] in H; [|discriminate].
        inversion H; subst; clear H. destruct (IH _ _ _ _ _ _ _ Hpc Hr R) as (A & B & C). cbn [stack_of] in A.
        split; [|split; [exact B|exact C]].
        cbn [app]. rewrite (run_text _ _ _ _ Hpp), A. destruct d; reflexivity.
      * destruct (write_define_loop f sym r ln DElseNew (nl (pl p))) as [[[[o1 e1] st1] l1]|ex] eqn:R; cbn [rbind] in H; [|discriminate].
        inversion H; subst; clear H. destruct (IH _ _ _ _ _ _ _ Hpc Hr R) as (A & B & C). cbn [stack_of] in A.
        split; [|split; [exact B|exact C]].
        cbn [app]. rewrite (run_text _ _ _ _ Hpp), A. destruct d; reflexivity.
      * destruct (write_define_loop f sym r ln DIfdef (nl (pl p))) as [[[[o1 e1] st1] l1]|ex] eqn:R; cbn [rbind] in H; [|discriminate].
        inversion H; subst; clear H. destruct (IH _ _ _ _ _ _ _ Hpc Hr R) as (A & B & C). cbn [stack_of] in A.
        split; [|split; [exact B|exact C]].
        rewrite (wd_ok _ _ _ _ Hl). cbn [app].
        change (35%N :: 105%N :: 102%N :: 100%N :: 101%N :: 102%N :: 32%N :: sym) with (bs "#ifdef " ++ sym).
        rewrite run_endif, run_ifdef, (run_text _ _ _ _ Hpp), A. destruct d; reflexivity.
    + (* removal *)
      rewrite (expected_del d ln p r Ep).
      destruct (nth_opt f ln) as [l|] eqn:En; [|discriminate].
      destruct (nth_ok _ _ En) as [Lp Lc]. cbn [opt1].
      destruct st; cbn [stack_of] in *.
      * destruct (write_define_loop f sym r (S ln) DIfndef (nl l)) as [[[[o1 e1] st1] l1]|ex] eqn:R; cbn [rbind] in H; [|discriminate].
        inversion H; subst; clear H. destruct (IH _ _ _ _ _ _ _ Lc Hr R) as (A & B & C). cbn [stack_of] in A.
        split; [|split; [cbn [length]; lia|exact C]].
        rewrite (wd_ok _ _ _ _ Hl). cbn [app]. rewrite run_ifndef, (run_text _ _ _ _ Lp), A. destruct d; reflexivity.
      * destruct (write_define_loop f sym r (S ln) DIfndef (nl l)) as [[[[o1 e1] st1] l1]|ex] eqn:R; cbn [rbind] in H; [|discriminate].
        inversion H; subst; clear H. destruct (IH _ _ _ _ _ _ _ Lc Hr R) as (A & B & C). cbn [stack_of] in A.
        split; [|split; [cbn [length]; lia|exact C]].
        cbn [app]. rewrite (run_text _ _ _ _ Lp), A. destruct d; reflexivity.
      * destruct (write_define_loop f sym r (S ln) DElseOld (nl l)) as [[[[o1 e1] st1] l1]|ex] eqn:R; cbn [rbind] in H; [|discriminate].
        inversion H; subst; clear H. destruct (IH _ _ _ _ _ _ _ Lc Hr R) as (A & B & C). cbn [stack_of] in A.
        split; [|split; [cbn [length]; lia|exact C]].
        rewrite (wd_ok _ _ _ _ Hl). cbn [app]. rewrite run_else, (run_text _ _ _ _ Lp), A. destruct d; reflexivity.
      * destruct (write_define_loop f sym r (S ln) DIfndef (nl l)) as [[[[o1 e1] st1] l1]|ex] eqn:R; cbn [rbind] in H; [|discriminate].
        inversion H; subst; clear H. destruct (IH _ _ _ _ _ _ _ Lc Hr R) as (A & B & C). cbn [stack_of] in A.
        split; [|split; [cbn [length]; lia|exact C]].
        rewrite (wd_ok _ _ _ _ Hl). cbn [app].
        change (35%N :: 105%N :: 102%N :: 110%N :: 100%N :: 101%N :: 102%N :: 32%N :: sym) with (bs "#ifndef " ++ sym).
        rewrite run_endif, run_ifndef, (run_text _ _ _ _ Lp), A. destruct d; reflexivity.
      * destruct (write_define_loop f sym r (S ln) DElseOld (nl l)) as [[[[o1 e1] st1] l1]|ex] eqn:R; cbn [rbind] in H; [|discriminate].
        inversion H; subst; clear H. destruct (IH _ _ _ _ _ _ _ Lc Hr R) as (A & B & C). cbn [stack_of] in A.
        split; [|split; [cbn [length]; lia|exact C]].
        cbn [app]. rewrite (run_text _ _ _ _ Lp), A. destruct d; reflexivity.
Qed.

Lemma hunk_eval d ln b o e :
  body_ok b -> write_define_hunk f sym ln b = Ok (o, e) ->
  cpp_run sym d [] o = Some (expected d ln b, []) /\ e = ln + length (old_side b).
Proof.
  intros Hb. unfold write_define_hunk.
  destruct (write_define_loop f sym b ln DOutside LF) as [[[[o1 e1] st1] l1]|ex] eqn:R; cbn [rbind]; [|discriminate].
  assert (HLF : LF <> NoNL) by discriminate.
  destruct (loop_eval d _ _ _ _ _ _ _ _ HLF Hb R) as (A & B & C). cbn [stack_of] in A.
  destruct st1; cbn [dstate_outside]; intros E; inversion E; clear E; subst o e; (split; [|exact B]); [exact A| | | |];
    rewrite cpp_run_app, A, (wd_ok _ _ _ _ C); cbn [stack_of]; rewrite run_endif; cbn [cpp_run]; rewrite app_nil_r; reflexivity.
Qed.

(* the original lines walked over are the lines of the file between the two cursors *)
Lemma skipn_nth_gen : forall (l : list line) ln, skipn ln l = opt1 (nth_opt l ln) ++ skipn (S ln) l.
Proof. induction l as [|x l IH]; intros [|n]; cbn; try reflexivity. apply IH. Qed.
Lemma skipn_nth ln : skipn ln f = opt1 (nth_opt f ln) ++ skipn (S ln) f.
Proof. apply skipn_nth_gen. Qed.

Lemma nth_none_skipn {A} : forall (l : list A) n, nth_opt l n = None -> skipn (S n) l = [].
Proof.
  induction l as [|x l IH]; intros n H; [reflexivity|]. destruct n as [|n]; [discriminate|]. cbn in H. cbn [skipn]. apply IH in H. exact H.
Qed.

Lemma old_walk_range : forall b ln, old_walk ln b = copy_range f ln (ln + length (old_side b)).
Proof.
  unfold copy_range. induction b as [|p r IH]; intros ln.
  - cbn. rewrite Nat.add_0_r, Nat.sub_diag. reflexivity.
  - cbn [old_walk]. rewrite old_side_cons. unfold is_add.
    assert (Step : opt1 (nth_opt f ln) ++ firstn (S ln + length (old_side r) - S ln) (skipn (S ln) f)
                   = firstn (ln + S (length (old_side r)) - ln) (skipn ln f)).
    { rewrite (skipn_nth ln). replace (ln + S (length (old_side r)) - ln) with (S (S ln + length (old_side r) - S ln)) by lia.
      destruct (nth_opt f ln) eqn:En; cbn [opt1 app firstn]; [reflexivity|].
      rewrite (nth_none_skipn _ _ En). destruct (_ - _); reflexivity. }
    destruct (pop p) eqn:E; cbn [length].
    + rewrite IH. exact Step.
    + apply IH.
    + rewrite IH. exact Step.
Qed.

(* ---- the whole run, in lock step with the same run without -D ---- *)
Definition with_out (s : astate) (x : list line) : astate :=
  mkAS x (a_rej s) (a_rejected s) (a_ln s) (a_o2n s) (a_offerr s) (a_skip s) (a_perfect s) (a_msgs s) (a_hunks s).

Definition out_rel (s : astate) (x : list line) : Prop :=
  cpp_run sym true [] (a_out s) = Some (x, []) /\ cpp_run sym false [] (a_out s) = Some (firstn (a_ln s) f, []).

Lemma firstn_add {A} : forall a c (l : list A), firstn (a + c) l = firstn a l ++ firstn c (skipn a l).
Proof. induction a as [|a IH]; intros c [|x l]; cbn; try reflexivity; [destruct c; reflexivity|]. f_equal. apply IH. Qed.

Lemma firstn_copy a b : a <= b -> firstn a f ++ copy_range f a b = firstn b f.
Proof. intros H. unfold copy_range. rewrite <- firstn_add. f_equal. lia. Qed.

Lemma f_plain : Forall plain f.
Proof. eapply Forall_impl; [|exact f_ok]. intros a [H _]. exact H. Qed.

Lemma copy_range_plain a b : Forall plain (copy_range f a b).
Proof.
  unfold copy_range. pose proof f_plain as H. rewrite Forall_forall in *. intros x I.
  apply H. rewrite <- (firstn_skipn a f). apply in_or_app. right.
  rewrite <- (firstn_skipn (b - a) (skipn a f)). apply in_or_app. left. exact I.
Qed.

Variable o : options.
Hypothesis o_def : define_macro o = sym.
Hypothesis sym_ne : sym <> [].

Lemma write_reject_nd p k h : write_reject (no_define o) p k h = write_reject o p k h.
Proof. reflexivity. Qed.

Lemma apply_one_sim p k s x h loc s1 :
  out_rel s x -> body_ok (body h) -> (forall l, loc = Some l -> a_ln s <= lline l) ->
  apply_one o p f k s h loc = Ok s1 ->
  exists x1, apply_one (no_define o) p f k (with_out s x) h loc = Ok (with_out s1 x1) /\ out_rel s1 x1.
Proof.
  intros [Rt Rf] Hb Hle. unfold apply_one. rewrite o_def.
  change (define_macro (no_define o)) with (@nil N). change (verbose (no_define o)) with (verbose o).
  assert (Hn : is_nil sym = false) by (destruct sym; [contradiction|reflexivity]). rewrite Hn. cbn [is_nil].
  rewrite write_reject_nd.
  change (a_skip (with_out s x)) with (a_skip s). change (a_rejected (with_out s x)) with (a_rejected s).
  change (a_o2n (with_out s x)) with (a_o2n s).
  assert (Rej : forall s1,
    (do s1 <- (do t <- write_reject o p (a_rejected s) (shift_hunk h (a_o2n s));
       Ok (mkAS (a_out s) (a_rej s ++ t) (S (a_rejected s)) (a_ln s) (a_o2n s) (a_offerr s) (a_skip s) (a_perfect s) (a_msgs s)
                (a_hunks s ++ [shift_hunk h (a_o2n s)]), shift_hunk h (a_o2n s)));
     let '(s2, hcur) := s1 in
     let perfect_h := loc_perfect loc in
     let msgs := if verbose o || (negb perfect_h && negb (a_skip s2))
              then a_msgs s2 ++ print_hunk_statistics k (a_skip s2) loc hcur (a_o2n s2) (a_offerr s2) else a_msgs s2 in
     let o2n := if negb (a_skip s2) && loc_found loc then (a_o2n s2 + (rcount (newr hcur) - rcount (oldr hcur)))%Z else a_o2n s2 in
     Ok (mkAS (a_out s2) (a_rej s2) (a_rejected s2) (a_ln s2) o2n (a_offerr s2) (a_skip s2) (a_perfect s2 && perfect_h) msgs (a_hunks s2))) = Ok s1 ->
    exists x1,
    (do s1 <- (do t <- write_reject o p (a_rejected s) (shift_hunk h (a_o2n s));
       Ok (mkAS (a_out (with_out s x)) (a_rej (with_out s x) ++ t) (S (a_rejected s)) (a_ln (with_out s x)) (a_o2n s) (a_offerr (with_out s x))
                (a_skip s) (a_perfect (with_out s x)) (a_msgs (with_out s x))
                (a_hunks (with_out s x) ++ [shift_hunk h (a_o2n s)]), shift_hunk h (a_o2n s)));
     let '(s2, hcur) := s1 in
     let perfect_h := loc_perfect loc in
     let msgs := if verbose o || (negb perfect_h && negb (a_skip s2))
              then a_msgs s2 ++ print_hunk_statistics k (a_skip s2) loc hcur (a_o2n s2) (a_offerr s2) else a_msgs s2 in
     let o2n := if negb (a_skip s2) && loc_found loc then (a_o2n s2 + (rcount (newr hcur) - rcount (oldr hcur)))%Z else a_o2n s2 in
     Ok (mkAS (a_out s2) (a_rej s2) (a_rejected s2) (a_ln s2) o2n (a_offerr s2) (a_skip s2) (a_perfect s2 && perfect_h) msgs (a_hunks s2)))
     = Ok (with_out s1 x1) /\ out_rel s1 x1).
  { intros s1'. destruct (write_reject o p (a_rejected s) (shift_hunk h (a_o2n s))) as [t|ex]; cbn [rbind]; [|discriminate].
    intros [= <-]. exists x. split; [reflexivity|]. split; assumption. }
  destruct loc as [l|]; [|apply Rej].
  destruct (a_skip s) eqn:Hs; cbn [negb]; [apply Rej|].
  destruct (write_define_hunk f sym (lline l) (body h)) as [[wo e]|ex] eqn:W; cbn [rbind]; [|discriminate].
  destruct (hunk_eval true _ _ _ _ Hb W) as [Et Ee]. destruct (hunk_eval false _ _ _ _ Hb W) as [Ef _].
  rewrite write_hunk_splice. cbn [fst snd].
  intros [= <-]. exists (x ++ copy_range f (a_ln s) (lline l) ++ splice f (lline l) (body h)).
  split.
  - unfold with_out. cbn. rewrite Ee. reflexivity.
  - unfold out_rel. cbn [a_out a_ln]. split.
    + rewrite cpp_run_app, Rt, cpp_run_app, (run_plain true _ (copy_range_plain _ _)), Et.
      unfold expected. rewrite write_hunk_splice. cbn [fst]. reflexivity.
    + rewrite cpp_run_app, Rf, cpp_run_app, (run_plain false _ (copy_range_plain _ _)), Ef.
      unfold expected. rewrite old_walk_range, Ee. rewrite app_assoc.
      rewrite firstn_copy by (apply Hle; reflexivity). rewrite firstn_copy by lia. reflexivity.
Qed.

Lemma cursor_le p h ws off F lo l : locate_for p f h ws off F lo = Some l -> lo <= lline l.
Proof. intros H. apply locate_for_some in H. eapply locate_cursor_le; eauto. Qed.

Lemma apply_rest_sim p : forall hs k s x s',
  out_rel s x -> Forall (fun h => body_ok (body h)) hs ->
  apply_rest o p f k s hs = Ok s' ->
  exists x', apply_rest (no_define o) p f k (with_out s x) hs = Ok (with_out s' x') /\ out_rel s' x'.
Proof.
  induction hs as [|h hs IH]; intros k s x s' R Hb; cbn [apply_rest].
  - intros [= <-]. exists x. split; [reflexivity|exact R].
  - inversion Hb as [|? ? Hh Hr]; subst.
    set (loc := locate_for p f h (ignore_whitespace o) (a_offerr s) (max_fuzz o) (a_ln s)).
    change (locate_for p f h (ignore_whitespace (no_define o)) (a_offerr (with_out s x)) (max_fuzz (no_define o)) (a_ln (with_out s x))) with loc.
    destruct (apply_one o p f k s h loc) as [s1|ex] eqn:E1; cbn [rbind]; [|discriminate].
    intros E2.
    destruct (apply_one_sim p k s x h loc s1 R Hh (fun l H => cursor_le _ _ _ _ _ _ _ H) E1) as (x1 & E1' & R1).
    rewrite E1'. cbn [rbind]. apply (IH _ _ _ _ R1 Hr E2).
Qed.

Lemma body_ok_reverse b : body_ok b -> body_ok (map reverse_pline b).
Proof. unfold body_ok. intros H. apply Forall_map. eapply Forall_impl; [|exact H]. intros a Ha. exact Ha. Qed.

Lemma hunks_ok_reverse hs : Forall (fun h => body_ok (body h)) hs -> Forall (fun h => body_ok (body h)) (map reverse_hunk hs).
Proof. intros H. apply Forall_map. eapply Forall_impl; [|exact H]. intros h Hh. apply body_ok_reverse. exact Hh. Qed.

Lemma apply_first_sim p hs s x s' q :
  out_rel s x -> Forall (fun h => body_ok (body h)) hs ->
  apply_first o p f s hs = Ok (s', q) ->
  exists x', apply_first (no_define o) p f (with_out s x) hs = Ok (with_out s' x', q) /\ out_rel s' x'.
Proof.
  intros R Hb. destruct hs as [|h r]; cbn [apply_first].
  - intros [= <- <-]. exists x. split; [reflexivity|exact R].
  - inversion Hb as [|? ? Hh Hr]; subst.
    set (loc := locate_for p f h (ignore_whitespace o) (a_offerr s) (max_fuzz o) (a_ln s)).
    change (locate_for p f h (ignore_whitespace (no_define o)) (a_offerr (with_out s x)) (max_fuzz (no_define o)) (a_ln (with_out s x))) with loc.
    change (should_check_if_patch_is_reversed loc (no_define o)) with (should_check_if_patch_is_reversed loc o).
    assert (Plain : forall p s0 x0 h0 loc0 r0 k, out_rel s0 x0 -> body_ok (body h0) -> Forall (fun h => body_ok (body h)) r0 ->
               (forall l, loc0 = Some l -> a_ln s0 <= lline l) ->
               with_patch p (do s1 <- apply_one o p f 0 s0 h0 loc0; apply_rest o p f k s1 r0) = Ok (s', q) ->
               exists x', with_patch p (do s1 <- apply_one (no_define o) p f 0 (with_out s0 x0) h0 loc0; apply_rest (no_define o) p f k s1 r0) = Ok (with_out s' x', q) /\ out_rel s' x').
    { clear loc. intros p0 s0 x0 h0 loc0 r0 k R0 Hh0 Hr0 Hle. unfold with_patch.
      destruct (apply_one o p0 f 0 s0 h0 loc0) as [s1|ex] eqn:E1; cbn [rbind]; [|discriminate].
      destruct (apply_rest o p0 f k s1 r0) as [s2|ex] eqn:E2; cbn [rbind]; [|discriminate]. intros [= -> <-].
      destruct (apply_one_sim p0 0 s0 x0 h0 loc0 s1 R0 Hh0 Hle E1) as (x1 & E1' & R1). rewrite E1'. cbn [rbind].
      destruct (apply_rest_sim p0 _ _ _ _ _ R1 Hr0 E2) as (x2 & E2' & R2). rewrite E2'. cbn [rbind]. exists x2. split; [reflexivity|exact R2]. }
    destruct (should_check_if_patch_is_reversed loc o).
    + set (rloc := locate_hunk f (reverse_hunk h) (ignore_whitespace o) (a_offerr s) (max_fuzz o) (a_ln s)).
      change (locate_hunk f (reverse_hunk h) (ignore_whitespace (no_define o)) (a_offerr (with_out s x)) (max_fuzz (no_define o)) (a_ln (with_out s x))) with rloc.
      change (handle_probably_reversed_patch (no_define o)) with (handle_probably_reversed_patch o).
      destruct (if loc_perfect rloc || negb (loc_found loc) && loc_found rloc then handle_probably_reversed_patch o else Ok ([], RHApplyAnyway)) as [dd|ex];
        cbn [rbind]; [|discriminate].
      destruct (snd dd).
      * apply (Plain (reverse_patch p) (mkAS (a_out s) (a_rej s) (a_rejected s) (a_ln s) (a_o2n s) (a_offerr s) (a_skip s) (a_perfect s) (a_msgs s ++ fst dd) (a_hunks s)) x
                       (reverse_hunk h) rloc);
          [exact R|apply body_ok_reverse; exact Hh|apply hunks_ok_reverse; exact Hr|].
        intros l Hl. eapply locate_cursor_le. exact Hl.
      * apply (Plain p (mkAS (a_out s) (a_rej s) (a_rejected s) (a_ln s) (a_o2n s) (a_offerr s) true (a_perfect s) (a_msgs s ++ fst dd) (a_hunks s)) x);
          [exact R|exact Hh|exact Hr|]. intros l Hl. eapply cursor_le. exact Hl.
      * apply (Plain p (mkAS (a_out s) (a_rej s) (a_rejected s) (a_ln s) (a_o2n s) (a_offerr s) (a_skip s) (a_perfect s) (a_msgs s ++ fst dd) (a_hunks s)) x);
          [exact R|exact Hh|exact Hr|]. intros l Hl. eapply cursor_le. exact Hl.
    + apply Plain; [exact R|exact Hh|exact Hr|]. intros l Hl. eapply cursor_le. exact Hl.
Qed.

End Define.

(* -D: evaluated with the symbol defined the output is exactly what the same run writes without -D; evaluated with the symbol
   undefined it is exactly the original file; every conditional opened is closed (cpp_eval answers at all); the verdicts,
   the reject file and the messages are those of the run without -D. *)
Theorem define_eval o f p r :
  define_macro o <> [] ->
  Forall (line_ok (define_macro o)) f ->
  Forall (fun h => body_ok (define_macro o) (body h)) (hunks p) ->
  apply_patch o f p = Ok r ->
  exists r', apply_patch (no_define o) f p = Ok r' /\
             cpp_eval (define_macro o) true (r_out r) = Some (r_out r') /\
             cpp_eval (define_macro o) false (r_out r) = Some f /\
             r_failed r' = r_failed r /\ r_rej r' = r_rej r /\ r_msgs r' = r_msgs r /\ r_skipped r' = r_skipped r.
Proof.
  intros Hne Hf Hb. unfold apply_patch. change (reverse_patch_opt (no_define o)) with (reverse_patch_opt o).
  set (p1 := if reverse_patch_opt o then reverse_patch p else p).
  assert (Hb1 : Forall (fun h => body_ok (define_macro o) (body h)) (hunks p1)).
  { unfold p1. destruct (reverse_patch_opt o); [|exact Hb]. cbn [reverse_patch hunks]. apply hunks_ok_reverse. exact Hb. }
  set (s0 := mkAS [] [] 0 0 0%Z 0%Z false true [] []).
  destruct (apply_first o p1 f s0 (hunks p1)) as [[s q]|ex] eqn:E; cbn [rbind]; [|discriminate].
  intros [= <-].
  assert (R0 : out_rel (define_macro o) f s0 []) by (split; reflexivity).
  destruct (apply_first_sim (define_macro o) f Hf o eq_refl Hne p1 (hunks p1) s0 [] s q R0 Hb1 E) as (x' & E' & [Rt Rf]).
  change (with_out s0 []) with s0 in E'. rewrite E'. cbn [rbind fst snd].
  eexists. split; [reflexivity|]. cbn [r_out r_failed r_rej r_msgs r_skipped with_out a_out a_ln a_rej a_rejected a_msgs a_skip].
  assert (Pl : forall d, cpp_run (define_macro o) d [] (skipn (a_ln s) f) = Some (skipn (a_ln s) f, [])).
  { intros d. apply run_plain. pose proof (f_plain _ _ Hf) as H. rewrite Forall_forall in *. intros y I. apply H.
    rewrite <- (firstn_skipn (a_ln s) f). apply in_or_app. right. exact I. }
  unfold cpp_eval. rewrite !cpp_run_app, Rt, Rf, !Pl. rewrite firstn_skipn. repeat split; reflexivity.
Qed.
