(* Locator.v — src/locator.cpp, function for function.  Definitions only.
   Line positions inside the search loops are provably non-negative (they start at
   max(guess, min_line) resp. end at min_line, and min_line — the write cursor of apply_patch —
   is a natural number), so they are nat here; the stated line, the guess and the offset are Z. *)
From PatchV Require Import Base Lines Hunk.

(* ---- matches_ignoring_whitespace (locator.cpp:11-61) ---- *)
Fixpoint drop_ws (s : list N) : list N :=
  match s with
  | c :: r => if is_whitespace c then drop_ws r else s
  | [] => []
  end.

(* One iteration of the while(true) loop; [inl r] = return r, [inr (a', b')] = continue. *)
Definition mws_step (a b : list N) : bool + (list N * list N) :=
  match b with
  | [] =>
      match a with
      | [] => inl true
      | ca :: ra => if is_whitespace ca then inl (is_nil (drop_ws ra)) else inl false
      end
  | cb :: rb =>
      if is_whitespace cb then
        let b' := drop_ws rb in
        match a with
        | [] => inl (is_nil b')
        | ca :: ra =>
            if negb (is_whitespace ca) then inl false
            else let a' := drop_ws ra in
                 if is_nil a' then inl (is_nil b')
                 else if is_nil b' then inl false
                 else inr (a', b')
        end
      else
        match a with
        | [] => inl false
        | ca :: ra => if N.eqb ca cb then inr (ra, rb) else inl false
        end
  end.

Fixpoint mws_loop (fuel : nat) (a b : list N) : bool :=
  match fuel with
  | O => false
  | S f => match mws_step a b with
           | inl r => r
           | inr (a', b') => mws_loop f a' b'
           end
  end.
Definition matches_ignoring_whitespace (a b : list N) : bool := mws_loop (S (length b)) a b.

(* ---- matches (locator.cpp:63-81) ---- *)
Definition matches (l1 l2 : line) (ignore_ws : bool) : bool :=
  let newline_match := newline_eqb (nl l1) (nl l2) in
  let content_match := str_eqb (txt l1) (txt l2) in
  if newline_match && content_match then true
  else if negb ignore_ws then false
  else if content_match then true
  else matches_ignoring_whitespace (txt l1) (txt l2).

(* ---- expected_line_number (locator.cpp:83-89) ---- *)
Definition expected_line_number (h : hunk) : Z :=
  if Z.eqb (rcount (oldr h)) 0 then sadd (rstart (oldr h)) 1 else rstart (oldr h).

(* ---- locate_hunk ---- *)
Record location := mkLoc { lline : nat; lfuzz : nat; loffset : Z }.

Fixpoint prefix_ctx (l : list pline) : nat :=
  match l with
  | p :: r => if is_ctx p then S (prefix_ctx r) else O
  | [] => O
  end.
Definition suffix_ctx (l : list pline) : nat := prefix_ctx (rev l).

(* hunk_matches_starting_from_line, after "line += prefix_fuzz" and restricted to the
   sub-range [begin()+prefix_fuzz, end()-suffix_fuzz) of the hunk's lines *)
Fixpoint match_from (ws : bool) (content : list line) (hl : list pline) : bool :=
  match hl with
  | [] => true
  | p :: r =>
      if is_add p then match_from ws content r
      else match content with
           | [] => false                                      (* static_cast<size_t>(line) >= content.size() *)
           | c :: cr => if matches c (pl p) ws then match_from ws cr r else false
           end
  end.

Definition trim (pf sf : nat) (l : list pline) : list pline :=
  firstn (length l - pf - sf) (skipn pf l).

(* [content] from line pos+pf on is compared with the hunk lines [pf, n-sf) *)
Definition hunk_matches_at (ws : bool) (content : list line) (h : hunk) (pf sf : nat) (pos : nat) : bool :=
  match_from ws (skipn (pos + pf) content) (trim pf sf (body h)).

Fixpoint scan_fwd (test : nat -> bool) (pos fuel : nat) : option nat :=
  match fuel with
  | O => None
  | S f => if test pos then Some pos else scan_fwd test (S pos) f
  end.
Fixpoint scan_bwd (test : nat -> bool) (lo cnt : nat) : option nat :=   (* lo+cnt-1 ... lo *)
  match cnt with
  | O => None
  | S c => if test (lo + c) then Some (lo + c) else scan_bwd test lo c
  end.

(* one fuzz level: forward from max(guess, lo), then backward from min(guess, size)-1 down to lo *)
Definition search_level (test : nat -> bool) (size : nat) (guess : Z) (lo : nat) : option nat :=
  (* max(guess, lo), capped at size: a start beyond the file means zero iterations, and the cap keeps
     the unary position small however large the stated line is *)
  let s := Z.to_nat (Z.min (Z.max guess (Z.of_nat lo)) (Z.of_nat size)) in
  match scan_fwd test s (size - s) with
  | Some p => Some p
  | None => scan_bwd test lo (Z.to_nat (Z.min guess (Z.of_nat size) - Z.of_nat lo)%Z)
  end.

(* the loop over fuzz = fz, fz+1, ... (n levels left) *)
Fixpoint fuzz_loop (ws : bool) (content : list line) (h : hunk) (guess : Z) (lo : nat)
                   (pc sc ctx : nat) (n : nat) (fz : nat) : option location :=
  match n with
  | O => None
  | S n' =>
      let sf := fz + sc - ctx in
      let pf := fz + pc - ctx in
      if Nat.leb (length (body h)) (sf + pf) then None
      else match search_level (hunk_matches_at ws content h pf sf) (length content) guess lo with
           | Some p => Some (mkLoc p fz (ssub (Z.of_nat p) guess))
           | None => fuzz_loop ws content h guess lo pc sc ctx n' (S fz)
           end
  end.

Definition locate_hunk (content : list line) (h : hunk) (ws : bool) (offset : Z) (max_fuzz : Z) (lo : nat)
  : option location :=
  let guess := sadd (ssub (expected_line_number h) 1) offset in
  if Z.eqb (rcount (oldr h)) 0 then
    if Z.ltb guess (Z.of_nat lo) || Z.ltb (Z.of_nat (length content)) guess then None
    else Some (mkLoc (Z.to_nat guess) 0 0)
  else
    let pc := prefix_ctx (body h) in
    let sc := suffix_ctx (body h) in
    let ctx := Nat.max pc sc in
    let mf := Z.min max_fuzz (Z.of_nat ctx) in
    fuzz_loop ws content h guess lo pc sc ctx (Z.to_nat (mf + 1)%Z) 0.
