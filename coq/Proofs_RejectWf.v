(* Proofs_RejectWf.v — C13: the well-formedness hypothesis of the reject-file theorems (Proofs_RejectFile.v: `Forall wf_hunk rj`,
   `Forall wf_hunk_c rj` on the SHIFTED rejected hunks) derived from conditions on the INPUT patch.

   applier.cpp moves BOTH starts of a rejected hunk by the net growth d of the hunks applied before it
   (d = sum over the applied earlier hunks of (new count - old count)); since the repair e07e11a a moved start stops at 0
   (shift_start s d = max 0 (sat64 (s + d))).
   Hence (section "since the repair"):
     unified form: a shifted hunk is ALWAYS fit (wf_hunk_shift_any, rejects_always_wf) and the reject file of a patch whose
       hunks are fit for the unified form is always read back (apply_patch_unified_reject_always_reparses): no condition on
       the ranges at all;
     context form: only the upper side is left (start + d + count <= 2^63-1: wf_hunk_c_shift_upper, room_above,
       apply_patch_context_reject_always_reparses; needed: upper_room_needed);
     the hunks read back have their starts shift_start-ed; the shift is the exact one (start + d) exactly inside the rooms
       (shift_start_exact_iff, rejects_exact, rejected_exact, exact_shift_room).
   d lies between -(lines the earlier hunks can remove, net) and +(lines the earlier hunks can add, net):
     shrink h = max 0 (old count - new count),  grow h = max 0 (new count - old count).
   room_below lo hs : every hunk has both starts >= lo + the shrink of the hunks before it;
   room_above hi hs : every hunk has start + count + hi + the grow of the hunks before it <= 2^63-1 on both sides.
   From the shape of a diff:
     increasing_disjoint hs  (old ranges increasing, not overlapping)  gives the OLD half of room_below 0 hs;
     the NEW half (new_room 0 hs: new start >= net number of lines removed before) does NOT follow from what a diff tool
     guarantees (n_is_a_diff, removed_top_new_start_stops_at_zero: a genuine diff whose rejected hunk gets new start 0
     instead of 2 - 5; before the repair the reject file held "+-3" and was refused); it holds for instance when no hunk
     shrinks the file (new_room_no_shrink), or when the starts are consistent and no hunk's new side is shorter than half
     its old side (new_room_of_consistent, genuine_diff).
   A run that takes the patch as reversed works with the reversed hunks: the same conditions are asked of
   map reverse_hunk hs (new ranges increasing and disjoint, old start >= net number of lines added before).
   The room-based theorems (.._room, .._diff_input, .._genuine_diff, .._force) are kept: they are implied by the "always"
   versions as far as reading back goes, and say when the starts read back are exactly start + d. *)
From PatchV Require Import Base Lines Hunk Locator Formatter Options Applier LineParser Parser World Driver
     Spec_Locate Spec_Apply Spec_Names Proofs_Base Proofs_Apply Proofs_Conf Proofs_Lines Proofs_Decimal Proofs_Fuel Proofs_Unified
     Proofs_Filler Proofs_Names Proofs_Rejects Proofs_CtxLines Proofs_CtxMerge Proofs_Context
     Proofs_Sections_Unified Proofs_Whole Proofs_RejectFile.

Local Open Scope Z_scope.

(* ---------- the bounds of the shift ---------- *)
Definition shrink (h : hunk) : Z := Z.max 0 (rcount (oldr h) - rcount (newr h)).
Definition grow (h : hunk) : Z := Z.max 0 (rcount (newr h) - rcount (oldr h)).

Lemma shrink_nonneg h : 0 <= shrink h. Proof. unfold shrink. lia. Qed.
Lemma grow_nonneg h : 0 <= grow h. Proof. unfold grow. lia. Qed.
Lemma growth_bounds h : - shrink h <= rcount (newr h) - rcount (oldr h) <= grow h.
Proof. unfold shrink, grow. lia. Qed.

Lemma shrink_reverse h : shrink (reverse_hunk h) = grow h.
Proof. reflexivity. Qed.
Lemma grow_reverse h : grow (reverse_hunk h) = shrink h.
Proof. reflexivity. Qed.

(* both starts of every hunk are at least lo + the shrink of the hunks before it *)
Fixpoint room_below (lo : Z) (hs : list hunk) : Prop :=
  match hs with
  | [] => True
  | h :: t => lo <= rstart (oldr h) /\ lo <= rstart (newr h) /\ room_below (lo + shrink h) t
  end.

(* both ends of every hunk, moved up by hi + the grow of the hunks before it, stay inside int64 *)
Fixpoint room_above (hi : Z) (hs : list hunk) : Prop :=
  match hs with
  | [] => True
  | h :: t => rstart (oldr h) + rcount (oldr h) + hi <= MAXZ /\ rstart (newr h) + rcount (newr h) + hi <= MAXZ /\
              room_above (hi + grow h) t
  end.

Lemma room_below_weaken : forall hs lo lo', lo' <= lo -> room_below lo hs -> room_below lo' hs.
Proof.
  induction hs as [|h t IH]; intros lo lo' Hl; cbn [room_below]; [auto|].
  intros (A & B & C). split; [lia|]. split; [lia|]. apply (IH (lo + shrink h)); [lia|exact C].
Qed.

Lemma room_above_weaken : forall hs hi hi', hi' <= hi -> room_above hi hs -> room_above hi' hs.
Proof.
  induction hs as [|h t IH]; intros hi hi' Hl; cbn [room_above]; [auto|].
  intros (A & B & C). split; [lia|]. split; [lia|]. apply (IH (hi + grow h)); [lia|exact C].
Qed.

(* ---------- the shifted rejected hunks are well formed ---------- *)
(* unified form: any verdicts, any shift d >= -lo *)
Lemma rejects_wf_unified : forall hs vs d lo,
  Forall wf_hunk hs -> room_below lo hs -> - lo <= d -> Forall wf_hunk (expected_rejects vs hs d).
Proof.
  induction hs as [|h t IH]; intros vs d lo Hwf Hr Hd; [destruct vs as [|[pos fz|] vs]; constructor|].
  inversion Hwf as [|? ? Wh Wt]; subst. cbn [room_below] in Hr. destruct Hr as (Ro & Rn & Rt).
  pose proof (growth_bounds h) as G. pose proof (shrink_nonneg h) as S0.
  destruct vs as [|[pos fz|] vs]; cbn [expected_rejects]; [constructor| |].
  - apply (IH vs _ (lo + shrink h) Wt Rt). lia.
  - constructor.
    + apply wf_hunk_shift; [exact Wh|lia|lia].
    + apply (IH vs _ (lo + shrink h) Wt Rt). lia.
Qed.

(* context form: the shift must also stay below hi *)
Lemma rejects_wf_context : forall hs vs d lo hi,
  Forall wf_hunk_c hs -> room_below lo hs -> room_above hi hs -> - lo <= d <= hi ->
  Forall wf_hunk_c (expected_rejects vs hs d).
Proof.
  induction hs as [|h t IH]; intros vs d lo hi Hwf Hr Ha Hd; [destruct vs as [|[pos fz|] vs]; constructor|].
  inversion Hwf as [|? ? Wh Wt]; subst. cbn [room_below] in Hr. destruct Hr as (Ro & Rn & Rt).
  cbn [room_above] in Ha. destruct Ha as (Ao & An & At).
  pose proof (growth_bounds h) as G. pose proof (shrink_nonneg h) as S0. pose proof (grow_nonneg h) as G0.
  destruct vs as [|[pos fz|] vs]; cbn [expected_rejects]; [constructor| |].
  - apply (IH vs _ (lo + shrink h) (hi + grow h) Wt Rt At). lia.
  - constructor.
    + apply wf_hunk_c_shift; [exact Wh|lia|lia|lia|lia].
    + apply (IH vs _ (lo + shrink h) (hi + grow h) Wt Rt At). lia.
Qed.

(* the same for the hunks left in the record of the run (applied hunks as they were, rejected ones shifted) *)
Lemma left_wf_unified : forall hs vs d lo,
  Forall wf_hunk hs -> room_below lo hs -> - lo <= d -> Forall wf_hunk (hunks_left vs hs d).
Proof.
  induction hs as [|h t IH]; intros vs d lo Hwf Hr Hd; [destruct vs as [|[pos fz|] vs]; constructor|].
  inversion Hwf as [|? ? Wh Wt]; subst. cbn [room_below] in Hr. destruct Hr as (Ro & Rn & Rt).
  pose proof (growth_bounds h) as G. pose proof (shrink_nonneg h) as S0.
  destruct vs as [|[pos fz|] vs]; cbn [hunks_left]; [constructor| |].
  - constructor; [exact Wh|]. apply (IH vs _ (lo + shrink h) Wt Rt). lia.
  - constructor.
    + apply wf_hunk_shift; [exact Wh|lia|lia].
    + apply (IH vs _ (lo + shrink h) Wt Rt). lia.
Qed.

(* ---------- since the repair e07e11a: a shifted start stops at zero ---------- *)
(* shift_start s d = max 0 (sat64 (s + d)): the start of a rejected hunk is never negative.  It is the start moved by exactly
   d when, and only when, the moved start is inside 0..2^63-1. *)
Lemma shift_start_range s d : 0 <= shift_start s d <= MAXZ.
Proof. pose proof MAXZ_val as MX. pose proof MINZ_val as MN. unfold shift_start, sadd, sat64. lia. Qed.

Lemma shift_start_exact_iff s d : shift_start s d = s + d <-> 0 <= s + d <= MAXZ.
Proof. pose proof MAXZ_val as MX. pose proof MINZ_val as MN. unfold shift_start, sadd, sat64. lia. Qed.

Lemma shift_start_below s d : s + d <= 0 -> shift_start s d = 0.
Proof. pose proof MAXZ_val as MX. pose proof MINZ_val as MN. unfold shift_start, sadd, sat64. lia. Qed.

Lemma shift_start_le s d : 0 <= s + d -> shift_start s d <= s + d.
Proof. pose proof MAXZ_val as MX. pose proof MINZ_val as MN. unfold shift_start, sadd, sat64. lia. Qed.

(* a shifted hunk keeps its counts and its body; its starts are the shift_start-ed ones *)
Lemma shift_hunk_fields h d :
  body (shift_hunk h d) = body h /\
  rcount (oldr (shift_hunk h d)) = rcount (oldr h) /\ rcount (newr (shift_hunk h d)) = rcount (newr h) /\
  rstart (oldr (shift_hunk h d)) = shift_start (rstart (oldr h)) d /\
  rstart (newr (shift_hunk h d)) = shift_start (rstart (newr h)) d.
Proof. unfold shift_hunk. cbn [body oldr newr rstart rcount]. auto. Qed.

(* (a) a hunk fit for the unified form stays so under ANY shift *)
Lemma wf_hunk_shift_any h d : wf_hunk h -> wf_hunk (shift_hunk h d).
Proof.
  intros (A & B & (Co & Cc) & (Do & Dc) & E & F). unfold wf_hunk, shift_hunk, wf_range. cbn [body oldr newr rstart rcount].
  pose proof (shift_start_range (rstart (oldr h)) d). pose proof (shift_start_range (rstart (newr h)) d).
  repeat split; auto; lia.
Qed.

Lemma rejects_always_wf : forall hs vs d, Forall wf_hunk hs -> Forall wf_hunk (expected_rejects vs hs d).
Proof.
  induction hs as [|h t IH]; intros vs d Hwf; [destruct vs as [|[pos fz|] vs]; constructor|].
  inversion Hwf as [|? ? Wh Wt]; subst.
  destruct vs as [|[pos fz|] vs]; cbn [expected_rejects]; [constructor|apply IH; exact Wt|].
  constructor; [apply wf_hunk_shift_any; exact Wh|apply IH; exact Wt].
Qed.

Lemma left_always_wf : forall hs vs d, Forall wf_hunk hs -> Forall wf_hunk (hunks_left vs hs d).
Proof.
  induction hs as [|h t IH]; intros vs d Hwf; [destruct vs as [|[pos fz|] vs]; constructor|].
  inversion Hwf as [|? ? Wh Wt]; subst.
  destruct vs as [|[pos fz|] vs]; cbn [hunks_left]; [constructor| |].
  - constructor; [exact Wh|apply IH; exact Wt].
  - constructor; [apply wf_hunk_shift_any; exact Wh|apply IH; exact Wt].
Qed.

(* the starts in particular: whatever the input starts and the shift *)
Lemma rejects_always_wf_starts : forall hs vs d,
  Forall (fun h => 0 <= rstart (oldr h) <= MAXZ /\ 0 <= rstart (newr h) <= MAXZ) (expected_rejects vs hs d).
Proof.
  induction hs as [|h t IH]; intros vs d; [destruct vs as [|[pos fz|] vs]; constructor|].
  destruct vs as [|[pos fz|] vs]; cbn [expected_rejects]; [constructor|apply IH|]. constructor; [|apply IH].
  unfold shift_hunk. cbn [oldr newr rstart]. split; apply shift_start_range.
Qed.

(* (d) context form: the lower side needs nothing any more; the upper side still does (a start that saturates at 2^63-1
   leaves no room for the end of the range) *)
Lemma wf_hunk_c_shift_upper h d :
  wf_hunk_c h ->
  rstart (oldr h) + d + rcount (oldr h) <= MAXZ -> rstart (newr h) + d + rcount (newr h) <= MAXZ ->
  wf_hunk_c (shift_hunk h d).
Proof.
  intros (A & ((Bs & Bm) & Bc) & ((Cs & Cm) & Cc) & E & F & G & H) Ho Hn.
  pose proof (shift_start_range (rstart (oldr h)) d) as Ro. pose proof (shift_start_range (rstart (newr h)) d) as Rn.
  assert (Fo : range_fits (oldr h) -> shift_start (rstart (oldr h)) d + rcount (oldr h) <= MAXZ).
  { unfold range_fits. intros Q. destruct (Z_le_gt_dec (rstart (oldr h) + d) 0) as [L|L].
    - rewrite shift_start_below by exact L. lia.
    - pose proof (shift_start_le (rstart (oldr h)) d). lia. }
  assert (Fn : range_fits (newr h) -> shift_start (rstart (newr h)) d + rcount (newr h) <= MAXZ).
  { unfold range_fits. intros Q. destruct (Z_le_gt_dec (rstart (newr h) + d) 0) as [L|L].
    - rewrite shift_start_below by exact L. lia.
    - pose proof (shift_start_le (rstart (newr h)) d). lia. }
  unfold wf_hunk_c, shift_hunk, wf_crange0, range_fits. cbn [body oldr newr rstart rcount].
  split; [exact A|]. split; [lia|]. split; [lia|]. split; [exact E|]. split; [exact F|]. split.
  - intros P. destruct (G P) as [G1 G2]. split; [exact G1|apply Fo; exact G2].
  - intros P. destruct (H P) as [H1 H2]. split; [exact H1|]. intros Q. apply Fn. apply H2. exact Q.
Qed.

Lemma rejects_wf_context_upper : forall hs vs d hi,
  Forall wf_hunk_c hs -> room_above hi hs -> d <= hi -> Forall wf_hunk_c (expected_rejects vs hs d).
Proof.
  induction hs as [|h t IH]; intros vs d hi Hwf Ha Hd; [destruct vs as [|[pos fz|] vs]; constructor|].
  inversion Hwf as [|? ? Wh Wt]; subst. cbn [room_above] in Ha. destruct Ha as (Ao & An & At).
  pose proof (growth_bounds h) as G. pose proof (grow_nonneg h) as G0.
  destruct vs as [|[pos fz|] vs]; cbn [expected_rejects]; [constructor| |].
  - apply (IH vs _ (hi + grow h) Wt At). lia.
  - constructor.
    + apply wf_hunk_c_shift_upper; [exact Wh|lia|lia].
    + apply (IH vs _ (hi + grow h) Wt At). lia.
Qed.

(* (b) WHEN the shift is exact.  The hunk moved by exactly d, and the rejected hunks moved exactly: *)
Definition move_hunk (h : hunk) (d : Z) : hunk :=
  mkHunk (mkRange (rstart (oldr h) + d) (rcount (oldr h))) (mkRange (rstart (newr h) + d) (rcount (newr h))) (body h).

Fixpoint moved_rejects (vs : list verdict) (hs : list hunk) (o2n : Z) : list hunk :=
  match hs, vs with
  | h :: hs', VApplied _ _ :: vs' => moved_rejects vs' hs' (o2n + (rcount (newr h) - rcount (oldr h)))
  | h :: hs', VRejected :: vs' => move_hunk h o2n :: moved_rejects vs' hs' o2n
  | _, _ => []
  end.

Lemma shift_hunk_exact_iff h d :
  shift_hunk h d = move_hunk h d <->
  (0 <= rstart (oldr h) + d <= MAXZ) /\ (0 <= rstart (newr h) + d <= MAXZ).
Proof.
  unfold shift_hunk, move_hunk. rewrite <- !shift_start_exact_iff. split.
  - intros E. injection E as E1 E2. auto.
  - intros [E1 E2]. rewrite E1, E2. reflexivity.
Qed.

(* counts are not negative (part of wf_hunk and of wf_hunk_c) *)
Definition counts_nonneg (h : hunk) : Prop := 0 <= rcount (oldr h) /\ 0 <= rcount (newr h).

(* inside the room the rejected hunks are the hunks moved by exactly the net growth of the hunks applied before them *)
Lemma rejects_exact : forall hs vs d lo hi,
  Forall counts_nonneg hs -> room_below lo hs -> room_above hi hs -> - lo <= d <= hi ->
  expected_rejects vs hs d = moved_rejects vs hs d.
Proof.
  induction hs as [|h t IH]; intros vs d lo hi Hc Hr Ha Hd; [destruct vs as [|[pos fz|] vs]; reflexivity|].
  inversion Hc as [|? ? (Co & Cn) Ct]; subst. cbn [room_below] in Hr. destruct Hr as (Ro & Rn & Rt).
  cbn [room_above] in Ha. destruct Ha as (Ao & An & At).
  pose proof (growth_bounds h) as G. pose proof (shrink_nonneg h) as S0. pose proof (grow_nonneg h) as G0.
  destruct vs as [|[pos fz|] vs]; cbn [expected_rejects moved_rejects]; [reflexivity| |].
  - apply (IH vs _ (lo + shrink h) (hi + grow h) Ct Rt At). lia.
  - f_equal.
    + apply shift_hunk_exact_iff. lia.
    + apply (IH vs _ (lo + shrink h) (hi + grow h) Ct Rt At). lia.
Qed.

(* ... and the lower room is exactly what that takes, the verdicts being free: if, whichever earlier hunks are the applied
   ones, every rejected hunk is moved exactly, then the input has the room.  (Which sets of verdicts a file can produce is
   another matter.)  Outside the room some verdicts give a rejected hunk whose start is 0 instead of start + d. *)
Theorem exact_shift_room : forall hs d,
  (forall vs, length vs = length hs -> expected_rejects vs hs d = moved_rejects vs hs d) -> room_below (- d) hs.
Proof.
  induction hs as [|h t IH]; intros d H; [exact I|]. cbn [room_below].
  assert (S : 0 <= rstart (oldr h) + d /\ 0 <= rstart (newr h) + d).
  { specialize (H (VRejected :: repeat VRejected (length t))). cbn [expected_rejects moved_rejects length] in H.
    rewrite repeat_length in H. specialize (H eq_refl). apply (f_equal (hd h)) in H. cbn [hd] in H.
    apply shift_hunk_exact_iff in H. lia. }
  destruct S as [So Sn]. split; [lia|]. split; [lia|].
  destruct (Z_le_gt_dec (rcount (oldr h) - rcount (newr h)) 0) as [L|G].
  - replace (- d + shrink h) with (- d) by (unfold shrink; lia). apply IH. intros vs Hl.
    specialize (H (VRejected :: vs)). cbn [expected_rejects moved_rejects length] in H. rewrite Hl in H. specialize (H eq_refl).
    apply (f_equal (@tl hunk)) in H. exact H.
  - replace (- d + shrink h) with (- (d + (rcount (newr h) - rcount (oldr h)))) by (unfold shrink; lia). apply IH. intros vs Hl.
    specialize (H (VApplied 0 0 :: vs)). cbn [expected_rejects moved_rejects length] in H. rewrite Hl in H. exact (H eq_refl).
Qed.

(* ---------- the shape of a diff ---------- *)
(* the stated old ranges are increasing and do not overlap *)
Fixpoint increasing_disjoint (hs : list hunk) : Prop :=
  match hs with
  | h :: t => match t with
              | h' :: _ => rstart (oldr h) + rcount (oldr h) <= rstart (oldr h')
              | [] => True
              end /\ increasing_disjoint t
  | [] => True
  end.

(* the old half and the new half of room_below *)
Fixpoint old_room (lo : Z) (hs : list hunk) : Prop :=
  match hs with [] => True | h :: t => lo <= rstart (oldr h) /\ old_room (lo + shrink h) t end.
Fixpoint new_room (lo : Z) (hs : list hunk) : Prop :=
  match hs with [] => True | h :: t => lo <= rstart (newr h) /\ new_room (lo + shrink h) t end.

Lemma room_below_halves : forall hs lo, old_room lo hs -> new_room lo hs -> room_below lo hs.
Proof.
  induction hs as [|h t IH]; intros lo; cbn [old_room new_room room_below]; [auto|].
  intros (A & B) (C & D). split; [exact A|]. split; [exact C|]. apply IH; assumption.
Qed.

Lemma room_below_old : forall hs lo, room_below lo hs -> old_room lo hs.
Proof. induction hs as [|h t IH]; intros lo; cbn [old_room room_below]; [auto|]. intros (A & B & C). split; [exact A|apply IH; exact C]. Qed.
Lemma room_below_new : forall hs lo, room_below lo hs -> new_room lo hs.
Proof. induction hs as [|h t IH]; intros lo; cbn [new_room room_below]; [auto|]. intros (A & B & C). split; [exact B|apply IH; exact C]. Qed.


Lemma wf_hunk_counts h : wf_hunk h -> counts_nonneg h.
Proof. intros (_ & _ & (_ & Co) & (_ & Cn) & _). split; lia. Qed.
Lemma wf_hunk_c_counts h : wf_hunk_c h -> counts_nonneg h.
Proof. intros (_ & (_ & Co) & (_ & Cn) & _). split; assumption. Qed.
Lemma wf_hunk_starts h : wf_hunk h -> 0 <= rstart (oldr h) /\ 0 <= rstart (newr h).
Proof. intros (_ & _ & (So & _) & (Sn & _) & _). split; lia. Qed.
Lemma wf_hunk_c_starts h : wf_hunk_c h -> 0 <= rstart (oldr h) /\ 0 <= rstart (newr h).
Proof. intros (_ & (So & _) & (Sn & _) & _). split; lia. Qed.

Definition head_old_from (lo : Z) (hs : list hunk) : Prop :=
  match hs with h :: _ => lo <= rstart (oldr h) | [] => True end.

(* increasing, disjoint old ranges: an old start is never below the number of old lines of the hunks before it, hence
   never below what they can remove *)
Lemma old_room_of_disjoint : forall hs lo,
  Forall counts_nonneg hs -> increasing_disjoint hs -> head_old_from lo hs -> old_room lo hs.
Proof.
  induction hs as [|h t IH]; intros lo Hc Hi Hh; [exact I|].
  inversion Hc as [|? ? (Co & Cn) Ct]; subst. cbn [increasing_disjoint] in Hi. destruct Hi as (Hn & Hi).
  cbn [head_old_from] in Hh. cbn [old_room]. split; [exact Hh|].
  apply IH; [exact Ct|exact Hi|]. destruct t as [|h' t']; [exact I|]. cbn [head_old_from]. unfold shrink. lia.
Qed.

(* The same with the conventions of a diff tool for empty ranges.  The position of a range is its start, or start + 1 when
   the range is empty ("-3,0": the new lines go after line 3, that is at position 4). *)
Definition range_pos (r : range) : Z := rstart r + (if Z.eqb (rcount r) 0 then 1 else 0).

Lemma range_pos_bounds r : rstart r <= range_pos r <= rstart r + 1.
Proof. unfold range_pos. destruct (Z.eqb (rcount r) 0); lia. Qed.

(* a diff tool leaves at least one unchanged line between two hunks (it merges changes that touch) *)
Fixpoint diff_ordered (hs : list hunk) : Prop :=
  match hs with
  | h :: t => match t with
              | h' :: _ => range_pos (oldr h) + rcount (oldr h) < range_pos (oldr h')
              | [] => True
              end /\ diff_ordered t
  | [] => True
  end.

Lemma diff_ordered_disjoint : forall hs, diff_ordered hs -> increasing_disjoint hs.
Proof.
  induction hs as [|h t IH]; [auto|]. cbn [diff_ordered increasing_disjoint]. intros (A & B). split; [|apply IH; exact B].
  destruct t as [|h' t']; [exact I|]. pose proof (range_pos_bounds (oldr h)). pose proof (range_pos_bounds (oldr h')). lia.
Qed.

(* hunks that may touch (a patch split by hand): positions in order, the first position at least 1 *)
Fixpoint touching_ordered (hs : list hunk) : Prop :=
  match hs with
  | h :: t => match t with
              | h' :: _ => range_pos (oldr h) + rcount (oldr h) <= range_pos (oldr h')
              | [] => True
              end /\ touching_ordered t
  | [] => True
  end.

Definition head_pos_from (lo : Z) (hs : list hunk) : Prop :=
  match hs with h :: _ => lo + 1 <= range_pos (oldr h) | [] => True end.

Lemma old_room_of_touching : forall hs lo,
  Forall counts_nonneg hs -> touching_ordered hs -> head_pos_from lo hs -> old_room lo hs.
Proof.
  induction hs as [|h t IH]; intros lo Hc Hi Hh; [exact I|].
  inversion Hc as [|? ? (Co & Cn) Ct]; subst. cbn [touching_ordered] in Hi. destruct Hi as (Hn & Hi).
  cbn [head_pos_from] in Hh. cbn [old_room]. pose proof (range_pos_bounds (oldr h)) as Pb. split; [lia|].
  apply IH; [exact Ct|exact Hi|]. destruct t as [|h' t']; [exact I|]. cbn [head_pos_from]. unfold shrink. lia.
Qed.

(* what a diff tool writes: the new position is the old position plus the net growth of all the hunks before *)
Fixpoint starts_consistent (g : Z) (hs : list hunk) : Prop :=
  match hs with
  | [] => True
  | h :: t => range_pos (newr h) = range_pos (oldr h) + g /\
              starts_consistent (g + (rcount (newr h) - rcount (oldr h))) t
  end.

Lemma starts_consistent_reverse : forall hs g, starts_consistent g hs -> starts_consistent (- g) (map reverse_hunk hs).
Proof.
  induction hs as [|h t IH]; intros g; [auto|]. cbn [starts_consistent map]. intros (A & B).
  change (newr (reverse_hunk h)) with (oldr h). change (oldr (reverse_hunk h)) with (newr h). split; [lia|].
  replace (- g + (rcount (oldr h) - rcount (newr h))) with (- (g + (rcount (newr h) - rcount (oldr h)))) by lia.
  apply IH. exact B.
Qed.

(* with consistent starts the new positions are in order when the old ones are *)
Lemma touching_ordered_reverse : forall hs g,
  starts_consistent g hs -> touching_ordered hs -> touching_ordered (map reverse_hunk hs).
Proof.
  induction hs as [|h t IH]; intros g; [auto|]. cbn [starts_consistent touching_ordered map]. intros (A & B) (C & D).
  split; [|apply (IH _ B D)]. destruct t as [|h' t']; [exact I|]. cbn [map].
  change (oldr (reverse_hunk h)) with (newr h). change (oldr (reverse_hunk h')) with (newr h').
  cbn [starts_consistent] in B. destruct B as (B & _). lia.
Qed.

Definition head_pos_from_g (lo g : Z) (hs : list hunk) : Prop :=
  match hs with h :: _ => lo + 1 - g <= range_pos (oldr h) | [] => True end.

(* One way to have the new half: the starts are consistent, the old positions in order, and no hunk's new side is shorter
   than half its old side (with three lines of context on each side: a hunk that removes up to six lines more than it
   adds).  Sufficient, not necessary. *)
Lemma new_room_of_consistent : forall hs lo g,
  Forall (fun h => 0 <= rcount (newr h) /\ rcount (oldr h) <= 2 * rcount (newr h)) hs ->
  touching_ordered hs -> starts_consistent g hs -> head_pos_from_g lo g hs -> new_room lo hs.
Proof.
  induction hs as [|h t IH]; intros lo g Hc Ho Hs Hh; [exact I|].
  inversion Hc as [|? ? (Cn & Ch) Ct]; subst. cbn [touching_ordered] in Ho. destruct Ho as (On & Ot).
  cbn [starts_consistent] in Hs. destruct Hs as (Sh & St). cbn [head_pos_from_g] in Hh.
  pose proof (range_pos_bounds (newr h)) as Pn. cbn [new_room]. split; [lia|].
  apply (IH _ _ Ct Ot St). destruct t as [|h' t']; [exact I|]. cbn [head_pos_from_g]. unfold shrink. lia.
Qed.

(* a patch none of whose hunks shrinks the file: the shift is never negative *)
Lemma new_room_no_shrink : forall hs,
  Forall (fun h => rcount (oldr h) <= rcount (newr h) /\ 0 <= rstart (newr h)) hs -> new_room 0 hs.
Proof.
  induction hs as [|h t IH]; intros H; [exact I|]. inversion H as [|? ? (A & B) Ht]; subst.
  cbn [new_room]. split; [exact B|]. replace (0 + shrink h) with 0 by (unfold shrink; lia). apply IH. exact Ht.
Qed.

(* what is asked of the hunks the run works with, unified form *)
Definition diff_style (hs : list hunk) : Prop := increasing_disjoint hs /\ new_room 0 hs.

Lemma diff_style_room hs : Forall wf_hunk hs -> diff_style hs -> room_below 0 hs.
Proof.
  intros Hwf [Hi Hn]. apply room_below_halves; [|exact Hn]. apply old_room_of_disjoint; [|exact Hi|].
  - eapply Forall_impl; [|exact Hwf]. exact wf_hunk_counts.
  - destruct hs as [|h t]; [exact I|]. inversion Hwf as [|? ? Wh _]; subst. apply (wf_hunk_starts h Wh).
Qed.

Lemma diff_style_room_c hs : Forall wf_hunk_c hs -> diff_style hs -> room_below 0 hs.
Proof.
  intros Hwf [Hi Hn]. apply room_below_halves; [|exact Hn]. apply old_room_of_disjoint; [|exact Hi|].
  - eapply Forall_impl; [|exact Hwf]. exact wf_hunk_c_counts.
  - destruct hs as [|h t]; [exact I|]. inversion Hwf as [|? ? Wh _]; subst. apply (wf_hunk_c_starts h Wh).
Qed.

(* ---------- the upper bound, for the context form ---------- *)
(* every stated range ends at or below (2^63-1)/2 *)
Definition half_bound (h : hunk) : Prop :=
  rstart (oldr h) + rcount (oldr h) <= MAXZ / 2 /\ rstart (newr h) + rcount (newr h) <= MAXZ / 2.

Lemma half_MAXZ : MAXZ / 2 + MAXZ / 2 <= MAXZ.
Proof. rewrite MAXZ_val. change (9223372036854775807 / 2) with 4611686018427387903. lia. Qed.

Definition head_new_from (hi : Z) (hs : list hunk) : Prop :=
  match hs with h :: _ => hi <= rstart (newr h) | [] => True end.

(* new ranges increasing and disjoint: the lines added before a hunk are at most its new start; with the half bound the
   shifted ends stay inside int64 *)
Lemma room_above_of_disjoint : forall hs hi,
  Forall counts_nonneg hs -> Forall half_bound hs -> increasing_disjoint (map reverse_hunk hs) -> head_new_from hi hs ->
  room_above hi hs.
Proof.
  induction hs as [|h t IH]; intros hi Hc Hb Hi Hh; [exact I|].
  inversion Hc as [|? ? (Co & Cn) Ct]; subst. inversion Hb as [|? ? (Bo & Bn) Bt]; subst.
  cbn [map increasing_disjoint] in Hi. destruct Hi as (Hn & Hi). cbn [head_new_from] in Hh.
  pose proof half_MAXZ as HM.
  cbn [room_above]. split; [lia|]. split; [lia|].
  apply IH; [exact Ct|exact Bt|exact Hi|]. destruct t as [|h' t']; [exact I|].
  cbn [map] in Hn. cbn [reverse_hunk oldr rstart rcount] in Hn. unfold reverse_hunk in Hn. cbn [oldr] in Hn.
  cbn [head_new_from]. unfold grow. lia.
Qed.

(* ---------- reversed hunks ---------- *)
Lemma is_old_reverse p : is_old (reverse_pline p) = is_new p.
Proof. unfold is_old, is_new, reverse_pline. cbn [pop]. destruct (pop p); reflexivity. Qed.
Lemma is_new_reverse p : is_new (reverse_pline p) = is_old p.
Proof. unfold is_old, is_new, reverse_pline. cbn [pop]. destruct (pop p); reflexivity. Qed.

Lemma n_old_reverse : forall b, n_old (map reverse_pline b) = n_new b.
Proof.
  induction b as [|p r IH]; [reflexivity|]. cbn [map]. rewrite n_old_cons, n_new_cons, is_old_reverse, IH. reflexivity.
Qed.
Lemma n_new_reverse : forall b, n_new (map reverse_pline b) = n_old b.
Proof.
  induction b as [|p r IH]; [reflexivity|]. cbn [map]. rewrite n_old_cons, n_new_cons, is_new_reverse, IH. reflexivity.
Qed.

Lemma wf_body_reverse : forall b, wf_body b -> wf_body (map reverse_pline b).
Proof.
  induction b as [|p r IH]; [auto|]. cbn [wf_body map]. intros ((Hc & Hn & Hl) & Hr). split; [|apply IH; exact Hr].
  unfold wf_pline. rewrite is_old_reverse, is_new_reverse, n_old_reverse, n_new_reverse.
  change (pl (reverse_pline p)) with (pl p). split; [exact Hc|]. split; [exact Hn|]. intros E. destruct (Hl E) as [A|A]; [right|left]; exact A.
Qed.

(* a hunk fit for the unified form stays so when reversed *)
Lemma wf_hunk_reverse h : wf_hunk h -> wf_hunk (reverse_hunk h).
Proof.
  intros (A & B & C & D & E & F). unfold wf_hunk, reverse_hunk. cbn [body oldr newr].
  split; [destruct (body h); [contradiction|discriminate]|]. split; [apply wf_body_reverse; exact B|].
  split; [exact D|]. split; [exact C|]. rewrite n_old_reverse, n_new_reverse. split; assumption.
Qed.

Lemma Forall_wf_hunk_reverse hs : Forall wf_hunk hs -> Forall wf_hunk (map reverse_hunk hs).
Proof. intros H. apply Forall_map. eapply Forall_impl; [|exact H]. exact wf_hunk_reverse. Qed.

Lemma map_reverse_twice hs : map reverse_hunk (map reverse_hunk hs) = hs.
Proof. rewrite map_map. rewrite <- (map_id hs) at 2. apply map_ext. exact reverse_hunk_involutive. Qed.

(* a property asked of the hunks and of the reversed hunks holds for the hunks of whichever record the run works with *)
Lemma both_ways (P : list hunk -> Prop) (o : options) (p q : patch) :
  P (hunks p) -> P (map reverse_hunk (hunks p)) ->
  (let p1 := if reverse_patch_opt o then reverse_patch p else p in q = p1 \/ q = reverse_patch p1) ->
  P (hunks q).
Proof.
  intros H1 H2 Hq. cbv zeta in Hq.
  destruct (reverse_patch_opt o); destruct Hq as [-> | ->]; cbn [reverse_patch hunks]; try assumption.
  rewrite map_reverse_twice. exact H1.
Qed.

Lemma half_bound_reverse h : half_bound h -> half_bound (reverse_hunk h).
Proof. intros [A B]. split; assumption. Qed.

Lemma Forall_half_bound_reverse hs : Forall half_bound hs -> Forall half_bound (map reverse_hunk hs).
Proof. intros H. apply Forall_map. eapply Forall_impl; [|exact H]. exact half_bound_reverse. Qed.

(* a condition fit for both forms and both directions: both sides are LF lines with at most a last line without newline *)
Definition wf_hunk_two (h : hunk) : Prop :=
  body h <> [] /\ wf_crange (oldr h) /\ wf_crange (newr h) /\
  rcount (oldr h) = n_old (body h) /\ rcount (newr h) = n_new (body h) /\
  side_ok (old_side (body h)) /\ side_ok (new_side (body h)).

Lemma wf_hunk_two_c h : wf_hunk_two h -> wf_hunk_c h.
Proof. intros (A & B & C & D & E & F & G). apply wf_hunk_c_simple; auto. Qed.

Lemma wf_hunk_two_reverse h : wf_hunk_two h -> wf_hunk_two (reverse_hunk h).
Proof.
  intros (A & B & C & D & E & F & G). unfold wf_hunk_two, reverse_hunk. cbn [body oldr newr].
  rewrite n_old_reverse, n_new_reverse, old_side_reverse, new_side_reverse.
  split; [destruct (body h); [contradiction|discriminate]|]. auto 10.
Qed.

Lemma wf_hunk_two_both hs :
  Forall wf_hunk_two hs -> Forall wf_hunk_c hs /\ Forall wf_hunk_c (map reverse_hunk hs).
Proof.
  intros H. split.
  - eapply Forall_impl; [|exact H]. exact wf_hunk_two_c.
  - apply Forall_map. eapply Forall_impl; [|exact H]. intros h Hh. apply wf_hunk_two_c, wf_hunk_two_reverse. exact Hh.
Qed.

(* What a diff tool writes, with one extra condition: positions in order, the first one at least 1, new positions = old
   positions + the growth so far, and no hunk halves or doubles its range (new count >= old count / 2 for the run as given,
   old count >= new count / 2 for -R and the run that takes the patch as reversed). *)
Definition balanced (h : hunk) : Prop :=
  rcount (oldr h) <= 2 * rcount (newr h) /\ rcount (newr h) <= 2 * rcount (oldr h).
Definition genuine_diff (hs : list hunk) : Prop :=
  touching_ordered hs /\ starts_consistent 0 hs /\ head_pos_from 0 hs /\ Forall balanced hs.

Lemma genuine_diff_rooms hs :
  Forall counts_nonneg hs -> genuine_diff hs -> room_below 0 hs /\ room_below 0 (map reverse_hunk hs).
Proof.
  intros Hc (Ho & Hs & Hh & Hb).
  assert (Hcr : Forall counts_nonneg (map reverse_hunk hs)).
  { apply Forall_map. eapply Forall_impl; [|exact Hc]. intros h [A B]. split; assumption. }
  assert (Hor : touching_ordered (map reverse_hunk hs)) by (apply (touching_ordered_reverse hs 0 Hs Ho)).
  assert (Hsr : starts_consistent 0 (map reverse_hunk hs)) by (apply (starts_consistent_reverse hs 0 Hs)).
  assert (Hhr : head_pos_from 0 (map reverse_hunk hs)).
  { destruct hs as [|h t]; [exact I|]. cbn [map head_pos_from]. change (oldr (reverse_hunk h)) with (newr h).
    cbn [head_pos_from] in Hh. cbn [starts_consistent] in Hs. destruct Hs as (Sh & _). lia. }
  split; apply room_below_halves.
  - apply old_room_of_touching; assumption.
  - apply (new_room_of_consistent hs 0 0); [|exact Ho|exact Hs|].
    + rewrite Forall_forall in Hc, Hb. apply Forall_forall. intros h Hi. destruct (Hc h Hi). destruct (Hb h Hi). split; assumption.
    + destruct hs as [|h t]; [exact I|]. cbn [head_pos_from_g]. cbn [head_pos_from] in Hh. lia.
  - apply old_room_of_touching; assumption.
  - apply (new_room_of_consistent (map reverse_hunk hs) 0 0); [|exact Hor|exact Hsr|].
    + apply Forall_map. rewrite Forall_forall in Hc, Hb. apply Forall_forall. intros h Hi. destruct (Hc h Hi). destruct (Hb h Hi).
      change (newr (reverse_hunk h)) with (oldr h). change (oldr (reverse_hunk h)) with (newr h). split; assumption.
    + destruct hs as [|h t]; [exact I|]. cbn [map head_pos_from_g]. cbn [map head_pos_from] in Hhr. lia.
Qed.

(* ---------- what the run rejected is well formed ---------- *)
(* unified form, in terms of the room: the hunks of whichever record the run worked with have it *)
Lemma rejected_wf_unified_room o f p r rj :
  rejected_by o f p r rj ->
  Forall wf_hunk (hunks p) -> room_below 0 (hunks p) -> room_below 0 (map reverse_hunk (hunks p)) ->
  Forall wf_hunk rj /\ Forall wf_hunk (hunks (r_patch r)).
Proof.
  intros (q & vs & Hq & Hp & _ & -> & _) Hwf R1 R2.
  assert (X : Forall wf_hunk (hunks q) /\ room_below 0 (hunks q)).
  { apply (both_ways (fun hs => Forall wf_hunk hs /\ room_below 0 hs) o p q); [split; assumption| |exact Hq].
    split; [apply Forall_wf_hunk_reverse; exact Hwf|exact R2]. }
  destruct X as [Wq R]. split.
  - apply (rejects_wf_unified _ vs 0 0 Wq R). lia.
  - rewrite Hp. cbn [set_hunks hunks]. apply (left_wf_unified _ vs 0 0 Wq R). lia.
Qed.

Lemma rejected_wf_unified o f p r rj :
  rejected_by o f p r rj ->
  Forall wf_hunk (hunks p) -> diff_style (hunks p) -> diff_style (map reverse_hunk (hunks p)) ->
  Forall wf_hunk rj /\ Forall wf_hunk (hunks (r_patch r)).
Proof.
  intros Hb Hwf D1 D2. apply (rejected_wf_unified_room o f p r rj Hb Hwf).
  - apply diff_style_room; assumption.
  - apply diff_style_room; [apply Forall_wf_hunk_reverse; exact Hwf|exact D2].
Qed.

(* with -f the run works with the record given (reversed under -R) and nothing is asked of the other direction *)
Lemma rejected_wf_unified_force o f p r rj :
  rejected_by o f p r rj -> force o = true ->
  (let p1 := if reverse_patch_opt o then reverse_patch p else p in Forall wf_hunk (hunks p1) /\ diff_style (hunks p1)) ->
  Forall wf_hunk rj.
Proof.
  intros Hb Hf [Wq Dq]. destruct (rejected_by_force o f p r rj Hb Hf) as (vs & _ & -> & _).
  apply (rejects_wf_unified _ vs 0 0 Wq (diff_style_room _ Wq Dq)). lia.
Qed.

(* context form *)
Definition rooms (hs : list hunk) : Prop := room_below 0 hs /\ room_above 0 hs.

Lemma rejected_wf_context_room o f p r rj :
  rejected_by o f p r rj ->
  Forall wf_hunk_c (hunks p) -> Forall wf_hunk_c (map reverse_hunk (hunks p)) ->
  rooms (hunks p) -> rooms (map reverse_hunk (hunks p)) ->
  Forall wf_hunk_c rj.
Proof.
  intros (q & vs & Hq & Hp & _ & -> & _) W1 W2 R1 R2.
  assert (X : Forall wf_hunk_c (hunks q) /\ rooms (hunks q)).
  { apply (both_ways (fun hs => Forall wf_hunk_c hs /\ rooms hs) o p q); [split; assumption|split; assumption|exact Hq]. }
  destruct X as [Wq [Rb Ra]]. apply (rejects_wf_context _ vs 0 0 0 Wq Rb Ra). lia.
Qed.

Definition diff_style_c (hs : list hunk) : Prop :=
  diff_style hs /\ increasing_disjoint (map reverse_hunk hs) /\ Forall half_bound hs.

Lemma diff_style_c_rooms hs : Forall wf_hunk_c hs -> diff_style_c hs -> rooms hs.
Proof.
  intros Hwf (D & In & Hb). split; [apply diff_style_room_c; assumption|].
  apply room_above_of_disjoint; [|exact Hb|exact In|].
  - eapply Forall_impl; [|exact Hwf]. exact wf_hunk_c_counts.
  - destruct hs as [|h t]; [exact I|]. inversion Hwf as [|? ? Wh _]; subst. apply (wf_hunk_c_starts h Wh).
Qed.

Lemma rejected_wf_context o f p r rj :
  rejected_by o f p r rj ->
  Forall wf_hunk_c (hunks p) -> Forall wf_hunk_c (map reverse_hunk (hunks p)) ->
  diff_style (hunks p) -> diff_style (map reverse_hunk (hunks p)) -> Forall half_bound (hunks p) ->
  Forall wf_hunk_c rj.
Proof.
  intros Hrb W1 W2 D1 D2 Hb. apply (rejected_wf_context_room o f p r rj Hrb W1 W2).
  - apply diff_style_c_rooms; [exact W1|]. split; [exact D1|]. split; [apply D2|exact Hb].
  - apply diff_style_c_rooms; [exact W2|]. split; [exact D2|].
    split; [rewrite map_reverse_twice; apply D1|apply Forall_half_bound_reverse; exact Hb].
Qed.

Lemma rejected_wf_context_force o f p r rj :
  rejected_by o f p r rj -> force o = true ->
  (let p1 := if reverse_patch_opt o then reverse_patch p else p in Forall wf_hunk_c (hunks p1) /\ diff_style_c (hunks p1)) ->
  Forall wf_hunk_c rj.
Proof.
  intros Hb Hf [Wq Dq]. destruct (rejected_by_force o f p r rj Hb Hf) as (vs & _ & -> & _).
  destruct (diff_style_c_rooms _ Wq Dq) as [Rb Ra]. apply (rejects_wf_context _ vs 0 0 0 Wq Rb Ra). lia.
Qed.

(* ---------- (2) the reject file of a run on a diff-style patch is read back ---------- *)
(* The general form, in terms of the room: the hunks given and the reversed hunks (for -R and for a patch taken as
   reversed) have both starts at least the net number of lines the earlier hunks can remove. *)
Theorem apply_patch_unified_reject_reparses_room o f p r strip :
  define_macro o = [] -> apply_patch o f p = Ok r -> r_failed r <> 0%nat ->
  should_write_as_unified o (r_patch r) = true ->
  hdr_ok (old_path (r_patch r)) (old_time (r_patch r)) -> hdr_ok (new_path (r_patch r)) (new_time (r_patch r)) ->
  Forall wf_hunk (hunks p) -> room_below 0 (hunks p) -> room_below 0 (map reverse_hunk (hunks p)) ->
  exists rj p', rejected_by o f p r rj /\ length rj = r_failed r /\ Forall wf_hunk rj /\
                parse_patch (r_rej r) FUnknown strip = Ok p' /\ read_back r strip FUnified rj p'.
Proof.
  intros Hd Ha Hn Hu Ho Hnw Hwf R1 R2.
  destruct (apply_patch_unified_reject_reparses o f p r strip Hd Ha Hn Hu Ho Hnw) as (rj & Hb & Hl & Hp).
  destruct (rejected_wf_unified_room o f p r rj Hb Hwf R1 R2) as [Wr _].
  destruct (Hp Wr) as (p' & P1 & P2). exists rj, p'. auto.
Qed.

(* Unified form, a diff-style patch.  Nothing is asked of the rejected hunks any more: the hunks of the patch given are fit
   for the unified form, their old ranges and their new ranges are increasing and disjoint, every new start is at least the
   net number of lines the earlier hunks remove, every old start at least the net number of lines they add (the last
   condition and the order of the new ranges serve -R and the run that takes the patch as reversed). *)
Theorem apply_patch_unified_reject_reparses_diff_input o f p r strip :
  define_macro o = [] -> apply_patch o f p = Ok r -> r_failed r <> 0%nat ->
  should_write_as_unified o (r_patch r) = true ->
  hdr_ok (old_path (r_patch r)) (old_time (r_patch r)) -> hdr_ok (new_path (r_patch r)) (new_time (r_patch r)) ->
  Forall wf_hunk (hunks p) -> diff_style (hunks p) -> diff_style (map reverse_hunk (hunks p)) ->
  exists rj p', rejected_by o f p r rj /\ length rj = r_failed r /\ Forall wf_hunk rj /\
                parse_patch (r_rej r) FUnknown strip = Ok p' /\ read_back r strip FUnified rj p'.
Proof.
  intros Hd Ha Hn Hu Ho Hnw Hwf D1 D2.
  apply (apply_patch_unified_reject_reparses_room o f p r strip Hd Ha Hn Hu Ho Hnw Hwf).
  - apply diff_style_room; assumption.
  - apply diff_style_room; [apply Forall_wf_hunk_reverse; exact Hwf|exact D2].
Qed.

(* what a diff tool writes (genuine_diff), unified form *)
Theorem apply_patch_unified_reject_reparses_genuine_diff o f p r strip :
  define_macro o = [] -> apply_patch o f p = Ok r -> r_failed r <> 0%nat ->
  should_write_as_unified o (r_patch r) = true ->
  hdr_ok (old_path (r_patch r)) (old_time (r_patch r)) -> hdr_ok (new_path (r_patch r)) (new_time (r_patch r)) ->
  Forall wf_hunk (hunks p) -> genuine_diff (hunks p) ->
  exists rj p', rejected_by o f p r rj /\ length rj = r_failed r /\ Forall wf_hunk rj /\
                parse_patch (r_rej r) FUnknown strip = Ok p' /\ read_back r strip FUnified rj p'.
Proof.
  intros Hd Ha Hn Hu Ho Hnw Hwf G.
  destruct (genuine_diff_rooms (hunks p)) as [R1 R2]; [eapply Forall_impl; [|exact Hwf]; exact wf_hunk_counts|exact G|].
  exact (apply_patch_unified_reject_reparses_room o f p r strip Hd Ha Hn Hu Ho Hnw Hwf R1 R2).
Qed.

(* with -f: the patch is never taken as reversed, one direction is enough *)
Theorem apply_patch_unified_reject_reparses_diff_input_force o f p r strip :
  define_macro o = [] -> apply_patch o f p = Ok r -> r_failed r <> 0%nat ->
  should_write_as_unified o (r_patch r) = true ->
  hdr_ok (old_path (r_patch r)) (old_time (r_patch r)) -> hdr_ok (new_path (r_patch r)) (new_time (r_patch r)) ->
  force o = true ->
  (let p1 := if reverse_patch_opt o then reverse_patch p else p in Forall wf_hunk (hunks p1) /\ diff_style (hunks p1)) ->
  exists rj p', rejected_by o f p r rj /\ length rj = r_failed r /\ Forall wf_hunk rj /\
                parse_patch (r_rej r) FUnknown strip = Ok p' /\ read_back r strip FUnified rj p'.
Proof.
  intros Hd Ha Hn Hu Ho Hnw Hf H1.
  destruct (apply_patch_unified_reject_reparses o f p r strip Hd Ha Hn Hu Ho Hnw) as (rj & Hb & Hl & Hp).
  pose proof (rejected_wf_unified_force o f p r rj Hb Hf H1) as Wr.
  destruct (Hp Wr) as (p' & P1 & P2). exists rj, p'. auto.
Qed.

(* Context form, in terms of the room: besides, both ends of every hunk moved up by the net number of lines the earlier
   hunks can add stay inside int64 *)
Theorem apply_patch_context_reject_reparses_room o f p r strip :
  define_macro o = [] -> apply_patch o f p = Ok r -> r_failed r <> 0%nat ->
  should_write_as_unified o (r_patch r) = false ->
  hdr_ok (old_path (r_patch r)) (old_time (r_patch r)) -> hdr_ok (new_path (r_patch r)) (new_time (r_patch r)) ->
  Forall wf_hunk_c (hunks p) -> Forall wf_hunk_c (map reverse_hunk (hunks p)) ->
  rooms (hunks p) -> rooms (map reverse_hunk (hunks p)) ->
  exists rj p', rejected_by o f p r rj /\ length rj = r_failed r /\ Forall wf_hunk_c rj /\
                parse_patch (r_rej r) FUnknown strip = Ok p' /\ read_back r strip FContext (map norm_hunk rj) p'.
Proof.
  intros Hd Ha Hn Hu Ho Hnw W1 W2 R1 R2.
  destruct (apply_patch_context_reject_reparses o f p r strip Hd Ha Hn Hu Ho Hnw) as (rj & Hrb & Hl & Hp).
  pose proof (rejected_wf_context_room o f p r rj Hrb W1 W2 R1 R2) as Wr.
  destruct (Hp Wr) as (p' & P1 & P2). exists rj, p'. auto.
Qed.

(* Context form, a diff-style patch: the hunks and the reversed hunks are fit for the context form, and every stated range
   ends at or below (2^63-1)/2, so that a start moved up by the lines added before it still prints without saturation. *)
Theorem apply_patch_context_reject_reparses_diff_input o f p r strip :
  define_macro o = [] -> apply_patch o f p = Ok r -> r_failed r <> 0%nat ->
  should_write_as_unified o (r_patch r) = false ->
  hdr_ok (old_path (r_patch r)) (old_time (r_patch r)) -> hdr_ok (new_path (r_patch r)) (new_time (r_patch r)) ->
  Forall wf_hunk_c (hunks p) -> Forall wf_hunk_c (map reverse_hunk (hunks p)) ->
  diff_style (hunks p) -> diff_style (map reverse_hunk (hunks p)) -> Forall half_bound (hunks p) ->
  exists rj p', rejected_by o f p r rj /\ length rj = r_failed r /\ Forall wf_hunk_c rj /\
                parse_patch (r_rej r) FUnknown strip = Ok p' /\ read_back r strip FContext (map norm_hunk rj) p'.
Proof.
  intros Hd Ha Hn Hu Ho Hnw W1 W2 D1 D2 Hb.
  destruct (apply_patch_context_reject_reparses o f p r strip Hd Ha Hn Hu Ho Hnw) as (rj & Hrb & Hl & Hp).
  pose proof (rejected_wf_context o f p r rj Hrb W1 W2 D1 D2 Hb) as Wr.
  destruct (Hp Wr) as (p' & P1 & P2). exists rj, p'. auto.
Qed.

Theorem apply_patch_context_reject_reparses_diff_input_force o f p r strip :
  define_macro o = [] -> apply_patch o f p = Ok r -> r_failed r <> 0%nat ->
  should_write_as_unified o (r_patch r) = false ->
  hdr_ok (old_path (r_patch r)) (old_time (r_patch r)) -> hdr_ok (new_path (r_patch r)) (new_time (r_patch r)) ->
  force o = true ->
  (let p1 := if reverse_patch_opt o then reverse_patch p else p in Forall wf_hunk_c (hunks p1) /\ diff_style_c (hunks p1)) ->
  exists rj p', rejected_by o f p r rj /\ length rj = r_failed r /\ Forall wf_hunk_c rj /\
                parse_patch (r_rej r) FUnknown strip = Ok p' /\ read_back r strip FContext (map norm_hunk rj) p'.
Proof.
  intros Hd Ha Hn Hu Ho Hnw Hf H1.
  destruct (apply_patch_context_reject_reparses o f p r strip Hd Ha Hn Hu Ho Hnw) as (rj & Hrb & Hl & Hp).
  pose proof (rejected_wf_context_force o f p r rj Hrb Hf H1) as Wr.
  destruct (Hp Wr) as (p' & P1 & P2). exists rj, p'. auto.
Qed.

(* one statement for both forms, with the condition fit for both forms and both directions (wf_hunk_two: both sides are
   LF lines, at most the last one without newline) *)
Theorem apply_patch_reject_reparses_diff_input o f p r strip :
  define_macro o = [] -> apply_patch o f p = Ok r -> r_failed r <> 0%nat ->
  hdr_ok (old_path (r_patch r)) (old_time (r_patch r)) -> hdr_ok (new_path (r_patch r)) (new_time (r_patch r)) ->
  Forall wf_hunk_two (hunks p) -> diff_style (hunks p) -> diff_style (map reverse_hunk (hunks p)) ->
  Forall half_bound (hunks p) ->
  exists rj p', rejected_by o f p r rj /\ length rj = r_failed r /\
                parse_patch (r_rej r) FUnknown strip = Ok p' /\
                if should_write_as_unified o (r_patch r) then read_back r strip FUnified rj p'
                else read_back r strip FContext (map norm_hunk rj) p'.
Proof.
  intros Hd Ha Hn Ho Hnw Hwf D1 D2 Hb.
  destruct (wf_hunk_two_both _ Hwf) as [W1 W2].
  destruct (should_write_as_unified o (r_patch r)) eqn:Hu.
  - assert (Wu : Forall wf_hunk (hunks p)).
    { rewrite Forall_forall in Hwf, W1, Hb. apply Forall_forall. intros h Hh. destruct (Hb h Hh) as [Bo Bn].
      pose proof half_MAXZ as HM. destruct (Hwf h Hh) as (_ & (So & Co & _) & (Sn & Cn & _) & _).
      apply wf_hunk_c_unified; [apply W1; exact Hh|unfold range_fits; lia|unfold range_fits; lia]. }
    destruct (apply_patch_unified_reject_reparses_diff_input o f p r strip Hd Ha Hn Hu Ho Hnw Wu D1 D2)
      as (rj & p' & A & B & _ & C & D). exists rj, p'. auto.
  - destruct (apply_patch_context_reject_reparses_diff_input o f p r strip Hd Ha Hn Hu Ho Hnw W1 W2 D1 D2 Hb)
      as (rj & p' & A & B & _ & C & D). exists rj, p'. auto.
Qed.

(* ---------- (2') since the repair: the strongest versions ---------- *)
Lemma expected_rejects_shape : forall hs vs d,
  Forall (fun h' => exists h d', In h hs /\ h' = shift_hunk h d') (expected_rejects vs hs d).
Proof.
  induction hs as [|h t IH]; intros vs d; [destruct vs as [|[pos fz|] vs]; constructor|].
  assert (M : forall l, Forall (fun h' => exists h0 d', In h0 t /\ h' = shift_hunk h0 d') l ->
                        Forall (fun h' => exists h0 d', In h0 (h :: t) /\ h' = shift_hunk h0 d') l).
  { intros l Hl. eapply Forall_impl; [|exact Hl]. intros a (h0 & d' & I0 & E). exists h0, d'. split; [right; exact I0|exact E]. }
  destruct vs as [|[pos fz|] vs]; cbn [expected_rejects]; [constructor|apply M, IH|].
  constructor; [exists h, d; split; [left; reflexivity|reflexivity]|apply M, IH].
Qed.

(* what the run rejected, and what it leaves in the record, is ALWAYS fit for the unified form *)
Lemma rejected_always_wf o f p r rj :
  rejected_by o f p r rj -> Forall wf_hunk (hunks p) -> Forall wf_hunk rj /\ Forall wf_hunk (hunks (r_patch r)).
Proof.
  intros (q & vs & Hq & Hp & _ & -> & _) Hwf.
  assert (Wq : Forall wf_hunk (hunks q)).
  { apply (both_ways (fun hs => Forall wf_hunk hs) o p q); [exact Hwf|apply Forall_wf_hunk_reverse; exact Hwf|exact Hq]. }
  split; [apply rejects_always_wf; exact Wq|]. rewrite Hp. cbn [set_hunks hunks]. apply left_always_wf. exact Wq.
Qed.

(* (a) Unified form: NO condition on ranges is left.  Whatever the run (normal, skipped, taken as reversed, -R), whatever the
   hunks claim (overlapping, out of order, inconsistent starts), the reject file of a patch whose hunks are fit for the
   unified form is read back as the rejected hunks: same counts, same bodies, starts shift_start-ed (the start moved by the
   net growth of the hunks applied before, stopped at 0 below and at 2^63-1 above). *)
Theorem apply_patch_unified_reject_always_reparses o f p r strip :
  define_macro o = [] -> apply_patch o f p = Ok r -> r_failed r <> 0%nat ->
  should_write_as_unified o (r_patch r) = true ->
  hdr_ok (old_path (r_patch r)) (old_time (r_patch r)) -> hdr_ok (new_path (r_patch r)) (new_time (r_patch r)) ->
  Forall wf_hunk (hunks p) ->
  exists rj p', rejected_by o f p r rj /\ length rj = r_failed r /\ Forall wf_hunk rj /\
                parse_patch (r_rej r) FUnknown strip = Ok p' /\ read_back r strip FUnified rj p'.
Proof.
  intros Hd Ha Hn Hu Ho Hnw Hwf.
  destruct (apply_patch_unified_reject_reparses o f p r strip Hd Ha Hn Hu Ho Hnw) as (rj & Hb & Hl & Hp).
  destruct (rejected_always_wf o f p r rj Hb Hwf) as [Wr _].
  destruct (Hp Wr) as (p' & P1 & P2). exists rj, p'. auto.
Qed.

(* (d) Context form: only the upper room is left *)
Lemma rejected_wf_context_upper o f p r rj :
  rejected_by o f p r rj ->
  Forall wf_hunk_c (hunks p) -> Forall wf_hunk_c (map reverse_hunk (hunks p)) ->
  room_above 0 (hunks p) -> room_above 0 (map reverse_hunk (hunks p)) ->
  Forall wf_hunk_c rj.
Proof.
  intros (q & vs & Hq & Hp & _ & -> & _) W1 W2 R1 R2.
  assert (X : Forall wf_hunk_c (hunks q) /\ room_above 0 (hunks q)).
  { apply (both_ways (fun hs => Forall wf_hunk_c hs /\ room_above 0 hs) o p q); [split; assumption|split; assumption|exact Hq]. }
  destruct X as [Wq Ra]. apply (rejects_wf_context_upper _ vs 0 0 Wq Ra). lia.
Qed.

Theorem apply_patch_context_reject_always_reparses o f p r strip :
  define_macro o = [] -> apply_patch o f p = Ok r -> r_failed r <> 0%nat ->
  should_write_as_unified o (r_patch r) = false ->
  hdr_ok (old_path (r_patch r)) (old_time (r_patch r)) -> hdr_ok (new_path (r_patch r)) (new_time (r_patch r)) ->
  Forall wf_hunk_c (hunks p) -> Forall wf_hunk_c (map reverse_hunk (hunks p)) ->
  room_above 0 (hunks p) -> room_above 0 (map reverse_hunk (hunks p)) ->
  exists rj p', rejected_by o f p r rj /\ length rj = r_failed r /\ Forall wf_hunk_c rj /\
                parse_patch (r_rej r) FUnknown strip = Ok p' /\ read_back r strip FContext (map norm_hunk rj) p'.
Proof.
  intros Hd Ha Hn Hu Ho Hnw W1 W2 R1 R2.
  destruct (apply_patch_context_reject_reparses o f p r strip Hd Ha Hn Hu Ho Hnw) as (rj & Hrb & Hl & Hp).
  pose proof (rejected_wf_context_upper o f p r rj Hrb W1 W2 R1 R2) as Wr.
  destruct (Hp Wr) as (p' & P1 & P2). exists rj, p'. auto.
Qed.

(* the upper room from the shape of a diff: old ranges and new ranges increasing and disjoint, every range ending at or
   below (2^63-1)/2; nothing is asked of the new starts against the lines removed before *)
Lemma ordered_room_above hs :
  Forall wf_hunk_c hs -> increasing_disjoint (map reverse_hunk hs) -> Forall half_bound hs -> room_above 0 hs.
Proof.
  intros Hwf In Hb. apply room_above_of_disjoint; [|exact Hb|exact In|].
  - eapply Forall_impl; [|exact Hwf]. exact wf_hunk_c_counts.
  - destruct hs as [|h t]; [exact I|]. inversion Hwf as [|? ? Wh _]; subst. apply (wf_hunk_c_starts h Wh).
Qed.

Theorem apply_patch_context_reject_reparses_ordered o f p r strip :
  define_macro o = [] -> apply_patch o f p = Ok r -> r_failed r <> 0%nat ->
  should_write_as_unified o (r_patch r) = false ->
  hdr_ok (old_path (r_patch r)) (old_time (r_patch r)) -> hdr_ok (new_path (r_patch r)) (new_time (r_patch r)) ->
  Forall wf_hunk_c (hunks p) -> Forall wf_hunk_c (map reverse_hunk (hunks p)) ->
  increasing_disjoint (hunks p) -> increasing_disjoint (map reverse_hunk (hunks p)) -> Forall half_bound (hunks p) ->
  exists rj p', rejected_by o f p r rj /\ length rj = r_failed r /\ Forall wf_hunk_c rj /\
                parse_patch (r_rej r) FUnknown strip = Ok p' /\ read_back r strip FContext (map norm_hunk rj) p'.
Proof.
  intros Hd Ha Hn Hu Ho Hnw W1 W2 I1 I2 Hb.
  apply (apply_patch_context_reject_always_reparses o f p r strip Hd Ha Hn Hu Ho Hnw W1 W2).
  - apply ordered_room_above; assumption.
  - apply ordered_room_above; [exact W2|rewrite map_reverse_twice; exact I1|apply Forall_half_bound_reverse; exact Hb].
Qed.

(* both forms in one statement: the hunks fit for both forms and both directions; the upper room only for the context form *)
Theorem apply_patch_reject_always_reparses o f p r strip :
  define_macro o = [] -> apply_patch o f p = Ok r -> r_failed r <> 0%nat ->
  hdr_ok (old_path (r_patch r)) (old_time (r_patch r)) -> hdr_ok (new_path (r_patch r)) (new_time (r_patch r)) ->
  Forall wf_hunk_two (hunks p) ->
  (should_write_as_unified o (r_patch r) = false -> room_above 0 (hunks p) /\ room_above 0 (map reverse_hunk (hunks p))) ->
  exists rj p', rejected_by o f p r rj /\ length rj = r_failed r /\
                parse_patch (r_rej r) FUnknown strip = Ok p' /\
                if should_write_as_unified o (r_patch r) then read_back r strip FUnified rj p'
                else read_back r strip FContext (map norm_hunk rj) p'.
Proof.
  intros Hd Ha Hn Ho Hnw Hwf Hr.
  destruct (wf_hunk_two_both _ Hwf) as [W1 W2].
  destruct (should_write_as_unified o (r_patch r)) eqn:Hu.
  - assert (Wu : Forall wf_hunk (hunks p)).
    { rewrite Forall_forall in Hwf, W1. apply Forall_forall. intros h Hh.
      destruct (Hwf h Hh) as (_ & (So & Co & Fo) & (Sn & Cn & Fn) & _).
      apply wf_hunk_c_unified; [apply W1; exact Hh|exact Fo|exact Fn]. }
    destruct (apply_patch_unified_reject_always_reparses o f p r strip Hd Ha Hn Hu Ho Hnw Wu)
      as (rj & p' & A & B & _ & C & D). exists rj, p'. auto.
  - destruct (Hr eq_refl) as [R1 R2].
    destruct (apply_patch_context_reject_always_reparses o f p r strip Hd Ha Hn Hu Ho Hnw W1 W2 R1 R2)
      as (rj & p' & A & B & _ & C & D). exists rj, p'. auto.
Qed.

(* (b) inside the rooms the hunks read back are the rejected hunks moved by EXACTLY the net growth of the hunks applied
   before them (no stop at 0, no saturation) *)
Lemma rejected_exact o f p r rj :
  rejected_by o f p r rj -> Forall counts_nonneg (hunks p) -> rooms (hunks p) -> rooms (map reverse_hunk (hunks p)) ->
  let p1 := if reverse_patch_opt o then reverse_patch p else p in
  exists q vs, (q = p1 \/ q = reverse_patch p1) /\ length vs = length (hunks q) /\ rj = moved_rejects vs (hunks q) 0.
Proof.
  intros (q & vs & Hq & Hp & Hl & -> & _) Hc R1 R2 p1. exists q, vs. split; [exact Hq|]. split; [exact Hl|].
  assert (X : Forall counts_nonneg (hunks q) /\ rooms (hunks q)).
  { apply (both_ways (fun hs => Forall counts_nonneg hs /\ rooms hs) o p q); [split; assumption| |exact Hq].
    split; [|exact R2]. apply Forall_map. eapply Forall_impl; [|exact Hc]. intros h [A B]. split; assumption. }
  destruct X as [Cq [Rb Ra]]. apply (rejects_exact _ vs 0 0 0 Cq Rb Ra). lia.
Qed.

(* ---------- checks by computation ---------- *)
Fixpoint increasing_disjointb (hs : list hunk) : bool :=
  match hs with
  | h :: t => match t with
              | h' :: _ => Z.leb (rstart (oldr h) + rcount (oldr h)) (rstart (oldr h'))
              | [] => true
              end && increasing_disjointb t
  | [] => true
  end.

Lemma increasing_disjointb_ok : forall hs, increasing_disjointb hs = true -> increasing_disjoint hs.
Proof.
  induction hs as [|h t IH]; [intros _; exact I|]. cbn [increasing_disjointb increasing_disjoint]. intros H.
  apply andb_true_iff in H. destruct H as [H1 H2]. split; [|apply IH; exact H2].
  destruct t as [|h' t']; [exact I|]. apply Z.leb_le. exact H1.
Qed.

Fixpoint new_roomb (lo : Z) (hs : list hunk) : bool :=
  match hs with [] => true | h :: t => Z.leb lo (rstart (newr h)) && new_roomb (lo + shrink h) t end.

Lemma new_roomb_ok : forall hs lo, new_roomb lo hs = true -> new_room lo hs.
Proof.
  induction hs as [|h t IH]; intros lo; [intros _; exact I|]. cbn [new_roomb new_room]. intros H.
  apply andb_true_iff in H. destruct H as [H1 H2]. split; [apply Z.leb_le; exact H1|apply IH; exact H2].
Qed.

Definition diff_styleb (hs : list hunk) : bool := increasing_disjointb hs && new_roomb 0 hs.

Lemma diff_styleb_ok hs : diff_styleb hs = true -> diff_style hs.
Proof.
  unfold diff_styleb. intros H. apply andb_true_iff in H. destruct H as [H1 H2].
  split; [apply increasing_disjointb_ok; exact H1|apply new_roomb_ok; exact H2].
Qed.

Definition half_boundb (h : hunk) : bool :=
  Z.leb (rstart (oldr h) + rcount (oldr h)) (MAXZ / 2) && Z.leb (rstart (newr h) + rcount (newr h)) (MAXZ / 2).

Lemma half_boundb_ok h : half_boundb h = true -> half_bound h.
Proof. unfold half_boundb. intros H. apply andb_true_iff in H. destruct H as [H1 H2]. split; apply Z.leb_le; assumption. Qed.

Fixpoint room_aboveb (hi : Z) (hs : list hunk) : bool :=
  match hs with
  | [] => true
  | h :: t => Z.leb (rstart (oldr h) + rcount (oldr h) + hi) MAXZ && Z.leb (rstart (newr h) + rcount (newr h) + hi) MAXZ &&
              room_aboveb (hi + grow h) t
  end.

Lemma room_aboveb_ok : forall hs hi, room_aboveb hi hs = true -> room_above hi hs.
Proof.
  induction hs as [|h t IH]; intros hi; [intros _; exact I|]. cbn [room_aboveb room_above]. intros H.
  apply andb_true_iff in H. destruct H as [H H3]. apply andb_true_iff in H. destruct H as [H1 H2].
  split; [apply Z.leb_le; exact H1|]. split; [apply Z.leb_le; exact H2|apply IH; exact H3].
Qed.

Definition wf_crange_fullb (r : range) : bool :=
  Z.leb 0 (rstart r) && Z.leb 0 (rcount r) && Z.leb (rstart r + rcount r) MAXZ.

Lemma wf_crange_fullb_ok r : wf_crange_fullb r = true -> wf_crange r.
Proof.
  unfold wf_crange_fullb, wf_crange. intros H. apply andb_true_iff in H. destruct H as [H H3].
  apply andb_true_iff in H. destruct H as [H1 H2]. apply Z.leb_le in H1, H2, H3. auto.
Qed.

Definition wf_hunk_twob (h : hunk) : bool :=
  negb (is_nil (body h)) && wf_crange_fullb (oldr h) && wf_crange_fullb (newr h) &&
  Z.eqb (rcount (oldr h)) (n_old (body h)) && Z.eqb (rcount (newr h)) (n_new (body h)) &&
  side_okb (old_side (body h)) && side_okb (new_side (body h)).

Lemma wf_hunk_twob_ok h : wf_hunk_twob h = true -> wf_hunk_two h.
Proof.
  unfold wf_hunk_twob, wf_hunk_two. intros H.
  apply andb_true_iff in H. destruct H as [H H7]. apply andb_true_iff in H. destruct H as [H H6].
  apply andb_true_iff in H. destruct H as [H H5]. apply andb_true_iff in H. destruct H as [H H4].
  apply andb_true_iff in H. destruct H as [H H3]. apply andb_true_iff in H. destruct H as [H1 H2].
  split; [intros E; rewrite E in H1; discriminate|].
  split; [apply wf_crange_fullb_ok; exact H2|]. split; [apply wf_crange_fullb_ok; exact H3|].
  split; [apply Z.eqb_eq; exact H4|]. split; [apply Z.eqb_eq; exact H5|].
  split; apply side_okb_ok; assumption.
Qed.


(* ---------- (3) examples ---------- *)
Module RejectWfExamples.
Import RejectFileExamples.
Local Open Scope string_scope.

(* the file: twelve lines a..l; the patch, as a diff tool writes it: three hunks with one line of context, the second one
   (lines 5..7, two lines longer afterwards) applies, the first and the third do not fit the file *)
Definition d_lines : list line :=
  [xl "a"; xl "b"; xl "c"; xl "d"; xl "e"; xl "f"; xl "g"; xl "h"; xl "i"; xl "j"; xl "k"; xl "l"].
Definition d_h1 : hunk :=
  mkHunk (mkRange 1 3) (mkRange 1 3) [mkPL Ctx (xl "a"); mkPL Del (xl "X"); mkPL Add (xl "B"); mkPL Ctx (xl "c")].
Definition d_h2 : hunk :=
  mkHunk (mkRange 5 3) (mkRange 5 5)
         [mkPL Ctx (xl "e"); mkPL Del (xl "f"); mkPL Add (xl "F"); mkPL Add (xl "F2"); mkPL Add (xl "F3"); mkPL Ctx (xl "g")].
Definition d_h3 : hunk :=
  mkHunk (mkRange 10 3) (mkRange 12 3) [mkPL Ctx (xl "j"); mkPL Del (xl "Y"); mkPL Add (xl "K"); mkPL Ctx (xl "l")].
Definition d_p : patch :=
  mkPatch FUnified OpChange [] [] (bs "f.txt") (bs "f.txt") (bs "2024-01-01 10:00:00") (bs "2024-01-02 11:00:00") 0 0
          [d_h1; d_h2; d_h3].
(* the third hunk as the reject file holds it: both starts two lines further *)
Definition d_h3' : hunk :=
  mkHunk (mkRange 12 3) (mkRange 14 3) [mkPL Ctx (xl "j"); mkPL Del (xl "Y"); mkPL Add (xl "K"); mkPL Ctx (xl "l")].

(* every condition on the input, by computation *)
Lemma d_wf : Forall (fun h => wf_hunk h /\ wf_hunk_c h) (hunks d_p).
Proof. apply (forallb_Forall _ wf_hunk_bothb); [exact wf_hunk_bothb_ok|vm_compute; reflexivity]. Qed.
Lemma d_wf_rev : Forall wf_hunk_c (map reverse_hunk (hunks d_p)).
Proof. apply (forallb_Forall _ wf_hunk_cb); [exact wf_hunk_cb_ok|vm_compute; reflexivity]. Qed.
Lemma d_style : diff_style (hunks d_p) /\ diff_style (map reverse_hunk (hunks d_p)).
Proof. split; apply diff_styleb_ok; vm_compute; reflexivity. Qed.
Lemma d_half : Forall half_bound (hunks d_p).
Proof. apply (forallb_Forall _ half_boundb); [exact half_boundb_ok|vm_compute; reflexivity]. Qed.
(* it is a diff: the new positions are the old positions plus the growth so far *)
Lemma d_consistent : starts_consistent 0 (hunks d_p).
Proof. vm_compute. repeat split; reflexivity. Qed.
(* ... and what a diff tool writes in the sense of genuine_diff *)
Lemma d_genuine : genuine_diff (hunks d_p).
Proof.
  split; [|split; [exact d_consistent|split]].
  - vm_compute. intuition discriminate.
  - vm_compute. discriminate.
  - repeat constructor; vm_compute; discriminate.
Qed.

Example d_runs :
  (exists r, apply_patch default_options d_lines d_p = Ok r /\ r_failed r = 2%nat) /\
  (exists r, apply_patch ex_oc d_lines d_p = Ok r /\ r_failed r = 2%nat).
Proof. split; eexists; (split; [vm_compute; reflexivity|reflexivity]). Qed.

(* unified form, through the theorem: the reject file holds "@@ -1,3 +1,3 @@" with the first hunk and "@@ -12,3 +14,3 @@"
   with the third, and is read back as these two hunks *)
Example d_unified_reject r :
  apply_patch default_options d_lines d_p = Ok r ->
  exists rj p', rejected_by default_options d_lines d_p r rj /\
                parse_patch (r_rej r) FUnknown (-1) = Ok p' /\ read_back r (-1) FUnified rj p' /\
                rj = [shift_hunk d_h1 0; shift_hunk d_h3 2] /\ hunks p' = [d_h1; d_h3'] /\
                old_path p' = bs "f.txt" /\ new_path p' = bs "f.txt".
Proof.
  intros Hr. pose proof Hr as Hc. vm_compute in Hc. injection Hc as Er.
  destruct (apply_patch_unified_reject_reparses_diff_input default_options d_lines d_p r (-1) eq_refl Hr)
    as (rj & p' & Hb & Hl & Hw & Hp & Hrb).
  - rewrite <- Er. discriminate.
  - rewrite <- Er. reflexivity.
  - apply hdr_okb_ok. rewrite <- Er. vm_compute. reflexivity.
  - apply hdr_okb_ok. rewrite <- Er. vm_compute. reflexivity.
  - eapply Forall_impl; [|exact d_wf]. intros h Hh. apply Hh.
  - apply d_style.
  - apply d_style.
  - exists rj, p'. split; [exact Hb|]. split; [exact Hp|]. split; [exact Hrb|].
    rewrite <- Er in Hp. vm_compute in Hp. injection Hp as Ep.
    destruct Hrb as (_ & Hh & _). rewrite <- Hh, <- Ep. repeat split; reflexivity.
Qed.

(* the same through the statement for what a diff tool writes *)
Example d_unified_reject_genuine r :
  apply_patch default_options d_lines d_p = Ok r ->
  exists rj p', rejected_by default_options d_lines d_p r rj /\ length rj = 2%nat /\
                parse_patch (r_rej r) FUnknown (-1) = Ok p' /\ read_back r (-1) FUnified rj p'.
Proof.
  intros Hr. pose proof Hr as Hc. vm_compute in Hc. injection Hc as Er.
  destruct (apply_patch_unified_reject_reparses_genuine_diff default_options d_lines d_p r (-1) eq_refl Hr)
    as (rj & p' & Hb & Hl & Hw & Hp & Hrb).
  - rewrite <- Er. discriminate.
  - rewrite <- Er. reflexivity.
  - apply hdr_okb_ok. rewrite <- Er. vm_compute. reflexivity.
  - apply hdr_okb_ok. rewrite <- Er. vm_compute. reflexivity.
  - eapply Forall_impl; [|exact d_wf]. intros h Hh. apply Hh.
  - exact d_genuine.
  - exists rj, p'. split; [exact Hb|]. split; [rewrite Hl, <- Er; reflexivity|]. split; [exact Hp|exact Hrb].
Qed.

(* context form: "*** 1,3 ****" / "--- 1,3 ----" and "*** 12,14 ****" / "--- 14,16 ----" *)
Example d_context_reject r :
  apply_patch ex_oc d_lines d_p = Ok r ->
  exists rj p', rejected_by ex_oc d_lines d_p r rj /\ length rj = 2%nat /\
                parse_patch (r_rej r) FUnknown (-1) = Ok p' /\ read_back r (-1) FContext (map norm_hunk rj) p' /\
                hunks p' = [d_h1; d_h3'] /\ old_path p' = bs "f.txt" /\ new_path p' = bs "f.txt".
Proof.
  intros Hr. pose proof Hr as Hc. vm_compute in Hc. injection Hc as Er.
  destruct (apply_patch_context_reject_reparses_diff_input ex_oc d_lines d_p r (-1) eq_refl Hr)
    as (rj & p' & Hb & Hl & Hw & Hp & Hrb).
  - rewrite <- Er. discriminate.
  - rewrite <- Er. reflexivity.
  - apply hdr_okb_ok. rewrite <- Er. vm_compute. reflexivity.
  - apply hdr_okb_ok. rewrite <- Er. vm_compute. reflexivity.
  - eapply Forall_impl; [|exact d_wf]. intros h Hh. apply Hh.
  - exact d_wf_rev.
  - apply d_style.
  - apply d_style.
  - exact d_half.
  - exists rj, p'. split; [exact Hb|]. split; [rewrite Hl, <- Er; reflexivity|]. split; [exact Hp|]. split; [exact Hrb|].
    rewrite <- Er in Hp. vm_compute in Hp. injection Hp as Ep. rewrite <- Ep. repeat split; reflexivity.
Qed.

(* -R: the patch is given the other way round (old and new swapped) and reversed by the run; the conditions are asked of
   the hunks as given and of their reversals, and the reject file is the same *)
Definition o_R : options :=
  mkOptions false false [] [] false [] false false false [] (-1)%Z 2%Z true [] []
            false false false false false false false false OBUnset OBUnset MNative RFDefault ROWarn QSUnset [] [].
Definition d_pR : patch := reverse_patch d_p.

Example d_unified_reject_R r :
  apply_patch o_R d_lines d_pR = Ok r ->
  exists rj p', rejected_by o_R d_lines d_pR r rj /\ length rj = 2%nat /\
                parse_patch (r_rej r) FUnknown (-1) = Ok p' /\ read_back r (-1) FUnified rj p' /\ hunks p' = [d_h1; d_h3'].
Proof.
  intros Hr. pose proof Hr as Hc. vm_compute in Hc. injection Hc as Er.
  destruct (apply_patch_unified_reject_reparses_diff_input o_R d_lines d_pR r (-1) eq_refl Hr)
    as (rj & p' & Hb & Hl & Hw & Hp & Hrb).
  - rewrite <- Er. discriminate.
  - rewrite <- Er. reflexivity.
  - apply hdr_okb_ok. rewrite <- Er. vm_compute. reflexivity.
  - apply hdr_okb_ok. rewrite <- Er. vm_compute. reflexivity.
  - eapply Forall_impl; [|apply (forallb_Forall _ wf_hunk_bothb (hunks d_pR) wf_hunk_bothb_ok); vm_compute; reflexivity].
    intros h Hh. apply Hh.
  - apply diff_styleb_ok. vm_compute. reflexivity.
  - apply diff_styleb_ok. vm_compute. reflexivity.
  - exists rj, p'. split; [exact Hb|]. split; [rewrite Hl, <- Er; reflexivity|]. split; [exact Hp|]. split; [exact Hrb|].
    rewrite <- Er in Hp. vm_compute in Hp. injection Hp as Ep. rewrite <- Ep. reflexivity.
Qed.

(* the statement for both forms, every hypothesis by computation *)
Example d_either_form o r :
  o = default_options \/ o = ex_oc ->
  apply_patch o d_lines d_p = Ok r ->
  exists rj p', rejected_by o d_lines d_p r rj /\ length rj = 2%nat /\
                parse_patch (r_rej r) FUnknown (-1) = Ok p' /\ hunks p' = [d_h1; d_h3'].
Proof.
  intros Ho Hr.
  assert (Er : exists r0, apply_patch o d_lines d_p = Ok r0 /\ r_failed r0 = 2%nat /\
                          hdr_okb (old_path (r_patch r0)) (old_time (r_patch r0)) = true /\
                          hdr_okb (new_path (r_patch r0)) (new_time (r_patch r0)) = true /\
                          forall p', parse_patch (r_rej r0) FUnknown (-1) = Ok p' -> hunks p' = [d_h1; d_h3']).
  { destruct Ho as [-> | ->]; eexists; (split; [vm_compute; reflexivity|]);
      (split; [reflexivity|]); (split; [vm_compute; reflexivity|]); (split; [vm_compute; reflexivity|]);
      intros p' Hp; vm_compute in Hp; injection Hp as <-; reflexivity. }
  destruct Er as (r0 & E0 & Hf & H1 & H2 & Hh). assert (r0 = r) by congruence. subst r0.
  destruct (apply_patch_reject_reparses_diff_input o d_lines d_p r (-1)) as (rj & p' & Hb & Hl & Hp & _).
  - destruct Ho as [-> | ->]; reflexivity.
  - exact Hr.
  - rewrite Hf. discriminate.
  - apply hdr_okb_ok. exact H1.
  - apply hdr_okb_ok. exact H2.
  - apply (forallb_Forall _ wf_hunk_twob); [exact wf_hunk_twob_ok|vm_compute; reflexivity].
  - apply d_style.
  - apply d_style.
  - exact d_half.
  - exists rj, p'. split; [exact Hb|]. split; [congruence|]. split; [exact Hp|]. apply Hh. exact Hp.
Qed.

(* ---- the condition on the new starts is needed, and a diff tool does not guarantee it ---- *)
(* A genuine diff of a..h against f,g',h with no context: "@@ -1,5 +0,0 @@" removes the first five lines, "@@ -7 +2 @@"
   changes old line 7, which is new line 2.  Old ranges and new ranges are increasing and disjoint, the new positions are
   the old positions plus the growth so far — but new start 2 is below the five lines removed before.  On a file where the
   first hunk applies and the second does not, the second one is written with both starts moved by -5 (see
   removed_top_new_start_stops_at_zero below). *)
Definition n_g2 : hunk := mkHunk (mkRange 7 1) (mkRange 2 1) [mkPL Del (xl "X"); mkPL Add (xl "Y")].
Definition n_p : patch := mkPatch FUnified OpChange [] [] (bs "f.txt") (bs "f.txt") [] [] 0 0 [ex_g1; n_g2].

Example n_is_a_diff :
  Forall wf_hunk (hunks n_p) /\ increasing_disjoint (hunks n_p) /\ increasing_disjoint (map reverse_hunk (hunks n_p)) /\
  starts_consistent 0 (hunks n_p) /\ ~ new_room 0 (hunks n_p).
Proof.
  split; [|split; [|split; [|split]]].
  - eapply Forall_impl; [|apply (forallb_Forall _ wf_hunk_bothb (hunks n_p) wf_hunk_bothb_ok); vm_compute; reflexivity].
    intros h Hh. apply Hh.
  - apply increasing_disjointb_ok. vm_compute. reflexivity.
  - apply increasing_disjointb_ok. vm_compute. reflexivity.
  - vm_compute. repeat split; reflexivity.
  - intros (_ & H & _). vm_compute in H. apply H. reflexivity.
Qed.

(* Before the repair e07e11a of the program the reject file of this run said "@@ -2 +-3 @@" / "--- -3 ----" and was refused
   by the parser.  Now the new start stops at 0: the file says "@@ -2 +0 @@" / "--- 0 ----" and is read back, the body
   unchanged; the new start is 0 and not 2 - 5 (outside new_room the shift is not exact). *)
Definition n_g2' : hunk := mkHunk (mkRange 2 1) (mkRange 0 1) [mkPL Del (xl "X"); mkPL Add (xl "Y")].

Example removed_top_new_start_stops_at_zero :
  (exists r, apply_patch default_options ex_lines n_p = Ok r /\ r_failed r = 1%nat /\
             r_rej r = bs "--- f.txt" ++ [10%N] ++ bs "+++ f.txt" ++ [10%N] ++ bs "@@ -2 +0 @@" ++ [10%N] ++
                       bs "-X" ++ [10%N] ++ bs "+Y" ++ [10%N] /\
             exists p', parse_patch (r_rej r) FUnknown (-1) = Ok p' /\ hunks p' = [n_g2'] /\ shift_hunk n_g2 (-5) = n_g2') /\
  (exists r, apply_patch ex_oc ex_lines n_p = Ok r /\ r_failed r = 1%nat /\
             r_rej r = bs "*** f.txt" ++ [10%N] ++ bs "--- f.txt" ++ [10%N] ++ bs "***************" ++ [10%N] ++
                       bs "*** 2 ****" ++ [10%N] ++ bs "! X" ++ [10%N] ++ bs "--- 0 ----" ++ [10%N] ++ bs "! Y" ++ [10%N] /\
             exists p', parse_patch (r_rej r) FUnknown (-1) = Ok p' /\ hunks p' = [n_g2']).
Proof.
  split; eexists; (split; [vm_compute; reflexivity|]); (split; [vm_compute; reflexivity|]);
    (split; [vm_compute; reflexivity|]); eexists; (split; [vm_compute; reflexivity|]); repeat split; vm_compute; reflexivity.
Qed.

(* the same through the theorems that ask nothing of the ranges (unified) or only the upper room (context) *)
Example n_unified_reject r :
  apply_patch default_options ex_lines n_p = Ok r ->
  exists rj p', rejected_by default_options ex_lines n_p r rj /\ length rj = 1%nat /\
                parse_patch (r_rej r) FUnknown (-1) = Ok p' /\ read_back r (-1) FUnified rj p' /\ hunks p' = [n_g2'].
Proof.
  intros Hr. pose proof Hr as Hc. vm_compute in Hc. injection Hc as Er.
  destruct (apply_patch_unified_reject_always_reparses default_options ex_lines n_p r (-1) eq_refl Hr)
    as (rj & p' & Hb & Hl & Hw & Hp & Hrb).
  - rewrite <- Er. discriminate.
  - rewrite <- Er. reflexivity.
  - apply hdr_okb_ok. rewrite <- Er. vm_compute. reflexivity.
  - apply hdr_okb_ok. rewrite <- Er. vm_compute. reflexivity.
  - apply n_is_a_diff.
  - exists rj, p'. split; [exact Hb|]. split; [rewrite Hl, <- Er; reflexivity|]. split; [exact Hp|]. split; [exact Hrb|].
    rewrite <- Er in Hp. vm_compute in Hp. injection Hp as Ep. rewrite <- Ep. reflexivity.
Qed.

Example n_context_reject r :
  apply_patch ex_oc ex_lines n_p = Ok r ->
  exists rj p', rejected_by ex_oc ex_lines n_p r rj /\ length rj = 1%nat /\
                parse_patch (r_rej r) FUnknown (-1) = Ok p' /\ read_back r (-1) FContext (map norm_hunk rj) p' /\
                hunks p' = [n_g2'].
Proof.
  intros Hr. pose proof Hr as Hc. vm_compute in Hc. injection Hc as Er.
  destruct (apply_patch_context_reject_always_reparses ex_oc ex_lines n_p r (-1) eq_refl Hr)
    as (rj & p' & Hb & Hl & Hw & Hp & Hrb).
  - rewrite <- Er. discriminate.
  - rewrite <- Er. reflexivity.
  - apply hdr_okb_ok. rewrite <- Er. vm_compute. reflexivity.
  - apply hdr_okb_ok. rewrite <- Er. vm_compute. reflexivity.
  - apply (forallb_Forall _ wf_hunk_cb); [exact wf_hunk_cb_ok|vm_compute; reflexivity].
  - apply (forallb_Forall _ wf_hunk_cb); [exact wf_hunk_cb_ok|vm_compute; reflexivity].
  - apply room_aboveb_ok. vm_compute. reflexivity.
  - apply room_aboveb_ok. vm_compute. reflexivity.
  - exists rj, p'. split; [exact Hb|]. split; [rewrite Hl, <- Er; reflexivity|]. split; [exact Hp|]. split; [exact Hrb|].
    rewrite <- Er in Hp. vm_compute in Hp. injection Hp as Ep. rewrite <- Ep. reflexivity.
Qed.

(* overlapping hunks (negative_start_stops_at_zero of Proofs_RejectFile.v), through the theorem: no condition on ranges *)
Example overlapping_reads_back r :
  apply_patch default_options ex_lines ex_p_neg = Ok r ->
  exists rj p', rejected_by default_options ex_lines ex_p_neg r rj /\
                parse_patch (r_rej r) FUnknown (-1) = Ok p' /\ read_back r (-1) FUnified rj p' /\
                rj = [mkHunk (mkRange 0 1) (mkRange 0 1) (body ex_g2)].
Proof.
  intros Hr. pose proof Hr as Hc. vm_compute in Hc. injection Hc as Er.
  destruct (apply_patch_unified_reject_always_reparses default_options ex_lines ex_p_neg r (-1) eq_refl Hr)
    as (rj & p' & Hb & Hl & Hw & Hp & Hrb).
  - rewrite <- Er. discriminate.
  - rewrite <- Er. reflexivity.
  - apply hdr_okb_ok. rewrite <- Er. vm_compute. reflexivity.
  - apply hdr_okb_ok. rewrite <- Er. vm_compute. reflexivity.
  - eapply Forall_impl; [|apply (forallb_Forall _ wf_hunk_bothb (hunks ex_p_neg) wf_hunk_bothb_ok); vm_compute; reflexivity].
    intros h Hh. apply Hh.
  - exists rj, p'. split; [exact Hb|]. split; [exact Hp|]. split; [exact Hrb|].
    rewrite <- Er in Hp. vm_compute in Hp. injection Hp as Ep. destruct Hrb as (_ & Hh & _). rewrite <- Hh, <- Ep. reflexivity.
Qed.

(* ---- the upper room is still needed for the context form ---- *)
(* the first hunk applies and adds a line; the second, two lines at 2^63-3, is rejected and moved to 2^63-2: its end would be
   2^63 and this tool's parser refuses the context reject file; the unified one is read back *)
Definition u_h1 : hunk := mkHunk (mkRange 1 1) (mkRange 1 2) [mkPL Ctx (xl "a"); mkPL Add (xl "A")].
Definition u_h2 : hunk :=
  mkHunk (mkRange (MAXZ - 2) 2) (mkRange (MAXZ - 2) 2) [mkPL Del (xl "X"); mkPL Del (xl "X2"); mkPL Add (xl "Y"); mkPL Add (xl "Y2")].
Definition u_p : patch := mkPatch FUnified OpChange [] [] (bs "f.txt") (bs "f.txt") [] [] 0 0 [u_h1; u_h2].

Example upper_room_needed :
  Forall wf_hunk_c (hunks u_p) /\ Forall wf_hunk_c (map reverse_hunk (hunks u_p)) /\
  increasing_disjoint (hunks u_p) /\ increasing_disjoint (map reverse_hunk (hunks u_p)) /\ ~ room_above 0 (hunks u_p) /\
  (exists r, apply_patch ex_oc ex_lines u_p = Ok r /\ r_failed r = 1%nat /\
             parse_patch (r_rej r) FUnknown (-1) = Throw ERuntime) /\
  (exists r p', apply_patch default_options ex_lines u_p = Ok r /\ r_failed r = 1%nat /\
                parse_patch (r_rej r) FUnknown (-1) = Ok p' /\ hunks p' = [shift_hunk u_h2 1]).
Proof.
  split; [apply (forallb_Forall _ wf_hunk_cb); [exact wf_hunk_cb_ok|vm_compute; reflexivity]|].
  split; [apply (forallb_Forall _ wf_hunk_cb); [exact wf_hunk_cb_ok|vm_compute; reflexivity]|].
  split; [apply increasing_disjointb_ok; vm_compute; reflexivity|].
  split; [apply increasing_disjointb_ok; vm_compute; reflexivity|].
  split; [intros (_ & _ & H & _); vm_compute in H; apply H; reflexivity|].
  split.
  - eexists. split; [vm_compute; reflexivity|]. split; vm_compute; reflexivity.
  - eexists. eexists. split; [vm_compute; reflexivity|]. split; [reflexivity|]. split; vm_compute; reflexivity.
Qed.
End RejectWfExamples.

Print Assumptions exact_shift_room.
Print Assumptions apply_patch_unified_reject_reparses_room.
Print Assumptions apply_patch_context_reject_reparses_room.
Print Assumptions apply_patch_unified_reject_reparses_diff_input.
Print Assumptions apply_patch_unified_reject_reparses_genuine_diff.
Print Assumptions apply_patch_unified_reject_reparses_diff_input_force.
Print Assumptions apply_patch_context_reject_reparses_diff_input.
Print Assumptions apply_patch_context_reject_reparses_diff_input_force.
Print Assumptions apply_patch_reject_reparses_diff_input.
Print Assumptions RejectWfExamples.d_unified_reject.
Print Assumptions RejectWfExamples.d_context_reject.
Print Assumptions RejectWfExamples.d_unified_reject_R.
Print Assumptions RejectWfExamples.d_either_form.
Print Assumptions apply_patch_unified_reject_always_reparses.
Print Assumptions apply_patch_context_reject_always_reparses.
Print Assumptions apply_patch_context_reject_reparses_ordered.
Print Assumptions apply_patch_reject_always_reparses.
Print Assumptions rejected_exact.
Print Assumptions RejectWfExamples.removed_top_new_start_stops_at_zero.
Print Assumptions RejectWfExamples.n_unified_reject.
Print Assumptions RejectWfExamples.n_context_reject.
Print Assumptions RejectWfExamples.overlapping_reads_back.
Print Assumptions RejectWfExamples.upper_room_needed.
