(* Proofs_Rejects.v — C13: the reject file holds exactly the failed hunks, in order, each shifted by the net growth of the
   hunks applied before it. *)
From PatchV Require Import Base Lines Hunk Locator Formatter Options Applier Spec_Locate Spec_Apply
     Proofs_Base Proofs_Locate Proofs_Apply.

(* the hunks that end up in the reject file, as the verdicts determine them *)
Fixpoint expected_rejects (vs : list verdict) (hs : list hunk) (o2n : Z) : list hunk :=
  match hs, vs with
  | h :: hs', VApplied _ _ :: vs' => expected_rejects vs' hs' (o2n + (rcount (newr h) - rcount (oldr h)))%Z
  | h :: hs', VRejected :: vs' => shift_hunk h o2n :: expected_rejects vs' hs' o2n
  | _, _ => []
  end.

Definition rej_bytes (p : patch) (already : nat) (rj : list hunk) : list N :=
  match rj with
  | [] => []
  | _ => (if Nat.eqb already 0 then write_patch_header_as_unified p else []) ++ flat_map write_hunk_as_unified rj
  end.

Lemma rej_bytes_cons p n h rj :
  (if Nat.eqb n 0 then write_patch_header_as_unified p else []) ++ write_hunk_as_unified h ++ rej_bytes p (S n) rj = rej_bytes p n (h :: rj).
Proof. unfold rej_bytes. destruct rj; cbn [flat_map Nat.eqb app]; rewrite ?app_nil_r; reflexivity. Qed.

Lemma apply_one_rej o p f k s h loc s' :
  define_macro o = [] -> should_write_as_unified o p = true ->
  apply_one o p f k s h loc = Ok s' ->
  (exists l, loc = Some l /\ a_skip s = false /\ a_rej s' = a_rej s /\ a_rejected s' = a_rejected s /\
             a_o2n s' = (a_o2n s + (rcount (newr h) - rcount (oldr h)))%Z /\ a_skip s' = false /\
             a_ln s' = lline l + length (old_side (body h)) /\ a_offerr s' = sadd (a_offerr s) (loffset l)) \/
  ((loc = None \/ a_skip s = true) /\
   a_rej s' = a_rej s ++ (if Nat.eqb (a_rejected s) 0 then write_patch_header_as_unified p else []) ++ write_hunk_as_unified (shift_hunk h (a_o2n s)) /\
   a_rejected s' = S (a_rejected s) /\ a_o2n s' = a_o2n s /\ a_skip s' = a_skip s /\ a_ln s' = a_ln s /\ a_offerr s' = a_offerr s).
Proof.
  intros Hd Hu. unfold apply_one. rewrite Hd. cbn [is_nil].
  assert (Rej : forall s1, (do s1 <- (do t <- write_reject o p (a_rejected s) (shift_hunk h (a_o2n s));
       Ok (mkAS (a_out s) (a_rej s ++ t) (S (a_rejected s)) (a_ln s) (a_o2n s) (a_offerr s) (a_skip s) (a_perfect s) (a_msgs s)
                (a_hunks s ++ [shift_hunk h (a_o2n s)]), shift_hunk h (a_o2n s)));
     let '(s2, hcur) := s1 in
     let perfect_h := loc_perfect loc in
     let msgs := if verbose o || (negb perfect_h && negb (a_skip s2))
              then a_msgs s2 ++ print_hunk_statistics k (a_skip s2) loc hcur (a_o2n s2) (a_offerr s2) else a_msgs s2 in
     let o2n := if negb (a_skip s2) && loc_found loc then (a_o2n s2 + (rcount (newr hcur) - rcount (oldr hcur)))%Z else a_o2n s2 in
     Ok (mkAS (a_out s2) (a_rej s2) (a_rejected s2) (a_ln s2) o2n (a_offerr s2) (a_skip s2) (a_perfect s2 && perfect_h) msgs (a_hunks s2))) = Ok s1 ->
     (loc = None \/ a_skip s = true) ->
     a_rej s1 = a_rej s ++ (if Nat.eqb (a_rejected s) 0 then write_patch_header_as_unified p else []) ++ write_hunk_as_unified (shift_hunk h (a_o2n s)) /\
     a_rejected s1 = S (a_rejected s) /\ a_o2n s1 = a_o2n s /\ a_skip s1 = a_skip s /\ a_ln s1 = a_ln s /\ a_offerr s1 = a_offerr s).
  { intros s1. unfold write_reject. rewrite Hu. cbn [rbind]. intros [= <-] Hc. cbn.
    repeat split; auto. destruct Hc as [->|Hk]; [rewrite andb_false_r; reflexivity|rewrite Hk; reflexivity]. }
  destruct loc as [l|].
  - destruct (a_skip s) eqn:Hs; cbn [negb].
    + intros E. right. split; [right; reflexivity|]. apply Rej; auto.
    + rewrite write_hunk_splice. cbn [rbind fst snd]. intros [= <-]. left. exists l. cbn. repeat split; auto.
  - intros E. right. split; [left; reflexivity|]. apply Rej; auto.
Qed.

(* The loop of apply_patch, from any state that is not skipping: the bytes appended to the reject file are the header (before
   the first reject of the run) and then exactly the hunks whose verdict is "rejected", in their original order, each with its
   start lines shifted by the net growth (new count - old count) of the hunks applied before it; the verdicts are locate_hunk's. *)
Theorem rejects_loop o p f :
  define_macro o = [] -> should_write_as_unified o p = true ->
  forall hs k s s', a_skip s = false -> apply_rest o p f k s hs = Ok s' ->
  exists vs, verdicts_from_locate o p f (a_ln s) (a_offerr s) hs vs /\
             a_rej s' = a_rej s ++ rej_bytes p (a_rejected s) (expected_rejects vs hs (a_o2n s)) /\
             a_rejected s' = a_rejected s + length (expected_rejects vs hs (a_o2n s)).
Proof.
  intros Hd Hu. induction hs as [|h hs IH]; intros k s s' Hs; cbn [apply_rest].
  - intros [= <-]. exists []. cbn. rewrite app_nil_r. auto.
  - set (loc := locate_for p f h (ignore_whitespace o) (a_offerr s) (max_fuzz o) (a_ln s)).
    destruct (apply_one o p f k s h loc) as [s1|e] eqn:E1; cbn [rbind]; [|discriminate]. intros E2.
    destruct (apply_one_rej _ _ _ _ _ _ _ _ Hd Hu E1) as [(l & El & _ & Rj & Rn & Ro & Rs & Rl & Rf)|([En|Hk] & Rj & Rn & Ro & Rs & Rl & Rf)]; [| |congruence].
    + destruct (IH _ _ _ Rs E2) as (vs & Hv & Hr & Hc).
      exists (VApplied (lline l) (lfuzz l) :: vs). cbn [verdicts_from_locate expected_rejects]. split; [|split].
      * exists l. fold loc. rewrite Rl, Rf in Hv. auto.
      * rewrite Hr, Rj, Rn, Ro. reflexivity.
      * rewrite Hc, Rn, Ro. reflexivity.
    + assert (Hs1 : a_skip s1 = false) by congruence.
      destruct (IH _ _ _ Hs1 E2) as (vs & Hv & Hr & Hc).
      exists (VRejected :: vs). cbn [verdicts_from_locate expected_rejects]. split; [|split].
      * fold loc. rewrite Rl, Rf in Hv. auto.
      * rewrite Hr, Rj, Rn, Ro. rewrite <- !app_assoc. rewrite rej_bytes_cons. reflexivity.
      * rewrite Hc, Rn, Ro. cbn [length]. lia.
Qed.

(* skipped as already applied (-N): every hunk goes to the reject file, unshifted *)
Theorem rejects_skipped o p f :
  define_macro o = [] -> should_write_as_unified o p = true ->
  forall hs k s s', a_skip s = true -> apply_rest o p f k s hs = Ok s' ->
  a_rej s' = a_rej s ++ rej_bytes p (a_rejected s) (map (fun h => shift_hunk h (a_o2n s)) hs) /\
  a_rejected s' = a_rejected s + length hs.
Proof.
  intros Hd Hu. induction hs as [|h hs IH]; intros k s s' Hs; cbn [apply_rest].
  - intros [= <-]. cbn. rewrite app_nil_r. auto.
  - destruct (apply_one o p f k s h _) as [s1|e] eqn:E1; cbn [rbind]; [|discriminate]. intros E2.
    destruct (apply_one_rej _ _ _ _ _ _ _ _ Hd Hu E1) as [(l & _ & Hk & _)|(_ & Rj & Rn & Ro & Rs & Rl & Rf)]; [congruence|].
    assert (Hs1 : a_skip s1 = true) by congruence.
    destruct (IH _ _ _ Hs1 E2) as (Hr & Hc). cbn [map]. split.
    + rewrite Hr, Rj, Rn, Ro. rewrite <- !app_assoc. rewrite rej_bytes_cons. reflexivity.
    + rewrite Hc, Rn. cbn [length]. lia.
Qed.
