(* Proofs_Context.v — C13, context format: a hunk written by write_hunk_as_context (formatter.cpp) is read back by
   parse_context_patch (parser.cpp) as the same change: same ranges, same old and new side (including the lines without
   newline); inside a change group the deletions come before the additions. *)
From PatchV Require Import Base Lines Hunk Formatter LineParser Parser Proofs_Base Proofs_Apply Proofs_Lines Proofs_Decimal
     Proofs_Unified Proofs_CtxLines Proofs_CtxMerge.

(* ---------- which sides are printed ---------- *)
Definition old_printed (b : list pline) : bool := has_del b.
Definition new_printed (b : list pline) : bool := has_add b || negb (has_del b).

Definition ol_p (b : list pline) : list (cop * line) := if old_printed b then fst (W [] [] b) else [].
Definition nl_p (b : list pline) : list (cop * line) := if new_printed b then snd (W [] [] b) else [].

(* the text of a hunk *)
Definition ctext (h : hunk) : list N := write_context_parts (ol_p (body h)) (oldr h) (nl_p (body h)) (newr h).

(* the new side as the reader has it before the two sides are merged *)
Definition pnew (b : list pline) : list (cxop * line) := if old_printed b then rdside (nl_p b) else cxs (nl_p b).

(* a hunk that can be written in context form and read back: the body is not empty; both starts are inside 0..2^63-1; the
   counts are the numbers of old-side and new-side lines of the body; on each side that gets printed the texts have no line
   feed inside and no carriage return at the end, every line ends in LF, except that the last line of the side may have no
   newline (never CRLF); on the new side a context line is free in this respect when the old side is printed too (the reader
   takes context lines from the old side); the range of a printed side is printed without saturation: start + count <= 2^63-1
   (for a new side printed alone this matters only from two lines on). *)
Definition wf_hunk_c (h : hunk) : Prop :=
  body h <> [] /\ wf_crange0 (oldr h) /\ wf_crange0 (newr h) /\
  rcount (oldr h) = n_old (body h) /\ rcount (newr h) = n_new (body h) /\
  (old_printed (body h) = true -> side_ok (old_side (body h)) /\ range_fits (oldr h)) /\
  (new_printed (body h) = true ->
     side_ok_ctx (old_printed (body h)) (new_tagged (body h)) /\
     (old_printed (body h) = true \/ (2 <= rcount (newr h))%Z -> range_fits (newr h))).

(* the simpler sufficient condition: both printed sides are LF lines with at most a last line without newline *)
Lemma wf_hunk_c_simple h :
  body h <> [] -> wf_crange (oldr h) -> wf_crange (newr h) ->
  rcount (oldr h) = n_old (body h) -> rcount (newr h) = n_new (body h) ->
  (old_printed (body h) = true -> side_ok (old_side (body h))) ->
  (new_printed (body h) = true -> side_ok (new_side (body h))) ->
  wf_hunk_c h.
Proof.
  intros H1 H2 H3 H4 H5 H6 H7. destruct (wf_crange_0 _ H2) as [A2 F2]. destruct (wf_crange_0 _ H3) as [A3 F3].
  refine (conj H1 (conj A2 (conj A3 (conj H4 (conj H5 (conj _ _)))))).
  - intros E. split; [apply H6; exact E|exact F2].
  - intros E. split; [|intros _; exact F3]. apply side_ok_ctx_of_side_ok. rewrite new_tagged_lines. apply H7. exact E.
Qed.

Lemma write_shape h :
  rcount (oldr h) = n_old (body h) -> rcount (newr h) = n_new (body h) ->
  write_hunk_as_context h = Ok (ctext h).
Proof.
  intros Eo En. unfold write_hunk_as_context. change (mkCS [] [] [] [] CSp true true) with (cstate_of [] [] [] [] true true).
  destruct (fold_W (body h) [] [] [] [] true true (rcount (oldr h)) (rcount (newr h))) as (s' & F & A & B & C & D).
  - cbn [length Nat.add]. lia.
  - cbn [length Nat.add]. lia.
  - rewrite F. cbn [rbind]. rewrite A, B, C, D. cbn [app andb].
    rewrite W_length_new. cbn [length Nat.add]. rewrite new_side_length, En, Z.eqb_refl. cbn [negb andb].
    unfold ctext, ol_p, nl_p, old_printed, new_printed. destruct (has_del (body h)), (has_add (body h)); reflexivity.
Qed.

Lemma ctext_shape h rest0 :
  ctext h ++ rest0 = orange_line (oldr h) ++ 10%N :: (fmt_cside (ol_p (body h)) ++ nrange_line (newr h) ++ 10%N :: (fmt_cside (nl_p (body h)) ++ rest0)).
Proof. unfold ctext, write_context_parts, orange_line, nrange_line. repeat rewrite <- app_assoc. reflexivity. Qed.

(* ---------- parse_context_hunk in pieces, with the fuel as a parameter ---------- *)
Definition hres : Type := res (list (cxop * line) * Z * list (cxop * line) * Z * stream).

(* after the new range line of a hunk whose old side was read *)
Definition pchN (fuel : nat) (ostart : Z) (ol2 : list (cxop * line)) (s3 : stream) : hres :=
  let '(l2, s4) := sget_line s3 in
  let line2 := fst (line_or_empty l2) in
  match ctx_parse_new_range line2 with
  | None => Throw ERuntime
  | Some (Throw e) => Throw e
  | Some (Ok (nstart, nend)) =>
      let pos := rest s4 in
      let '(l3, s5) := sget_line s4 in
      let '(line3, n3) := line_or_empty l3 in
      if seof s5 then Ok (ol2, ostart, [], nstart, s5)
      else if starts_with line3 (bs "**********") then Ok (ol2, ostart, [], nstart, s5)
      else if negb (looks_like_new_line line3) then Ok (ol2, ostart, [], nstart, sseek s5 pos)
      else
        do nl1 <- ctx_append_line [] line3 n3;
        do y <- ctx_append_content fuel nl1 (sadd nstart (Z.of_nat (length nl1))) nend s5;
        let '(nl2, s6) := ctx_check_nonl (fst y) (snd y) in
        Ok (ol2, ostart, nl2, nstart, s6)
  end.

Definition pch (fuel : nat) (s : stream) : hres :=
  let '(ostart, oend, s1) := ctx_find_old_range fuel s in
  match sget_line s1 with
  | (None, _) => Throw ERuntime
  | (Some (line, n), s2) =>
      match ctx_parse_new_range line with
      | Some (Throw e) => Throw e
      | Some (Ok (nstart, nend)) =>
          do x <- ctx_append_content fuel [] (sadd nstart 0) nend s2;
          let '(nl2, s3) := ctx_check_nonl (fst x) (snd x) in
          Ok ([], ostart, nl2, nstart, s3)
      | None =>
          do ol1 <- ctx_append_line [] line n;
          do x <- ctx_append_content fuel ol1 (sadd ostart (Z.of_nat (length ol1))) oend s2;
          let '(ol2, s3) := ctx_check_nonl (fst x) (snd x) in
          pchN fuel ostart ol2 s3
      end
  end.

Lemma pch_eq s : parse_context_hunk s = pch (S (length (rest s))) s.
Proof. reflexivity. Qed.

(* ---------- small facts about the lines ---------- *)
Lemma find_old_any pre fuel r bytes : (pre = [] \/ pre = sep) -> 2 <= fuel -> wf_crange0 r ->
  ctx_find_old_range fuel (strm (pre ++ orange_line r ++ 10%N :: bytes)) = (rstart r, cend r, strm bytes).
Proof.
  intros Hp Hf W. destruct fuel as [|[|f]]; try lia. destruct Hp as [-> | ->].
  - apply find_old_here. exact W.
  - apply find_old_sep. exact W.
Qed.

Lemma parse_new_range_cline c t : ctx_parse_new_range (cop_char c :: 32%N :: t) = None.
Proof. destruct c; reflexivity. Qed.

Lemma not_stars_cline c t : starts_with (cop_char c :: 32%N :: t) (bs "**********") = false.
Proof. destruct c; reflexivity. Qed.

Lemma looks_new_cline c t : c <> CMinus -> looks_like_new_line (cop_char c :: 32%N :: t) = true.
Proof. intros H. destruct c; try reflexivity. congruence. Qed.

Lemma sadd_small a b : (0 <= a)%Z -> (0 <= b)%Z -> (a + b <= MAXZ)%Z -> sadd a b = (a + b)%Z.
Proof. intros Ha Hb H. unfold sadd. apply sat64_id. pose proof MINZ_val. lia. Qed.

Lemma side_clean_entries ls : side_ok (map snd ls) -> Forall (fun x : cop * line => clean (txt (snd x))) ls.
Proof. intros H. apply side_ok_clean in H. rewrite Forall_map in H. exact H. Qed.

Lemma get_line_lf t r : clean t -> get_line (t ++ 10%N :: r) = Some (t, LF, r, false).
Proof.
  intros [H1 H2]. unfold get_line. rewrite get_line_aux_lf.
  - rewrite app_nil_r, rev_involutive. reflexivity.
  - exact H1.
  - rewrite app_nil_r. rewrite last_opt_rev_hd in H2. destruct (rev t) as [|a x]; [exact I|].
    destruct a as [|p]; [exact I|]. do 4 (destruct p as [p|p|]; try exact I). apply H2. reflexivity.
Qed.

(* ---------- the three shapes of a hunk ---------- *)
(* only the new side is printed *)
Lemma pch_new_only pre fuel o n nl rest0 :
  (pre = [] \/ pre = sep) -> wf_crange0 o -> wf_crange0 n -> ((2 <= rcount n)%Z -> range_fits n) ->
  nl <> [] -> side_ok (map snd nl) -> rcount n = Z.of_nat (length nl) -> starts92 rest0 = false ->
  2 <= fuel -> length nl < fuel ->
  pch fuel (strm (pre ++ orange_line o ++ 10%N :: (nrange_line n ++ 10%N :: (fmt_cside nl ++ rest0))))
  = Ok ([], rstart o, cxs nl, rstart n, strm rest0).
Proof.
  intros Hpre Wo Wn Hfit Hne Hok Hc Hr Hf2 Hf. unfold pch. rewrite (find_old_any pre fuel o _ Hpre Hf2 Wo). cbv beta iota.
  unfold strm at 1. rewrite (sget_line_lf _ _ (nrange_clean n Wn)). rewrite (ctx_parse_new_range_nrange n Wn). cbv beta iota.
  assert (Hc1 : (1 <= rcount n)%Z) by (destruct nl; [congruence|cbn [length] in Hc; lia]).
  rewrite (cend_exact n Wn Hc1 Hfit), Hc.
  destruct Wn as ((Hs & Hm) & Hcn). rewrite sadd_small by lia. rewrite Z.add_0_r.
  change (mkStream (fmt_cside nl ++ rest0) false false) with (strm (fmt_cside nl ++ rest0)).
  rewrite fmt_cside_shape, <- app_assoc.
  rewrite append_content_lines; [|apply side_clean_entries; exact Hok|exact Hf]. cbn [rbind fst snd app].
  rewrite check_nonl_rd by assumption. reflexivity.
Qed.

(* the old side is printed: up to the new range line *)
Lemma pch_old_first pre fuel o ol bytes :
  (pre = [] \/ pre = sep) -> wf_crange0 o -> range_fits o ->
  ol <> [] -> side_ok (map snd ol) -> rcount o = Z.of_nat (length ol) -> starts92 bytes = false ->
  2 <= fuel -> length ol < fuel ->
  pch fuel (strm (pre ++ orange_line o ++ 10%N :: (fmt_cside ol ++ bytes)))
  = pchN fuel (rstart o) (cxs ol) (strm bytes).
Proof.
  intros Hpre Wo Hfit Hne Hok Hc Hr Hf2 Hf. unfold pch. rewrite (find_old_any pre fuel o _ Hpre Hf2 Wo). cbv beta iota.
  destruct ol as [|x r]; [congruence|].
  pose proof (side_clean_entries _ Hok) as Hcl. inversion Hcl as [|? ? Hx Hrc]; subst.
  rewrite fmt_cside_shape, <- app_assoc. cbn [flat_map]. rewrite <- app_assoc, cline_shape.
  unfold strm at 1. rewrite (sget_line_lf _ _ (clean_cline (fst x) _ Hx)).
  rewrite parse_new_range_cline. rewrite append_line_cline. cbn [rbind app length].
  change (Z.of_nat 1) with 1%Z. cbn [length] in Hc, Hf.
  rewrite (cend_exact o Wo) by (try lia; intros _; exact Hfit). rewrite Hc.
  unfold range_fits in Hfit. destruct Wo as ((Hs & Hm) & Hco). rewrite sadd_small by lia.
  replace (rstart o + Z.of_nat (S (length r)) - 1)%Z with ((rstart o + 1) + Z.of_nat (length r) - 1)%Z by lia.
  change (mkStream (flat_map fmt_cline r ++ side_mark (x :: r) ++ bytes) false false)
    with (strm (flat_map fmt_cline r ++ side_mark (x :: r) ++ bytes)).
  rewrite append_content_lines; [|exact Hrc|lia]. cbn [rbind fst snd app].
  change ((cx (fst x), mkLine (txt (snd x)) LF) :: rd r) with (rd (x :: r)).
  rewrite check_nonl_rd; [reflexivity|discriminate|exact Hok|exact Hr].
Qed.

(* ... and the new side too *)
Lemma pchN_both fuel os ol2 n nl rest0 :
  wf_crange0 n -> range_fits n -> nl <> [] -> Forall (fun x : cop * line => clean (txt (snd x))) nl -> Forall (fun x => fst x <> CMinus) nl ->
  rcount n = Z.of_nat (length nl) -> starts92 rest0 = false -> length nl < fuel ->
  pchN fuel os ol2 (strm (nrange_line n ++ 10%N :: (fmt_cside nl ++ rest0)))
  = Ok (ol2, os, rdside nl, rstart n, strm rest0).
Proof.
  intros Wn Hfit Hne Hcl Hnm Hc Hr Hf. unfold pchN.
  unfold strm at 1. rewrite (sget_line_lf _ _ (nrange_clean n Wn)). cbn [line_or_empty fst].
  rewrite (ctx_parse_new_range_nrange n Wn). cbv beta iota.
  destruct nl as [|x r]; [congruence|].
  inversion Hcl as [|? ? Hx Hrc]; subst.
  inversion Hnm as [|? ? Hxm _]; subst.
  rewrite fmt_cside_shape, <- app_assoc. cbn [flat_map]. rewrite <- app_assoc, cline_shape.
  rewrite (sget_line_lf _ _ (clean_cline (fst x) _ Hx)). cbn [line_or_empty seof].
  rewrite not_stars_cline, (looks_new_cline _ _ Hxm). cbn [negb].
  rewrite append_line_cline. cbn [rbind app length].
  change (Z.of_nat 1) with 1%Z. cbn [length] in Hc, Hf.
  rewrite (cend_exact n Wn) by (try lia; intros _; exact Hfit). rewrite Hc.
  unfold range_fits in Hfit. destruct Wn as ((Hs & Hm) & Hcn). rewrite sadd_small by lia.
  replace (rstart n + Z.of_nat (S (length r)) - 1)%Z with ((rstart n + 1) + Z.of_nat (length r) - 1)%Z by lia.
  change (mkStream (flat_map fmt_cline r ++ side_mark (x :: r) ++ rest0) false false)
    with (strm (flat_map fmt_cline r ++ side_mark (x :: r) ++ rest0)).
  rewrite append_content_lines; [|exact Hrc|lia]. cbn [rbind fst snd app].
  change ((cx (fst x), mkLine (txt (snd x)) LF) :: rd r) with (rd (x :: r)).
  rewrite check_nonl_rdside; [reflexivity|discriminate|exact Hr].
Qed.

(* ... or the new side is not printed: the reader looks at the next line *)
Definition after_old_only (rest0 : list N) : stream :=
  match get_line rest0 with
  | None => mkStream [] true false
  | Some (l, _, more, eof) =>
      if eof then mkStream more true false
      else if starts_with l (bs "**********") then mkStream more false false
      else strm rest0
  end.

Definition rest_ok_old_only (rest0 : list N) : Prop :=
  match get_line rest0 with
  | None => True
  | Some (l, _, _, eof) => eof = true \/ starts_with l (bs "**********") = true \/ looks_like_new_line l = false
  end.

Lemma pchN_old_only fuel os ol2 n rest0 :
  wf_crange0 n -> rest_ok_old_only rest0 ->
  pchN fuel os ol2 (strm (nrange_line n ++ 10%N :: rest0)) = Ok (ol2, os, [], rstart n, after_old_only rest0).
Proof.
  intros Wn Hr. unfold pchN.
  unfold strm at 1. rewrite (sget_line_lf _ _ (nrange_clean n Wn)). cbn [line_or_empty fst].
  rewrite (ctx_parse_new_range_nrange n Wn). cbv beta iota.
  unfold sget_line. cbn [seof sbad rest]. unfold rest_ok_old_only in Hr. unfold after_old_only.
  destruct (get_line rest0) as [[[[l nn] more] eof]|]; [|reflexivity].
  cbn [line_or_empty seof]. destruct eof; [reflexivity|].
  destruct (starts_with l (bs "**********")); [reflexivity|].
  destruct Hr as [Hr|[Hr|Hr]]; try discriminate. rewrite Hr. reflexivity.
Qed.

(* ---------- one hunk ---------- *)
Definition after_hunk (h : hunk) (rest0 : list N) : stream :=
  if new_printed (body h) then strm rest0 else after_old_only rest0.
Definition rest_ok (h : hunk) (rest0 : list N) : Prop :=
  if new_printed (body h) then starts92 rest0 = false else rest_ok_old_only rest0.

Lemma old_side_facts h : wf_hunk_c h -> has_del (body h) = true ->
  fst (W [] [] (body h)) <> [] /\ side_ok (map snd (fst (W [] [] (body h)))) /\
  rcount (oldr h) = Z.of_nat (length (fst (W [] [] (body h)))) /\ range_fits (oldr h).
Proof.
  intros (Hne & Wo & Wn & Eo & En & So & Sn) Hd. pose proof (has_del_count _ Hd) as C. destruct (So Hd) as [So1 So2].
  assert (L : rcount (oldr h) = Z.of_nat (length (fst (W [] [] (body h))))).
  { rewrite W_length_old. cbn [length Nat.add]. rewrite old_side_length. exact Eo. }
  split; [|split].
  - intros E. rewrite E in L. cbn [length] in L. lia.
  - rewrite (proj1 (W_lines (body h) [] [])). cbn [app]. exact So1.
  - split; [exact L|exact So2].
Qed.

Lemma new_side_facts h : wf_hunk_c h -> new_printed (body h) = true ->
  snd (W [] [] (body h)) <> [] /\
  rcount (newr h) = Z.of_nat (length (snd (W [] [] (body h)))) /\
  (old_printed (body h) = true -> side_okr (snd (W [] [] (body h)))) /\
  (old_printed (body h) = false -> side_ok (map snd (snd (W [] [] (body h))))) /\
  (old_printed (body h) = true \/ (2 <= rcount (newr h))%Z -> range_fits (newr h)).
Proof.
  intros (Hne & Wo & Wn & Eo & En & So & Sn) Hp.
  assert (C : (1 <= n_new (body h))%Z).
  { unfold new_printed in Hp. destruct (has_add (body h)) eqn:Ha; [apply has_add_count; exact Ha|].
    cbn [orb] in Hp. apply no_del_count; [exact Hne|]. destruct (has_del (body h)); [discriminate|reflexivity]. }
  assert (L : rcount (newr h) = Z.of_nat (length (snd (W [] [] (body h))))).
  { rewrite W_length_new. cbn [length Nat.add]. rewrite new_side_length. exact En. }
  destruct (Sn Hp) as [Sn1 Sn2]. clear Sn. rename Sn1 into Sn. pose proof (W_new_tags (body h) [] []) as T. cbn [map app] in T.
  split; [|split; [exact L|split; [|split; [|exact Sn2]]]].
  - intros E. rewrite E in L. cbn [length] in L. lia.
  - intros E. rewrite E in Sn. apply side_ok_ctx_okr. rewrite T. exact Sn.
  - intros E. rewrite E in Sn. rewrite (proj2 (W_lines (body h) [] [])). cbn [app]. rewrite <- new_tagged_lines.
    apply side_ok_ctx_strict. exact Sn.
Qed.

Lemma Forall2_len {A B} (R : A -> B -> Prop) : forall l l', Forall2 R l l' -> length l = length l'.
Proof. induction 1 as [|x y l l' _ _ IH]; [reflexivity|]. cbn [length]. rewrite IH. reflexivity. Qed.

Lemma rdside_length ls : side_okr ls -> length (rdside ls) = length ls.
Proof.
  intros H. pose proof (Forall2_len _ _ _ (rdside_equiv ls H)) as L. unfold cxs in L. rewrite map_length in L. congruence.
Qed.

Lemma fmt_cside_length ls : length ls <= length (fmt_cside ls).
Proof. rewrite fmt_cside_shape, app_length. pose proof (flat_map_cline_length ls). lia. Qed.

Lemma ctext_length pre h rest0 :
  length (ol_p (body h)) + length (nl_p (body h)) + 2 <= length (pre ++ ctext h ++ rest0).
Proof.
  rewrite ctext_shape. rewrite !app_length. cbn [length]. rewrite !app_length. cbn [length]. rewrite !app_length.
  pose proof (fmt_cside_length (ol_p (body h))). pose proof (fmt_cside_length (nl_p (body h))). lia.
Qed.

Lemma parse_hunk pre h rest0 :
  (pre = [] \/ pre = sep) -> wf_hunk_c h -> rest_ok h rest0 ->
  parse_context_hunk (strm (pre ++ ctext h ++ rest0))
  = Ok (cxs (ol_p (body h)), rstart (oldr h), pnew (body h), rstart (newr h), after_hunk h rest0).
Proof.
  intros Hpre Hwf Hr. rewrite pch_eq. unfold strm at 1. cbn [rest].
  pose proof (ctext_length pre h rest0) as L. set (fuel := S (length (pre ++ ctext h ++ rest0))).
  assert (F2 : 2 <= fuel) by (unfold fuel; lia).
  assert (Fo : length (ol_p (body h)) < fuel) by (unfold fuel; lia).
  assert (Fn : length (nl_p (body h)) < fuel) by (unfold fuel; lia).
  clearbody fuel. clear L.
  change (mkStream (pre ++ ctext h ++ rest0) false false) with (strm (pre ++ ctext h ++ rest0)).
  rewrite ctext_shape.
  pose proof Hwf as (Hne & Wo & Wn & Eo & En & So & Sn).
  unfold after_hunk. unfold rest_ok in Hr. unfold pnew, ol_p, nl_p in *.
  destruct (old_printed (body h)) eqn:Hd.
  - destruct (old_side_facts h Hwf Hd) as (A1 & A2 & A3 & A4).
    rewrite pch_old_first; [|exact Hpre|exact Wo|exact A4|exact A1|exact A2|exact A3|reflexivity|exact F2|exact Fo].
    destruct (new_printed (body h)) eqn:Hp.
    + destruct (new_side_facts h Hwf Hp) as (B1 & B3 & B2 & _ & B4).
      rewrite pchN_both; [reflexivity|exact Wn|apply B4; left; exact Hd|exact B1|apply side_okr_clean; apply B2; exact Hd|apply W_new_no_minus|exact B3|exact Hr|exact Fn].
    + change (fmt_cside [] ++ rest0) with rest0. rewrite pchN_old_only; [reflexivity|exact Wn|exact Hr].
  - assert (Hp : new_printed (body h) = true) by (unfold new_printed; unfold old_printed in Hd; rewrite Hd; apply orb_true_r).
    rewrite Hp in *. destruct (new_side_facts h Hwf Hp) as (B1 & B3 & _ & B2 & B4).
    change (fmt_cside [] ++ ?x) with x.
    rewrite pch_new_only; [reflexivity|exact Hpre|exact Wo|exact Wn|intros G; apply B4; right; exact G|exact B1|apply B2; exact Hd|exact B3|exact Hr|exact F2|exact Fn].
Qed.

(* the hunk the reader builds from the two sides *)
Definition norm_hunk (h : hunk) : hunk := mkHunk (oldr h) (newr h) (normalise (body h)).

Lemma range_eta r : mkRange (rstart r) (rcount r) = r. Proof. destruct r; reflexivity. Qed.

Lemma hunk_parts h : wf_hunk_c h ->
  hunk_from_context_parts (rstart (oldr h)) (cxs (ol_p (body h))) (rstart (newr h)) (pnew (body h)) = Ok (norm_hunk h).
Proof.
  intros Hwf. pose proof Hwf as (Hne & Wo & Wn & Eo & En & So & Sn).
  unfold hunk_from_context_parts, norm_hunk, normalise. unfold pnew, ol_p, nl_p.
  destruct (old_printed (body h)) eqn:Hd.
  - destruct (old_side_facts h Hwf Hd) as (A1 & _ & _).
    destruct (new_printed (body h)) eqn:Hp.
    + destruct (new_side_facts h Hwf Hp) as (B1 & _ & B2 & _). specialize (B2 Hd).
      pose proof (rdside_length _ B2) as RL.
      replace (is_nil (rdside (snd (W [] [] (body h))))) with false
        by (destruct (rdside (snd (W [] [] (body h)))); [destruct (snd (W [] [] (body h))); [congruence|discriminate RL]|reflexivity]).
      replace (is_nil (cxs (fst (W [] [] (body h))))) with false by (destruct (fst (W [] [] (body h))); [congruence|reflexivity]).
      cbn [andb orb]. rewrite RL. unfold cxs at 1. rewrite map_length. fold (cxs (fst (W [] [] (body h)))).
      rewrite (merge_W' (body h) [] [] _ _ [] 0%Z 0%Z (rdside_equiv _ B2)) by lia.
      cbn [rbind app length]. rewrite <- Eo, <- En. cbn [Z.of_nat]. rewrite !Z.add_0_l, !range_eta. reflexivity.
    + assert (Ha : has_add (body h) = false).
      { unfold new_printed in Hp. unfold old_printed in Hd. rewrite Hd in Hp. cbn [negb] in Hp. rewrite orb_false_r in Hp. exact Hp. }
      change (rdside []) with (@nil (cxop * line)).
      change (has_bang []) with false. rewrite (no_bang_old _ [] Ha). rewrite !andb_false_r. cbn [orb]. cbn [length].
      rewrite Nat.add_0_r. unfold cxs at 1. rewrite map_length. fold (cxs (fst (W [] [] (body h)))).
      rewrite (merge_old_only _ [] _ _ _ _ Ha) by lia. cbn [rbind app length]. rewrite <- Eo, <- En. cbn [Z.of_nat].
      rewrite !Z.add_0_l, !range_eta. reflexivity.
  - unfold old_printed in Hd.
    assert (Hp : new_printed (body h) = true) by (unfold new_printed; rewrite Hd; apply orb_true_r).
    rewrite Hp. change (cxs []) with (@nil (cxop * line)). change (has_bang []) with false. rewrite (no_bang_new _ [] Hd).
    rewrite !andb_false_r. cbn [orb length Nat.add].
    unfold cxs at 1. rewrite map_length. fold (cxs (snd (W [] [] (body h)))).
    rewrite (merge_new_only _ [] _ _ _ _ Hd) by lia. cbn [rbind app length]. rewrite <- Eo, <- En. cbn [Z.of_nat].
    rewrite !Z.add_0_l, !range_eta. reflexivity.
Qed.

(* ---------- the loop over the hunks ---------- *)
(* what context_loop does once a hunk is built: look at the next line *)
Definition cfin (f : nat) (acc' : list hunk) (s1 : stream) : res (list hunk * stream) :=
  let pos := rest s1 in
  let '(l, s2) := sget_line s1 in
  let line := fst (line_or_empty l) in
  let s3 := sseek s2 pos in
  if starts_with line (bs "***************") || is_old_range_line line then context_loop f s3 acc'
  else Ok (acc', s3).

Lemma loop_step f s acc ol os nl ns s1 h :
  parse_context_hunk s = Ok (ol, os, nl, ns, s1) -> hunk_from_context_parts os ol ns nl = Ok h ->
  context_loop (S f) s acc = cfin f (acc ++ [h]) s1.
Proof. intros E1 E2. cbn [context_loop]. rewrite E1. cbn [rbind]. rewrite E2. reflexivity. Qed.

(* what may follow the last hunk: nothing, or a complete line that is neither a hunk separator, nor an old range line, nor
   something the reader would take for a line of the new side or for a "\ No newline" marker *)
Definition tail_ok_c (tail : list N) : Prop :=
  tail = [] \/
  exists l n more, get_line tail = Some (l, n, more, false) /\ starts92 tail = false /\
                   starts_with l (bs "**********") = false /\ looks_like_new_line l = false /\
                   is_old_range_line l = false.

(* where the stream is left *)
Definition final_c (h : hunk) (tail : list N) : stream :=
  match tail with
  | [] => if new_printed (body h) then mkStream [] true false else mkStream [] true true
  | _ => strm tail
  end.

Lemma starts_with_longer : forall p q l, starts_with l p = false -> starts_with l (p ++ q) = false.
Proof.
  induction p as [|c p IH]; intros q l H.
  - destruct l; discriminate.
  - destruct l as [|x l]; [reflexivity|]. cbn [app starts_with] in *. destruct (N.eqb x c); [|reflexivity].
    cbn [andb] in *. apply IH. exact H.
Qed.

Lemma tail_rest_ok h tail : tail_ok_c tail -> rest_ok h tail.
Proof.
  intros [->|(l & n & more & G & H92 & Hs & Hl & Ho)]; unfold rest_ok, rest_ok_old_only; destruct (new_printed (body h)).
  - reflexivity.
  - exact I.
  - exact H92.
  - rewrite G. right. right. exact Hl.
Qed.

Lemma cfin_tail f acc' h tail : tail_ok_c tail -> cfin f acc' (after_hunk h tail) = Ok (acc', final_c h tail).
Proof.
  intros [->|(l & n & more & G & H92 & Hs & Hl & Ho)]; unfold after_hunk, final_c.
  - destruct (new_printed (body h)); reflexivity.
  - assert (E : (if new_printed (body h) then strm tail else after_old_only tail) = strm tail).
    { destruct (new_printed (body h)); [reflexivity|]. unfold after_old_only. rewrite G, Hs. reflexivity. }
    rewrite E. unfold cfin, sget_line, strm. cbn [seof sbad rest]. rewrite G. cbn [line_or_empty fst].
    change (bs "***************") with (bs "**********" ++ bs "*****"). rewrite (starts_with_longer _ _ _ Hs), Ho.
    cbn [orb]. unfold sseek. cbn [seof sbad]. destruct tail; [discriminate G|reflexivity].
Qed.

Lemma cfin_next_np f acc' X : cfin f acc' (strm (sep ++ X)) = context_loop f (strm (sep ++ X)) acc'.
Proof.
  unfold cfin, sep. rewrite <- app_assoc. cbn [app]. unfold strm. cbn [rest]. rewrite (sget_line_lf _ _ stars_clean).
  cbn [line_or_empty fst]. change (starts_with stars (bs "***************")) with true. cbn [orb]. reflexivity.
Qed.

Lemma cfin_next_oo f acc' r Y : wf_crange0 r ->
  cfin f acc' (strm (orange_line r ++ 10%N :: Y)) = context_loop f (strm (orange_line r ++ 10%N :: Y)) acc'.
Proof.
  intros W. unfold cfin. unfold strm. cbn [rest]. rewrite (sget_line_lf _ _ (orange_clean r W)).
  cbn [line_or_empty fst]. rewrite is_old_range_orange, orb_true_r. reflexivity.
Qed.

Lemma after_old_only_sep X : after_old_only (sep ++ X) = strm X.
Proof. unfold after_old_only, sep. rewrite <- app_assoc. cbn [app]. rewrite (get_line_lf _ _ stars_clean). reflexivity. Qed.

Lemma rest_ok_old_only_sep X : rest_ok_old_only (sep ++ X).
Proof. unfold rest_ok_old_only, sep. rewrite <- app_assoc. cbn [app]. rewrite (get_line_lf _ _ stars_clean). right. left. reflexivity. Qed.

(* several hunks, each one after a line of stars: the hunks of a context reject file *)
Definition emit_c (hs : list hunk) : list N := flat_map (fun h => sep ++ ctext h) hs.
Fixpoint lasth (h : hunk) (hs : list hunk) : hunk := match hs with [] => h | h2 :: r => lasth h2 r end.

Lemma chain_c : forall hs h pre acc f tail,
  (pre = [] \/ pre = sep) -> wf_hunk_c h -> Forall wf_hunk_c hs -> tail_ok_c tail ->
  context_loop (S (length hs + f)) (strm (pre ++ ctext h ++ emit_c hs ++ tail)) acc
  = Ok (acc ++ map norm_hunk (h :: hs), final_c (lasth h hs) tail).
Proof.
  induction hs as [|h2 hs IH]; intros h pre acc f tail Hpre Hwf Hhs Ht.
  - cbn [emit_c flat_map app length Nat.add lasth map].
    rewrite (loop_step _ _ _ _ _ _ _ _ _ (parse_hunk pre h tail Hpre Hwf (tail_rest_ok h tail Ht)) (hunk_parts h Hwf)).
    apply cfin_tail. exact Ht.
  - inversion Hhs as [|? ? Hwf2 Hrest]; subst.
    cbn [emit_c flat_map]. fold (emit_c hs). rewrite <- !app_assoc.
    assert (Hr : rest_ok h (sep ++ ctext h2 ++ emit_c hs ++ tail)).
    { unfold rest_ok. destruct (new_printed (body h)); [reflexivity|apply rest_ok_old_only_sep]. }
    cbn [length Nat.add lasth].
    rewrite (loop_step _ _ _ _ _ _ _ _ _ (parse_hunk pre h _ Hpre Hwf Hr) (hunk_parts h Hwf)).
    unfold after_hunk. destruct (new_printed (body h)).
    + rewrite cfin_next_np. rewrite (IH h2 sep (acc ++ [norm_hunk h]) f tail); [|right; reflexivity|exact Hwf2|exact Hrest|exact Ht].
      rewrite <- app_assoc. reflexivity.
    + rewrite after_old_only_sep. rewrite ctext_shape.
      rewrite cfin_next_oo by (destruct Hwf2 as (_ & Wo & _); exact Wo).
      rewrite <- ctext_shape.
      pose proof (IH h2 [] (acc ++ [norm_hunk h]) f tail (or_introl eq_refl) Hwf2 Hrest Ht) as E. cbn [app] in E.
      rewrite E. rewrite <- app_assoc. reflexivity.
Qed.

Lemma emit_c_length hs : length hs <= length (emit_c hs).
Proof.
  induction hs as [|h hs IH]; [cbn; lia|]. cbn [emit_c flat_map length]. fold (emit_c hs). rewrite !app_length.
  change (length sep) with 16. lia.
Qed.

(* ---------- the theorems ---------- *)
(* Hunks written in context form, each one after a line of stars (as in a context reject file after its two header lines),
   followed by nothing or by a line that cannot be taken for more of the patch, are read back as these hunks, normalised
   (inside a change group deletions first); the stream is left at what follows. *)
Theorem context_roundtrip_hunks h hs tail :
  Forall wf_hunk_c (h :: hs) -> tail_ok_c tail ->
  parse_context_patch (strm (emit_c (h :: hs) ++ tail)) = Ok (map norm_hunk (h :: hs), final_c (lasth h hs) tail).
Proof.
  intros Hwf Ht. inversion Hwf as [|? ? Hh Hrest]; subst. unfold parse_context_patch. unfold strm at 1. cbn [rest].
  change (mkStream (emit_c (h :: hs) ++ tail) false false) with (strm (emit_c (h :: hs) ++ tail)).
  assert (L : length hs <= length (emit_c (h :: hs) ++ tail)).
  { cbn [emit_c flat_map]. fold (emit_c hs). rewrite !app_length. pose proof (emit_c_length hs). lia. }
  replace (S (length (emit_c (h :: hs) ++ tail))) with (S (length hs + (length (emit_c (h :: hs) ++ tail) - length hs))) by lia.
  cbn [emit_c flat_map]. fold (emit_c hs). rewrite <- !app_assoc.
  rewrite (chain_c hs h sep [] _ tail); [reflexivity|right; reflexivity|exact Hh|exact Hrest|exact Ht].
Qed.

Lemma norm_hunk_same_change h :
  oldr (norm_hunk h) = oldr h /\ newr (norm_hunk h) = newr h /\ body (norm_hunk h) = normalise (body h) /\
  old_side (body (norm_hunk h)) = old_side (body h) /\ new_side (body (norm_hunk h)) = new_side (body h).
Proof. unfold norm_hunk. cbn [oldr newr body]. destruct (normalise_sides (body h)) as [A B]. auto. Qed.

(* One hunk: writing it in context form and reading it back gives a hunk that denotes the same change: same ranges, same
   old side and same new side (texts and missing-newline marks); its body is the normalised body. *)
Theorem context_roundtrip h t tail :
  wf_hunk_c h -> tail_ok_c tail -> write_hunk_as_context h = Ok t ->
  exists h', parse_context_patch (strm (sep ++ t ++ tail)) = Ok ([h'], final_c h tail) /\
             oldr h' = oldr h /\ newr h' = newr h /\ body h' = normalise (body h) /\
             old_side (body h') = old_side (body h) /\ new_side (body h') = new_side (body h).
Proof.
  intros Hwf Ht Hw. pose proof Hwf as (_ & _ & _ & Eo & En & _).
  rewrite (write_shape h Eo En) in Hw. injection Hw as <-.
  exists (norm_hunk h). split; [|apply norm_hunk_same_change].
  pose proof (context_roundtrip_hunks h [] tail (Forall_cons _ Hwf (Forall_nil _)) Ht) as E.
  cbn [emit_c flat_map map lasth] in E. rewrite app_nil_r, <- app_assoc in E. exact E.
Qed.

(* the list version, stated with the writer's results *)
Lemma writes_ctext : forall hs ts,
  Forall wf_hunk_c hs -> Forall2 (fun h t => write_hunk_as_context h = Ok t) hs ts ->
  flat_map (fun t => sep ++ t) ts = emit_c hs.
Proof.
  induction hs as [|h hs IH]; intros ts Hwf Hw; inversion Hw as [|? t ? ts' Hh Hr]; subst; [reflexivity|].
  inversion Hwf as [|? ? Hwh Hwr]; subst. pose proof Hwh as (_ & _ & _ & Eo & En & _).
  rewrite (write_shape h Eo En) in Hh. injection Hh as <-.
  cbn [flat_map emit_c]. fold (emit_c hs). rewrite (IH ts' Hwr Hr). reflexivity.
Qed.

Theorem context_roundtrip_list h hs ts tail :
  Forall wf_hunk_c (h :: hs) -> tail_ok_c tail ->
  Forall2 (fun h t => write_hunk_as_context h = Ok t) (h :: hs) ts ->
  parse_context_patch (strm (flat_map (fun t => sep ++ t) ts ++ tail))
  = Ok (map norm_hunk (h :: hs), final_c (lasth h hs) tail).
Proof.
  intros Hwf Ht Hw. rewrite (writes_ctext _ _ Hwf Hw). apply context_roundtrip_hunks; assumption.
Qed.

(* ---------- normalisation is a projection; hunks read back are written and read back unchanged ---------- *)
Lemma norm_dels : forall ds ds0 ads0 X, norm ds0 ads0 (map (mkPL Del) ds ++ X) = norm (ds0 ++ ds) ads0 X.
Proof.
  induction ds as [|d ds IH]; intros ds0 ads0 X; cbn [map app norm pop pl].
  - rewrite app_nil_r. reflexivity.
  - rewrite IH, <- app_assoc. reflexivity.
Qed.
Lemma norm_adds : forall ads ds0 ads0 X, norm ds0 ads0 (map (mkPL Add) ads ++ X) = norm ds0 (ads0 ++ ads) X.
Proof.
  induction ads as [|d ads IH]; intros ds0 ads0 X; cbn [map app norm pop pl].
  - rewrite app_nil_r. reflexivity.
  - rewrite IH, <- app_assoc. reflexivity.
Qed.

Lemma norm_norm : forall b ds ads ds0 ads0, norm ds0 ads0 (norm ds ads b) = norm (ds0 ++ ds) (ads0 ++ ads) b.
Proof.
  induction b as [|p r IH]; intros ds ads ds0 ads0; cbn [norm].
  - rewrite norm_dels. rewrite <- (app_nil_r (map (mkPL Add) ads)). rewrite norm_adds. reflexivity.
  - destruct (pop p) eqn:Hp.
    + rewrite norm_dels, norm_adds. cbn [norm pop pl]. rewrite (IH [] [] [] []). reflexivity.
    + rewrite IH, <- app_assoc. reflexivity.
    + rewrite IH, <- app_assoc. reflexivity.
Qed.

Theorem normalise_idem b : normalise (normalise b) = normalise b.
Proof. unfold normalise. rewrite norm_norm. reflexivity. Qed.

Lemma has_del_norm : forall b ds ads, has_del (norm ds ads b) = negb (is_nil ds) || has_del b.
Proof.
  assert (D : forall ds, has_del (map (mkPL Del) ds) = negb (is_nil ds)) by (intros [|d ds]; reflexivity).
  assert (A : forall ads, has_del (map (mkPL Add) ads) = false) by (induction ads as [|a ads IH]; [reflexivity|exact IH]).
  induction b as [|p r IH]; intros ds ads; cbn [norm]; unfold has_del in *.
  - rewrite existsb_app, D, A. cbn [existsb]. reflexivity.
  - cbn [existsb]. destruct (pop p) eqn:Hp.
    + rewrite !existsb_app, D, A. cbn [existsb orb]. rewrite IH. unfold is_del. rewrite Hp. cbn [pop is_nil negb orb]. reflexivity.
    + rewrite IH. unfold is_del. rewrite Hp. reflexivity.
    + rewrite IH. unfold is_del. rewrite Hp. destruct ds; reflexivity.
Qed.
Lemma has_add_norm : forall b ds ads, has_add (norm ds ads b) = negb (is_nil ads) || has_add b.
Proof.
  assert (D : forall ds, has_add (map (mkPL Del) ds) = false) by (induction ds as [|a ds IH]; [reflexivity|exact IH]).
  assert (A : forall ads, has_add (map (mkPL Add) ads) = negb (is_nil ads)) by (intros [|d ds]; reflexivity).
  induction b as [|p r IH]; intros ds ads; cbn [norm]; unfold has_add in *.
  - rewrite existsb_app, D, A. cbn [existsb orb]. rewrite orb_false_r. reflexivity.
  - cbn [existsb]. destruct (pop p) eqn:Hp.
    + rewrite !existsb_app, D, A. cbn [existsb orb]. rewrite IH. unfold is_add. rewrite Hp. cbn [pop is_nil negb orb]. reflexivity.
    + rewrite IH. unfold is_add. rewrite Hp. destruct ads; reflexivity.
    + rewrite IH. unfold is_add. rewrite Hp. reflexivity.
Qed.

Lemma has_del_normalise b : has_del (normalise b) = has_del b.
Proof. unfold normalise. rewrite has_del_norm. reflexivity. Qed.
Lemma has_add_normalise b : has_add (normalise b) = has_add b.
Proof. unfold normalise. rewrite has_add_norm. reflexivity. Qed.

Lemma new_tagged_normalise b : new_tagged (normalise b) = new_tagged b.
Proof. unfold normalise. rewrite norm_new_tagged. reflexivity. Qed.

Lemma wf_norm_hunk h : wf_hunk_c h -> wf_hunk_c (norm_hunk h).
Proof.
  intros (Hne & Wo & Wn & Eo & En & So & Sn). destruct (normalise_sides (body h)) as [A B].
  unfold wf_hunk_c, norm_hunk. cbn [oldr newr body]. unfold old_printed, new_printed in *.
  rewrite has_del_normalise, has_add_normalise. rewrite A, new_tagged_normalise.
  rewrite <- (old_side_length (normalise (body h))), <- (new_side_length (normalise (body h))), A, B, old_side_length, new_side_length.
  refine (conj _ (conj Wo (conj Wn (conj Eo (conj En (conj So Sn)))))).
  intros E. assert (L : length (new_side (normalise (body h))) + length (old_side (normalise (body h))) = 0) by (rewrite E; reflexivity).
  rewrite A, B in L. destruct (body h) as [|p r]; [congruence|]. rewrite old_side_cons, new_side_cons in L.
  unfold is_add, is_del in L. destruct (pop p); cbn [length] in L; lia.
Qed.

Lemma norm_hunk_idem h : norm_hunk (norm_hunk h) = norm_hunk h.
Proof. unfold norm_hunk. cbn [oldr newr body]. rewrite normalise_idem. reflexivity. Qed.

(* a hunk that came out of the context reader is written and read back as exactly itself *)
Theorem context_roundtrip_normal h tail :
  wf_hunk_c h -> tail_ok_c tail ->
  parse_context_patch (strm (sep ++ ctext (norm_hunk h) ++ tail)) = Ok ([norm_hunk h], final_c h tail).
Proof.
  intros Hwf Ht. pose proof (context_roundtrip_hunks (norm_hunk h) [] tail (Forall_cons _ (wf_norm_hunk h Hwf) (Forall_nil _)) Ht) as E.
  cbn [emit_c flat_map map lasth] in E. rewrite app_nil_r, <- app_assoc in E. rewrite E. rewrite norm_hunk_idem.
  unfold final_c, new_printed, norm_hunk. cbn [body]. rewrite has_del_normalise, has_add_normalise. reflexivity.
Qed.

(* ---------- the context reject file ---------- *)
(* what apply_patch appends to the reject file, hunk after hunk (Applier.write_reject with its counter) *)
Fixpoint reject_stream (o : Options.options) (p : patch) (k : nat) (hs : list hunk) : res (list N) :=
  match hs with
  | [] => Ok []
  | h :: r => do t <- Applier.write_reject o p k h; do u <- reject_stream o p (S k) r; Ok (t ++ u)
  end.

Definition ctx_header_lines (p : patch) : list N :=
  fmt_header_line (bs "*** ") (old_path p) (old_time p) ++ fmt_header_line (bs "--- ") (new_path p) (new_time p).

Lemma reject_stream_later o p : Applier.should_write_as_unified o p = false ->
  forall hs k, Forall wf_hunk_c hs -> reject_stream o p (S k) hs = Ok (emit_c hs).
Proof.
  intros Hu. induction hs as [|h hs IH]; intros k Hwf; [reflexivity|]. inversion Hwf as [|? ? Hh Hr]; subst.
  pose proof Hh as (_ & _ & _ & Eo & En & _). cbn [reject_stream]. unfold Applier.write_reject. rewrite Hu.
  rewrite (write_shape h Eo En). cbn [rbind Nat.eqb]. rewrite (IH (S k) Hr). cbn [rbind emit_c flat_map]. reflexivity.
Qed.

(* a context reject file is its two header lines followed by the hunks, each after a line of stars: the shape that
   context_roundtrip_hunks reads back *)
Theorem reject_context_file o p h hs :
  Applier.should_write_as_unified o p = false -> Forall wf_hunk_c (h :: hs) ->
  reject_stream o p 0 (h :: hs) = Ok (ctx_header_lines p ++ emit_c (h :: hs)).
Proof.
  intros Hu Hwf. inversion Hwf as [|? ? Hh Hr]; subst. pose proof Hh as (_ & _ & _ & Eo & En & _).
  cbn [reject_stream]. unfold Applier.write_reject. rewrite Hu. rewrite (write_shape h Eo En). cbn [rbind Nat.eqb].
  rewrite (reject_stream_later o p Hu hs 0 Hr). cbn [rbind emit_c flat_map]. fold (emit_c hs).
  unfold write_patch_header_as_context, ctx_header_lines, sep, stars. repeat rewrite <- app_assoc. reflexivity.
Qed.

(* ---------- checking the hypotheses by computation ---------- *)
Definition cleanb (t : list N) : bool :=
  negb (existsb (N.eqb 10) t) && negb (match last_opt t with Some c => N.eqb c 13 | None => false end).

Lemma cleanb_ok t : cleanb t = true -> clean t.
Proof.
  unfold cleanb, clean. intros H. apply andb_true_iff in H. destruct H as [H1 H2]. split.
  - intros I. apply negb_true_iff in H1. assert (E : existsb (N.eqb 10) t = true).
    { apply existsb_exists. exists 10%N. split; [exact I|reflexivity]. }
    congruence.
  - destruct (last_opt t) as [c|]; [|discriminate]. apply negb_true_iff in H2. apply N.eqb_neq in H2. congruence.
Qed.

Fixpoint side_okb (ls : list line) : bool :=
  match ls with
  | [] => true
  | l :: r => cleanb (txt l) && match nl l with LF => true | NoNL => is_nil r | CRLF => false end && side_okb r
  end.

Lemma side_okb_ok ls : side_okb ls = true -> side_ok ls.
Proof.
  induction ls as [|l r IH]; intros H; [exact I|]. cbn [side_okb] in H.
  apply andb_true_iff in H. destruct H as [H H3]. apply andb_true_iff in H. destruct H as [H1 H2].
  cbn [side_ok]. split; [apply cleanb_ok; exact H1|]. split; [|apply IH; exact H3].
  destruct (nl l); [left; reflexivity|discriminate|]. right. split; [reflexivity|]. apply is_nil_true. exact H2.
Qed.

Definition wf_crangeb (r : range) : bool :=
  Z.leb 0 (rstart r) && Z.leb (rstart r) MAXZ && Z.leb 0 (rcount r).
Definition range_fitsb (r : range) : bool := Z.leb (rstart r + rcount r) MAXZ.

Lemma wf_crangeb_ok r : wf_crangeb r = true -> wf_crange0 r.
Proof.
  unfold wf_crangeb, wf_crange0. intros H. apply andb_true_iff in H. destruct H as [H H3].
  apply andb_true_iff in H. destruct H as [H1 H2]. apply Z.leb_le in H1, H2, H3. auto.
Qed.
Lemma range_fitsb_ok r : range_fitsb r = true -> range_fits r.
Proof. unfold range_fitsb, range_fits. apply Z.leb_le. Qed.

Fixpoint side_ok_ctxb (relax : bool) (ls : list (bool * line)) : bool :=
  match ls with
  | [] => true
  | x :: r => cleanb (txt (snd x)) &&
              match nl (snd x) with LF => true | NoNL => is_nil r || (relax && fst x) | CRLF => false end &&
              side_ok_ctxb relax r
  end.

Lemma side_ok_ctxb_ok relax ls : side_ok_ctxb relax ls = true -> side_ok_ctx relax ls.
Proof.
  induction ls as [|l r IH]; intros H; [exact I|]. cbn [side_ok_ctxb] in H.
  apply andb_true_iff in H. destruct H as [H H3]. apply andb_true_iff in H. destruct H as [H1 H2].
  cbn [side_ok_ctx]. split; [apply cleanb_ok; exact H1|]. split; [|apply IH; exact H3].
  destruct (nl (snd l)); [left; reflexivity|discriminate|]. right. split; [reflexivity|].
  apply orb_true_iff in H2. destruct H2 as [H2|H2]; [left; apply is_nil_true; exact H2|].
  right. apply andb_true_iff in H2. exact H2.
Qed.

Definition wf_hunk_cb (h : hunk) : bool :=
  negb (is_nil (body h)) && wf_crangeb (oldr h) && wf_crangeb (newr h) &&
  Z.eqb (rcount (oldr h)) (n_old (body h)) && Z.eqb (rcount (newr h)) (n_new (body h)) &&
  (negb (old_printed (body h)) || (side_okb (old_side (body h)) && range_fitsb (oldr h))) &&
  (negb (new_printed (body h)) ||
   (side_ok_ctxb (old_printed (body h)) (new_tagged (body h)) &&
    (negb (old_printed (body h) || Z.leb 2 (rcount (newr h))) || range_fitsb (newr h)))).

Lemma wf_hunk_cb_ok h : wf_hunk_cb h = true -> wf_hunk_c h.
Proof.
  unfold wf_hunk_cb, wf_hunk_c. intros H.
  apply andb_true_iff in H. destruct H as [H H7]. apply andb_true_iff in H. destruct H as [H H6].
  apply andb_true_iff in H. destruct H as [H H5]. apply andb_true_iff in H. destruct H as [H H4].
  apply andb_true_iff in H. destruct H as [H H3]. apply andb_true_iff in H. destruct H as [H1 H2].
  split; [|split; [|split; [|split; [|split; [|split]]]]].
  - intros E. rewrite E in H1. discriminate.
  - apply wf_crangeb_ok. exact H2.
  - apply wf_crangeb_ok. exact H3.
  - apply Z.eqb_eq. exact H4.
  - apply Z.eqb_eq. exact H5.
  - intros E. rewrite E in H6. cbn [negb orb] in H6. apply andb_true_iff in H6. destruct H6 as [G1 G2].
    split; [apply side_okb_ok; exact G1|apply range_fitsb_ok; exact G2].
  - intros E. rewrite E in H7. cbn [negb orb] in H7. apply andb_true_iff in H7. destruct H7 as [G1 G2].
    split; [apply side_ok_ctxb_ok; exact G1|]. intros G. apply range_fitsb_ok.
    destruct (old_printed (body h) || Z.leb 2 (rcount (newr h))) eqn:Q; [exact G2|].
    apply orb_false_iff in Q. destruct Q as [Q1 Q2]. destruct G as [G|G]; [congruence|]. apply Z.leb_gt in Q2. lia.
Qed.

Definition tail_ok_cb (tail : list N) : bool :=
  match tail with
  | [] => true
  | _ => match get_line tail with
         | Some (l, _, _, false) =>
             negb (starts92 tail) && negb (starts_with l (bs "**********")) && negb (looks_like_new_line l) &&
             negb (is_old_range_line l)
         | _ => false
         end
  end.

Lemma tail_ok_cb_ok tail : tail_ok_cb tail = true -> tail_ok_c tail.
Proof.
  unfold tail_ok_cb, tail_ok_c. destruct tail as [|c t]; [left; reflexivity|]. intros H. right.
  destruct (get_line (c :: t)) as [[[[l n] more] eof]|]; [|discriminate]. destruct eof; [discriminate|].
  apply andb_true_iff in H. destruct H as [H H4]. apply andb_true_iff in H. destruct H as [H H3].
  apply andb_true_iff in H. destruct H as [H1 H2]. apply negb_true_iff in H1, H2, H3, H4.
  exists l, n, more. auto.
Qed.

(* ---------- examples ---------- *)
Local Open Scope string_scope.
Definition cl (s : String.string) (n : newline) : line := mkLine (bs s) n.

(* context, a change group with both kinds ('!', the addition written before the deletion), context again, a group of
   additions only ('+') whose last line has no newline at the end *)
Definition exc_h1 : hunk := mkHunk (mkRange 3 3) (mkRange 3 5)
  [mkPL Ctx (cl "a" LF); mkPL Add (cl "B" LF); mkPL Del (cl "b" LF); mkPL Ctx (cl "c" LF); mkPL Add (cl "d" LF); mkPL Add (cl "e" NoNL)].
(* deletions only: the new side is not printed *)
Definition exc_h2 : hunk := mkHunk (mkRange 10 3) (mkRange 12 2)
  [mkPL Ctx (cl "x" LF); mkPL Del (cl "y" LF); mkPL Ctx (cl "z" NoNL)].
(* additions only into an empty place: the old side is not printed, the old range has count 0 *)
Definition exc_h3 : hunk := mkHunk (mkRange 20 0) (mkRange 21 1) [mkPL Add (cl "" LF)].

Example exc_wf : wf_hunk_c exc_h1 /\ wf_hunk_c exc_h2 /\ wf_hunk_c exc_h3.
Proof. split; [|split]; apply wf_hunk_cb_ok; vm_compute; reflexivity. Qed.

Example exc_tail : tail_ok_c (bs "diff -c a b" ++ [10%N]) /\ tail_ok_c (bs "Only in x: y" ++ [13%N; 10%N] ++ bs "more").
Proof. split; apply tail_ok_cb_ok; vm_compute; reflexivity. Qed.

(* the text of exc_h1 *)
Example exc_text :
  write_hunk_as_context exc_h1 =
  Ok (bs "*** 3,5 ****" ++ [10%N] ++ bs "  a" ++ [10%N] ++ bs "! b" ++ [10%N] ++ bs "  c" ++ [10%N] ++
      bs "--- 3,7 ----" ++ [10%N] ++ bs "  a" ++ [10%N] ++ bs "! B" ++ [10%N] ++ bs "  c" ++ [10%N] ++ bs "+ d" ++ [10%N] ++
      bs "+ e" ++ [10%N] ++ bs "\ No newline at end of file" ++ [10%N]).
Proof. vm_compute. reflexivity. Qed.

(* the theorem applied, and the same by computation *)
Example exc_roundtrip :
  parse_context_patch (strm (emit_c [exc_h1; exc_h2; exc_h3] ++ bs "diff -c a b" ++ [10%N]))
  = Ok ([norm_hunk exc_h1; exc_h2; exc_h3], strm (bs "diff -c a b" ++ [10%N])).
Proof.
  rewrite context_roundtrip_hunks.
  - reflexivity.
  - destruct exc_wf as (A & B & C). exact (Forall_cons _ A (Forall_cons _ B (Forall_cons _ C (Forall_nil _)))).
  - exact (proj1 exc_tail).
Qed.

Example exc_roundtrip_computed :
  parse_context_patch (strm (emit_c [exc_h1; exc_h2; exc_h3] ++ bs "diff -c a b" ++ [10%N]))
  = Ok ([mkHunk (mkRange 3 3) (mkRange 3 5)
           [mkPL Ctx (cl "a" LF); mkPL Del (cl "b" LF); mkPL Add (cl "B" LF); mkPL Ctx (cl "c" LF); mkPL Add (cl "d" LF); mkPL Add (cl "e" NoNL)];
         exc_h2; exc_h3], strm (bs "diff -c a b" ++ [10%N])).
Proof. vm_compute. reflexivity. Qed.

(* when the last hunk has deletions only and nothing follows, the reader has asked for one more line at the end of the
   file: the stream is left with both flags set *)
Example exc_end_flags :
  parse_context_patch (strm (emit_c [exc_h2])) = Ok ([exc_h2], mkStream [] true true) /\
  parse_context_patch (strm (emit_c [exc_h1])) = Ok ([norm_hunk exc_h1], mkStream [] true false).
Proof. split; vm_compute; reflexivity. Qed.

(* the hunks that the three readers of the model produce from ordinary diffs (lines ending in LF, the last line of a side
   possibly without newline) satisfy wf_hunk_c *)
Definition all_wf (r : res (list hunk * stream)) : bool :=
  match r with Ok (hs, _) => negb (is_nil hs) && forallb wf_hunk_cb hs | Throw _ => false end.

Definition nlb : list N := [10%N].
Example parsed_hunks_wf :
  all_wf (parse_unified_patch (strm (
     bs "@@ -1,3 +1,4 @@" ++ nlb ++ bs " a" ++ nlb ++ bs "-b" ++ nlb ++ bs "+B" ++ nlb ++ bs "+B2" ++ nlb ++ bs " c" ++ nlb ++
     bs "@@ -9,2 +10 @@" ++ nlb ++ bs " x" ++ nlb ++ bs "-y" ++ nlb ++ bs "\ No newline at end of file" ++ nlb))) = true /\
  all_wf (parse_context_patch (strm (
     bs "***************" ++ nlb ++ bs "*** 1,3 ****" ++ nlb ++ bs "  a" ++ nlb ++ bs "! b" ++ nlb ++ bs "  c" ++ nlb ++
     bs "--- 1,4 ----" ++ nlb ++ bs "  a" ++ nlb ++ bs "! B" ++ nlb ++ bs "! B2" ++ nlb ++ bs "  c" ++ nlb ++
     bs "***************" ++ nlb ++ bs "*** 9 ****" ++ nlb ++ bs "--- 10,11 ----" ++ nlb ++ bs "+ p" ++ nlb ++ bs "+ q" ++ nlb ++
     bs "\ No newline at end of file" ++ nlb))) = true /\
  all_wf (parse_normal_patch (strm (
     bs "2c2,3" ++ nlb ++ bs "< b" ++ nlb ++ bs "---" ++ nlb ++ bs "> B" ++ nlb ++ bs "> B2" ++ nlb ++
     bs "9d10" ++ nlb ++ bs "< y" ++ nlb ++ bs "\ No newline at end of file" ++ nlb))) = true.
Proof. split; [|split]; vm_compute; reflexivity. Qed.

(* a context line without newline that is the last line of the old side but not of the new side is accepted when the old
   side is printed (the reader takes it from there) ... *)
Definition exc_h4 : hunk := mkHunk (mkRange 3 2) (mkRange 3 2)
  [mkPL Del (cl "x" LF); mkPL Ctx (cl "a" NoNL); mkPL Add (cl "b" LF)].
Example exc_relaxed :
  wf_hunk_c exc_h4 /\ parse_context_patch (strm (emit_c [exc_h4])) = Ok ([exc_h4], mkStream [] true false).
Proof. split; [apply wf_hunk_cb_ok; vm_compute; reflexivity|vm_compute; reflexivity]. Qed.

(* ... the hypotheses are needed: *)
Definition rt_c (h : hunk) (tail : list N) : res (list hunk * stream) :=
  do t <- write_hunk_as_context h; parse_context_patch (strm (sep ++ t ++ tail)).

(* the mirror image of exc_h4 loses the mark (the context line is the last one of the new side only) *)
Definition exc_bad1 : hunk := mkHunk (mkRange 3 2) (mkRange 3 2)
  [mkPL Add (cl "x" LF); mkPL Ctx (cl "a" NoNL); mkPL Del (cl "b" LF)].
Example exc_need_side :
  wf_hunk_cb exc_bad1 = false /\
  rt_c exc_bad1 [] = Ok ([mkHunk (mkRange 3 2) (mkRange 3 2) [mkPL Add (cl "x" LF); mkPL Ctx (cl "a" LF); mkPL Del (cl "b" LF)]],
                         mkStream [] true false).
Proof. split; vm_compute; reflexivity. Qed.

(* a CRLF line is printed with LF *)
Definition exc_bad2 : hunk := mkHunk (mkRange 1 1) (mkRange 1 1) [mkPL Del (cl "x" CRLF); mkPL Add (cl "y" LF)].
Example exc_need_lf :
  wf_hunk_cb exc_bad2 = false /\
  rt_c exc_bad2 [] = Ok ([mkHunk (mkRange 1 1) (mkRange 1 1) [mkPL Del (cl "x" LF); mkPL Add (cl "y" LF)]], mkStream [] true false).
Proof. split; vm_compute; reflexivity. Qed.

(* start + count = 2^63 on a printed side: the reader's line counter saturates (and from two lines on the writer's end of
   the range, computed with saturating_add, would be one too small): the text cannot be read *)
Definition exc_bad3 : hunk := mkHunk (mkRange 9223372036854775807 1) (mkRange 1 1) [mkPL Del (cl "x" LF); mkPL Add (cl "b" LF)].
Example exc_need_range : wf_hunk_cb exc_bad3 = false /\ rt_c exc_bad3 [] = Throw ERuntime.
Proof. split; vm_compute; reflexivity. Qed.

(* a wrong count on the side that is not printed is written without complaint and read back as another range *)
Definition exc_bad4 : hunk := mkHunk (mkRange 5 7) (mkRange 5 2) [mkPL Ctx (cl "a" LF); mkPL Add (cl "b" LF)].
Example exc_need_count :
  wf_hunk_cb exc_bad4 = false /\
  rt_c exc_bad4 [] = Ok ([mkHunk (mkRange 5 1) (mkRange 5 2) [mkPL Ctx (cl "a" LF); mkPL Add (cl "b" LF)]], mkStream [] true false).
Proof. split; vm_compute; reflexivity. Qed.

(* what follows a hunk whose new side is not printed must not look like a line of a new side: here the reader takes the
   text after the hunk for its new side and fails *)
Example exc_need_tail :
  tail_ok_cb (bs "  see below" ++ [10%N]) = false /\ rt_c exc_h2 (bs "  see below" ++ [10%N]) = Throw ERuntime.
Proof. split; vm_compute; reflexivity. Qed.

(* ... while a side that is not printed, or a one-line new side printed alone, only needs start <= 2^63-1 *)
Definition exc_edge : hunk := mkHunk (mkRange 9223372036854775807 0) (mkRange 9223372036854775807 1) [mkPL Add (cl "b" LF)].
Example exc_range_edge : wf_hunk_cb exc_edge = true /\ rt_c exc_edge [] = Ok ([exc_edge], mkStream [] true false).
Proof. split; vm_compute; reflexivity. Qed.

Print Assumptions context_roundtrip.
Print Assumptions context_roundtrip_hunks.
Print Assumptions context_roundtrip_list.
Print Assumptions context_roundtrip_normal.
Print Assumptions normalise_sides.
Print Assumptions normalise_idem.
Print Assumptions reject_context_file.
Print Assumptions wf_hunk_cb_ok.
Print Assumptions exc_roundtrip.
Print Assumptions wf_hunk_c_simple.

(* ---------- the two forms together ---------- *)
(* a hunk that can be written and read back in context form can be written and read back in unified form as well
   (Proofs_Unified.wf_hunk), provided both ranges end inside int64 *)
Lemma side_ok_mid : forall a l c, side_ok (a ++ l :: c) -> clean (txt l) /\ (nl l = LF \/ (nl l = NoNL /\ c = [])).
Proof.
  induction a as [|x a IH]; intros l c H; cbn [app side_ok] in H.
  - destruct H as (A & B & _). auto.
  - destruct H as (_ & _ & R). apply IH. exact R.
Qed.

Lemma side_ok_ctx_mid rx : forall a x c, side_ok_ctx rx (a ++ x :: c) ->
  clean (txt (snd x)) /\ (nl (snd x) = LF \/ (nl (snd x) = NoNL /\ (c = [] \/ (rx = true /\ fst x = true)))).
Proof.
  induction a as [|y a IH]; intros x c H; cbn [app side_ok_ctx] in H.
  - destruct H as (A & B & _). auto.
  - destruct H as (_ & _ & R). apply IH. exact R.
Qed.

Lemma old_side_app x y : old_side (x ++ y) = old_side x ++ old_side y.
Proof. unfold old_side. rewrite filter_app, map_app. reflexivity. Qed.
Lemma new_tagged_app x y : new_tagged (x ++ y) = new_tagged x ++ new_tagged y.
Proof. unfold new_tagged. rewrite filter_app, map_app. reflexivity. Qed.

Lemma new_tagged_nil_count r : new_tagged r = [] -> n_new r = 0%Z.
Proof.
  intros E. rewrite <- new_side_length, <- new_tagged_lines, E. reflexivity.
Qed.
Lemma old_side_nil_count r : old_side r = [] -> n_old r = 0%Z.
Proof. intros E. rewrite <- old_side_length, E. reflexivity. Qed.

Lemma wf_body_of_sides : forall r pre,
  (has_del (pre ++ r) = true -> side_ok (old_side (pre ++ r))) ->
  (new_printed (pre ++ r) = true -> side_ok_ctx (has_del (pre ++ r)) (new_tagged (pre ++ r))) ->
  wf_body r.
Proof.
  induction r as [|p r IH]; intros pre So Sn; [exact I|]. cbn [wf_body]. split.
  - assert (Hd : is_del p = true -> has_del (pre ++ p :: r) = true).
    { intros E. unfold has_del. rewrite existsb_app. cbn [existsb]. rewrite E. apply orb_true_r. }
    assert (Ha : is_add p = true -> new_printed (pre ++ p :: r) = true).
    { intros E. unfold new_printed, has_add. rewrite existsb_app. cbn [existsb]. rewrite E. rewrite orb_true_r. reflexivity. }
    assert (Old : has_del (pre ++ p :: r) = true -> is_add p = false ->
                  clean (txt (pl p)) /\ (nl (pl p) = LF \/ (nl (pl p) = NoNL /\ n_old r = 0%Z))).
    { intros E1 E2. specialize (So E1). rewrite old_side_app, old_side_cons, E2 in So. apply side_ok_mid in So.
      destruct So as [A [B|[B C]]]; split; auto. right. split; [exact B|apply old_side_nil_count; exact C]. }
    assert (New : new_printed (pre ++ p :: r) = true -> is_del p = false ->
                  (has_del (pre ++ p :: r) = true -> is_ctx p = false) ->
                  clean (txt (pl p)) /\ (nl (pl p) = LF \/ (nl (pl p) = NoNL /\ n_new r = 0%Z))).
    { intros E1 E2 E3. specialize (Sn E1). rewrite new_tagged_app, new_tagged_cons, E2 in Sn. apply side_ok_ctx_mid in Sn.
      cbn [fst snd] in Sn. destruct Sn as [A [B|[B [C|[C1 C2]]]]]; split; auto.
      - right. split; [exact B|apply new_tagged_nil_count; exact C].
      - specialize (E3 C1). congruence. }
    unfold wf_pline, is_old, is_new. unfold is_del, is_add, is_ctx in *. destruct (pop p) eqn:Hp.
    + destruct (has_del (pre ++ p :: r)) eqn:Hdel.
      * destruct (Old eq_refl eq_refl) as [A [B|[B C]]]; (split; [exact A|split; [congruence|]]); intros E; [congruence|].
        right. auto.
      * assert (Hnp : new_printed (pre ++ p :: r) = true) by (unfold new_printed; rewrite Hdel; apply orb_true_r).
        destruct (New Hnp eq_refl ltac:(discriminate)) as [A [B|[B C]]]; (split; [exact A|split; [congruence|]]); intros E; [congruence|].
        left. auto.
    + destruct (New (Ha eq_refl) eq_refl ltac:(reflexivity)) as [A [B|[B C]]]; (split; [exact A|split; [congruence|]]); intros E; [congruence|].
      left. auto.
    + destruct (Old (Hd eq_refl) eq_refl) as [A [B|[B C]]]; (split; [exact A|split; [congruence|]]); intros E; [congruence|].
      right. auto.
  - apply (IH (pre ++ [p])); rewrite <- app_assoc; cbn [app]; assumption.
Qed.

Theorem wf_hunk_c_unified h : wf_hunk_c h -> range_fits (oldr h) -> range_fits (newr h) -> wf_hunk h.
Proof.
  intros (Hne & ((Os & Om) & Oc) & ((Ns & Nm) & Nc) & Eo & En & So & Sn) Fo Fn. unfold range_fits in *.
  unfold wf_hunk, wf_range. refine (conj Hne (conj _ (conj _ (conj _ (conj Eo En))))); [|lia|lia].
  apply (wf_body_of_sides (body h) []); cbn [app].
  - intros E. apply So. exact E.
  - intros E. apply Sn. exact E.
Qed.

(* both halves of C13 for one hunk: the unified form gives the hunk back, the context form the normalised hunk *)
Theorem roundtrip_both_forms h tail :
  wf_hunk_c h -> range_fits (oldr h) -> range_fits (newr h) ->
  (tail_ok tail -> parse_unified_patch (strm (write_hunk_as_unified h ++ tail)) = Ok ([h], after tail)) /\
  (tail_ok_c tail -> parse_context_patch (strm (sep ++ ctext h ++ tail)) = Ok ([norm_hunk h], final_c h tail)).
Proof.
  intros Hwf Fo Fn. split; intros Ht.
  - pose proof (unified_roundtrip [h] tail ltac:(discriminate) (Forall_cons _ (wf_hunk_c_unified h Hwf Fo Fn) (Forall_nil _)) Ht) as E.
    cbn [emit_hunks flat_map] in E. rewrite app_nil_r in E. exact E.
  - pose proof (context_roundtrip_hunks h [] tail (Forall_cons _ Hwf (Forall_nil _)) Ht) as E.
    cbn [emit_c flat_map map lasth] in E. rewrite app_nil_r, <- app_assoc in E. exact E.
Qed.
Print Assumptions wf_hunk_c_unified.
Print Assumptions roundtrip_both_forms.
