(* Properties_C13.v — C13: reject files are valid patches that carry exactly the failed changes (unified form).
   Statements only; proofs in Proofs_Unified.v (byte level: formatter.cpp against parser.cpp), Proofs_Rejects.v (which
   hunks are written), Proofs_Decimal.v (numbers). *)
From PatchV Require Import Base Lines Hunk Locator Formatter Options Applier LineParser Parser Spec_Locate Spec_Apply
     Proofs_Apply Proofs_Decimal Proofs_Unified Proofs_Rejects Proofs_CtxLines Proofs_CtxMerge Proofs_Context.

(* a line number that is printed is read back as itself (up to 2^63-1) *)
Theorem consume_printed : forall n rest,
  (n <= MAXLN)%N -> not_digit_start rest ->
  consume_line_number (print_N n ++ rest) = Some (true, Z.of_N n, rest).
Proof. exact Proofs_Decimal.consume_printed. Qed.
Print Assumptions consume_printed.

(* a '@@ -a,b +c,d @@' line that is written is read back as the same ranges *)
Theorem parse_unified_header : forall h0 o n,
  wf_range o -> wf_range n -> parse_unified_range h0 (unified_header o n) = (true, mkHunk o n (body h0)).
Proof. exact Proofs_Unified.parse_unified_header. Qed.
Print Assumptions parse_unified_header.

(* Hunks written in unified form are read back by this tool's own parser as exactly the same hunks — same ranges, same
   old-side and new-side lines in the same order, same missing-newline marks — and the parser stops where they end.
   wf_hunk: counts agree with the body, numbers within int64, no line feed inside a line, no trailing CR, terminators LF or
   none, "no newline" only on the last line of a side (what a reject hunk is). *)
Theorem unified_roundtrip : forall hs tail,
  hs <> [] -> Forall wf_hunk hs -> tail_ok tail ->
  parse_unified_patch (strm (emit_hunks hs ++ tail)) = Ok (hs, after tail).
Proof. exact Proofs_Unified.unified_roundtrip. Qed.
Print Assumptions unified_roundtrip.

(* what is written to the reject file: the header once, then exactly the rejected hunks, in order, shifted by the net
   growth of the hunks applied before them *)
Theorem rejects_loop : forall o p f,
  define_macro o = [] -> should_write_as_unified o p = true ->
  forall hs k s s', a_skip s = false -> apply_rest o p f k s hs = Ok s' ->
  exists vs, verdicts_from_locate o p f (a_ln s) (a_offerr s) hs vs /\
             a_rej s' = a_rej s ++ rej_bytes p (a_rejected s) (expected_rejects vs hs (a_o2n s)) /\
             a_rejected s' = a_rejected s + length (expected_rejects vs hs (a_o2n s)).
Proof. exact Proofs_Rejects.rejects_loop. Qed.
Print Assumptions rejects_loop.

Theorem rejects_skipped : forall o p f,
  define_macro o = [] -> should_write_as_unified o p = true ->
  forall hs k s s', a_skip s = true -> apply_rest o p f k s hs = Ok s' ->
  a_rej s' = a_rej s ++ rej_bytes p (a_rejected s) (map (fun h => shift_hunk h (a_o2n s)) hs) /\
  a_rejected s' = a_rejected s + length hs.
Proof. exact Proofs_Rejects.rejects_skipped. Qed.
Print Assumptions rejects_skipped.

Local Open Scope string_scope.
Definition ex_l (s : String.string) (n : newline) := mkLine (bs s) n.
Definition ex_h1 := mkHunk (mkRange 3 2) (mkRange 3 3) [mkPL Ctx (ex_l "a" LF); mkPL Del (ex_l "b" LF); mkPL Add (ex_l "B" LF); mkPL Add (ex_l "c" LF)].
Definition ex_h2 := mkHunk (mkRange 10 1) (mkRange 11 1) [mkPL Del (ex_l "x" NoNL); mkPL Add (ex_l "y" NoNL)].
Example roundtrip_nonvacuous :
  wf_hunk ex_h1 /\ wf_hunk ex_h2 /\
  parse_unified_patch (strm (emit_hunks [ex_h1; ex_h2])) = Ok ([ex_h1; ex_h2], mkStream [] true false).
Proof.
  split; [|split].
  - unfold wf_hunk, wf_range, wf_body, wf_pline, clean, MAXZ. cbn. repeat split; try discriminate; try lia; try (intros [E|[]]; discriminate); try tauto; try (intros H; discriminate H); vm_compute; intuition discriminate.
  - unfold wf_hunk, wf_range, wf_body, wf_pline, clean, MAXZ. cbn. repeat split; try discriminate; try lia; try tauto; try (intros _; vm_compute; auto); vm_compute; intuition discriminate.
  - vm_compute. reflexivity.
Qed.

(* ---------------------------------------------------------------------------------------------------------------
   C13, context form: "writing any hunk in unified or context form and reading it back never changes the change it
   denotes".  Proofs in Proofs_CtxLines.v (range lines and hunk lines, byte level), Proofs_CtxMerge.v (the writer's state
   machine against hunk_from_context_parts), Proofs_Context.v (parse_context_patch). *)

(* One hunk written in context form after a line of stars is read back by this tool's own reader as a hunk with the same
   ranges, the same old side and the same new side, lines without newline included; its body is the body of the hunk with,
   inside each change group, the deletions moved before the additions (the context form cannot say more).
   sep = "***************" LF.  wf_hunk_c, tail_ok_c, final_c: see Proofs_Context.v. *)
Theorem context_roundtrip : forall h t tail,
  wf_hunk_c h -> tail_ok_c tail -> write_hunk_as_context h = Ok t ->
  exists h', parse_context_patch (strm (sep ++ t ++ tail)) = Ok ([h'], final_c h tail) /\
             oldr h' = oldr h /\ newr h' = newr h /\ body h' = normalise (body h) /\
             old_side (body h') = old_side (body h) /\ new_side (body h') = new_side (body h).
Proof. exact Proofs_Context.context_roundtrip. Qed.
Print Assumptions context_roundtrip.

(* several hunks, as they stand in a context reject file after its two header lines *)
Theorem context_roundtrip_list : forall h hs ts tail,
  Forall wf_hunk_c (h :: hs) -> tail_ok_c tail ->
  Forall2 (fun h t => write_hunk_as_context h = Ok t) (h :: hs) ts ->
  parse_context_patch (strm (flat_map (fun t => sep ++ t) ts ++ tail))
  = Ok (map norm_hunk (h :: hs), final_c (lasth h hs) tail).
Proof. exact Proofs_Context.context_roundtrip_list. Qed.
Print Assumptions context_roundtrip_list.

(* the normalisation keeps both sides and is a projection; a hunk that came out of the reader is written and read back
   as exactly itself *)
Theorem normalise_sides : forall b, old_side (normalise b) = old_side b /\ new_side (normalise b) = new_side b.
Proof. exact Proofs_CtxMerge.normalise_sides. Qed.
Print Assumptions normalise_sides.

Theorem normalise_idem : forall b, normalise (normalise b) = normalise b.
Proof. exact Proofs_Context.normalise_idem. Qed.
Print Assumptions normalise_idem.

Theorem context_roundtrip_normal : forall h tail,
  wf_hunk_c h -> tail_ok_c tail ->
  parse_context_patch (strm (sep ++ ctext (norm_hunk h) ++ tail)) = Ok ([norm_hunk h], final_c h tail).
Proof. exact Proofs_Context.context_roundtrip_normal. Qed.
Print Assumptions context_roundtrip_normal.

(* what apply_patch writes to a context reject file: the two header lines, then each rejected hunk after a line of stars *)
Theorem reject_context_file : forall o p h hs,
  should_write_as_unified o p = false -> Forall wf_hunk_c (h :: hs) ->
  reject_stream o p 0 (h :: hs) = Ok (ctx_header_lines p ++ emit_c (h :: hs)).
Proof. exact Proofs_Context.reject_context_file. Qed.
Print Assumptions reject_context_file.

(* a hunk fit for the context form is fit for the unified form (wf_hunk of Proofs_Unified.v) when both ranges end inside
   int64; so for such a hunk both halves of C13 hold: unified gives the hunk back, context gives the normalised hunk *)
Theorem wf_hunk_c_unified : forall h, wf_hunk_c h -> range_fits (oldr h) -> range_fits (newr h) -> wf_hunk h.
Proof. exact Proofs_Context.wf_hunk_c_unified. Qed.
Print Assumptions wf_hunk_c_unified.

Theorem roundtrip_both_forms : forall h tail,
  wf_hunk_c h -> range_fits (oldr h) -> range_fits (newr h) ->
  (tail_ok tail -> parse_unified_patch (strm (write_hunk_as_unified h ++ tail)) = Ok ([h], after tail)) /\
  (tail_ok_c tail -> parse_context_patch (strm (sep ++ ctext h ++ tail)) = Ok ([norm_hunk h], final_c h tail)).
Proof. exact Proofs_Context.roundtrip_both_forms. Qed.
Print Assumptions roundtrip_both_forms.

(* the hypotheses can be checked by computation *)
Theorem wf_hunk_cb_ok : forall h, wf_hunk_cb h = true -> wf_hunk_c h.
Proof. exact Proofs_Context.wf_hunk_cb_ok. Qed.
Print Assumptions wf_hunk_cb_ok.
Theorem tail_ok_cb_ok : forall tail, tail_ok_cb tail = true -> tail_ok_c tail.
Proof. exact Proofs_Context.tail_ok_cb_ok. Qed.
Print Assumptions tail_ok_cb_ok.

Example roundtrip_context_nonvacuous :
  wf_hunk_c exc_h1 /\ wf_hunk_c exc_h2 /\ wf_hunk_c exc_h3 /\
  parse_context_patch (strm (emit_c [exc_h1; exc_h2; exc_h3] ++ bs "diff -c a b" ++ [10%N]))
  = Ok ([norm_hunk exc_h1; exc_h2; exc_h3], strm (bs "diff -c a b" ++ [10%N])).
Proof. destruct exc_wf as (A & B & C). exact (conj A (conj B (conj C exc_roundtrip))). Qed.
