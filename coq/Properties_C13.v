(* Properties_C13.v — C13: reject files are valid patches that carry exactly the failed changes (unified form).
   Statements only; proofs in Proofs_Unified.v (byte level: formatter.cpp against parser.cpp), Proofs_Rejects.v (which
   hunks are written), Proofs_Decimal.v (numbers). *)
From PatchV Require Import Base Lines Hunk Locator Formatter Options Applier LineParser Parser Spec_Locate Spec_Apply
     Proofs_Apply Proofs_Decimal Proofs_Unified Proofs_Rejects Proofs_CtxLines Proofs_CtxMerge Proofs_Context.

(* a line number that is printed is read back as itself (up to 2^63-1) *)
Theorem consume_printed : forall n rest,
  (n <= MAXLN)%N -> not_digit_start rest ->
  consume_line_number (print_N n ++ rest) = Some (true, Z.of_N n, rest).
Proof. exact Proofs_Decimal.consume_printed. Qed.
Print Assumptions consume_printed.

(* a '@@ -a,b +c,d @@' line that is written is read back as the same ranges *)
Theorem parse_unified_header : forall h0 o n,
  wf_range o -> wf_range n -> parse_unified_range h0 (unified_header o n) = (true, mkHunk o n (body h0)).
Proof. exact Proofs_Unified.parse_unified_header. Qed.
Print Assumptions parse_unified_header.

(* Hunks written in unified form are read back by this tool's own parser as exactly the same hunks — same ranges, same
   old-side and new-side lines in the same order, same missing-newline marks — and the parser stops where they end.
   wf_hunk: counts agree with the body, numbers within int64, no line feed inside a line, no trailing CR, terminators LF or
   none, "no newline" only on the last line of a side (what a reject hunk is). *)
Theorem unified_roundtrip : forall hs tail,
  hs <> [] -> Forall wf_hunk hs -> tail_ok tail ->
  parse_unified_patch (strm (emit_hunks hs ++ tail)) = Ok (hs, after tail).
Proof. exact Proofs_Unified.unified_roundtrip. Qed.
Print Assumptions unified_roundtrip.

(* what is written to the reject file: the header once, then exactly the rejected hunks, in order, shifted by the net
   growth of the hunks applied before them *)
Theorem rejects_loop : forall o p f,
  define_macro o = [] -> should_write_as_unified o p = true ->
  forall hs k s s', a_skip s = false -> apply_rest o p f k s hs = Ok s' ->
  exists vs, verdicts_from_locate o p f (a_ln s) (a_offerr s) hs vs /\
             a_rej s' = a_rej s ++ rej_bytes p (a_rejected s) (expected_rejects vs hs (a_o2n s)) /\
             a_rejected s' = a_rejected s + length (expected_rejects vs hs (a_o2n s)).
Proof. exact Proofs_Rejects.rejects_loop. Qed.
Print Assumptions rejects_loop.

Theorem rejects_skipped : forall o p f,
  define_macro o = [] -> should_write_as_unified o p = true ->
  forall hs k s s', a_skip s = true -> apply_rest o p f k s hs = Ok s' ->
  a_rej s' = a_rej s ++ rej_bytes p (a_rejected s) (map (fun h => shift_hunk h (a_o2n s)) hs) /\
  a_rejected s' = a_rejected s + length hs.
Proof. exact Proofs_Rejects.rejects_skipped. Qed.
Print Assumptions rejects_skipped.

Local Open Scope string_scope.
Definition ex_l (s : String.string) (n : newline) := mkLine (bs s) n.
Definition ex_h1 := mkHunk (mkRange 3 2) (mkRange 3 3) [mkPL Ctx (ex_l "a" LF); mkPL Del (ex_l "b" LF); mkPL Add (ex_l "B" LF); mkPL Add (ex_l "c" LF)].
Definition ex_h2 := mkHunk (mkRange 10 1) (mkRange 11 1) [mkPL Del (ex_l "x" NoNL); mkPL Add (ex_l "y" NoNL)].
Example roundtrip_nonvacuous :
  wf_hunk ex_h1 /\ wf_hunk ex_h2 /\
  parse_unified_patch (strm (emit_hunks [ex_h1; ex_h2])) = Ok ([ex_h1; ex_h2], mkStream [] true false).
Proof.
  split; [|split].
  - unfold wf_hunk, wf_range, wf_body, wf_pline, clean, MAXZ. cbn. repeat split; try discriminate; try lia; try (intros [E|[]]; discriminate); try tauto; try (intros H; discriminate H); vm_compute; intuition discriminate.
  - unfold wf_hunk, wf_range, wf_body, wf_pline, clean, MAXZ. cbn. repeat split; try discriminate; try lia; try tauto; try (intros _; vm_compute; auto); vm_compute; intuition discriminate.
  - vm_compute. reflexivity.
Qed.

(* ---------------------------------------------------------------------------------------------------------------
   C13, context form: "writing any hunk in unified or context form and reading it back never changes the change it
   denotes".  Proofs in Proofs_CtxLines.v (range lines and hunk lines, byte level), Proofs_CtxMerge.v (the writer's state
   machine against hunk_from_context_parts), Proofs_Context.v (parse_context_patch). *)

(* One hunk written in context form after a line of stars is read back by this tool's own reader as a hunk with the same
   ranges, the same old side and the same new side, lines without newline included; its body is the body of the hunk with,
   inside each change group, the deletions moved before the additions (the context form cannot say more).
   sep = "***************" LF.  wf_hunk_c, tail_ok_c, final_c: see Proofs_Context.v. *)
Theorem context_roundtrip : forall h t tail,
  wf_hunk_c h -> tail_ok_c tail -> write_hunk_as_context h = Ok t ->
  exists h', parse_context_patch (strm (sep ++ t ++ tail)) = Ok ([h'], final_c h tail) /\
             oldr h' = oldr h /\ newr h' = newr h /\ body h' = normalise (body h) /\
             old_side (body h') = old_side (body h) /\ new_side (body h') = new_side (body h).
Proof. exact Proofs_Context.context_roundtrip. Qed.
Print Assumptions context_roundtrip.

(* several hunks, as they stand in a context reject file after its two header lines *)
Theorem context_roundtrip_list : forall h hs ts tail,
  Forall wf_hunk_c (h :: hs) -> tail_ok_c tail ->
  Forall2 (fun h t => write_hunk_as_context h = Ok t) (h :: hs) ts ->
  parse_context_patch (strm (flat_map (fun t => sep ++ t) ts ++ tail))
  = Ok (map norm_hunk (h :: hs), final_c (lasth h hs) tail).
Proof. exact Proofs_Context.context_roundtrip_list. Qed.
Print Assumptions context_roundtrip_list.

(* the normalisation keeps both sides and is a projection; a hunk that came out of the reader is written and read back
   as exactly itself *)
Theorem normalise_sides : forall b, old_side (normalise b) = old_side b /\ new_side (normalise b) = new_side b.
Proof. exact Proofs_CtxMerge.normalise_sides. Qed.
Print Assumptions normalise_sides.

Theorem normalise_idem : forall b, normalise (normalise b) = normalise b.
Proof. exact Proofs_Context.normalise_idem. Qed.
Print Assumptions normalise_idem.

Theorem context_roundtrip_normal : forall h tail,
  wf_hunk_c h -> tail_ok_c tail ->
  parse_context_patch (strm (sep ++ ctext (norm_hunk h) ++ tail)) = Ok ([norm_hunk h], final_c h tail).
Proof. exact Proofs_Context.context_roundtrip_normal. Qed.
Print Assumptions context_roundtrip_normal.

(* what apply_patch writes to a context reject file: the two header lines, then each rejected hunk after a line of stars *)
Theorem reject_context_file : forall o p h hs,
  should_write_as_unified o p = false -> Forall wf_hunk_c (h :: hs) ->
  reject_stream o p 0 (h :: hs) = Ok (ctx_header_lines p ++ emit_c (h :: hs)).
Proof. exact Proofs_Context.reject_context_file. Qed.
Print Assumptions reject_context_file.

(* a hunk fit for the context form is fit for the unified form (wf_hunk of Proofs_Unified.v) when both ranges end inside
   int64; so for such a hunk both halves of C13 hold: unified gives the hunk back, context gives the normalised hunk *)
Theorem wf_hunk_c_unified : forall h, wf_hunk_c h -> range_fits (oldr h) -> range_fits (newr h) -> wf_hunk h.
Proof. exact Proofs_Context.wf_hunk_c_unified. Qed.
Print Assumptions wf_hunk_c_unified.

Theorem roundtrip_both_forms : forall h tail,
  wf_hunk_c h -> range_fits (oldr h) -> range_fits (newr h) ->
  (tail_ok tail -> parse_unified_patch (strm (write_hunk_as_unified h ++ tail)) = Ok ([h], after tail)) /\
  (tail_ok_c tail -> parse_context_patch (strm (sep ++ ctext h ++ tail)) = Ok ([norm_hunk h], final_c h tail)).
Proof. exact Proofs_Context.roundtrip_both_forms. Qed.
Print Assumptions roundtrip_both_forms.

(* the hypotheses can be checked by computation *)
Theorem wf_hunk_cb_ok : forall h, wf_hunk_cb h = true -> wf_hunk_c h.
Proof. exact Proofs_Context.wf_hunk_cb_ok. Qed.
Print Assumptions wf_hunk_cb_ok.
Theorem tail_ok_cb_ok : forall tail, tail_ok_cb tail = true -> tail_ok_c tail.
Proof. exact Proofs_Context.tail_ok_cb_ok. Qed.
Print Assumptions tail_ok_cb_ok.

Example roundtrip_context_nonvacuous :
  wf_hunk_c exc_h1 /\ wf_hunk_c exc_h2 /\ wf_hunk_c exc_h3 /\
  parse_context_patch (strm (emit_c [exc_h1; exc_h2; exc_h3] ++ bs "diff -c a b" ++ [10%N]))
  = Ok ([norm_hunk exc_h1; exc_h2; exc_h3], strm (bs "diff -c a b" ++ [10%N])).
Proof. destruct exc_wf as (A & B & C). exact (conj A (conj B (conj C exc_roundtrip))). Qed.

(* ===== merged from Properties_RejectFile.v ===== *)
From PatchV Require Import Base Lines Hunk Locator Formatter Options Applier LineParser Parser
     Spec_Locate Spec_Apply Proofs_Apply Proofs_Unified Proofs_Filler Proofs_Names Proofs_Rejects Proofs_CtxLines Proofs_CtxMerge
     Proofs_Context Proofs_Sections_Unified Proofs_Whole Proofs_RejectFile.

(* vocabulary (Proofs_RejectFile.v):
   hdr_time path time   the stamp fmt_header_line prints after the name: Some time, or None when time is empty or the name
                        is /dev/null;
   name_reads name t    the name is not empty, has no tab, does not start with a double quote, and has no blank when t = None;
   hdr_ok path time     name_reads path (hdr_time path time) and the line "path<TAB>time" is clean (no LF, no CR at its end);
   time_kept path time  [] after /dev/null, else time;
   reparsed f h1 p strip hs   the record mkPatch f (operation decided from h1 and the names) [] [] (stripped old) (stripped new)
                        (time_kept ..) (time_kept ..) 0 0 hs;
   rejected_by o f p r rj     rj = the hunks of the record q the run worked with (p, reversed under -R, reversed again
                        when the reversed-patch question was answered yes) whose verdict is "rejected", each shifted by the
                        net growth of the hunks applied before it (expected_rejects of Proofs_Rejects.v); r_patch r is q
                        with the applied hunks as they were and the rejected ones shifted (hunks_left); run_kind says how
                        the run went: normally (the verdicts are locate_hunk's answers), skipped, or taken as reversed;
   read_back r strip f hs p'  p' has format f, hunks hs, the names of r_patch r after the strip, its time stamps. *)

(* what write_reject appends, hunk after hunk, in unified form: the two header lines once, then the hunks *)
Theorem reject_unified_file : forall o p h hs,
  should_write_as_unified o p = true ->
  reject_stream o p 0 (h :: hs) = Ok (write_patch_header_as_unified p ++ emit_hunks (h :: hs)).
Proof. exact Proofs_RejectFile.reject_unified_file. Qed.
Print Assumptions reject_unified_file.

(* the header scan on "--- name<TAB>stamp" / "+++ name<TAB>stamp" with names that may hold blanks when a stamp follows *)
Theorem unified_header_scan_names : forall strip f fl oldname t1 newname t2 h1 hs tail,
  f = FUnknown \/ f = FUnified ->
  Forall (Filler strip (empty_patch f)) fl -> Forall clean fl ->
  name_reads oldname t1 -> name_reads newname t2 -> clean (oldname ++ tab_time t1) -> clean (newname ++ tab_time t2) ->
  Forall wf_hunk (h1 :: hs) ->
  parse_patch_header_full (empty_patch f) strip
    (strm (join_lines (fl ++ [bs "--- " ++ oldname ++ tab_time t1; bs "+++ " ++ newname ++ tab_time t2]) ++ emit_hunks (h1 :: hs) ++ tail)) =
  Ok (true,
      mkPatch FUnified (decide_oper h1 (stripped oldname strip) (stripped newname strip)) [] []
              (stripped oldname strip) (stripped newname strip) (opt_or (time_read t1) []) (opt_or (time_read t2) []) 0 0 [],
      strm (emit_hunks (h1 :: hs) ++ tail), true).
Proof. exact Proofs_RejectFile.unified_header_scan_names. Qed.
Print Assumptions unified_header_scan_names.

(* (1) a unified reject file — the two header lines of the record p and the hunks hs — is read back by parse_patch, for any
   -p, as a unified patch with exactly these hunks and the (stripped) names of p *)
Theorem unified_reject_file_reparses : forall p h hs strip,
  hdr_ok (old_path p) (old_time p) -> hdr_ok (new_path p) (new_time p) -> Forall wf_hunk (h :: hs) ->
  parse_patch (write_patch_header_as_unified p ++ emit_hunks (h :: hs)) FUnknown strip =
  Ok (reparsed FUnified h p strip (h :: hs)).
Proof. exact Proofs_RejectFile.unified_reject_file_reparses. Qed.
Print Assumptions unified_reject_file_reparses.

(* the header scan on a context header: "*** old<TAB>stamp", "--- new<TAB>stamp", the row of stars, "*** a,b ****": the scan
   ends on the old range line with the format Context, and the stream is put back on the row of stars *)
Theorem context_header_scan : forall strip f fl oldname t1 newname t2 h1 hs tail,
  f = FUnknown \/ f = FContext ->
  Forall (Filler strip (empty_patch f)) fl -> Forall clean fl ->
  name_reads oldname t1 -> name_reads newname t2 -> clean (oldname ++ tab_time t1) -> clean (newname ++ tab_time t2) ->
  wf_crange0 (oldr h1) ->
  parse_patch_header_full (empty_patch f) strip
    (strm (join_lines (fl ++ [bs "*** " ++ oldname ++ tab_time t1; bs "--- " ++ newname ++ tab_time t2]) ++ emit_c (h1 :: hs) ++ tail)) =
  Ok (true,
      mkPatch FContext (decide_oper (first_old (oldr h1)) (stripped oldname strip) (stripped newname strip)) [] []
              (stripped oldname strip) (stripped newname strip) (opt_or (time_read t1) []) (opt_or (time_read t2) []) 0 0 [],
      strm (emit_c (h1 :: hs) ++ tail), true).
Proof. exact Proofs_RejectFile.context_header_scan. Qed.
Print Assumptions context_header_scan.

(* (2) a context reject file is read back as a context patch with the normalised hunks (same ranges, same old and new
   sides; inside a change group the deletions first) and the names of p *)
Theorem context_reject_file_reparses : forall p h hs strip,
  hdr_ok (old_path p) (old_time p) -> hdr_ok (new_path p) (new_time p) -> Forall wf_hunk_c (h :: hs) ->
  parse_patch (ctx_header_lines p ++ emit_c (h :: hs)) FUnknown strip =
  Ok (reparsed FContext (first_old (oldr h)) p strip (map norm_hunk (h :: hs))).
Proof. exact Proofs_RejectFile.context_reject_file_reparses. Qed.
Print Assumptions context_reject_file_reparses.

(* the loop of apply_patch, either reject format: what is appended to the reject file is write_reject on exactly the
   rejected hunks, shifted, in order; the record keeps the applied hunks as they are and the rejected ones shifted *)
Theorem rejects_loop_gen : forall o p f,
  define_macro o = [] ->
  forall hs k s s', a_skip s = false -> apply_rest o p f k s hs = Ok s' ->
  exists vs t, verdicts_from_locate o p f (a_ln s) (a_offerr s) hs vs /\
               reject_stream o p (a_rejected s) (expected_rejects vs hs (a_o2n s)) = Ok t /\
               a_rej s' = a_rej s ++ t /\
               a_rejected s' = a_rejected s + length (expected_rejects vs hs (a_o2n s)) /\
               a_hunks s' = a_hunks s ++ hunks_left vs hs (a_o2n s) /\ a_skip s' = false.
Proof. exact Proofs_RejectFile.rejects_loop_gen. Qed.
Print Assumptions rejects_loop_gen.

(* the whole of apply_patch (reversed-patch question included): r_rej is write_reject on the rejected hunks *)
Theorem apply_patch_reject_stream : forall o f p r,
  define_macro o = [] -> apply_patch o f p = Ok r ->
  exists rj, rejected_by o f p r rj /\ length rj = r_failed r /\ reject_stream o (r_patch r) 0 rj = Ok (r_rej r).
Proof. exact Proofs_RejectFile.apply_patch_reject_stream. Qed.
Print Assumptions apply_patch_reject_stream.

Theorem rejected_by_incl : forall o f p r rj, rejected_by o f p r rj -> forall h, In h rj -> In h (hunks (r_patch r)).
Proof. exact Proofs_RejectFile.rejected_by_incl. Qed.
Print Assumptions rejected_by_incl.

Theorem rejected_by_force : forall o f p r rj,
  rejected_by o f p r rj -> force o = true ->
  let p1 := if reverse_patch_opt o then reverse_patch p else p in
  exists vs, verdicts_from_locate o p1 f 0 0 (hunks p1) vs /\ rj = expected_rejects vs (hunks p1) 0 /\
             hunks (r_patch r) = hunks_left vs (hunks p1) 0.
Proof. exact Proofs_RejectFile.rejected_by_force. Qed.
Print Assumptions rejected_by_force.

(* (3) after a run with rejects, the reject file is read back as the rejected hunks *)
Theorem apply_patch_unified_reject_reparses : forall o f p r strip,
  define_macro o = [] -> apply_patch o f p = Ok r -> r_failed r <> 0 ->
  should_write_as_unified o (r_patch r) = true ->
  hdr_ok (old_path (r_patch r)) (old_time (r_patch r)) -> hdr_ok (new_path (r_patch r)) (new_time (r_patch r)) ->
  exists rj, rejected_by o f p r rj /\ length rj = r_failed r /\
    (Forall wf_hunk rj -> exists p', parse_patch (r_rej r) FUnknown strip = Ok p' /\ read_back r strip FUnified rj p').
Proof. exact Proofs_RejectFile.apply_patch_unified_reject_reparses. Qed.
Print Assumptions apply_patch_unified_reject_reparses.

Theorem apply_patch_context_reject_reparses : forall o f p r strip,
  define_macro o = [] -> apply_patch o f p = Ok r -> r_failed r <> 0 ->
  should_write_as_unified o (r_patch r) = false ->
  hdr_ok (old_path (r_patch r)) (old_time (r_patch r)) -> hdr_ok (new_path (r_patch r)) (new_time (r_patch r)) ->
  exists rj, rejected_by o f p r rj /\ length rj = r_failed r /\
    (Forall wf_hunk_c rj ->
     exists p', parse_patch (r_rej r) FUnknown strip = Ok p' /\ read_back r strip FContext (map norm_hunk rj) p').
Proof. exact Proofs_RejectFile.apply_patch_context_reject_reparses. Qed.
Print Assumptions apply_patch_context_reject_reparses.

(* ... with the well-formedness asked of the hunks the run returns (checkable on the result) *)
Theorem apply_patch_unified_reject_reparses_checked : forall o f p r strip,
  define_macro o = [] -> apply_patch o f p = Ok r -> r_failed r <> 0 ->
  should_write_as_unified o (r_patch r) = true ->
  hdr_ok (old_path (r_patch r)) (old_time (r_patch r)) -> hdr_ok (new_path (r_patch r)) (new_time (r_patch r)) ->
  Forall wf_hunk (hunks (r_patch r)) ->
  exists rj p', rejected_by o f p r rj /\ length rj = r_failed r /\
                parse_patch (r_rej r) FUnknown strip = Ok p' /\ read_back r strip FUnified rj p'.
Proof. exact Proofs_RejectFile.apply_patch_unified_reject_reparses_checked. Qed.
Print Assumptions apply_patch_unified_reject_reparses_checked.

Theorem apply_patch_context_reject_reparses_checked : forall o f p r strip,
  define_macro o = [] -> apply_patch o f p = Ok r -> r_failed r <> 0 ->
  should_write_as_unified o (r_patch r) = false ->
  hdr_ok (old_path (r_patch r)) (old_time (r_patch r)) -> hdr_ok (new_path (r_patch r)) (new_time (r_patch r)) ->
  Forall wf_hunk_c (hunks (r_patch r)) ->
  exists rj p', rejected_by o f p r rj /\ length rj = r_failed r /\
                parse_patch (r_rej r) FUnknown strip = Ok p' /\ read_back r strip FContext (map norm_hunk rj) p'.
Proof. exact Proofs_RejectFile.apply_patch_context_reject_reparses_checked. Qed.
Print Assumptions apply_patch_context_reject_reparses_checked.

(* side lemmas for the hypotheses *)
Theorem hdr_ok_simple : forall path time, plain_name path -> clean path -> clean time -> hdr_ok path time.
Proof. exact Proofs_RejectFile.hdr_ok_simple. Qed.
Print Assumptions hdr_ok_simple.

Theorem wf_hunk_shift : forall h d,
  wf_hunk h -> (0 <= rstart (oldr h) + d)%Z -> (0 <= rstart (newr h) + d)%Z -> wf_hunk (shift_hunk h d).
Proof. exact Proofs_RejectFile.wf_hunk_shift. Qed.
Print Assumptions wf_hunk_shift.

Theorem wf_hunk_c_shift : forall h d,
  wf_hunk_c h ->
  (0 <= rstart (oldr h) + d)%Z -> (rstart (oldr h) + d + rcount (oldr h) <= MAXZ)%Z ->
  (0 <= rstart (newr h) + d)%Z -> (rstart (newr h) + d + rcount (newr h) <= MAXZ)%Z ->
  wf_hunk_c (shift_hunk h d).
Proof. exact Proofs_RejectFile.wf_hunk_c_shift. Qed.
Print Assumptions wf_hunk_c_shift.

Theorem read_back_names : forall r strip f hs p',
  (strip <= 0)%Z -> ~ In 47%N (old_path (r_patch r)) -> ~ In 47%N (new_path (r_patch r)) ->
  read_back r strip f hs p' -> old_path p' = old_path (r_patch r) /\ new_path p' = new_path (r_patch r).
Proof. exact Proofs_RejectFile.read_back_names. Qed.
Print Assumptions read_back_names.

(* non-vacuity: a two-hunk patch, the second hunk rejected, both reject formats, every hypothesis discharged; and the two
   side conditions are needed (a name with a blank and no stamp; hunks that overlap) *)
Import RejectFileExamples.
Theorem ex_unified_reject : forall r,
  apply_patch default_options ex_lines ex_p = Ok r ->
  exists rj p', rejected_by default_options ex_lines ex_p r rj /\
                parse_patch (r_rej r) FUnknown (-1) = Ok p' /\ read_back r (-1) FUnified rj p' /\
                rj = [shift_hunk ex_h2 1] /\ old_path p' = bs "f.txt" /\ new_path p' = bs "f.txt" /\
                old_time p' = bs "2024-01-01 10:00:00" /\ new_time p' = bs "2024-01-02 11:00:00".
Proof. exact RejectFileExamples.ex_unified_reject. Qed.
Print Assumptions ex_unified_reject.

Theorem ex_context_reject : forall r,
  apply_patch ex_oc ex_lines ex_p = Ok r ->
  exists rj p', rejected_by ex_oc ex_lines ex_p r rj /\ length rj = 1 /\
                parse_patch (r_rej r) FUnknown (-1) = Ok p' /\ read_back r (-1) FContext (map norm_hunk rj) p' /\
                hunks p' = [shift_hunk ex_h2 1] /\ old_path p' = bs "f.txt" /\ new_path p' = bs "f.txt".
Proof. exact RejectFileExamples.ex_context_reject. Qed.
Print Assumptions ex_context_reject.

Theorem ex_runs :
  (exists r, apply_patch default_options ex_lines ex_p = Ok r /\ r_failed r = 1) /\
  (exists r, apply_patch ex_oc ex_lines ex_p = Ok r /\ r_failed r = 1).
Proof. exact RejectFileExamples.ex_runs. Qed.
Print Assumptions ex_runs.

Theorem blank_name_not_read_back :
  exists p', parse_patch (write_patch_header_as_unified ex_p_blank ++ emit_hunks [ex_h2]) FUnknown (-1) = Ok p' /\
             old_path p' = bs "my" /\ new_path p' = bs "my" /\ old_time p' = bs "file.txt".
Proof. exact RejectFileExamples.blank_name_not_read_back. Qed.
Print Assumptions blank_name_not_read_back.

Theorem negative_start_stops_at_zero :
  exists r, apply_patch default_options ex_lines ex_p_neg = Ok r /\ r_failed r = 1 /\
            r_rej r = bs "--- f.txt" ++ [10%N] ++ bs "+++ f.txt" ++ [10%N] ++ bs "@@ -0 +0 @@" ++ [10%N] ++ bs "-X" ++ [10%N] ++ bs "+Y" ++ [10%N] /\
            exists p', parse_patch (r_rej r) FUnknown (-1) = Ok p' /\ map body (hunks p') = [body ex_g2].
Proof. exact RejectFileExamples.negative_start_stops_at_zero. Qed.
Print Assumptions negative_start_stops_at_zero.

(* ===== merged from Properties_RejectWf.v ===== *)
From PatchV Require Import Base Lines Hunk Locator Formatter Options Applier LineParser Parser
     Spec_Locate Spec_Apply Proofs_Apply Proofs_Unified Proofs_Rejects Proofs_CtxLines Proofs_CtxMerge Proofs_Context
     Proofs_RejectFile Proofs_RejectWf.

Local Open Scope Z_scope.

(* the arithmetic core: whatever the verdicts, a shift that starts inside the room stays inside it *)
Theorem rejects_wf_unified : forall hs vs d lo,
  Forall wf_hunk hs -> room_below lo hs -> - lo <= d -> Forall wf_hunk (expected_rejects vs hs d).
Proof. exact Proofs_RejectWf.rejects_wf_unified. Qed.
Print Assumptions rejects_wf_unified.

Theorem rejects_wf_context : forall hs vs d lo hi,
  Forall wf_hunk_c hs -> room_below lo hs -> room_above hi hs -> - lo <= d <= hi ->
  Forall wf_hunk_c (expected_rejects vs hs d).
Proof. exact Proofs_RejectWf.rejects_wf_context. Qed.
Print Assumptions rejects_wf_context.

(* since the repair e07e11a (a moved start stops at 0): a hunk fit for the unified form stays so under ANY shift *)
Theorem wf_hunk_shift_any : forall h d, wf_hunk h -> wf_hunk (shift_hunk h d).
Proof. exact Proofs_RejectWf.wf_hunk_shift_any. Qed.
Print Assumptions wf_hunk_shift_any.

Theorem rejects_always_wf : forall hs vs d, Forall wf_hunk hs -> Forall wf_hunk (expected_rejects vs hs d).
Proof. exact Proofs_RejectWf.rejects_always_wf. Qed.
Print Assumptions rejects_always_wf.

Theorem rejects_always_wf_starts : forall hs vs d,
  Forall (fun h => 0 <= rstart (oldr h) <= MAXZ /\ 0 <= rstart (newr h) <= MAXZ) (expected_rejects vs hs d).
Proof. exact Proofs_RejectWf.rejects_always_wf_starts. Qed.
Print Assumptions rejects_always_wf_starts.

(* context form: only the upper side is left *)
Theorem wf_hunk_c_shift_upper : forall h d,
  wf_hunk_c h ->
  rstart (oldr h) + d + rcount (oldr h) <= MAXZ -> rstart (newr h) + d + rcount (newr h) <= MAXZ ->
  wf_hunk_c (shift_hunk h d).
Proof. exact Proofs_RejectWf.wf_hunk_c_shift_upper. Qed.
Print Assumptions wf_hunk_c_shift_upper.

Theorem rejects_wf_context_upper : forall hs vs d hi,
  Forall wf_hunk_c hs -> room_above hi hs -> d <= hi -> Forall wf_hunk_c (expected_rejects vs hs d).
Proof. exact Proofs_RejectWf.rejects_wf_context_upper. Qed.
Print Assumptions rejects_wf_context_upper.

(* when the shift is exact: move_hunk h d = h with both starts + d; moved_rejects = expected_rejects with move_hunk *)
Theorem shift_start_exact_iff : forall s d, shift_start s d = s + d <-> 0 <= s + d <= MAXZ.
Proof. exact Proofs_RejectWf.shift_start_exact_iff. Qed.
Print Assumptions shift_start_exact_iff.

Theorem shift_hunk_exact_iff : forall h d,
  shift_hunk h d = move_hunk h d <->
  (0 <= rstart (oldr h) + d <= MAXZ) /\ (0 <= rstart (newr h) + d <= MAXZ).
Proof. exact Proofs_RejectWf.shift_hunk_exact_iff. Qed.
Print Assumptions shift_hunk_exact_iff.

Theorem rejects_exact : forall hs vs d lo hi,
  Forall counts_nonneg hs -> room_below lo hs -> room_above hi hs -> - lo <= d <= hi ->
  expected_rejects vs hs d = moved_rejects vs hs d.
Proof. exact Proofs_RejectWf.rejects_exact. Qed.
Print Assumptions rejects_exact.

(* ... and the lower room is exactly what that takes, the verdicts being free *)
Theorem exact_shift_room : forall hs d,
  (forall vs, length vs = length hs -> expected_rejects vs hs d = moved_rejects vs hs d) -> room_below (- d) hs.
Proof. exact Proofs_RejectWf.exact_shift_room. Qed.
Print Assumptions exact_shift_room.

(* (1) from the shape of a diff: increasing, disjoint old ranges give the old half of the room ... *)
Theorem old_room_of_disjoint : forall hs lo,
  Forall counts_nonneg hs -> increasing_disjoint hs -> head_old_from lo hs -> old_room lo hs.
Proof. exact Proofs_RejectWf.old_room_of_disjoint. Qed.
Print Assumptions old_room_of_disjoint.

Theorem diff_ordered_disjoint : forall hs, diff_ordered hs -> increasing_disjoint hs.
Proof. exact Proofs_RejectWf.diff_ordered_disjoint. Qed.
Print Assumptions diff_ordered_disjoint.

Theorem old_room_of_touching : forall hs lo,
  Forall counts_nonneg hs -> touching_ordered hs -> head_pos_from lo hs -> old_room lo hs.
Proof. exact Proofs_RejectWf.old_room_of_touching. Qed.
Print Assumptions old_room_of_touching.

(* ... the new half is a condition of its own; it holds when no hunk shrinks the file *)
Theorem new_room_no_shrink : forall hs,
  Forall (fun h => rcount (oldr h) <= rcount (newr h) /\ 0 <= rstart (newr h)) hs -> new_room 0 hs.
Proof. exact Proofs_RejectWf.new_room_no_shrink. Qed.
Print Assumptions new_room_no_shrink.

Theorem diff_style_room : forall hs, Forall wf_hunk hs -> diff_style hs -> room_below 0 hs.
Proof. exact Proofs_RejectWf.diff_style_room. Qed.
Print Assumptions diff_style_room.

(* the upper bound for the context form: new ranges increasing and disjoint, every range ending at or below (2^63-1)/2 *)
Theorem diff_style_c_rooms : forall hs, Forall wf_hunk_c hs -> diff_style_c hs -> rooms hs.
Proof. exact Proofs_RejectWf.diff_style_c_rooms. Qed.
Print Assumptions diff_style_c_rooms.

(* a hunk fit for the unified form stays so when reversed *)
Theorem wf_hunk_reverse : forall h, wf_hunk h -> wf_hunk (reverse_hunk h).
Proof. exact Proofs_RejectWf.wf_hunk_reverse. Qed.
Print Assumptions wf_hunk_reverse.

Theorem wf_hunk_two_both : forall hs,
  Forall wf_hunk_two hs -> Forall wf_hunk_c hs /\ Forall wf_hunk_c (map reverse_hunk hs).
Proof. exact Proofs_RejectWf.wf_hunk_two_both. Qed.
Print Assumptions wf_hunk_two_both.

(* what the run rejected, and what it leaves in the record, is well formed *)
Theorem rejected_wf_unified : forall o f p r rj,
  rejected_by o f p r rj ->
  Forall wf_hunk (hunks p) -> diff_style (hunks p) -> diff_style (map reverse_hunk (hunks p)) ->
  Forall wf_hunk rj /\ Forall wf_hunk (hunks (r_patch r)).
Proof. exact Proofs_RejectWf.rejected_wf_unified. Qed.
Print Assumptions rejected_wf_unified.

Theorem rejected_wf_context : forall o f p r rj,
  rejected_by o f p r rj ->
  Forall wf_hunk_c (hunks p) -> Forall wf_hunk_c (map reverse_hunk (hunks p)) ->
  diff_style (hunks p) -> diff_style (map reverse_hunk (hunks p)) -> Forall half_bound (hunks p) ->
  Forall wf_hunk_c rj.
Proof. exact Proofs_RejectWf.rejected_wf_context. Qed.
Print Assumptions rejected_wf_context.

(* (2') since the repair: the strongest versions.  Unified form: nothing is asked of the ranges. *)
Theorem apply_patch_unified_reject_always_reparses : forall o f p r strip,
  define_macro o = [] -> apply_patch o f p = Ok r -> r_failed r <> 0%nat ->
  should_write_as_unified o (r_patch r) = true ->
  hdr_ok (old_path (r_patch r)) (old_time (r_patch r)) -> hdr_ok (new_path (r_patch r)) (new_time (r_patch r)) ->
  Forall wf_hunk (hunks p) ->
  exists rj p', rejected_by o f p r rj /\ length rj = r_failed r /\ Forall wf_hunk rj /\
                parse_patch (r_rej r) FUnknown strip = Ok p' /\ read_back r strip FUnified rj p'.
Proof. exact Proofs_RejectWf.apply_patch_unified_reject_always_reparses. Qed.
Print Assumptions apply_patch_unified_reject_always_reparses.

Theorem rejected_always_wf : forall o f p r rj,
  rejected_by o f p r rj -> Forall wf_hunk (hunks p) -> Forall wf_hunk rj /\ Forall wf_hunk (hunks (r_patch r)).
Proof. exact Proofs_RejectWf.rejected_always_wf. Qed.
Print Assumptions rejected_always_wf.

(* context form: only the upper room *)
Theorem apply_patch_context_reject_always_reparses : forall o f p r strip,
  define_macro o = [] -> apply_patch o f p = Ok r -> r_failed r <> 0%nat ->
  should_write_as_unified o (r_patch r) = false ->
  hdr_ok (old_path (r_patch r)) (old_time (r_patch r)) -> hdr_ok (new_path (r_patch r)) (new_time (r_patch r)) ->
  Forall wf_hunk_c (hunks p) -> Forall wf_hunk_c (map reverse_hunk (hunks p)) ->
  room_above 0 (hunks p) -> room_above 0 (map reverse_hunk (hunks p)) ->
  exists rj p', rejected_by o f p r rj /\ length rj = r_failed r /\ Forall wf_hunk_c rj /\
                parse_patch (r_rej r) FUnknown strip = Ok p' /\ read_back r strip FContext (map norm_hunk rj) p'.
Proof. exact Proofs_RejectWf.apply_patch_context_reject_always_reparses. Qed.
Print Assumptions apply_patch_context_reject_always_reparses.

Theorem apply_patch_context_reject_reparses_ordered : forall o f p r strip,
  define_macro o = [] -> apply_patch o f p = Ok r -> r_failed r <> 0%nat ->
  should_write_as_unified o (r_patch r) = false ->
  hdr_ok (old_path (r_patch r)) (old_time (r_patch r)) -> hdr_ok (new_path (r_patch r)) (new_time (r_patch r)) ->
  Forall wf_hunk_c (hunks p) -> Forall wf_hunk_c (map reverse_hunk (hunks p)) ->
  increasing_disjoint (hunks p) -> increasing_disjoint (map reverse_hunk (hunks p)) -> Forall half_bound (hunks p) ->
  exists rj p', rejected_by o f p r rj /\ length rj = r_failed r /\ Forall wf_hunk_c rj /\
                parse_patch (r_rej r) FUnknown strip = Ok p' /\ read_back r strip FContext (map norm_hunk rj) p'.
Proof. exact Proofs_RejectWf.apply_patch_context_reject_reparses_ordered. Qed.
Print Assumptions apply_patch_context_reject_reparses_ordered.

Theorem apply_patch_reject_always_reparses : forall o f p r strip,
  define_macro o = [] -> apply_patch o f p = Ok r -> r_failed r <> 0%nat ->
  hdr_ok (old_path (r_patch r)) (old_time (r_patch r)) -> hdr_ok (new_path (r_patch r)) (new_time (r_patch r)) ->
  Forall wf_hunk_two (hunks p) ->
  (should_write_as_unified o (r_patch r) = false -> room_above 0 (hunks p) /\ room_above 0 (map reverse_hunk (hunks p))) ->
  exists rj p', rejected_by o f p r rj /\ length rj = r_failed r /\
                parse_patch (r_rej r) FUnknown strip = Ok p' /\
                if should_write_as_unified o (r_patch r) then read_back r strip FUnified rj p'
                else read_back r strip FContext (map norm_hunk rj) p'.
Proof. exact Proofs_RejectWf.apply_patch_reject_always_reparses. Qed.
Print Assumptions apply_patch_reject_always_reparses.

(* inside the rooms the rejected hunks are the hunks moved by exactly the net growth of the hunks applied before them *)
Theorem rejected_exact : forall o f p r rj,
  rejected_by o f p r rj -> Forall counts_nonneg (hunks p) -> rooms (hunks p) -> rooms (map reverse_hunk (hunks p)) ->
  let p1 := if reverse_patch_opt o then reverse_patch p else p in
  exists q vs, (q = p1 \/ q = reverse_patch p1) /\ length vs = length (hunks q) /\ rj = moved_rejects vs (hunks q) 0.
Proof. exact Proofs_RejectWf.rejected_exact. Qed.
Print Assumptions rejected_exact.

(* (2) the room-based statements (kept; as far as reading back goes they follow from the versions above; with rejected_exact
   they say when the starts read back are exactly start + net growth).  The reject file of a run is read back as the
   rejected hunks; no hypothesis is left on the rejected hunks.
   General form, in terms of the room, all three kinds of run (normal, skipped, taken as reversed), with or without -R. *)
Theorem apply_patch_unified_reject_reparses_room : forall o f p r strip,
  define_macro o = [] -> apply_patch o f p = Ok r -> r_failed r <> 0%nat ->
  should_write_as_unified o (r_patch r) = true ->
  hdr_ok (old_path (r_patch r)) (old_time (r_patch r)) -> hdr_ok (new_path (r_patch r)) (new_time (r_patch r)) ->
  Forall wf_hunk (hunks p) -> room_below 0 (hunks p) -> room_below 0 (map reverse_hunk (hunks p)) ->
  exists rj p', rejected_by o f p r rj /\ length rj = r_failed r /\ Forall wf_hunk rj /\
                parse_patch (r_rej r) FUnknown strip = Ok p' /\ read_back r strip FUnified rj p'.
Proof. exact Proofs_RejectWf.apply_patch_unified_reject_reparses_room. Qed.
Print Assumptions apply_patch_unified_reject_reparses_room.

Theorem apply_patch_context_reject_reparses_room : forall o f p r strip,
  define_macro o = [] -> apply_patch o f p = Ok r -> r_failed r <> 0%nat ->
  should_write_as_unified o (r_patch r) = false ->
  hdr_ok (old_path (r_patch r)) (old_time (r_patch r)) -> hdr_ok (new_path (r_patch r)) (new_time (r_patch r)) ->
  Forall wf_hunk_c (hunks p) -> Forall wf_hunk_c (map reverse_hunk (hunks p)) ->
  rooms (hunks p) -> rooms (map reverse_hunk (hunks p)) ->
  exists rj p', rejected_by o f p r rj /\ length rj = r_failed r /\ Forall wf_hunk_c rj /\
                parse_patch (r_rej r) FUnknown strip = Ok p' /\ read_back r strip FContext (map norm_hunk rj) p'.
Proof. exact Proofs_RejectWf.apply_patch_context_reject_reparses_room. Qed.
Print Assumptions apply_patch_context_reject_reparses_room.

(* a diff-style patch, unified form *)
Theorem apply_patch_unified_reject_reparses_diff_input : forall o f p r strip,
  define_macro o = [] -> apply_patch o f p = Ok r -> r_failed r <> 0%nat ->
  should_write_as_unified o (r_patch r) = true ->
  hdr_ok (old_path (r_patch r)) (old_time (r_patch r)) -> hdr_ok (new_path (r_patch r)) (new_time (r_patch r)) ->
  Forall wf_hunk (hunks p) -> diff_style (hunks p) -> diff_style (map reverse_hunk (hunks p)) ->
  exists rj p', rejected_by o f p r rj /\ length rj = r_failed r /\ Forall wf_hunk rj /\
                parse_patch (r_rej r) FUnknown strip = Ok p' /\ read_back r strip FUnified rj p'.
Proof. exact Proofs_RejectWf.apply_patch_unified_reject_reparses_diff_input. Qed.
Print Assumptions apply_patch_unified_reject_reparses_diff_input.

(* what a diff tool writes: positions in order, the first at least 1, new positions = old positions + growth so far, no hunk
   halves or doubles its range *)
Theorem genuine_diff_rooms : forall hs,
  Forall counts_nonneg hs -> genuine_diff hs -> room_below 0 hs /\ room_below 0 (map reverse_hunk hs).
Proof. exact Proofs_RejectWf.genuine_diff_rooms. Qed.
Print Assumptions genuine_diff_rooms.

Theorem new_room_of_consistent : forall hs lo g,
  Forall (fun h => 0 <= rcount (newr h) /\ rcount (oldr h) <= 2 * rcount (newr h)) hs ->
  touching_ordered hs -> starts_consistent g hs -> head_pos_from_g lo g hs -> new_room lo hs.
Proof. exact Proofs_RejectWf.new_room_of_consistent. Qed.
Print Assumptions new_room_of_consistent.

Theorem apply_patch_unified_reject_reparses_genuine_diff : forall o f p r strip,
  define_macro o = [] -> apply_patch o f p = Ok r -> r_failed r <> 0%nat ->
  should_write_as_unified o (r_patch r) = true ->
  hdr_ok (old_path (r_patch r)) (old_time (r_patch r)) -> hdr_ok (new_path (r_patch r)) (new_time (r_patch r)) ->
  Forall wf_hunk (hunks p) -> genuine_diff (hunks p) ->
  exists rj p', rejected_by o f p r rj /\ length rj = r_failed r /\ Forall wf_hunk rj /\
                parse_patch (r_rej r) FUnknown strip = Ok p' /\ read_back r strip FUnified rj p'.
Proof. exact Proofs_RejectWf.apply_patch_unified_reject_reparses_genuine_diff. Qed.
Print Assumptions apply_patch_unified_reject_reparses_genuine_diff.

(* with -f (the patch is never skipped nor taken as reversed): one direction *)
Theorem apply_patch_unified_reject_reparses_diff_input_force : forall o f p r strip,
  define_macro o = [] -> apply_patch o f p = Ok r -> r_failed r <> 0%nat ->
  should_write_as_unified o (r_patch r) = true ->
  hdr_ok (old_path (r_patch r)) (old_time (r_patch r)) -> hdr_ok (new_path (r_patch r)) (new_time (r_patch r)) ->
  force o = true ->
  (let p1 := if reverse_patch_opt o then reverse_patch p else p in Forall wf_hunk (hunks p1) /\ diff_style (hunks p1)) ->
  exists rj p', rejected_by o f p r rj /\ length rj = r_failed r /\ Forall wf_hunk rj /\
                parse_patch (r_rej r) FUnknown strip = Ok p' /\ read_back r strip FUnified rj p'.
Proof. exact Proofs_RejectWf.apply_patch_unified_reject_reparses_diff_input_force. Qed.
Print Assumptions apply_patch_unified_reject_reparses_diff_input_force.

(* a diff-style patch, context form *)
Theorem apply_patch_context_reject_reparses_diff_input : forall o f p r strip,
  define_macro o = [] -> apply_patch o f p = Ok r -> r_failed r <> 0%nat ->
  should_write_as_unified o (r_patch r) = false ->
  hdr_ok (old_path (r_patch r)) (old_time (r_patch r)) -> hdr_ok (new_path (r_patch r)) (new_time (r_patch r)) ->
  Forall wf_hunk_c (hunks p) -> Forall wf_hunk_c (map reverse_hunk (hunks p)) ->
  diff_style (hunks p) -> diff_style (map reverse_hunk (hunks p)) -> Forall half_bound (hunks p) ->
  exists rj p', rejected_by o f p r rj /\ length rj = r_failed r /\ Forall wf_hunk_c rj /\
                parse_patch (r_rej r) FUnknown strip = Ok p' /\ read_back r strip FContext (map norm_hunk rj) p'.
Proof. exact Proofs_RejectWf.apply_patch_context_reject_reparses_diff_input. Qed.
Print Assumptions apply_patch_context_reject_reparses_diff_input.

Theorem apply_patch_context_reject_reparses_diff_input_force : forall o f p r strip,
  define_macro o = [] -> apply_patch o f p = Ok r -> r_failed r <> 0%nat ->
  should_write_as_unified o (r_patch r) = false ->
  hdr_ok (old_path (r_patch r)) (old_time (r_patch r)) -> hdr_ok (new_path (r_patch r)) (new_time (r_patch r)) ->
  force o = true ->
  (let p1 := if reverse_patch_opt o then reverse_patch p else p in Forall wf_hunk_c (hunks p1) /\ diff_style_c (hunks p1)) ->
  exists rj p', rejected_by o f p r rj /\ length rj = r_failed r /\ Forall wf_hunk_c rj /\
                parse_patch (r_rej r) FUnknown strip = Ok p' /\ read_back r strip FContext (map norm_hunk rj) p'.
Proof. exact Proofs_RejectWf.apply_patch_context_reject_reparses_diff_input_force. Qed.
Print Assumptions apply_patch_context_reject_reparses_diff_input_force.

(* one statement for both forms *)
Theorem apply_patch_reject_reparses_diff_input : forall o f p r strip,
  define_macro o = [] -> apply_patch o f p = Ok r -> r_failed r <> 0%nat ->
  hdr_ok (old_path (r_patch r)) (old_time (r_patch r)) -> hdr_ok (new_path (r_patch r)) (new_time (r_patch r)) ->
  Forall wf_hunk_two (hunks p) -> diff_style (hunks p) -> diff_style (map reverse_hunk (hunks p)) ->
  Forall half_bound (hunks p) ->
  exists rj p', rejected_by o f p r rj /\ length rj = r_failed r /\
                parse_patch (r_rej r) FUnknown strip = Ok p' /\
                if should_write_as_unified o (r_patch r) then read_back r strip FUnified rj p'
                else read_back r strip FContext (map norm_hunk rj) p'.
Proof. exact Proofs_RejectWf.apply_patch_reject_reparses_diff_input. Qed.
Print Assumptions apply_patch_reject_reparses_diff_input.

(* (3) the examples: three hunks of a diff, the middle one applies and adds two lines, the first and the last are
   rejected; both forms, -R; the genuine diff whose rejected hunk has its new start stopped at 0 (before the repair
   e07e11a its reject file was not a valid patch); the upper room is needed for the context form *)
Import RejectFileExamples RejectWfExamples.

Example d_unified_reject : forall r,
  apply_patch default_options d_lines d_p = Ok r ->
  exists rj p', rejected_by default_options d_lines d_p r rj /\
                parse_patch (r_rej r) FUnknown (-1) = Ok p' /\ read_back r (-1) FUnified rj p' /\
                rj = [shift_hunk d_h1 0; shift_hunk d_h3 2] /\ hunks p' = [d_h1; d_h3'] /\
                old_path p' = bs "f.txt" /\ new_path p' = bs "f.txt".
Proof. exact RejectWfExamples.d_unified_reject. Qed.
Print Assumptions d_unified_reject.

Example d_context_reject : forall r,
  apply_patch ex_oc d_lines d_p = Ok r ->
  exists rj p', rejected_by ex_oc d_lines d_p r rj /\ length rj = 2%nat /\
                parse_patch (r_rej r) FUnknown (-1) = Ok p' /\ read_back r (-1) FContext (map norm_hunk rj) p' /\
                hunks p' = [d_h1; d_h3'] /\ old_path p' = bs "f.txt" /\ new_path p' = bs "f.txt".
Proof. exact RejectWfExamples.d_context_reject. Qed.
Print Assumptions d_context_reject.

Example n_is_a_diff :
  Forall wf_hunk (hunks n_p) /\ increasing_disjoint (hunks n_p) /\ increasing_disjoint (map reverse_hunk (hunks n_p)) /\
  starts_consistent 0 (hunks n_p) /\ ~ new_room 0 (hunks n_p).
Proof. exact RejectWfExamples.n_is_a_diff. Qed.
Print Assumptions n_is_a_diff.

Example removed_top_new_start_stops_at_zero :
  (exists r, apply_patch default_options ex_lines n_p = Ok r /\ r_failed r = 1%nat /\
             r_rej r = bs "--- f.txt" ++ [10%N] ++ bs "+++ f.txt" ++ [10%N] ++ bs "@@ -2 +0 @@" ++ [10%N] ++
                       bs "-X" ++ [10%N] ++ bs "+Y" ++ [10%N] /\
             exists p', parse_patch (r_rej r) FUnknown (-1) = Ok p' /\ hunks p' = [n_g2'] /\ shift_hunk n_g2 (-5) = n_g2') /\
  (exists r, apply_patch ex_oc ex_lines n_p = Ok r /\ r_failed r = 1%nat /\
             r_rej r = bs "*** f.txt" ++ [10%N] ++ bs "--- f.txt" ++ [10%N] ++ bs "***************" ++ [10%N] ++
                       bs "*** 2 ****" ++ [10%N] ++ bs "! X" ++ [10%N] ++ bs "--- 0 ----" ++ [10%N] ++ bs "! Y" ++ [10%N] /\
             exists p', parse_patch (r_rej r) FUnknown (-1) = Ok p' /\ hunks p' = [n_g2']).
Proof. exact RejectWfExamples.removed_top_new_start_stops_at_zero. Qed.
Print Assumptions removed_top_new_start_stops_at_zero.

Example n_unified_reject : forall r,
  apply_patch default_options ex_lines n_p = Ok r ->
  exists rj p', rejected_by default_options ex_lines n_p r rj /\ length rj = 1%nat /\
                parse_patch (r_rej r) FUnknown (-1) = Ok p' /\ read_back r (-1) FUnified rj p' /\ hunks p' = [n_g2'].
Proof. exact RejectWfExamples.n_unified_reject. Qed.
Print Assumptions n_unified_reject.

Example n_context_reject : forall r,
  apply_patch ex_oc ex_lines n_p = Ok r ->
  exists rj p', rejected_by ex_oc ex_lines n_p r rj /\ length rj = 1%nat /\
                parse_patch (r_rej r) FUnknown (-1) = Ok p' /\ read_back r (-1) FContext (map norm_hunk rj) p' /\
                hunks p' = [n_g2'].
Proof. exact RejectWfExamples.n_context_reject. Qed.
Print Assumptions n_context_reject.

Example upper_room_needed :
  Forall wf_hunk_c (hunks u_p) /\ Forall wf_hunk_c (map reverse_hunk (hunks u_p)) /\
  increasing_disjoint (hunks u_p) /\ increasing_disjoint (map reverse_hunk (hunks u_p)) /\ ~ room_above 0 (hunks u_p) /\
  (exists r, apply_patch ex_oc ex_lines u_p = Ok r /\ r_failed r = 1%nat /\
             parse_patch (r_rej r) FUnknown (-1) = Throw ERuntime) /\
  (exists r p', apply_patch default_options ex_lines u_p = Ok r /\ r_failed r = 1%nat /\
                parse_patch (r_rej r) FUnknown (-1) = Ok p' /\ hunks p' = [shift_hunk u_h2 1]).
Proof. exact RejectWfExamples.upper_room_needed. Qed.
Print Assumptions upper_room_needed.
