(* Properties_C13.v — C13: reject files are valid patches that carry exactly the failed changes (unified form).
   Statements only; proofs in Proofs_Unified.v (byte level: formatter.cpp against parser.cpp), Proofs_Rejects.v (which
   hunks are written), Proofs_Decimal.v (numbers). *)
From PatchV Require Import Base Lines Hunk Locator Formatter Options Applier LineParser Parser Spec_Locate Spec_Apply
     Proofs_Apply Proofs_Decimal Proofs_Unified Proofs_Rejects.

(* a line number that is printed is read back as itself (up to 2^63-1) *)
Theorem consume_printed : forall n rest,
  (n <= MAXLN)%N -> not_digit_start rest ->
  consume_line_number (print_N n ++ rest) = Some (true, Z.of_N n, rest).
Proof. exact Proofs_Decimal.consume_printed. Qed.
Print Assumptions consume_printed.

(* a '@@ -a,b +c,d @@' line that is written is read back as the same ranges *)
Theorem parse_unified_header : forall h0 o n,
  wf_range o -> wf_range n -> parse_unified_range h0 (unified_header o n) = (true, mkHunk o n (body h0)).
Proof. exact Proofs_Unified.parse_unified_header. Qed.
Print Assumptions parse_unified_header.

(* Hunks written in unified form are read back by this tool's own parser as exactly the same hunks — same ranges, same
   old-side and new-side lines in the same order, same missing-newline marks — and the parser stops where they end.
   wf_hunk: counts agree with the body, numbers within int64, no line feed inside a line, no trailing CR, terminators LF or
   none, "no newline" only on the last line of a side (what a reject hunk is). *)
Theorem unified_roundtrip : forall hs tail,
  hs <> [] -> Forall wf_hunk hs -> tail_ok tail ->
  parse_unified_patch (strm (emit_hunks hs ++ tail)) = Ok (hs, after tail).
Proof. exact Proofs_Unified.unified_roundtrip. Qed.
Print Assumptions unified_roundtrip.

(* what is written to the reject file: the header once, then exactly the rejected hunks, in order, shifted by the net
   growth of the hunks applied before them *)
Theorem rejects_loop : forall o p f,
  define_macro o = [] -> should_write_as_unified o p = true ->
  forall hs k s s', a_skip s = false -> apply_rest o p f k s hs = Ok s' ->
  exists vs, verdicts_from_locate o p f (a_ln s) (a_offerr s) hs vs /\
             a_rej s' = a_rej s ++ rej_bytes p (a_rejected s) (expected_rejects vs hs (a_o2n s)) /\
             a_rejected s' = a_rejected s + length (expected_rejects vs hs (a_o2n s)).
Proof. exact Proofs_Rejects.rejects_loop. Qed.
Print Assumptions rejects_loop.

Theorem rejects_skipped : forall o p f,
  define_macro o = [] -> should_write_as_unified o p = true ->
  forall hs k s s', a_skip s = true -> apply_rest o p f k s hs = Ok s' ->
  a_rej s' = a_rej s ++ rej_bytes p (a_rejected s) (map (fun h => shift_hunk h (a_o2n s)) hs) /\
  a_rejected s' = a_rejected s + length hs.
Proof. exact Proofs_Rejects.rejects_skipped. Qed.
Print Assumptions rejects_skipped.

Local Open Scope string_scope.
Definition ex_l (s : String.string) (n : newline) := mkLine (bs s) n.
Definition ex_h1 := mkHunk (mkRange 3 2) (mkRange 3 3) [mkPL Ctx (ex_l "a" LF); mkPL Del (ex_l "b" LF); mkPL Add (ex_l "B" LF); mkPL Add (ex_l "c" LF)].
Definition ex_h2 := mkHunk (mkRange 10 1) (mkRange 11 1) [mkPL Del (ex_l "x" NoNL); mkPL Add (ex_l "y" NoNL)].
Example roundtrip_nonvacuous :
  wf_hunk ex_h1 /\ wf_hunk ex_h2 /\
  parse_unified_patch (strm (emit_hunks [ex_h1; ex_h2])) = Ok ([ex_h1; ex_h2], mkStream [] true false).
Proof.
  split; [|split].
  - unfold wf_hunk, wf_range, wf_body, wf_pline, clean, MAXZ. cbn. repeat split; try discriminate; try lia; try (intros [E|[]]; discriminate); try tauto; try (intros H; discriminate H); vm_compute; intuition discriminate.
  - unfold wf_hunk, wf_range, wf_body, wf_pline, clean, MAXZ. cbn. repeat split; try discriminate; try lia; try tauto; try (intros _; vm_compute; auto); vm_compute; intuition discriminate.
  - vm_compute. reflexivity.
Qed.
