(* Oracle.v — executable statements of the properties, evaluated on the IMPLEMENTATION's observations.
   Written over the specification vocabulary only (Spec_*.v); extracted with the model. *)
From PatchV Require Import Base Lines Hunk Spec_Locate.

(* ---- C02 / C03 on one locate_hunk call ---- *)
Definition obs_loc := option (nat * nat * Z).     (* line, fuzz, offset as reported by the code *)

Definition levels_of (F : Z) (b : list pline) : nat := Z.to_nat (Z.min F (Z.of_nat (ctx_of b)) + 1).

(* is there an admissible placement with fuzz < levels at a line of the unconsumed part of the file *)
Definition adm_any (ws : bool) (f : list line) (b : list pline) (lo levels : nat) : bool :=
  existsb (fun fz => existsb (fun pos => admissibleb ws f b lo pos fz) (seq lo (length f - lo))) (seq 0 levels).

Definition insertion_ok (f : list line) (h : hunk) (off : Z) (lo : nat) : bool :=
  Z.leb (Z.of_nat lo) (stated_pos h off) && Z.leb (stated_pos h off) (Z.of_nat (length f)).

Definition spec_C02_locate (ws : bool) (f : list line) (h : hunk) (off F : Z) (lo : nat) (o : obs_loc) : bool :=
  match o with
  | None => true
  | Some (pos, fz, offset) =>
      if Z.eqb (rcount (oldr h)) 0 then
        Nat.leb lo pos && Nat.leb pos (length f) && Nat.eqb fz 0 &&
        Z.eqb (Z.of_nat pos) (stated_pos h off) && Z.eqb offset 0
      else
        admissibleb ws f (body h) lo pos fz && Z.leb (Z.of_nat fz) F && Nat.ltb pos (length f) &&
        Z.eqb offset (ssub (Z.of_nat pos) (stated_pos h off))
  end.

Definition spec_C03_locate (ws : bool) (f : list line) (h : hunk) (off F : Z) (lo : nat) (o : obs_loc) : bool :=
  let b := body h in
  if Z.eqb (rcount (oldr h)) 0 then
    match o with
    | None => negb (insertion_ok f h off lo)
    | Some (pos, fz, _) => insertion_ok f h off lo && Z.eqb (Z.of_nat pos) (stated_pos h off) && Nat.eqb fz 0
    end
  else
    match o with
    | None => negb (adm_any ws f b lo (levels_of F b))
    | Some (pos, fz, _) =>
        negb (adm_any ws f b lo fz) &&                       (* no placement with less fuzz *)
        (let sp := stated_pos h off in
         if Z.leb (Z.of_nat lo) sp && Z.ltb sp (Z.of_nat (length f)) && Z.leb 0 F &&
            admissibleb ws f b lo (Z.to_nat sp) 0
         then Nat.eqb pos (Z.to_nat sp) && Nat.eqb fz 0 else true)
    end.

(* ---- C02 / C03 / C04 on one apply_patch call (no -D, no reversed-patch guess: run with -f) ---- *)
From PatchV Require Import Spec_Apply.

(* a verdict as the program prints it: "Hunk #k succeeded at L [with fuzz fz] [(offset O lines)]" / "FAILED" *)
Inductive overdict := OApplied (L : Z) (fz : nat) (Oc : Z) | ORejected.

Record walk_result := mkWR { w_c02 : bool; w_c03 : bool; w_offsets : bool; w_verdicts : list verdict }.

Fixpoint spec_walk (creates : bool) (ws : bool) (F : Z) (f : list line) (hs : list hunk) (ovs : list overdict)
         (cursor : nat) (offerr o2n : Z) : option walk_result :=
  match hs, ovs with
  | [], [] => Some (mkWR true true true [])
  | h :: hs', ov :: ovs' =>
      match ov with
      | ORejected =>
          match spec_walk creates ws F f hs' ovs' cursor offerr o2n with
          | None => None
          | Some r =>
              (* a patch which creates a file never fits a file with content: rejection is the expected verdict *)
              let forced := creates && negb (is_nil f) && Z.eqb (rstart (oldr h)) 0 && Z.eqb (rcount (oldr h)) 0 in
              Some (mkWR (w_c02 r && spec_C02_locate ws f h offerr F cursor None)
                         (w_c03 r && (forced || spec_C03_locate ws f h offerr F cursor None))
                         (w_offsets r) (VRejected :: w_verdicts r))
          end
      | OApplied L fz Oc =>
          let posz := (L - 1 - o2n)%Z in
          if Z.ltb posz 0 then None
          else if creates && negb (is_nil f) && Z.eqb (rstart (oldr h)) 0 && Z.eqb (rcount (oldr h)) 0 then None
          else
            let pos := Z.to_nat posz in
            let off := ssub posz (stated_pos h offerr) in
            let obs := Some (pos, fz, off) in
            let offerr' := sadd offerr off in
            match spec_walk creates ws F f hs' ovs' (pos + length (old_side (body h))) offerr'
                            (o2n + (rcount (newr h) - rcount (oldr h)))%Z with
            | None => None
            | Some r => Some (mkWR (w_c02 r && spec_C02_locate ws f h offerr F cursor obs)
                                   (w_c03 r && spec_C03_locate ws f h offerr F cursor obs)
                                   (w_offsets r && Z.eqb Oc offerr')
                                   (VApplied pos fz :: w_verdicts r))
            end
      end
  | _, _ => None
  end.

Record apply_judgement := mkAJ { j_c02 : bool; j_c03 : bool; j_c04 : bool }.

Definition spec_apply (creates : bool) (ws : bool) (F : Z) (mode : nlmode) (f : list line) (hs : list hunk) (ovs : list overdict)
           (out_bytes : list N) (failed : nat) (rej_bytes : list N) : apply_judgement :=
  match spec_walk creates ws F f hs ovs 0 0 0 with
  | None => mkAJ false false false
  | Some r =>
      let same := match replay f 0 hs (w_verdicts r) with
                  | Some o => str_eqb (lines_bytes mode o) out_bytes
                  | None => false
                  end in
      mkAJ (w_c02 r && same) (w_c03 r && w_offsets r)
           (same && Nat.eqb failed (count_rejected (w_verdicts r)) &&
            Bool.eqb (is_nil rej_bytes) (Nat.eqb failed 0))
  end.
