(* Properties_C20.v — C20: -D output is a correct conditional merge of old and new.
   Statement only; proof in Proofs_Define.v; the evaluator is Spec_Define.v. *)
From PatchV Require Import Base Lines Hunk Locator Options Applier Spec_Define Proofs_Define.

(* With -D SYM the output, evaluated with SYM defined, is exactly what the same run writes without -D (the new content);
   evaluated with SYM undefined it is exactly the original file; cpp_eval answers at all, so every conditional opened is
   closed and no #else/#endif is dangling; verdicts, rejects and messages do not depend on -D.
   Hypotheses: no line of the file or of the patch is itself one of the four directives, and every line is terminated
   (for a last line without newline the directive following it needs a line break which neither version has; that case is
   covered by the differential runs of the check only). *)
Theorem define_eval : forall o f p r,
  define_macro o <> [] ->
  Forall (line_ok (define_macro o)) f ->
  Forall (fun h => body_ok (define_macro o) (body h)) (hunks p) ->
  apply_patch o f p = Ok r ->
  exists r', apply_patch (no_define o) f p = Ok r' /\
             cpp_eval (define_macro o) true (r_out r) = Some (r_out r') /\
             cpp_eval (define_macro o) false (r_out r) = Some f /\
             r_failed r' = r_failed r /\ r_rej r' = r_rej r /\ r_msgs r' = r_msgs r /\ r_skipped r' = r_skipped r.
Proof. exact Proofs_Define.define_eval. Qed.
Print Assumptions define_eval.

Local Open Scope string_scope.
Definition ex_l (s : String.string) := mkLine (bs s) LF.
Definition ex_h := mkHunk (mkRange 1 3) (mkRange 1 3)
  [mkPL Ctx (ex_l "a"); mkPL Del (ex_l "b"); mkPL Add (ex_l "B"); mkPL Add (ex_l "B2"); mkPL Del (ex_l "c")].
Definition ex_o := mkOptions false false [] (bs "SYM") false [] false false false [] (-1) 2 false [] [] false false false false false false false false OBUnset OBUnset MNative RFDefault ROWarn QSUnset [] [].
Example define_nonvacuous :
  let A := [ex_l "a"; ex_l "b"; ex_l "c"] in
  let p := mkPatch FUnified OpChange [] [] (bs "f") (bs "f") [] [] 0 0 [ex_h] in
  match apply_patch ex_o A p with
  | Ok r => map txt (r_out r) = map bs ["a"; "#ifndef SYM"; "b"; "#else"; "B"; "B2"; "#endif"; "#ifndef SYM"; "c"; "#endif"]
            /\ cpp_eval (bs "SYM") true (r_out r) = Some [ex_l "a"; ex_l "B"; ex_l "B2"]
            /\ cpp_eval (bs "SYM") false (r_out r) = Some A
  | Throw _ => False
  end.
Proof. vm_compute. auto. Qed.

(* ===== merged from Properties_DefineRun.v ===== *)
From PatchV Require Import Base Lines Hunk Locator Formatter Options Applier World Driver
     Spec_Apply Spec_Define Proofs_Conf Proofs_Define Proofs_Reverse Proofs_DefineRun.

(* apply_patch under -D on a conforming patch A -> B answers (write_define_hunk never leaves the file), rejects nothing,
   says nothing, and its output is B to a preprocessor with the symbol defined and A with the symbol undefined. *)
Theorem apply_conforming_define : forall o p A B,
  define_macro o <> [] -> verbose o = false -> (0 <= max_fuzz o)%Z ->
  Conforming A B (hunks (effective o p)) -> (Z.of_nat (length A) < MAXZ)%Z ->
  creation_guard (effective o p) A ->
  Forall (line_ok (define_macro o)) A ->
  Forall (fun h => body_ok (define_macro o) (body h)) (hunks p) ->
  exists r, apply_patch o A p = Ok r /\
            cpp_eval (define_macro o) true (r_out r) = Some B /\
            cpp_eval (define_macro o) false (r_out r) = Some A /\
            r_failed r = 0 /\ r_rej r = [] /\
            r_skipped r = false /\ r_perfect r = true /\ r_msgs r = [] /\
            exists hs', r_patch r = set_hunks (effective o p) hs'.
Proof. exact Proofs_DefineRun.apply_conforming_define. Qed.
Print Assumptions apply_conforming_define.

(* The section: f holds A; after process_section f holds the bytes of lines R with cpp_eval SYM true R = B and
   cpp_eval SYM false R = A (so all conditionals are balanced); the section answers Ok with the driver state unchanged
   (no failure recorded, no reject file, nothing deferred, no backup), no other path is touched. *)
Theorem section_define : forall o p f A B st s w data mode,
  define_options o -> reverse_patch_opt o = false ->
  pfmt p <> FGit -> (poper p = OpChange \/ poper p = OpAdd \/ poper p = OpDelete) ->
  prereq p = [] -> old_path p = f -> new_path p = f -> new_mode p = 0%N ->
  f <> Driver.devnull -> f <> [] -> ~ In 47%N f ->
  Conforming A B (hunks p) ->
  Forall (line_ok (define_macro o)) A ->
  Forall (fun h => body_ok (define_macro o) (body h)) (hunks p) ->
  remove_empty_files o <> OBYes ->
  (Z.of_nat (length A) < MAXZ)%Z ->
  fault w = None -> deferred_writes st = [] ->
  lookup (fs w) f = Some (Reg data mode) -> (mode < 4096)%N -> owner_r mode = true -> owner_w mode = true ->
  split_lines data = A ->
  exists st' w' R,
    process_section o st false p s w = (Ok (st', s), w') /\
    lookup (fs w') f = Some (Reg (lines_bytes (newline_output o) R) mode) /\
    cpp_eval (define_macro o) true R = Some B /\
    cpp_eval (define_macro o) false R = Some A /\
    (forall q, q <> f -> lookup (fs w') q = lookup (fs w) q) /\
    same_state st st' /\ fault w' = None /\ umask w' = umask w.
Proof. exact Proofs_DefineRun.section_define. Qed.
Print Assumptions section_define.

(* ===== merged from Properties_DefineOutside.v ===== *)
From PatchV Require Import Proofs_DefineOutside.

(* Spec-level fact about the evaluator alone: whatever cpp_eval answers, the text lines standing at nesting depth 0
   (outside, a counter over the four directives, no truth values) are an order-preserving sub-sequence of the answer,
   for SYM defined and for SYM undefined alike. *)
Theorem cpp_eval_outside : forall sym d ls o,
  cpp_eval sym d ls = Some o -> subseq (outside sym 0 ls) o.
Proof. exact Proofs_DefineOutside.cpp_eval_outside. Qed.
Print Assumptions cpp_eval_outside.

(* The clause "common lines stand outside any conditional", in the direction a reader relies on: every line of the -D
   output that is outside all conditionals is, in order, a line of the new content (the same run without -D) AND of the
   original file; nothing that belongs to one version only is ever written unguarded. *)
Theorem outside_lines_common : forall o f p r,
  define_macro o <> [] ->
  Forall (line_ok (define_macro o)) f ->
  Forall (fun h => body_ok (define_macro o) (body h)) (hunks p) ->
  apply_patch o f p = Ok r ->
  exists r', apply_patch (no_define o) f p = Ok r' /\
             subseq (outside (define_macro o) 0 (r_out r)) (r_out r') /\
             subseq (outside (define_macro o) 0 (r_out r)) f.
Proof. exact Proofs_DefineOutside.outside_lines_common. Qed.
Print Assumptions outside_lines_common.

(* On a conforming patch A -> B the unguarded lines form a common sub-sequence of A and B. *)
Theorem outside_lines_common_conforming : forall o p A B,
  define_macro o <> [] -> verbose o = false -> (0 <= max_fuzz o)%Z ->
  Conforming A B (hunks (effective o p)) -> (Z.of_nat (length A) < MAXZ)%Z ->
  creation_guard (effective o p) A ->
  Forall (line_ok (define_macro o)) A ->
  Forall (fun h => body_ok (define_macro o) (body h)) (hunks p) ->
  exists r, apply_patch o A p = Ok r /\
            subseq (outside (define_macro o) 0 (r_out r)) A /\
            subseq (outside (define_macro o) 0 (r_out r)) B.
Proof. exact Proofs_DefineOutside.outside_lines_common_conforming. Qed.
Print Assumptions outside_lines_common_conforming.

Example outside_nonvacuous :
  let A := [ex_l "a"; ex_l "b"; ex_l "c"] in
  let p := mkPatch FUnified OpChange [] [] (bs "f") (bs "f") [] [] 0 0 [ex_h] in
  match apply_patch ex_o A p with
  | Ok r => outside (bs "SYM") 0 (r_out r) = [ex_l "a"]
  | Throw _ => False
  end.
Proof. vm_compute. auto. Qed.

(* ===== merged from Properties_DefineCount.v ===== *)
From PatchV Require Import Proofs_DefineCount.

(* The evaluator alone: the two answers together are no longer than the text lines plus the unguarded text lines
   (a line at depth 0 is in both answers, a line inside conditionals in at most one). *)
Theorem cpp_eval_both : forall sym ls o1 o2,
  cpp_eval sym true ls = Some o1 -> cpp_eval sym false ls = Some o2 ->
  length o1 + length o2 <= texts sym ls + length (outside sym 0 ls).
Proof. exact Proofs_DefineCount.cpp_eval_both. Qed.
Print Assumptions cpp_eval_both.

(* Nothing is written twice: the -D output has at most one text line per original line plus one per added line of the
   hunks of the patch as the run leaves it (reversed when the run reversed it). *)
Theorem define_texts_bound : forall o f p r,
  define_macro o <> [] ->
  Forall (line_ok (define_macro o)) f ->
  Forall (fun h => body_ok (define_macro o) (body h)) (hunks p) ->
  apply_patch o f p = Ok r ->
  texts (define_macro o) (r_out r) <= length f + adds_h (hunks (r_patch r)).
Proof. exact Proofs_DefineCount.define_texts_bound. Qed.
Print Assumptions define_texts_bound.

(* "Lines common to both versions appear once outside any conditional": of the new content (the same run without -D)
   all lines but the patch's added ones stand outside every conditional - at least |new| - |added| unguarded lines;
   outside_lines_common above says that every unguarded line is, in order, a line of both versions. *)
Theorem common_lines_unguarded : forall o f p r,
  define_macro o <> [] ->
  Forall (line_ok (define_macro o)) f ->
  Forall (fun h => body_ok (define_macro o) (body h)) (hunks p) ->
  apply_patch o f p = Ok r ->
  exists r', apply_patch (no_define o) f p = Ok r' /\
             length (r_out r') <= length (outside (define_macro o) 0 (r_out r)) + adds_h (hunks (r_patch r)).
Proof. exact Proofs_DefineCount.common_lines_unguarded. Qed.
Print Assumptions common_lines_unguarded.

(* the bound is tight on the example: 3 new lines = 1 unguarded + 2 added; 5 text lines = 3 original + 2 added *)
Example count_nonvacuous :
  let A := [ex_l "a"; ex_l "b"; ex_l "c"] in
  let p := mkPatch FUnified OpChange [] [] (bs "f") (bs "f") [] [] 0 0 [ex_h] in
  match apply_patch ex_o A p with
  | Ok r => texts (bs "SYM") (r_out r) = 5 /\ adds_h (hunks (r_patch r)) = 2 /\ length (outside (bs "SYM") 0 (r_out r)) = 1
  | Throw _ => False
  end.
Proof. vm_compute. auto. Qed.
