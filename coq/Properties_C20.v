(* Properties_C20.v — C20: -D output is a correct conditional merge of old and new.
   Statement only; proof in Proofs_Define.v; the evaluator is Spec_Define.v. *)
From PatchV Require Import Base Lines Hunk Locator Options Applier Spec_Define Proofs_Define.

(* With -D SYM the output, evaluated with SYM defined, is exactly what the same run writes without -D (the new content);
   evaluated with SYM undefined it is exactly the original file; cpp_eval answers at all, so every conditional opened is
   closed and no #else/#endif is dangling; verdicts, rejects and messages do not depend on -D.
   Hypotheses: no line of the file or of the patch is itself one of the four directives, and every line is terminated
   (for a last line without newline the directive following it needs a line break which neither version has; that case is
   covered by the differential runs of the check only). *)
Theorem define_eval : forall o f p r,
  define_macro o <> [] ->
  Forall (line_ok (define_macro o)) f ->
  Forall (fun h => body_ok (define_macro o) (body h)) (hunks p) ->
  apply_patch o f p = Ok r ->
  exists r', apply_patch (no_define o) f p = Ok r' /\
             cpp_eval (define_macro o) true (r_out r) = Some (r_out r') /\
             cpp_eval (define_macro o) false (r_out r) = Some f /\
             r_failed r' = r_failed r /\ r_rej r' = r_rej r /\ r_msgs r' = r_msgs r /\ r_skipped r' = r_skipped r.
Proof. exact Proofs_Define.define_eval. Qed.
Print Assumptions define_eval.

Local Open Scope string_scope.
Definition ex_l (s : String.string) := mkLine (bs s) LF.
Definition ex_h := mkHunk (mkRange 1 3) (mkRange 1 3)
  [mkPL Ctx (ex_l "a"); mkPL Del (ex_l "b"); mkPL Add (ex_l "B"); mkPL Add (ex_l "B2"); mkPL Del (ex_l "c")].
Definition ex_o := mkOptions false false [] (bs "SYM") false [] false false false [] (-1) 2 false [] [] false false false false false false false false OBUnset OBUnset MNative RFDefault ROWarn QSUnset [] [].
Example define_nonvacuous :
  let A := [ex_l "a"; ex_l "b"; ex_l "c"] in
  let p := mkPatch FUnified OpChange [] [] (bs "f") (bs "f") [] [] 0 0 [ex_h] in
  match apply_patch ex_o A p with
  | Ok r => map txt (r_out r) = map bs ["a"; "#ifndef SYM"; "b"; "#else"; "B"; "B2"; "#endif"; "#ifndef SYM"; "c"; "#endif"]
            /\ cpp_eval (bs "SYM") true (r_out r) = Some [ex_l "a"; ex_l "B"; ex_l "B2"]
            /\ cpp_eval (bs "SYM") false (r_out r) = Some A
  | Throw _ => False
  end.
Proof. vm_compute. auto. Qed.
