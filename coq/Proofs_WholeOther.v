(* Proofs_WholeOther.v — C01 over the whole model for the two other formats diff writes: from the bytes of a CONTEXT diff
   (diff -c) and of a NORMAL diff (plain diff) to the bytes of the patched file.  process_patch on such a patch whose hunks are
   a conforming diff of A to B, in a world where the file meant holds A, leaves exactly B there and touches nothing else, exit
   status 0, no message; with -R, in a world where the file holds B, it leaves exactly A.
   (0) conformance is not touched by the normalisation the context reader applies (deletions before additions);
   (1) the section for a patch record that names its file in any way (its names, "Index:", or not at all: the operand);
   (2) context diffs;
   (3) normal diffs; (4) instances. *)
From PatchV Require Import Base Lines Hunk Locator Formatter Options Applier LineParser Parser World Driver
     Spec_Locate Spec_Apply Spec_Names Proofs_Base Proofs_Apply Proofs_Lines Proofs_Fuel Proofs_Unified Proofs_Filler Proofs_Progress
     Proofs_Names Proofs_Conf Proofs_World Proofs_Crash Proofs_EndToEnd Proofs_Reverse Proofs_Sections Proofs_Sections_Unified
     Proofs_CtxLines Proofs_CtxMerge Proofs_Context Spec_Normal Proofs_Normal Proofs_NormalConf
     Proofs_Whole Proofs_Sections_Other.

(* ================================================================================================================
   (0) conformance and the normalised hunks
   ================================================================================================================ *)
Lemma sides_nonempty b : b <> [] -> old_side b <> [] \/ new_side b <> [].
Proof.
  destruct b as [|p r]; [congruence|]. intros _. rewrite old_side_cons, new_side_cons. unfold is_add, is_del.
  destruct (pop p); [left; discriminate|right; discriminate|left; discriminate].
Qed.

Lemma norm_hunk_body_ne h : body h <> [] -> body (norm_hunk h) <> [].
Proof.
  intros H E. destruct (norm_hunk_same_change h) as (_ & _ & _ & So & Sn).
  rewrite E in So, Sn. change (old_side []) with (@nil line) in So. change (new_side []) with (@nil line) in Sn.
  destruct (sides_nonempty (body h) H) as [X|X]; apply X; symmetry; assumption.
Qed.

(* Conf looks at a hunk through its ranges and its two sides only *)
Theorem conf_norm : forall a b A B hs, Conf a b A B hs -> Conf a b A B (map norm_hunk hs).
Proof.
  intros a b A B hs H. induction H as [a b rest0|a b gap h hs A' B' Hb Hoc Hnc Hos Hns HC IH]; cbn [map]; [constructor|].
  destruct (norm_hunk_same_change h) as (Ro & Rn & _ & So & Sn).
  rewrite <- So, <- Sn. apply Conf_cons.
  - apply norm_hunk_body_ne. exact Hb.
  - rewrite Ro, So. exact Hoc.
  - rewrite Rn, Sn. exact Hnc.
  - rewrite Ro. exact Hos.
  - rewrite Rn. exact Hns.
  - rewrite So, Sn. exact IH.
Qed.

Corollary conforming_norm A B hs : Conforming A B hs -> Conforming A B (map norm_hunk hs).
Proof. apply conf_norm. Qed.

(* ================================================================================================================
   (1) a section whose file is chosen from its names, from the "Index:" name or from the operand
   ================================================================================================================ *)
(* Proofs_Reverse.head_existing with the choice of the file left open: the operand when there is one, the guess otherwise *)
Lemma head_existing_ftp o st p s w f data mode :
  (if is_nil (file_to_patch o) then guess_filepath (fs w) (map d_dest (deferred_writes st)) p o else file_to_patch o) = f ->
  output_path o p f = f ->
  deferred_writes st = [] -> fault w = None ->
  lookup (fs w) f = Some (Reg data mode) -> (mode < 4096)%N -> owner_r mode = true ->
  (N.land mode write_mask <> 0%N \/ read_only o <> ROFail) ->
  prereq p = [] -> poper p <> OpRename -> f <> [] -> ~ In 47%N f ->
  process_section o st false p s w =
  (let! ar := mlift (apply_patch o (split_lines data) p) in
   section_tail o st f f mode mode (N.eqb (N.land mode write_mask) 0) ar s)
    (mkWorld (fs w) (umask w) (trace w ++ [OOpenRead f]) None (stdout_data w)).
Proof.
  intros G Out Dw Fw Lf Hm Hr Hw P3 Pop Hn Hs.
  pose proof (stat_reg _ _ _ _ Hs Lf) as St.
  assert (Ex : exists_ (fs w) f = true) by (unfold exists_; rewrite St; reflexivity).
  assert (Rg : is_regular_file (fs w) f = true) by (unfold is_regular_file; rewrite St; reflexivity).
  unfold process_section. rewrite mbind_eq. cbn [get_fs]. rewrite G.
  assert (Nn : is_nil f = false) by (destruct f; [congruence|reflexivity]). rewrite Nn.
  rewrite Ex, Rg. cbn [negb andb]. rewrite Out.
  assert (GP : get_permissions (fs w) f = mode) by (unfold get_permissions; rewrite St; apply land_small; exact Hm).
  assert (EP : effective_perms st (fs w) f = mode) by (unfold effective_perms; rewrite Dw; cbn [rev find]; exact GP).
  rewrite EP.
  assert (Ref : (N.eqb (N.land mode write_mask) 0 && match read_only o with ROFail => true | _ => false end) = false).
  { destruct Hw as [Hw|Hw].
    - apply N.eqb_neq in Hw. rewrite Hw. reflexivity.
    - destruct (read_only o); try congruence; apply andb_false_r. }
  rewrite Ref.
  assert (Unk : N.eqb mode perms_unknown = false) by (apply N.eqb_neq; unfold perms_unknown; lia).
  rewrite Unk. cbn [andb].
  assert (PC : pending_content st (fs w) f f = None) by (unfold pending_content; rewrite Dw; cbn [rev find]; destruct (str_eqb f f); reflexivity).
  rewrite PC.
  set (w1 := mkWorld (fs w) (umask w) (trace w ++ [OOpenRead f]) None (stdout_data w)).
  assert (Rd : perform (OOpenRead f) w = (Ok None, w1)).
  { apply perform_ok_run; [exact Fw|]. cbn [exec_op]. rewrite St, Hr. reflexivity. }
  rewrite mbind_eq. rewrite mbind_eq. rewrite Rd. rewrite St. cbn [mret].
  rewrite mbind_eq. rewrite P3. cbn [is_nil negb andb mret].
  assert (P1 : match poper p with OpRename => if str_eqb f f then set_oper p OpChange else p | _ => p end = p)
    by (destruct (poper p); try reflexivity; congruence).
  rewrite P1. unfold body_if. rewrite mbind_eq. cbn [mret]. reflexivity.
Qed.

(* plain_options without the clause on the operand *)
Definition plain_options_ftp (o : options) : Prop :=
  out_file_path o = [] /\ dry_run o = false /\ save_backup o = false /\ define_macro o = [] /\
  verbose o = false /\ (0 <= max_fuzz o)%Z.

Lemma plain_options_plain_ftp o : plain_options o -> plain_options_ftp o.
Proof. intros (_ & H). exact H. Qed.

(* Proofs_Whole.section_forward_any for a record whose two names are anything but /dev/null (both empty in a normal diff) *)
Lemma section_forward_ftp o p f A B st s w data mode :
  plain_options_ftp o -> reverse_patch_opt o = false ->
  (if is_nil (file_to_patch o) then guess_filepath (fs w) (map d_dest (deferred_writes st)) p o else file_to_patch o) = f ->
  pfmt p <> FGit -> (poper p = OpChange \/ poper p = OpAdd \/ poper p = OpDelete) ->
  prereq p = [] -> old_path p <> Driver.devnull -> new_path p <> Driver.devnull -> new_mode p = 0%N ->
  f <> [] -> ~ In 47%N f ->
  Conforming A B (hunks p) ->
  (remove_empty_files o <> OBYes \/ lines_bytes (newline_output o) B <> []) ->
  (Z.of_nat (length A) < MAXZ)%Z ->
  fault w = None -> deferred_writes st = [] ->
  lookup (fs w) f = Some (Reg data mode) -> (mode < 4096)%N -> owner_r mode = true -> owner_w mode = true ->
  split_lines data = A ->
  exists st' w',
    process_section o st false p s w = (Ok (st', s), w') /\
    lookup (fs w') f = Some (Reg (lines_bytes (newline_output o) B) mode) /\
    (forall q, q <> f -> lookup (fs w') q = lookup (fs w) q) /\
    same_state st st' /\ fault w' = None /\ umask w' = umask w.
Proof.
  intros (O2 & O3 & O4 & O5 & O6 & O8) Rv G Pf Pop P3 Po Pn Pm Hn Hs HC Ne Hx Fw Dw Lf Hm Hr Hw HX.
  pose proof (owner_w_write_mask _ Hw) as Hw2.
  assert (Out : output_path o p f = f) by (unfold output_path; rewrite O2; destruct Pop as [E|[E|E]]; rewrite E; reflexivity).
  rewrite (head_existing_ftp o st p s w f data mode G Out Dw Fw Lf Hm Hr (or_introl Hw2) P3).
  2:{ destruct Pop as [E|[E|E]]; rewrite E; discriminate. } 2: exact Hn. 2: exact Hs.
  rewrite HX.
  assert (Eff : effective o p = p) by (unfold effective; rewrite Rv; reflexivity).
  assert (Guard : creation_guard (effective o p) A).
  { rewrite Eff. intros E. exfalso. unfold creates_file in E. apply str_eqb_eq in E. apply Po. exact E. }
  assert (HC' : Conforming A B (hunks (effective o p))) by (rewrite Eff; exact HC).
  destruct (apply_conforming_gen_full o p A B O5 O6 O8 HC' Hx Guard) as (r & Er & Ro & Rf & Rr & Rs & Rp & Rm & hs & Hp3).
  rewrite Eff in Hp3.
  rewrite mbind_eq. unfold mlift. rewrite Er.
  apply N.eqb_neq in Hw2. rewrite Hw2.
  assert (Q1 : pfmt (r_patch r) <> FGit) by (rewrite Hp3; exact Pf).
  assert (Q2 : poper (r_patch r) = OpChange \/ poper (r_patch r) = OpAdd \/ poper (r_patch r) = OpDelete) by (rewrite Hp3; exact Pop).
  assert (Q3 : new_mode (r_patch r) = 0%N) by (rewrite Hp3; exact Pm).
  assert (Q4 : new_path (r_patch r) <> Driver.devnull) by (rewrite Hp3; cbn [set_hunks new_path]; exact Pn).
  rewrite (tail_write_any o st f f mode mode r s _ O2 O3 O4 Rf Rs Rp Rm Q1 Q2 Q3 Q4).
  2:{ rewrite Ro. exact Ne. } 2: exact Hn. 2: exact Hs.
  assert (Unk : N.eqb mode perms_unknown = false) by (apply N.eqb_neq; unfold perms_unknown; lia).
  rewrite Unk, Ro.
  set (w1 := mkWorld (fs w) (umask w) (trace w ++ [OOpenRead f]) None (stdout_data w)).
  destruct (write_existing o (add_event st []) f (lines_bytes (newline_output o) B) mode w1 data mode eq_refl Hs Lf Hw)
    as (w' & Ew & Fs' & Fa' & Um').
  rewrite mbind_eq, Ew. cbn [mret].
  eexists. exists w'. split; [reflexivity|]. rewrite Fs'.
  destruct (upd_upd_lookup (fs w) f (Reg (lines_bytes (newline_output o) B) mode) (Reg (lines_bytes (newline_output o) B) mode)) as [L1 L2].
  split; [exact L1|]. split; [exact L2|]. split; [apply same_state_add_event|]. split; [exact Fa'|exact Um'].
Qed.

(* Proofs_Reverse.section_reverse_restores in the same generality, and for the three kinds of record: -R, the file holds B *)
Lemma section_reverse_ftp o p f A B st s w data mode :
  plain_options_ftp o -> reverse_patch_opt o = true ->
  (if is_nil (file_to_patch o) then guess_filepath (fs w) (map d_dest (deferred_writes st)) p o else file_to_patch o) = f ->
  pfmt p <> FGit -> (poper p = OpChange \/ poper p = OpAdd \/ poper p = OpDelete) ->
  prereq p = [] -> old_path p <> Driver.devnull -> new_path p <> Driver.devnull -> old_mode p = 0%N ->
  f <> [] -> ~ In 47%N f ->
  Conforming A B (hunks p) ->
  (remove_empty_files o <> OBYes \/ lines_bytes (newline_output o) A <> []) ->
  (Z.of_nat (length B) < MAXZ)%Z ->
  fault w = None -> deferred_writes st = [] ->
  lookup (fs w) f = Some (Reg data mode) -> (mode < 4096)%N -> owner_r mode = true -> owner_w mode = true ->
  split_lines data = B ->
  exists st' w',
    process_section o st false p s w = (Ok (st', s), w') /\
    lookup (fs w') f = Some (Reg (lines_bytes (newline_output o) A) mode) /\
    (forall q, q <> f -> lookup (fs w') q = lookup (fs w) q) /\
    same_state st st' /\ fault w' = None /\ umask w' = umask w.
Proof.
  intros (O2 & O3 & O4 & O5 & O6 & O8) Rv G Pf Pop P3 Po Pn Pm Hn Hs HC Ne Hx Fw Dw Lf Hm Hr Hw HX.
  pose proof (owner_w_write_mask _ Hw) as Hw2.
  assert (Out : output_path o p f = f) by (unfold output_path; rewrite O2; destruct Pop as [E|[E|E]]; rewrite E; reflexivity).
  rewrite (head_existing_ftp o st p s w f data mode G Out Dw Fw Lf Hm Hr (or_introl Hw2) P3).
  2:{ destruct Pop as [E|[E|E]]; rewrite E; discriminate. } 2: exact Hn. 2: exact Hs.
  rewrite HX.
  assert (Eff : effective o p = reverse_patch p) by (unfold effective; rewrite Rv; reflexivity).
  assert (Guard : creation_guard (effective o p) B).
  { rewrite Eff. intros E. exfalso. unfold creates_file in E. cbn [reverse_patch old_path] in E. apply str_eqb_eq in E. apply Pn. exact E. }
  assert (HC' : Conforming B A (hunks (effective o p))).
  { rewrite Eff. cbn [reverse_patch hunks]. apply conforming_reverse. exact HC. }
  destruct (apply_conforming_gen_full o p B A O5 O6 O8 HC' Hx Guard) as (r & Er & Ro & Rf & Rr & Rs & Rp & Rm & hs & Hp3).
  rewrite Eff in Hp3.
  rewrite mbind_eq. unfold mlift. rewrite Er.
  apply N.eqb_neq in Hw2. rewrite Hw2.
  assert (Q1 : pfmt (r_patch r) <> FGit) by (rewrite Hp3; exact Pf).
  assert (Q2 : poper (r_patch r) = OpChange \/ poper (r_patch r) = OpAdd \/ poper (r_patch r) = OpDelete).
  { rewrite Hp3. cbn [set_hunks reverse_patch poper]. destruct Pop as [E|[E|E]]; rewrite E; cbn [reverse_operation]; auto. }
  assert (Q3 : new_mode (r_patch r) = 0%N) by (rewrite Hp3; exact Pm).
  assert (Q4 : new_path (r_patch r) <> Driver.devnull) by (rewrite Hp3; cbn [set_hunks reverse_patch new_path]; exact Po).
  rewrite (tail_write_any o st f f mode mode r s _ O2 O3 O4 Rf Rs Rp Rm Q1 Q2 Q3 Q4).
  2:{ rewrite Ro. exact Ne. } 2: exact Hn. 2: exact Hs.
  assert (Unk : N.eqb mode perms_unknown = false) by (apply N.eqb_neq; unfold perms_unknown; lia).
  rewrite Unk, Ro.
  set (w1 := mkWorld (fs w) (umask w) (trace w ++ [OOpenRead f]) None (stdout_data w)).
  destruct (write_existing o (add_event st []) f (lines_bytes (newline_output o) A) mode w1 data mode eq_refl Hs Lf Hw)
    as (w' & Ew & Fs' & Fa' & Um').
  rewrite mbind_eq, Ew. cbn [mret].
  eexists. exists w'. split; [reflexivity|]. rewrite Fs'.
  destruct (upd_upd_lookup (fs w) f (Reg (lines_bytes (newline_output o) A) mode) (Reg (lines_bytes (newline_output o) A) mode)) as [L1 L2].
  split; [exact L1|]. split; [exact L2|]. split; [apply same_state_add_event|]. split; [exact Fa'|exact Um'].
Qed.

Lemma guess_old_existing o p f m : old_path p = f -> f <> Driver.devnull -> exists_ m f = true -> guess_filepath m [] p o = f.
Proof. intros Po Hd Ex. unfold guess_filepath. rewrite Po. apply str_eqb_neq in Hd. rewrite Hd, Ex. reflexivity. Qed.


(* ================================================================================================================
   (2) a CONTEXT diff
   ================================================================================================================ *)
Lemma decide_oper_c_cases h1 a b :
  decide_oper_c h1 a b = OpChange \/ decide_oper_c h1 a b = OpAdd \/ decide_oper_c h1 a b = OpDelete.
Proof. unfold decide_oper_c. destruct (str_eqb b devnull_path); [auto|]. destruct (_ || _); auto. Qed.

Lemma decide_oper_c_change h1 f : ~ In 47%N f -> rstart (oldr h1) <> 0%Z -> decide_oper_c h1 f f = OpChange.
Proof.
  intros Hs H0. unfold decide_oper_c. rewrite (not_devnull_noslash f Hs). apply Z.eqb_neq in H0. rewrite H0. reflexivity.
Qed.

(* where the context reader leaves the stream, and the end of the run *)
Lemma ends_here_final_c o f h tail :
  (tail <> [] -> ends_here o f (stream_of tail) = true) -> ends_here o f (final_c h tail) = true.
Proof.
  intros H. destruct tail as [|c r].
  - apply ends_here_eof. apply final_c_nil_eof.
  - rewrite final_c_ne by discriminate. apply H. discriminate.
Qed.

Section WholeC.
Variables (o : options) (f0 : format) (pre0 : list (list N)) (p0 : patch).
Variables (oldname newname : list N) (t1 t2 : option (list N)) (h1 : hunk) (hs : list hunk) (tail : list N).
Variables (fname : list N).
Let pre := pre0 ++ [bs "*** " ++ oldname ++ tab_time t1; bs "--- " ++ newname ++ tab_time t2].
Let bytes := join_lines pre ++ emit_c (h1 :: hs) ++ tail.

(* options *)
Hypothesis Hplain : plain_options o.
Hypothesis Hfo : format_from_options o = Ok f0.
(* header *)
Hypothesis Hlead : leads (strip_size o) (empty_patch f0) pre0 p0.
Hypothesis Hclean0 : Forall clean pre0.
Hypothesis Hp0 : poper p0 = OpChange /\ prereq p0 = [] /\ old_mode p0 = 0%N /\ new_mode p0 = 0%N /\ hunks p0 = [] /\
                 fmt_unknown_or p0 FContext = true.
Hypothesis Hold : plain_name oldname.
Hypothesis Hnew : plain_name newname.
Hypothesis Holdc : clean (oldname ++ tab_time t1).
Hypothesis Hnewc : clean (newname ++ tab_time t2).
Hypothesis Holdf : stripped oldname (strip_size o) = fname.
Hypothesis Hnewf : stripped newname (strip_size o) = fname.
Hypothesis Hfname : fname <> [] /\ ~ In 47%N fname.
(* hunks *)
Hypothesis Hwf : Forall wf_hunk_c (h1 :: hs).
(* what follows the hunks *)
Hypothesis Htail : tail_ok_c tail.
Hypothesis Hends : tail <> [] -> ends_here o f0 (stream_of tail) = true.

(* the record the scan hands over: Change -- or Add when the old range of the first hunk starts at 0 *)
Let p := set_oper (named_c p0 fname fname t1 t2) (decide_oper_c h1 fname fname).
Let sF := final_c (lasth h1 hs) tail.

Lemma whole_header_c :
  parse_patch_header_full (empty_patch f0) (strip_size o) (stream_of bytes) = Ok (true, p, strm (emit_c (h1 :: hs) ++ tail), true).
Proof.
  destruct Hp0 as (P1 & P2 & P3 & P4 & P5 & P6).
  change (stream_of bytes) with (strm bytes). unfold bytes, pre.
  rewrite (context_header_scan_gen (strip_size o) f0 pre0 p0 oldname newname t1 t2 h1 hs Hlead Hclean0 P1 P6 Hold Hnew Holdc Hnewc Hwf tail).
  rewrite Holdf, Hnewf. reflexivity.
Qed.

Lemma whole_hunks_c : hunks p = [].
Proof. destruct Hp0 as (_ & _ & _ & _ & P5 & _). unfold p. cbn [set_oper named_c hunks]. exact P5. Qed.

(* the body is parsed: the section does what the section with the normalised hunks does *)
Lemma whole_parsed_c w :
  process_section o ds0 true p (strm (emit_c (h1 :: hs) ++ tail)) w =
  process_section o ds0 false (set_hunks p (map norm_hunk (h1 :: hs))) sF w.
Proof.
  apply process_section_parsed; [exact whole_hunks_c|]. intros q Q1 Q2.
  rewrite (context_body q h1 hs tail); [rewrite Q2; reflexivity| |exact Hwf|exact Htail].
  rewrite Q1. reflexivity.
Qed.

Lemma whole_run_c st1 w w1 :
  process_section o ds0 true p (strm (emit_c (h1 :: hs) ++ tail)) w = (Ok (st1, sF), w1) ->
  same_state ds0 st1 ->
  process_patch o bytes w = (Ok (0, []), w1).
Proof.
  intros E (S1 & S2 & S3 & S4 & S5).
  assert (X : process_patch o bytes w = (Ok (exit_of st1, events st1), w1)).
  { apply (process_patch_single o f0 bytes true p (strm (emit_c (h1 :: hs) ++ tail)) true st1 sF w w1 Hfo whole_header_c).
    - discriminate.
    - unfold p. cbn [set_oper poper]. destruct (decide_oper_c_cases h1 fname fname) as [E0|[E0|E0]]; rewrite E0; discriminate.
    - exact E.
    - rewrite S3. reflexivity.
    - rewrite S4. reflexivity.
    - apply ends_here_final_c. exact Hends. }
  rewrite X. unfold exit_of. rewrite S1, S5. reflexivity.
Qed.

Theorem context_patch_applies_gen A B w data mode :
  reverse_patch_opt o = false ->
  Conforming A B (h1 :: hs) ->
  remove_empty_files o <> OBYes \/ lines_bytes (newline_output o) B <> [] ->
  (Z.of_nat (length A) < MAXZ)%Z ->
  fault w = None -> lookup (fs w) fname = Some (Reg data mode) -> (mode < 4096)%N -> owner_r mode = true -> owner_w mode = true ->
  split_lines data = A ->
  exists w',
    process_patch o bytes w = (Ok (0, []), w') /\
    lookup (fs w') fname = Some (Reg (lines_bytes (newline_output o) B) mode) /\
    (forall q, q <> fname -> lookup (fs w') q = lookup (fs w) q) /\
    fault w' = None /\ umask w' = umask w.
Proof.
  intros Hfwd Hconf HB HA Fw Lf Hm Hr Hw HS.
  destruct Hp0 as (P1 & P2 & P3 & P4 & P5 & P6). destruct Hfname as (F1 & F2).
  assert (Dn : fname <> Driver.devnull) by (intros ->; apply F2; left; reflexivity).
  destruct (section_forward_any o (set_hunks p (map norm_hunk (h1 :: hs))) fname A B ds0 sF w data mode Hplain Hfwd)
    as (st1 & w1 & E2 & L1 & L2 & SS & Fa & Um); try assumption; try reflexivity; try discriminate.
  { exact (decide_oper_c_cases h1 fname fname). }
  { apply conforming_norm. exact Hconf. }
  exists w1. split; [|repeat split; assumption].
  apply (whole_run_c st1 w w1); [rewrite whole_parsed_c; exact E2|exact SS].
Qed.

(* with -R, on the file that holds B *)
Theorem context_patch_reverses_gen A B w data mode :
  reverse_patch_opt o = true ->
  Conforming A B (h1 :: hs) ->
  remove_empty_files o <> OBYes \/ lines_bytes (newline_output o) A <> [] ->
  (Z.of_nat (length B) < MAXZ)%Z ->
  fault w = None -> lookup (fs w) fname = Some (Reg data mode) -> (mode < 4096)%N -> owner_r mode = true -> owner_w mode = true ->
  split_lines data = B ->
  exists w',
    process_patch o bytes w = (Ok (0, []), w') /\
    lookup (fs w') fname = Some (Reg (lines_bytes (newline_output o) A) mode) /\
    (forall q, q <> fname -> lookup (fs w') q = lookup (fs w) q) /\
    fault w' = None /\ umask w' = umask w.
Proof.
  intros Hrev Hconf HB HA Fw Lf Hm Hr Hw HS.
  destruct Hp0 as (P1 & P2 & P3 & P4 & P5 & P6). destruct Hfname as (F1 & F2).
  assert (Dn : fname <> Driver.devnull) by (intros ->; apply F2; left; reflexivity).
  assert (G : (if is_nil (file_to_patch o)
               then guess_filepath (fs w) (map d_dest (deferred_writes ds0)) (set_hunks p (map norm_hunk (h1 :: hs))) o
               else file_to_patch o) = fname).
  { destruct Hplain as (O1 & _). rewrite O1. cbn [is_nil]. apply guess_old_existing; [reflexivity|exact Dn|].
    unfold exists_. rewrite (stat_reg _ _ _ _ F2 Lf). reflexivity. }
  destruct (section_reverse_ftp o (set_hunks p (map norm_hunk (h1 :: hs))) fname A B ds0 sF w data mode
              (plain_options_plain_ftp o Hplain) Hrev G)
    as (st1 & w1 & E2 & L1 & L2 & SS & Fa & Um); try assumption; try reflexivity; try discriminate.
  { exact (decide_oper_c_cases h1 fname fname). }
  { apply conforming_norm. exact Hconf. }
  exists w1. split; [|repeat split; assumption].
  apply (whole_run_c st1 w w1); [rewrite whole_parsed_c; exact E2|exact SS].
Qed.
End WholeC.

(* the two statements for the header diff -c writes: text that is nothing to the scan, "*** old<TAB>stamp", "--- new<TAB>stamp" *)
Lemma p0_empty_c f : f = FUnknown \/ f = FContext ->
  poper (empty_patch f) = OpChange /\ prereq (empty_patch f) = [] /\ old_mode (empty_patch f) = 0%N /\ new_mode (empty_patch f) = 0%N /\
  hunks (empty_patch f) = [] /\ fmt_unknown_or (empty_patch f) FContext = true.
Proof. intros H. repeat split; try reflexivity. apply fmt_unknown_or_empty_c. exact H. Qed.

(* C01 end to end for a context diff.  The patch: any lines that mean nothing to the header scan (the command line
   "diff -c a/f b/f", a mail), "*** old", "--- new" with or without time stamps, then the hunks of a conforming diff of A to B
   written in context form (each after its row of stars), then nothing or text on which the context reader stops
   (tail_ok_c) and in which the header scan finds no further patch.  Options, names and world as in
   Proofs_Whole.patch_applies_end_to_end.  Then: exit status 0, no message, the file holds exactly B with its mode, every
   other entry is what it was (no reject file, no backup), no fault consumed. *)
Theorem context_patch_applies_end_to_end o f0 fl oldname t1 newname t2 h1 hs tail fname A B w data mode :
  plain_options o -> reverse_patch_opt o = false ->
  format_from_options o = Ok f0 -> f0 = FUnknown \/ f0 = FContext ->
  Forall (Filler (strip_size o) (empty_patch f0)) fl -> Forall clean fl ->
  plain_name oldname -> plain_name newname -> clean (oldname ++ tab_time t1) -> clean (newname ++ tab_time t2) ->
  stripped oldname (strip_size o) = fname -> stripped newname (strip_size o) = fname ->
  fname <> [] /\ ~ In 47%N fname ->
  Forall wf_hunk_c (h1 :: hs) -> Conforming A B (h1 :: hs) ->
  remove_empty_files o <> OBYes \/ lines_bytes (newline_output o) B <> [] ->
  (Z.of_nat (length A) < MAXZ)%Z ->
  tail_ok_c tail -> (tail <> [] -> ends_here o f0 (stream_of tail) = true) ->
  fault w = None -> lookup (fs w) fname = Some (Reg data mode) -> (mode < 4096)%N -> owner_r mode = true -> owner_w mode = true ->
  split_lines data = A ->
  exists w',
    process_patch o (join_lines (fl ++ [bs "*** " ++ oldname ++ tab_time t1; bs "--- " ++ newname ++ tab_time t2]) ++
                     emit_c (h1 :: hs) ++ tail) w = (Ok (0, []), w') /\
    lookup (fs w') fname = Some (Reg (lines_bytes (newline_output o) B) mode) /\
    (forall q, q <> fname -> lookup (fs w') q = lookup (fs w) q) /\
    fault w' = None /\ umask w' = umask w.
Proof.
  intros Hplain Hfwd Hfo Hf0 HF HC. intros.
  apply (context_patch_applies_gen o f0 fl (empty_patch f0) oldname newname t1 t2 h1 hs tail fname) with (data := data) (A := A); try assumption.
  - apply leads_fillers. exact HF.
  - apply p0_empty_c. exact Hf0.
Qed.
Print Assumptions context_patch_applies_end_to_end.

(* the same with an "Index: name" line (and text such as the "=====" rule after it) in front of the two file lines *)
Theorem context_patch_applies_end_to_end_index o f0 fl ixname ixt fl2 oldname t1 newname t2 h1 hs tail fname A B w data mode :
  plain_options o -> reverse_patch_opt o = false ->
  format_from_options o = Ok f0 -> f0 = FUnknown \/ f0 = FContext ->
  Forall (Filler (strip_size o) (empty_patch f0)) fl -> Forall clean fl ->
  plain_name ixname -> clean (ixname ++ tab_time ixt) ->
  Forall (Filler (strip_size o) (set_index (empty_patch f0) (stripped ixname (strip_size o)))) fl2 -> Forall clean fl2 ->
  plain_name oldname -> plain_name newname -> clean (oldname ++ tab_time t1) -> clean (newname ++ tab_time t2) ->
  stripped oldname (strip_size o) = fname -> stripped newname (strip_size o) = fname ->
  fname <> [] /\ ~ In 47%N fname ->
  Forall wf_hunk_c (h1 :: hs) -> Conforming A B (h1 :: hs) ->
  remove_empty_files o <> OBYes \/ lines_bytes (newline_output o) B <> [] ->
  (Z.of_nat (length A) < MAXZ)%Z ->
  tail_ok_c tail -> (tail <> [] -> ends_here o f0 (stream_of tail) = true) ->
  fault w = None -> lookup (fs w) fname = Some (Reg data mode) -> (mode < 4096)%N -> owner_r mode = true -> owner_w mode = true ->
  split_lines data = A ->
  exists w',
    process_patch o (join_lines ((fl ++ [bs "Index: " ++ ixname ++ tab_time ixt] ++ fl2) ++
                                 [bs "*** " ++ oldname ++ tab_time t1; bs "--- " ++ newname ++ tab_time t2]) ++
                     emit_c (h1 :: hs) ++ tail) w = (Ok (0, []), w') /\
    lookup (fs w') fname = Some (Reg (lines_bytes (newline_output o) B) mode) /\
    (forall q, q <> fname -> lookup (fs w') q = lookup (fs w) q) /\
    fault w' = None /\ umask w' = umask w.
Proof.
  intros Hplain Hfwd Hfo Hf0 HF HC Hi Hic HF2 HC2. intros.
  apply (context_patch_applies_gen o f0 (fl ++ [bs "Index: " ++ ixname ++ tab_time ixt] ++ fl2)
           (set_index (empty_patch f0) (stripped ixname (strip_size o))) oldname newname t1 t2 h1 hs tail fname) with (data := data) (A := A);
    try assumption.
  - apply (leads_app _ _ _ (empty_patch f0)); [apply leads_fillers; exact HF|].
    apply (leads_app _ _ _ (set_index (empty_patch f0) (stripped ixname (strip_size o)))); [apply leads_index; exact Hi|apply leads_fillers; exact HF2].
  - apply Forall_app. split; [exact HC|]. apply Forall_app. split; [|exact HC2]. constructor; [|constructor].
    destruct Hi as (N1 & _). apply file_line_clean; [vm_compute; intuition discriminate|exact N1|exact Hic].
  - destruct Hf0 as [-> | ->]; repeat split; reflexivity.
Qed.
Print Assumptions context_patch_applies_end_to_end_index.

(* the same patch given to patch -R in a world where the file holds B: it holds exactly A afterwards *)
Theorem context_patch_reverses_end_to_end o f0 fl oldname t1 newname t2 h1 hs tail fname A B w data mode :
  plain_options o -> reverse_patch_opt o = true ->
  format_from_options o = Ok f0 -> f0 = FUnknown \/ f0 = FContext ->
  Forall (Filler (strip_size o) (empty_patch f0)) fl -> Forall clean fl ->
  plain_name oldname -> plain_name newname -> clean (oldname ++ tab_time t1) -> clean (newname ++ tab_time t2) ->
  stripped oldname (strip_size o) = fname -> stripped newname (strip_size o) = fname ->
  fname <> [] /\ ~ In 47%N fname ->
  Forall wf_hunk_c (h1 :: hs) -> Conforming A B (h1 :: hs) ->
  remove_empty_files o <> OBYes \/ lines_bytes (newline_output o) A <> [] ->
  (Z.of_nat (length B) < MAXZ)%Z ->
  tail_ok_c tail -> (tail <> [] -> ends_here o f0 (stream_of tail) = true) ->
  fault w = None -> lookup (fs w) fname = Some (Reg data mode) -> (mode < 4096)%N -> owner_r mode = true -> owner_w mode = true ->
  split_lines data = B ->
  exists w',
    process_patch o (join_lines (fl ++ [bs "*** " ++ oldname ++ tab_time t1; bs "--- " ++ newname ++ tab_time t2]) ++
                     emit_c (h1 :: hs) ++ tail) w = (Ok (0, []), w') /\
    lookup (fs w') fname = Some (Reg (lines_bytes (newline_output o) A) mode) /\
    (forall q, q <> fname -> lookup (fs w') q = lookup (fs w) q) /\
    fault w' = None /\ umask w' = umask w.
Proof.
  intros Hplain Hrev Hfo Hf0 HF HC. intros.
  apply (context_patch_reverses_gen o f0 fl (empty_patch f0) oldname newname t1 t2 h1 hs tail fname) with (data := data) (B := B); try assumption.
  - apply leads_fillers. exact HF.
  - apply p0_empty_c. exact Hf0.
Qed.
Print Assumptions context_patch_reverses_end_to_end.

(* ================================================================================================================
   (3) a NORMAL diff
   ================================================================================================================ *)
(* A normal diff names no file.  The file is (a) the name of an "Index:" line in front of it (what the lines in front leave in
   the record p0) -- provided no operand is given and the tree has no entry with the empty name: the scan has cleared both
   names of the record, and guess_filepath asks whether "" exists before it looks at the Index name --, or (b) the operand. *)
Definition picks (o : options) (p0 : patch) (w : world) (fname : list N) : Prop :=
  (file_to_patch o = [] /\ index_path p0 = fname /\ lookup (fs w) [] = None) \/ file_to_patch o = fname.

Lemma decide_oper_n_cases h1 : decide_oper_n h1 = OpChange \/ decide_oper_n h1 = OpAdd \/ decide_oper_n h1 = OpDelete.
Proof. unfold decide_oper_n. destruct (Z.eqb _ 0); [auto|]. destruct (Z.eqb _ 0); auto. Qed.

Lemma decide_oper_n_change h1 : rstart (oldr h1) <> 0%Z -> rstart (newr h1) <> 0%Z -> decide_oper_n h1 = OpChange.
Proof. intros Ho Hn. unfold decide_oper_n. apply Z.eqb_neq in Ho, Hn. rewrite Ho, Hn. reflexivity. Qed.

(* nothing after the diff: the run ends there *)
Lemma ends_here_after_n_nil o f : ends_here o f (after_n []) = true.
Proof. reflexivity. Qed.

(* text after the diff whose first line is a terminated non-empty line: the reader stops in front of it *)
Lemma ends_here_after_n_line o f l2 more :
  clean l2 -> l2 <> [] -> ends_here o f (stream_of (l2 ++ 10%N :: more)) = true -> ends_here o f (after_n (l2 ++ 10%N :: more)) = true.
Proof. intros Hc Hne H. rewrite (after_n_line l2 more Hc Hne). exact H. Qed.

Lemma picks_file o p0 op hs w fname data mode :
  picks o p0 w fname -> fname <> [] -> ~ In 47%N fname -> lookup (fs w) fname = Some (Reg data mode) ->
  (if is_nil (file_to_patch o)
   then guess_filepath (fs w) (map d_dest (deferred_writes ds0)) (set_hunks (set_oper (normal_patch p0) op) hs) o
   else file_to_patch o) = fname.
Proof.
  intros [(O1 & Ix & L0)|O1] Hn Hs Lf.
  - rewrite O1. cbn [is_nil]. unfold guess_filepath.
    cbn [set_hunks set_oper normal_patch old_path new_path index_path ds0 deferred_writes map existsb].
    assert (E0 : exists_ (fs w) [] = false) by (unfold exists_; rewrite (stat_absent _ _ L0); reflexivity).
    rewrite E0. cbn [orb andb]. rewrite !andb_false_r. rewrite Ix.
    assert (Ex : exists_ (fs w) fname = true) by (unfold exists_; rewrite (stat_reg _ _ _ _ Hs Lf); reflexivity).
    rewrite Ex. change Driver.devnull with devnull_path. rewrite (not_devnull_noslash fname Hs). reflexivity.
  - rewrite O1. destruct fname; [congruence|reflexivity].
Qed.

Section WholeN.
Variables (o : options) (f0 : format) (pre : list (list N)) (p0 : patch).
Variables (h1 : hunk) (hs : list hunk) (tail : list N) (fname : list N).
Let bytes := join_lines pre ++ emit_normal (h1 :: hs) ++ tail.

(* options: as plain_options, the operand left open *)
Hypothesis Hopt : plain_options_ftp o.
Hypothesis Hfo : format_from_options o = Ok f0.
(* the lines in front *)
Hypothesis Hlead : leads (strip_size o) (empty_patch f0) pre p0.
Hypothesis Hclean : Forall clean pre.
Hypothesis Hp0 : poper p0 = OpChange /\ prereq p0 = [] /\ old_mode p0 = 0%N /\ new_mode p0 = 0%N /\ hunks p0 = [] /\
                 fmt_unknown_or p0 FNormal = true.
Hypothesis Hfname : fname <> [] /\ ~ In 47%N fname.
(* change groups *)
Hypothesis Hwf : Forall wf_hunk_n (h1 :: hs).
(* what follows them *)
Hypothesis Htail : tail_ok_n tail.
Hypothesis Hends : ends_here o f0 (after_n tail) = true.

(* the record the scan hands over: no names; Change -- or Add / Delete when a range of the first group starts at 0 *)
Let p := set_oper (normal_patch p0) (decide_oper_n h1).

Lemma whole_header_n :
  parse_patch_header_full (empty_patch f0) (strip_size o) (stream_of bytes) = Ok (true, p, strm (emit_normal (h1 :: hs) ++ tail), true).
Proof.
  destruct Hp0 as (P1 & P2 & P3 & P4 & P5 & P6).
  change (stream_of bytes) with (strm bytes). unfold bytes.
  exact (normal_header_scan_gen (strip_size o) f0 pre p0 h1 hs Hlead Hclean P1 P6 Hwf tail).
Qed.

Lemma whole_hunks_n : hunks p = [].
Proof. destruct Hp0 as (_ & _ & _ & _ & P5 & _). unfold p. cbn [set_oper normal_patch hunks]. exact P5. Qed.

Lemma whole_parsed_n w :
  process_section o ds0 true p (strm (emit_normal (h1 :: hs) ++ tail)) w =
  process_section o ds0 false (set_hunks p (h1 :: hs)) (after_n tail) w.
Proof.
  apply process_section_parsed; [exact whole_hunks_n|]. intros q Q1 Q2.
  rewrite (normal_body_roundtrip q (h1 :: hs) tail); [rewrite Q2; reflexivity| |discriminate|exact Hwf|exact Htail].
  rewrite Q1. reflexivity.
Qed.

Lemma whole_run_n st1 w w1 :
  process_section o ds0 true p (strm (emit_normal (h1 :: hs) ++ tail)) w = (Ok (st1, after_n tail), w1) ->
  same_state ds0 st1 ->
  process_patch o bytes w = (Ok (0, []), w1).
Proof.
  intros E (S1 & S2 & S3 & S4 & S5).
  assert (X : process_patch o bytes w = (Ok (exit_of st1, events st1), w1)).
  { apply (process_patch_single o f0 bytes true p (strm (emit_normal (h1 :: hs) ++ tail)) true st1 (after_n tail) w w1 Hfo whole_header_n).
    - discriminate.
    - unfold p. cbn [set_oper poper]. destruct (decide_oper_n_cases h1) as [E0|[E0|E0]]; rewrite E0; discriminate.
    - exact E.
    - rewrite S3. reflexivity.
    - rewrite S4. reflexivity.
    - exact Hends. }
  rewrite X. unfold exit_of. rewrite S1, S5. reflexivity.
Qed.

Theorem normal_patch_applies_gen A B w data mode :
  reverse_patch_opt o = false ->
  picks o p0 w fname ->
  Conforming A B (h1 :: hs) ->
  remove_empty_files o <> OBYes \/ lines_bytes (newline_output o) B <> [] ->
  (Z.of_nat (length A) < MAXZ)%Z ->
  fault w = None -> lookup (fs w) fname = Some (Reg data mode) -> (mode < 4096)%N -> owner_r mode = true -> owner_w mode = true ->
  split_lines data = A ->
  exists w',
    process_patch o bytes w = (Ok (0, []), w') /\
    lookup (fs w') fname = Some (Reg (lines_bytes (newline_output o) B) mode) /\
    (forall q, q <> fname -> lookup (fs w') q = lookup (fs w) q) /\
    fault w' = None /\ umask w' = umask w.
Proof.
  intros Hfwd Hpick Hconf HB HA Fw Lf Hm Hr Hw HS.
  destruct Hp0 as (P1 & P2 & P3 & P4 & P5 & P6). destruct Hfname as (F1 & F2).
  pose proof (picks_file o p0 (decide_oper_n h1) (h1 :: hs) w fname data mode Hpick F1 F2 Lf) as G.
  destruct (section_forward_ftp o (set_hunks p (h1 :: hs)) fname A B ds0 (after_n tail) w data mode Hopt Hfwd G)
    as (st1 & w1 & E2 & L1 & L2 & SS & Fa & Um); try assumption; try reflexivity; try discriminate.
  { exact (decide_oper_n_cases h1). }
  exists w1. split; [|repeat split; assumption].
  apply (whole_run_n st1 w w1); [rewrite whole_parsed_n; exact E2|exact SS].
Qed.

(* with -R, on the file that holds B *)
Theorem normal_patch_reverses_gen A B w data mode :
  reverse_patch_opt o = true ->
  picks o p0 w fname ->
  Conforming A B (h1 :: hs) ->
  remove_empty_files o <> OBYes \/ lines_bytes (newline_output o) A <> [] ->
  (Z.of_nat (length B) < MAXZ)%Z ->
  fault w = None -> lookup (fs w) fname = Some (Reg data mode) -> (mode < 4096)%N -> owner_r mode = true -> owner_w mode = true ->
  split_lines data = B ->
  exists w',
    process_patch o bytes w = (Ok (0, []), w') /\
    lookup (fs w') fname = Some (Reg (lines_bytes (newline_output o) A) mode) /\
    (forall q, q <> fname -> lookup (fs w') q = lookup (fs w) q) /\
    fault w' = None /\ umask w' = umask w.
Proof.
  intros Hrev Hpick Hconf HB HA Fw Lf Hm Hr Hw HS.
  destruct Hp0 as (P1 & P2 & P3 & P4 & P5 & P6). destruct Hfname as (F1 & F2).
  pose proof (picks_file o p0 (decide_oper_n h1) (h1 :: hs) w fname data mode Hpick F1 F2 Lf) as G.
  destruct (section_reverse_ftp o (set_hunks p (h1 :: hs)) fname A B ds0 (after_n tail) w data mode Hopt Hrev G)
    as (st1 & w1 & E2 & L1 & L2 & SS & Fa & Um); try assumption; try reflexivity; try discriminate.
  { exact (decide_oper_n_cases h1). }
  exists w1. split; [|repeat split; assumption].
  apply (whole_run_n st1 w w1); [rewrite whole_parsed_n; exact E2|exact SS].
Qed.
End WholeN.

Lemma p0_index_n f name : f = FUnknown \/ f = FNormal ->
  poper (set_index (empty_patch f) name) = OpChange /\ prereq (set_index (empty_patch f) name) = [] /\
  old_mode (set_index (empty_patch f) name) = 0%N /\ new_mode (set_index (empty_patch f) name) = 0%N /\
  hunks (set_index (empty_patch f) name) = [] /\ fmt_unknown_or (set_index (empty_patch f) name) FNormal = true.
Proof. intros [-> | ->]; repeat split; reflexivity. Qed.

Lemma p0_empty_n f : f = FUnknown \/ f = FNormal ->
  poper (empty_patch f) = OpChange /\ prereq (empty_patch f) = [] /\ old_mode (empty_patch f) = 0%N /\ new_mode (empty_patch f) = 0%N /\
  hunks (empty_patch f) = [] /\ fmt_unknown_or (empty_patch f) FNormal = true.
Proof. intros [-> | ->]; repeat split; reflexivity. Qed.

Lemma index_lines_clean fl ixname ixt fl2 :
  Forall clean fl -> plain_name ixname -> clean (ixname ++ tab_time ixt) -> Forall clean fl2 ->
  Forall clean (fl ++ [bs "Index: " ++ ixname ++ tab_time ixt] ++ fl2).
Proof.
  intros HC Hi Hic HC2. apply Forall_app. split; [exact HC|]. apply Forall_app. split; [|exact HC2]. constructor; [|constructor].
  destruct Hi as (N1 & _). apply file_line_clean; [vm_compute; intuition discriminate|exact N1|exact Hic].
Qed.

(* C01 end to end for a normal diff whose file is named by an "Index:" line (what cvs / svn style tools put in front of a diff
   without context).  The patch: lines that mean nothing to the scan, "Index: name", again such lines (the "diff a/f b/f"
   command line, the "=====" rule), then the change groups of a conforming diff of A to B as diff writes them ("2c2",
   "< old", "---", "> new"), then nothing or text the normal reader stops on (tail_ok_n) and in which -- from where the reader
   stops, after_n tail: an empty first line of the tail is swallowed with the diff -- the header scan finds no further patch.
   Options: plain_options (no operand).  World: no entry with the empty name; the file named holds A. *)
Theorem normal_patch_applies_end_to_end o f0 fl ixname ixt fl2 h1 hs tail fname A B w data mode :
  plain_options o -> reverse_patch_opt o = false ->
  format_from_options o = Ok f0 -> f0 = FUnknown \/ f0 = FNormal ->
  Forall (Filler (strip_size o) (empty_patch f0)) fl -> Forall clean fl ->
  plain_name ixname -> clean (ixname ++ tab_time ixt) ->
  Forall (Filler (strip_size o) (set_index (empty_patch f0) (stripped ixname (strip_size o)))) fl2 -> Forall clean fl2 ->
  stripped ixname (strip_size o) = fname ->
  fname <> [] /\ ~ In 47%N fname ->
  Forall wf_hunk_n (h1 :: hs) -> Conforming A B (h1 :: hs) ->
  remove_empty_files o <> OBYes \/ lines_bytes (newline_output o) B <> [] ->
  (Z.of_nat (length A) < MAXZ)%Z ->
  tail_ok_n tail -> ends_here o f0 (after_n tail) = true ->
  fault w = None -> lookup (fs w) [] = None ->
  lookup (fs w) fname = Some (Reg data mode) -> (mode < 4096)%N -> owner_r mode = true -> owner_w mode = true ->
  split_lines data = A ->
  exists w',
    process_patch o (join_lines (fl ++ [bs "Index: " ++ ixname ++ tab_time ixt] ++ fl2) ++ emit_normal (h1 :: hs) ++ tail) w = (Ok (0, []), w') /\
    lookup (fs w') fname = Some (Reg (lines_bytes (newline_output o) B) mode) /\
    (forall q, q <> fname -> lookup (fs w') q = lookup (fs w) q) /\
    fault w' = None /\ umask w' = umask w.
Proof.
  intros Hplain Hfwd Hfo Hf0 HF HC Hi Hic HF2 HC2 Hix Hfn Hwf Hconf HB HA Ht He Fw L0. intros.
  apply (normal_patch_applies_gen o f0 (fl ++ [bs "Index: " ++ ixname ++ tab_time ixt] ++ fl2)
           (set_index (empty_patch f0) (stripped ixname (strip_size o))) h1 hs tail fname) with (data := data) (A := A); try assumption.
  - apply plain_options_plain_ftp. exact Hplain.
  - apply leads_index_fillers; assumption.
  - apply index_lines_clean; assumption.
  - apply p0_index_n. exact Hf0.
  - left. destruct Hplain as (O1 & _). split; [exact O1|]. split; [exact Hix|exact L0].
Qed.
Print Assumptions normal_patch_applies_end_to_end.

(* the same for "patch FILE < diff": the file is the operand; the lines in front are any lines that mean nothing to the scan *)
Theorem normal_patch_applies_operand o f0 fl h1 hs tail fname A B w data mode :
  plain_options_ftp o -> file_to_patch o = fname -> reverse_patch_opt o = false ->
  format_from_options o = Ok f0 -> f0 = FUnknown \/ f0 = FNormal ->
  Forall (Filler (strip_size o) (empty_patch f0)) fl -> Forall clean fl ->
  fname <> [] /\ ~ In 47%N fname ->
  Forall wf_hunk_n (h1 :: hs) -> Conforming A B (h1 :: hs) ->
  remove_empty_files o <> OBYes \/ lines_bytes (newline_output o) B <> [] ->
  (Z.of_nat (length A) < MAXZ)%Z ->
  tail_ok_n tail -> ends_here o f0 (after_n tail) = true ->
  fault w = None -> lookup (fs w) fname = Some (Reg data mode) -> (mode < 4096)%N -> owner_r mode = true -> owner_w mode = true ->
  split_lines data = A ->
  exists w',
    process_patch o (join_lines fl ++ emit_normal (h1 :: hs) ++ tail) w = (Ok (0, []), w') /\
    lookup (fs w') fname = Some (Reg (lines_bytes (newline_output o) B) mode) /\
    (forall q, q <> fname -> lookup (fs w') q = lookup (fs w) q) /\
    fault w' = None /\ umask w' = umask w.
Proof.
  intros Hopt Hop Hfwd Hfo Hf0 HF HC. intros.
  apply (normal_patch_applies_gen o f0 fl (empty_patch f0) h1 hs tail fname) with (data := data) (A := A); try assumption.
  - apply leads_fillers. exact HF.
  - apply p0_empty_n. exact Hf0.
  - right. exact Hop.
Qed.
Print Assumptions normal_patch_applies_operand.

(* both with -R, in a world where the file holds B *)
Theorem normal_patch_reverses_end_to_end o f0 fl ixname ixt fl2 h1 hs tail fname A B w data mode :
  plain_options o -> reverse_patch_opt o = true ->
  format_from_options o = Ok f0 -> f0 = FUnknown \/ f0 = FNormal ->
  Forall (Filler (strip_size o) (empty_patch f0)) fl -> Forall clean fl ->
  plain_name ixname -> clean (ixname ++ tab_time ixt) ->
  Forall (Filler (strip_size o) (set_index (empty_patch f0) (stripped ixname (strip_size o)))) fl2 -> Forall clean fl2 ->
  stripped ixname (strip_size o) = fname ->
  fname <> [] /\ ~ In 47%N fname ->
  Forall wf_hunk_n (h1 :: hs) -> Conforming A B (h1 :: hs) ->
  remove_empty_files o <> OBYes \/ lines_bytes (newline_output o) A <> [] ->
  (Z.of_nat (length B) < MAXZ)%Z ->
  tail_ok_n tail -> ends_here o f0 (after_n tail) = true ->
  fault w = None -> lookup (fs w) [] = None ->
  lookup (fs w) fname = Some (Reg data mode) -> (mode < 4096)%N -> owner_r mode = true -> owner_w mode = true ->
  split_lines data = B ->
  exists w',
    process_patch o (join_lines (fl ++ [bs "Index: " ++ ixname ++ tab_time ixt] ++ fl2) ++ emit_normal (h1 :: hs) ++ tail) w = (Ok (0, []), w') /\
    lookup (fs w') fname = Some (Reg (lines_bytes (newline_output o) A) mode) /\
    (forall q, q <> fname -> lookup (fs w') q = lookup (fs w) q) /\
    fault w' = None /\ umask w' = umask w.
Proof.
  intros Hplain Hrev Hfo Hf0 HF HC Hi Hic HF2 HC2 Hix Hfn Hwf Hconf HB HA Ht He Fw L0. intros.
  apply (normal_patch_reverses_gen o f0 (fl ++ [bs "Index: " ++ ixname ++ tab_time ixt] ++ fl2)
           (set_index (empty_patch f0) (stripped ixname (strip_size o))) h1 hs tail fname) with (data := data) (B := B); try assumption.
  - apply plain_options_plain_ftp. exact Hplain.
  - apply leads_index_fillers; assumption.
  - apply index_lines_clean; assumption.
  - apply p0_index_n. exact Hf0.
  - left. destruct Hplain as (O1 & _). split; [exact O1|]. split; [exact Hix|exact L0].
Qed.
Print Assumptions normal_patch_reverses_end_to_end.

Theorem normal_patch_reverses_operand o f0 fl h1 hs tail fname A B w data mode :
  plain_options_ftp o -> file_to_patch o = fname -> reverse_patch_opt o = true ->
  format_from_options o = Ok f0 -> f0 = FUnknown \/ f0 = FNormal ->
  Forall (Filler (strip_size o) (empty_patch f0)) fl -> Forall clean fl ->
  fname <> [] /\ ~ In 47%N fname ->
  Forall wf_hunk_n (h1 :: hs) -> Conforming A B (h1 :: hs) ->
  remove_empty_files o <> OBYes \/ lines_bytes (newline_output o) A <> [] ->
  (Z.of_nat (length B) < MAXZ)%Z ->
  tail_ok_n tail -> ends_here o f0 (after_n tail) = true ->
  fault w = None -> lookup (fs w) fname = Some (Reg data mode) -> (mode < 4096)%N -> owner_r mode = true -> owner_w mode = true ->
  split_lines data = B ->
  exists w',
    process_patch o (join_lines fl ++ emit_normal (h1 :: hs) ++ tail) w = (Ok (0, []), w') /\
    lookup (fs w') fname = Some (Reg (lines_bytes (newline_output o) A) mode) /\
    (forall q, q <> fname -> lookup (fs w') q = lookup (fs w) q) /\
    fault w' = None /\ umask w' = umask w.
Proof.
  intros Hopt Hop Hrev Hfo Hf0 HF HC. intros.
  apply (normal_patch_reverses_gen o f0 fl (empty_patch f0) h1 hs tail fname) with (data := data) (B := B); try assumption.
  - apply leads_fillers. exact HF.
  - apply p0_empty_n. exact Hf0.
  - right. exact Hop.
Qed.
Print Assumptions normal_patch_reverses_operand.

(* ---------- the whole program (run_patch), the patch on standard input ---------- *)
Theorem run_patch_context_end_to_end o f0 fl oldname t1 newname t2 h1 hs tail fname A B w data mode :
  (patch_file_path o = [] \/ patch_file_path o = bs "-") ->
  plain_options o -> reverse_patch_opt o = false ->
  format_from_options o = Ok f0 -> f0 = FUnknown \/ f0 = FContext ->
  Forall (Filler (strip_size o) (empty_patch f0)) fl -> Forall clean fl ->
  plain_name oldname -> plain_name newname -> clean (oldname ++ tab_time t1) -> clean (newname ++ tab_time t2) ->
  stripped oldname (strip_size o) = fname -> stripped newname (strip_size o) = fname ->
  fname <> [] /\ ~ In 47%N fname ->
  Forall wf_hunk_c (h1 :: hs) -> Conforming A B (h1 :: hs) ->
  remove_empty_files o <> OBYes \/ lines_bytes (newline_output o) B <> [] ->
  (Z.of_nat (length A) < MAXZ)%Z ->
  tail_ok_c tail -> (tail <> [] -> ends_here o f0 (stream_of tail) = true) ->
  fault w = None -> lookup (fs w) fname = Some (Reg data mode) -> (mode < 4096)%N -> owner_r mode = true -> owner_w mode = true ->
  split_lines data = A ->
  exists w',
    run_patch o (join_lines (fl ++ [bs "*** " ++ oldname ++ tab_time t1; bs "--- " ++ newname ++ tab_time t2]) ++
                 emit_c (h1 :: hs) ++ tail) w = mkRR 0 [] w' /\
    lookup (fs w') fname = Some (Reg (lines_bytes (newline_output o) B) mode) /\
    (forall q, q <> fname -> lookup (fs w') q = lookup (fs w) q).
Proof.
  intros Hin. intros.
  destruct (context_patch_applies_end_to_end o f0 fl oldname t1 newname t2 h1 hs tail fname A B w data mode) as (w' & E & L1 & L2 & _);
    try assumption.
  exists w'. split; [apply run_patch_stdin; assumption|]. split; assumption.
Qed.
Print Assumptions run_patch_context_end_to_end.

Theorem run_patch_normal_end_to_end o f0 fl ixname ixt fl2 h1 hs tail fname A B w data mode :
  (patch_file_path o = [] \/ patch_file_path o = bs "-") ->
  plain_options o -> reverse_patch_opt o = false ->
  format_from_options o = Ok f0 -> f0 = FUnknown \/ f0 = FNormal ->
  Forall (Filler (strip_size o) (empty_patch f0)) fl -> Forall clean fl ->
  plain_name ixname -> clean (ixname ++ tab_time ixt) ->
  Forall (Filler (strip_size o) (set_index (empty_patch f0) (stripped ixname (strip_size o)))) fl2 -> Forall clean fl2 ->
  stripped ixname (strip_size o) = fname ->
  fname <> [] /\ ~ In 47%N fname ->
  Forall wf_hunk_n (h1 :: hs) -> Conforming A B (h1 :: hs) ->
  remove_empty_files o <> OBYes \/ lines_bytes (newline_output o) B <> [] ->
  (Z.of_nat (length A) < MAXZ)%Z ->
  tail_ok_n tail -> ends_here o f0 (after_n tail) = true ->
  fault w = None -> lookup (fs w) [] = None ->
  lookup (fs w) fname = Some (Reg data mode) -> (mode < 4096)%N -> owner_r mode = true -> owner_w mode = true ->
  split_lines data = A ->
  exists w',
    run_patch o (join_lines (fl ++ [bs "Index: " ++ ixname ++ tab_time ixt] ++ fl2) ++ emit_normal (h1 :: hs) ++ tail) w = mkRR 0 [] w' /\
    lookup (fs w') fname = Some (Reg (lines_bytes (newline_output o) B) mode) /\
    (forall q, q <> fname -> lookup (fs w') q = lookup (fs w) q).
Proof.
  intros Hin. intros.
  destruct (normal_patch_applies_end_to_end o f0 fl ixname ixt fl2 h1 hs tail fname A B w data mode) as (w' & E & L1 & L2 & _);
    try assumption.
  exists w'. split; [apply run_patch_stdin; assumption|]. split; assumption.
Qed.
Print Assumptions run_patch_normal_end_to_end.

Theorem run_patch_normal_operand o f0 fl h1 hs tail fname A B w data mode :
  (patch_file_path o = [] \/ patch_file_path o = bs "-") ->
  plain_options_ftp o -> file_to_patch o = fname -> reverse_patch_opt o = false ->
  format_from_options o = Ok f0 -> f0 = FUnknown \/ f0 = FNormal ->
  Forall (Filler (strip_size o) (empty_patch f0)) fl -> Forall clean fl ->
  fname <> [] /\ ~ In 47%N fname ->
  Forall wf_hunk_n (h1 :: hs) -> Conforming A B (h1 :: hs) ->
  remove_empty_files o <> OBYes \/ lines_bytes (newline_output o) B <> [] ->
  (Z.of_nat (length A) < MAXZ)%Z ->
  tail_ok_n tail -> ends_here o f0 (after_n tail) = true ->
  fault w = None -> lookup (fs w) fname = Some (Reg data mode) -> (mode < 4096)%N -> owner_r mode = true -> owner_w mode = true ->
  split_lines data = A ->
  exists w',
    run_patch o (join_lines fl ++ emit_normal (h1 :: hs) ++ tail) w = mkRR 0 [] w' /\
    lookup (fs w') fname = Some (Reg (lines_bytes (newline_output o) B) mode) /\
    (forall q, q <> fname -> lookup (fs w') q = lookup (fs w) q).
Proof.
  intros Hin. intros.
  destruct (normal_patch_applies_operand o f0 fl h1 hs tail fname A B w data mode) as (w' & E & L1 & L2 & _);
    try assumption.
  exists w'. split; [apply run_patch_stdin; assumption|]. split; assumption.
Qed.
Print Assumptions run_patch_normal_operand.

(* ================================================================================================================
   (4) non-vacuity
   ================================================================================================================ *)
Local Open Scope string_scope.

(* ---------- the output of "diff -c a/f b/f" for the files of Proofs_Whole (twelve lines; line 2 and line 11 change, a line is
   added, the last line loses its newline), mailed with a signature after it, given to patch -p1 ---------- *)
Definition exc_sig : list N := bs "That is all." ++ nlb ++ bs "-- " ++ nlb ++ bs "someone" ++ nlb.
Definition exc_text : list N :=
  bs "diff -c a/f b/f" ++ nlb ++
  bs "*** a/f" ++ tabb ++ bs "2024-03-01 10:00:00.000000000 +0100" ++ nlb ++
  bs "--- b/f" ++ tabb ++ bs "2024-03-02 11:30:00.000000000 +0100" ++ nlb ++
  bs "***************" ++ nlb ++
  bs "*** 1,5 ****" ++ nlb ++
  bs "  a" ++ nlb ++ bs "! b" ++ nlb ++ bs "  c" ++ nlb ++ bs "  d" ++ nlb ++ bs "  e" ++ nlb ++
  bs "--- 1,5 ----" ++ nlb ++
  bs "  a" ++ nlb ++ bs "! B" ++ nlb ++ bs "  c" ++ nlb ++ bs "  d" ++ nlb ++ bs "  e" ++ nlb ++
  bs "***************" ++ nlb ++
  bs "*** 8,12 ****" ++ nlb ++
  bs "  h" ++ nlb ++ bs "  i" ++ nlb ++ bs "  j" ++ nlb ++ bs "! k" ++ nlb ++ bs "! l" ++ nlb ++
  bs "--- 8,13 ----" ++ nlb ++
  bs "  h" ++ nlb ++ bs "  i" ++ nlb ++ bs "  j" ++ nlb ++ bs "! K" ++ nlb ++ bs "! k2" ++ nlb ++ bs "! l" ++ nlb ++
  bs "\ No newline at end of file" ++ nlb ++
  exc_sig.

Lemma exc_text_eq :
  exc_text = join_lines ([bs "diff -c a/f b/f"] ++
                         [bs "*** " ++ bs "a/f" ++ tab_time (Some (bs "2024-03-01 10:00:00.000000000 +0100"));
                          bs "--- " ++ bs "b/f" ++ tab_time (Some (bs "2024-03-02 11:30:00.000000000 +0100"))]) ++
             emit_c [ex_hunk1; ex_hunk2] ++ exc_sig.
Proof. vm_compute. reflexivity. Qed.

(* the hunks the reader hands to the applier are not the hunks of the unified form: the second one is regrouped *)
Example exc_normalised : map norm_hunk [ex_hunk1; ex_hunk2] <> [ex_hunk1; ex_hunk2].
Proof. vm_compute. discriminate. Qed.

Example context_patch_applies_nonvacuous :
  exists w',
    process_patch ex_p1 exc_text ex_world = (Ok (0, []), w') /\
    lookup (fs w') (bs "f") = Some (Reg ex_dataB 420) /\
    (forall q, q <> bs "f" -> lookup (fs w') q = lookup (fs ex_world) q) /\
    fault w' = None /\ umask w' = umask ex_world.
Proof.
  assert (EB : ex_dataB = lines_bytes (newline_output ex_p1) ex_B) by (vm_compute; reflexivity).
  rewrite exc_text_eq, EB.
  apply (context_patch_applies_end_to_end ex_p1 FUnknown [bs "diff -c a/f b/f"] (bs "a/f") _ (bs "b/f") _ ex_hunk1 [ex_hunk2] exc_sig (bs "f")
                                          ex_A ex_B ex_world ex_dataA 420).
  - repeat split; try reflexivity. vm_compute. discriminate.
  - reflexivity.
  - reflexivity.
  - left. reflexivity.
  - repeat constructor; vm_compute; reflexivity.
  - repeat constructor; vm_compute; intuition discriminate.
  - repeat split; vm_compute; intuition discriminate.
  - repeat split; vm_compute; intuition discriminate.
  - split; vm_compute; intuition discriminate.
  - split; vm_compute; intuition discriminate.
  - vm_compute. reflexivity.
  - vm_compute. reflexivity.
  - split; vm_compute; intuition discriminate.
  - constructor; [apply wf_hunk_cb_ok; vm_compute; reflexivity|constructor; [apply wf_hunk_cb_ok; vm_compute; reflexivity|constructor]].
  - exact ex_conf.
  - left. discriminate.
  - vm_compute. reflexivity.
  - apply tail_ok_cb_ok. vm_compute. reflexivity.
  - intros _. vm_compute. reflexivity.
  - reflexivity.
  - reflexivity.
  - reflexivity.
  - reflexivity.
  - reflexivity.
  - vm_compute. reflexivity.
Qed.

(* the whole program on the same data, by computation: same result; three operations, no reject file, no backup *)
Example run_patch_context_same :
  let r := run_patch ex_p1 exc_text ex_world in
  rr_exit r = 0 /\ rr_events r = [] /\ rr_world r = snd (process_patch ex_p1 exc_text ex_world) /\
  fs (rr_world r) = [(bs "f", Reg ex_dataB 420); (bs "g", Reg (bs "other" ++ nlb) 384); (bs "sub", Dir 493); (bs "sub/f", Reg ex_dataA 420)] /\
  trace (rr_world r) = [OOpenRead (bs "f"); OWrite (bs "f") ex_dataB; OChmod (bs "f") 420].
Proof. vm_compute. repeat split; reflexivity. Qed.

(* patch -R -p1 with the same patch on the tree that holds the new version *)
Definition ex_p1R : options :=
  mkOptions false false [] [] false [] false false false [] 1%Z 2%Z true [] []
            false false false false false false false false OBUnset OBUnset MNative RFDefault ROWarn QSUnset [] [].
Definition ex_worldB : world :=
  mkWorld [(bs "g", Reg (bs "other" ++ nlb) 384); (bs "f", Reg ex_dataB 420); (bs "sub", Dir 493); (bs "sub/f", Reg ex_dataA 420)] 18 [] None [].

Example context_patch_reverses_nonvacuous :
  exists w',
    process_patch ex_p1R exc_text ex_worldB = (Ok (0, []), w') /\
    lookup (fs w') (bs "f") = Some (Reg ex_dataA 420) /\
    (forall q, q <> bs "f" -> lookup (fs w') q = lookup (fs ex_worldB) q) /\
    fault w' = None /\ umask w' = umask ex_worldB.
Proof.
  assert (EA : ex_dataA = lines_bytes (newline_output ex_p1R) ex_A) by (vm_compute; reflexivity).
  rewrite exc_text_eq, EA.
  apply (context_patch_reverses_end_to_end ex_p1R FUnknown [bs "diff -c a/f b/f"] (bs "a/f") _ (bs "b/f") _ ex_hunk1 [ex_hunk2] exc_sig (bs "f")
                                           ex_A ex_B ex_worldB ex_dataB 420).
  - repeat split; try reflexivity. vm_compute. discriminate.
  - reflexivity.
  - reflexivity.
  - left. reflexivity.
  - repeat constructor; vm_compute; reflexivity.
  - repeat constructor; vm_compute; intuition discriminate.
  - repeat split; vm_compute; intuition discriminate.
  - repeat split; vm_compute; intuition discriminate.
  - split; vm_compute; intuition discriminate.
  - split; vm_compute; intuition discriminate.
  - vm_compute. reflexivity.
  - vm_compute. reflexivity.
  - split; vm_compute; intuition discriminate.
  - constructor; [apply wf_hunk_cb_ok; vm_compute; reflexivity|constructor; [apply wf_hunk_cb_ok; vm_compute; reflexivity|constructor]].
  - exact ex_conf.
  - left. discriminate.
  - vm_compute. reflexivity.
  - apply tail_ok_cb_ok. vm_compute. reflexivity.
  - intros _. vm_compute. reflexivity.
  - reflexivity.
  - reflexivity.
  - reflexivity.
  - reflexivity.
  - reflexivity.
  - vm_compute. reflexivity.
Qed.

Example run_patch_context_reverse_same :
  let r := run_patch ex_p1R exc_text ex_worldB in
  rr_exit r = 0 /\ rr_events r = [] /\
  fs (rr_world r) = [(bs "f", Reg ex_dataA 420); (bs "g", Reg (bs "other" ++ nlb) 384); (bs "sub", Dir 493); (bs "sub/f", Reg ex_dataA 420)].
Proof. vm_compute. repeat split; reflexivity. Qed.

(* ---------- the output of "diff a/f b/f" for the same two files, after an "Index: f" line, an empty line and text after it,
   given to patch -p0 ---------- *)
Definition exn2_sc : list seg :=
  [mkSeg [exl "a"] [exl "b"] [exl "B"];
   mkSeg (map exl ["c"; "d"; "e"; "f"; "g"; "h"; "i"; "j"]) [exl "k"; exl "l"] [exl "K"; exl "k2"; mkLine (bs "l") NoNL]].
Definition exn2_h1 : hunk := mk_change 2 2 [exl "b"] [exl "B"].
Definition exn2_h2 : hunk := mk_change 11 11 [exl "k"; exl "l"] [exl "K"; exl "k2"; mkLine (bs "l") NoNL].
(* what follows starts with an empty line: the reader of the normal diff consumes it *)
Definition exn2_tail : list N := nlb ++ exc_sig.
Definition exn2_body : list N :=
  bs "2c2" ++ nlb ++ bs "< b" ++ nlb ++ bs "---" ++ nlb ++ bs "> B" ++ nlb ++
  bs "11,12c11,13" ++ nlb ++ bs "< k" ++ nlb ++ bs "< l" ++ nlb ++ bs "---" ++ nlb ++
  bs "> K" ++ nlb ++ bs "> k2" ++ nlb ++ bs "> l" ++ nlb ++ bs "\ No newline at end of file" ++ nlb.
Definition exn2_text : list N := bs "Index: f" ++ nlb ++ bs "diff a/f b/f" ++ nlb ++ exn2_body ++ exn2_tail.
Definition ex_p0 : options := with_strip 0.

Lemma exn2_script : script_hunks 0 0 exn2_sc = [exn2_h1; exn2_h2] /\ script_old exn2_sc [] = ex_A /\ script_new exn2_sc [] = ex_B.
Proof. repeat split; reflexivity. Qed.

Lemma exn2_conf : Conforming ex_A ex_B [exn2_h1; exn2_h2].
Proof.
  destruct exn2_script as (E1 & E2 & E3). rewrite <- E1, <- E2, <- E3. apply script_conf.
  repeat constructor; vm_compute; intuition discriminate.
Qed.

Lemma exn2_wf : Forall wf_hunk_n [exn2_h1; exn2_h2].
Proof.
  destruct exn2_script as (E1 & E2 & E3). rewrite <- E1. apply (script_wf exn2_sc 0 0 []).
  - repeat constructor; vm_compute; intuition discriminate.
  - rewrite E2. vm_compute. intuition discriminate.
  - rewrite E3. vm_compute. intuition discriminate.
  - vm_compute. discriminate.
  - vm_compute. discriminate.
Qed.

Lemma exn2_text_eq :
  exn2_text = join_lines ([] ++ [bs "Index: " ++ bs "f" ++ tab_time None] ++ [bs "diff a/f b/f"]) ++ emit_normal [exn2_h1; exn2_h2] ++ exn2_tail.
Proof. vm_compute. reflexivity. Qed.

Example exn2_empty_line_consumed : after_n exn2_tail = strm exc_sig.
Proof. reflexivity. Qed.

Example normal_patch_applies_nonvacuous :
  exists w',
    process_patch ex_p0 exn2_text ex_world = (Ok (0, []), w') /\
    lookup (fs w') (bs "f") = Some (Reg ex_dataB 420) /\
    (forall q, q <> bs "f" -> lookup (fs w') q = lookup (fs ex_world) q) /\
    fault w' = None /\ umask w' = umask ex_world.
Proof.
  assert (EB : ex_dataB = lines_bytes (newline_output ex_p0) ex_B) by (vm_compute; reflexivity).
  rewrite exn2_text_eq, EB.
  apply (normal_patch_applies_end_to_end ex_p0 FUnknown [] (bs "f") None [bs "diff a/f b/f"] exn2_h1 [exn2_h2] exn2_tail (bs "f")
                                         ex_A ex_B ex_world ex_dataA 420).
  - repeat split; try reflexivity. vm_compute. discriminate.
  - reflexivity.
  - reflexivity.
  - left. reflexivity.
  - constructor.
  - constructor.
  - repeat split; vm_compute; intuition discriminate.
  - split; vm_compute; intuition discriminate.
  - repeat constructor; vm_compute; reflexivity.
  - repeat constructor; vm_compute; intuition discriminate.
  - vm_compute. reflexivity.
  - split; vm_compute; intuition discriminate.
  - exact exn2_wf.
  - exact exn2_conf.
  - left. discriminate.
  - vm_compute. reflexivity.
  - apply (tail_ok_n_line [] exc_sig); [split; [intros []|discriminate]|reflexivity|reflexivity|left; reflexivity].
  - vm_compute. reflexivity.
  - reflexivity.
  - reflexivity.
  - reflexivity.
  - reflexivity.
  - reflexivity.
  - reflexivity.
  - vm_compute. reflexivity.
Qed.

Example run_patch_normal_same :
  let r := run_patch ex_p0 exn2_text ex_world in
  rr_exit r = 0 /\ rr_events r = [] /\ rr_world r = snd (process_patch ex_p0 exn2_text ex_world) /\
  fs (rr_world r) = [(bs "f", Reg ex_dataB 420); (bs "g", Reg (bs "other" ++ nlb) 384); (bs "sub", Dir 493); (bs "sub/f", Reg ex_dataA 420)] /\
  trace (rr_world r) = [OOpenRead (bs "f"); OWrite (bs "f") ex_dataB; OChmod (bs "f") 420].
Proof. vm_compute. repeat split; reflexivity. Qed.

(* why the world must not hold an entry with the empty name: the scan clears both names of a normal diff, and guess_filepath
   asks whether "" exists before it comes to the Index name; in such a (model-only) world the run goes for "" and fails *)
Definition ex_world_bad : world :=
  mkWorld [([], Reg (bs "x" ++ nlb) 420); (bs "f", Reg ex_dataA 420)] 18 [] None [].
Example normal_index_needs_no_empty_name : rr_exit (run_patch ex_p0 exn2_text ex_world_bad) = 2.
Proof. vm_compute. reflexivity. Qed.

(* ---------- "patch f < diff": the same diff without the Index line, the file given as the operand ---------- *)
Definition exo2_o : options :=
  mkOptions false false [] [] false [] false false false [] (-1) 2 false (bs "f") [] false false false false false false false false
            OBUnset OBUnset MNative RFDefault ROWarn QSUnset [] [].
Definition exo2_text : list N := bs "diff a/f b/f" ++ nlb ++ exn2_body.

Example normal_patch_operand_nonvacuous :
  exists w',
    process_patch exo2_o exo2_text ex_world = (Ok (0, []), w') /\
    lookup (fs w') (bs "f") = Some (Reg ex_dataB 420) /\
    (forall q, q <> bs "f" -> lookup (fs w') q = lookup (fs ex_world) q) /\
    fault w' = None /\ umask w' = umask ex_world.
Proof.
  assert (E : exo2_text = join_lines [bs "diff a/f b/f"] ++ emit_normal [exn2_h1; exn2_h2] ++ []) by (vm_compute; reflexivity).
  assert (EB : ex_dataB = lines_bytes (newline_output exo2_o) ex_B) by (vm_compute; reflexivity).
  rewrite E, EB.
  apply (normal_patch_applies_operand exo2_o FUnknown [bs "diff a/f b/f"] exn2_h1 [exn2_h2] [] (bs "f") ex_A ex_B ex_world ex_dataA 420).
  - repeat split; try reflexivity. vm_compute. discriminate.
  - reflexivity.
  - reflexivity.
  - reflexivity.
  - left. reflexivity.
  - repeat constructor; vm_compute; reflexivity.
  - repeat constructor; vm_compute; intuition discriminate.
  - split; vm_compute; intuition discriminate.
  - exact exn2_wf.
  - exact exn2_conf.
  - left. discriminate.
  - vm_compute. reflexivity.
  - exact tail_ok_n_nil.
  - reflexivity.
  - reflexivity.
  - reflexivity.
  - reflexivity.
  - reflexivity.
  - reflexivity.
  - vm_compute. reflexivity.
Qed.

Example run_patch_operand_same :
  let r := run_patch exo2_o exo2_text ex_world in
  rr_exit r = 0 /\ rr_events r = [] /\
  fs (rr_world r) = [(bs "f", Reg ex_dataB 420); (bs "g", Reg (bs "other" ++ nlb) 384); (bs "sub", Dir 493); (bs "sub/f", Reg ex_dataA 420)].
Proof. vm_compute. repeat split; reflexivity. Qed.

(* ---------- patch -R -p0 with the Index-named normal diff on the tree that holds the new version ---------- *)
Definition ex_p0R : options :=
  mkOptions false false [] [] false [] false false false [] 0%Z 2%Z true [] []
            false false false false false false false false OBUnset OBUnset MNative RFDefault ROWarn QSUnset [] [].

Example normal_patch_reverses_nonvacuous :
  exists w',
    process_patch ex_p0R exn2_text ex_worldB = (Ok (0, []), w') /\
    lookup (fs w') (bs "f") = Some (Reg ex_dataA 420) /\
    (forall q, q <> bs "f" -> lookup (fs w') q = lookup (fs ex_worldB) q) /\
    fault w' = None /\ umask w' = umask ex_worldB.
Proof.
  assert (EA : ex_dataA = lines_bytes (newline_output ex_p0R) ex_A) by (vm_compute; reflexivity).
  rewrite exn2_text_eq, EA.
  apply (normal_patch_reverses_end_to_end ex_p0R FUnknown [] (bs "f") None [bs "diff a/f b/f"] exn2_h1 [exn2_h2] exn2_tail (bs "f")
                                          ex_A ex_B ex_worldB ex_dataB 420).
  - repeat split; try reflexivity. vm_compute. discriminate.
  - reflexivity.
  - reflexivity.
  - left. reflexivity.
  - constructor.
  - constructor.
  - repeat split; vm_compute; intuition discriminate.
  - split; vm_compute; intuition discriminate.
  - repeat constructor; vm_compute; reflexivity.
  - repeat constructor; vm_compute; intuition discriminate.
  - vm_compute. reflexivity.
  - split; vm_compute; intuition discriminate.
  - exact exn2_wf.
  - exact exn2_conf.
  - left. discriminate.
  - vm_compute. reflexivity.
  - apply (tail_ok_n_line [] exc_sig); [split; [intros []|discriminate]|reflexivity|reflexivity|left; reflexivity].
  - vm_compute. reflexivity.
  - reflexivity.
  - reflexivity.
  - reflexivity.
  - reflexivity.
  - reflexivity.
  - reflexivity.
  - vm_compute. reflexivity.
Qed.

Example run_patch_normal_reverse_same :
  let r := run_patch ex_p0R exn2_text ex_worldB in
  rr_exit r = 0 /\ rr_events r = [] /\
  fs (rr_world r) = [(bs "f", Reg ex_dataA 420); (bs "g", Reg (bs "other" ++ nlb) 384); (bs "sub", Dir 493); (bs "sub/f", Reg ex_dataA 420)].
Proof. vm_compute. repeat split; reflexivity. Qed.

(* ---------- a first range that starts at 0: the record says Add (or Delete), the run is the same ---------- *)
(* "0a1": a line put in front of the first one; forward on A, with -R on B *)
Definition ex0_h : hunk := mk_change 0 1 [] [exl "n"].
Definition ex0_text : list N := bs "Index: f" ++ nlb ++ bs "0a1" ++ nlb ++ bs "> n" ++ nlb.
Definition ex0_dataA : list N := bs "x" ++ nlb ++ bs "y" ++ nlb.
Definition ex0_dataB : list N := bs "n" ++ nlb ++ bs "x" ++ nlb ++ bs "y" ++ nlb.
Definition ex0_wA : world := mkWorld [(bs "f", Reg ex0_dataA 420); (bs "g", Reg (bs "other" ++ nlb) 384)] 18 [] None [].
Definition ex0_wB : world := mkWorld [(bs "f", Reg ex0_dataB 420); (bs "g", Reg (bs "other" ++ nlb) 384)] 18 [] None [].

Lemma ex0_conf : Conforming [exl "x"; exl "y"] [exl "n"; exl "x"; exl "y"] [ex0_h].
Proof. apply (Conf_cons 0 0 [] ex0_h [] [exl "x"; exl "y"] [exl "x"; exl "y"]); try reflexivity; [discriminate|constructor]. Qed.

Lemma ex0_wf : Forall wf_hunk_n [ex0_h].
Proof.
  constructor; [|constructor]. apply wf_mk_change.
  - right. discriminate.
  - exact I.
  - vm_compute. intuition discriminate.
  - vm_compute. intuition discriminate.
  - vm_compute. intuition discriminate.
Qed.

Example normal_top_insertion_reverses :
  exists w',
    process_patch ex_p0R ex0_text ex0_wB = (Ok (0, []), w') /\
    lookup (fs w') (bs "f") = Some (Reg ex0_dataA 420) /\
    (forall q, q <> bs "f" -> lookup (fs w') q = lookup (fs ex0_wB) q) /\
    fault w' = None /\ umask w' = umask ex0_wB.
Proof.
  assert (E : ex0_text = join_lines ([] ++ [bs "Index: " ++ bs "f" ++ tab_time None] ++ []) ++ emit_normal [ex0_h] ++ []) by (vm_compute; reflexivity).
  assert (EA : ex0_dataA = lines_bytes (newline_output ex_p0R) [exl "x"; exl "y"]) by (vm_compute; reflexivity).
  rewrite E, EA.
  apply (normal_patch_reverses_end_to_end ex_p0R FUnknown [] (bs "f") None [] ex0_h [] [] (bs "f")
                                          [exl "x"; exl "y"] [exl "n"; exl "x"; exl "y"] ex0_wB ex0_dataB 420).
  - repeat split; try reflexivity. vm_compute. discriminate.
  - reflexivity.
  - reflexivity.
  - left. reflexivity.
  - constructor.
  - constructor.
  - repeat split; vm_compute; intuition discriminate.
  - split; vm_compute; intuition discriminate.
  - constructor.
  - constructor.
  - vm_compute. reflexivity.
  - split; vm_compute; intuition discriminate.
  - exact ex0_wf.
  - exact ex0_conf.
  - left. discriminate.
  - vm_compute. reflexivity.
  - exact tail_ok_n_nil.
  - reflexivity.
  - reflexivity.
  - reflexivity.
  - reflexivity.
  - reflexivity.
  - reflexivity.
  - reflexivity.
  - vm_compute. reflexivity.
Qed.

Example normal_top_insertion_both_ways_computed :
  fs (rr_world (run_patch ex_p0 ex0_text ex0_wA)) = [(bs "f", Reg ex0_dataB 420); (bs "g", Reg (bs "other" ++ nlb) 384)] /\
  rr_exit (run_patch ex_p0 ex0_text ex0_wA) = 0 /\
  fs (rr_world (run_patch ex_p0R ex0_text ex0_wB)) = [(bs "f", Reg ex0_dataA 420); (bs "g", Reg (bs "other" ++ nlb) 384)] /\
  rr_exit (run_patch ex_p0R ex0_text ex0_wB) = 0.
Proof. vm_compute. repeat split; reflexivity. Qed.
