(* Spec_Locate.v — specification vocabulary for C02 / C03.  Does not mention the model (Locator.v).
   Short enough to read in minutes. *)
From PatchV Require Import Base Lines Hunk.

(* -l : drop trailing blanks, collapse every maximal run of spaces/tabs into one blank. *)
Fixpoint norm_ws (s : list N) : list N :=
  match s with
  | [] => []
  | c :: r =>
      let t := norm_ws r in
      if is_whitespace c then
        match t with
        | [] => []                                   (* trailing blanks vanish *)
        | d :: _ => if N.eqb d 32 then t else 32%N :: t   (* a run becomes one blank *)
        end
      else c :: t
  end.

(* when does a file line count as equal to a patch line *)
Definition lmatch (ws : bool) (c p : line) : Prop :=
  if ws then norm_ws (txt c) = norm_ws (txt p) else c = p.

Definition line_eqb (a b : line) : bool := str_eqb (txt a) (txt b) && newline_eqb (nl a) (nl b).
Definition lmatchb (ws : bool) (c p : line) : bool :=
  if ws then str_eqb (norm_ws (txt c)) (norm_ws (txt p)) else line_eqb c p.

(* the context a hunk carries *)
Fixpoint lead_ctx (b : list pline) : nat :=
  match b with
  | p :: r => match pop p with Ctx => S (lead_ctx r) | _ => O end
  | [] => O
  end.
Definition trail_ctx (b : list pline) : nat := lead_ctx (rev b).
Definition ctx_of (b : list pline) : nat := Nat.max (lead_ctx b) (trail_ctx b).

(* With fuzz fz the outermost fz lines of the *larger* context are ignored; of the smaller one, what
   is left of fz after the difference. *)
Definition pfz (b : list pline) (fz : nat) : nat := fz - (ctx_of b - lead_ctx b).
Definition sfz (b : list pline) (fz : nat) : nat := fz - (ctx_of b - trail_ctx b).

Definition middle {A} (pf sf : nat) (l : list A) : list A := firstn (length l - pf - sf) (skipn pf l).

(* Placing hunk body b at 0-based line pos of file f with fuzz fz is admissible, given that lines
   before lo are already consumed:
     - not before the cursor;
     - the fuzz does not exceed the context the hunk carries, and leaves at least one hunk line;
     - the ignored lines are the pfz first and sfz last lines of the body (all pure context, see
       ignored_lines_are_context); every old-side line of the rest has a file line under it that
       matches it. *)
Definition Admissible (ws : bool) (f : list line) (b : list pline) (lo pos fz : nat) : Prop :=
  lo <= pos /\
  fz <= ctx_of b /\
  pfz b fz + sfz b fz < length b /\
  let mid := old_side (middle (pfz b fz) (sfz b fz) b) in
  Forall2 (lmatch ws) (firstn (length mid) (skipn (pos + pfz b fz) f)) mid.

Fixpoint forall2b {A B} (t : A -> B -> bool) (l : list A) (m : list B) : bool :=
  match l, m with
  | [], [] => true
  | x :: l', y :: m' => t x y && forall2b t l' m'
  | _, _ => false
  end.

Definition admissibleb (ws : bool) (f : list line) (b : list pline) (lo pos fz : nat) : bool :=
  Nat.leb lo pos && Nat.leb fz (ctx_of b) && Nat.ltb (pfz b fz + sfz b fz) (length b) &&
  let mid := old_side (middle (pfz b fz) (sfz b fz) b) in
  forall2b (lmatchb ws) (firstn (length mid) (skipn (pos + pfz b fz) f)) mid.

(* where a hunk says it belongs (0-based), given the drift accumulated by earlier hunks; an empty old
   side states the line *before*; int64 saturating arithmetic, as line numbers up to 2^63-1 are accepted *)
Definition stated_pos (h : hunk) (offset : Z) : Z :=
  sadd (ssub (if Z.eqb (rcount (oldr h)) 0 then sadd (rstart (oldr h)) 1 else rstart (oldr h)) 1) offset.
