(* Properties_C05.v — C05 (hunk level): reverse application is the inverse of application. *)
From PatchV Require Import Base Lines Hunk Locator Formatter Options Applier LineParser Parser World Driver
     Spec_Locate Spec_Apply Proofs_Conf Proofs_Reverse.

Theorem reverse_hunk_involutive : forall h, reverse_hunk (reverse_hunk h) = h.
Proof. exact Proofs_Conf.reverse_hunk_involutive. Qed.
Print Assumptions reverse_hunk_involutive.

(* the reverse of a conforming diff of A to B is a conforming diff of B to A *)
Theorem conforming_reverse : forall hs a b A B, Conf a b A B hs -> Conf b a B A (map reverse_hunk hs).
Proof. exact Proofs_Conf.conforming_reverse. Qed.
Print Assumptions conforming_reverse.

(* applying a diff of A to B with -R to B yields exactly A, nothing rejected, no message *)
Theorem apply_reverse : forall o p A B,
  define_macro o = [] -> verbose o = false -> reverse_patch_opt o = true -> (0 <= max_fuzz o)%Z ->
  Conforming A B (hunks p) -> (Z.of_nat (length B) < MAXZ)%Z ->
  creation_guard (reverse_patch p) B ->
  exists r, apply_patch o B p = Ok r /\ r_out r = A /\ r_failed r = 0 /\ r_rej r = [] /\
            r_skipped r = false /\ r_perfect r = true /\ r_msgs r = [].
Proof. exact Proofs_Conf.apply_reverse. Qed.
Print Assumptions apply_reverse.

Local Open Scope string_scope.
Definition ex_l (s : String.string) := mkLine (bs s) LF.
Definition ex_h := mkHunk (mkRange 1 2) (mkRange 1 3)
  [mkPL Ctx (ex_l "a"); mkPL Del (ex_l "b"); mkPL Add (ex_l "B"); mkPL Add (ex_l "c")].
Example reverse_nonvacuous :
  let A := [ex_l "a"; ex_l "b"] in let B := [ex_l "a"; ex_l "B"; ex_l "c"] in
  let p := mkPatch FUnified OpChange [] [] (bs "f") (bs "f") [] [] 0 0 [ex_h] in
  Conforming A B [ex_h] /\
  match apply_patch (mkOptions false false [] [] false [] false false false [] (-1) 2 true [] [] false false false false false false false false OBUnset OBUnset MNative RFDefault ROWarn QSUnset [] []) B p
  with Ok r => r_out r = A | Throw _ => False end.
Proof.
  cbv zeta. split.
  - unfold Conforming. apply (Conf_cons 0 0 [] ex_h [] [] []); try reflexivity; [discriminate|constructor].
  - vm_compute. reflexivity.
Qed.

(* ---------------------------------------------------------------------------------------------------------------
   C05 over the driver model (process_section, and the finalisation of deferred git writes): -R restores the old version,
   exchanges creation and deletion, moves a renamed file back.  Proofs in Proofs_Reverse.v. *)

(* the forward direction in the same shape (Proofs_EndToEnd.section_writes_new_version with the hypotheses on the format,
   the emptiness of the result and the write bits weakened) *)
Theorem section_forward_writes : forall o p f A B st s w data mode,
  plain_options o -> reverse_patch_opt o = false ->
  pfmt p <> FGit -> poper p = OpChange -> prereq p = [] -> old_path p = f -> new_path p = f -> new_mode p = 0%N ->
  f <> devnull -> f <> [] -> ~ In 47%N f ->
  Conforming A B (hunks p) ->
  (remove_empty_files o <> OBYes \/ lines_bytes (newline_output o) B <> []) ->
  (Z.of_nat (length A) < MAXZ)%Z ->
  fault w = None -> deferred_writes st = [] ->
  lookup (fs w) f = Some (Reg data mode) -> (mode < 4096)%N -> owner_r mode = true -> owner_w mode = true ->
  split_lines data = A ->
  exists st' w',
    process_section o st false p s w = (Ok (st', s), w') /\
    lookup (fs w') f = Some (Reg (lines_bytes (newline_output o) B) mode) /\
    (forall q, q <> f -> lookup (fs w') q = lookup (fs w) q) /\
    same_state st st' /\ fault w' = None /\ umask w' = umask w.
Proof. exact Proofs_Reverse.section_forward_writes. Qed.
Print Assumptions section_forward_writes.

(* C05 at driver level: one section of a diff of A to B whose names are a file in the working directory, run with -R when
   that file is a regular file holding B, readable and writable, and nothing fails: the section ends with exactly A in it
   (written with the terminators --newline-output asks for), its mode unchanged, every other entry of the tree untouched,
   no failure recorded, no message, nothing deferred. *)
Theorem section_reverse_restores : forall o p f A B st s w data mode,
  plain_options o -> reverse_patch_opt o = true ->
  pfmt p <> FGit -> poper p = OpChange -> prereq p = [] -> old_path p = f -> new_path p = f -> old_mode p = 0%N ->
  f <> devnull -> f <> [] -> ~ In 47%N f ->
  Conforming A B (hunks p) ->
  (remove_empty_files o <> OBYes \/ lines_bytes (newline_output o) A <> []) ->
  (Z.of_nat (length B) < MAXZ)%Z ->
  fault w = None -> deferred_writes st = [] ->
  lookup (fs w) f = Some (Reg data mode) -> (mode < 4096)%N -> owner_r mode = true -> owner_w mode = true ->
  split_lines data = B ->
  exists st' w',
    process_section o st false p s w = (Ok (st', s), w') /\
    lookup (fs w') f = Some (Reg (lines_bytes (newline_output o) A) mode) /\
    (forall q, q <> f -> lookup (fs w') q = lookup (fs w) q) /\
    same_state st st' /\ fault w' = None /\ umask w' = umask w.
Proof. exact Proofs_Reverse.section_reverse_restores. Qed.
Print Assumptions section_reverse_restores.

(* apply, then apply the same patch with -R (a second run: its own options, its own driver state, any stream).  B must be
   what reading the file the first run wrote gives back: split_lines (lines_bytes .. B) = B. *)
Theorem section_roundtrip : forall oF oR p f A B st s st2 s2 w data mode,
  plain_options oF -> reverse_patch_opt oF = false -> plain_options oR -> reverse_patch_opt oR = true ->
  pfmt p <> FGit -> poper p = OpChange -> prereq p = [] -> old_path p = f -> new_path p = f ->
  old_mode p = 0%N -> new_mode p = 0%N ->
  f <> devnull -> f <> [] -> ~ In 47%N f ->
  Conforming A B (hunks p) ->
  (remove_empty_files oF <> OBYes \/ lines_bytes (newline_output oF) B <> []) ->
  (remove_empty_files oR <> OBYes \/ lines_bytes (newline_output oR) A <> []) ->
  (Z.of_nat (length A) < MAXZ)%Z -> (Z.of_nat (length B) < MAXZ)%Z ->
  split_lines (lines_bytes (newline_output oF) B) = B ->
  fault w = None -> deferred_writes st = [] -> deferred_writes st2 = [] ->
  lookup (fs w) f = Some (Reg data mode) -> (mode < 4096)%N -> owner_r mode = true -> owner_w mode = true ->
  split_lines data = A ->
  exists st1 w1 st3 w2,
    process_section oF st false p s w = (Ok (st1, s), w1) /\
    process_section oR st2 false p s2 w1 = (Ok (st3, s2), w2) /\
    lookup (fs w2) f = Some (Reg (lines_bytes (newline_output oR) A) mode) /\
    (forall q, q <> f -> lookup (fs w2) q = lookup (fs w) q) /\
    same_state st st1 /\ same_state st2 st3 /\ fault w2 = None /\ umask w2 = umask w.
Proof. exact Proofs_Reverse.section_roundtrip. Qed.
Print Assumptions section_roundtrip.

(* byte for byte: with the files given as bytes (A and B are the lines they are read into), and terminators that survive the
   writing (--newline-output=preserve, or any mode but crlf when neither file has a CR LF line end), the two runs leave
   in f exactly the bytes it started with *)
Theorem section_roundtrip_bytes : forall oF oR p f dataA dataB st s st2 s2 w mode,
  plain_options oF -> reverse_patch_opt oF = false -> plain_options oR -> reverse_patch_opt oR = true ->
  pfmt p <> FGit -> poper p = OpChange -> prereq p = [] -> old_path p = f -> new_path p = f ->
  old_mode p = 0%N -> new_mode p = 0%N ->
  f <> devnull -> f <> [] -> ~ In 47%N f ->
  Conforming (split_lines dataA) (split_lines dataB) (hunks p) ->
  (newline_output oF = MKeep \/ newline_output oF <> MCRLF /\ no_crlf (split_lines dataB)) ->
  (newline_output oR = MKeep \/ newline_output oR <> MCRLF /\ no_crlf (split_lines dataA)) ->
  (remove_empty_files oF <> OBYes \/ dataB <> []) ->
  (remove_empty_files oR <> OBYes \/ dataA <> []) ->
  (Z.of_nat (length (split_lines dataA)) < MAXZ)%Z -> (Z.of_nat (length (split_lines dataB)) < MAXZ)%Z ->
  fault w = None -> deferred_writes st = [] -> deferred_writes st2 = [] ->
  lookup (fs w) f = Some (Reg dataA mode) -> (mode < 4096)%N -> owner_r mode = true -> owner_w mode = true ->
  exists st1 w1 st3 w2,
    process_section oF st false p s w = (Ok (st1, s), w1) /\
    lookup (fs w1) f = Some (Reg dataB mode) /\
    process_section oR st2 false p s2 w1 = (Ok (st3, s2), w2) /\
    lookup (fs w2) f = Some (Reg dataA mode) /\
    (forall q, q <> f -> lookup (fs w2) q = lookup (fs w) q) /\
    had_failure st1 = had_failure st /\ had_failure st3 = had_failure st2 /\ fault w2 = None.
Proof. exact Proofs_Reverse.section_roundtrip_bytes. Qed.
Print Assumptions section_roundtrip_bytes.

(* a patch that creates f (old name /dev/null, operation add), f not there: the section creates it with B and the
   permissions 0666 & ~umask *)
Theorem section_creates : forall o p f B st s w,
  plain_options o -> reverse_patch_opt o = false ->
  pfmt p <> FGit -> poper p = OpAdd -> prereq p = [] -> old_path p = devnull -> new_path p = f -> new_mode p = 0%N ->
  (index_path p = devnull \/ exists_ (fs w) (index_path p) = false) ->
  f <> devnull -> f <> [] -> ~ In 47%N f ->
  Conforming [] B (hunks p) ->
  fault w = None -> deferred_writes st = [] -> lookup (fs w) f = None ->
  exists st' w',
    process_section o st false p s w = (Ok (st', s), w') /\
    fs w' = upd (fs w) f (Reg (lines_bytes (newline_output o) B) (created_mode (umask w))) /\
    lookup (fs w') f = Some (Reg (lines_bytes (newline_output o) B) (created_mode (umask w))) /\
    (forall q, q <> f -> lookup (fs w') q = lookup (fs w) q) /\
    same_state st st' /\ fault w' = None /\ umask w' = umask w.
Proof. exact Proofs_Reverse.section_creates. Qed.
Print Assumptions section_creates.

(* the same patch with -R (and --remove-empty-files in force) when f holds B: the section removes f *)
Theorem section_reverse_of_creation_removes : forall o p f B st s w data mode,
  plain_options o -> reverse_patch_opt o = true -> remove_empty_files o = OBYes ->
  poper p = OpAdd -> prereq p = [] -> old_path p = devnull -> new_path p = f ->
  f <> devnull -> f <> [] -> ~ In 47%N f ->
  Conforming [] B (hunks p) -> (Z.of_nat (length B) < MAXZ)%Z ->
  fault w = None -> deferred_writes st = [] ->
  lookup (fs w) f = Some (Reg data mode) -> (mode < 4096)%N -> owner_r mode = true ->
  (N.land mode write_mask <> 0%N \/ read_only o <> ROFail) ->
  split_lines data = B ->
  exists st' w',
    process_section o st false p s w = (Ok (st', s), w') /\
    fs w' = remove_key (fs w) f /\
    lookup (fs w') f = None /\
    (forall q, q <> f -> lookup (fs w') q = lookup (fs w) q) /\
    same_state st st' /\ fault w' = None /\ umask w' = umask w.
Proof. exact Proofs_Reverse.section_reverse_of_creation_removes. Qed.
Print Assumptions section_reverse_of_creation_removes.

(* a patch that deletes f (new name /dev/null, operation delete), f holding A, --remove-empty-files in force: removed *)
Theorem section_deletes : forall o p f A st s w data mode,
  plain_options o -> reverse_patch_opt o = false -> remove_empty_files o = OBYes ->
  poper p = OpDelete -> prereq p = [] -> old_path p = f -> new_path p = devnull ->
  f <> devnull -> f <> [] -> ~ In 47%N f ->
  Conforming A [] (hunks p) -> (Z.of_nat (length A) < MAXZ)%Z ->
  fault w = None -> deferred_writes st = [] ->
  lookup (fs w) f = Some (Reg data mode) -> (mode < 4096)%N -> owner_r mode = true ->
  (N.land mode write_mask <> 0%N \/ read_only o <> ROFail) ->
  split_lines data = A ->
  exists st' w',
    process_section o st false p s w = (Ok (st', s), w') /\
    fs w' = remove_key (fs w) f /\
    lookup (fs w') f = None /\
    (forall q, q <> f -> lookup (fs w') q = lookup (fs w) q) /\
    same_state st st' /\ fault w' = None /\ umask w' = umask w.
Proof. exact Proofs_Reverse.section_deletes. Qed.
Print Assumptions section_deletes.

(* the same patch with -R when f is not there: the section recreates it with A (permissions 0666 & ~umask) *)
Theorem section_reverse_of_deletion_recreates : forall o p f A st s w,
  plain_options o -> reverse_patch_opt o = true ->
  pfmt p <> FGit -> poper p = OpDelete -> prereq p = [] -> old_path p = f -> new_path p = devnull -> old_mode p = 0%N ->
  (index_path p = devnull \/ exists_ (fs w) (index_path p) = false) ->
  f <> devnull -> f <> [] -> ~ In 47%N f ->
  Conforming A [] (hunks p) ->
  fault w = None -> deferred_writes st = [] -> lookup (fs w) f = None ->
  exists st' w',
    process_section o st false p s w = (Ok (st', s), w') /\
    fs w' = upd (fs w) f (Reg (lines_bytes (newline_output o) A) (created_mode (umask w))) /\
    lookup (fs w') f = Some (Reg (lines_bytes (newline_output o) A) (created_mode (umask w))) /\
    (forall q, q <> f -> lookup (fs w') q = lookup (fs w) q) /\
    same_state st st' /\ fault w' = None /\ umask w' = umask w.
Proof. exact Proofs_Reverse.section_reverse_of_deletion_recreates. Qed.
Print Assumptions section_reverse_of_deletion_recreates.

(* create, then the same patch with -R: the tree is, entry for entry and in the same order, the tree before the creation *)
Theorem creation_roundtrip : forall oF oR p f B st s st2 s2 w,
  plain_options oF -> reverse_patch_opt oF = false ->
  plain_options oR -> reverse_patch_opt oR = true -> remove_empty_files oR = OBYes ->
  pfmt p <> FGit -> poper p = OpAdd -> prereq p = [] -> old_path p = devnull -> new_path p = f -> new_mode p = 0%N ->
  (index_path p = devnull \/ exists_ (fs w) (index_path p) = false) ->
  f <> devnull -> f <> [] -> ~ In 47%N f ->
  Conforming [] B (hunks p) -> (Z.of_nat (length B) < MAXZ)%Z ->
  split_lines (lines_bytes (newline_output oF) B) = B ->
  fault w = None -> deferred_writes st = [] -> deferred_writes st2 = [] -> lookup (fs w) f = None ->
  owner_r (created_mode (umask w)) = true ->
  (N.land (created_mode (umask w)) write_mask <> 0%N \/ read_only oR <> ROFail) ->
  exists st1 w1 st3 w2,
    process_section oF st false p s w = (Ok (st1, s), w1) /\
    lookup (fs w1) f = Some (Reg (lines_bytes (newline_output oF) B) (created_mode (umask w))) /\
    process_section oR st2 false p s2 w1 = (Ok (st3, s2), w2) /\
    fs w2 = fs w /\
    same_state st st1 /\ same_state st2 st3 /\ fault w2 = None /\ umask w2 = umask w.
Proof. exact Proofs_Reverse.creation_roundtrip. Qed.
Print Assumptions creation_roundtrip.

(* delete, then the same patch with -R: the file is back with its content (as --newline-output writes it) and the
   permissions of a new file; every other entry as at the start *)
Theorem deletion_roundtrip : forall oF oR p f A st s st2 s2 w data mode,
  plain_options oF -> reverse_patch_opt oF = false -> remove_empty_files oF = OBYes ->
  plain_options oR -> reverse_patch_opt oR = true ->
  pfmt p <> FGit -> poper p = OpDelete -> prereq p = [] -> old_path p = f -> new_path p = devnull -> old_mode p = 0%N ->
  (index_path p = devnull \/ exists_ (remove_key (fs w) f) (index_path p) = false) ->
  f <> devnull -> f <> [] -> ~ In 47%N f ->
  Conforming A [] (hunks p) -> (Z.of_nat (length A) < MAXZ)%Z ->
  fault w = None -> deferred_writes st = [] -> deferred_writes st2 = [] ->
  lookup (fs w) f = Some (Reg data mode) -> (mode < 4096)%N -> owner_r mode = true ->
  (N.land mode write_mask <> 0%N \/ read_only oF <> ROFail) ->
  split_lines data = A ->
  exists st1 w1 st3 w2,
    process_section oF st false p s w = (Ok (st1, s), w1) /\
    lookup (fs w1) f = None /\
    process_section oR st2 false p s2 w1 = (Ok (st3, s2), w2) /\
    lookup (fs w2) f = Some (Reg (lines_bytes (newline_output oR) A) (created_mode (umask w))) /\
    (forall q, q <> f -> lookup (fs w2) q = lookup (fs w) q) /\
    same_state st st1 /\ same_state st2 st3 /\ fault w2 = None /\ umask w2 = umask w.
Proof. exact Proofs_Reverse.deletion_roundtrip. Qed.
Print Assumptions deletion_roundtrip.

(* -R of a creating patch without --remove-empty-files: f is NOT removed; it is left there with no content *)
Theorem section_reverse_of_creation_without_E : forall o p f B st s w data mode,
  plain_options o -> reverse_patch_opt o = true -> remove_empty_files o <> OBYes ->
  pfmt p <> FGit -> poper p = OpAdd -> prereq p = [] -> old_path p = devnull -> new_path p = f -> old_mode p = 0%N ->
  f <> devnull -> f <> [] -> ~ In 47%N f ->
  Conforming [] B (hunks p) -> (Z.of_nat (length B) < MAXZ)%Z ->
  fault w = None -> deferred_writes st = [] ->
  lookup (fs w) f = Some (Reg data mode) -> (mode < 4096)%N -> owner_r mode = true -> owner_w mode = true ->
  split_lines data = B ->
  exists st' w',
    process_section o st false p s w = (Ok (st', s), w') /\
    lookup (fs w') f = Some (Reg [] mode) /\
    (forall q, q <> f -> lookup (fs w') q = lookup (fs w) q) /\
    same_state st st' /\ fault w' = None /\ umask w' = umask w.
Proof. exact Proofs_Reverse.section_reverse_of_creation_without_E. Qed.
Print Assumptions section_reverse_of_creation_without_E.

(* a git rename of f to g with a diff of A to B, f holding A, g not there: at the end of the run g holds B with the
   permissions f had, f is gone, every other entry untouched *)
Theorem rename_forward : forall o p f g A B st s w data mode,
  plain_options o -> reverse_patch_opt o = false ->
  pfmt p = FGit -> poper p = OpRename -> prereq p = [] -> old_path p = f -> new_path p = g -> new_mode p = 0%N ->
  f <> g -> f <> devnull -> f <> [] -> ~ In 47%N f -> g <> [] -> ~ In 47%N g ->
  Conforming A B (hunks p) -> (Z.of_nat (length A) < MAXZ)%Z ->
  fault w = None -> deferred_writes st = [] -> deferred_removals st = [] ->
  lookup (fs w) f = Some (Reg data mode) -> (mode < 4096)%N -> owner_r mode = true ->
  lookup (fs w) g = None ->
  split_lines data = A ->
  exists st1 w1 st2 w2 w3,
    process_section o st false p s w = (Ok (st1, s), w1) /\ fs w1 = fs w /\
    finalize_writes o st1 (deferred_writes st1) w1 = (Ok st2, w2) /\
    finalize_removals (deferred_writes st1) (deferred_removals st1) w2 = (Ok tt, w3) /\
    lookup (fs w3) g = Some (Reg (lines_bytes (newline_output o) B) mode) /\
    lookup (fs w3) f = None /\
    (forall q, q <> f -> q <> g -> lookup (fs w3) q = lookup (fs w) q) /\
    had_failure st2 = had_failure st /\ events st2 = events st /\ fault w3 = None /\ umask w3 = umask w.
Proof. exact Proofs_Reverse.rename_forward. Qed.
Print Assumptions rename_forward.

(* the same patch with -R when g holds B and f is not there: the file is moved back, f holds A with the permissions g had *)
Theorem rename_reverse : forall o p f g A B st s w data mode,
  plain_options o -> reverse_patch_opt o = true ->
  pfmt p = FGit -> poper p = OpRename -> prereq p = [] -> old_path p = f -> new_path p = g -> old_mode p = 0%N ->
  f <> g -> g <> devnull -> f <> [] -> ~ In 47%N f -> g <> [] -> ~ In 47%N g ->
  Conforming A B (hunks p) -> (Z.of_nat (length B) < MAXZ)%Z ->
  fault w = None -> deferred_writes st = [] -> deferred_removals st = [] ->
  lookup (fs w) g = Some (Reg data mode) -> (mode < 4096)%N -> owner_r mode = true ->
  lookup (fs w) f = None ->
  split_lines data = B ->
  exists st1 w1 st2 w2 w3,
    process_section o st false p s w = (Ok (st1, s), w1) /\ fs w1 = fs w /\
    finalize_writes o st1 (deferred_writes st1) w1 = (Ok st2, w2) /\
    finalize_removals (deferred_writes st1) (deferred_removals st1) w2 = (Ok tt, w3) /\
    lookup (fs w3) f = Some (Reg (lines_bytes (newline_output o) A) mode) /\
    lookup (fs w3) g = None /\
    (forall q, q <> g -> q <> f -> lookup (fs w3) q = lookup (fs w) q) /\
    had_failure st2 = had_failure st /\ events st2 = events st /\ fault w3 = None /\ umask w3 = umask w.
Proof. exact Proofs_Reverse.rename_reverse. Qed.
Print Assumptions rename_reverse.

(* rename, then the same patch with -R in a second run: f is back, with content A as --newline-output writes it and its
   permissions; g is gone again; every other entry as at the start *)
Theorem rename_roundtrip : forall oF oR p f g A B st s st' s' w data mode,
  plain_options oF -> reverse_patch_opt oF = false -> plain_options oR -> reverse_patch_opt oR = true ->
  pfmt p = FGit -> poper p = OpRename -> prereq p = [] -> old_path p = f -> new_path p = g ->
  old_mode p = 0%N -> new_mode p = 0%N ->
  f <> g -> f <> devnull -> g <> devnull -> f <> [] -> ~ In 47%N f -> g <> [] -> ~ In 47%N g ->
  Conforming A B (hunks p) -> (Z.of_nat (length A) < MAXZ)%Z -> (Z.of_nat (length B) < MAXZ)%Z ->
  split_lines (lines_bytes (newline_output oF) B) = B ->
  fault w = None -> deferred_writes st = [] -> deferred_removals st = [] ->
  deferred_writes st' = [] -> deferred_removals st' = [] ->
  lookup (fs w) f = Some (Reg data mode) -> (mode < 4096)%N -> owner_r mode = true ->
  lookup (fs w) g = None ->
  split_lines data = A ->
  exists st1 w1 st2 w2 w3 st4 w4 st5 w5 w6,
    process_section oF st false p s w = (Ok (st1, s), w1) /\
    finalize_writes oF st1 (deferred_writes st1) w1 = (Ok st2, w2) /\
    finalize_removals (deferred_writes st1) (deferred_removals st1) w2 = (Ok tt, w3) /\
    lookup (fs w3) g = Some (Reg (lines_bytes (newline_output oF) B) mode) /\ lookup (fs w3) f = None /\
    process_section oR st' false p s' w3 = (Ok (st4, s'), w4) /\
    finalize_writes oR st4 (deferred_writes st4) w4 = (Ok st5, w5) /\
    finalize_removals (deferred_writes st4) (deferred_removals st4) w5 = (Ok tt, w6) /\
    lookup (fs w6) f = Some (Reg (lines_bytes (newline_output oR) A) mode) /\ lookup (fs w6) g = None /\
    (forall q, q <> f -> q <> g -> lookup (fs w6) q = lookup (fs w) q) /\
    had_failure st2 = had_failure st /\ had_failure st5 = had_failure st' /\ fault w6 = None.
Proof. exact Proofs_Reverse.rename_roundtrip. Qed.
Print Assumptions rename_roundtrip.

(* ---------- non-vacuity: the hypotheses hold on concrete instances, and the runs evaluate to what is stated ---------- *)
Local Open Scope string_scope.
Definition rex_nl : list N := [10%N].
Definition rex_l (s : String.string) := mkLine (bs s) LF.
(* -E (remove empty files) given; everything else as without options; rev = -R *)
Definition rex_o (rev : bool) :=
  mkOptions false false [] [] false [] false false false [] (-1) 2 rev [] [] false false false false false false false false
            OBUnset OBYes MNative RFDefault ROWarn QSUnset [] [].
Definition rex_st := mkDS false [] [] [] [].
Definition rex_s := stream_of [].
Definition rex_A := [rex_l "a"; rex_l "b"].
Definition rex_B := [rex_l "a"; rex_l "B"; rex_l "c"].
Definition rex_dataA := bs "a" ++ rex_nl ++ bs "b" ++ rex_nl.
Definition rex_dataB := bs "a" ++ rex_nl ++ bs "B" ++ rex_nl ++ bs "c" ++ rex_nl.
Definition rex_h := mkHunk (mkRange 1 2) (mkRange 1 3)
  [mkPL Ctx (rex_l "a"); mkPL Del (rex_l "b"); mkPL Add (rex_l "B"); mkPL Add (rex_l "c")].
Definition rex_other : list N * node := (bs "other", Reg (bs "x") 256).

Lemma rex_conf : Conforming rex_A rex_B [rex_h].
Proof. unfold Conforming. apply (Conf_cons 0 0 [] rex_h [] [] []); try reflexivity; [discriminate|constructor]. Qed.

Lemma rex_plain rev : plain_options (rex_o rev).
Proof. unfold plain_options. repeat split; try reflexivity. cbn. discriminate. Qed.

Ltac rex_side := first [ reflexivity | discriminate | exact rex_conf | apply rex_plain
                      | (vm_compute; reflexivity) | (vm_compute; discriminate)
                      | (vm_compute; intros [H|[]]; discriminate H)
                      | (left; discriminate) | (right; discriminate)
                      | (left; reflexivity) | (right; vm_compute; reflexivity) ].

(* (1) a change: f holds B, -R gives A back; f holds A, patch then patch -R gives A's bytes back *)
Definition rex_p := mkPatch FUnified OpChange [] [] (bs "f") (bs "f") [] [] 0 0 [rex_h].
Definition rex_w (data : list N) := mkWorld [rex_other; (bs "f", Reg data 420)] 18 [] None [].

Example reverse_restores_nonvacuous :
  exists st' w',
    process_section (rex_o true) rex_st false rex_p rex_s (rex_w rex_dataB) = (Ok (st', rex_s), w') /\
    lookup (fs w') (bs "f") = Some (Reg (lines_bytes (newline_output (rex_o true)) rex_A) 420) /\
    (forall q, q <> bs "f" -> lookup (fs w') q = lookup (fs (rex_w rex_dataB)) q) /\
    same_state rex_st st' /\ fault w' = None /\ umask w' = umask (rex_w rex_dataB).
Proof. apply (section_reverse_restores (rex_o true) rex_p (bs "f") rex_A rex_B rex_st rex_s (rex_w rex_dataB) rex_dataB 420); rex_side. Qed.

Example reverse_restores_run :
  let r := process_section (rex_o true) rex_st false rex_p rex_s (rex_w rex_dataB) in
  fst r = Ok (rex_st, rex_s) /\ fs (snd r) = [(bs "f", Reg rex_dataA 420); rex_other] /\
  trace (snd r) = [OOpenRead (bs "f"); OWrite (bs "f") rex_dataA; OChmod (bs "f") 420].
Proof. vm_compute. repeat split; reflexivity. Qed.

Example roundtrip_bytes_nonvacuous :
  exists st1 w1 st3 w2,
    process_section (rex_o false) rex_st false rex_p rex_s (rex_w rex_dataA) = (Ok (st1, rex_s), w1) /\
    lookup (fs w1) (bs "f") = Some (Reg rex_dataB 420) /\
    process_section (rex_o true) rex_st false rex_p rex_s w1 = (Ok (st3, rex_s), w2) /\
    lookup (fs w2) (bs "f") = Some (Reg rex_dataA 420) /\
    (forall q, q <> bs "f" -> lookup (fs w2) q = lookup (fs (rex_w rex_dataA)) q) /\
    had_failure st1 = had_failure rex_st /\ had_failure st3 = had_failure rex_st /\ fault w2 = None.
Proof.
  apply (section_roundtrip_bytes (rex_o false) (rex_o true) rex_p (bs "f") rex_dataA rex_dataB rex_st rex_s rex_st rex_s (rex_w rex_dataA) 420);
    try rex_side.
  - right. split; [discriminate|]. vm_compute. repeat constructor; discriminate.
  - right. split; [discriminate|]. vm_compute. repeat constructor; discriminate.
Qed.

(* (2) creation and deletion *)
Definition rex_hc := mkHunk (mkRange 0 0) (mkRange 1 2) [mkPL Add (rex_l "a"); mkPL Add (rex_l "b")].
Definition rex_hd := mkHunk (mkRange 1 2) (mkRange 0 0) [mkPL Del (rex_l "a"); mkPL Del (rex_l "b")].
Definition rex_pc := mkPatch FUnified OpAdd [] [] devnull (bs "f") [] [] 0 0 [rex_hc].
Definition rex_pd := mkPatch FUnified OpDelete [] [] (bs "f") devnull [] [] 0 0 [rex_hd].
Definition rex_w0 := mkWorld [rex_other] 18 [] None [].

Lemma rex_conf_c : Conforming [] rex_A (hunks rex_pc).
Proof. unfold Conforming. apply (Conf_cons 0 0 [] rex_hc [] [] []); try reflexivity; [discriminate|constructor]. Qed.
Lemma rex_conf_d : Conforming rex_A [] (hunks rex_pd).
Proof. unfold Conforming. apply (Conf_cons 0 0 [] rex_hd [] [] []); try reflexivity; [discriminate|constructor]. Qed.

Example creation_roundtrip_nonvacuous :
  exists st1 w1 st3 w2,
    process_section (rex_o false) rex_st false rex_pc rex_s rex_w0 = (Ok (st1, rex_s), w1) /\
    lookup (fs w1) (bs "f") = Some (Reg (lines_bytes (newline_output (rex_o false)) rex_A) (created_mode (umask rex_w0))) /\
    process_section (rex_o true) rex_st false rex_pc rex_s w1 = (Ok (st3, rex_s), w2) /\
    fs w2 = fs rex_w0 /\
    same_state rex_st st1 /\ same_state rex_st st3 /\ fault w2 = None /\ umask w2 = umask rex_w0.
Proof.
  apply (creation_roundtrip (rex_o false) (rex_o true) rex_pc (bs "f") rex_A rex_st rex_s rex_st rex_s rex_w0); try exact rex_conf_c; rex_side.
Qed.

Example creation_roundtrip_run :
  let r1 := process_section (rex_o false) rex_st false rex_pc rex_s rex_w0 in
  let r2 := process_section (rex_o true) rex_st false rex_pc rex_s (snd r1) in
  fs (snd r1) = [(bs "f", Reg rex_dataA 420); rex_other] /\ fst r2 = Ok (rex_st, rex_s) /\ fs (snd r2) = [rex_other] /\
  trace (snd r2) = [OOpenRead (bs "f"); OWrite (bs "f") rex_dataA; OOpenRead (bs "f"); OUnlink (bs "f")].
Proof. vm_compute. repeat split; reflexivity. Qed.

Example deletion_roundtrip_nonvacuous :
  exists st1 w1 st3 w2,
    process_section (rex_o false) rex_st false rex_pd rex_s (rex_w rex_dataA) = (Ok (st1, rex_s), w1) /\
    lookup (fs w1) (bs "f") = None /\
    process_section (rex_o true) rex_st false rex_pd rex_s w1 = (Ok (st3, rex_s), w2) /\
    lookup (fs w2) (bs "f") = Some (Reg (lines_bytes (newline_output (rex_o true)) rex_A) (created_mode (umask (rex_w rex_dataA)))) /\
    (forall q, q <> bs "f" -> lookup (fs w2) q = lookup (fs (rex_w rex_dataA)) q) /\
    same_state rex_st st1 /\ same_state rex_st st3 /\ fault w2 = None /\ umask w2 = umask (rex_w rex_dataA).
Proof.
  apply (deletion_roundtrip (rex_o false) (rex_o true) rex_pd (bs "f") rex_A rex_st rex_s rex_st rex_s (rex_w rex_dataA) rex_dataA 420);
    try exact rex_conf_d; rex_side.
Qed.

(* the file comes back with its bytes; its permissions are those of a new file (here 0600 before, 0644 after) *)
Example deletion_roundtrip_run :
  let w := mkWorld [rex_other; (bs "f", Reg rex_dataA 384)] 18 [] None [] in
  let r1 := process_section (rex_o false) rex_st false rex_pd rex_s w in
  let r2 := process_section (rex_o true) rex_st false rex_pd rex_s (snd r1) in
  fs (snd r1) = [rex_other] /\ fst r2 = Ok (rex_st, rex_s) /\ fs (snd r2) = [(bs "f", Reg rex_dataA 420); rex_other].
Proof. vm_compute. repeat split; reflexivity. Qed.

(* without -E: -R of a creating patch leaves the file, empty, where --remove-empty-files would have removed it *)
Definition rex_o_noE (rev : bool) :=
  mkOptions false false [] [] false [] false false false [] (-1) 2 rev [] [] false false false false false false false true
            OBNo OBNo MNative RFDefault ROWarn QSUnset [] [].
Example reverse_of_creation_without_E_nonvacuous :
  exists st' w',
    process_section (rex_o_noE true) rex_st false rex_pc rex_s (rex_w rex_dataA) = (Ok (st', rex_s), w') /\
    lookup (fs w') (bs "f") = Some (Reg [] 420) /\
    (forall q, q <> bs "f" -> lookup (fs w') q = lookup (fs (rex_w rex_dataA)) q) /\
    same_state rex_st st' /\ fault w' = None /\ umask w' = umask (rex_w rex_dataA).
Proof.
  apply (section_reverse_of_creation_without_E (rex_o_noE true) rex_pc (bs "f") rex_A rex_st rex_s (rex_w rex_dataA) rex_dataA 420);
    try exact rex_conf_c; try rex_side.
  unfold plain_options. repeat split; try reflexivity. cbn. discriminate.
Qed.

(* (3) a git rename *)
Definition rex_pr := mkPatch FGit OpRename [] [] (bs "f") (bs "g") [] [] 0 0 [rex_h].

Example rename_roundtrip_nonvacuous :
  exists st1 w1 st2 w2 w3 st4 w4 st5 w5 w6,
    process_section (rex_o false) rex_st false rex_pr rex_s (rex_w rex_dataA) = (Ok (st1, rex_s), w1) /\
    finalize_writes (rex_o false) st1 (deferred_writes st1) w1 = (Ok st2, w2) /\
    finalize_removals (deferred_writes st1) (deferred_removals st1) w2 = (Ok tt, w3) /\
    lookup (fs w3) (bs "g") = Some (Reg (lines_bytes (newline_output (rex_o false)) rex_B) 420) /\ lookup (fs w3) (bs "f") = None /\
    process_section (rex_o true) rex_st false rex_pr rex_s w3 = (Ok (st4, rex_s), w4) /\
    finalize_writes (rex_o true) st4 (deferred_writes st4) w4 = (Ok st5, w5) /\
    finalize_removals (deferred_writes st4) (deferred_removals st4) w5 = (Ok tt, w6) /\
    lookup (fs w6) (bs "f") = Some (Reg (lines_bytes (newline_output (rex_o true)) rex_A) 420) /\ lookup (fs w6) (bs "g") = None /\
    (forall q, q <> bs "f" -> q <> bs "g" -> lookup (fs w6) q = lookup (fs (rex_w rex_dataA)) q) /\
    had_failure st2 = had_failure rex_st /\ had_failure st5 = had_failure rex_st /\ fault w6 = None.
Proof.
  apply (rename_roundtrip (rex_o false) (rex_o true) rex_pr (bs "f") (bs "g") rex_A rex_B rex_st rex_s rex_st rex_s (rex_w rex_dataA) rex_dataA 420); rex_side.
Qed.

(* whole program (run_patch: patch text read from p.diff, header and hunks parsed by the model's parser): a git rename
   with a change applied, then reversed with -R; a creating patch applied, then reversed *)
Definition rex_opts (rev : bool) :=
  mkOptions false false [] [] false (bs "p.diff") false false false [] (-1) 2 rev [] [] false false false false false false false false
            OBUnset OBYes MNative RFDefault ROWarn QSUnset [] [].
Definition rex_git := bs "diff --git a/f b/g" ++ rex_nl ++ bs "similarity index 50%" ++ rex_nl ++ bs "rename from f" ++ rex_nl
  ++ bs "rename to g" ++ rex_nl ++ bs "--- a/f" ++ rex_nl ++ bs "+++ b/g" ++ rex_nl ++ bs "@@ -1,2 +1,3 @@" ++ rex_nl
  ++ bs " a" ++ rex_nl ++ bs "-b" ++ rex_nl ++ bs "+B" ++ rex_nl ++ bs "+c" ++ rex_nl.
Definition rex_create := bs "--- /dev/null" ++ rex_nl ++ bs "+++ f" ++ rex_nl ++ bs "@@ -0,0 +1,2 @@" ++ rex_nl
  ++ bs "+a" ++ rex_nl ++ bs "+b" ++ rex_nl.

Example whole_program_rename :
  let w := mkWorld [(bs "p.diff", Reg rex_git 420); (bs "f", Reg rex_dataA 384)] 18 [] None [] in
  let r1 := run_patch (rex_opts false) [] w in
  let r2 := run_patch (rex_opts true) [] (rr_world r1) in
  rr_exit r1 = 0 /\ lookup (fs (rr_world r1)) (bs "g") = Some (Reg rex_dataB 384) /\ lookup (fs (rr_world r1)) (bs "f") = None /\
  rr_exit r2 = 0 /\ lookup (fs (rr_world r2)) (bs "f") = Some (Reg rex_dataA 384) /\ lookup (fs (rr_world r2)) (bs "g") = None.
Proof. vm_compute. repeat split; reflexivity. Qed.

Example whole_program_creation :
  let w := mkWorld [(bs "p.diff", Reg rex_create 420)] 18 [] None [] in
  let r1 := run_patch (rex_opts false) [] w in
  let r2 := run_patch (rex_opts true) [] (rr_world r1) in
  rr_exit r1 = 0 /\ lookup (fs (rr_world r1)) (bs "f") = Some (Reg rex_dataA 420) /\
  rr_exit r2 = 0 /\ fs (rr_world r2) = fs w.
Proof. vm_compute. repeat split; reflexivity. Qed.

(* ===== merged from Properties_WholeRename.v (-R of a pure rename) ===== *)
From PatchV Require Import Base Lines Hunk Locator Formatter Options Applier LineParser Parser World Driver
     Spec_Locate Spec_Apply Spec_Names Proofs_Base Proofs_Lines Proofs_Unified Proofs_Filler Proofs_Conf Proofs_World Proofs_Reverse
     Proofs_Sections Proofs_Sections_Unified Proofs_Touch Proofs_Whole Proofs_WholeGit Proofs_WholeNames Proofs_WholeRename.
Theorem pure_rename_reverse : forall o f0 fl tl oldn newn sim w data mode m1 m4,
  plain_options o -> reverse_patch_opt o = true -> format_from_options o = Ok f0 ->
  Forall (Filler (strip_size o) (empty_patch f0)) fl -> Forall clean fl -> Forall (Trailing (strip_size o)) tl ->
  hd 0%N oldn <> 34%N -> hd 0%N newn <> 34%N -> clean oldn -> clean newn -> clean sim ->
  fault w = None ->
  rename_ready (fs w) (ext_name (strip_size o) (bs "b/") newn) (ext_name (strip_size o) (bs "a/") oldn) data mode ->
  rename_permitted (fs w) (umask w) (ext_name (strip_size o) (bs "b/") newn) (ext_name (strip_size o) (bs "a/") oldn) data mode m1 m4 ->
  rewritten o data = data ->
  exists w',
    process_patch o (join_lines (fl ++ rename_lines ((bs "a/" ++ oldn) ++ bs " b/" ++ newn) sim oldn newn ++ tl)) w = (Ok (0, []), w') /\
    fs w' = m4 /\ fault w' = None /\ umask w' = umask w /\
    moved_to (fs w) (umask w) (ext_name (strip_size o) (bs "b/") newn) (ext_name (strip_size o) (bs "a/") oldn) data mode (fs w').
Proof. exact Proofs_WholeRename.pure_rename_reverse. Qed.
Print Assumptions pure_rename_reverse.

Theorem pure_rename_reverse_quoted : forall o f0 fl tl oldn newn sim w data mode m1 m4,
  plain_options o -> reverse_patch_opt o = true -> format_from_options o = Ok f0 ->
  Forall (Filler (strip_size o) (empty_patch f0)) fl -> Forall clean fl -> Forall (Trailing (strip_size o)) tl ->
  bytes oldn -> bytes newn -> clean sim ->
  fault w = None ->
  rename_ready (fs w) (ext_name (strip_size o) (bs "b/") newn) (ext_name (strip_size o) (bs "a/") oldn) data mode ->
  rename_permitted (fs w) (umask w) (ext_name (strip_size o) (bs "b/") newn) (ext_name (strip_size o) (bs "a/") oldn) data mode m1 m4 ->
  rewritten o data = data ->
  exists w',
    process_patch o (join_lines (fl ++ rename_lines (cquote (bs "a/" ++ oldn) ++ bs " " ++ cquote (bs "b/" ++ newn)) sim
                                                     (cquote oldn) (cquote newn) ++ tl)) w = (Ok (0, []), w') /\
    fs w' = m4 /\ fault w' = None /\ umask w' = umask w /\
    moved_to (fs w) (umask w) (ext_name (strip_size o) (bs "b/") newn) (ext_name (strip_size o) (bs "a/") oldn) data mode (fs w').
Proof. exact Proofs_WholeRename.pure_rename_reverse_quoted. Qed.
Print Assumptions pure_rename_reverse_quoted.

(* ===== the known finding K-C05-context-epoch-deletion-reversed, as a statement about the model ===== *)
From PatchV Require Import Base Lines Hunk Options Parser World Driver.
Local Open Scope string_scope.
Definition nl1 : list N := [10%N].
(* K-C05-context-epoch-deletion-reversed: -R of a whole-file deletion in context format written diff -cN style, the file absent:
   the run ends with status 2 and creates nothing, where C05 asks for the file to come back *)
Definition rf_tab : list N := [9%N].
Definition rf_ctx : list N :=
  bs "*** a/f" ++ rf_tab ++ bs "2024-01-01 00:00:00 +0000" ++ nl1 ++ bs "--- b/f" ++ rf_tab ++ bs "1970-01-01 00:00:00 +0000" ++ nl1 ++
  bs "***************" ++ nl1 ++ bs "*** 1 ****" ++ nl1 ++ bs "- a" ++ nl1 ++ bs "--- 0 ----" ++ nl1.
Definition rf_optsR :=
  mkOptions false false [] [] false (bs "p.diff") false false false [] 1 2 true [] [] false false false false false false false false OBYes OBYes MNative RFDefault ROWarn QSUnset [] [].
Definition rf_worldR := mkWorld [(bs "p.diff", Reg rf_ctx 420)] 18 [] None [].
Theorem context_epoch_deletion_reversed_refuted :
  let r := run_patch rf_optsR [] rf_worldR in
  rr_exit r = 2 /\ lookup (fs (rr_world r)) (bs "f") = None.
Proof. vm_compute. split; reflexivity. Qed.
Print Assumptions context_epoch_deletion_reversed_refuted.
(* ... while the forward run of the same patch on the tree that holds the file removes it (so -R has something to undo) *)
Definition rf_optsF :=
  mkOptions false false [] [] false (bs "p.diff") false false false [] 1 2 false [] [] false false false false false false false false OBYes OBYes MNative RFDefault ROWarn QSUnset [] [].
Theorem context_epoch_deletion_forward :
  let r := run_patch rf_optsF [] (mkWorld [(bs "f", Reg (bs "a" ++ nl1) 420); (bs "p.diff", Reg rf_ctx 420)] 18 [] None []) in
  rr_exit r = 0 /\ lookup (fs (rr_world r)) (bs "f") = None.
Proof. vm_compute. split; reflexivity. Qed.
Print Assumptions context_epoch_deletion_forward.
