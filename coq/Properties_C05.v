(* Properties_C05.v — C05 (hunk level): reverse application is the inverse of application. *)
From PatchV Require Import Base Lines Hunk Locator Options Applier Spec_Locate Spec_Apply Proofs_Conf.

Theorem reverse_hunk_involutive : forall h, reverse_hunk (reverse_hunk h) = h.
Proof. exact Proofs_Conf.reverse_hunk_involutive. Qed.
Print Assumptions reverse_hunk_involutive.

(* the reverse of a conforming diff of A to B is a conforming diff of B to A *)
Theorem conforming_reverse : forall hs a b A B, Conf a b A B hs -> Conf b a B A (map reverse_hunk hs).
Proof. exact Proofs_Conf.conforming_reverse. Qed.
Print Assumptions conforming_reverse.

(* applying a diff of A to B with -R to B yields exactly A, nothing rejected, no message *)
Theorem apply_reverse : forall o p A B,
  define_macro o = [] -> verbose o = false -> reverse_patch_opt o = true -> (0 <= max_fuzz o)%Z ->
  Conforming A B (hunks p) -> (Z.of_nat (length B) < MAXZ)%Z ->
  creation_guard (reverse_patch p) B ->
  exists r, apply_patch o B p = Ok r /\ r_out r = A /\ r_failed r = 0 /\ r_rej r = [] /\
            r_skipped r = false /\ r_perfect r = true /\ r_msgs r = [].
Proof. exact Proofs_Conf.apply_reverse. Qed.
Print Assumptions apply_reverse.

Local Open Scope string_scope.
Definition ex_l (s : String.string) := mkLine (bs s) LF.
Definition ex_h := mkHunk (mkRange 1 2) (mkRange 1 3)
  [mkPL Ctx (ex_l "a"); mkPL Del (ex_l "b"); mkPL Add (ex_l "B"); mkPL Add (ex_l "c")].
Example reverse_nonvacuous :
  let A := [ex_l "a"; ex_l "b"] in let B := [ex_l "a"; ex_l "B"; ex_l "c"] in
  let p := mkPatch FUnified OpChange [] [] (bs "f") (bs "f") [] [] 0 0 [ex_h] in
  Conforming A B [ex_h] /\
  match apply_patch (mkOptions false false [] [] false [] false false false [] (-1) 2 true [] [] false false false false false false false false OBUnset OBUnset MNative RFDefault ROWarn QSUnset [] []) B p
  with Ok r => r_out r = A | Throw _ => False end.
Proof.
  cbv zeta. split.
  - unfold Conforming. apply (Conf_cons 0 0 [] ex_h [] [] []); try reflexivity; [discriminate|constructor].
  - vm_compute. reflexivity.
Qed.
