(* Proofs_CrashRun.v — C09 at the level of the whole run and of every crash point.
   Crash points are the injected failures of World.v (`fault w = Some k`: the k-th operation from now fails, the tree stays
   as it was before it).  Every theorem here is stated for ALL worlds, whatever their pending failure, so each is a
   statement about every prefix of the operations of the run.

   Part A  (3) a fatal error caused by the patch text: the tree is the tree the fully processed sections left.
   Part B  (1) the source of a rename outlives the complete writing of its destination (histories with results).
   Part C  (2) with --backup the original of a file a section changes is in full at its path or at its backup path. *)
From PatchV Require Import Base Lines Hunk Locator Formatter Options Applier LineParser Parser World Driver
     Proofs_Base Proofs_World Proofs_Driver Proofs_Touch Proofs_Crash Proofs_Fuel Proofs_Progress Proofs_Sections
     Proofs_DriverMore.

(* ================================================================================================================== *)
(* Part A: text_abort_keeps_whole_states                                                                             *)
(* ================================================================================================================== *)

(* [sections_done o f st s w st' s' w']: starting in state st on the stream s in the world w, the loop over the sections
   of the patch processes zero or more sections completely (each process_section returns normally; binary sections are
   skipped) and arrives in state st' on the stream s' in the world w'. *)
Inductive sections_done (o : options) (f : format) : dstate -> stream -> world -> dstate -> stream -> world -> Prop :=
| SD_here st s w : sections_done o f st s w st s w
| SD_section st s w should p s1 found st1 s2 w1 st' s' w' :
    seof s = false ->
    parse_patch_header_full (empty_patch f) (strip_size o) s = Ok (should, p, s1, found) ->
    (if negb found && should then FUnknown else pfmt p) <> FUnknown ->
    poper p <> OpBinary ->
    process_section o st should p s1 w = (Ok (st1, s2), w1) ->
    sections_done o f st1 s2 w1 st' s' w' ->
    sections_done o f st s w st' s' w'
| SD_binary st s w should p s1 found st' s' w' :
    seof s = false ->
    parse_patch_header_full (empty_patch f) (strip_size o) s = Ok (should, p, s1, found) ->
    (if negb found && should then FUnknown else pfmt p) <> FUnknown ->
    poper p = OpBinary ->
    sections_done o f (set_failure st) s1 w st' s' w' ->
    sections_done o f st s w st' s' w'.

Definition loop_fuel (s : stream) : nat := S (S (length (rest s))).

(* one completely processed section, with the fuel of process_patch on both sides *)
Lemma loop_one_section o f st s first should p s1 found st1 s2 w w1 :
  seof s = false ->
  parse_patch_header_full (empty_patch f) (strip_size o) s = Ok (should, p, s1, found) ->
  (if negb found && should then FUnknown else pfmt p) <> FUnknown ->
  poper p <> OpBinary ->
  process_section o st should p s1 w = (Ok (st1, s2), w1) ->
  section_loop (loop_fuel s) o f st s first w = section_loop (loop_fuel s2) o f st1 s2 false w1.
Proof.
  intros He Hh Hf Hop Hps.
  pose proof (section_progress _ _ _ _ _ _ _ _ _ _ _ _ Hh Hf Hps) as Lt.
  unfold loop_fuel at 1. cbn [section_loop]. rewrite He, bind_lift, Hh.
  assert (E : (let! y := process_section o st should p s1 in section_loop (S (length (rest s))) o f (fst y) (snd y) false) w =
              section_loop (loop_fuel s2) o f st1 s2 false w1).
  { unfold mbind. rewrite Hps. cbn [fst snd]. apply section_loop_fuel; unfold loop_fuel; lia. }
  destruct (if negb found && should then FUnknown else pfmt p); try congruence; destruct (poper p); try congruence; exact E.
Qed.

Lemma loop_one_binary o f st s first should p s1 found w :
  seof s = false ->
  parse_patch_header_full (empty_patch f) (strip_size o) s = Ok (should, p, s1, found) ->
  (if negb found && should then FUnknown else pfmt p) <> FUnknown ->
  poper p = OpBinary ->
  section_loop (loop_fuel s) o f st s first w = section_loop (loop_fuel s1) o f (set_failure st) s1 false w.
Proof.
  intros He Hh Hf Hop.
  destruct (header_full_spec _ _ _ _ _ _ _ Hh) as (L1 & F0 & F1 & F2 & F3).
  assert (Lt : length (rest s1) < length (rest s)).
  { destruct found; [apply F3; [reflexivity|exact Hop]|]. rewrite (F0 eq_refl) in Hf. cbn [negb andb] in Hf. congruence. }
  unfold loop_fuel at 1. cbn [section_loop]. rewrite He, bind_lift, Hh.
  assert (E : section_loop (S (length (rest s))) o f (set_failure st) s1 false w =
              section_loop (loop_fuel s1) o f (set_failure st) s1 false w).
  { apply section_loop_fuel; unfold loop_fuel; lia. }
  rewrite Hop. destruct (if negb found && should then FUnknown else pfmt p); try congruence; exact E.
Qed.

(* the loop over the whole stream is the loop over what the fully processed sections left, started from the state and
   the world they left *)
Lemma loop_after_sections o f st s w st' s' w' :
  sections_done o f st s w st' s' w' ->
  forall first, exists first', section_loop (loop_fuel s) o f st s first w = section_loop (loop_fuel s') o f st' s' first' w'.
Proof.
  induction 1 as [st s w|st s w should p s1 found st1 s2 w1 st' s' w' He Hh Hf Hop Hps _ IH
                 |st s w should p s1 found st' s' w' He Hh Hf Hop _ IH]; intros first.
  - exists first. reflexivity.
  - destruct (IH false) as (first' & E). exists first'.
    rewrite (loop_one_section o f st s first should p s1 found st1 s2 w w1 He Hh Hf Hop Hps). exact E.
  - destruct (IH false) as (first' & E). exists first'.
    rewrite (loop_one_binary o f st s first should p s1 found w He Hh Hf Hop). exact E.
Qed.

(* the text of the section that starts at s is malformed: its header does not parse, or its header parses, announces a body
   to be parsed, and the body does not parse (bad_section_writes_nothing's hypothesis: whatever the operation recorded in
   the header is rewritten to) *)
Definition bad_section_text (o : options) (f : format) (s : stream) : Prop :=
  seof s = false /\
  ((exists e, parse_patch_header_full (empty_patch f) (strip_size o) s = Throw e) \/
   (exists p s1 found e,
      parse_patch_header_full (empty_patch f) (strip_size o) s = Ok (true, p, s1, found) /\
      (if negb found && true then FUnknown else pfmt p) <> FUnknown /\
      poper p <> OpBinary /\
      forall p', pfmt p' = pfmt p -> hunks p' = hunks p -> parse_patch_body p' s1 = Throw e)).

(* a world that differs from w only by operations that do not change the tree (openings for reading) *)
Definition same_tree_after (w w' : world) : Prop :=
  fs w' = fs w /\ umask w' = umask w /\ only_reads (trace w) (trace w').

Lemma loop_bad_section o f st s first w :
  bad_section_text o f s ->
  exists e w', section_loop (loop_fuel s) o f st s first w = (Throw e, w') /\ same_tree_after w w'.
Proof.
  intros [He [(e & Hh)|(p & s1 & found & e & Hh & Hf & Hop & Hbad)]]; unfold loop_fuel; cbn [section_loop]; rewrite He, bind_lift, Hh.
  - exists e, w. split; [reflexivity|]. split; [reflexivity|]. split; [reflexivity|apply only_reads_refl].
  - destruct (bad_section_writes_nothing o st p s1 e Hbad w) as (F & U & T & R).
    assert (E : exists e' w', (let! y := process_section o st true p s1 in section_loop (S (length (rest s))) o f (fst y) (snd y) false) w = (Throw e', w') /\
                              same_tree_after w w').
    { unfold mbind. destruct (process_section o st true p s1 w) as [[y|e'] w'] eqn:P; cbn [fst snd] in *; [destruct R|].
      exists e', w'. split; [reflexivity|]. split; [exact F|]. split; [exact U|exact T]. }
    destruct (if negb found && true then FUnknown else pfmt p); try congruence; destruct (poper p); try congruence; exact E.
Qed.

(* (3), the loop *)
Theorem text_abort_loop o f st s first w st' s' w' :
  sections_done o f st s w st' s' w' ->
  bad_section_text o f s' ->
  exists e w'', section_loop (loop_fuel s) o f st s first w = (Throw e, w'') /\ same_tree_after w' w''.
Proof.
  intros Hd Hb. destruct (loop_after_sections o f st s w st' s' w' Hd first) as (first' & E).
  destruct (loop_bad_section o f st' s' first' w' Hb) as (e & w'' & L & S). exists e, w''. rewrite E. auto.
Qed.

(* (3), the run.  When the sections before the malformed one have been processed completely (arriving in the state st' and the
   world w') the run ends with an exception in a world whose tree is exactly the tree of w': every file is as the last
   fully processed section that wrote it left it, or as it was before the run.  Nothing but openings for reading is
   performed after w'; in particular the writes and removals that git-style sections had deferred (deferred_writes st',
   deferred_removals st') are NOT performed: the files they were for stay as they were. *)
Theorem text_abort_keeps_whole_states o f t w st' s' w' :
  format_from_options o = Ok f ->
  sections_done o f ds0 (stream_of t) w st' s' w' ->
  bad_section_text o f s' ->
  exists e w'', process_patch o t w = (Throw e, w'') /\ same_tree_after w' w''.
Proof.
  intros Hfo Hd Hb. rewrite process_patch_unfold, bind_lift, Hfo.
  destruct (text_abort_loop o f ds0 (stream_of t) true w st' s' w' Hd Hb) as (e & w'' & L & S).
  exists e, w''. split; [|exact S]. unfold mbind. unfold loop_fuel in L. cbn [rest stream_of] in L. rewrite L. reflexivity.
Qed.

(* the same seen from main: exit status 2, same tree *)
Corollary text_abort_run o f stdin t w0 w st' s' w' :
  patch_file_bytes o stdin w0 = (Ok t, w) ->
  format_from_options o = Ok f ->
  sections_done o f ds0 (stream_of t) w st' s' w' ->
  bad_section_text o f s' ->
  rr_exit (run_patch o stdin w0) = 2 /\ same_tree_after w' (rr_world (run_patch o stdin w0)).
Proof.
  intros Hp Hfo Hd Hb. destruct (text_abort_keeps_whole_states o f t w st' s' w' Hfo Hd Hb) as (e & w'' & E & S).
  unfold run_patch, mbind. rewrite Hp, E. cbn [rr_exit rr_world]. split; [reflexivity|exact S].
Qed.

(* in the vocabulary of Proofs_Sections.process_patch_sum: the first section is processed completely and leaves t2, whose
   first section is malformed.  Unlike process_patch_sum nothing is asked of the deferred writes of the first section. *)
Corollary text_abort_after_first_section o f t t2 should p s1 found st1 w w1 :
  format_from_options o = Ok f ->
  parse_patch_header_full (empty_patch f) (strip_size o) (stream_of t) = Ok (should, p, s1, found) ->
  (if negb found && should then FUnknown else pfmt p) <> FUnknown ->
  poper p <> OpBinary ->
  process_section o ds0 should p s1 w = (Ok (st1, stream_of t2), w1) ->
  bad_section_text o f (stream_of t2) ->
  exists e w2, process_patch o t w = (Throw e, w2) /\ same_tree_after w1 w2.
Proof.
  intros Hfo Hh Hf Hop Hps Hb.
  apply (text_abort_keeps_whole_states o f t w st1 (stream_of t2) w1 Hfo); [|exact Hb].
  eapply SD_section; [reflexivity|exact Hh|exact Hf|exact Hop|exact Hps|apply SD_here].
Qed.

(* a stream that holds nothing that looks like a patch: "unable to determine the format", nothing is touched *)
Theorem no_patch_text_abort o f t w should p s1 found :
  format_from_options o = Ok f ->
  parse_patch_header_full (empty_patch f) (strip_size o) (stream_of t) = Ok (should, p, s1, found) ->
  (if negb found && should then FUnknown else pfmt p) = FUnknown ->
  process_patch o t w = (Throw EInvalidArgument, w).
Proof.
  intros Hfo Hh Hf. rewrite process_patch_unfold, bind_lift, Hfo. unfold mbind. cbn [section_loop].
  change (seof (stream_of t)) with false. cbv iota. rewrite bind_lift, Hh, Hf. reflexivity.
Qed.

(* ================================================================================================================== *)
(* Part B: rename_source_outlives_destination                                                                        *)
(* ================================================================================================================== *)

(* ---------- histories: the operations a computation performs WITH their results ---------- *)
(* The trace of World.v records the operations, not whether they succeeded.  A history is the list of the operations performed
   with the result `perform` gave for each (None = success); [Steps w log w'] replays it: it is the actual sequence of
   worlds of the run, since `perform` is a function of the world.  Between two operations the world may only change in
   what was written to standard output. *)
Definition entry : Type := sysop * option errno.

Definition same_tree (w w' : world) : Prop :=
  fs w' = fs w /\ umask w' = umask w /\ trace w' = trace w /\ fault w' = fault w.

Lemma same_tree_refl w : same_tree w w. Proof. repeat split. Qed.
Lemma same_tree_trans a b c : same_tree a b -> same_tree b c -> same_tree a c.
Proof. intros (A1 & A2 & A3 & A4) (B1 & B2 & B3 & B4). repeat split; congruence. Qed.

Inductive Steps : world -> list entry -> world -> Prop :=
| Steps_nil w w' : same_tree w w' -> Steps w [] w'
| Steps_cons w w0 op r w1 l w' :
    same_tree w w0 -> perform op w0 = (Ok r, w1) -> Steps w1 l w' -> Steps w ((op, r) :: l) w'.

Lemma Steps_same_l w w0 l w' : same_tree w w0 -> Steps w0 l w' -> Steps w l w'.
Proof.
  intros S H. inversion H as [a b S1|a a0 op r a1 l0 b S1 P R]; subst.
  - apply Steps_nil. eapply same_tree_trans; eauto.
  - eapply Steps_cons; [eapply same_tree_trans; eauto|exact P|exact R].
Qed.

Lemma Steps_app w l1 w1 l2 w2 : Steps w l1 w1 -> Steps w1 l2 w2 -> Steps w (l1 ++ l2) w2.
Proof.
  induction 1 as [a b S|a a0 op r a1 l b S P R IH]; intros H2; cbn [app].
  - eapply Steps_same_l; eauto.
  - eapply Steps_cons; [exact S|exact P|apply IH; exact H2].
Qed.

Lemma perform_trace op w r w1 : perform op w = (r, w1) -> trace w1 = trace w ++ [op].
Proof. unfold perform. destruct (fault w) as [[|k]|]; [|destruct (exec_op (fs w) (umask w) op)..]; intros [= <- <-]; reflexivity. Qed.

Lemma perform_total op w : exists r w1, perform op w = (Ok r, w1).
Proof. unfold perform. destruct (fault w) as [[|k]|]; [eauto| |]; destruct (exec_op (fs w) (umask w) op); eauto. Qed.

(* the trace of World.v is the history without the results *)
Lemma Steps_trace w l w' : Steps w l w' -> trace w' = trace w ++ map fst l.
Proof.
  induction 1 as [a b (_ & _ & T & _)|a a0 op r a1 l b (_ & _ & T & _) P R IH]; cbn [map fst].
  - rewrite T, app_nil_r. reflexivity.
  - rewrite IH, (perform_trace _ _ _ _ P), T, <- app_assoc. reflexivity.
Qed.

(* [Hist m P]: m has a history, and its result and history satisfy P *)
Definition Hist {A} (m : M A) (P : res A -> list entry -> Prop) : Prop :=
  forall w, exists log, Steps w log (snd (m w)) /\ P (fst (m w)) log.

Lemma Hist_weaken {A} (m : M A) (P Q : res A -> list entry -> Prop) :
  Hist m P -> (forall r l, P r l -> Q r l) -> Hist m Q.
Proof. intros H I w. destruct (H w) as (l & S & Hp). exists l. auto. Qed.

Lemma Hist_silent {A} (m : M A) (P : res A -> list entry -> Prop) :
  (forall w, same_tree w (snd (m w))) -> (forall w, P (fst (m w)) []) -> Hist m P.
Proof. intros H1 H2 w. exists []. split; [apply Steps_nil; apply H1|apply H2]. Qed.

Lemma Hist_ret {A} (a : A) (P : res A -> list entry -> Prop) : P (Ok a) [] -> Hist (mret a) P.
Proof. intros H. apply Hist_silent; intros w; [apply same_tree_refl|exact H]. Qed.
Lemma Hist_throw {A} e (P : res A -> list entry -> Prop) : P (Throw e) [] -> Hist (mthrow e) P.
Proof. intros H. apply Hist_silent; intros w; [apply same_tree_refl|exact H]. Qed.
Lemma Hist_lift {A} (r : res A) (P : res A -> list entry -> Prop) : P r [] -> Hist (mlift r) P.
Proof. intros H. apply Hist_silent; intros w; [apply same_tree_refl|exact H]. Qed.
Lemma Hist_getfs (P : res fsmap -> list entry -> Prop) : (forall m, P (Ok m) []) -> Hist get_fs P.
Proof. intros H. apply Hist_silent; intros w; [apply same_tree_refl|apply H]. Qed.
Lemma Hist_stdout {A} (a : A) data (P : res A -> list entry -> Prop) :
  P (Ok a) [] -> Hist (fun w => (Ok a, mkWorld (fs w) (umask w) (trace w) (fault w) (stdout_data w ++ data))) P.
Proof. intros H. apply Hist_silent; intros w; [repeat split|exact H]. Qed.

Lemma Hist_perform op (P : res (option errno) -> list entry -> Prop) :
  (forall r, P (Ok r) [(op, r)]) -> Hist (perform op) P.
Proof.
  intros H w. destruct (perform_total op w) as (r & w1 & E). exists [(op, r)]. rewrite E. cbn [fst snd]. split; [|apply H].
  eapply Steps_cons; [apply same_tree_refl|exact E|apply Steps_nil; apply same_tree_refl].
Qed.

Lemma Hist_bind {A B} (m : M A) (k : A -> M B) (P0 : res A -> list entry -> Prop) (Pk : A -> res B -> list entry -> Prop)
      (Q : res B -> list entry -> Prop) :
  Hist m P0 -> (forall a, Hist (k a) (Pk a)) ->
  (forall e l, P0 (Throw e) l -> Q (Throw e) l) ->
  (forall a l1 r l2, P0 (Ok a) l1 -> Pk a r l2 -> Q r (l1 ++ l2)) ->
  Hist (mbind m k) Q.
Proof.
  intros Hm Hk Ht Ho w. unfold mbind. destruct (Hm w) as (l1 & S1 & H1). destruct (m w) as [[a|e] w1]; cbn [fst snd] in *.
  - destruct (Hk a w1) as (l2 & S2 & H2). exists (l1 ++ l2). split; [eapply Steps_app; eauto|]. eapply Ho; eauto.
  - exists l1. split; [exact S1|]. apply Ht. exact H1.
Qed.

(* a checked operation: it returns normally exactly when the operation succeeded *)
Lemma Hist_checked op (P : res unit -> list entry -> Prop) :
  P (Ok tt) [(op, None)] -> (forall e, P (Throw ESystem) [(op, Some e)]) -> Hist (checked op) P.
Proof.
  intros H1 H2. unfold checked.
  eapply Hist_bind with (P0 := fun r l => exists x, r = Ok x /\ l = [(op, x)])
                        (Pk := fun x r l => l = [] /\ r = match x with None => Ok tt | Some _ => Throw ESystem end).
  - apply Hist_perform. intros r. eauto.
  - intros [e|]; [apply Hist_throw|apply Hist_ret]; auto.
  - intros e l (x & E & _). discriminate.
  - intros a l1 r l2 (x & E & ->) (-> & ->). inversion E; subst x. destruct a as [e|]; cbn [app]; auto.
Qed.

(* ---------- having a history at all ---------- *)
Definition Logged {A} (m : M A) : Prop := Hist m (fun _ _ => True).

Lemma Logged_bind {A B} (m : M A) (k : A -> M B) : Logged m -> (forall a, Logged (k a)) -> Logged (mbind m k).
Proof. intros Hm Hk. eapply Hist_bind with (Pk := fun _ _ _ => True); [exact Hm|exact Hk|auto|auto]. Qed.
Lemma Logged_ret {A} (a : A) : Logged (mret a). Proof. apply Hist_ret. exact I. Qed.
Lemma Logged_throw {A} e : Logged (@mthrow A e). Proof. apply Hist_throw. exact I. Qed.
Lemma Logged_lift {A} (r : res A) : Logged (mlift r). Proof. apply Hist_lift. exact I. Qed.
Lemma Logged_getfs : Logged get_fs. Proof. apply Hist_getfs. intros; exact I. Qed.
Lemma Logged_stdout {A} (a : A) data : Logged (fun w => (Ok a, mkWorld (fs w) (umask w) (trace w) (fault w) (stdout_data w ++ data))).
Proof. apply Hist_stdout. exact I. Qed.
Lemma Logged_perform op : Logged (perform op). Proof. apply Hist_perform. intros; exact I. Qed.
Lemma Logged_checked op : Logged (checked op). Proof. apply Hist_checked; intros; exact I. Qed.

Ltac lg :=
  repeat first
    [ apply Logged_ret | apply Logged_throw | apply Logged_lift | apply Logged_getfs | apply Logged_stdout
    | apply Logged_checked | apply Logged_perform
    | assumption
    | match goal with H : context [Logged _] |- Logged _ => apply H end
    | match goal with
      | |- Logged (mbind _ _) => apply Logged_bind; [|intros ?]
      | |- Logged (if ?c then _ else _) => destruct c
      | |- Logged (match ?x with _ => _ end) => destruct x
      | |- Logged (let '(_, _) := ?x in _) => destruct x
      end ].

Lemma Logged_rmdir_parents : forall fuel p, Logged (rmdir_parents fuel p).
Proof. induction fuel as [|f IH]; intros p; cbn [rmdir_parents]; lg. Qed.
Lemma Logged_remove p : Logged (remove_file_and_empty_parent_folders p).
Proof. unfold remove_file_and_empty_parent_folders. pose proof Logged_rmdir_parents. lg. Qed.
Lemma Logged_mkdirs : forall ds, Logged (mkdirs ds).
Proof. induction ds as [|d r IH]; cbn [mkdirs]; lg. Qed.
Lemma Logged_ensure p : Logged (ensure_parent_directories p).
Proof. unfold ensure_parent_directories. pose proof Logged_mkdirs. lg. Qed.
Lemma Logged_backup o st p : Logged (make_backup_for o st p).
Proof. unfold make_backup_for, backup_core. pose proof Logged_ensure. lg. Qed.
Lemma Logged_write_now o st d : Logged (write_now o st d).
Proof. unfold write_now. pose proof Logged_backup. lg. Qed.
Lemma Logged_finalize_writes_from o all : forall ds st, Logged (finalize_writes_from o all st ds).
Proof. induction ds as [|d r IH]; intros st; cbn [finalize_writes_from]; pose proof Logged_write_now; pose proof Logged_ensure; lg. Qed.
Lemma Logged_finalize_removals ws : forall rs, Logged (finalize_removals ws rs).
Proof. induction rs as [|p r IH]; cbn [finalize_removals]; pose proof Logged_remove; lg. Qed.
Lemma Logged_refuse o st out p : Logged (refuse_to_patch o st out p).
Proof. unfold refuse_to_patch. lg. Qed.
Lemma Logged_body_if should p s : Logged (body_if should p s).
Proof. unfold body_if. lg. Qed.
Lemma Logged_section_tail o st ftp outf op op1 needed ar s2 : Logged (section_tail o st ftp outf op op1 needed ar s2).
Proof.
  unfold section_tail.
  pose proof Logged_ensure. pose proof Logged_backup. pose proof Logged_write_now. pose proof Logged_remove.
  lg.
Qed.
Lemma Logged_process_section o st should p s : Logged (process_section o st should p s).
Proof.
  unfold process_section.
  pose proof Logged_refuse. pose proof Logged_body_if. pose proof Logged_section_tail.
  lg.
Qed.
Lemma Logged_section_loop o f : forall fuel st s first, Logged (section_loop fuel o f st s first).
Proof. induction fuel as [|k IH]; intros st s first; cbn [section_loop]; pose proof Logged_process_section; lg. Qed.
Lemma Logged_finish o st : Logged (finish o st).
Proof. unfold finish, finalize_writes. pose proof Logged_finalize_writes_from. pose proof Logged_finalize_removals. lg. Qed.
Lemma Logged_process_patch o t : Logged (process_patch o t).
Proof. rewrite process_patch_unfold. pose proof Logged_section_loop. pose proof Logged_finish. lg. Qed.

(* what is known of the trace (TP) and of the result (Post) is known of the history *)
Lemma Hist_of_TP_Post {A} (m : M A) (P : sysop -> Prop) (G : A -> Prop) :
  Logged m -> TP P m -> Post m G ->
  Hist m (fun r l => Forall (fun en => P (fst en)) l /\ (forall a, r = Ok a -> G a)).
Proof.
  intros L T Po w. destruct (L w) as (l & S & _). exists l. split; [exact S|]. split.
  - destruct (T w) as (ext & E & F). rewrite (Steps_trace _ _ _ S) in E. apply app_inv_head in E. rewrite <- E in F.
    clear - F. induction l as [|x l IH]; [constructor|]. cbn [map] in F. inversion F; subst. constructor; auto.
  - intros a E. destruct (m w) as [r w'] eqn:Em. cbn [fst] in E. subst r. exact (Po w a w' Em).
Qed.

Lemma Hist_of_TP {A} (m : M A) (P : sysop -> Prop) :
  Logged m -> TP P m -> Hist m (fun _ l => Forall (fun en => P (fst en)) l).
Proof.
  intros L T. eapply Hist_weaken; [apply (Hist_of_TP_Post m P (fun _ => True) L T (Post_true m))|]. intros r l [H _]. exact H.
Qed.

(* ---------- order in a history ---------- *)
(* every entry of l that satisfies R has an entry that satisfies Q somewhere before it *)
Definition lpreceded (Q R : entry -> Prop) (l : list entry) : Prop :=
  forall pre x post, l = pre ++ x :: post -> R x -> Exists Q pre.

Lemma lForall_not_in (R : entry -> Prop) l pre x post : Forall (fun y => ~ R y) l -> l = pre ++ x :: post -> R x -> False.
Proof.
  intros F E Hx. rewrite E in F. apply Forall_app in F. destruct F as [_ F]. inversion F as [|y r Hy Hr]; subst. exact (Hy Hx).
Qed.

Lemma lpreceded_none Q R l : Forall (fun y => ~ R y) l -> lpreceded Q R l.
Proof. intros F pre x post E Hx. exfalso. exact (lForall_not_in R l pre x post F E Hx). Qed.

Lemma lpreceded_app_none Q R l1 l2 : Forall (fun y => ~ R y) l1 -> lpreceded Q R l2 -> lpreceded Q R (l1 ++ l2).
Proof.
  intros F P pre x post E Hx. apply app_eq_app in E. destruct E as (l & [[E1 E2]|[E1 E2]]).
  - destruct l as [|y l].
    + cbn [app] in E2. assert (X : Exists Q []) by (apply (P [] x post); [symmetry; exact E2|exact Hx]). inversion X.
    + cbn [app] in E2. inversion E2; subst. exfalso. exact (lForall_not_in R _ pre y l F eq_refl Hx).
  - subst pre. apply Exists_app. right. apply (P l x post); [exact E2|exact Hx].
Qed.

Lemma lpreceded_app_done Q R l1 l2 : lpreceded Q R l1 -> Exists Q l1 -> lpreceded Q R (l1 ++ l2).
Proof.
  intros P Ex pre x post E Hx. apply app_eq_app in E. destruct E as (l & [[E1 E2]|[E1 E2]]).
  - destruct l as [|y l].
    + rewrite app_nil_r in E1. subst pre. exact Ex.
    + cbn [app] in E2. inversion E2; subst. apply (P pre y l eq_refl Hx).
  - subst pre. apply Exists_app. left. exact Ex.
Qed.

(* ---------- (1) the finalisation: every removal comes after every deferred write has succeeded ---------- *)
Definition is_unlink (en : entry) : Prop := exists q r, en = (OUnlink q, r).
(* the complete content of the deferred write d has been written to its destination, successfully *)
Definition wrote (d : deferred) (en : entry) : Prop := en = (OWrite (d_dest d) (d_data d), None).
Definition no_unlink (l : list entry) : Prop := Forall (fun en => ~ is_unlink en) l.

Definition not_unlink_op (op : sysop) : Prop := forall q, op <> OUnlink q.

Lemma no_unlink_of l : Forall (fun en => not_unlink_op (fst en)) l -> no_unlink l.
Proof. intros F. eapply Forall_impl; [|exact F]. intros [op r] H (q & r' & E). inversion E; subst. exact (H q eq_refl). Qed.

Lemma TP_ensure_nu p : TP not_unlink_op (ensure_parent_directories p).
Proof. eapply TP_weaken; [apply TP_ensure|]. intros op (d & -> & _) q. discriminate. Qed.

Lemma TP_backup_nu o st p : TP not_unlink_op (make_backup_for o st p).
Proof. unfold make_backup_for, backup_core. pose proof TP_ensure_nu. tp; intros q; discriminate. Qed.

Lemma no_unlink_app a b : no_unlink a -> no_unlink b -> no_unlink (a ++ b).
Proof. intros A B. apply Forall_app. auto. Qed.

Lemma no_unlink_nil : no_unlink []. Proof. constructor. Qed.

Lemma no_unlink_one op r : not_unlink_op op -> no_unlink [(op, r)].
Proof. intros H. apply no_unlink_of. repeat constructor. exact H. Qed.

(* a piece of code which performs no removal *)
Lemma Hist_nu {A} (m : M A) : Logged m -> TP not_unlink_op m -> Hist m (fun _ l => no_unlink l).
Proof. intros L T. eapply Hist_weaken; [apply Hist_of_TP; eauto|]. intros r l F. apply no_unlink_of. exact F. Qed.

(* write_now performs no removal, and when it returns normally the write of the complete content has succeeded *)
Lemma Hist_write_now o st d :
  Hist (write_now o st d) (fun r l => no_unlink l /\ (forall a, r = Ok a -> Exists (wrote d) l)).
Proof.
  unfold write_now.
  eapply Hist_bind with (P0 := fun _ l => no_unlink l)
                        (Pk := fun _ r l => no_unlink l /\ (forall a, r = Ok a -> Exists (wrote d) l)).
  { apply Hist_nu; [destruct (d_backup d); [apply Logged_backup|apply Logged_ret]|].
    destruct (d_backup d); [apply TP_backup_nu|apply TP_ret]. }
  2:{ intros e l H. split; [exact H|]. intros a E. discriminate. }
  2:{ intros a l1 r l2 H1 [H2 H3]. split; [apply no_unlink_app; assumption|]. intros b E. apply Exists_app. right. eapply H3. exact E. }
  intros st1.
  eapply Hist_bind with (P0 := fun _ l => l = [])
                        (Pk := fun _ r l => no_unlink l /\ (forall a, r = Ok a -> Exists (wrote d) l)).
  { apply Hist_getfs. reflexivity. }
  2:{ intros e l ->. split; [apply no_unlink_nil|]. intros a E. discriminate. }
  2:{ intros a l1 r l2 -> H. exact H. }
  intros m.
  eapply Hist_bind with (P0 := fun _ l => no_unlink l)
                        (Pk := fun _ r l => no_unlink l /\ (forall a, r = Ok a -> Exists (wrote d) l)).
  { apply Hist_nu.
    - destruct (d_chmod_first d); [destruct (exists_ m (d_dest d))|]; lg.
    - destruct (d_chmod_first d); [destruct (exists_ m (d_dest d))|]; tp. intros q; discriminate. }
  2:{ intros e l H. split; [exact H|]. intros a E. discriminate. }
  2:{ intros a l1 r l2 H1 [H2 H3]. split; [apply no_unlink_app; assumption|]. intros b E. apply Exists_app. right. eapply H3. exact E. }
  intros _.
  eapply Hist_bind with (P0 := fun r l => no_unlink l /\ (forall a, r = Ok a -> Exists (wrote d) l))
                        (Pk := fun _ r l => no_unlink l).
  { apply Hist_checked.
    - split; [apply no_unlink_one; intros q; discriminate|]. intros _ _. constructor. reflexivity.
    - intros e. split; [apply no_unlink_one; intros q; discriminate|]. intros a E. discriminate. }
  2:{ intros e l [H _]. split; [exact H|]. intros a E. discriminate. }
  2:{ intros a l1 r l2 [H1 H2] H3. split; [apply no_unlink_app; assumption|]. intros b _. apply Exists_app. left. eapply H2. reflexivity. }
  intros _.
  eapply Hist_bind with (P0 := fun _ l => no_unlink l) (Pk := fun _ _ l => l = []).
  { apply Hist_nu.
    - destruct (d_perm_after d); lg.
    - destruct (d_perm_after d); tp. intros q; discriminate. }
  { intros _. apply Hist_ret. reflexivity. }
  { intros e l H. exact H. }
  { intros a l1 r l2 H ->. rewrite app_nil_r. exact H. }
Qed.

Lemma wrote_with_backup_of all d en : wrote (with_backup_of all d) en <-> wrote d en.
Proof. unfold wrote, with_backup_of. cbn [d_dest d_data]. tauto. Qed.

Lemma Hist_finalize_writes_from o all : forall ds st,
  Hist (finalize_writes_from o all st ds)
       (fun r l => no_unlink l /\ (forall a, r = Ok a -> forall d, In d ds -> Exists (wrote d) l)).
Proof.
  induction ds as [|d0 ds IH]; intros st; cbn [finalize_writes_from].
  - apply Hist_ret. split; [apply no_unlink_nil|]. intros a _ d [].
  - eapply Hist_bind with (P0 := fun _ l => no_unlink l)
                          (Pk := fun _ r l => no_unlink l /\ (forall a, r = Ok a -> forall d, In d (d0 :: ds) -> Exists (wrote d) l)).
    { apply Hist_nu; [apply Logged_ensure|apply TP_ensure_nu]. }
    2:{ intros e l H. split; [exact H|]. intros a E. discriminate. }
    2:{ intros a l1 r l2 H1 [H2 H3]. split; [apply no_unlink_app; assumption|]. intros b E d I. apply Exists_app. right. eapply H3; eauto. }
    intros _.
    eapply Hist_bind; [apply Hist_write_now|intros st'; apply IH| |].
    + intros e l [H _]. split; [exact H|]. intros a E. discriminate.
    + intros a l1 r l2 [H1 H2] [H3 H4]. split; [apply no_unlink_app; assumption|].
      intros b E d [<-|I]; apply Exists_app.
      * left. eapply Exists_impl; [|eapply H2; reflexivity]. intros en. apply wrote_with_backup_of.
      * right. eapply H4; eauto.
Qed.

(* (1), on the history of the finalisation, for every state the loop over the sections can leave, every world, every
   pending failure: every removal (the sources of the renames are removed here, and nothing else is) comes after the
   successful write of the complete content of EVERY deferred write.  In particular: if one of the writes fails, or the
   run is killed before the last of them has succeeded, no source has been removed. *)
Theorem finish_unlink_after_writes o st w :
  exists log, Steps w log (snd (finish o st w)) /\
    forall d, In d (deferred_writes st) -> lpreceded (wrote d) is_unlink log.
Proof.
  assert (H : Hist (finish o st) (fun _ l => forall d, In d (deferred_writes st) -> lpreceded (wrote d) is_unlink l)); [|exact (H w)].
  unfold finish, finalize_writes.
  eapply Hist_bind; [apply Hist_finalize_writes_from| | |].
  - intros st1. apply Logged_bind; [apply Logged_finalize_removals|intros _; apply Logged_ret].
  - intros e l [H _] d _. apply lpreceded_none. exact H.
  - intros a l1 r l2 [H1 H2] _ d I. apply lpreceded_app_done; [apply lpreceded_none; exact H1|].
    eapply H2; [reflexivity|exact I].
Qed.

(* what a successful write leaves: the destination holds the complete content (through a link when the destination is one) *)
Definition content (m : fsmap) (p : list N) : option (list N) :=
  match lookup m p with
  | Some (Reg d _) => Some d
  | Some (Sym t) => match lookup m (link_target p t) with Some (Reg d _) => Some d | _ => None end
  | _ => None
  end.

Lemma successful_write_content p data w w1 : perform (OWrite p data) w = (Ok None, w1) -> content (fs w1) p = Some data.
Proof.
  intros E. destruct (perform_ok _ _ _ _ E) as [[_ X]|(e & X & _)]; [|discriminate]. unfold content.
  cbn [exec_op] in X. destruct (lookup (fs w) p) as [[d md|md|t|md]|] eqn:L; try discriminate.
  - destruct (parent_ok (fs w) p false && owner_w md); [|discriminate]. inversion X as [X']. rewrite lookup_upd_same. reflexivity.
  - destruct (list_eq_dec N.eq_dec (link_target p t) p) as [Eq|Ne].
    + rewrite Eq, L in X. discriminate.
    + assert (Lp : forall n, lookup (upd (fs w) (link_target p t) n) p = Some (Sym t)) by (intros n; rewrite lookup_upd_other by exact Ne; exact L).
      destruct (lookup (fs w) (link_target p t)) as [[d2 m2|m2|t2|m2]|]; try discriminate.
      * destruct (owner_w m2); [|discriminate]. inversion X as [X']. rewrite Lp, lookup_upd_same. reflexivity.
      * inversion X as [X']. rewrite Lp, lookup_upd_same. reflexivity.
  - destruct (parent_ok (fs w) p true); [|discriminate]. inversion X as [X']. rewrite lookup_upd_same. reflexivity.
Qed.

(* reading a history: an entry (OWrite p data, None) in the history of a run is a moment of that run at which p held data *)
Lemma Steps_split w l1 en l2 w' : Steps w (l1 ++ en :: l2) w' ->
  exists wa wb, Steps w l1 wa /\ perform (fst en) wa = (Ok (snd en), wb) /\ Steps wb l2 w'.
Proof.
  revert w. induction l1 as [|x l1 IH]; intros w H; cbn [app] in H.
  - inversion H as [|a a0 op r a1 l0 b S P R]; subst. exists a0, a1. split; [apply Steps_nil; exact S|]. split; [exact P|exact R].
  - inversion H as [|a a0 op r a1 l0 b S P R]; subst. destruct (IH _ R) as (wa & wb & S1 & P1 & S2).
    exists wa, wb. split; [eapply Steps_cons; eauto|]. auto.
Qed.

Lemma wrote_moment d w l1 en l2 w' :
  Steps w (l1 ++ en :: l2) w' -> wrote d en ->
  exists wa wb, Steps w l1 wa /\ Steps wb l2 w' /\ content (fs wb) (d_dest d) = Some (d_data d).
Proof.
  intros S ->. destruct (Steps_split _ _ _ _ _ S) as (wa & wb & S1 & P & S2). cbn [fst snd] in P.
  exists wa, wb. split; [exact S1|]. split; [exact S2|]. eapply successful_write_content. exact P.
Qed.

(* the removals of the finalisation are those of the sources recorded, and never of a name that is also written *)
Lemma TP_finalize_removals_which ws : forall rs,
  TP (fun op => forall q, op = OUnlink q -> In q rs /\ existsb (fun d => str_eqb (d_dest d) q) ws = false) (finalize_removals ws rs).
Proof.
  induction rs as [|p r IH]; cbn [finalize_removals]; [apply TP_ret|].
  apply TP_bind.
  - destruct (existsb (fun d => str_eqb (d_dest d) p) ws) eqn:E; [apply TP_ret|]. eapply TP_weaken; [apply TP_remove|].
    intros op [->|(d & -> & _)] q Eq; [|discriminate]. inversion Eq; subst q. split; [left; reflexivity|exact E].
  - intros _. eapply TP_weaken; [apply IH|]. intros op H q Eq. destruct (H q Eq) as [I E]. split; [right; exact I|exact E].
Qed.

Lemma TP_finalize_writes_from_nu o all : forall ds st, TP not_unlink_op (finalize_writes_from o all st ds).
Proof.
  induction ds as [|d r IH]; intros st; cbn [finalize_writes_from]; [apply TP_ret|].
  apply TP_bind; [apply TP_ensure_nu|intros _]. apply TP_bind; [|intros st'; apply IH].
  unfold write_now. pose proof TP_backup_nu. tp; intros q'; discriminate.
Qed.

Theorem finish_unlinks_sources_only o st :
  TP (fun op => forall q, op = OUnlink q ->
                  In q (deferred_removals st) /\ existsb (fun d => str_eqb (d_dest d) q) (deferred_writes st) = false) (finish o st).
Proof.
  unfold finish, finalize_writes. apply TP_bind.
  - eapply TP_weaken; [apply TP_finalize_writes_from_nu|]. intros op H q ->. exfalso. exact (H q eq_refl).
  - intros st1. apply TP_bind; [apply TP_finalize_removals_which|intros _; apply TP_ret].
Qed.

(* ---------- (1) inside one section: a rename that is not deferred ---------- *)
(* the output file has been written completely (or, for a symbolic link, created), successfully *)
Definition wrote_out (outf data : list N) (en : entry) : Prop :=
  en = (OWrite outf data, None) \/ en = (OSymlink data outf, None).
Definition unlink_of (p : list N) (en : entry) : Prop := exists r, en = (OUnlink p, r).

Section RenameSection.
Variable o : options.
Variables ftp outf : list N.
Hypothesis Hne : ftp <> outf.

Definition nr_op (op : sysop) : Prop := op <> OUnlink ftp.
Definition NR (l : list entry) : Prop := Forall (fun en => ~ unlink_of ftp en) l.

Lemma NR_of l : Forall (fun en => nr_op (fst en)) l -> NR l.
Proof. intros F. eapply Forall_impl; [|exact F]. intros [op r] H (r' & E). inversion E; subst. exact (H eq_refl). Qed.
Lemma NR_nil : NR []. Proof. constructor. Qed.
Lemma NR_app a b : NR a -> NR b -> NR (a ++ b). Proof. intros A B. apply Forall_app. auto. Qed.
Lemma NR_no_unlink l : no_unlink l -> NR l.
Proof. intros F. eapply Forall_impl; [|exact F]. intros en H (r & E). apply H. eexists _, _. exact E. Qed.

Lemma Hist_nr {A} (m : M A) : Logged m -> TP nr_op m -> Hist m (fun _ l => NR l).
Proof. intros L T. eapply Hist_weaken; [apply Hist_of_TP; eauto|]. intros r l F. apply NR_of. exact F. Qed.

Lemma TP_nr_of_nu {A} (m : M A) : TP not_unlink_op m -> TP nr_op m.
Proof. intros H. eapply TP_weaken; [exact H|]. intros op Hn E. exact (Hn ftp E). Qed.

Lemma TP_remove_outf_nr : TP nr_op (remove_file_and_empty_parent_folders outf).
Proof.
  eapply TP_weaken; [apply TP_remove|]. intros op [->|(d & -> & _)] E; [|discriminate]. inversion E. apply Hne. symmetry. assumption.
Qed.

Theorem section_tail_unlink_after_write st operms operms1 needed ar s2 :
  Hist (section_tail o st ftp outf operms operms1 needed ar s2)
       (fun _ l => lpreceded (wrote_out outf (lines_bytes (newline_output o) (r_out ar))) (unlink_of ftp) l).
Proof.
  set (Q := wrote_out outf (lines_bytes (newline_output o) (r_out ar))).
  unfold section_tail.
  eapply Hist_bind with (P0 := fun _ l => NR l) (Pk := fun _ _ l => lpreceded Q (unlink_of ftp) l).
  { apply Hist_nr.
    - pose proof Logged_ensure. lg.
    - pose proof (fun p => TP_nr_of_nu _ (TP_ensure_nu p)). tp; intros E; discriminate. }
  2:{ intros e l H. apply lpreceded_none. exact H. }
  2:{ intros a l1 r l2 H1 H2. apply lpreceded_app_none; assumption. }
  intros st2.
  destruct (str_eqb (out_file_path o) (bs "-")).
  { apply Hist_stdout. apply lpreceded_none. apply NR_nil. }
  eapply Hist_bind with (P0 := fun _ l => NR l) (Pk := fun _ _ l => lpreceded Q (unlink_of ftp) l).
  { apply Hist_nr.
    - pose proof Logged_backup. pose proof Logged_remove. lg.
    - pose proof (fun st p => TP_nr_of_nu _ (TP_backup_nu o st p)). pose proof TP_remove_outf_nr. tp. }
  2:{ intros e l H. apply lpreceded_none. exact H. }
  2:{ intros a l1 r l2 H1 H2. apply lpreceded_app_none; assumption. }
  intros [st4 wtf].
  eapply Hist_bind with
    (P0 := fun r l => NR l /\ forall st5, r = Ok st5 ->
                        Exists Q l \/ wtf = false \/ existsb (fun d => str_eqb (d_dest d) outf) (deferred_writes st5) = true)
    (Pk := fun st5 _ l => (wtf = false \/ existsb (fun d => str_eqb (d_dest d) outf) (deferred_writes st5) = true) -> l = []).
  - (* the write *)
    destruct wtf; [|apply Hist_ret; split; [apply NR_nil|intros; auto]].
    eapply Hist_bind with (P0 := fun _ l => NR l)
      (Pk := fun _ r l => NR l /\ forall st5, r = Ok st5 ->
                        Exists Q l \/ true = false \/ existsb (fun d => str_eqb (d_dest d) outf) (deferred_writes st5) = true).
    { apply Hist_nr; [apply Logged_ensure|apply TP_nr_of_nu; apply TP_ensure_nu]. }
    2:{ intros e l H. split; [exact H|]. intros st5 E. discriminate. }
    2:{ intros a l1 r l2 H1 [H2 H3]. split; [apply NR_app; assumption|]. intros st5 E. destruct (H3 st5 E) as [X|X]; [left; apply Exists_app; auto|right; exact X]. }
    intros _.
    match goal with |- Hist (if ?c then _ else _) _ => destruct c end.
    + destruct (is_symlink_mode (new_mode (r_patch ar))).
      * eapply Hist_bind with (P0 := fun _ l => NR l)
          (Pk := fun _ r l => NR l /\ forall st5, r = Ok st5 -> Exists Q l).
        { apply Hist_nr; [pose proof Logged_backup; lg|]. pose proof (fun st p => TP_nr_of_nu _ (TP_backup_nu o st p)). tp. }
        2:{ intros e l H. split; [exact H|]. intros st5 E. discriminate. }
        2:{ intros a l1 r l2 H1 [H2 H3]. split; [apply NR_app; assumption|]. intros st5 E. left. apply Exists_app. right. eapply H3. exact E. }
        intros st'.
        eapply Hist_bind with (P0 := fun r l => NR l /\ (forall a, r = Ok a -> Exists Q l)) (Pk := fun _ _ l => l = []).
        { apply Hist_checked.
          - split; [apply NR_of; repeat constructor; intros E; discriminate|]. intros _ _. constructor. right. reflexivity.
          - intros e. split; [apply NR_of; repeat constructor; intros E; discriminate|]. intros a E. discriminate. }
        { intros _. apply Hist_ret. reflexivity. }
        { intros e l [H _]. split; [exact H|]. intros st5 E. discriminate. }
        { intros a l1 r l2 [H1 H2] ->. rewrite app_nil_r. split; [exact H1|]. intros st5 _. eapply H2. reflexivity. }
      * apply Hist_ret. split; [apply NR_nil|]. intros st5 E. inversion E; subst st5. right. right.
        cbn [deferred_writes]. rewrite existsb_app. cbn [existsb d_dest]. rewrite str_eqb_refl. apply orb_true_r.
    + eapply Hist_weaken; [apply Hist_write_now|]. cbv beta. intros r l [H1 H2]. split; [apply NR_no_unlink; exact H1|].
      intros st5 E. left. eapply Exists_impl; [|eapply H2; exact E]. intros en W. left. exact W.
  - (* the removal of the source *)
    intros st5.
    eapply Hist_bind with (P0 := fun _ l => (wtf = false \/ existsb (fun d => str_eqb (d_dest d) outf) (deferred_writes st5) = true) -> l = [])
                          (Pk := fun _ _ l => l = []).
    + destruct wtf.
      * rewrite andb_true_r.
        destruct (Nat.eqb (r_failed ar) 0 && match poper (r_patch ar) with OpRename => true | _ => false end);
          [|apply Hist_ret; reflexivity].
        destruct (existsb (fun d => str_eqb (d_dest d) outf) (deferred_writes st5)).
        -- apply Hist_ret. reflexivity.
        -- eapply Hist_weaken; [apply (Logged_bind _ _ (Logged_remove ftp)); intros _; apply Logged_ret|].
           intros r l _ [X|X]; discriminate.
      * rewrite andb_false_r. cbn [andb]. apply Hist_ret. reflexivity.
    + intros st6. apply Hist_ret. reflexivity.
    + intros e l H. exact H.
    + intros a l1 r l2 H ->. rewrite app_nil_r. exact H.
  - intros e l [H _]. apply lpreceded_none. exact H.
  - intros st5 l1 r l2 [H1 H2] H3. destruct (H2 st5 eq_refl) as [X|X].
    + apply lpreceded_app_done; [apply lpreceded_none; exact H1|exact X].
    + rewrite (H3 X), app_nil_r. apply lpreceded_none. exact H1.
Qed.
End RenameSection.

(* the same for the whole section: before section_tail a section only opens files for reading and, when it refuses the
   target, writes the reject file *)
Theorem section_unlink_after_write o st should p s w :
  let ftp := if is_nil (file_to_patch o) then guess_filepath (fs w) (map d_dest (deferred_writes st)) p o else file_to_patch o in
  let outf := output_path o p ftp in
  ftp <> outf ->
  exists log, Steps w log (snd (process_section o st should p s w)) /\
    lpreceded (fun en => exists data, wrote_out outf data en) (unlink_of ftp) log.
Proof.
  cbv zeta. intros Hne. unfold process_section. unfold mbind at 1. cbn [get_fs].
  set (ftp := if is_nil (file_to_patch o) then guess_filepath (fs w) (map d_dest (deferred_writes st)) p o else file_to_patch o) in *.
  set (outf := output_path o p ftp) in *.
  set (Q := fun en => exists data, wrote_out outf data en).
  match goal with |- exists log, Steps w log (snd (?body w)) /\ _ =>
    assert (H : Hist body (fun _ l => lpreceded Q (unlink_of ftp) l)); [|exact (H w)] end.
  generalize (fs w). intros m.
  assert (Hnr : forall A (m0 : M A), Logged m0 -> TP (nr_op ftp) m0 -> Hist m0 (fun _ l => lpreceded Q (unlink_of ftp) l)).
  { intros A m0 L T. eapply Hist_weaken; [apply (Hist_nr ftp m0 L T)|]. intros r l H. apply lpreceded_none. exact H. }
  assert (Hseq : forall A B (m0 : M A) (k : A -> M B), Logged m0 -> TP (nr_op ftp) m0 ->
                   (forall a, Hist (k a) (fun _ l => lpreceded Q (unlink_of ftp) l)) ->
                   Hist (mbind m0 k) (fun _ l => lpreceded Q (unlink_of ftp) l)).
  { intros A B m0 k L T Hk.
    eapply Hist_bind with (P0 := fun _ l => NR ftp l) (Pk := fun _ _ l => lpreceded Q (unlink_of ftp) l);
      [apply (Hist_nr ftp m0 L T)|exact Hk| |].
    - intros e l H. apply lpreceded_none. exact H.
    - intros a l1 r l2 H1 H2. apply lpreceded_app_none; assumption. }
  destruct (is_nil ftp); [apply Hnr; [apply Logged_throw|apply TP_throw]|].
  assert (Refuse : Hist (let! ps := body_if should p s in let! st' := refuse_to_patch o st outf (fst ps) in mret (st', snd ps))
                        (fun _ l => lpreceded Q (unlink_of ftp) l)).
  { apply Hnr.
    - pose proof Logged_body_if. pose proof Logged_refuse. lg.
    - unfold body_if, refuse_to_patch. tp. intros E; discriminate. }
  destruct (exists_ m ftp && negb (is_regular_file m ftp)); [exact Refuse|].
  destruct (N.eqb (N.land (effective_perms st m outf) write_mask) 0 && match read_only o with ROFail => true | _ => false end); [exact Refuse|].
  apply Hseq.
  { lg. }
  { tp. intros E; discriminate. }
  intros input_lines. apply Hseq.
  { lg. }
  { tp. }
  intros _. apply Hseq.
  { apply Logged_body_if. }
  { unfold body_if. tp. }
  intros [p2 s2]. apply Hseq.
  { lg. }
  { tp. }
  intros ar.
  eapply Hist_weaken; [apply (section_tail_unlink_after_write o ftp outf Hne)|].
  cbv beta. intros r l H pre x post E Hx. eapply Exists_impl; [|exact (H pre x post E Hx)].
  intros en W. eexists. exact W.
Qed.

(* (1), the whole run: the run is the loop over the sections followed by the finalisation (which is not reached when the
   loop ends with an exception); in the history of the finalisation every removal comes after every deferred write has
   succeeded *)
Theorem rename_source_outlives_destination o f t w :
  format_from_options o = Ok f ->
  match section_loop (S (S (length t))) o f ds0 (stream_of t) true w with
  | (Throw e, w1) => process_patch o t w = (Throw e, w1)                      (* no finalisation: nothing is removed *)
  | (Ok st, w1) =>
      exists log, Steps w1 log (snd (process_patch o t w)) /\
        (forall d, In d (deferred_writes st) -> lpreceded (wrote d) is_unlink log) /\
        (forall q r, In (OUnlink q, r) log ->
           In q (deferred_removals st) /\ existsb (fun d => str_eqb (d_dest d) q) (deferred_writes st) = false)
  end.
Proof.
  intros Hfo. rewrite process_patch_unfold, bind_lift, Hfo. unfold mbind.
  destruct (section_loop (S (S (length t))) o f ds0 (stream_of t) true w) as [[st|e] w1]; [|reflexivity].
  destruct (finish_unlink_after_writes o st w1) as (log & S & H). exists log. split; [exact S|]. split; [exact H|].
  intros q r I. destruct (finish_unlinks_sources_only o st w1) as (ext & T & F).
  rewrite (Steps_trace _ _ _ S) in T. apply app_inv_head in T.
  assert (I' : In (OUnlink q) ext) by (rewrite <- T; apply (in_map fst _ _ I)).
  rewrite Forall_forall in F. exact (F _ I' q eq_refl).
Qed.

(* ---------- invariants of the tree along a history ---------- *)
Lemma perform_cases op w r w1 : perform op w = (Ok r, w1) ->
  (r = None /\ exec_op (fs w) (umask w) op = inl (fs w1) /\ umask w1 = umask w) \/ (fs w1 = fs w /\ umask w1 = umask w).
Proof.
  unfold perform. destruct (fault w) as [[|k]|].
  - intros [= <- <-]. right. split; reflexivity.
  - destruct (exec_op (fs w) (umask w) op) eqn:E; intros [= <- <-]; [left|right]; repeat split; reflexivity.
  - destruct (exec_op (fs w) (umask w) op) eqn:E; intros [= <- <-]; [left|right]; repeat split; reflexivity.
Qed.

(* I is kept by every successful operation that satisfies P: then it is kept by every history made of such operations *)
Definition kept_by (I : fsmap -> Prop) (P : sysop -> Prop) : Prop :=
  forall m um op m', P op -> exec_op m um op = inl m' -> I m -> I m'.

Lemma Steps_inv (I : fsmap -> Prop) (P : sysop -> Prop) : kept_by I P ->
  forall w l w', Steps w l w' -> Forall (fun en => P (fst en)) l -> I (fs w) -> I (fs w').
Proof.
  intros K. induction 1 as [a b (F & _)|a a0 op r a1 l b (F & _) Pf R IH]; intros Fa Hi.
  - rewrite F. exact Hi.
  - inversion Fa as [|x y Hx Hy]; subst. cbn [fst] in Hx. apply IH; [exact Hy|].
    destruct (perform_cases _ _ _ _ Pf) as [(_ & E & _)|[E _]].
    + eapply K; [exact Hx|exact E|]. rewrite F. exact Hi.
    + rewrite E, F. exact Hi.
Qed.

Lemma run_inv {A} (m : M A) (I : fsmap -> Prop) (P : sysop -> Prop) :
  Logged m -> TP P m -> kept_by I P -> forall w, I (fs w) -> I (fs (snd (m w))).
Proof.
  intros L T K w Hi. destruct (Hist_of_TP m P L T w) as (l & S & F). exact (Steps_inv I P K w l _ S F Hi).
Qed.

(* no symbolic link at q *)
Definition ns (m : fsmap) (q : list N) : Prop := forall t, lookup m q <> Some (Sym t).

Lemma lookup_upd_cases m x n q : lookup (upd m x n) q = Some n \/ lookup (upd m x n) q = lookup m q.
Proof.
  destruct (list_eq_dec N.eq_dec x q) as [->|Ne]; [left; apply lookup_upd_same|right; apply lookup_upd_other; exact Ne].
Qed.

Lemma lookup_remove_cases m x q : lookup (remove_key m x) q = None \/ lookup (remove_key m x) q = lookup m q.
Proof.
  destruct (list_eq_dec N.eq_dec x q) as [->|Ne]; [left; apply lookup_remove_same|right; apply lookup_remove_other; exact Ne].
Qed.

Lemma ns_upd m x n q : ns m q -> (forall t, n <> Sym t) -> ns (upd m x n) q.
Proof. intros H Hn t. destruct (lookup_upd_cases m x n q) as [E|E]; rewrite E; [intros [= X]; exact (Hn t X)|apply H]. Qed.

Lemma ns_remove m x q : ns m q -> ns (remove_key m x) q.
Proof. intros H t. destruct (lookup_remove_cases m x q) as [E|E]; rewrite E; [discriminate|apply H]. Qed.

(* only a symlink operation, or the renaming of a link, puts a link at a name *)
Lemma exec_op_ns m um op m' q :
  exec_op m um op = inl m' -> (forall t p, op <> OSymlink t p) -> (forall a b, op = ORename a b -> ns m a) -> ns m q -> ns m' q.
Proof.
  intros E Hs Hr Hq. destruct op as [p md|a b|p|p|p|p data|t p|p]; cbn [exec_op] in E.
  - destruct (parent_ok m p false); cbn [negb] in E; [|discriminate].
    destruct (lookup m p) as [[d x|x|t|x]|] eqn:L; try discriminate; try (inversion E; apply ns_upd; [exact Hq|intros t0; discriminate]).
    destruct (lookup m (link_target p t)) as [[d x|x|t2|x]|]; try discriminate. inversion E. apply ns_upd; [exact Hq|intros t0; discriminate].
  - destruct (parent_ok m a true && parent_ok m b true); cbn [negb] in E; [|discriminate].
    destruct (lookup m a) as [n|] eqn:La; [|discriminate].
    assert (Hn : forall t, n <> Sym t) by (intros t ->; exact (Hr a b eq_refl t La)).
    assert (R : ns (upd (remove_key m a) b n) q) by (apply ns_upd; [apply ns_remove; exact Hq|exact Hn]).
    destruct (lookup m b) as [[d x|x|t|x]|]; try discriminate; inversion E; subst m'; exact R.
  - destruct (parent_ok m p true); cbn [negb] in E; [|discriminate].
    destruct (lookup m p) as [[d x|x|t|x]|]; try discriminate; try (inversion E; apply ns_remove; exact Hq).
    destruct (has_children m p); [discriminate|]. inversion E; apply ns_remove; exact Hq.
  - destruct (parent_ok m p true); cbn [negb] in E; [|discriminate].
    destruct (lookup m p) as [[d x|x|t|x]|]; try discriminate. destruct (has_children m p); [discriminate|].
    inversion E. apply ns_remove; exact Hq.
  - destruct (lookup m p); [discriminate|]. destruct (parent_ok m p true); [|discriminate].
    inversion E. apply ns_upd; [exact Hq|intros t0; discriminate].
  - destruct (lookup m p) as [[d x|x|t|x]|] eqn:L; try discriminate.
    + destruct (parent_ok m p false && owner_w x); [|discriminate]. inversion E. apply ns_upd; [exact Hq|intros t0; discriminate].
    + destruct (lookup m (link_target p t)) as [[d2 x2|x2|t2|x2]|]; try discriminate.
      * destruct (owner_w x2); [|discriminate]. inversion E. apply ns_upd; [exact Hq|intros t0; discriminate].
      * inversion E. apply ns_upd; [exact Hq|intros t0; discriminate].
    + destruct (parent_ok m p true); [|discriminate]. inversion E. apply ns_upd; [exact Hq|intros t0; discriminate].
  - exfalso. exact (Hs t p eq_refl).
  - destruct (stat m p) as [[d x|x|t|x]|]; try discriminate; try (inversion E; subst; exact Hq).
    destruct (owner_r x); [inversion E; subst; exact Hq|discriminate].
Qed.

(* ---------- (1) on the tree: the source is as it was until every deferred write has succeeded ---------- *)
(* the operations of write_now on the destination dst with backup name b *)
Definition wn_op (dst b : list N) (op : sysop) : Prop :=
  (exists d, op = OMkdir d) \/ op = ORename dst b \/ op = OWrite b [] \/ (exists md, op = OChmod dst md) \/ (exists data, op = OWrite dst data).

Lemma TP_ensure_wn dst b p : TP (wn_op dst b) (ensure_parent_directories p).
Proof. eapply TP_weaken; [apply TP_ensure|]. intros op (d & -> & _). left. eauto. Qed.

Lemma TP_write_now_wn o st d : TP (wn_op (d_dest d) (backup_name o (d_dest d))) (write_now o st d).
Proof.
  unfold write_now, make_backup_for, backup_core. pose proof (TP_ensure_wn (d_dest d) (backup_name o (d_dest d))).
  tp; unfold wn_op; eauto 6.
Qed.

Lemma TP_finalize_writes_from_wn o all : forall ds st,
  TP (fun op => exists d, In d ds /\ wn_op (d_dest d) (backup_name o (d_dest d)) op) (finalize_writes_from o all st ds).
Proof.
  induction ds as [|d r IH]; intros st; cbn [finalize_writes_from]; [apply TP_ret|].
  apply TP_bind.
  - eapply TP_weaken; [apply (TP_ensure_wn (d_dest d) (backup_name o (d_dest d)))|]. intros op H. exists d. split; [left; reflexivity|exact H].
  - intros _. apply TP_bind.
    + eapply TP_weaken; [apply TP_write_now_wn|]. unfold with_backup_of. cbn [d_dest]. intros op H. exists d. split; [left; reflexivity|exact H].
    + intros st'. eapply TP_weaken; [apply IH|]. intros op (d0 & I0 & H). exists d0. split; [right; exact I0|exact H].
Qed.

(* the paths the deferred writes ds act on: no link at a destination or at a backup name, and src is none of them *)
Definition clear_of (o : options) (ds : list deferred) (src : list N) (n : node) (m : fsmap) : Prop :=
  lookup m src = Some n /\
  forall d, In d ds -> ns m (d_dest d) /\ ns m (backup_name o (d_dest d)).

Lemma clear_of_kept o ds src n :
  (forall d, In d ds -> src <> d_dest d /\ src <> backup_name o (d_dest d)) ->
  kept_by (clear_of o ds src n) (fun op => exists d, In d ds /\ wn_op (d_dest d) (backup_name o (d_dest d)) op).
Proof.
  intros Hne m um op m' (d & Id & Hop) E [Hs Hns]. destruct (Hne d Id) as [N1 N2]. destruct (Hns d Id) as [S1 S2]. split.
  - destruct Hop as [(x & ->)|[->|[->|[(md & ->)|(data & ->)]]]].
    + apply (mkdir_extends _ _ _ _ E). exact Hs.
    + rewrite (exec_op_frame _ _ _ _ src E); [exact Hs| |].
      * cbn. intros [X|[X|[]]]; [apply N1|apply N2]; symmetry; exact X.
      * cbn. intros p t [<-|[<-|[]]] L; [exact (False_ind _ (S1 t L))|exact (False_ind _ (S2 t L))].
    + rewrite (exec_op_frame _ _ _ _ src E); [exact Hs| |].
      * cbn. intros [X|[]]. apply N2. symmetry. exact X.
      * cbn. intros p t [<-|[]] L. exact (False_ind _ (S2 t L)).
    + rewrite (exec_op_frame _ _ _ _ src E); [exact Hs| |].
      * cbn. intros [X|[]]. apply N1. symmetry. exact X.
      * cbn. intros p t [<-|[]] L. exact (False_ind _ (S1 t L)).
    + rewrite (exec_op_frame _ _ _ _ src E); [exact Hs| |].
      * cbn. intros [X|[]]. apply N1. symmetry. exact X.
      * cbn. intros p t [<-|[]] L. exact (False_ind _ (S1 t L)).
  - intros d' Id'. destruct (Hns d' Id') as [T1 T2].
    assert (Hsym : forall t p, op <> OSymlink t p).
    { intros t p ->. destruct Hop as [(x & X)|[X|[X|[(md & X)|(data & X)]]]]; discriminate. }
    assert (Hren : forall a b', op = ORename a b' -> ns m a).
    { intros a b' ->. destruct Hop as [(x & X)|[X|[X|[(md & X)|(data & X)]]]]; try discriminate. inversion X; subst. exact S1. }
    split; eapply exec_op_ns; eauto.
Qed.

(* General, for every list of deferred writes: whatever fails, as long as the deferred writes have not ALL succeeded the
   source holds its original node (the run ends there); and it still holds it when they have all succeeded, until the
   removals start. *)
Theorem source_kept_until_all_written o st w src n :
  let ds := deferred_writes st in
  (forall d, In d ds -> src <> d_dest d /\ src <> backup_name o (d_dest d)) ->
  clear_of o ds src n (fs w) ->
  match finalize_writes o st ds w with
  | (Ok st1, w1) => lookup (fs w1) src = Some n
  | (Throw e, w1) => finish o st w = (Throw e, w1) /\ lookup (fs w1) src = Some n
  end.
Proof.
  cbv zeta. intros Hne Hc.
  assert (K : clear_of o (deferred_writes st) src n (fs (snd (finalize_writes o st (deferred_writes st) w)))).
  { apply (run_inv _ _ _ (Logged_finalize_writes_from o _ _ st) (TP_finalize_writes_from_wn o _ _ st) (clear_of_kept o _ src n Hne) w Hc). }
  destruct (finalize_writes o st (deferred_writes st) w) as [[st1|e] w1] eqn:E; cbn [snd] in K; destruct K as [K _]; [exact K|].
  split; [|exact K]. unfold finish. rewrite mbind_eq, E. reflexivity.
Qed.

Lemma ns_kept dst b : kept_by (fun m => ns m dst) (wn_op dst b).
Proof.
  intros m um op m' Hop E H. eapply exec_op_ns; [exact E| | |exact H].
  - intros t p ->. destruct Hop as [(x & X)|[X|[X|[(md & X)|(data & X)]]]]; discriminate.
  - intros a b' ->. destruct Hop as [(x & X)|[X|[X|[(md & X)|(data & X)]]]]; try discriminate. inversion X; subst. exact H.
Qed.

Lemma TP_backup_wn o st dst : TP (wn_op dst (backup_name o dst)) (make_backup_for o st dst).
Proof. unfold make_backup_for, backup_core. pose proof (TP_ensure_wn dst (backup_name o dst)). tp; unfold wn_op; eauto 6. Qed.

(* a write_now that returns normally leaves the complete content at the destination (which is not a link) *)
Lemma write_now_leaves_content o st d w st' w' :
  write_now o st d w = (Ok st', w') -> ns (fs w) (d_dest d) ->
  exists mode, lookup (fs w') (d_dest d) = Some (Reg (d_data d) mode).
Proof.
  intros H Hns. unfold write_now in H. set (dst := d_dest d) in *. set (b := backup_name o dst).
  rewrite mbind_eq in H.
  destruct ((if d_backup d then make_backup_for o st dst else mret st) w) as [[st1|e] w1] eqn:EA; [|discriminate].
  assert (N1 : ns (fs w1) dst).
  { change w1 with (snd (Ok st1, w1)). rewrite <- EA. apply (run_inv _ (fun m => ns m dst) (wn_op dst b)); [| |apply ns_kept|exact Hns].
    - destruct (d_backup d); [apply Logged_backup|apply Logged_ret].
    - destruct (d_backup d); [apply TP_backup_wn|apply TP_ret]. }
  rewrite mbind_eq in H. cbn [get_fs] in H. rewrite mbind_eq in H.
  match type of H with context [match ?B w1 with _ => _ end] => destruct (B w1) as [[[]|e] w2] eqn:EB; [|discriminate] end.
  assert (N2 : ns (fs w2) dst).
  { change w2 with (snd (Ok tt, w2)). rewrite <- EB. apply (run_inv _ (fun m => ns m dst) (wn_op dst b)); [| |apply ns_kept|exact N1].
    - destruct (d_chmod_first d); [destruct (exists_ (fs w1) dst)|]; lg.
    - destruct (d_chmod_first d); [destruct (exists_ (fs w1) dst)|]; tp. unfold wn_op. eauto 6. }
  rewrite mbind_eq in H. destruct (checked (OWrite dst (d_data d)) w2) as [[[]|e] w3] eqn:EW; [|discriminate].
  assert (L3 : exists mode, lookup (fs w3) dst = Some (Reg (d_data d) mode)).
  { apply checked_ok in EW. cbn [exec_op] in EW. destruct (lookup (fs w2) dst) as [[x md|md|t|md]|] eqn:L; try discriminate.
    - destruct (parent_ok (fs w2) dst false && owner_w md); [|discriminate]. inversion EW as [X]. eexists. apply lookup_upd_same.
    - exfalso. exact (N2 t L).
    - destruct (parent_ok (fs w2) dst true); [|discriminate]. inversion EW as [X]. eexists. apply lookup_upd_same. }
  destruct L3 as (mode & L3).
  destruct (d_perm_after d) as [pm|].
  - rewrite mbind_eq in H. destruct (checked (OChmod dst pm) w3) as [[[]|e] w4] eqn:EC; [|discriminate].
    cbn [mret] in H. inversion H; subst. apply checked_ok in EC. cbn [exec_op] in EC.
    destruct (parent_ok (fs w3) dst false); cbn [negb] in EC; [|discriminate]. rewrite L3 in EC. inversion EC as [X].
    eexists. apply lookup_upd_same.
  - cbn in H. inversion H; subst. eauto.
Qed.

(* the removals of the finalisation do not touch a regular file which is the destination of a deferred write *)
Lemma TP_finalize_removals_ops ws : forall rs,
  TP (fun op => (exists p, op = OUnlink p /\ existsb (fun d => str_eqb (d_dest d) p) ws = false) \/ exists d, op = ORmdir d)
     (finalize_removals ws rs).
Proof.
  induction rs as [|p r IH]; cbn [finalize_removals]; [apply TP_ret|].
  apply TP_bind; [|intros _; apply IH].
  destruct (existsb (fun d => str_eqb (d_dest d) p) ws) eqn:E; [apply TP_ret|]. eapply TP_weaken; [apply TP_remove|].
  intros op [->|(d & -> & _)]; [left|right]; eauto.
Qed.

Lemma reg_kept_by_removals ws q data :
  existsb (fun d => str_eqb (d_dest d) q) ws = true ->
  kept_by (fun m => exists mode, lookup m q = Some (Reg data mode))
          (fun op => (exists p, op = OUnlink p /\ existsb (fun d => str_eqb (d_dest d) p) ws = false) \/ exists d, op = ORmdir d).
Proof.
  intros Hq m um op m' Hop E (mode & L). exists mode.
  destruct Hop as [(p & -> & Hp)|(d & ->)]; cbn [exec_op] in E.
  - assert (Ne : p <> q) by (intros ->; congruence).
    destruct (parent_ok m p true); cbn [negb] in E; [|discriminate].
    assert (R : lookup (remove_key m p) q = Some (Reg data mode)) by (rewrite lookup_remove_other by exact Ne; exact L).
    destruct (lookup m p) as [[x md|md|t|md]|]; try discriminate; try (inversion E; exact R).
    destruct (has_children m p); [discriminate|]. inversion E; exact R.
  - destruct (parent_ok m d true); cbn [negb] in E; [|discriminate].
    destruct (lookup m d) as [[x md|md|t|md]|] eqn:Ld; try discriminate. destruct (has_children m d); [discriminate|].
    inversion E. rewrite lookup_remove_other; [exact L|]. intros ->. congruence.
Qed.

(* (1) on the tree, one deferred rename (the section followed by the finalisation), every world, every pending failure:
   afterwards the source holds its original node, or the destination holds the complete new content *)
Theorem rename_source_or_destination o st d w src n :
  deferred_writes st = [d] ->
  src <> d_dest d -> src <> backup_name o (d_dest d) ->
  lookup (fs w) src = Some n -> ns (fs w) (d_dest d) -> ns (fs w) (backup_name o (d_dest d)) ->
  let w' := snd (finish o st w) in
  lookup (fs w') src = Some n \/ exists mode, lookup (fs w') (d_dest d) = Some (Reg (d_data d) mode).
Proof.
  intros Hd N1 N2 Ls S1 S2. cbv zeta.
  assert (Hne : forall d0, In d0 (deferred_writes st) -> src <> d_dest d0 /\ src <> backup_name o (d_dest d0)).
  { rewrite Hd. intros d0 [<-|[]]. auto. }
  assert (Hc : clear_of o (deferred_writes st) src n (fs w)).
  { split; [exact Ls|]. rewrite Hd. intros d0 [<-|[]]. auto. }
  pose proof (source_kept_until_all_written o st w src n Hne Hc) as K. cbv zeta in K.
  destruct (finalize_writes o st (deferred_writes st) w) as [[st1|e] w1] eqn:E.
  2:{ destruct K as [K1 K2]. rewrite K1. left. exact K2. }
  right. unfold finish. rewrite mbind_eq, E.
  (* all writes have succeeded: the destination holds the content *)
  assert (C1 : exists mode, lookup (fs w1) (d_dest d) = Some (Reg (d_data d) mode)).
  { unfold finalize_writes in E. rewrite Hd in E. cbn [finalize_writes_from] in E. rewrite mbind_eq in E.
    destruct (ensure_parent_directories (d_dest d) w) as [[[]|e0] w0] eqn:En; [|discriminate].
    assert (S0 : ns (fs w0) (d_dest d)).
    { change w0 with (snd (Ok tt, w0)). rewrite <- En.
      apply (run_inv _ (fun m => ns m (d_dest d)) _ (Logged_ensure _) (TP_ensure_wn (d_dest d) (backup_name o (d_dest d)) _) (ns_kept _ _) w S1). }
    rewrite mbind_eq in E.
    destruct (write_now o st (with_backup_of [d] d) w0) as [[st2|e2] w2] eqn:W; [|discriminate].
    cbn [mret] in E. inversion E; subst.
    apply (write_now_leaves_content o st (with_backup_of [d] d) w0 st1 w1 W). exact S0. }
  destruct C1 as (mode & C1). rewrite mbind_eq.
  assert (C2 : exists mode', lookup (fs (snd (finalize_removals (deferred_writes st) (deferred_removals st) w1))) (d_dest d) = Some (Reg (d_data d) mode')).
  { apply (run_inv _ (fun m => exists mode', lookup m (d_dest d) = Some (Reg (d_data d) mode')) _ (Logged_finalize_removals _ _) (TP_finalize_removals_ops _ _)).
    - apply reg_kept_by_removals. rewrite Hd. cbn [existsb]. rewrite str_eqb_refl. reflexivity.
    - eauto. }
  destruct (finalize_removals (deferred_writes st) (deferred_removals st) w1) as [[[]|e3] w3]; cbn [snd mret] in *; exact C2.
Qed.

(* ================================================================================================================== *)
(* Part C: backup_run_keeps_original                                                                                  *)
(* ================================================================================================================== *)

Lemma checked_throw_fs op w e w' : checked op w = (Throw e, w') -> fs w' = fs w.
Proof.
  unfold checked. rewrite mbind_eq. destruct (perform op w) as [[x|e3] w3] eqn:P.
  - destruct (perform_ok _ _ _ _ P) as [[X _]|(e4 & X & F)]; inversion X as [X']; subst x; cbn; [discriminate|].
    intros [= _ <-]. exact F.
  - unfold perform in P. destruct (fault w) as [[|k]|]; [discriminate| |]; destruct (exec_op (fs w) (umask w) op); discriminate.
Qed.

Lemma exists_reg m f d md : lookup m f = Some (Reg d md) -> exists_ m f = parent_ok m f false.
Proof. intros L. unfold exists_, stat. destruct (parent_ok m f false); cbn [negb]; [rewrite L|]; reflexivity. Qed.

Section BackupSection.
Variable o : options.
Variables ftp f : list N.           (* the file the section reads, the file it writes *)
Variables (data : list N) (mode : N).
Let b := backup_name o f.
Let rej := reject_path o f.
Let orig := Reg data mode.
Hypothesis Hsb : save_backup o = true.
Hypothesis Hrej : rej <> f.
Hypothesis Hftp : ftp <> b.

(* before the backup: the original is at f, visible; after it: the original is at the backup name *)
Definition PA (m : fsmap) : Prop := lookup m f = Some orig /\ exists_ m f = true /\ ns m rej.
Definition PB (m : fsmap) : Prop := lookup m b = Some orig.
Definition KO (m : fsmap) : Prop := lookup m f = Some orig \/ lookup m b = Some orig.
Definition fresh (st : dstate) : Prop := existsb (str_eqb b) (backed_up st) = false.
Definition same_def (st st' : dstate) : Prop :=
  deferred_writes st' = deferred_writes st /\ deferred_removals st' = deferred_removals st.
Definition same_lists (st st' : dstate) : Prop := backed_up st' = backed_up st /\ same_def st st'.

Lemma b_neq_f : b <> f. Proof. apply backup_name_neq. Qed.

(* operations before the backup: openings for reading, directories, the reject file *)
Definition opA (op : sysop) : Prop :=
  (exists p, op = OOpenRead p) \/ (exists d, op = OMkdir d) \/ (exists x, op = OWrite rej x).
(* operations after it *)
Definition opB (op : sysop) : Prop :=
  (exists p, op = OOpenRead p) \/ (exists d, op = OMkdir d) \/ (exists d, op = ORmdir d) \/
  (exists p, op = OUnlink p /\ p <> b) \/ (exists t, op = OSymlink t f).

Lemma PA_kept : kept_by PA opA.
Proof.
  intros m um op m' Hop E (L & X & S). destruct Hop as [(p & ->)|[(d & ->)|(x & ->)]].
  - cbn [exec_op] in E. destruct (stat m p) as [[y md|md|t|md]|]; try discriminate; try (inversion E; subst; repeat split; assumption).
    destruct (owner_r md); [inversion E; subst; repeat split; assumption|discriminate].
  - pose proof (mkdir_extends _ _ _ _ E) as Ext. split; [apply Ext; exact L|]. split; [eapply exists_extends; eauto|].
    eapply exec_op_ns; [exact E| | |exact S]; intros; discriminate.
  - assert (S' : ns m' rej) by (eapply exec_op_ns; [exact E| | |exact S]; intros; discriminate).
    cbn [exec_op] in E.
    assert (Hm' : exists n', m' = upd m rej n' /\ forall md0, lookup m rej <> Some (Dir md0)).
    { destruct (lookup m rej) as [[y md|md|t|md]|] eqn:Lr; try discriminate.
      - destruct (parent_ok m rej false && owner_w md); [|discriminate]. inversion E. eexists. split; [reflexivity|]. intros md0; discriminate.
      - exfalso. exact (S t Lr).
      - destruct (parent_ok m rej true); [|discriminate]. inversion E. eexists. split; [reflexivity|]. intros md0; discriminate. }
    destruct Hm' as (n' & -> & Hnd).
    assert (L' : lookup (upd m rej n') f = Some orig) by (rewrite lookup_upd_other by exact Hrej; exact L).
    split; [exact L'|]. split; [|exact S'].
    unfold orig in L, L'. rewrite (exists_reg _ _ _ _ L'). rewrite (exists_reg _ _ _ _ L) in X.
    unfold parent_ok in *. destruct (parent f) as [[|c d']|]; try reflexivity.
    destruct (lookup m (c :: d')) as [[y md|md|t|md]|] eqn:Ld; try discriminate.
    rewrite lookup_upd_other; [rewrite Ld; exact X|]. intros Eq. rewrite <- Eq in Ld. exact (Hnd md Ld).
Qed.

Lemma PB_kept : kept_by PB opB.
Proof.
  intros m um op m' Hop E L. unfold PB in *. destruct Hop as [(p & ->)|[(d & ->)|[(d & ->)|[(p & -> & Hp)|(t & ->)]]]]; cbn [exec_op] in E.
  - destruct (stat m p) as [[y md|md|t|md]|]; try discriminate; try (inversion E; subst; assumption).
    destruct (owner_r md); [inversion E; subst; assumption|discriminate].
  - apply (mkdir_extends m um d m'); [exact E|exact L].
  - destruct (parent_ok m d true); cbn [negb] in E; [|discriminate].
    destruct (lookup m d) as [[x md|md|t|md]|] eqn:Ld; try discriminate. destruct (has_children m d); [discriminate|].
    inversion E. rewrite lookup_remove_other; [exact L|]. intros ->. unfold orig in L. congruence.
  - destruct (parent_ok m p true); cbn [negb] in E; [|discriminate].
    assert (R : lookup (remove_key m p) b = Some orig) by (rewrite lookup_remove_other by exact Hp; exact L).
    destruct (lookup m p) as [[x md|md|t|md]|]; try discriminate; try (inversion E; exact R).
    destruct (has_children m p); [discriminate|]. inversion E; exact R.
  - destruct (lookup m f); [discriminate|]. destruct (parent_ok m f true); [|discriminate].
    inversion E. rewrite lookup_upd_other; [exact L|]. intros X. exact (b_neq_f (eq_sym X)).
Qed.

Lemma TP_ensure_opA p : TP opA (ensure_parent_directories p).
Proof. eapply TP_weaken; [apply TP_ensure|]. intros op (d & -> & _). right. left. eauto. Qed.
Lemma TP_ensure_opB p : TP opB (ensure_parent_directories p).
Proof. eapply TP_weaken; [apply TP_ensure|]. intros op (d & -> & _). right. left. eauto. Qed.
Lemma TP_remove_opB p : p <> b -> TP opB (remove_file_and_empty_parent_folders p).
Proof.
  intros Hp. eapply TP_weaken; [apply TP_remove|]. intros op [->|(d & -> & _)]; unfold opB; [right; right; right; left; eauto|right; right; left; eauto].
Qed.

(* the backup of f, taken for the first time in this run, while the original is at f *)
Lemma backup_phase st w : PA (fs w) -> fresh st ->
  match make_backup_for o st f w with
  | (Ok st', w') => PB (fs w') /\ lookup (fs w') f = None /\ same_def st st' /\ backed_up st' = b :: backed_up st
  | (Throw _, w') => lookup (fs w') f = Some orig
  end.
Proof.
  intros (L & X & S) Hf. unfold fresh in Hf. rewrite (make_backup_for_shape o st f Hf). fold b.
  rewrite mbind_eq.
  destruct (ensure_parent_directories b w) as [[[]|e0] w0] eqn:En.
  2:{ apply (ensure_extends _ _ _ _ En). exact L. }
  pose proof (ensure_extends _ _ _ _ En) as Ext.
  assert (L0 : lookup (fs w0) f = Some orig) by (apply Ext; exact L).
  assert (X0 : exists_ (fs w0) f = true) by (eapply exists_extends; eauto).
  set (st0 := mkDS (had_failure st) (b :: backed_up st) (deferred_writes st) (deferred_removals st) (events st)).
  destruct (backup_core st0 f b w0) as [[st1|e] w1] eqn:B.
  - destruct (backup_holds_original st0 f b w0 st1 w1 B) as (-> & Hx & _).
    destruct (Hx X0) as (n & La & Lb & Ld). rewrite L0 in La. inversion La; subst n.
    split; [exact Lb|]. split; [apply Ld; intros E; exact (b_neq_f (eq_sym E))|]. split; [split; reflexivity|reflexivity].
  - unfold backup_core in B. rewrite mbind_eq in B. cbn [get_fs] in B. rewrite X0 in B. rewrite mbind_eq in B.
    destruct (checked (ORename f b) w0) as [[[]|e2] w2] eqn:C; [cbn in B; discriminate|].
    inversion B; subst. rewrite (checked_throw_fs _ _ _ _ C). exact L0.
Qed.

(* write_now on f with the backup due *)
Lemma write_now_phase st d w : d_dest d = f -> d_backup d = true -> PA (fs w) -> fresh st ->
  match write_now o st d w with
  | (Ok st', w') => PB (fs w') /\ same_def st st'
  | (Throw _, w') => KO (fs w')
  end.
Proof.
  intros Hd Hb Hpa Hf. unfold write_now. rewrite Hb, Hd. rewrite mbind_eq.
  pose proof (backup_phase st w Hpa Hf) as BP.
  destruct (make_backup_for o st f w) as [[st1|e] w1]; [|left; exact BP].
  destruct BP as (Lb & Ld & Sd & _). unfold PB in Lb.
  rewrite mbind_eq. cbn [get_fs]. rewrite (exists_none _ _ Ld).
  assert (Step0 : (match d_chmod_first d with Some _ => mret tt | None => mret tt end) w1 = (Ok tt, w1)) by (destruct (d_chmod_first d); reflexivity).
  rewrite mbind_eq, Step0. rewrite mbind_eq.
  destruct (checked (OWrite f (d_data d)) w1) as [[[]|e] w2] eqn:W.
  - assert (L2 : lookup (fs w2) b = Some orig).
    { rewrite (checked_lookup _ _ _ _ b W); [exact Lb| |].
      - cbn. intros [E|[]]. exact (b_neq_f (eq_sym E)).
      - cbn. intros p t [<-|[]] Hs. rewrite Ld in Hs. discriminate. }
    assert (Reg2 : forall t, lookup (fs w2) f <> Some (Sym t)).
    { apply checked_ok in W. cbn [exec_op] in W. rewrite Ld in W. destruct (parent_ok (fs w1) f true); [|discriminate].
      inversion W as [W']. intros t. rewrite lookup_upd_same. discriminate. }
    destruct (d_perm_after d) as [pm|].
    + rewrite mbind_eq. destruct (checked (OChmod f pm) w2) as [[[]|e] w3] eqn:C; cbn [mret].
      * split; [|exact Sd]. unfold PB. rewrite (checked_lookup _ _ _ _ b C); [exact L2| |].
        -- cbn. intros [E|[]]. exact (b_neq_f (eq_sym E)).
        -- cbn. intros p t [<-|[]] Hs. exfalso. exact (Reg2 t Hs).
      * right. rewrite (checked_lookup _ _ _ _ b C); [exact L2| |].
        -- cbn. intros [E|[]]. exact (b_neq_f (eq_sym E)).
        -- cbn. intros p t [<-|[]] Hs. exfalso. exact (Reg2 t Hs).
    + cbn. split; [exact L2|exact Sd].
  - right. rewrite (checked_lookup _ _ _ _ b W); [exact Lb| |].
    + cbn. intros [E|[]]. exact (b_neq_f (eq_sym E)).
    + cbn. intros p t [<-|[]] Hs. rewrite Ld in Hs. discriminate.
Qed.
(* ---------- a small Hoare logic on the tree: precondition, postcondition on normal return, condition on exception ---------- *)
Definition HT {A} (Pre : fsmap -> Prop) (m : M A) (Q : A -> fsmap -> Prop) (E : fsmap -> Prop) : Prop :=
  forall w, Pre (fs w) -> match m w with (Ok a, w') => Q a (fs w') | (Throw _, w') => E (fs w') end.

Lemma HT_bind {A B} Pre (m : M A) (k : A -> M B) Q R E :
  HT Pre m Q E -> (forall a, HT (Q a) (k a) R E) -> HT Pre (mbind m k) R E.
Proof.
  intros Hm Hk w Hp. unfold mbind. specialize (Hm w Hp). destruct (m w) as [[a|e] w1]; [|exact Hm]. exact (Hk a w1 Hm).
Qed.
Lemma HT_ret {A} (Pre : fsmap -> Prop) (a : A) (Q : A -> fsmap -> Prop) E : (forall x, Pre x -> Q a x) -> HT Pre (mret a) Q E.
Proof. intros H w Hp. cbn. auto. Qed.
Lemma HT_throw {A} (Pre : fsmap -> Prop) e (Q : A -> fsmap -> Prop) (E : fsmap -> Prop) : (forall x, Pre x -> E x) -> HT Pre (mthrow e) Q E.
Proof. intros H w Hp. cbn. auto. Qed.
Lemma HT_lift {A} (Pre : fsmap -> Prop) (r : res A) (Q : A -> fsmap -> Prop) (E : fsmap -> Prop) :
  (forall x, Pre x -> E x) -> (forall a x, Pre x -> Q a x) -> HT Pre (mlift r) Q E.
Proof. intros H1 H2 w Hp. unfold mlift. destruct r; auto. Qed.
Lemma HT_getfs (Pre : fsmap -> Prop) (Q : fsmap -> fsmap -> Prop) E : (forall m x, Pre x -> Q m x) -> HT Pre get_fs Q E.
Proof. intros H w Hp. cbn. auto. Qed.
Lemma HT_stdout {A} (Pre : fsmap -> Prop) (a : A) out (Q : A -> fsmap -> Prop) E :
  (forall x, Pre x -> Q a x) -> HT Pre (fun w => (Ok a, mkWorld (fs w) (umask w) (trace w) (fault w) (stdout_data w ++ out))) Q E.
Proof. intros H w Hp. cbn. auto. Qed.
Lemma HT_pre {A} (Pre Pre' : fsmap -> Prop) (m : M A) Q E : HT Pre' m Q E -> (forall x, Pre x -> Pre' x) -> HT Pre m Q E.
Proof. intros H I w Hp. apply H. auto. Qed.
Lemma HT_post {A} (Pre : fsmap -> Prop) (m : M A) (Q Q' : A -> fsmap -> Prop) (E E' : fsmap -> Prop) :
  HT Pre m Q E -> (forall a x, Q a x -> Q' a x) -> (forall x, E x -> E' x) -> HT Pre m Q' E'.
Proof. intros H I1 I2 w Hp. specialize (H w Hp). destruct (m w) as [[a|e] w1]; auto. Qed.
Lemma HT_pure {A} (Pre : fsmap -> Prop) (G : Prop) (m : M A) Q E : (G -> HT Pre m Q E) -> HT (fun x => Pre x /\ G) m Q E.
Proof. intros H w [Hp Hg]. apply H; assumption. Qed.
Lemma HT_or {A} (P1 P2 : fsmap -> Prop) (m : M A) Q E : HT P1 m Q E -> HT P2 m Q E -> HT (fun x => P1 x \/ P2 x) m Q E.
Proof. intros H1 H2 w [Hp|Hp]; [apply H1|apply H2]; exact Hp. Qed.

(* a piece of code all of whose operations keep I *)
Lemma HT_inv {A} (m : M A) (I : fsmap -> Prop) (P : sysop -> Prop) (G : A -> Prop) (E : fsmap -> Prop) :
  Logged m -> TP P m -> kept_by I P -> Post m G -> (forall x, I x -> E x) -> HT I m (fun a x => I x /\ G a) E.
Proof.
  intros L T K Po IE w Hi. pose proof (run_inv m I P L T K w Hi) as H.
  destruct (m w) as [[a|e] w1] eqn:Em; cbn [snd] in H; [|auto]. split; [exact H|]. exact (Po w a w1 Em).
Qed.

Lemma PA_KO x : PA x -> KO x. Proof. intros (L & _). left. exact L. Qed.
Lemma PB_KO x : PB x -> KO x. Proof. intros L. right. exact L. Qed.

Lemma HT_backup st : fresh st ->
  HT PA (make_backup_for o st f)
     (fun st' x => (PB x /\ lookup x f = None) /\ same_def st st' /\ backed_up st' = b :: backed_up st) KO.
Proof.
  intros Hf w Hp. pose proof (backup_phase st w Hp Hf) as H. destruct (make_backup_for o st f w) as [[st'|e] w'].
  - destruct H as (H1 & H2 & H3 & H4). auto.
  - left. exact H.
Qed.

(* what the section leaves: either no backup has been taken yet and f is untouched (a write to f may have been deferred: it
   asks for the backup), or the backup holds the original *)
Definition RM (st st' : dstate) : Prop :=
  deferred_removals st' = deferred_removals st \/ deferred_removals st' = deferred_removals st ++ [ftp].
Definition deferred_one (st st' : dstate) : Prop :=
  exists d, deferred_writes st' = deferred_writes st ++ [d] /\ d_dest d = f /\ d_backup d = true.
Definition section_post (st st' : dstate) (x : fsmap) : Prop :=
  (PA x /\ fresh st' /\ (same_def st st' \/ (deferred_one st st' /\ RM st st'))) \/
  (PB x /\ deferred_writes st' = deferred_writes st /\ RM st st').

Lemma same_lists_fresh st st' : fresh st -> same_lists st st' -> fresh st'.
Proof. unfold fresh. intros H [E _]. rewrite E. exact H. Qed.

Lemma same_lists_event st e : same_lists st (add_event st e). Proof. repeat split. Qed.
Lemma same_lists_failure st : same_lists st (set_failure st). Proof. repeat split. Qed.
Lemma same_lists_trans a c d : same_lists a c -> same_lists c d -> same_lists a d.
Proof. intros (A1 & A2 & A3) (B1 & B2 & B3). repeat split; congruence. Qed.
Lemma same_lists_refl a : same_lists a a. Proof. repeat split. Qed.

Theorem section_tail_backup st operms operms1 needed ar s2 :
  fresh st ->
  HT PA (section_tail o st ftp f operms operms1 needed ar s2) (fun y x => section_post st (fst y) x) KO.
Proof.
  intros Hfr. unfold section_tail. fold rej.
  set (out_bytes := lines_bytes (newline_output o) (r_out ar)).
  (* the reject file *)
  eapply HT_bind with (Q := fun st2 x => PA x /\ same_lists st st2).
  { destruct (negb (Nat.eqb (r_failed ar) 0)).
    - destruct (dry_run o).
      + apply HT_ret. intros x Hx. split; [exact Hx|].
        eapply same_lists_trans; [apply same_lists_event|]. eapply same_lists_trans; [apply same_lists_event|apply same_lists_failure].
      + eapply HT_inv with (P := opA).
        * pose proof Logged_ensure. lg.
        * pose proof TP_ensure_opA. tp. right. right. eauto.
        * apply PA_kept.
        * eapply Post_bind; [apply Post_true|intros _ _]. eapply Post_bind; [apply Post_true|intros _ _]. apply Post_ret.
          eapply same_lists_trans; [apply same_lists_event|]. eapply same_lists_trans; [apply same_lists_event|apply same_lists_failure].
        * apply PA_KO.
    - apply HT_ret. intros x Hx. split; [exact Hx|apply same_lists_event]. }
  intros st2. apply HT_pure. intros S2. pose proof (same_lists_fresh _ _ Hfr S2) as F2. destruct S2 as (_ & DD2).
  destruct (str_eqb (out_file_path o) (bs "-")).
  { apply HT_stdout. intros x Hx. left. cbn [fst]. auto. }
  rewrite Hsb. cbn [orb].
  (* the removal of an emptied file *)
  eapply HT_bind with (Q := fun y x => (PA x /\ same_lists st2 (fst y)) \/ (PB x /\ snd y = false /\ same_def st2 (fst y))).
  { match goal with |- HT _ (if ?c then _ else _) _ _ => destruct c end.
    - destruct (is_nil out_bytes).
      + destruct (dry_run o).
        * apply HT_ret. intros x Hx. left. split; [exact Hx|apply same_lists_refl].
        * eapply HT_bind; [apply (HT_backup st2 F2)|]. intros st3. cbv beta.
          eapply HT_pre with (Pre' := fun x => PB x /\ (same_def st2 st3 /\ backed_up st3 = b :: backed_up st2)); [|tauto].
          apply HT_pure. intros [S3 _].
          eapply HT_bind with (Q := fun _ x => PB x); [apply HT_getfs; auto|]. intros m2.
          eapply HT_bind with (Q := fun _ x => PB x /\ True).
          { destruct (exists_ m2 f).
            - eapply HT_inv with (P := opB); [apply Logged_remove|apply TP_remove_opB; intros E; exact (b_neq_f (eq_sym E))|apply PB_kept|apply Post_true|apply PB_KO].
            - apply HT_ret. auto. }
          intros _. apply HT_ret. intros x [Hx _]. right. cbn [fst snd]. auto.
      + apply HT_ret. intros x Hx. left. split; [exact Hx|]. cbn [fst].
        destruct (str_eqb (new_path (r_patch ar)) devnull); [apply same_lists_failure|apply same_lists_refl].
    - apply HT_ret. intros x Hx. left. split; [exact Hx|apply same_lists_refl]. }
  intros [st4 wtf]. cbn [fst snd].
  (* the write *)
  eapply HT_bind with
    (Q := fun st5 x => (PA x /\ fresh st5 /\ ((same_def st2 st5 /\ wtf = false) \/ (deferred_one st2 st5 /\ deferred_removals st5 = deferred_removals st2))) \/
                       (PB x /\ same_def st2 st5)).
  { apply HT_or.
    - (* no backup yet *)
      apply HT_pure. intros S4. pose proof (same_lists_fresh _ _ F2 S4) as F4. destruct S4 as (B4 & D4).
      destruct wtf; [|apply HT_ret; intros x Hx; left; auto].
      eapply HT_bind with (Q := fun _ x => PA x /\ True).
      { eapply HT_inv with (P := opA); [apply Logged_ensure|apply TP_ensure_opA|apply PA_kept|apply Post_true|apply PA_KO]. }
      intros _. eapply HT_pre with (Pre' := PA); [|tauto].
      match goal with |- HT _ (if ?c then _ else _) _ _ => destruct c end.
      + destruct (is_symlink_mode (new_mode (r_patch ar))).
        * eapply HT_bind; [apply (HT_backup st4 F4)|]. intros st'. cbv beta.
          eapply HT_pre with (Pre' := fun x => PB x /\ (same_def st4 st' /\ backed_up st' = b :: backed_up st4)); [|tauto].
          apply HT_pure. intros [S' _].
          eapply HT_bind with (Q := fun _ x => PB x /\ True).
          { eapply HT_inv with (P := opB); [apply Logged_checked|apply TP_checked; unfold opB; eauto 8|apply PB_kept|apply Post_true|apply PB_KO]. }
          intros _. apply HT_ret. intros x [Hx _]. right. split; [exact Hx|]. destruct S' as [S1 S2]. destruct D4 as [D1 D2]. split; congruence.
        * apply HT_ret. intros x Hx. left. split; [exact Hx|]. split; [exact F4|]. right. destruct D4 as [D1 D2].
          split; [|cbn [deferred_removals]; exact D2]. eexists. cbn [deferred_writes]. rewrite D1. split; [reflexivity|]. split; reflexivity.
      + intros w Hp.
        pose proof (write_now_phase st4 (mkDef out_bytes f false true
             (if needed then Some (N.lor operms write_mask) else None)
             (if negb (N.eqb (new_mode (r_patch ar)) 0) then Some (N.land (new_mode (r_patch ar)) 4095)
              else if N.eqb operms1 perms_unknown then None else Some operms1)) w eq_refl eq_refl Hp F4) as H.
        match goal with |- match ?X with _ => _ end => destruct X as [[st5|e] w5] end; [|exact H].
        right. destruct H as [H1 [H2 H3]]. split; [exact H1|]. destruct D4 as [D1 D2]. split; congruence.
    - (* the backup has been taken (an emptied file has been removed): nothing is written *)
      eapply HT_pre with (Pre' := fun x => PB x /\ (wtf = false /\ same_def st2 st4)); [|tauto].
      apply HT_pure. intros [-> S4]. apply HT_ret. intros x Hx. right. auto. }
  intros st5.
  (* the source of a rename *)
  eapply HT_bind with (Q := fun st6 x => section_post st st6 x).
  { apply HT_or.
    - eapply HT_pre with (Pre' := fun x => PA x /\ (fresh st5 /\ ((same_def st2 st5 /\ wtf = false) \/ (deferred_one st2 st5 /\ deferred_removals st5 = deferred_removals st2)))); [|tauto].
      apply HT_pure. intros [F5 [[S5 ->]|[(d & W5 & Dd & Bd) R5]]].
      + rewrite andb_false_r. cbn [andb]. apply HT_ret. intros x Hx. left. split; [exact Hx|]. split; [exact F5|]. left.
        destruct S5 as [S1 S2]. destruct DD2 as [D1 D2]. split; congruence.
      + assert (Ex : existsb (fun d0 => str_eqb (d_dest d0) f) (deferred_writes st5) = true).
        { rewrite W5, existsb_app. cbn [existsb]. rewrite Dd, str_eqb_refl. apply orb_true_r. }
        rewrite Ex.
        assert (Post1 : forall st6, (st6 = st5 \/ st6 = mkDS (had_failure st5) (backed_up st5) (deferred_writes st5) (deferred_removals st5 ++ [ftp]) (events st5)) ->
                        forall x, PA x -> section_post st st6 x).
        { intros st6 Hst6 x Hx. left. split; [exact Hx|]. destruct DD2 as [D1 D2'].
          destruct Hst6 as [->| ->].
          - split; [exact F5|]. right. split; [exists d; rewrite W5, D1; auto|]. left. congruence.
          - split; [exact F5|]. right. unfold deferred_one, RM. cbn [deferred_writes deferred_removals]. split; [exists d; rewrite W5, D1; auto|]. right. congruence. }
        match goal with |- HT _ (if ?c then _ else _) _ _ => destruct c end; apply HT_ret; intros x Hx; apply Post1; auto.
    - eapply HT_pre with (Pre' := fun x => PB x /\ same_def st2 st5); [|tauto].
      apply HT_pure. intros S5. destruct S5 as [S1 S2]. destruct DD2 as [D1 D2'].
      match goal with |- HT _ (if ?c then _ else _) _ _ => destruct c end.
      + destruct (existsb (fun d0 => str_eqb (d_dest d0) f) (deferred_writes st5)).
        * apply HT_ret. intros x Hx. right. split; [exact Hx|]. unfold RM. cbn [deferred_writes deferred_removals]. split; [congruence|]. right. congruence.
        * eapply HT_bind with (Q := fun _ x => PB x /\ True).
          { eapply HT_inv with (P := opB); [apply Logged_remove|apply TP_remove_opB; exact Hftp|apply PB_kept|apply Post_true|apply PB_KO]. }
          intros _. apply HT_ret. intros x [Hx _]. right. split; [exact Hx|]. split; [congruence|]. left. congruence.
      + apply HT_ret. intros x Hx. right. split; [exact Hx|]. split; [congruence|]. left. congruence. }
  intros st6. apply HT_ret. intros x Hx. exact Hx.
Qed.
Lemma Post_refuse_lists st out p0 : Post (refuse_to_patch o st out p0) (same_lists st).
Proof.
  assert (X : same_lists st (set_failure (add_event st (inform_hunks_failed (bs "ignored") (length (hunks p0)) (length (hunks p0)) ++ [10%N])))).
  { eapply same_lists_trans; [apply same_lists_event|apply same_lists_failure]. }
  unfold refuse_to_patch. destruct (dry_run o); [apply Post_ret; exact X|].
  eapply Post_bind; [apply Post_true|intros t _]. eapply Post_bind; [apply Post_true|intros _ _]. apply Post_ret; exact X.
Qed.

(* (2), one section: the section reads ftp and writes f (ftp and f as the driver determines them from the tree), -b is
   given, the original of f is a visible regular file, its backup has not been taken yet in this run.  Whatever fails,
   and wherever: afterwards the original (bytes and mode) is at f or at the backup name. *)
Theorem section_backup st should p s w :
  (if is_nil (file_to_patch o) then guess_filepath (fs w) (map d_dest (deferred_writes st)) p o else file_to_patch o) = ftp ->
  output_path o p ftp = f ->
  fresh st -> PA (fs w) ->
  match process_section o st should p s w with
  | (Ok y, w') => section_post st (fst y) (fs w')
  | (Throw _, w') => KO (fs w')
  end.
Proof.
  intros Hf1 Hf2 Hfr Hpa. unfold process_section. unfold mbind at 1. cbn [get_fs]. cbv zeta. rewrite Hf1, Hf2.
  match goal with |- match ?body w with _ => _ end =>
    assert (H : HT PA body (fun y x => section_post st (fst y) x) KO); [|exact (H w Hpa)] end.
  generalize (fs w). intros m.
  destruct (is_nil ftp); [apply HT_throw; apply PA_KO|].
  assert (Quiet : forall A (m0 : M A), Logged m0 -> TP opA m0 -> HT PA m0 (fun _ x => PA x /\ True) KO).
  { intros A m0 L T. eapply HT_inv; [exact L|exact T|apply PA_kept|apply Post_true|apply PA_KO]. }
  assert (Refuse : HT PA (let! ps := body_if should p s in let! st' := refuse_to_patch o st f (fst ps) in mret (st', snd ps))
                      (fun y x => section_post st (fst y) x) KO).
  { eapply HT_bind; [apply Quiet; [apply Logged_body_if|unfold body_if; tp]|]. intros ps.
    eapply HT_pre with (Pre' := PA); [|tauto].
    eapply HT_bind with (Q := fun st' x => PA x /\ same_lists st st').
    { eapply HT_inv with (P := opA); [apply Logged_refuse| |apply PA_kept|apply Post_refuse_lists|apply PA_KO].
      unfold refuse_to_patch. tp. right. right. eauto. }
    intros st'. apply HT_pure. intros S'. apply HT_ret. intros x Hx. left. cbn [fst]. split; [exact Hx|].
    split; [eapply same_lists_fresh; eauto|]. left. destruct S' as [_ S']. exact S'. }
  destruct (exists_ m ftp && negb (is_regular_file m ftp)); [exact Refuse|].
  destruct (N.eqb (N.land (effective_perms st m f) write_mask) 0 && match read_only o with ROFail => true | _ => false end); [exact Refuse|].
  eapply HT_bind.
  { apply Quiet; [lg|]. tp. left. eauto. }
  intros input_lines. eapply HT_pre with (Pre' := PA); [|tauto].
  eapply HT_bind.
  { apply Quiet; [lg|tp]. }
  intros u. eapply HT_pre with (Pre' := PA); [|tauto].
  eapply HT_bind.
  { apply Quiet; [apply Logged_body_if|unfold body_if; tp]. }
  intros [p2 s2]. eapply HT_pre with (Pre' := PA); [|tauto].
  eapply HT_bind.
  { apply Quiet; [lg|tp]. }
  intros ar. eapply HT_pre with (Pre' := PA); [|tauto].
  apply section_tail_backup. exact Hfr.
Qed.
End BackupSection.

(* ---------- (2) the section followed by the finalisation ---------- *)
Lemma finish_backup o ftp f data mode st0 st :
  reject_path o f <> f -> ftp <> backup_name o f ->
  deferred_writes st0 = [] -> deferred_removals st0 = [] ->
  HT (section_post o ftp f data mode st0 st) (finish o st) (fun _ x => KO o f data mode x) (KO o f data mode).
Proof.
  intros Hrej Hftp W0 R0. unfold section_post.
  assert (Rm : forall ws, HT (PB o f data mode) (finalize_removals ws (deferred_removals st)) (fun _ x => PB o f data mode x /\ True) (KO o f data mode) ->
               forall (st1 : dstate), HT (PB o f data mode) (let! _ := finalize_removals ws (deferred_removals st) in mret (if had_failure st1 then 1 else 0, events st1))
                              (fun _ x => KO o f data mode x) (KO o f data mode)).
  { intros ws H st1. eapply HT_bind; [exact H|]. intros u. apply HT_ret. intros x [Hx _]. apply PB_KO. exact Hx. }
  assert (RmB : RM ftp st0 st -> forall ws, HT (PB o f data mode) (finalize_removals ws (deferred_removals st)) (fun _ x => PB o f data mode x /\ True) (KO o f data mode)).
  { intros Hr ws. eapply HT_inv with (P := opB o f); [apply Logged_finalize_removals| |apply PB_kept|apply Post_true|apply PB_KO].
    eapply TP_weaken; [apply finalize_removals_allowed|]. intros op (q & Iq & Hq).
    assert (Eq : q = ftp).
    { unfold RM in Hr. rewrite R0 in Hr. destruct Hr as [Hr|Hr]; rewrite Hr in Iq; [destruct Iq|]. destruct Iq as [<-|[]]. reflexivity. }
    subst q. destruct Hq as [->|(d & -> & _)]; unfold opB; [right; right; right; left; eauto|right; right; left; eauto]. }
  apply HT_or.
  - eapply HT_pre with (Pre' := fun x => PA o f data mode x /\ (fresh o f st /\ (same_def st0 st \/ (deferred_one f st0 st /\ RM ftp st0 st)))); [|tauto].
    apply HT_pure. intros [Hfr [[Sw Sr]|[(d & Hd & Dd & Bd) Hr]]]; unfold finish, finalize_writes.
    + rewrite Sw, Sr, W0, R0. cbn [finalize_writes_from finalize_removals].
      eapply HT_bind with (Q := fun _ x => PA o f data mode x); [apply HT_ret; auto|]. intros st1.
      eapply HT_bind with (Q := fun _ x => PA o f data mode x); [apply HT_ret; auto|]. intros u.
      apply HT_ret. intros x Hx. apply PA_KO. exact Hx.
    + rewrite Hd, W0. cbn [app finalize_writes_from].
      eapply HT_bind with (Q := fun _ x => PB o f data mode x).
      { eapply HT_bind with (Q := fun _ x => PA o f data mode x /\ True).
        { rewrite Dd. eapply HT_inv with (P := opA o f); [apply Logged_ensure|apply TP_ensure_opA|apply PA_kept; exact Hrej|apply Post_true|apply PA_KO]. }
        intros u. eapply HT_pre with (Pre' := PA o f data mode); [|tauto].
        eapply HT_bind with (Q := fun _ x => PB o f data mode x).
        - intros w Hp.
          pose proof (write_now_phase o f data mode st (with_backup_of [d] d) w Dd) as H.
          unfold with_backup_of at 1 in H. cbn [d_backup] in H. rewrite Bd in H. specialize (H eq_refl Hp Hfr).
          destruct (write_now o st (with_backup_of [d] d) w) as [[st'|e] w']; [tauto|exact H].
        - intros st'. apply HT_ret. auto. }
      intros st1. apply Rm. apply RmB. exact Hr.
  - eapply HT_pre with (Pre' := fun x => PB o f data mode x /\ (deferred_writes st = deferred_writes st0 /\ RM ftp st0 st)); [|tauto].
    apply HT_pure. intros [Sw Hr]. unfold finish, finalize_writes. rewrite Sw, W0. cbn [finalize_writes_from].
    eapply HT_bind with (Q := fun _ x => PB o f data mode x); [apply HT_ret; auto|]. intros st1.
    apply Rm. apply RmB. exact Hr.
Qed.

(* (2), one section.  ftp and f are the file the section reads and the file it writes, as the driver determines them from
   the tree. *)
Theorem backup_section_keeps_original o st should p s w data mode :
  let ftp := if is_nil (file_to_patch o) then guess_filepath (fs w) (map d_dest (deferred_writes st)) p o else file_to_patch o in
  let f := output_path o p ftp in
  save_backup o = true ->
  reject_path o f <> f -> (forall t, lookup (fs w) (reject_path o f) <> Some (Sym t)) ->
  ftp <> backup_name o f ->
  lookup (fs w) f = Some (Reg data mode) -> exists_ (fs w) f = true ->
  existsb (str_eqb (backup_name o f)) (backed_up st) = false ->
  let w' := snd (process_section o st should p s w) in
  lookup (fs w') f = Some (Reg data mode) \/ lookup (fs w') (backup_name o f) = Some (Reg data mode).
Proof.
  cbv zeta. intros Hsb Hrej Hns Hftp Hl Hex Hfr.
  set (ftp := if is_nil (file_to_patch o) then guess_filepath (fs w) (map d_dest (deferred_writes st)) p o else file_to_patch o) in *.
  set (f := output_path o p ftp) in *.
  assert (Hpa : PA o f data mode (fs w)) by (repeat split; assumption).
  pose proof (section_backup o ftp f data mode Hsb Hrej Hftp st should p s w eq_refl eq_refl Hfr Hpa) as H.
  destruct (process_section o st should p s w) as [[y|e] w']; cbn [snd]; [|exact H].
  destruct H as [[H _]|[H _]]; [apply PA_KO in H|apply PB_KO in H]; exact H.
Qed.

(* (2), the section followed by the finalisation, when nothing else is pending: the run of a patch with this one section *)
Theorem backup_section_then_finish_keeps_original o st should p s w data mode :
  let ftp := if is_nil (file_to_patch o) then guess_filepath (fs w) (map d_dest (deferred_writes st)) p o else file_to_patch o in
  let f := output_path o p ftp in
  save_backup o = true ->
  reject_path o f <> f -> (forall t, lookup (fs w) (reject_path o f) <> Some (Sym t)) ->
  ftp <> backup_name o f ->
  lookup (fs w) f = Some (Reg data mode) -> exists_ (fs w) f = true ->
  existsb (str_eqb (backup_name o f)) (backed_up st) = false ->
  deferred_writes st = [] -> deferred_removals st = [] ->
  let w' := snd ((let! y := process_section o st should p s in finish o (fst y)) w) in
  lookup (fs w') f = Some (Reg data mode) \/ lookup (fs w') (backup_name o f) = Some (Reg data mode).
Proof.
  cbv zeta. intros Hsb Hrej Hns Hftp Hl Hex Hfr W0 R0.
  set (ftp := if is_nil (file_to_patch o) then guess_filepath (fs w) (map d_dest (deferred_writes st)) p o else file_to_patch o) in *.
  set (f := output_path o p ftp) in *.
  assert (Hpa : PA o f data mode (fs w)) by (repeat split; assumption).
  pose proof (section_backup o ftp f data mode Hsb Hrej Hftp st should p s w eq_refl eq_refl Hfr Hpa) as H.
  rewrite mbind_eq. destruct (process_section o st should p s w) as [[y|e] w1]; cbn [snd]; [|exact H].
  pose proof (finish_backup o ftp f data mode st (fst y) Hrej Hftp W0 R0 w1 H) as H2.
  destruct (finish o (fst y) w1) as [[r|e] w2]; exact H2.
Qed.

(* (2), the whole run of a patch whose only section is this one (text may follow it) *)
Theorem backup_run_keeps_original o fmt t should p s1 found w data mode :
  let ftp := if is_nil (file_to_patch o) then guess_filepath (fs w) [] p o else file_to_patch o in
  let f := output_path o p ftp in
  format_from_options o = Ok fmt ->
  parse_patch_header_full (empty_patch fmt) (strip_size o) (stream_of t) = Ok (should, p, s1, found) ->
  (if negb found && should then FUnknown else pfmt p) <> FUnknown ->
  poper p <> OpBinary ->
  (forall st1 s2 w1, process_section o ds0 should p s1 w = (Ok (st1, s2), w1) -> ends_here o fmt s2 = true) ->
  save_backup o = true ->
  reject_path o f <> f -> (forall t0, lookup (fs w) (reject_path o f) <> Some (Sym t0)) ->
  ftp <> backup_name o f ->
  lookup (fs w) f = Some (Reg data mode) -> exists_ (fs w) f = true ->
  let w' := snd (process_patch o t w) in
  lookup (fs w') f = Some (Reg data mode) \/ lookup (fs w') (backup_name o f) = Some (Reg data mode).
Proof.
  cbv zeta. intros Hfo Hh Hf Hop Hend Hsb Hrej Hns Hftp Hl Hex.
  pose proof (backup_section_then_finish_keeps_original o ds0 should p s1 w data mode Hsb Hrej Hns Hftp Hl Hex eq_refl eq_refl eq_refl) as H.
  cbv zeta in H. rewrite mbind_eq in H.
  rewrite process_patch_unfold, bind_lift, Hfo. rewrite mbind_eq.
  destruct (process_section o ds0 should p s1 w) as [[[st1 s2]|e] w1] eqn:Hps.
  - assert (L : section_loop (S (S (length t))) o fmt ds0 (stream_of t) true w = (Ok st1, w1)).
    { cbn [section_loop]. change (seof (stream_of t)) with false. cbv iota. rewrite bind_lift, Hh.
      assert (E : (let! y := process_section o ds0 should p s1 in section_loop (S (length t)) o fmt (fst y) (snd y) false) w = (Ok st1, w1)).
      { unfold mbind. rewrite Hps. cbn [fst snd]. apply section_loop_ends. eapply Hend. reflexivity. }
      destruct (if negb found && should then FUnknown else pfmt p); try congruence; destruct (poper p); try congruence; exact E. }
    rewrite L. cbn [fst] in H. exact H.
  - rewrite (section_loop_first_throws o fmt (S (length t)) ds0 (stream_of t) true should p s1 found e w w1 eq_refl Hh Hf Hop Hps).
    cbn [snd] in *. exact H.
Qed.
