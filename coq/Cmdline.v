(* Cmdline.v — CmdLineParser::parse (src/cmdline.cpp) and OptionHandler (src/options.cpp), generic in the
   option table; the table itself is regenerated from options.cpp into OptionsTable.v on every run.
   Definitions only. *)
From PatchV Require Import Base Lines Options OptionsVocab.

(* ---- std::stoi(str, &pos) followed by the pos != size test of OptionHandler::stoi ---- *)
Definition is_cspace (c : N) : bool := N.eqb c 32 || (N.leb 9 c && N.leb c 13).
Fixpoint drop_cspace (s : list N) : list N :=
  match s with c :: r => if is_cspace c then drop_cspace r else s | [] => [] end.
Fixpoint digits_value (s : list N) (acc : Z) : option Z :=   (* every character must be a digit *)
  match s with
  | [] => Some acc
  | c :: r => if is_digit c then digits_value r (acc * 10 + Z.of_N (c - 48))%Z else None
  end.
Definition stoi_sign (s1 : list N) : bool * list N :=
  match s1 with
  | 43%N :: r => (false, r)
  | 45%N :: r => (true, r)
  | _ => (false, s1)
  end.
Definition stoi_body (neg : bool) (s2 : list N) : res Z :=
  match s2 with
  | [] => Throw ECmdline
  | c :: _ =>
      if negb (is_digit c) then Throw ECmdline
      else match digits_value s2 0 with
           | None => Throw ECmdline                          (* pos != str.size() *)
           | Some v => let z := if neg then (- v)%Z else v in
                       if Z.ltb z (-2147483648) || Z.ltb 2147483647 z then Throw EOutOfRange else Ok z
           end
  end.
Definition stoi (s : list N) : res Z :=
  let '(neg, s2) := stoi_sign (drop_cspace s) in stoi_body neg s2.

(* ---- field updates ---- *)
Definition upd_str (f : field) (v : list N) (o : options) : res options :=
  match f with
  | FBackupPrefix => Ok (mkOptions (save_backup o) (interpret_as_context o) (patch_directory_path o) (define_macro o) (interpret_as_ed o) (patch_file_path o) (ignore_whitespace o) (interpret_as_normal o) (ignore_reversed o) (out_file_path o) (strip_size o) (max_fuzz o) (reverse_patch_opt o) (file_to_patch o) (reject_file_path o) (force o) (batch o) (show_help o) (show_version o) (interpret_as_unified o) (verbose o) (dry_run o) (posix o) (backup_if_mismatch o) (remove_empty_files o) (newline_output o) (reject_format_opt o) (read_only o) (quoting o) (backup_suffix o) v)
  | FBackupSuffix => Ok (mkOptions (save_backup o) (interpret_as_context o) (patch_directory_path o) (define_macro o) (interpret_as_ed o) (patch_file_path o) (ignore_whitespace o) (interpret_as_normal o) (ignore_reversed o) (out_file_path o) (strip_size o) (max_fuzz o) (reverse_patch_opt o) (file_to_patch o) (reject_file_path o) (force o) (batch o) (show_help o) (show_version o) (interpret_as_unified o) (verbose o) (dry_run o) (posix o) (backup_if_mismatch o) (remove_empty_files o) (newline_output o) (reject_format_opt o) (read_only o) (quoting o) v (backup_prefix o))
  | FDefineMacro => Ok (mkOptions (save_backup o) (interpret_as_context o) (patch_directory_path o) v (interpret_as_ed o) (patch_file_path o) (ignore_whitespace o) (interpret_as_normal o) (ignore_reversed o) (out_file_path o) (strip_size o) (max_fuzz o) (reverse_patch_opt o) (file_to_patch o) (reject_file_path o) (force o) (batch o) (show_help o) (show_version o) (interpret_as_unified o) (verbose o) (dry_run o) (posix o) (backup_if_mismatch o) (remove_empty_files o) (newline_output o) (reject_format_opt o) (read_only o) (quoting o) (backup_suffix o) (backup_prefix o))
  | FPatchDirectoryPath => Ok (mkOptions (save_backup o) (interpret_as_context o) v (define_macro o) (interpret_as_ed o) (patch_file_path o) (ignore_whitespace o) (interpret_as_normal o) (ignore_reversed o) (out_file_path o) (strip_size o) (max_fuzz o) (reverse_patch_opt o) (file_to_patch o) (reject_file_path o) (force o) (batch o) (show_help o) (show_version o) (interpret_as_unified o) (verbose o) (dry_run o) (posix o) (backup_if_mismatch o) (remove_empty_files o) (newline_output o) (reject_format_opt o) (read_only o) (quoting o) (backup_suffix o) (backup_prefix o))
  | FPatchFilePath => Ok (mkOptions (save_backup o) (interpret_as_context o) (patch_directory_path o) (define_macro o) (interpret_as_ed o) v (ignore_whitespace o) (interpret_as_normal o) (ignore_reversed o) (out_file_path o) (strip_size o) (max_fuzz o) (reverse_patch_opt o) (file_to_patch o) (reject_file_path o) (force o) (batch o) (show_help o) (show_version o) (interpret_as_unified o) (verbose o) (dry_run o) (posix o) (backup_if_mismatch o) (remove_empty_files o) (newline_output o) (reject_format_opt o) (read_only o) (quoting o) (backup_suffix o) (backup_prefix o))
  | FOutFilePath => Ok (mkOptions (save_backup o) (interpret_as_context o) (patch_directory_path o) (define_macro o) (interpret_as_ed o) (patch_file_path o) (ignore_whitespace o) (interpret_as_normal o) (ignore_reversed o) v (strip_size o) (max_fuzz o) (reverse_patch_opt o) (file_to_patch o) (reject_file_path o) (force o) (batch o) (show_help o) (show_version o) (interpret_as_unified o) (verbose o) (dry_run o) (posix o) (backup_if_mismatch o) (remove_empty_files o) (newline_output o) (reject_format_opt o) (read_only o) (quoting o) (backup_suffix o) (backup_prefix o))
  | FRejectFilePath => Ok (mkOptions (save_backup o) (interpret_as_context o) (patch_directory_path o) (define_macro o) (interpret_as_ed o) (patch_file_path o) (ignore_whitespace o) (interpret_as_normal o) (ignore_reversed o) (out_file_path o) (strip_size o) (max_fuzz o) (reverse_patch_opt o) (file_to_patch o) v (force o) (batch o) (show_help o) (show_version o) (interpret_as_unified o) (verbose o) (dry_run o) (posix o) (backup_if_mismatch o) (remove_empty_files o) (newline_output o) (reject_format_opt o) (read_only o) (quoting o) (backup_suffix o) (backup_prefix o))
  | _ => Throw EOutOfFuel
  end.

Definition upd_file_to_patch (v : list N) (o : options) : options :=
  mkOptions (save_backup o) (interpret_as_context o) (patch_directory_path o) (define_macro o) (interpret_as_ed o) (patch_file_path o) (ignore_whitespace o) (interpret_as_normal o) (ignore_reversed o) (out_file_path o) (strip_size o) (max_fuzz o) (reverse_patch_opt o) v (reject_file_path o) (force o) (batch o) (show_help o) (show_version o) (interpret_as_unified o) (verbose o) (dry_run o) (posix o) (backup_if_mismatch o) (remove_empty_files o) (newline_output o) (reject_format_opt o) (read_only o) (quoting o) (backup_suffix o) (backup_prefix o).

Definition upd_true (f : field) (o : options) : res options :=
  let mk sb ic ie iw inn ir rp fo ba sh sv iu ve dr po :=
    mkOptions sb ic (patch_directory_path o) (define_macro o) ie (patch_file_path o) iw inn ir (out_file_path o) (strip_size o) (max_fuzz o) rp (file_to_patch o) (reject_file_path o) fo ba sh sv iu ve dr po (backup_if_mismatch o) (remove_empty_files o) (newline_output o) (reject_format_opt o) (read_only o) (quoting o) (backup_suffix o) (backup_prefix o) in
  let sb := save_backup o in let ic := interpret_as_context o in let ie := interpret_as_ed o in let iw := ignore_whitespace o in
  let inn := interpret_as_normal o in let ir := ignore_reversed o in let rp := reverse_patch_opt o in let fo := force o in
  let ba := batch o in let sh := show_help o in let sv := show_version o in let iu := interpret_as_unified o in
  let ve := verbose o in let dr := dry_run o in let po := posix o in
  match f with
  | FSaveBackup => Ok (mk true ic ie iw inn ir rp fo ba sh sv iu ve dr po)
  | FInterpretAsContext => Ok (mk sb true ie iw inn ir rp fo ba sh sv iu ve dr po)
  | FInterpretAsEd => Ok (mk sb ic true iw inn ir rp fo ba sh sv iu ve dr po)
  | FIgnoreWhitespace => Ok (mk sb ic ie true inn ir rp fo ba sh sv iu ve dr po)
  | FInterpretAsNormal => Ok (mk sb ic ie iw true ir rp fo ba sh sv iu ve dr po)
  | FIgnoreReversed => Ok (mk sb ic ie iw inn true rp fo ba sh sv iu ve dr po)
  | FReversePatch => Ok (mk sb ic ie iw inn ir true fo ba sh sv iu ve dr po)
  | FForce => Ok (mk sb ic ie iw inn ir rp true ba sh sv iu ve dr po)
  | FBatch => Ok (mk sb ic ie iw inn ir rp fo true sh sv iu ve dr po)
  | FShowHelp => Ok (mk sb ic ie iw inn ir rp fo ba true sv iu ve dr po)
  | FShowVersion => Ok (mk sb ic ie iw inn ir rp fo ba sh true iu ve dr po)
  | FInterpretAsUnified => Ok (mk sb ic ie iw inn ir rp fo ba sh sv true ve dr po)
  | FVerbose => Ok (mk sb ic ie iw inn ir rp fo ba sh sv iu true dr po)
  | FDryRun => Ok (mk sb ic ie iw inn ir rp fo ba sh sv iu ve true po)
  | FPosix => Ok (mk sb ic ie iw inn ir rp fo ba sh sv iu ve dr true)
  | _ => Throw EOutOfFuel
  end.

Definition upd_int (f : field) (z : Z) (o : options) : res options :=
  let mk ss mf := mkOptions (save_backup o) (interpret_as_context o) (patch_directory_path o) (define_macro o) (interpret_as_ed o) (patch_file_path o) (ignore_whitespace o) (interpret_as_normal o) (ignore_reversed o) (out_file_path o) ss mf (reverse_patch_opt o) (file_to_patch o) (reject_file_path o) (force o) (batch o) (show_help o) (show_version o) (interpret_as_unified o) (verbose o) (dry_run o) (posix o) (backup_if_mismatch o) (remove_empty_files o) (newline_output o) (reject_format_opt o) (read_only o) (quoting o) (backup_suffix o) (backup_prefix o) in
  match f with
  | FStripSize => Ok (mk z (max_fuzz o))
  | FMaxFuzz => Ok (mk (strip_size o) z)
  | _ => Throw EOutOfFuel
  end.

Definition upd_misc (bim : optional_bool) (ref : optional_bool) (nlo : nlmode) (rf : reject_format) (ro : read_only_handling) (q : quoting_style) (px : bool) (o : options) : options :=
  mkOptions (save_backup o) (interpret_as_context o) (patch_directory_path o) (define_macro o) (interpret_as_ed o) (patch_file_path o) (ignore_whitespace o) (interpret_as_normal o) (ignore_reversed o) (out_file_path o) (strip_size o) (max_fuzz o) (reverse_patch_opt o) (file_to_patch o) (reject_file_path o) (force o) (batch o) (show_help o) (show_version o) (interpret_as_unified o) (verbose o) (dry_run o) px bim ref nlo rf ro q (backup_suffix o) (backup_prefix o).

Definition upd_ob (f : field) (yes : bool) (o : options) : res options :=
  let v := if yes then OBYes else OBNo in
  match f with
  | FBackupIfMismatch => Ok (upd_misc v (remove_empty_files o) (newline_output o) (reject_format_opt o) (read_only o) (quoting o) (posix o) o)
  | FRemoveEmptyFiles => Ok (upd_misc (backup_if_mismatch o) v (newline_output o) (reject_format_opt o) (read_only o) (quoting o) (posix o) o)
  | _ => Throw EOutOfFuel
  end.

Definition quoting_of (v : list N) : option quoting_style :=
  if str_eqb v (bs "literal") then Some QSLiteral else if str_eqb v (bs "shell") then Some QSShell
  else if str_eqb v (bs "shell-always") then Some QSShellAlways else if str_eqb v (bs "c") then Some QSC else None.

Definition run_handler (h : handler) (v : list N) (o : options) : res options :=
  let same := upd_misc (backup_if_mismatch o) (remove_empty_files o) in
  match h with
  | HNewline =>
      if str_eqb v (bs "native") then Ok (same MNative (reject_format_opt o) (read_only o) (quoting o) (posix o) o)
      else if str_eqb v (bs "lf") then Ok (same MLF (reject_format_opt o) (read_only o) (quoting o) (posix o) o)
      else if str_eqb v (bs "crlf") then Ok (same MCRLF (reject_format_opt o) (read_only o) (quoting o) (posix o) o)
      else if str_eqb v (bs "preserve") then Ok (same MKeep (reject_format_opt o) (read_only o) (quoting o) (posix o) o)
      else Throw ECmdline
  | HReadOnly =>
      if str_eqb v (bs "warn") then Ok (same (newline_output o) (reject_format_opt o) ROWarn (quoting o) (posix o) o)
      else if str_eqb v (bs "ignore") then Ok (same (newline_output o) (reject_format_opt o) ROIgnore (quoting o) (posix o) o)
      else if str_eqb v (bs "fail") then Ok (same (newline_output o) (reject_format_opt o) ROFail (quoting o) (posix o) o)
      else Throw ECmdline
  | HRejectFormat =>
      if str_eqb v (bs "context") then Ok (same (newline_output o) RFContext (read_only o) (quoting o) (posix o) o)
      else if str_eqb v (bs "unified") then Ok (same (newline_output o) RFUnified (read_only o) (quoting o) (posix o) o)
      else Throw ECmdline
  | HQuotingStyle =>
      match quoting_of v with
      | Some q => Ok (same (newline_output o) (reject_format_opt o) (read_only o) q (posix o) o)
      | None => Throw ECmdline
      end
  end.

Definition apply_setter (s : setter) (v : list N) (o : options) : res options :=
  match s with
  | SetStr f => upd_str f v o
  | SetTrue f => upd_true f o
  | SetInt f => do z <- stoi v; upd_int f z o
  | SetOB f yes => upd_ob f yes o
  | Handle h => run_handler h v o
  end.

Record pstate := mkPS { p_opts : options; p_pos : nat }.

Section Parse.
Variable switches : list (Z * list N * bool).
Variable setters : list (Z * setter).

Fixpoint find_setter (l : list (Z * setter)) (id : Z) : option setter :=
  match l with [] => None | (i, s) :: r => if Z.eqb i id then Some s else find_setter r id end.

Definition process_operand (v : list N) (p : pstate) : res pstate :=
  match p_pos p with
  | 0 => Ok (mkPS (upd_file_to_patch v (p_opts p)) 1)
  | 1 => do o <- upd_str FPatchFilePath v (p_opts p); Ok (mkPS o 2)
  | _ => Throw ECmdline
  end.

(* Handler::process_option(short_name, option) *)
Definition process_option (id : Z) (v : list N) (p : pstate) : res pstate :=
  match find_setter setters id with
  | Some s => do o <- apply_setter s v (p_opts p); Ok (mkPS o (p_pos p))
  | None => process_operand v p
  end.

Fixpoint find_short (l : list (Z * list N * bool)) (c : N) : option (Z * bool) :=
  match l with
  | [] => None
  | (id, _, a) :: r => if Z.eqb id (Z.of_N c) && N.ltb c 128 then Some (id, a) else find_short r c
  end.

(* parse_short_option on the characters after the leading '-': returns the state and whether argv[i+1] was consumed *)
Fixpoint parse_short (cs : list N) (next : option (list N)) (p : pstate) : res (pstate * bool) :=
  match cs with
  | [] => Ok (p, false)
  | c :: rest =>
      match find_short switches c with
      | None => Throw ECmdline
      | Some (id, true) =>
          match rest with
          | [] => match next with
                  | Some v => do p' <- process_option id v p; Ok (p', true)
                  | None => Throw ECmdline
                  end
          | _ => do p' <- process_option id rest p; Ok (p', false)
          end
      | Some (id, false) => do p' <- process_option id [] p; parse_short rest next p'
      end
  end.

Fixpoint split_eq (s : list N) (acc : list N) : list N * option (list N) :=
  match s with
  | [] => (rev acc, None)
  | c :: r => if N.eqb c 61 then (rev acc, Some r) else split_eq r (c :: acc)
  end.

Definition long_exact (key : list N) := find (fun e => str_eqb (snd (fst e)) key) switches.
Definition long_prefixed (key : list N) := filter (fun e => starts_with (snd (fst e)) key) switches.

Definition parse_long (arg : list N) (next : option (list N)) (p : pstate) : res (pstate * bool) :=
  let '(key, value) := split_eq arg [] in
  let handle (e : Z * list N * bool) :=
    let '(id, _, has_arg) := e in
    if negb has_arg then
      match value with
      | Some _ => Throw ECmdline
      | None => do p' <- process_option id [] p; Ok (p', false)
      end
    else
      match value with
      | Some v => do p' <- process_option id v p; Ok (p', false)
      | None => match next with
                | Some v => do p' <- process_option id v p; Ok (p', true)
                | None => Throw ECmdline
                end
      end in
  match long_exact key with
  | Some e => handle e
  | None => match long_prefixed key with
            | [e] => handle e
            | _ => Throw ECmdline
            end
  end.

Fixpoint operands (args : list (list N)) (p : pstate) : res pstate :=
  match args with
  | [] => Ok p
  | a :: r => do p' <- process_option 63 a p; operands r p'
  end.

Definition is_operand (a : list N) : bool :=
  match a with
  | [] => true
  | c :: r => negb (N.eqb c 45) || is_nil r
  end.

Definition is_long_arg (a : list N) : bool := match a with _ :: 45%N :: _ => true | _ => false end.

(* CmdLineParser::parse over argv[1..] *)
Fixpoint parse_args (args : list (list N)) (p : pstate) : res pstate :=
  match args with
  | [] => Ok p
  | a :: rest =>
      if is_operand a then do p' <- process_option 63 a p; parse_args rest p'
      else if str_eqb a (bs "--") then operands rest p
      else
        let is_long := is_long_arg a in
        match rest with
        | [] =>
            do x <- (if is_long then parse_long a None p else parse_short (tl a) None p);
            Ok (fst x)
        | v :: rest' =>
            do x <- (if is_long then parse_long a (Some v) p else parse_short (tl a) (Some v) p);
            if snd x then parse_args rest' (fst x) else parse_args rest (fst x)
        end
  end.
End Parse.

(* OptionHandler::apply_defaults: environment, then posix defaults *)
Definition apply_defaults (posixly_correct : bool) (quoting_env : option (list N)) (o : options) : options :=
  let px := posix o || posixly_correct in
  let q := match quoting o with
           | QSUnset => match quoting_env with
                        | Some v => match quoting_of v with Some s => s | None => QSShell end
                        | None => QSShell
                        end
           | s => s
           end in
  let dflt (b : optional_bool) := match b with OBUnset => if px then OBNo else OBYes | x => x end in
  upd_misc (dflt (backup_if_mismatch o)) (dflt (remove_empty_files o)) (newline_output o) (reject_format_opt o) (read_only o) q px o.
