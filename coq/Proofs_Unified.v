(* Proofs_Unified.v — C13: hunks written in unified form are read back as the same hunks (formatter.cpp vs parser.cpp). *)
From PatchV Require Import Base Lines Hunk Formatter LineParser Parser Proofs_Base Proofs_Decimal Proofs_Lines.

(* ---------- ranges ---------- *)
Definition wf_range (r : range) : Prop := (0 <= rstart r <= MAXZ)%Z /\ (0 <= rcount r <= MAXZ)%Z.

Lemma print_Z_nonneg z : (0 <= z)%Z -> print_Z z = print_N (Z.to_N z).
Proof. destruct z; [reflexivity|reflexivity|lia]. Qed.

Lemma consume_str_app : forall p x, consume_str p (p ++ x) = Some x.
Proof. induction p as [|c p IH]; intros x; [reflexivity|]. cbn [app consume_str consume_char]. rewrite N.eqb_refl. apply IH. Qed.

Lemma consume_printed_Z z rest : (0 <= z <= MAXZ)%Z -> not_digit_start rest ->
  consume_line_number (print_Z z ++ rest) = Some (true, z, rest).
Proof.
  intros H R. rewrite print_Z_nonneg by lia. rewrite consume_printed; [|unfold MAXZ in H; rewrite MAXLN_val; lia|exact R].
  rewrite Z2N.id by lia. reflexivity.
Qed.

Lemma consume_urange_fmt rg r rest :
  wf_range r -> (exists x, rest = 32%N :: x) ->
  consume_urange rg (fmt_range_unified r ++ rest) = (Some rest, r).
Proof.
  intros [Hs Hc] (x & ->). unfold consume_urange, fmt_range_unified. destruct (Z.eqb_spec (rcount r) 1) as [E|E].
  - rewrite app_nil_r. rewrite consume_printed_Z; [|exact Hs|reflexivity]. cbn [negb consume_char].
    change (N.eqb 32 44) with false. cbv iota. destruct r as [s c]. cbn in *. subst c. reflexivity.
  - rewrite <- app_assoc. cbn [app]. rewrite consume_printed_Z; [|exact Hs|reflexivity]. cbn [negb consume_char].
    change (N.eqb 44 44) with true. cbv iota. rewrite consume_printed_Z; [|exact Hc|reflexivity].
    destruct r as [s c]. reflexivity.
Qed.

Definition unified_header (o n : range) : list N :=
  bs "@@ -" ++ fmt_range_unified o ++ bs " +" ++ fmt_range_unified n ++ bs " @@".

Lemma parse_unified_header h0 o n :
  wf_range o -> wf_range n ->
  parse_unified_range h0 (unified_header o n) = (true, mkHunk o n (body h0)).
Proof.
  intros Ho Hn. unfold parse_unified_range, unified_header. rewrite consume_str_app.
  rewrite (consume_urange_fmt (oldr h0) o) by (try exact Ho; eexists; reflexivity).
  change (bs " +" ++ fmt_range_unified n ++ bs " @@") with (bs " +" ++ (fmt_range_unified n ++ bs " @@")).
  rewrite consume_str_app. cbn [newr oldr body].
  rewrite (consume_urange_fmt (newr h0) n) by (try exact Hn; eexists; reflexivity).
  change (bs " @@") with (bs " @@" ++ []). rewrite consume_str_app. reflexivity.
Qed.

(* ---------- reading one line of the stream ---------- *)
Definition clean (t : list N) : Prop := ~ In 10%N t /\ last_opt t <> Some 13%N.

Lemma get_line_aux_lf r : forall t acc, ~ In 10%N t ->
  (match rev t ++ acc with 13%N :: _ => False | _ => True end) ->
  get_line_aux (t ++ 10%N :: r) acc = Some (rev (rev t ++ acc), LF, r, false).
Proof.
  induction t as [|c t IH]; intros acc H1 H2; cbn [app get_line_aux].
  - change (N.eqb 10 10) with true. cbv iota. cbn [rev app] in *. destruct acc as [|a acc]; [reflexivity|].
    destruct a as [|p]; [reflexivity|]. do 4 (destruct p as [p|p|]; try reflexivity). contradiction.
  - destruct (N.eqb_spec c 10) as [->|Hc]; [exfalso; apply H1; left; reflexivity|].
    rewrite IH.
    + cbn [rev]. rewrite <- app_assoc. reflexivity.
    + intros I. apply H1. right. exact I.
    + cbn [rev] in H2. rewrite <- app_assoc in H2. exact H2.
Qed.

Lemma last_opt_rev_hd {A} (t : list A) : last_opt t = hd_error (rev t).
Proof.
  destruct t as [|a t0] using rev_ind; [reflexivity|]. rewrite last_opt_snoc, rev_app_distr. reflexivity.
Qed.

Lemma sget_line_lf t r : clean t ->
  sget_line (mkStream (t ++ 10%N :: r) false false) = (Some (t, LF), mkStream r false false).
Proof.
  intros [H1 H2]. unfold sget_line. cbn [seof sbad rest]. unfold get_line. rewrite get_line_aux_lf.
  - rewrite app_nil_r, rev_involutive. reflexivity.
  - exact H1.
  - rewrite app_nil_r. rewrite last_opt_rev_hd in H2. destruct (rev t) as [|a x]; [exact I|].
    destruct a as [|p]; [exact I|]. do 4 (destruct p as [p|p|]; try exact I). apply H2. reflexivity.
Qed.

Lemma sget_line_end : sget_line (mkStream [] false false) = (None, mkStream [] true false).
Proof. reflexivity. Qed.

(* ---------- one body line ---------- *)
Definition strm (bytes : list N) : stream := mkStream bytes false false.
Definition starts92 (s : list N) : bool := match s with c :: _ => N.eqb c 92 | [] => false end.

Lemma peek_is_strm bytes : peek_is (strm bytes) 92 = starts92 bytes.
Proof. destruct bytes; reflexivity. Qed.

Definition marker_text : list N := bs "\ No newline at end of file".
Lemma nonl_marker_eq : nonl_marker = marker_text ++ [10%N]. Proof. reflexivity. Qed.
Lemma marker_clean : clean marker_text. Proof. split; [vm_compute; intuition discriminate|vm_compute; discriminate]. Qed.

Lemma eat_marker_hit ls p rest :
  eat_marker true (ls ++ [p]) (strm (nonl_marker ++ rest)) = (ls ++ [mkPL (pop p) (mkLine (txt (pl p)) NoNL)], strm rest).
Proof.
  unfold eat_marker. rewrite peek_is_strm. cbn [andb]. change (starts92 (nonl_marker ++ rest)) with true. cbv iota.
  unfold set_last_nonl. rewrite rev_app_distr. cbn [rev app]. rewrite rev_involutive.
  rewrite nonl_marker_eq, <- app_assoc. cbn [app]. unfold strm. rewrite (sget_line_lf _ _ marker_clean). reflexivity.
Qed.

Lemma eat_marker_miss hit ls bytes : starts92 bytes = false -> eat_marker hit ls (strm bytes) = (ls, strm bytes).
Proof. intros H. unfold eat_marker. rewrite peek_is_strm, H, andb_false_r. reflexivity. Qed.

Lemma eat_marker_nohit ls s : eat_marker false ls s = (ls, s).
Proof. reflexivity. Qed.

Definition is_old (p : pline) : bool := match pop p with Add => false | _ => true end.
Definition is_new (p : pline) : bool := match pop p with Del => false | _ => true end.
Definition n_old (b : list pline) : Z := Z.of_nat (length (filter is_old b)).
Definition n_new (b : list pline) : Z := Z.of_nat (length (filter is_new b)).

Lemma n_old_cons p r : n_old (p :: r) = ((if is_old p then 1 else 0) + n_old r)%Z.
Proof. unfold n_old; cbn [filter]. destruct (is_old p); cbn [length]; lia. Qed.
Lemma n_new_cons p r : n_new (p :: r) = ((if is_new p then 1 else 0) + n_new r)%Z.
Proof. unfold n_new; cbn [filter]. destruct (is_new p); cbn [length]; lia. Qed.
Lemma n_old_nonneg b : (0 <= n_old b)%Z. Proof. unfold n_old; lia. Qed.
Lemma n_new_nonneg b : (0 <= n_new b)%Z. Proof. unfold n_new; lia. Qed.

(* a line that can be written and read back: no line feed inside, no trailing carriage return, terminator LF or none;
   a line without newline is the last one of the old side or the last one of the new side *)
Definition wf_pline (p : pline) (r : list pline) : Prop :=
  clean (txt (pl p)) /\ nl (pl p) <> CRLF /\
  (nl (pl p) = NoNL -> (is_new p = true /\ n_new r = 0%Z) \/ (is_old p = true /\ n_old r = 0%Z)).
Fixpoint wf_body (b : list pline) : Prop :=
  match b with [] => True | p :: r => wf_pline p r /\ wf_body r end.

(* the loop body of unified_loop for one content line, as a function *)
Definition ustep (o : op) (ls0 : list pline) (s' : stream) (oe ne : Z) : list pline * stream * Z * Z :=
  let ne1 := match o with Del => ne | _ => (ne - 1)%Z end in
  let '(ls1, s1) := match o with Del => (ls0, s') | _ => eat_marker (Z.eqb ne1 0) ls0 s' end in
  let oe1 := match o with Add => oe | _ => (oe - 1)%Z end in
  let '(ls2, s2) := match o with Add => (ls1, s1) | _ => eat_marker (Z.eqb oe1 0) ls1 s1 end in
  (ls2, s2, oe1, ne1).

Definition after_line (p : pline) (rest : list N) : list N :=
  match nl (pl p) with NoNL => nonl_marker ++ rest | _ => rest end.

Lemma ustep_emit p r pre rest :
  wf_pline p r -> starts92 rest = false ->
  ustep (pop p) (pre ++ [mkPL (pop p) (mkLine (txt (pl p)) LF)]) (strm (after_line p rest)) (n_old (p :: r)) (n_new (p :: r))
  = (pre ++ [p], strm rest, n_old r, n_new r).
Proof.
  intros (Hc & Hcr & Hnn) Hrest. rewrite n_old_cons, n_new_cons.
  pose proof (n_old_nonneg r); pose proof (n_new_nonneg r).
  destruct p as [o [t n]]; unfold is_old, is_new, after_line in *; cbn [pop pl txt nl] in *.
  destruct n; [|congruence|].
  - (* terminated line: no marker follows, nothing is eaten *)
    unfold ustep. destruct o; rewrite ?eat_marker_miss by exact Hrest; repeat f_equal; lia.
  - specialize (Hnn eq_refl). unfold ustep.
    destruct o.
    + (* context: last of the new side or last of the old side *)
      destruct Hnn as [[_ Hz]|[_ Hz]]; rewrite Hz.
      * replace (1 + 0 - 1 =? 0)%Z with true by reflexivity. rewrite eat_marker_hit. cbn [pop pl txt].
        rewrite eat_marker_miss by exact Hrest. repeat f_equal; lia.
      * destruct (1 + n_new r - 1 =? 0)%Z eqn:E.
        -- rewrite eat_marker_hit. cbn [pop pl txt]. rewrite eat_marker_miss by exact Hrest. repeat f_equal; lia.
        -- rewrite eat_marker_nohit. replace (1 + 0 - 1 =? 0)%Z with true by reflexivity. rewrite eat_marker_hit. cbn [pop pl txt].
           repeat f_equal; lia.
    + destruct Hnn as [[_ Hz]|[Hf _]]; [|discriminate]. rewrite Hz.
      replace (1 + 0 - 1 =? 0)%Z with true by reflexivity. rewrite eat_marker_hit. cbn [pop pl txt]. repeat f_equal; lia.
    + destruct Hnn as [[Hf _]|[_ Hz]]; [discriminate|]. rewrite Hz.
      replace (1 + 0 - 1 =? 0)%Z with true by reflexivity. rewrite eat_marker_hit. cbn [pop pl txt]. repeat f_equal; lia.
Qed.

(* ---------- the loop ---------- *)
(* what happens after the last line of a hunk: look at the next line *)
Definition fin (f : nat) (acc' : list hunk) (o n : range) (s2 : stream) : res (list hunk * stream) :=
  match sget_line s2 with
  | (None, s3) => Ok (acc', s3)
  | (Some (l2, _), s3) =>
      let '(ok, h2) := parse_unified_range (mkHunk o n []) l2 in
      if ok then unified_loop f s3 acc' (Some (mkHunk (oldr h2) (newr h2) [], rcount (oldr h2), rcount (newr h2))) (0%Z, 0%Z)
      else Ok (acc', sseek s3 (rest s2))
  end.

Lemma op_of_char_char o : op_of_char (op_char o) = Some o.
Proof. destruct o; reflexivity. Qed.

Lemma clean_opline o t : clean t -> clean (op_char o :: t).
Proof.
  intros [H1 H2]. split.
  - intros [E|I]; [destruct o; discriminate|exact (H1 I)].
  - destruct t as [|c t']; [destruct o; discriminate|exact H2].
Qed.

Lemma loop_content_step f bytes acc h oe ne le o t :
  clean t ->
  unified_loop (S f) (strm ((op_char o :: t) ++ 10%N :: bytes)) acc (Some (h, oe, ne)) le =
  let '(ls2, s2, oe1, ne1) := ustep o (body h ++ [mkPL o (mkLine t LF)]) (strm bytes) oe ne in
  if Z.eqb oe1 0 && Z.eqb ne1 0 then fin f (acc ++ [mkHunk (oldr h) (newr h) ls2]) (oldr h) (newr h) s2
  else unified_loop f s2 acc (Some (mkHunk (oldr h) (newr h) ls2, oe1, ne1)) le.
Proof.
  intros Hc. cbn [unified_loop]. unfold strm. rewrite (sget_line_lf _ _ (clean_opline o t Hc)).
  rewrite op_of_char_char. unfold ustep, fin.
  destruct o.
  - destruct (eat_marker (ne - 1 =? 0)%Z (body h ++ [mkPL Ctx (mkLine t LF)]) (mkStream bytes false false)) as [ls1 s1].
    destruct (eat_marker (oe - 1 =? 0)%Z ls1 s1) as [ls2 s2]. reflexivity.
  - destruct (eat_marker (ne - 1 =? 0)%Z (body h ++ [mkPL Add (mkLine t LF)]) (mkStream bytes false false)) as [ls1 s1]. reflexivity.
  - destruct (eat_marker (oe - 1 =? 0)%Z (body h ++ [mkPL Del (mkLine t LF)]) (mkStream bytes false false)) as [ls2 s2]. reflexivity.
Qed.

Lemma fmt_pline_shape p rest :
  fmt_pline_unified p ++ rest = (op_char (pop p) :: txt (pl p)) ++ 10%N :: after_line p rest.
Proof.
  unfold fmt_pline_unified, after_line, is_nonl. cbn [app]. rewrite <- !app_assoc. cbn [app].
  destruct (nl (pl p)); reflexivity.
Qed.

Lemma starts92_body b rest : starts92 rest = false -> starts92 (flat_map fmt_pline_unified b ++ rest) = false.
Proof. destruct b as [|p r]; [auto|]. intros _. cbn. destruct (pop p); reflexivity. Qed.

Lemma counters_nonzero q r : (Z.eqb (n_old (q :: r)) 0 && Z.eqb (n_new (q :: r)) 0) = false.
Proof.
  rewrite n_old_cons, n_new_cons. pose proof (n_old_nonneg r); pose proof (n_new_nonneg r).
  unfold is_old, is_new. destruct (pop q); apply andb_false_iff; [left|right|left]; apply Z.eqb_neq; lia.
Qed.

Lemma body_loop : forall b pre f acc o n le rest,
  b <> [] -> wf_body b -> starts92 rest = false ->
  unified_loop (length b + f) (strm (flat_map fmt_pline_unified b ++ rest)) acc (Some (mkHunk o n pre, n_old b, n_new b)) le
  = fin f (acc ++ [mkHunk o n (pre ++ b)]) o n (strm rest).
Proof.
  induction b as [|p r IH]; intros pre f acc o n le rest Hne Hwf Hrest; [congruence|].
  destruct Hwf as [Hp Hwf]. cbn [flat_map length Nat.add]. rewrite <- app_assoc, fmt_pline_shape.
  rewrite loop_content_step by (destruct Hp as [Hc _]; exact Hc). cbn [body oldr newr].
  rewrite (ustep_emit p r pre (flat_map fmt_pline_unified r ++ rest) Hp (starts92_body r rest Hrest)).
  destruct r as [|q r'].
  - change (n_old []) with 0%Z. change (n_new []) with 0%Z. cbn [Z.eqb andb flat_map app]. reflexivity.
  - rewrite counters_nonzero. rewrite IH; [|discriminate|exact Hwf|exact Hrest]. rewrite <- app_assoc. reflexivity.
Qed.

(* ---------- whole hunks ---------- *)
Definition wf_hunk (h : hunk) : Prop :=
  body h <> [] /\ wf_body (body h) /\ wf_range (oldr h) /\ wf_range (newr h) /\
  rcount (oldr h) = n_old (body h) /\ rcount (newr h) = n_new (body h).

Lemma write_hunk_shape h rest :
  write_hunk_as_unified h ++ rest =
  unified_header (oldr h) (newr h) ++ 10%N :: (flat_map fmt_pline_unified (body h) ++ rest).
Proof. unfold write_hunk_as_unified, unified_header. repeat rewrite <- app_assoc. reflexivity. Qed.

Lemma fmt_range_chars r c : wf_range r -> In c (fmt_range_unified r) -> c = 44%N \/ is_digit c = true.
Proof.
  intros [Hs Hc] I. unfold fmt_range_unified in I. apply in_app_or in I. destruct I as [I|I].
  - rewrite print_Z_nonneg in I by lia. right. destruct (print_N_digits (Z.to_N (rstart r))) as [D _]. rewrite Forall_forall in D. auto.
  - destruct (Z.eqb (rcount r) 1); [destruct I|]. destruct I as [<-|I]; [left; reflexivity|].
    rewrite print_Z_nonneg in I by lia. right. destruct (print_N_digits (Z.to_N (rcount r))) as [D _]. rewrite Forall_forall in D. auto.
Qed.

Lemma header_clean o n : wf_range o -> wf_range n -> clean (unified_header o n).
Proof.
  intros Ho Hn. split.
  - unfold unified_header. intros I.
    apply in_app_or in I. destruct I as [I|I]; [vm_compute in I; intuition discriminate|].
    apply in_app_or in I. destruct I as [I|I]; [destruct (fmt_range_chars _ _ Ho I) as [E|E]; [discriminate|vm_compute in E; discriminate]|].
    apply in_app_or in I. destruct I as [I|I]; [vm_compute in I; intuition discriminate|].
    apply in_app_or in I. destruct I as [I|I]; [destruct (fmt_range_chars _ _ Hn I) as [E|E]; [discriminate|vm_compute in E; discriminate]|].
    vm_compute in I; intuition discriminate.
  - unfold unified_header. rewrite !app_assoc. change (bs " @@") with ([32%N; 64%N] ++ [64%N]). rewrite app_assoc, last_opt_snoc. discriminate.
Qed.

Definition tail_ok (tail : list N) : Prop :=
  tail = [] \/ exists l2 more, tail = l2 ++ 10%N :: more /\ clean l2 /\ starts92 tail = false /\
                               forall h0, fst (parse_unified_range h0 l2) = false.
Definition after (tail : list N) : stream := match tail with [] => mkStream [] true false | _ => strm tail end.

Lemma tail_not92 tail : tail_ok tail -> starts92 tail = false.
Proof. intros [->|(l2 & more & _ & _ & H & _)]; [reflexivity|exact H]. Qed.

Lemma fin_tail f acc' o n tail : tail_ok tail -> fin f acc' o n (strm tail) = Ok (acc', after tail).
Proof.
  intros [->|(l2 & more & -> & Hc & _ & Hp)]; unfold fin.
  - unfold strm. rewrite sget_line_end. reflexivity.
  - unfold strm. rewrite (sget_line_lf _ _ Hc). specialize (Hp (mkHunk o n [])).
    destruct (parse_unified_range (mkHunk o n []) l2) as [ok h2]. cbn [fst] in Hp. subst ok.
    unfold sseek, after. cbn [rest seof sbad]. destruct l2; reflexivity.
Qed.

Fixpoint blen (hs : list hunk) : nat := match hs with [] => 0 | h :: r => length (body h) + blen r end.
Definition emit_hunks (hs : list hunk) : list N := flat_map write_hunk_as_unified hs.

Lemma hunk_eta h : mkHunk (oldr h) (newr h) (body h) = h. Proof. destruct h; reflexivity. Qed.

Lemma chain : forall hs h acc f le tail,
  wf_hunk h -> Forall wf_hunk hs -> tail_ok tail ->
  unified_loop (length (body h) + (blen hs + f))
               (strm (flat_map fmt_pline_unified (body h) ++ emit_hunks hs ++ tail)) acc
               (Some (mkHunk (oldr h) (newr h) [], rcount (oldr h), rcount (newr h))) le
  = Ok (acc ++ h :: hs, after tail).
Proof.
  induction hs as [|h2 hs IH]; intros h acc f le tail Hh Hhs Ht;
    destruct Hh as (Hne & Hwf & Ho & Hn & Eo & En); rewrite Eo, En.
  - cbn [emit_hunks flat_map app]. rewrite body_loop; [|exact Hne|exact Hwf|apply tail_not92; exact Ht].
    cbn [app]. rewrite hunk_eta. apply fin_tail. exact Ht.
  - inversion Hhs as [|? ? H2 Hrest]; subst.
    cbn [emit_hunks flat_map]. fold (emit_hunks hs). rewrite <- app_assoc, write_hunk_shape.
    rewrite body_loop; [|exact Hne|exact Hwf|reflexivity].
    cbn [app]. rewrite hunk_eta. unfold fin. unfold strm at 1.
    destruct H2 as (Hne2 & Hwf2 & Ho2 & Hn2 & Eo2 & En2).
    rewrite (sget_line_lf _ _ (header_clean _ _ Ho2 Hn2)). rewrite (parse_unified_header _ _ _ Ho2 Hn2). cbn [oldr newr body].
    cbn [blen]. rewrite <- Nat.add_assoc.
    match goal with |- context [mkStream ?x false false] => change (mkStream x false false) with (strm x) end.
    rewrite (IH h2 (acc ++ [h]) f (0%Z, 0%Z) tail); [|exact (conj Hne2 (conj Hwf2 (conj Ho2 (conj Hn2 (conj Eo2 En2)))))|exact Hrest|exact Ht].
    rewrite <- app_assoc. reflexivity.
Qed.

Lemma blen_le hs tail : blen hs <= length (emit_hunks hs ++ tail).
Proof.
  induction hs as [|h hs IH]; [cbn; lia|]. cbn [blen emit_hunks flat_map]. fold (emit_hunks hs). rewrite <- app_assoc, app_length.
  assert (length (body h) <= length (write_hunk_as_unified h)).
  { unfold write_hunk_as_unified. rewrite !app_length. generalize (body h). intros b.
    assert (length b <= length (flat_map fmt_pline_unified b)); [|lia].
    induction b as [|p r IHb]; [cbn; lia|]. cbn [flat_map length]. rewrite app_length. unfold fmt_pline_unified at 1. cbn [length]. lia. }
  lia.
Qed.

(* A list of well-formed hunks written in unified form (as in a unified reject file, after its two header lines) and followed
   by nothing or by a line that is not a range line, is read back as exactly these hunks; the stream is left at what follows. *)
Theorem unified_roundtrip hs tail :
  hs <> [] -> Forall wf_hunk hs -> tail_ok tail ->
  parse_unified_patch (strm (emit_hunks hs ++ tail)) = Ok (hs, after tail).
Proof.
  intros Hne Hwf Ht. unfold parse_unified_patch. cbn [rest strm].
  destruct hs as [|h hs]; [congruence|]. inversion Hwf as [|? ? Hh Hrest]; subst.
  pose proof (blen_le (h :: hs) tail) as L. set (bytes := emit_hunks (h :: hs) ++ tail) in *.
  replace (S (length bytes)) with (S (blen (h :: hs) + (length bytes - blen (h :: hs)))) by lia.
  unfold bytes. cbn [emit_hunks flat_map]. fold (emit_hunks hs). rewrite <- app_assoc, write_hunk_shape.
  cbn [unified_loop]. unfold strm at 1. destruct Hh as (Hne1 & Hwf1 & Ho & Hn & Eo & En).
  rewrite (sget_line_lf _ _ (header_clean _ _ Ho Hn)). rewrite (parse_unified_header _ _ _ Ho Hn). cbn [oldr newr body empty_hunk].
  cbn [blen]. rewrite <- Nat.add_assoc.
  match goal with |- context [mkStream ?x false false] => change (mkStream x false false) with (strm x) end.
  rewrite (chain hs h [] _ _ tail); [reflexivity|exact (conj Hne1 (conj Hwf1 (conj Ho (conj Hn (conj Eo En)))))|exact Hrest|exact Ht].
Qed.
