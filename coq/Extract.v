(* Extract.v — extraction of the executable model to OCaml (ExtrOcamlBasic only; no Extract Constant /
   Extract Inductive of our own).  Run from /verif/ocaml:  coqc -Q ../coq PatchV ../coq/Extract.v *)
From PatchV Require Import Base Lines Hunk Locator Formatter Options Applier LineParser Parser World Driver OptionsVocab OptionsTable Cmdline Spec_Locate Spec_Apply Spec_Define Oracle.
Require Extraction.
Require Import ExtrOcamlBasic.
Extraction Language OCaml.
Extraction "model.ml"
  bs str_eqb print_Z print_N string_to_line_number
  split_lines lines_bytes get_line
  reverse_hunk reverse_patch old_side new_side
  matches_ignoring_whitespace matches locate_hunk expected_line_number
  write_hunk_as_unified write_hunk_as_context write_patch_header_as_unified write_patch_header_as_context
  default_options apply_patch
  parse_patch parse_all strip_path parse_quoted_string parse_file_line parse_unified_range parse_normal_range empty_hunk parse_mode
  run_patch parse_args apply_defaults switches setters
  cpp_eval norm_ws admissibleb spec_C02_locate spec_C03_locate spec_apply replay splice
  Z.mul Z.add Z.opp Z.of_N Z.to_N N.of_nat N.to_nat Z.of_nat Z.to_nat.
