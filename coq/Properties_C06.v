(* Properties_C06.v — C06: an already applied patch is detected, not applied a second time.
   Statements only; proofs in Proofs_Reapply.v. *)
From PatchV Require Import Base Lines Hunk Locator Options Applier Spec_Locate Spec_Apply Proofs_Conf Proofs_Reapply Formatter LineParser Parser World Driver Proofs_Touch Proofs_Reverse Proofs_DriverMore.

(* -N: when the first hunk no longer applies perfectly and its reverse does (or the hunk does not apply at all and its
   reverse applies somehow), nothing is applied: the file comes out unchanged, every hunk is counted as rejected, the
   patch is reported as skipped (the driver then writes no target and no backup, exit status 1). *)
Theorem reapply_ignored : forall o f p r h hs,
  define_macro o = [] -> force o = false -> ignore_reversed o = true ->
  hunks (effective o p) = h :: hs ->
  looks_reversed o (effective o p) f h ->
  apply_patch o f p = Ok r ->
  r_out r = f /\ r_failed r = length (hunks p) /\ r_skipped r = true.
Proof. exact Proofs_Reapply.reapply_ignored. Qed.
Print Assumptions reapply_ignored.

(* -t: the patch that turned A into B, run again on B where its first hunk no longer fits at its stated place, is applied
   in reverse and gives back exactly A, nothing rejected; the rest of the run sees the reversed patch record (creation and
   deletion, names and modes exchanged, as under -R), so that a file the patch had created is removed again. *)
Theorem reapply_reversed : forall o p A B h hs,
  define_macro o = [] -> verbose o = false -> force o = false -> ignore_reversed o = false -> batch o = true ->
  (0 <= max_fuzz o)%Z ->
  hunks (effective o p) = h :: hs ->
  Conforming A B (hunks (effective o p)) -> (Z.of_nat (length B) < MAXZ)%Z ->
  creation_guard (reverse_patch (effective o p)) B ->
  loc_perfect (first_loc o (effective o p) B h) = false ->
  exists r, apply_patch o B p = Ok r /\ r_out r = A /\ r_failed r = 0 /\ r_rej r = [] /\ r_skipped r = false /\
            exists hs', r_patch r = set_hunks (reverse_patch (effective o p)) hs'.
Proof. exact Proofs_Reapply.reapply_reversed. Qed.
Print Assumptions reapply_reversed.

(* -f: no guess is made; the first hunk is treated like every other one *)
Theorem force_no_guess : forall o p f s hs, force o = true -> apply_first o p f s hs = with_patch p (apply_rest o p f 0 s hs).
Proof. exact Proofs_Reapply.force_no_guess. Qed.
Print Assumptions force_no_guess.

Local Open Scope string_scope.
Definition ex_l (s : String.string) := mkLine (bs s) LF.
Definition ex_h := mkHunk (mkRange 1 2) (mkRange 1 3)
  [mkPL Ctx (ex_l "a"); mkPL Del (ex_l "b"); mkPL Add (ex_l "B"); mkPL Add (ex_l "c")].
Definition ex_opts (n t : bool) :=
  mkOptions false false [] [] false [] false false n [] (-1) 2 false [] [] false t false false false false false false OBUnset OBUnset MNative RFDefault ROWarn QSUnset [] [].
Example reapply_nonvacuous :
  let A := [ex_l "a"; ex_l "b"] in let B := [ex_l "a"; ex_l "B"; ex_l "c"] in
  let p := mkPatch FUnified OpChange [] [] (bs "f") (bs "f") [] [] 0 0 [ex_h] in
  Conforming A B [ex_h] /\
  loc_perfect (first_loc (ex_opts true false) p B ex_h) = false /\
  loc_perfect (first_rloc (ex_opts true false) B ex_h) = true /\
  match apply_patch (ex_opts true false) B p with Ok r => r_out r = B /\ r_failed r = 1 /\ r_skipped r = true | Throw _ => False end /\
  match apply_patch (ex_opts false true) B p with Ok r => r_out r = A /\ r_failed r = 0 | Throw _ => False end.
Proof.
  cbv zeta. split.
  - unfold Conforming. apply (Conf_cons 0 0 [] ex_h [] [] []); try reflexivity; [discriminate|constructor].
  - vm_compute. repeat split; reflexivity.
Qed.

(* ---------------------------------------------------------------------------------------------------------------
   C06 at driver level (process_section, finalize_writes); proofs in Proofs_DriverMore.v, non-vacuity Examples and
   whole-program vm_compute runs in Properties_DriverMore.v. *)
(* apply level, total: under -N (no -f, no -D, not --verbose, rejects written in unified format) a patch whose first hunk looks
   reversed cannot make apply_patch fail; the lines come out unchanged, every hunk is counted as failed, the run is marked
   skipped, the message and the reject bytes are exactly these *)
Theorem apply_ignored_total : forall o f p h hs,
  define_macro o = [] -> verbose o = false -> force o = false -> ignore_reversed o = true ->
  should_write_as_unified o p = true ->
  hunks (effective o p) = h :: hs ->
  looks_reversed o (effective o p) f h ->
  exists r, apply_patch o f p = Ok r /\ r_out r = f /\ r_failed r = length (hunks p) /\ r_skipped r = true /\
            r_msgs r = skipping_msg o /\
            r_rej r = skipped_rejects (effective o p) (h :: hs) /\
            length (hunks (r_patch r)) = length (hunks p).
Proof. exact Proofs_DriverMore.apply_ignored_total. Qed.
Print Assumptions apply_ignored_total.

(* One change section for a regular file f of the working directory which already holds the patched content, run with -N
   (ignoring_options: file chosen from the patch, no -o, no -r, no --dry-run, no -D, not --verbose, no -f, -N; -b and
   --backup-if-mismatch are free), no reject file there: the section performs exactly two operations, the opening of f for
   reading and the creation of f.rej; the tree afterwards is the tree before with f.rej added (permissions 0666 & ~umask);
   the state has the failure flag set (exit status 1) and the two messages. *)
Theorem section_ignored_N : forall o p f h hs st s w data mode,
  ignoring_options o -> should_write_as_unified o p = true ->
  poper p = OpChange -> prereq p = [] -> old_path p = f -> new_path p = f -> f <> devnull -> f <> [] -> ~ In 47%N f ->
  hunks (effective o p) = h :: hs -> looks_reversed o (effective o p) (split_lines data) h ->
  fault w = None -> deferred_writes st = [] ->
  lookup (fs w) f = Some (Reg data mode) -> (mode < 4096)%N -> owner_r mode = true ->
  (N.land mode write_mask <> 0%N \/ read_only o <> ROFail) ->
  lookup (fs w) (f ++ bs ".rej") = None ->
  let rej := skipped_rejects (effective o p) (h :: hs) in
  let st' := ignored_state st (skipping_msg o) (length (hunks p)) (length (hunks p)) in
  exists w',
    process_section o st false p s w = (Ok (st', s), w') /\
    fs w' = upd (fs w) (f ++ bs ".rej") (Reg rej (created_mode (umask w))) /\
    trace w' = trace w ++ [OOpenRead f; OWrite (f ++ bs ".rej") rej] /\
    fault w' = None /\ umask w' = umask w /\ stdout_data w' = stdout_data w.
Proof. exact Proofs_DriverMore.section_ignored_N. Qed.
Print Assumptions section_ignored_N.

(* the same when a writable regular reject file is there already: it is overwritten and keeps its mode *)
Theorem section_ignored_N_over : forall o p f h hs st s w data mode rdata rmode,
  ignoring_options o -> should_write_as_unified o p = true ->
  poper p = OpChange -> prereq p = [] -> old_path p = f -> new_path p = f -> f <> devnull -> f <> [] -> ~ In 47%N f ->
  hunks (effective o p) = h :: hs -> looks_reversed o (effective o p) (split_lines data) h ->
  fault w = None -> deferred_writes st = [] ->
  lookup (fs w) f = Some (Reg data mode) -> (mode < 4096)%N -> owner_r mode = true ->
  (N.land mode write_mask <> 0%N \/ read_only o <> ROFail) ->
  lookup (fs w) (f ++ bs ".rej") = Some (Reg rdata rmode) -> owner_w rmode = true ->
  let rej := skipped_rejects (effective o p) (h :: hs) in
  let st' := ignored_state st (skipping_msg o) (length (hunks p)) (length (hunks p)) in
  exists w',
    process_section o st false p s w = (Ok (st', s), w') /\
    fs w' = upd (fs w) (f ++ bs ".rej") (Reg rej rmode) /\
    trace w' = trace w ++ [OOpenRead f; OWrite (f ++ bs ".rej") rej] /\
    fault w' = None /\ umask w' = umask w /\ stdout_data w' = stdout_data w.
Proof. exact Proofs_DriverMore.section_ignored_N_over. Qed.
Print Assumptions section_ignored_N_over.

(* in the words of the claim: f is byte-identical (and keeps its mode), nothing is at its backup name that was not there,
   every entry but f.rej is what it was, f.rej starts with the reject header, the operations are one read of f and one write
   of f.rej, the failure flag is set, "n out of n hunks ignored" is reported after the "Skipping patch." message *)
Theorem section_ignored_N_frame : forall o p f h hs st s w data mode,
  ignoring_options o -> should_write_as_unified o p = true ->
  poper p = OpChange -> prereq p = [] -> old_path p = f -> new_path p = f -> f <> devnull -> f <> [] -> ~ In 47%N f ->
  hunks (effective o p) = h :: hs -> looks_reversed o (effective o p) (split_lines data) h ->
  fault w = None -> deferred_writes st = [] ->
  lookup (fs w) f = Some (Reg data mode) -> (mode < 4096)%N -> owner_r mode = true ->
  (N.land mode write_mask <> 0%N \/ read_only o <> ROFail) ->
  lookup (fs w) (f ++ bs ".rej") = None ->
  exists st' w' rest,
    process_section o st false p s w = (Ok (st', s), w') /\
    lookup (fs w') f = Some (Reg data mode) /\
    (backup_name o f <> f ++ bs ".rej" -> lookup (fs w') (backup_name o f) = lookup (fs w) (backup_name o f)) /\
    (forall q, q <> f ++ bs ".rej" -> lookup (fs w') q = lookup (fs w) q) /\
    lookup (fs w') (f ++ bs ".rej") =
      Some (Reg (write_patch_header_as_unified (effective o p) ++ rest) (created_mode (umask w))) /\
    Forall (fun op => op = OOpenRead f \/ exists d, op = OWrite (f ++ bs ".rej") d) (skipn (length (trace w)) (trace w')) /\
    had_failure st' = true /\ backed_up st' = backed_up st /\ deferred_writes st' = [] /\
    deferred_removals st' = deferred_removals st /\
    events st' = events st ++ skipping_msg o
                 ++ inform_hunks_failed (bs "ignored") (length (hunks p)) (length (hunks p)) ++ [10%N] /\
    fault w' = None.
Proof. exact Proofs_DriverMore.section_ignored_N_frame. Qed.
Print Assumptions section_ignored_N_frame.

