(* Properties_C06.v — C06: an already applied patch is detected, not applied a second time.
   Statements only; proofs in Proofs_Reapply.v. *)
From PatchV Require Import Base Lines Hunk Locator Options Applier Spec_Locate Spec_Apply Proofs_Conf Proofs_Reapply.

(* -N: when the first hunk no longer applies perfectly and its reverse does (or the hunk does not apply at all and its
   reverse applies somehow), nothing is applied: the file comes out unchanged, every hunk is counted as rejected, the
   patch is reported as skipped (the driver then writes no target and no backup, exit status 1). *)
Theorem reapply_ignored : forall o f p r h hs,
  define_macro o = [] -> force o = false -> ignore_reversed o = true ->
  hunks (effective o p) = h :: hs ->
  looks_reversed o (effective o p) f h ->
  apply_patch o f p = Ok r ->
  r_out r = f /\ r_failed r = length (hunks p) /\ r_skipped r = true.
Proof. exact Proofs_Reapply.reapply_ignored. Qed.
Print Assumptions reapply_ignored.

(* -t: the patch that turned A into B, run again on B where its first hunk no longer fits at its stated place, is applied
   in reverse and gives back exactly A, nothing rejected; the rest of the run sees the reversed patch record (creation and
   deletion, names and modes exchanged, as under -R), so that a file the patch had created is removed again. *)
Theorem reapply_reversed : forall o p A B h hs,
  define_macro o = [] -> verbose o = false -> force o = false -> ignore_reversed o = false -> batch o = true ->
  (0 <= max_fuzz o)%Z ->
  hunks (effective o p) = h :: hs ->
  Conforming A B (hunks (effective o p)) -> (Z.of_nat (length B) < MAXZ)%Z ->
  creation_guard (reverse_patch (effective o p)) B ->
  loc_perfect (first_loc o (effective o p) B h) = false ->
  exists r, apply_patch o B p = Ok r /\ r_out r = A /\ r_failed r = 0 /\ r_rej r = [] /\ r_skipped r = false /\
            exists hs', r_patch r = set_hunks (reverse_patch (effective o p)) hs'.
Proof. exact Proofs_Reapply.reapply_reversed. Qed.
Print Assumptions reapply_reversed.

(* -f: no guess is made; the first hunk is treated like every other one *)
Theorem force_no_guess : forall o p f s hs, force o = true -> apply_first o p f s hs = with_patch p (apply_rest o p f 0 s hs).
Proof. exact Proofs_Reapply.force_no_guess. Qed.
Print Assumptions force_no_guess.

Local Open Scope string_scope.
Definition ex_l (s : String.string) := mkLine (bs s) LF.
Definition ex_h := mkHunk (mkRange 1 2) (mkRange 1 3)
  [mkPL Ctx (ex_l "a"); mkPL Del (ex_l "b"); mkPL Add (ex_l "B"); mkPL Add (ex_l "c")].
Definition ex_opts (n t : bool) :=
  mkOptions false false [] [] false [] false false n [] (-1) 2 false [] [] false t false false false false false false OBUnset OBUnset MNative RFDefault ROWarn QSUnset [] [].
Example reapply_nonvacuous :
  let A := [ex_l "a"; ex_l "b"] in let B := [ex_l "a"; ex_l "B"; ex_l "c"] in
  let p := mkPatch FUnified OpChange [] [] (bs "f") (bs "f") [] [] 0 0 [ex_h] in
  Conforming A B [ex_h] /\
  loc_perfect (first_loc (ex_opts true false) p B ex_h) = false /\
  loc_perfect (first_rloc (ex_opts true false) B ex_h) = true /\
  match apply_patch (ex_opts true false) B p with Ok r => r_out r = B /\ r_failed r = 1 /\ r_skipped r = true | Throw _ => False end /\
  match apply_patch (ex_opts false true) B p with Ok r => r_out r = A /\ r_failed r = 0 | Throw _ => False end.
Proof.
  cbv zeta. split.
  - unfold Conforming. apply (Conf_cons 0 0 [] ex_h [] [] []); try reflexivity; [discriminate|constructor].
  - vm_compute. repeat split; reflexivity.
Qed.
