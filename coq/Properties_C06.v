(* Properties_C06.v — C06: an already applied patch is detected, not applied a second time.
   Statements only; proofs in Proofs_Reapply.v. *)
From PatchV Require Import Base Lines Hunk Locator Options Applier Spec_Locate Spec_Apply Proofs_Conf Proofs_Reapply Formatter LineParser Parser World Driver Proofs_Touch Proofs_Reverse Proofs_DriverMore.

(* -N: when the first hunk no longer applies perfectly and its reverse does (or the hunk does not apply at all and its
   reverse applies somehow), nothing is applied: the file comes out unchanged, every hunk is counted as rejected, the
   patch is reported as skipped (the driver then writes no target and no backup, exit status 1). *)
Theorem reapply_ignored : forall o f p r h hs,
  define_macro o = [] -> force o = false -> ignore_reversed o = true ->
  hunks (effective o p) = h :: hs ->
  looks_reversed o (effective o p) f h ->
  apply_patch o f p = Ok r ->
  r_out r = f /\ r_failed r = length (hunks p) /\ r_skipped r = true.
Proof. exact Proofs_Reapply.reapply_ignored. Qed.
Print Assumptions reapply_ignored.

(* -t: the patch that turned A into B, run again on B where its first hunk no longer fits at its stated place, is applied
   in reverse and gives back exactly A, nothing rejected; the rest of the run sees the reversed patch record (creation and
   deletion, names and modes exchanged, as under -R), so that a file the patch had created is removed again. *)
Theorem reapply_reversed : forall o p A B h hs,
  define_macro o = [] -> verbose o = false -> force o = false -> ignore_reversed o = false -> batch o = true ->
  (0 <= max_fuzz o)%Z ->
  hunks (effective o p) = h :: hs ->
  Conforming A B (hunks (effective o p)) -> (Z.of_nat (length B) < MAXZ)%Z ->
  creation_guard (reverse_patch (effective o p)) B ->
  loc_perfect (first_loc o (effective o p) B h) = false ->
  exists r, apply_patch o B p = Ok r /\ r_out r = A /\ r_failed r = 0 /\ r_rej r = [] /\ r_skipped r = false /\
            exists hs', r_patch r = set_hunks (reverse_patch (effective o p)) hs'.
Proof. exact Proofs_Reapply.reapply_reversed. Qed.
Print Assumptions reapply_reversed.

(* -f: no guess is made; the first hunk is treated like every other one *)
Theorem force_no_guess : forall o p f s hs, force o = true -> apply_first o p f s hs = with_patch p (apply_rest o p f 0 s hs).
Proof. exact Proofs_Reapply.force_no_guess. Qed.
Print Assumptions force_no_guess.

Local Open Scope string_scope.
Definition ex_l (s : String.string) := mkLine (bs s) LF.
Definition ex_h := mkHunk (mkRange 1 2) (mkRange 1 3)
  [mkPL Ctx (ex_l "a"); mkPL Del (ex_l "b"); mkPL Add (ex_l "B"); mkPL Add (ex_l "c")].
Definition ex_opts (n t : bool) :=
  mkOptions false false [] [] false [] false false n [] (-1) 2 false [] [] false t false false false false false false OBUnset OBUnset MNative RFDefault ROWarn QSUnset [] [].
Example reapply_nonvacuous :
  let A := [ex_l "a"; ex_l "b"] in let B := [ex_l "a"; ex_l "B"; ex_l "c"] in
  let p := mkPatch FUnified OpChange [] [] (bs "f") (bs "f") [] [] 0 0 [ex_h] in
  Conforming A B [ex_h] /\
  loc_perfect (first_loc (ex_opts true false) p B ex_h) = false /\
  loc_perfect (first_rloc (ex_opts true false) B ex_h) = true /\
  match apply_patch (ex_opts true false) B p with Ok r => r_out r = B /\ r_failed r = 1 /\ r_skipped r = true | Throw _ => False end /\
  match apply_patch (ex_opts false true) B p with Ok r => r_out r = A /\ r_failed r = 0 | Throw _ => False end.
Proof.
  cbv zeta. split.
  - unfold Conforming. apply (Conf_cons 0 0 [] ex_h [] [] []); try reflexivity; [discriminate|constructor].
  - vm_compute. repeat split; reflexivity.
Qed.

(* ---------------------------------------------------------------------------------------------------------------
   C06 at driver level (process_section, finalize_writes); proofs in Proofs_DriverMore.v, non-vacuity Examples and
   whole-program vm_compute runs in Properties_DriverMore.v. *)
(* apply level, total: under -N (no -f, no -D, not --verbose, rejects written in unified format) a patch whose first hunk looks
   reversed cannot make apply_patch fail; the lines come out unchanged, every hunk is counted as failed, the run is marked
   skipped, the message and the reject bytes are exactly these *)
Theorem apply_ignored_total : forall o f p h hs,
  define_macro o = [] -> verbose o = false -> force o = false -> ignore_reversed o = true ->
  should_write_as_unified o p = true ->
  hunks (effective o p) = h :: hs ->
  looks_reversed o (effective o p) f h ->
  exists r, apply_patch o f p = Ok r /\ r_out r = f /\ r_failed r = length (hunks p) /\ r_skipped r = true /\
            r_msgs r = skipping_msg o /\
            r_rej r = skipped_rejects (effective o p) (h :: hs) /\
            length (hunks (r_patch r)) = length (hunks p).
Proof. exact Proofs_DriverMore.apply_ignored_total. Qed.
Print Assumptions apply_ignored_total.

(* One change section for a regular file f of the working directory which already holds the patched content, run with -N
   (ignoring_options: file chosen from the patch, no -o, no -r, no --dry-run, no -D, not --verbose, no -f, -N; -b and
   --backup-if-mismatch are free), no reject file there: the section performs exactly two operations, the opening of f for
   reading and the creation of f.rej; the tree afterwards is the tree before with f.rej added (permissions 0666 & ~umask);
   the state has the failure flag set (exit status 1) and the two messages. *)
Theorem section_ignored_N : forall o p f h hs st s w data mode,
  ignoring_options o -> should_write_as_unified o p = true ->
  poper p = OpChange -> prereq p = [] -> old_path p = f -> new_path p = f -> f <> devnull -> f <> [] -> ~ In 47%N f ->
  hunks (effective o p) = h :: hs -> looks_reversed o (effective o p) (split_lines data) h ->
  fault w = None -> deferred_writes st = [] ->
  lookup (fs w) f = Some (Reg data mode) -> (mode < 4096)%N -> owner_r mode = true ->
  (N.land mode write_mask <> 0%N \/ read_only o <> ROFail) ->
  lookup (fs w) (f ++ bs ".rej") = None ->
  let rej := skipped_rejects (effective o p) (h :: hs) in
  let st' := ignored_state st (skipping_msg o) (length (hunks p)) (length (hunks p)) in
  exists w',
    process_section o st false p s w = (Ok (st', s), w') /\
    fs w' = upd (fs w) (f ++ bs ".rej") (Reg rej (created_mode (umask w))) /\
    trace w' = trace w ++ [OOpenRead f; OWrite (f ++ bs ".rej") rej] /\
    fault w' = None /\ umask w' = umask w /\ stdout_data w' = stdout_data w.
Proof. exact Proofs_DriverMore.section_ignored_N. Qed.
Print Assumptions section_ignored_N.

(* the same when a writable regular reject file is there already: it is overwritten and keeps its mode *)
Theorem section_ignored_N_over : forall o p f h hs st s w data mode rdata rmode,
  ignoring_options o -> should_write_as_unified o p = true ->
  poper p = OpChange -> prereq p = [] -> old_path p = f -> new_path p = f -> f <> devnull -> f <> [] -> ~ In 47%N f ->
  hunks (effective o p) = h :: hs -> looks_reversed o (effective o p) (split_lines data) h ->
  fault w = None -> deferred_writes st = [] ->
  lookup (fs w) f = Some (Reg data mode) -> (mode < 4096)%N -> owner_r mode = true ->
  (N.land mode write_mask <> 0%N \/ read_only o <> ROFail) ->
  lookup (fs w) (f ++ bs ".rej") = Some (Reg rdata rmode) -> owner_w rmode = true ->
  let rej := skipped_rejects (effective o p) (h :: hs) in
  let st' := ignored_state st (skipping_msg o) (length (hunks p)) (length (hunks p)) in
  exists w',
    process_section o st false p s w = (Ok (st', s), w') /\
    fs w' = upd (fs w) (f ++ bs ".rej") (Reg rej rmode) /\
    trace w' = trace w ++ [OOpenRead f; OWrite (f ++ bs ".rej") rej] /\
    fault w' = None /\ umask w' = umask w /\ stdout_data w' = stdout_data w.
Proof. exact Proofs_DriverMore.section_ignored_N_over. Qed.
Print Assumptions section_ignored_N_over.

(* in the words of the claim: f is byte-identical (and keeps its mode), nothing is at its backup name that was not there,
   every entry but f.rej is what it was, f.rej starts with the reject header, the operations are one read of f and one write
   of f.rej, the failure flag is set, "n out of n hunks ignored" is reported after the "Skipping patch." message *)
Theorem section_ignored_N_frame : forall o p f h hs st s w data mode,
  ignoring_options o -> should_write_as_unified o p = true ->
  poper p = OpChange -> prereq p = [] -> old_path p = f -> new_path p = f -> f <> devnull -> f <> [] -> ~ In 47%N f ->
  hunks (effective o p) = h :: hs -> looks_reversed o (effective o p) (split_lines data) h ->
  fault w = None -> deferred_writes st = [] ->
  lookup (fs w) f = Some (Reg data mode) -> (mode < 4096)%N -> owner_r mode = true ->
  (N.land mode write_mask <> 0%N \/ read_only o <> ROFail) ->
  lookup (fs w) (f ++ bs ".rej") = None ->
  exists st' w' rest,
    process_section o st false p s w = (Ok (st', s), w') /\
    lookup (fs w') f = Some (Reg data mode) /\
    (backup_name o f <> f ++ bs ".rej" -> lookup (fs w') (backup_name o f) = lookup (fs w) (backup_name o f)) /\
    (forall q, q <> f ++ bs ".rej" -> lookup (fs w') q = lookup (fs w) q) /\
    lookup (fs w') (f ++ bs ".rej") =
      Some (Reg (write_patch_header_as_unified (effective o p) ++ rest) (created_mode (umask w))) /\
    Forall (fun op => op = OOpenRead f \/ exists d, op = OWrite (f ++ bs ".rej") d) (skipn (length (trace w)) (trace w')) /\
    had_failure st' = true /\ backed_up st' = backed_up st /\ deferred_writes st' = [] /\
    deferred_removals st' = deferred_removals st /\
    events st' = events st ++ skipping_msg o
                 ++ inform_hunks_failed (bs "ignored") (length (hunks p)) (length (hunks p)) ++ [10%N] /\
    fault w' = None.
Proof. exact Proofs_DriverMore.section_ignored_N_frame. Qed.
Print Assumptions section_ignored_N_frame.


(* ===== merged from Properties_DriverBatch.v ===== *)
From PatchV Require Import Base Lines Hunk Locator Formatter Options Applier LineParser Parser World Driver
     Spec_Locate Spec_Apply Spec_Names Proofs_Names Proofs_Apply Proofs_Conf Proofs_Reverse Proofs_Reapply Proofs_DriverMore
     Proofs_Unified Proofs_Filler Proofs_Sections Proofs_Whole Proofs_DriverBatch.

(* ================= (0) apply level ================= *)
(* reapply_reversed with the two fields the driver needs as well: the reversed run counts as perfect (so that
   --backup-if-mismatch asks for no backup), and its only message is the announcement *)
Theorem apply_reversed_total : forall o p A B h hs,
  define_macro o = [] -> verbose o = false -> force o = false -> ignore_reversed o = false -> batch o = true ->
  (0 <= max_fuzz o)%Z ->
  hunks (effective o p) = h :: hs ->
  Conforming A B (hunks (effective o p)) -> (Z.of_nat (length B) < MAXZ)%Z ->
  creation_guard (reverse_patch (effective o p)) B ->
  loc_perfect (first_loc o (effective o p) B h) = false ->
  exists r, apply_patch o B p = Ok r /\ r_out r = A /\ r_failed r = 0 /\ r_rej r = [] /\ r_skipped r = false /\
            r_perfect r = true /\ r_msgs r = assuming_msg o /\
            exists hs', r_patch r = set_hunks (reverse_patch (effective o p)) hs'.
Proof. exact Proofs_DriverBatch.apply_reversed_total. Qed.
Print Assumptions apply_reversed_total.

(* ================= (1) the section under -t ================= *)
(* One section (record p: not git, Change -- or Add / Delete as the header scan says for diff -U0 hunks at the top --, both
   names the file f of the working directory, no Prereq, no mode line) whose hunks are a conforming diff of A to B, run with
   -t (batch_options: file chosen from the patch, no -o, no --dry-run, no -D, not --verbose, -F >= 0, no -R, no -f, no -N)
   and without -b, on a regular readable and writable f that holds B (as lines), when the first hunk no longer fits B exactly
   at its place: the section ends normally and performs exactly three operations: open f, write the original bytes to f,
   chmod f to the mode it had.  The state afterwards is the state before with the announcement appended to the report:
   failure flag untouched (exit status contribution 0), no backup recorded, nothing deferred.  No reject file, no backup
   file: this does not depend on --backup-if-mismatch (on by default), because the reversed hunks fit exactly. *)
Theorem section_reapplied_t : forall o p f A B h hs st s w data mode,
  batch_options o -> save_backup o = false ->
  pfmt p <> FGit -> (poper p = OpChange \/ poper p = OpAdd \/ poper p = OpDelete) -> prereq p = [] ->
  old_path p = f -> new_path p = f -> old_mode p = 0%N ->
  f <> Driver.devnull -> f <> [] -> ~ In 47%N f ->
  hunks p = h :: hs -> Conforming A B (h :: hs) -> (Z.of_nat (length B) < MAXZ)%Z ->
  first_misfits o B h ->
  (remove_empty_files o <> OBYes \/ lines_bytes (newline_output o) A <> []) ->
  fault w = None -> deferred_writes st = [] ->
  lookup (fs w) f = Some (Reg data mode) -> (mode < 4096)%N -> owner_r mode = true -> owner_w mode = true ->
  split_lines data = B ->
  let bytes := lines_bytes (newline_output o) A in
  process_section o st false p s w =
  (Ok (add_event st (assuming_msg o), s),
   mkWorld (upd (upd (fs w) f (Reg bytes mode)) f (Reg bytes mode)) (umask w)
           (trace w ++ [OOpenRead f; OWrite f bytes; OChmod f mode]) None (stdout_data w)).
Proof. exact Proofs_DriverBatch.section_reapplied_t. Qed.
Print Assumptions section_reapplied_t.

(* the same in the words of the claim *)
Theorem section_reapplied_t_frame : forall o p f A B h hs st s w data mode,
  batch_options o -> save_backup o = false ->
  pfmt p <> FGit -> (poper p = OpChange \/ poper p = OpAdd \/ poper p = OpDelete) -> prereq p = [] ->
  old_path p = f -> new_path p = f -> old_mode p = 0%N ->
  f <> Driver.devnull -> f <> [] -> ~ In 47%N f ->
  hunks p = h :: hs -> Conforming A B (h :: hs) -> (Z.of_nat (length B) < MAXZ)%Z ->
  first_misfits o B h ->
  (remove_empty_files o <> OBYes \/ lines_bytes (newline_output o) A <> []) ->
  fault w = None -> deferred_writes st = [] ->
  lookup (fs w) f = Some (Reg data mode) -> (mode < 4096)%N -> owner_r mode = true -> owner_w mode = true ->
  split_lines data = B ->
  exists st' w',
    process_section o st false p s w = (Ok (st', s), w') /\
    lookup (fs w') f = Some (Reg (lines_bytes (newline_output o) A) mode) /\
    (forall q, q <> f -> lookup (fs w') q = lookup (fs w) q) /\
    lookup (fs w') (f ++ bs ".rej") = lookup (fs w) (f ++ bs ".rej") /\
    lookup (fs w') (backup_name o f) = lookup (fs w) (backup_name o f) /\
    trace w' = trace w ++ [OOpenRead f; OWrite f (lines_bytes (newline_output o) A); OChmod f mode] /\
    had_failure st' = had_failure st /\ backed_up st' = backed_up st /\ deferred_writes st' = [] /\
    deferred_removals st' = deferred_removals st /\
    events st' = events st ++ assuming_msg o /\
    fault w' = None /\ umask w' = umask w /\ stdout_data w' = stdout_data w.
Proof. exact Proofs_DriverBatch.section_reapplied_t_frame. Qed.
Print Assumptions section_reapplied_t_frame.

(* byte for byte: f holds dataB; the patch is a diff of dataA to dataB; terminators survive the writing
   (--newline-output=preserve, or any mode but crlf when dataA has no CR LF line end): f holds dataA afterwards *)
Theorem section_reapplied_t_bytes : forall o p f dataA dataB h hs st s w mode,
  batch_options o -> save_backup o = false ->
  pfmt p <> FGit -> (poper p = OpChange \/ poper p = OpAdd \/ poper p = OpDelete) -> prereq p = [] ->
  old_path p = f -> new_path p = f -> old_mode p = 0%N ->
  f <> Driver.devnull -> f <> [] -> ~ In 47%N f ->
  hunks p = h :: hs -> Conforming (split_lines dataA) (split_lines dataB) (h :: hs) ->
  (Z.of_nat (length (split_lines dataB)) < MAXZ)%Z ->
  first_misfits o (split_lines dataB) h ->
  (newline_output o = MKeep \/ newline_output o <> MCRLF /\ no_crlf (split_lines dataA)) ->
  (remove_empty_files o <> OBYes \/ dataA <> []) ->
  fault w = None -> deferred_writes st = [] ->
  lookup (fs w) f = Some (Reg dataB mode) -> (mode < 4096)%N -> owner_r mode = true -> owner_w mode = true ->
  process_section o st false p s w =
  (Ok (add_event st (assuming_msg o), s),
   mkWorld (upd (upd (fs w) f (Reg dataA mode)) f (Reg dataA mode)) (umask w)
           (trace w ++ [OOpenRead f; OWrite f dataA; OChmod f mode]) None (stdout_data w)).
Proof. exact Proofs_DriverBatch.section_reapplied_t_bytes. Qed.
Print Assumptions section_reapplied_t_bytes.

(* with -b: the one case in which a backup is taken (none taken for f yet in this run, nothing at the backup name): f, as
   it is, goes to the backup name, and comes into being again with the original bytes and the mode it had *)
Theorem section_reapplied_t_backup : forall o p f A B h hs st s w data mode,
  batch_options o -> save_backup o = true ->
  pfmt p <> FGit -> (poper p = OpChange \/ poper p = OpAdd \/ poper p = OpDelete) -> prereq p = [] ->
  old_path p = f -> new_path p = f -> old_mode p = 0%N ->
  f <> Driver.devnull -> f <> [] -> ~ In 47%N f -> ~ In 47%N (backup_name o f) ->
  hunks p = h :: hs -> Conforming A B (h :: hs) -> (Z.of_nat (length B) < MAXZ)%Z ->
  first_misfits o B h ->
  (remove_empty_files o <> OBYes \/ lines_bytes (newline_output o) A <> []) ->
  fault w = None -> deferred_writes st = [] ->
  existsb (str_eqb (backup_name o f)) (backed_up st) = false ->
  lookup (fs w) f = Some (Reg data mode) -> (mode < 4096)%N -> owner_r mode = true -> owner_w mode = true ->
  lookup (fs w) (backup_name o f) = None ->
  split_lines data = B ->
  exists w',
    process_section o st false p s w = (Ok (with_backed_up (add_event st (assuming_msg o)) (backup_name o f), s), w') /\
    lookup (fs w') (backup_name o f) = Some (Reg data mode) /\
    lookup (fs w') f = Some (Reg (lines_bytes (newline_output o) A) mode) /\
    (forall q, q <> f -> q <> backup_name o f -> lookup (fs w') q = lookup (fs w) q) /\
    fault w' = None /\ umask w' = umask w.
Proof. exact Proofs_DriverBatch.section_reapplied_t_backup. Qed.
Print Assumptions section_reapplied_t_backup.

(* ================= (2) the run ================= *)
(* the patch that made B out of A looks reversed on B as soon as its first hunk no longer fits B exactly at its place *)
Theorem conforming_looks_reversed : forall o A B h hs,
  Conforming A B (h :: hs) -> (Z.of_nat (length B) < MAXZ)%Z -> (0 <= max_fuzz o)%Z ->
  first_misfits o B h -> looks_reversed_lines o B h.
Proof. exact Proofs_DriverBatch.conforming_looks_reversed. Qed.
Print Assumptions conforming_looks_reversed.

(* process_patch on the text of a unified patch (lines that mean nothing to the header scan, "--- old", "+++ new" with or
   without stamps, the hunks as the formatter writes them, then nothing or text that holds no further patch) whose hunks are
   a conforming diff of A to B and whose names, with the components -p removes, are the file fname of the working directory
   which holds B: under -t (without -b) exit status 0, the report is the announcement, the world is the world before with A
   in fname and three more operations *)
Theorem process_patch_reapplied_t : forall o f0 fl oldname t1 newname t2 h1 hs tail fname A B w data mode,
  batch_options o -> save_backup o = false ->
  format_from_options o = Ok f0 -> f0 = FUnknown \/ f0 = FUnified ->
  Forall (Filler (strip_size o) (empty_patch f0)) fl -> Forall clean fl ->
  plain_name oldname -> plain_name newname -> clean (oldname ++ tab_time t1) -> clean (newname ++ tab_time t2) ->
  stripped oldname (strip_size o) = fname -> stripped newname (strip_size o) = fname ->
  fname <> [] /\ ~ In 47%N fname ->
  Forall wf_hunk (h1 :: hs) -> Conforming A B (h1 :: hs) -> (Z.of_nat (length B) < MAXZ)%Z ->
  first_misfits o B h1 ->
  remove_empty_files o <> OBYes \/ lines_bytes (newline_output o) A <> [] ->
  tail_ok tail -> ends_here o f0 (after tail) = true ->
  fault w = None -> lookup (fs w) fname = Some (Reg data mode) -> (mode < 4096)%N -> owner_r mode = true -> owner_w mode = true ->
  split_lines data = B ->
  let bytes := lines_bytes (newline_output o) A in
  process_patch o (unified_text fl oldname t1 newname t2 (h1 :: hs) tail) w =
  (Ok (0, assuming_msg o),
   mkWorld (upd (upd (fs w) fname (Reg bytes mode)) fname (Reg bytes mode)) (umask w)
           (trace w ++ [OOpenRead fname; OWrite fname bytes; OChmod fname mode]) None (stdout_data w)).
Proof. exact Proofs_DriverBatch.process_patch_reapplied_t. Qed.
Print Assumptions process_patch_reapplied_t.

(* under -N (ignoring_options of Proofs_DriverMore, no -R, rejects not forced to context format), the decision stated on the
   lines of the file: exit status 1, the report is the announcement and "n out of n hunks ignored", fname is not written,
   fname.rej is created with the two header lines and all hunks as they stand in the patch *)
Theorem process_patch_ignored_N : forall o f0 fl oldname t1 newname t2 h1 hs tail fname w data mode,
  ignoring_options o -> reverse_patch_opt o = false -> reject_format_opt o <> RFContext ->
  format_from_options o = Ok f0 -> f0 = FUnknown \/ f0 = FUnified ->
  Forall (Filler (strip_size o) (empty_patch f0)) fl -> Forall clean fl ->
  plain_name oldname -> plain_name newname -> clean (oldname ++ tab_time t1) -> clean (newname ++ tab_time t2) ->
  stripped oldname (strip_size o) = fname -> stripped newname (strip_size o) = fname ->
  fname <> [] /\ ~ In 47%N fname ->
  Forall wf_hunk (h1 :: hs) ->
  looks_reversed_lines o (split_lines data) h1 ->
  tail_ok tail -> ends_here o f0 (after tail) = true ->
  fault w = None -> lookup (fs w) fname = Some (Reg data mode) -> (mode < 4096)%N -> owner_r mode = true ->
  (N.land mode write_mask <> 0%N \/ read_only o <> ROFail) ->
  lookup (fs w) (fname ++ bs ".rej") = None ->
  let rej := unified_rejects fname t1 t2 (h1 :: hs) in
  let n := S (length hs) in
  process_patch o (unified_text fl oldname t1 newname t2 (h1 :: hs) tail) w =
  (Ok (1, skipping_msg o ++ inform_hunks_failed (bs "ignored") n n ++ [10%N]),
   mkWorld (upd (fs w) (fname ++ bs ".rej") (Reg rej (created_mode (umask w)))) (umask w)
           (trace w ++ [OOpenRead fname; OWrite (fname ++ bs ".rej") rej]) None (stdout_data w)).
Proof. exact Proofs_DriverBatch.process_patch_ignored_N. Qed.
Print Assumptions process_patch_ignored_N.

(* ... for the patch that made B out of A: the same hypotheses as under -t *)
Theorem process_patch_reapplied_N : forall o f0 fl oldname t1 newname t2 h1 hs tail fname A B w data mode,
  ignoring_options o -> reverse_patch_opt o = false -> reject_format_opt o <> RFContext -> (0 <= max_fuzz o)%Z ->
  format_from_options o = Ok f0 -> f0 = FUnknown \/ f0 = FUnified ->
  Forall (Filler (strip_size o) (empty_patch f0)) fl -> Forall clean fl ->
  plain_name oldname -> plain_name newname -> clean (oldname ++ tab_time t1) -> clean (newname ++ tab_time t2) ->
  stripped oldname (strip_size o) = fname -> stripped newname (strip_size o) = fname ->
  fname <> [] /\ ~ In 47%N fname ->
  Forall wf_hunk (h1 :: hs) -> Conforming A B (h1 :: hs) -> (Z.of_nat (length B) < MAXZ)%Z ->
  first_misfits o B h1 ->
  tail_ok tail -> ends_here o f0 (after tail) = true ->
  fault w = None -> lookup (fs w) fname = Some (Reg data mode) -> (mode < 4096)%N -> owner_r mode = true ->
  (N.land mode write_mask <> 0%N \/ read_only o <> ROFail) ->
  lookup (fs w) (fname ++ bs ".rej") = None ->
  split_lines data = B ->
  let rej := unified_rejects fname t1 t2 (h1 :: hs) in
  let n := S (length hs) in
  process_patch o (unified_text fl oldname t1 newname t2 (h1 :: hs) tail) w =
  (Ok (1, skipping_msg o ++ inform_hunks_failed (bs "ignored") n n ++ [10%N]),
   mkWorld (upd (fs w) (fname ++ bs ".rej") (Reg rej (created_mode (umask w)))) (umask w)
           (trace w ++ [OOpenRead fname; OWrite (fname ++ bs ".rej") rej]) None (stdout_data w)).
Proof. exact Proofs_DriverBatch.process_patch_reapplied_N. Qed.
Print Assumptions process_patch_reapplied_N.

(* the whole program, patch on standard input (no -i, or -i -) *)
Theorem run_patch_reapplied_t : forall o f0 fl oldname t1 newname t2 h1 hs tail fname A B w data mode,
  (patch_file_path o = [] \/ patch_file_path o = bs "-") ->
  batch_options o -> save_backup o = false ->
  format_from_options o = Ok f0 -> f0 = FUnknown \/ f0 = FUnified ->
  Forall (Filler (strip_size o) (empty_patch f0)) fl -> Forall clean fl ->
  plain_name oldname -> plain_name newname -> clean (oldname ++ tab_time t1) -> clean (newname ++ tab_time t2) ->
  stripped oldname (strip_size o) = fname -> stripped newname (strip_size o) = fname ->
  fname <> [] /\ ~ In 47%N fname ->
  Forall wf_hunk (h1 :: hs) -> Conforming A B (h1 :: hs) -> (Z.of_nat (length B) < MAXZ)%Z ->
  first_misfits o B h1 ->
  remove_empty_files o <> OBYes \/ lines_bytes (newline_output o) A <> [] ->
  tail_ok tail -> ends_here o f0 (after tail) = true ->
  fault w = None -> lookup (fs w) fname = Some (Reg data mode) -> (mode < 4096)%N -> owner_r mode = true -> owner_w mode = true ->
  split_lines data = B ->
  let bytes := lines_bytes (newline_output o) A in
  run_patch o (unified_text fl oldname t1 newname t2 (h1 :: hs) tail) w =
  mkRR 0 (assuming_msg o)
       (mkWorld (upd (upd (fs w) fname (Reg bytes mode)) fname (Reg bytes mode)) (umask w)
                (trace w ++ [OOpenRead fname; OWrite fname bytes; OChmod fname mode]) None (stdout_data w)).
Proof. exact Proofs_DriverBatch.run_patch_reapplied_t. Qed.
Print Assumptions run_patch_reapplied_t.

(* ... and patch in a readable file of the working directory named with -i *)
Theorem run_patch_file_reapplied_t : forall o f0 fl oldname t1 newname t2 h1 hs tail fname A B w data mode pf pm stdin,
  patch_file_path o = pf -> pf <> [] -> pf <> bs "-" -> ~ In 47%N pf ->
  lookup (fs w) pf = Some (Reg (unified_text fl oldname t1 newname t2 (h1 :: hs) tail) pm) -> owner_r pm = true ->
  batch_options o -> save_backup o = false ->
  format_from_options o = Ok f0 -> f0 = FUnknown \/ f0 = FUnified ->
  Forall (Filler (strip_size o) (empty_patch f0)) fl -> Forall clean fl ->
  plain_name oldname -> plain_name newname -> clean (oldname ++ tab_time t1) -> clean (newname ++ tab_time t2) ->
  stripped oldname (strip_size o) = fname -> stripped newname (strip_size o) = fname ->
  fname <> [] /\ ~ In 47%N fname ->
  Forall wf_hunk (h1 :: hs) -> Conforming A B (h1 :: hs) -> (Z.of_nat (length B) < MAXZ)%Z ->
  first_misfits o B h1 ->
  remove_empty_files o <> OBYes \/ lines_bytes (newline_output o) A <> [] ->
  tail_ok tail -> ends_here o f0 (after tail) = true ->
  fault w = None -> lookup (fs w) fname = Some (Reg data mode) -> (mode < 4096)%N -> owner_r mode = true -> owner_w mode = true ->
  split_lines data = B ->
  let bytes := lines_bytes (newline_output o) A in
  run_patch o stdin w =
  mkRR 0 (assuming_msg o)
       (mkWorld (upd (upd (fs w) fname (Reg bytes mode)) fname (Reg bytes mode)) (umask w)
                (trace w ++ [OOpenRead pf; OOpenRead fname; OWrite fname bytes; OChmod fname mode]) None (stdout_data w)).
Proof. exact Proofs_DriverBatch.run_patch_file_reapplied_t. Qed.
Print Assumptions run_patch_file_reapplied_t.

Theorem run_patch_reapplied_N : forall o f0 fl oldname t1 newname t2 h1 hs tail fname A B w data mode,
  (patch_file_path o = [] \/ patch_file_path o = bs "-") ->
  ignoring_options o -> reverse_patch_opt o = false -> reject_format_opt o <> RFContext -> (0 <= max_fuzz o)%Z ->
  format_from_options o = Ok f0 -> f0 = FUnknown \/ f0 = FUnified ->
  Forall (Filler (strip_size o) (empty_patch f0)) fl -> Forall clean fl ->
  plain_name oldname -> plain_name newname -> clean (oldname ++ tab_time t1) -> clean (newname ++ tab_time t2) ->
  stripped oldname (strip_size o) = fname -> stripped newname (strip_size o) = fname ->
  fname <> [] /\ ~ In 47%N fname ->
  Forall wf_hunk (h1 :: hs) -> Conforming A B (h1 :: hs) -> (Z.of_nat (length B) < MAXZ)%Z ->
  first_misfits o B h1 ->
  tail_ok tail -> ends_here o f0 (after tail) = true ->
  fault w = None -> lookup (fs w) fname = Some (Reg data mode) -> (mode < 4096)%N -> owner_r mode = true ->
  (N.land mode write_mask <> 0%N \/ read_only o <> ROFail) ->
  lookup (fs w) (fname ++ bs ".rej") = None ->
  split_lines data = B ->
  let rej := unified_rejects fname t1 t2 (h1 :: hs) in
  let n := S (length hs) in
  run_patch o (unified_text fl oldname t1 newname t2 (h1 :: hs) tail) w =
  mkRR 1 (skipping_msg o ++ inform_hunks_failed (bs "ignored") n n ++ [10%N])
       (mkWorld (upd (fs w) (fname ++ bs ".rej") (Reg rej (created_mode (umask w)))) (umask w)
                (trace w ++ [OOpenRead fname; OWrite (fname ++ bs ".rej") rej]) None (stdout_data w)).
Proof. exact Proofs_DriverBatch.run_patch_reapplied_N. Qed.
Print Assumptions run_patch_reapplied_N.

Theorem run_patch_file_reapplied_N : forall o f0 fl oldname t1 newname t2 h1 hs tail fname A B w data mode pf pm stdin,
  patch_file_path o = pf -> pf <> [] -> pf <> bs "-" -> ~ In 47%N pf ->
  lookup (fs w) pf = Some (Reg (unified_text fl oldname t1 newname t2 (h1 :: hs) tail) pm) -> owner_r pm = true ->
  ignoring_options o -> reverse_patch_opt o = false -> reject_format_opt o <> RFContext -> (0 <= max_fuzz o)%Z ->
  format_from_options o = Ok f0 -> f0 = FUnknown \/ f0 = FUnified ->
  Forall (Filler (strip_size o) (empty_patch f0)) fl -> Forall clean fl ->
  plain_name oldname -> plain_name newname -> clean (oldname ++ tab_time t1) -> clean (newname ++ tab_time t2) ->
  stripped oldname (strip_size o) = fname -> stripped newname (strip_size o) = fname ->
  fname <> [] /\ ~ In 47%N fname ->
  Forall wf_hunk (h1 :: hs) -> Conforming A B (h1 :: hs) -> (Z.of_nat (length B) < MAXZ)%Z ->
  first_misfits o B h1 ->
  tail_ok tail -> ends_here o f0 (after tail) = true ->
  fault w = None -> lookup (fs w) fname = Some (Reg data mode) -> (mode < 4096)%N -> owner_r mode = true ->
  (N.land mode write_mask <> 0%N \/ read_only o <> ROFail) ->
  lookup (fs w) (fname ++ bs ".rej") = None ->
  split_lines data = B ->
  let rej := unified_rejects fname t1 t2 (h1 :: hs) in
  let n := S (length hs) in
  run_patch o stdin w =
  mkRR 1 (skipping_msg o ++ inform_hunks_failed (bs "ignored") n n ++ [10%N])
       (mkWorld (upd (fs w) (fname ++ bs ".rej") (Reg rej (created_mode (umask w)))) (umask w)
                (trace w ++ [OOpenRead pf; OOpenRead fname; OWrite (fname ++ bs ".rej") rej]) None (stdout_data w)).
Proof. exact Proofs_DriverBatch.run_patch_file_reapplied_N. Qed.
Print Assumptions run_patch_file_reapplied_N.

(* ================= (3) -f ================= *)
(* apply_patch with -f is the plain loop: every hunk placed by the locator alone (Proofs_Apply.apply_patch_verdicts says
   what that means hunk by hunk), applied or rejected *)
Theorem apply_patch_force : forall o lines p, force o = true -> apply_patch o lines p = apply_patch_plain o lines p.
Proof. exact Proofs_DriverBatch.apply_patch_force. Qed.
Print Assumptions apply_patch_force.

(* process_section_with is Driver.process_section with the applier as a parameter *)
Theorem process_section_with_apply : forall o st should p s,
  process_section o st should p s = process_section_with (apply_patch o) o st should p s.
Proof. exact Proofs_DriverBatch.process_section_with_apply. Qed.
Print Assumptions process_section_with_apply.

(* with -f the section, in any world and any state, whatever -N and -t say, is the section run with the plain loop *)
Theorem section_force_no_guess : forall o st should p s w,
  force o = true ->
  process_section o st should p s w = process_section_with (apply_patch_plain o) o st should p s w.
Proof. exact Proofs_DriverBatch.section_force_no_guess. Qed.
Print Assumptions section_force_no_guess.

(* everything apply_patch says under -f is hunk reports: no announcement of a reversed patch *)
Theorem force_messages : forall o lines p r, force o = true -> apply_patch o lines p = Ok r -> stats_only (r_msgs r).
Proof. exact Proofs_DriverBatch.force_messages. Qed.
Print Assumptions force_messages.

Theorem stats_only_head : forall m, stats_only m -> m = [] \/ starts_with m (bs "Hunk #") = true.
Proof. exact Proofs_DriverBatch.stats_only_head. Qed.
Print Assumptions stats_only_head.

(* ---------- non-vacuity: A = a,b,c ; B = a,B,c ; all hypotheses discharged, and the runs cross-checked by computation ---------- *)
Local Open Scope string_scope.
Definition db_nl : list N := [10%N].
Definition db_l (s : String.string) := mkLine (bs s) LF.
(* b = -b, n = -N, t = -t, f = -f, bim = --backup-if-mismatch; the patch is read from p.diff (-i p.diff) *)
Definition db_o (b n t f : bool) (bim : optional_bool) :=
  mkOptions b false [] [] false (bs "p.diff") false false n [] (-1) 2 false [] [] f t false false false false false false
            bim OBUnset MNative RFDefault ROWarn QSUnset [] [].
Definition db_A := [db_l "a"; db_l "b"; db_l "c"].
Definition db_B := [db_l "a"; db_l "B"; db_l "c"].
Definition db_dataA := bs "a" ++ db_nl ++ bs "b" ++ db_nl ++ bs "c" ++ db_nl.
Definition db_dataB := bs "a" ++ db_nl ++ bs "B" ++ db_nl ++ bs "c" ++ db_nl.
Definition db_h := mkHunk (mkRange 1 3) (mkRange 1 3)
  [mkPL Ctx (db_l "a"); mkPL Del (db_l "b"); mkPL Add (db_l "B"); mkPL Ctx (db_l "c")].
Definition db_p := mkPatch FUnified OpChange [] [] (bs "f") (bs "f") [] [] 0 0 [db_h].
(* the output of diff -u a/f b/f (time stamps left out) *)
Definition db_text := bs "diff -u a/f b/f" ++ db_nl ++ bs "--- a/f" ++ db_nl ++ bs "+++ b/f" ++ db_nl ++ bs "@@ -1,3 +1,3 @@" ++ db_nl
  ++ bs " a" ++ db_nl ++ bs "-b" ++ db_nl ++ bs "+B" ++ db_nl ++ bs " c" ++ db_nl.
Definition db_rej := bs "--- f" ++ db_nl ++ bs "+++ f" ++ db_nl ++ bs "@@ -1,3 +1,3 @@" ++ db_nl
  ++ bs " a" ++ db_nl ++ bs "-b" ++ db_nl ++ bs "+B" ++ db_nl ++ bs " c" ++ db_nl.
Definition db_other : list N * node := (bs "other", Reg (bs "x") 256).
Definition db_pfile : list N * node := (bs "p.diff", Reg db_text 420).
Definition db_w (data : list N) := mkWorld [db_pfile; db_other; (bs "f", Reg data 384)] 18 [] None [].
Definition db_st := mkDS false [] [] [] [].
Definition db_s := stream_of [].
Definition db_assuming := bs "Reversed (or previously applied) patch detected!  Assuming -R." ++ db_nl.
Definition db_skipping := bs "Reversed (or previously applied) patch detected!  Skipping patch." ++ db_nl.

Lemma db_conf : Conforming db_A db_B [db_h].
Proof. unfold Conforming. apply (Conf_cons 0 0 [] db_h [] [] []); try reflexivity; [discriminate|constructor]. Qed.
Lemma db_wf : wf_hunk db_h. Proof. wf_hunk_tac. Qed.
Lemma db_batch b bim : batch_options (db_o b false true false bim).
Proof. unfold batch_options. repeat split; try reflexivity. cbn. discriminate. Qed.
Lemma db_ignoring b t bim : ignoring_options (db_o b true t false bim).
Proof. unfold ignoring_options. repeat split; reflexivity. Qed.
Lemma db_misfits b n t f bim : first_misfits (db_o b n t f bim) db_B db_h.
Proof. vm_compute. reflexivity. Qed.
Lemma db_text_shape : db_text = unified_text [bs "diff -u a/f b/f"] (bs "a/f") None (bs "b/f") None [db_h] [].
Proof. vm_compute. reflexivity. Qed.

Ltac db_noslash := let H := fresh "H" in vm_compute; intros H; repeat (destruct H as [H|H]; [discriminate H|]); exact H.
Lemma db_filler b n t f bim :
  Forall (Filler (strip_size (db_o b n t f bim)) (empty_patch FUnknown)) [bs "diff -u a/f b/f"].
Proof. constructor; [vm_compute; reflexivity|constructor]. Qed.
Lemma db_wfs : Forall wf_hunk [db_h].
Proof. constructor; [exact db_wf|constructor]. Qed.
Ltac db_side := first [ exact db_conf | exact db_wfs | apply db_filler | apply db_misfits | apply db_batch | apply db_ignoring
                      | reflexivity | discriminate
                      | (vm_compute; reflexivity) | (vm_compute; discriminate) | db_noslash
                      | (left; discriminate) | (right; discriminate)
                      | (left; vm_compute; discriminate) | (right; vm_compute; discriminate)
                      | (left; reflexivity) | (right; vm_compute; reflexivity)
                      | (repeat split; vm_compute; intuition discriminate)
                      | (constructor; [repeat split; vm_compute; intuition discriminate|constructor]) ].

(* (1) the section under -t, with --backup-if-mismatch given explicitly: three operations, no backup, no reject file *)
Example section_reapplied_t_nonvacuous :
  let o := db_o false false true false OBYes in
  process_section o db_st false db_p db_s (db_w db_dataB) =
  (Ok (mkDS false [] [] [] db_assuming, db_s),
   mkWorld [(bs "f", Reg db_dataA 384); db_pfile; db_other] 18
           [OOpenRead (bs "f"); OWrite (bs "f") db_dataA; OChmod (bs "f") 384] None []).
Proof.
  cbv zeta.
  rewrite (section_reapplied_t (db_o false false true false OBYes) db_p (bs "f") db_A db_B db_h [] db_st db_s (db_w db_dataB) db_dataB 384);
    db_side.
Qed.

(* the same by plain computation of the model *)
Example section_reapplied_t_run :
  let o := db_o false false true false OBYes in
  process_section o db_st false db_p db_s (db_w db_dataB) =
  (Ok (mkDS false [] [] [] db_assuming, db_s),
   mkWorld [(bs "f", Reg db_dataA 384); db_pfile; db_other] 18
           [OOpenRead (bs "f"); OWrite (bs "f") db_dataA; OChmod (bs "f") 384] None []).
Proof. vm_compute. reflexivity. Qed.

(* (1) with -b *)
Example section_reapplied_t_backup_nonvacuous :
  let o := db_o true false true false OBUnset in
  exists w',
    process_section o db_st false db_p db_s (db_w db_dataB)
      = (Ok (with_backed_up (add_event db_st (assuming_msg o)) (backup_name o (bs "f")), db_s), w') /\
    lookup (fs w') (backup_name o (bs "f")) = Some (Reg db_dataB 384) /\
    lookup (fs w') (bs "f") = Some (Reg (lines_bytes (newline_output o) db_A) 384) /\
    (forall q, q <> bs "f" -> q <> backup_name o (bs "f") -> lookup (fs w') q = lookup (fs (db_w db_dataB)) q) /\
    fault w' = None /\ umask w' = umask (db_w db_dataB).
Proof.
  cbv zeta.
  apply (section_reapplied_t_backup (db_o true false true false OBUnset) db_p (bs "f") db_A db_B db_h [] db_st db_s (db_w db_dataB) db_dataB 384);
    db_side.
Qed.

(* (2) the whole program under -t: the theorem, instantiated ... *)
Example run_patch_reapplied_t_nonvacuous :
  run_patch (db_o false false true false OBYes) [] (db_w db_dataB) =
  mkRR 0 db_assuming
       (mkWorld [(bs "f", Reg db_dataA 384); db_pfile; db_other] 18
                [OOpenRead (bs "p.diff"); OOpenRead (bs "f"); OWrite (bs "f") db_dataA; OChmod (bs "f") 384] None []).
Proof.
  rewrite (run_patch_file_reapplied_t (db_o false false true false OBYes) FUnknown [bs "diff -u a/f b/f"] (bs "a/f") None (bs "b/f") None
             db_h [] [] (bs "f") db_A db_B (db_w db_dataB) db_dataB 384 (bs "p.diff") 420 []);
    db_side.
Qed.

(* ... and by computation: exit status 0, original bytes, mode kept, no f.orig, no f.rej *)
Example whole_program_reapplied_t :
  let r := run_patch (db_o false false true false OBYes) [] (db_w db_dataB) in
  rr_exit r = 0 /\ rr_events r = db_assuming /\
  lookup (fs (rr_world r)) (bs "f") = Some (Reg db_dataA 384) /\
  lookup (fs (rr_world r)) (bs "f.orig") = None /\ lookup (fs (rr_world r)) (bs "f.rej") = None /\
  trace (rr_world r) = [OOpenRead (bs "p.diff"); OOpenRead (bs "f"); OWrite (bs "f") db_dataA; OChmod (bs "f") 384].
Proof. vm_compute. repeat split; reflexivity. Qed.

(* -t -b by computation: the backup holds the patched bytes *)
Example whole_program_reapplied_t_backup :
  let r := run_patch (db_o true false true false OBUnset) [] (db_w db_dataB) in
  rr_exit r = 0 /\ rr_events r = db_assuming /\
  lookup (fs (rr_world r)) (bs "f") = Some (Reg db_dataA 384) /\
  lookup (fs (rr_world r)) (bs "f.orig") = Some (Reg db_dataB 384) /\ lookup (fs (rr_world r)) (bs "f.rej") = None /\
  trace (rr_world r) = [OOpenRead (bs "p.diff"); OOpenRead (bs "f"); ORename (bs "f") (bs "f.orig");
                        OWrite (bs "f") db_dataA; OChmod (bs "f") 384].
Proof. vm_compute. repeat split; reflexivity. Qed.

(* (2) the whole program under -N: the theorem, instantiated ... *)
Example run_patch_reapplied_N_nonvacuous :
  run_patch (db_o false true false false OBYes) [] (db_w db_dataB) =
  mkRR 1 (db_skipping ++ bs "1 out of 1 hunk ignored" ++ db_nl)
       (mkWorld [(bs "f.rej", Reg db_rej 420); db_pfile; db_other; (bs "f", Reg db_dataB 384)] 18
                [OOpenRead (bs "p.diff"); OOpenRead (bs "f"); OWrite (bs "f.rej") db_rej] None []).
Proof.
  rewrite (run_patch_file_reapplied_N (db_o false true false false OBYes) FUnknown [bs "diff -u a/f b/f"] (bs "a/f") None (bs "b/f") None
             db_h [] [] (bs "f") db_A db_B (db_w db_dataB) db_dataB 384 (bs "p.diff") 420 []);
    db_side.
Qed.

(* ... and by computation; -N wins over -t when both are given *)
Example whole_program_reapplied_N :
  let r := run_patch (db_o false true false false OBYes) [] (db_w db_dataB) in
  let r2 := run_patch (db_o false true true false OBYes) [] (db_w db_dataB) in
  rr_exit r = 1 /\ rr_events r = db_skipping ++ bs "1 out of 1 hunk ignored" ++ db_nl /\
  lookup (fs (rr_world r)) (bs "f") = Some (Reg db_dataB 384) /\
  lookup (fs (rr_world r)) (bs "f.orig") = None /\ lookup (fs (rr_world r)) (bs "f.rej") = Some (Reg db_rej 420) /\
  trace (rr_world r) = [OOpenRead (bs "p.diff"); OOpenRead (bs "f"); OWrite (bs "f.rej") db_rej] /\
  r2 = r.
Proof. vm_compute. repeat split; reflexivity. Qed.

(* (3) -f (with -t as well): no guess; the hunk is judged on its own, does not fit (its only changed line is not there),
   and is rejected as FAILED, not as ignored; the report holds hunk reports only.  With --backup-if-mismatch the file is then
   written back unchanged under a backup. *)
Example section_force_no_guess_nonvacuous :
  let o := db_o false false true true OBUnset in
  process_section o db_st false db_p db_s (db_w db_dataB) =
  process_section_with (apply_patch_plain o) o db_st false db_p db_s (db_w db_dataB).
Proof. cbv zeta. apply section_force_no_guess. reflexivity. Qed.

Example whole_program_force :
  let r := run_patch (db_o false false true true OBUnset) [] (db_w db_dataB) in
  rr_exit r = 1 /\ rr_events r = bs "Hunk #1 FAILED at 1." ++ db_nl ++ bs "1 out of 1 hunk FAILED" ++ db_nl /\
  lookup (fs (rr_world r)) (bs "f") = Some (Reg db_dataB 384) /\
  lookup (fs (rr_world r)) (bs "f.rej") = Some (Reg db_rej 420) /\
  trace (rr_world r) = [OOpenRead (bs "p.diff"); OOpenRead (bs "f"); OWrite (bs "f.rej") db_rej;
                        OWrite (bs "f") db_dataB; OChmod (bs "f") 384].
Proof. vm_compute. repeat split; reflexivity. Qed.

(* the hypothesis first_misfits is needed: a patch whose first hunk still fits the patched file exactly at its place (here an
   insertion at the top written by diff -U0) is not recognised; -t applies it a second time, without a word *)
Definition db_hins := mkHunk (mkRange 0 0) (mkRange 1 1) [mkPL Add (db_l "x")].
Example first_misfits_needed :
  let o := db_o false false true false OBYes in
  let p := mkPatch FUnified OpChange [] [] (bs "f") (bs "f") [] [] 0 0 [db_hins] in
  Conforming [db_l "a"] [db_l "x"; db_l "a"] [db_hins] /\
  ~ first_misfits o [db_l "x"; db_l "a"] db_hins /\
  match apply_patch o [db_l "x"; db_l "a"] p with
  | Ok r => r_out r = [db_l "x"; db_l "x"; db_l "a"] /\ r_msgs r = [] /\ r_failed r = 0
  | Throw _ => False
  end.
Proof.
  cbv zeta. split.
  - unfold Conforming. apply (Conf_cons 0 0 [] db_hins [] [db_l "a"] [db_l "a"]); try reflexivity; [discriminate|constructor].
  - split; [vm_compute; discriminate|vm_compute; repeat split; reflexivity].
Qed.

(* an observation on the decision itself (Applier.apply_first): the reversed first hunk is preferred as soon as it fits exactly,
   even when the hunk as stated still fits elsewhere (with an offset).  Here the file holds B,b and the hunk replaces b by B at
   line 1: as stated it fits at line 2; -t reverses it (result b,b), -f applies it at line 2 (result B,B) *)
Definition db_hone := mkHunk (mkRange 1 1) (mkRange 1 1) [mkPL Del (db_l "b"); mkPL Add (db_l "B")].
Example reversed_preferred_to_offset :
  let p := mkPatch FUnified OpChange [] [] (bs "f") (bs "f") [] [] 0 0 [db_hone] in
  let lines := [db_l "B"; db_l "b"] in
  locate_hunk lines db_hone false 0 2 0 = Some (mkLoc 1 0 1) /\
  match apply_patch (db_o false false true false OBYes) lines p with
  | Ok r => r_out r = [db_l "b"; db_l "b"] /\ r_failed r = 0 | Throw _ => False end /\
  match apply_patch (db_o false false true true OBYes) lines p with
  | Ok r => r_out r = [db_l "B"; db_l "B"] /\ r_failed r = 0 | Throw _ => False end.
Proof. vm_compute. repeat split; reflexivity. Qed.
