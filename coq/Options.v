(* Options.v — struct Options (include/patch/options.h).  Definitions only. *)
From PatchV Require Import Base Lines.

Inductive reject_format := RFContext | RFUnified | RFDefault.
Inductive read_only_handling := ROWarn | ROIgnore | ROFail.
Inductive optional_bool := OBUnset | OBYes | OBNo.
Inductive quoting_style := QSUnset | QSLiteral | QSShell | QSShellAlways | QSC.

Record options := mkOptions {
  save_backup : bool;
  interpret_as_context : bool;
  patch_directory_path : list N;
  define_macro : list N;
  interpret_as_ed : bool;
  patch_file_path : list N;
  ignore_whitespace : bool;
  interpret_as_normal : bool;
  ignore_reversed : bool;
  out_file_path : list N;
  strip_size : Z;
  max_fuzz : Z;
  reverse_patch_opt : bool;
  file_to_patch : list N;
  reject_file_path : list N;
  force : bool;
  batch : bool;
  show_help : bool;
  show_version : bool;
  interpret_as_unified : bool;
  verbose : bool;
  dry_run : bool;
  posix : bool;
  backup_if_mismatch : optional_bool;
  remove_empty_files : optional_bool;
  newline_output : nlmode;
  reject_format_opt : reject_format;
  read_only : read_only_handling;
  quoting : quoting_style;
  backup_suffix : list N;
  backup_prefix : list N }.

Definition default_options : options :=
  mkOptions false false [] [] false [] false false false [] (-1)%Z 2%Z false [] []
            false false false false false false false false OBUnset OBUnset MNative RFDefault ROWarn QSUnset [] [].
