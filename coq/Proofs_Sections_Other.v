(* Proofs_Sections_Other.v — C04 / C11 for the formats other than unified.
   (3) C04 wiring: the hunks of ANY patch the model's parser accepts (unified, git, context, normal) have counts that are the
       numbers of lines of their two sides, hence the reject writer (context form included) and -D never throw on them; the
       run-level "a hunk that cannot be placed is never fatal" holds without any restriction on the format.
   (1) C11 for a CONTEXT section: the header scan on "*** old", "--- new", the row of stars and the first "*** N,M ****" line,
       the body (context_roundtrip_hunks), and the sum theorem for the whole run.
   (2) the same for a NORMAL section (normal_body_roundtrip). *)
From PatchV Require Import Base Lines Hunk Locator Formatter Options Applier LineParser Parser World Driver
     Proofs_Base Proofs_Lines Proofs_Fuel Proofs_Unified Proofs_Filler Proofs_Progress Proofs_Sections Proofs_Sections_Unified
     Proofs_Names Proofs_CtxLines Proofs_CtxMerge Proofs_Context Spec_Normal Proofs_Normal
     Proofs_ArithParse Proofs_ArithHeader Proofs_Status Proofs_StatusDriver Proofs_Whole.

(* ================================================================================================================
   (3) C04 wiring
   ================================================================================================================ *)
(* the two ways of counting the lines of a side (Proofs_Unified: Z, by filter; Proofs_Status: nat, by old_side) agree *)
Lemma n_old_bridge b : Proofs_Unified.n_old b = Z.of_nat (Proofs_Status.n_old b).
Proof.
  unfold Proofs_Unified.n_old, Proofs_Status.n_old, old_side. rewrite map_length. f_equal. f_equal.
  induction b as [|p r IH]; [reflexivity|]. cbn [filter]. unfold is_old at 1, is_add at 1. rewrite IH.
  destruct (pop p); reflexivity.
Qed.

Lemma n_new_bridge b : Proofs_Unified.n_new b = Z.of_nat (Proofs_Status.n_new b).
Proof.
  unfold Proofs_Unified.n_new, Proofs_Status.n_new, new_side. rewrite map_length. f_equal. f_equal.
  induction b as [|p r IH]; [reflexivity|]. cbn [filter]. unfold is_new at 1, is_del at 1. rewrite IH.
  destruct (pop p); reflexivity.
Qed.

(* a hunk as the parsers build it has the right counts ... *)
Lemma good_hunk_counts_ok h : good_hunk h -> hunk_counts_ok h.
Proof. intros (_ & _ & Eo & En). unfold hunk_counts_ok. rewrite <- n_old_bridge, <- n_new_bridge. split; assumption. Qed.

(* ... so that write_hunk_as_context answers on it (write_hunk_as_context_iff) *)
Theorem parsed_hunks_ctx_writable h : good_hunk h -> ctx_writable h.
Proof. intros H. apply counts_ok_writable. apply good_hunk_counts_ok. exact H. Qed.

Lemma Forall_good_counts hs : Forall good_hunk hs -> Forall hunk_counts_ok hs.
Proof. intros H. eapply Forall_impl; [|exact H]. exact good_hunk_counts_ok. Qed.

Lemma Forall_good_writable hs : Forall good_hunk hs -> Forall ctx_writable hs.
Proof. intros H. eapply Forall_impl; [|exact H]. exact parsed_hunks_ctx_writable. Qed.

(* any patch the parser accepts, whatever the format asked for (-u / -c / -n / none) and whatever format is detected *)
Theorem parse_patch_counts_ok b f strip p : parse_patch b f strip = Ok p -> Forall hunk_counts_ok (hunks p).
Proof. intros H. apply Forall_good_counts. eapply parse_patch_good. exact H. Qed.

Theorem parse_patch_ctx_writable b f strip p : parse_patch b f strip = Ok p -> Forall ctx_writable (hunks p).
Proof. intros H. apply Forall_good_writable. eapply parse_patch_good. exact H. Qed.

(* the same for the body parser alone, on a patch record that holds good hunks so far *)
Theorem parse_body_counts_ok p s p' s' :
  Forall good_hunk (hunks p) -> parse_patch_body p s = Ok (p', s') ->
  Forall hunk_counts_ok (hunks p') /\ Forall ctx_writable (hunks p').
Proof.
  intros Hg H. pose proof (parse_patch_body_good _ _ _ _ H Hg) as G.
  split; [apply Forall_good_counts|apply Forall_good_writable]; exact G.
Qed.

(* hence, for a parsed patch of any format, any options (reject format, -D, -R), any lines of the target: apply_patch ends
   normally unless the question "reversed?" has to be asked *)
Theorem parsed_never_fatal o lines b f strip p :
  parse_patch b f strip = Ok p -> ~ question_needed o lines p -> exists r, apply_patch o lines p = Ok r.
Proof. intros H Q. apply apply_never_fatal_define; [eapply parse_patch_counts_ok; exact H|exact Q]. Qed.

Theorem parsed_body_never_fatal o lines p s p' s' :
  hunks p = [] -> parse_patch_body p s = Ok (p', s') -> ~ question_needed o lines p' -> exists r, apply_patch o lines p' = Ok r.
Proof.
  intros Hh H Q. apply apply_never_fatal_define; [|exact Q].
  apply (parse_body_counts_ok p s p' s'); [rewrite Hh; constructor|exact H].
Qed.

(* the invariant handed to the driver-level theorems of Proofs_StatusDriver.v *)
Definition all_good (q : patch) : Prop := Forall good_hunk (hunks q).

(* one section, any format *)
Theorem any_section_hunk_failure_never_fatal o st should p s w e w' :
  Forall good_hunk (hunks p) ->
  process_section o st should p s w = (Throw e, w') ->
  exists c, benign_cause o c /\ explains o c e w'.
Proof.
  intros Hg. apply (section_hunk_failure_never_fatal o all_good).
  - intros q s0 q' s1 G P. exact (parse_patch_body_good _ _ _ _ P G).
  - intros q x G. exact G.
  - intros q G. apply Forall_good_counts. exact G.
  - exact Hg.
Qed.

(* a section as the header scan hands it over *)
Corollary scanned_section_hunk_failure_never_fatal o st f strip s0 should p s found w e w' :
  parse_patch_header_full (empty_patch f) strip s0 = Ok (should, p, s, found) ->
  process_section o st should p s w = (Throw e, w') ->
  exists c, benign_cause o c /\ explains o c e w'.
Proof.
  intros HP. apply any_section_hunk_failure_never_fatal.
  rewrite (header_full_hunks _ _ _ _ _ _ _ HP). constructor.
Qed.

(* A whole run, ANY options (-u, -c, -n or auto-detection; -R, -D, any reject format, ...), any patch bytes, any tree: when the
   run ends with an exception — exit status 2 — the cause is never that a hunk could not be placed or could not be written to
   the reject file: it is one of the benign causes (an unsupported option, no patch found, a parse error, a question that cannot
   be asked, a failed system operation, ...). *)
Theorem any_run_hunk_failure_never_fatal o stdin w e w' :
  (let! b := patch_file_bytes o stdin in process_patch o b) w = (Throw e, w') ->
  exists c, benign_cause o c /\ explains o c e w'.
Proof.
  apply (run_hunk_failure_never_fatal o all_good).
  - intros q s0 q' s1 G P. exact (parse_patch_body_good _ _ _ _ P G).
  - intros q x G. exact G.
  - intros q G. apply Forall_good_counts. exact G.
  - intros f strip s should p s1 found _ HP. unfold all_good. rewrite (header_full_hunks _ _ _ _ _ _ _ HP). constructor.
Qed.
Print Assumptions parsed_hunks_ctx_writable.
Print Assumptions parse_patch_ctx_writable.
Print Assumptions any_run_hunk_failure_never_fatal.

(* ================================================================================================================
   (1) a CONTEXT section
   ================================================================================================================ *)
(* ---------- the steps of the header scan on the lines of a context diff ---------- *)
Lemma step_star strip p n r x :
  parse_file_line strip r = Ok x ->
  header_step strip (hs_at p n) (bs "*** " ++ r) =
  Ok (inl (hs_at (set_paths p (fst x) (new_path p) (opt_or (snd x) (old_time p)) (new_time p)) (S n))).
Proof.
  intros H. unfold header_step, hs_at. cbn [h_looks h_patch h_lines h_git h_body h_hunk h_first looks_eqb andb negb].
  rewrite consume_str_app. rewrite H. reflexivity.
Qed.

Lemma step_stars strip p n :
  fmt_unknown_or p FContext = true ->
  header_step strip (hs_at p n) stars = Ok (inl (mkHS p LKContext (S n) false true empty_hunk (S n))).
Proof.
  intros Hf. unfold header_step, hs_at. cbn [h_looks h_patch h_lines h_git h_body h_hunk h_first looks_eqb andb negb].
  change (consume_str (bs "*** ") stars) with (@None (list N)).
  change (consume_str (bs "+++ ") stars) with (@None (list N)).
  change (consume_str (bs "--- ") stars) with (@None (list N)).
  change (consume_str (bs "Index: ") stars) with (@None (list N)).
  change (consume_str (bs "Prereq: ") stars) with (@None (list N)).
  change (consume_str (bs "diff --git ") stars) with (@None (list N)).
  cbn [rbind fst snd].
  change (parse_unified_range empty_hunk stars) with (false, empty_hunk).
  change (parse_normal_range empty_hunk stars) with (false, empty_hunk).
  rewrite Hf.
  change (starts_with stars (bs "***************")) with true.
  destruct (fmt_unknown_or p FUnified); destruct (fmt_unknown_or p FNormal); reflexivity.
Qed.

Definition ctx_hunk0 (r : range) : hunk := mkHunk (mkRange (rstart r) (-1)) empty_range [].

Lemma ends_with_orange r : ends_with (orange_line r) (bs " ****") = true.
Proof. pose proof (is_old_range_orange r) as H. unfold is_old_range_line in H. apply andb_true_iff in H. apply H. Qed.

Lemma step_orange strip p k first r :
  fmt_unknown_or p FContext = true -> wf_crange0 r ->
  header_step strip (mkHS p LKContext k false true empty_hunk first) (orange_line r) =
  Ok (inr (mkHS (set_fmt p FContext) LKUnknown (S k) false true (ctx_hunk0 r) first)).
Proof.
  intros Hf W. unfold header_step. cbn [h_looks h_patch h_lines h_git h_body h_hunk h_first looks_eqb andb negb].
  change (consume_str (bs "+++ ") (orange_line r)) with (@None (list N)).
  change (consume_str (bs "--- ") (orange_line r)) with (@None (list N)).
  change (consume_str (bs "Index: ") (orange_line r)) with (@None (list N)).
  change (consume_str (bs "Prereq: ") (orange_line r)) with (@None (list N)).
  change (consume_str (bs "diff --git ") (orange_line r)) with (@None (list N)).
  cbn [rbind fst snd].
  change (parse_unified_range empty_hunk (orange_line r)) with (false, empty_hunk).
  change (parse_normal_range empty_hunk (orange_line r)) with (false, empty_hunk).
  rewrite Hf.
  rewrite (starts_with_app (bs "*** ") (fmt_crange r ++ bs " ****") : starts_with (orange_line r) (bs "*** ") = true).
  rewrite ends_with_orange, range_substr_orange.
  destruct (fmt_unknown_or p FUnified); destruct (fmt_unknown_or p FNormal); cbv beta iota;
    rewrite (parse_context_range_fmt _ _ r W); reflexivity.
Qed.

Definition named_c (p0 : patch) (oldp newp : list N) (t1 t2 : option (list N)) : patch :=
  mkPatch FContext (poper p0) (index_path p0) (prereq p0) oldp newp
          (opt_or (time_read t1) (old_time p0)) (opt_or (time_read t2) (new_time p0)) (old_mode p0) (new_mode p0) (hunks p0).

Lemma scan_core_c strip p0 n oldname t1 newname t2 r :
  plain_name oldname -> plain_name newname -> fmt_unknown_or p0 FContext = true -> wf_crange0 r ->
  scan strip (hs_at p0 n) [bs "*** " ++ oldname ++ tab_time t1; bs "--- " ++ newname ++ tab_time t2; stars; orange_line r] =
  Some (mkHS (named_c p0 (stripped oldname strip) (stripped newname strip) t1 t2) LKUnknown (S (S (S (S n)))) false true
             (ctx_hunk0 r) (S (S (S n)))).
Proof.
  intros Ho Hn Hf W.
  rewrite (scan_inl _ _ _ _ _ (step_star strip p0 n _ _ (file_line_name oldname t1 strip Ho))). cbn [fst snd].
  rewrite (scan_inl _ _ _ _ _ (step_minus strip _ (S n) _ _ (file_line_name newname t2 strip Hn))). cbn [fst snd].
  match goal with |- scan _ (hs_at ?q _) _ = _ => set (p2 := q) end.
  assert (Hf2 : fmt_unknown_or p2 FContext = true) by (destruct p0; exact Hf).
  rewrite (scan_inl _ _ _ _ _ (step_stars strip p2 (S (S n)) Hf2)).
  cbn [scan]. rewrite (step_orange strip p2 _ _ r Hf2 W). cbn [is_nil].
  destruct p0; reflexivity.
Qed.

(* ---------- the body ---------- *)
Lemma context_body p1 h hs tail :
  pfmt p1 = FContext -> Forall wf_hunk_c (h :: hs) -> tail_ok_c tail ->
  parse_patch_body p1 (strm (emit_c (h :: hs) ++ tail)) = Ok (set_hunks p1 (hunks p1 ++ map norm_hunk (h :: hs)), final_c (lasth h hs) tail).
Proof.
  intros Hf Hwf Ht. unfold parse_patch_body. rewrite Hf, (context_roundtrip_hunks h hs tail Hwf Ht). reflexivity.
Qed.

Lemma tail_ok_c_nil : tail_ok_c []. Proof. left. reflexivity. Qed.

Lemma Sim_context_body p1 h hs tail :
  pfmt p1 = FContext -> Forall wf_hunk_c (h :: hs) -> tail_ok_c tail ->
  Sim (fun ps => (fst ps, final_c (lasth h hs) tail)) (body_if true p1 (strm (emit_c (h :: hs)))) (body_if true p1 (strm (emit_c (h :: hs) ++ tail))).
Proof.
  intros Hf Hwf Ht w. unfold map_result, body_if, mlift.
  rewrite (context_body p1 h hs tail Hf Hwf Ht).
  rewrite <- (app_nil_r (emit_c (h :: hs))) at 1. rewrite (context_body p1 h hs [] Hf Hwf tail_ok_c_nil). reflexivity.
Qed.

Lemma final_c_ne h tail : tail <> [] -> final_c h tail = stream_of tail.
Proof. intros H. destruct tail; [congruence|reflexivity]. Qed.

Lemma final_c_nil_eof h : seof (final_c h []) = true.
Proof. unfold final_c. destruct (new_printed (body h)); reflexivity. Qed.

Lemma ends_here_eof o f s : seof s = true -> ends_here o f s = true.
Proof. intros H. unfold ends_here. rewrite H. reflexivity. Qed.

Section ContextSections.
Variables (o : options) (f : format) (pre : list (list N)) (h1 : hunk) (hs' : list hunk) (st' : hstate).
Let hs := h1 :: hs'.
Let p := header_patch st'.
Let t1 := join_lines pre ++ emit_c hs.

Hypothesis Hfo : format_from_options o = Ok f.
Hypothesis Hpre : Forall clean pre.
Hypothesis Hwf : Forall wf_hunk_c hs.
Hypothesis Hscan : scan (strip_size o) (st0 (empty_patch f)) (pre ++ [stars; orange_line (oldr h1)]) = Some st'.
Hypothesis Hfirst : h_first st' = S (length pre).
Hypothesis Hbody : h_body st' = true.
Hypothesis Hfmt : pfmt p = FContext.
Hypothesis Hop : poper p <> OpBinary.

Lemma header_of_section_c tail :
  parse_patch_header_full (empty_patch f) (strip_size o) (strm (t1 ++ tail)) = Ok (true, p, strm (emit_c hs ++ tail), true).
Proof.
  inversion Hwf as [|? ? Hw1 _]; subst. destruct Hw1 as (_ & Wo & _).
  set (rb := fmt_cside (ol_p (body h1)) ++ nrange_line (newr h1) ++ 10%N :: (fmt_cside (nl_p (body h1)) ++ emit_c hs' ++ tail)).
  assert (E : emit_c hs ++ tail = stars ++ 10%N :: orange_line (oldr h1) ++ 10%N :: rb).
  { unfold hs, rb. cbn [emit_c flat_map]. fold (emit_c hs'). unfold sep. rewrite <- !app_assoc. cbn [app]. rewrite ctext_shape. reflexivity. }
  assert (T : t1 ++ tail = join_lines (pre ++ [stars; orange_line (oldr h1)]) ++ rb).
  { unfold t1. rewrite <- app_assoc, E, join_lines_app. cbn [join_lines flat_map]. rewrite app_nil_r. repeat (rewrite <- ?app_assoc; cbn [app]). reflexivity. }
  rewrite T.
  rewrite (header_suffix (strip_size o) (empty_patch f) (pre ++ [stars; orange_line (oldr h1)]) rb st').
  - rewrite Hfirst, Hbody. cbn [Nat.sub Nat.eqb negb]. rewrite Nat.sub_0_r.
    rewrite skipn_app, skipn_all, Nat.sub_diag. cbn [skipn app join_lines flat_map]. rewrite app_nil_r. repeat (rewrite <- ?app_assoc; cbn [app]).
    rewrite E. reflexivity.
  - apply Forall_app. split; [exact Hpre|]. constructor; [exact stars_clean|]. constructor; [apply orange_clean; exact Wo|constructor].
  - exact Hscan.
  - rewrite Hfirst, app_length. cbn. lia.
Qed.

Lemma body_hyp_c tail : tail_ok_c tail ->
  forall p1, pfmt p1 = pfmt p -> hunks p1 = hunks p ->
  Sim (fun ps => (fst ps, final_c (lasth h1 hs') tail)) (body_if true p1 (strm (emit_c hs))) (body_if true p1 (strm (emit_c hs ++ tail))).
Proof.
  intros Ht p1 E _. apply Sim_context_body; [rewrite E; exact Hfmt|exact Hwf|exact Ht].
Qed.

Let Fm : (if negb true && true then FUnknown else pfmt p) <> FUnknown.
Proof. cbn [negb andb]. rewrite Hfmt. discriminate. Qed.

Lemma section_alone_c st1 sA w w1 :
  process_section o ds0 true p (strm (emit_c hs)) w = (Ok (st1, sA), w1) ->
  process_section o ds0 true p (strm (emit_c hs)) w = (Ok (st1, final_c (lasth h1 hs') []), w1).
Proof.
  intros Hps.
  pose proof (process_section_stream o ds0 true p (strm (emit_c hs)) (strm (emit_c hs ++ [])) (final_c (lasth h1 hs') [])
                (body_hyp_c [] tail_ok_c_nil) w) as X.
  rewrite app_nil_r in X. unfold map_result in X. rewrite Hps in X. cbn [fst] in X. rewrite Hps. exact X.
Qed.

Lemma section_followed_c t2 st1 sA w w1 : tail_ok_c t2 -> t2 <> [] ->
  process_section o ds0 true p (strm (emit_c hs)) w = (Ok (st1, sA), w1) ->
  process_section o ds0 true p (strm (emit_c hs ++ t2)) w = (Ok (st1, stream_of t2), w1).
Proof.
  intros Ht Hne Hps.
  pose proof (process_section_stream o ds0 true p (strm (emit_c hs)) (strm (emit_c hs ++ t2)) (final_c (lasth h1 hs') t2)
                (body_hyp_c t2 Ht) w) as X.
  unfold map_result in X. rewrite Hps in X. cbn [fst] in X. rewrite X. rewrite (final_c_ne _ _ Hne). reflexivity.
Qed.

Theorem context_sections_sum t2 st1 sA w w1 :
  tail_ok_c t2 -> t2 <> [] ->
  process_section o ds0 true p (strm (emit_c hs)) w = (Ok (st1, sA), w1) ->
  deferred_writes st1 = [] -> deferred_removals st1 = [] ->
  has_patch o f (stream_of t2) = true ->
  (may_backup o = true -> forall q, In q (targets_met (S (S (length t2))) o f ds0 (stream_of t2) w1) -> fresh_backup o st1 q) ->
  process_patch o t1 w = (Ok (exit_of st1, events st1), w1) /\
  process_patch o (t1 ++ t2) w = map_result (after_run st1) (process_patch o t2) w1.
Proof.
  intros Ht Hne Hps Hdw Hdr Hhp Hb.
  pose proof (section_alone_c st1 sA w w1 Hps) as PA.
  pose proof (section_followed_c t2 st1 sA w w1 Ht Hne Hps) as PB.
  split.
  - pose proof (header_of_section_c []) as H0. rewrite !app_nil_r in H0.
    apply (process_patch_single o f t1 true p (strm (emit_c hs)) true st1 (final_c (lasth h1 hs') []) w w1 Hfo H0 Fm Hop PA Hdw Hdr).
    apply ends_here_eof. apply final_c_nil_eof.
  - apply (process_patch_sum o f (t1 ++ t2) t2 true p (strm (emit_c hs ++ t2)) true st1 w w1 Hfo (header_of_section_c t2) Fm Hop PB Hdw Hdr Hhp Hb).
Qed.

Theorem context_section_text_after t2 st1 sA w w1 :
  tail_ok_c t2 -> t2 <> [] ->
  process_section o ds0 true p (strm (emit_c hs)) w = (Ok (st1, sA), w1) ->
  deferred_writes st1 = [] -> deferred_removals st1 = [] ->
  ends_here o f (stream_of t2) = true ->
  process_patch o (t1 ++ t2) w = (Ok (exit_of st1, events st1), w1) /\
  process_patch o (t1 ++ t2) w = process_patch o t1 w.
Proof.
  intros Ht Hne Hps Hdw Hdr He.
  pose proof (section_alone_c st1 sA w w1 Hps) as PA.
  pose proof (section_followed_c t2 st1 sA w w1 Ht Hne Hps) as PB.
  assert (E1 : process_patch o (t1 ++ t2) w = (Ok (exit_of st1, events st1), w1)).
  { apply (process_patch_single o f (t1 ++ t2) true p (strm (emit_c hs ++ t2)) true st1 (stream_of t2) w w1 Hfo (header_of_section_c t2) Fm Hop PB Hdw Hdr He). }
  split; [exact E1|]. rewrite E1. symmetry.
  pose proof (header_of_section_c []) as H0. rewrite !app_nil_r in H0.
  apply (process_patch_single o f t1 true p (strm (emit_c hs)) true st1 (final_c (lasth h1 hs') []) w w1 Hfo H0 Fm Hop PA Hdw Hdr).
  apply ends_here_eof. apply final_c_nil_eof.
Qed.

Theorem context_section_throws t2 e w w1 :
  tail_ok_c t2 ->
  process_section o ds0 true p (strm (emit_c hs)) w = (Throw e, w1) ->
  process_patch o t1 w = (Throw e, w1) /\ process_patch o (t1 ++ t2) w = (Throw e, w1).
Proof.
  intros Ht Hps.
  assert (PB : process_section o ds0 true p (strm (emit_c hs ++ t2)) w = (Throw e, w1)).
  { pose proof (process_section_stream o ds0 true p (strm (emit_c hs)) (strm (emit_c hs ++ t2)) (final_c (lasth h1 hs') t2)
                  (body_hyp_c t2 Ht) w) as X.
    unfold map_result in X. rewrite Hps in X. exact X. }
  split.
  - pose proof (header_of_section_c []) as H0. rewrite !app_nil_r in H0.
    apply (process_patch_first_throws o f t1 true p (strm (emit_c hs)) true e w w1 Hfo H0 Fm Hop Hps).
  - apply (process_patch_first_throws o f (t1 ++ t2) true p (strm (emit_c hs ++ t2)) true e w w1 Hfo (header_of_section_c t2) Fm Hop PB).
Qed.
End ContextSections.
Print Assumptions context_sections_sum.

(* ---------- the header of a context diff, computed ---------- *)
Definition decide_oper_c (h1 : hunk) (oldp newp : list N) : operation :=
  if str_eqb newp devnull_path then OpDelete
  else if Z.eqb (rstart (oldr h1)) 0 || str_eqb oldp devnull_path then OpAdd
  else OpChange.

Lemma header_patch_named_c p0 oldp newp t1 t2 k first h1 :
  poper p0 = OpChange ->
  header_patch (mkHS (named_c p0 oldp newp t1 t2) LKUnknown k false true (ctx_hunk0 (oldr h1)) first) =
  set_oper (named_c p0 oldp newp t1 t2) (decide_oper_c h1 oldp newp).
Proof.
  intros Hop. unfold header_patch, decide_oper_c, ctx_hunk0, empty_range.
  cbn [h_git h_patch h_hunk named_c poper newr oldr new_path old_path rstart].
  rewrite Hop. change (Z.eqb (-1) 0) with false. cbn [orb].
  destruct (str_eqb newp devnull_path); [reflexivity|]. destruct (_ || _); [reflexivity|].
  destruct p0. cbn in Hop. subst. reflexivity.
Qed.

Section CHeader.
Variables (strip : Z) (f : format) (pre0 : list (list N)) (p0 : patch).
Variables (oldname newname : list N) (t1 t2 : option (list N)) (h1 : hunk) (hs : list hunk).
Let star := bs "*** " ++ oldname ++ tab_time t1.
Let minus := bs "--- " ++ newname ++ tab_time t2.
Let pre := pre0 ++ [star; minus].
Let st' := mkHS (named_c p0 (stripped oldname strip) (stripped newname strip) t1 t2) LKUnknown (S (S (S (S (length pre0))))) false true
                (ctx_hunk0 (oldr h1)) (S (S (S (length pre0)))).

Hypothesis Hlead : leads strip (empty_patch f) pre0 p0.
Hypothesis Hclean0 : Forall clean pre0.
Hypothesis Hop0 : poper p0 = OpChange.
Hypothesis Hfmt0 : fmt_unknown_or p0 FContext = true.
Hypothesis Hold : plain_name oldname.
Hypothesis Hnew : plain_name newname.
Hypothesis Holdc : clean (oldname ++ tab_time t1).
Hypothesis Hnewc : clean (newname ++ tab_time t2).
Hypothesis Hwf : Forall wf_hunk_c (h1 :: hs).

Lemma pre_clean_c : Forall clean pre.
Proof.
  apply Forall_app. split; [exact Hclean0|]. destruct Hold as (N1 & _). destruct Hnew as (N2 & _).
  constructor; [|constructor; [|constructor]]; apply file_line_clean; try assumption; vm_compute; intuition discriminate.
Qed.

Lemma pre_length_c : length pre = S (S (length pre0)).
Proof. unfold pre. rewrite app_length. cbn [length]. lia. Qed.

Lemma scan_whole_c :
  scan strip (st0 (empty_patch f)) (pre ++ [stars; orange_line (oldr h1)]) = Some st'.
Proof.
  inversion Hwf as [|? ? Hw1 _]; subst. destruct Hw1 as (_ & Wo & _).
  unfold pre. rewrite <- app_assoc. change (st0 (empty_patch f)) with (hs_at (empty_patch f) 0). rewrite Hlead. rewrite Nat.add_0_r.
  cbn [app]. apply scan_core_c; assumption.
Qed.

Lemma first_whole_c : h_first st' = S (length pre).
Proof. unfold st'. cbn [h_first]. rewrite pre_length_c. reflexivity. Qed.

Lemma header_patch_whole_c :
  header_patch st' = set_oper (named_c p0 (stripped oldname strip) (stripped newname strip) t1 t2)
                              (decide_oper_c h1 (stripped oldname strip) (stripped newname strip)).
Proof. unfold st'. apply header_patch_named_c. exact Hop0. Qed.

Theorem context_header_scan_gen tail :
  parse_patch_header_full (empty_patch f) strip (strm (join_lines pre ++ emit_c (h1 :: hs) ++ tail)) =
  Ok (true,
      set_oper (named_c p0 (stripped oldname strip) (stripped newname strip) t1 t2)
               (decide_oper_c h1 (stripped oldname strip) (stripped newname strip)),
      strm (emit_c (h1 :: hs) ++ tail), true).
Proof.
  pose proof (header_of_section_c (with_strip strip) f pre h1 hs st' pre_clean_c Hwf scan_whole_c first_whole_c eq_refl tail) as X.
  cbn [strip_size with_strip] in X. rewrite app_assoc. rewrite X. rewrite header_patch_whole_c. reflexivity.
Qed.
End CHeader.

Lemma fmt_unknown_or_empty_c f : f = FUnknown \/ f = FContext -> fmt_unknown_or (empty_patch f) FContext = true.
Proof. intros [-> | ->]; reflexivity. Qed.

(* the header diff -c writes: text that is nothing to the scan, then "*** old<TAB>stamp", "--- new<TAB>stamp" (the stamps are
   optional), then the row of stars and the hunks.  The scan stops on the first "*** N,M ****" line and goes back to the row
   of stars in front of it. *)
Theorem context_header_scan strip f fl oldname t1 newname t2 h1 hs tail :
  f = FUnknown \/ f = FContext ->
  Forall (Filler strip (empty_patch f)) fl -> Forall clean fl ->
  plain_name oldname -> plain_name newname -> clean (oldname ++ tab_time t1) -> clean (newname ++ tab_time t2) ->
  Forall wf_hunk_c (h1 :: hs) ->
  parse_patch_header_full (empty_patch f) strip
    (strm (join_lines (fl ++ [bs "*** " ++ oldname ++ tab_time t1; bs "--- " ++ newname ++ tab_time t2]) ++ emit_c (h1 :: hs) ++ tail)) =
  Ok (true,
      mkPatch FContext (decide_oper_c h1 (stripped oldname strip) (stripped newname strip)) [] []
              (stripped oldname strip) (stripped newname strip) (opt_or (time_read t1) []) (opt_or (time_read t2) []) 0 0 [],
      strm (emit_c (h1 :: hs) ++ tail), true).
Proof.
  intros Hf HF HC Ho Hn Hoc Hnc Hwf.
  rewrite (context_header_scan_gen strip f fl (empty_patch f) oldname newname t1 t2 h1 hs (leads_fillers _ _ _ HF) HC eq_refl
             (fmt_unknown_or_empty_c f Hf) Ho Hn Hoc Hnc Hwf tail).
  reflexivity.
Qed.
Print Assumptions context_header_scan.

(* C11 for a context section with the header diff -c writes: everything about the parser is discharged; what is left are the
   hypotheses about the run itself *)
Theorem context_run_sum o f fl oldname t1 newname t2 h1 hs' tx st1 sA w w1 :
  format_from_options o = Ok f -> f = FUnknown \/ f = FContext ->
  Forall (Filler (strip_size o) (empty_patch f)) fl -> Forall clean fl ->
  plain_name oldname -> plain_name newname -> clean (oldname ++ tab_time t1) -> clean (newname ++ tab_time t2) ->
  Forall wf_hunk_c (h1 :: hs') ->
  let oldp := stripped oldname (strip_size o) in
  let newp := stripped newname (strip_size o) in
  let p := mkPatch FContext (decide_oper_c h1 oldp newp) [] [] oldp newp (opt_or (time_read t1) []) (opt_or (time_read t2) []) 0 0 [] in
  let text := join_lines (fl ++ [bs "*** " ++ oldname ++ tab_time t1; bs "--- " ++ newname ++ tab_time t2]) ++ emit_c (h1 :: hs') in
  tail_ok_c tx -> tx <> [] ->
  process_section o ds0 true p (strm (emit_c (h1 :: hs'))) w = (Ok (st1, sA), w1) ->
  deferred_writes st1 = [] -> deferred_removals st1 = [] ->
  has_patch o f (stream_of tx) = true ->
  (may_backup o = true -> forall q, In q (targets_met (S (S (length tx))) o f ds0 (stream_of tx) w1) -> fresh_backup o st1 q) ->
  process_patch o text w = (Ok (exit_of st1, events st1), w1) /\
  process_patch o (text ++ tx) w = map_result (after_run st1) (process_patch o tx) w1.
Proof.
  intros Hfo Hf HF HC Ho Hn Hoc Hnc Hwf oldp newp p text Ht Hne Hps Hdw Hdr Hhp Hb.
  set (st' := mkHS (named_c (empty_patch f) oldp newp t1 t2) LKUnknown (S (S (S (S (length fl))))) false true
                   (ctx_hunk0 (oldr h1)) (S (S (S (length fl))))).
  assert (HP : header_patch st' = p) by (unfold st'; rewrite header_patch_named_c by reflexivity; reflexivity).
  pose proof (context_sections_sum o f (fl ++ [bs "*** " ++ oldname ++ tab_time t1; bs "--- " ++ newname ++ tab_time t2]) h1 hs' st' Hfo) as X.
  rewrite HP in X. apply (fun a b c d e g h => X a b c d e g h tx st1 sA w w1); try assumption.
  - apply pre_clean_c; assumption.
  - apply (scan_whole_c (strip_size o) f fl (empty_patch f) oldname newname t1 t2 h1 hs'); try assumption.
    + apply leads_fillers. exact HF.
    + apply fmt_unknown_or_empty_c. exact Hf.
  - unfold st'. cbn [h_first]. rewrite app_length. cbn [length]. f_equal. lia.
  - reflexivity.
  - reflexivity.
  - unfold p, decide_oper_c. cbn [poper]. destruct (str_eqb newp devnull_path); [discriminate|]. destruct (_ || _); discriminate.
Qed.
Print Assumptions context_run_sum.

(* ================================================================================================================
   (2) a NORMAL section
   ================================================================================================================ *)
(* ---------- the steps of the header scan on the lines of a normal diff ---------- *)
Lemma consume_str_head c p d x : N.eqb d c = false -> consume_str (c :: p) (d :: x) = None.
Proof. intros H. cbn [consume_str consume_char]. rewrite H. reflexivity. Qed.

Lemma digit_neq d c : is_digit d = true -> (c <? 48)%N || (57 <? c)%N = true -> N.eqb d c = false.
Proof.
  unfold is_digit. intros H1 H2. apply andb_true_iff in H1. destruct H1 as [A B]. apply N.leb_le in A, B.
  apply N.eqb_neq. intros ->. apply orb_true_iff in H2. destruct H2 as [H2|H2]; apply N.ltb_lt in H2; lia.
Qed.

Lemma step_ncmd strip p n h :
  fmt_unknown_or p FNormal = true -> wf_hunk_n h ->
  header_step strip (hs_at p n) (normal_header h) =
  Ok (inl (mkHS p LKNormal (S n) false true (mkHunk (oldr h) (newr h) []) (S n))).
Proof.
  intros Hf Hw.
  assert (H0 : (0 <= rstart (oldr h))%Z) by (destruct Hw as (_ & _ & _ & _ & (Hs & _) & _); lia).
  destruct (normal_header_head h H0) as (d & x & E & Hd).
  pose proof (parse_normal_header h empty_hunk Hw) as PN. cbn [body empty_hunk] in PN.
  set (L := normal_header h) in *.
  assert (C1 : consume_str (bs "*** ") L = None) by (rewrite E; apply (consume_str_head 42 (bs "** ")); apply digit_neq; [exact Hd|reflexivity]).
  assert (C2 : consume_str (bs "+++ ") L = None) by (rewrite E; apply (consume_str_head 43 (bs "++ ")); apply digit_neq; [exact Hd|reflexivity]).
  assert (C3 : consume_str (bs "--- ") L = None) by (rewrite E; apply (consume_str_head 45 (bs "-- ")); apply digit_neq; [exact Hd|reflexivity]).
  assert (C4 : consume_str (bs "Index: ") L = None) by (rewrite E; apply (consume_str_head 73 (bs "ndex: ")); apply digit_neq; [exact Hd|reflexivity]).
  assert (C5 : consume_str (bs "Prereq: ") L = None) by (rewrite E; apply (consume_str_head 80 (bs "rereq: ")); apply digit_neq; [exact Hd|reflexivity]).
  assert (C6 : consume_str (bs "diff --git ") L = None) by (rewrite E; apply (consume_str_head 100 (bs "iff --git ")); apply digit_neq; [exact Hd|reflexivity]).
  assert (PU : parse_unified_range empty_hunk L = (false, empty_hunk)).
  { unfold parse_unified_range. rewrite E. change (bs "@@ -") with (64%N :: bs "@ -").
    rewrite (consume_str_head 64 (bs "@ -") d x); [reflexivity|apply digit_neq; [exact Hd|reflexivity]]. }
  unfold header_step, hs_at. cbn [h_looks h_patch h_lines h_git h_body h_hunk h_first looks_eqb andb negb].
  rewrite C1, C2, C3, C4, C5, C6. cbn [rbind fst snd]. rewrite PU, PN, Hf.
  destruct (fmt_unknown_or p FUnified); reflexivity.
Qed.

Lemma step_nfirst strip p k hk first m t :
  fmt_unknown_or p FNormal = true -> (m = 60 \/ m = 62)%N ->
  header_step strip (mkHS p LKNormal k false true hk first) (m :: 32%N :: t) =
  Ok (inr (mkHS (set_fmt (set_paths p [] [] (old_time p) (new_time p)) FNormal) LKUnknown (S k) false true hk first)).
Proof.
  intros Hf Hm.
  assert (S1 : normal_first_line (m :: 32%N :: t) = true) by (destruct Hm as [-> | ->]; reflexivity).
  assert (C1 : consume_str (bs "*** ") (m :: 32%N :: t) = None) by (destruct Hm as [-> | ->]; reflexivity).
  assert (C2 : consume_str (bs "+++ ") (m :: 32%N :: t) = None) by (destruct Hm as [-> | ->]; reflexivity).
  assert (C3 : consume_str (bs "--- ") (m :: 32%N :: t) = None) by (destruct Hm as [-> | ->]; reflexivity).
  assert (C4 : consume_str (bs "Index: ") (m :: 32%N :: t) = None) by (destruct Hm as [-> | ->]; reflexivity).
  assert (C5 : consume_str (bs "Prereq: ") (m :: 32%N :: t) = None) by (destruct Hm as [-> | ->]; reflexivity).
  assert (C6 : consume_str (bs "diff --git ") (m :: 32%N :: t) = None) by (destruct Hm as [-> | ->]; reflexivity).
  assert (PU : parse_unified_range empty_hunk (m :: 32%N :: t) = (false, empty_hunk)) by (destruct Hm as [-> | ->]; reflexivity).
  unfold header_step. cbn [h_looks h_patch h_lines h_git h_body h_hunk h_first looks_eqb andb negb].
  rewrite C1, C2, C3, C4, C5, C6. cbn [rbind fst snd]. rewrite PU, Hf, S1.
  destruct (fmt_unknown_or p FUnified); reflexivity.
Qed.

(* the first line of the body of a change group, as diff writes it (without its terminator) *)
Definition first_line_n (h : hunk) : list N :=
  match old_side (body h) with
  | l :: _ => 60%N :: 32%N :: txt l
  | [] => match new_side (body h) with l :: _ => 62%N :: 32%N :: txt l | [] => [] end
  end.

Lemma first_line_n_shape h : wf_hunk_n h ->
  exists m t rb, first_line_n h = m :: 32%N :: t /\ (m = 60 \/ m = 62)%N /\ clean (first_line_n h) /\
                 emit_normal_hunk h = normal_header h ++ 10%N :: first_line_n h ++ 10%N :: rb.
Proof.
  intros (Hne & Hshape & So & Sn & _). unfold first_line_n, emit_normal_hunk, ncmd_of.
  destruct (old_side (body h)) as [|l os] eqn:Eo.
  - destruct (new_side (body h)) as [|l ns] eqn:En.
    { exfalso. apply Hne. rewrite Hshape. reflexivity. }
    cbn [is_nil emit_side flat_map app]. exists 62%N, (txt l). eexists. split; [reflexivity|]. split; [right; reflexivity|].
    split; [apply clean_marked; [discriminate|apply Sn]|].
    unfold fmt_nline. repeat (rewrite <- ?app_assoc; cbn [app]). reflexivity.
  - cbn [is_nil emit_side flat_map app]. exists 60%N, (txt l). eexists. split; [reflexivity|]. split; [left; reflexivity|].
    split; [apply clean_marked; [discriminate|apply So]|].
    unfold fmt_nline. repeat (rewrite <- ?app_assoc; cbn [app]). reflexivity.
Qed.

Lemma tail_ok_n_nil' : tail_ok_n []. Proof. exact tail_ok_n_nil. Qed.

Lemma Sim_normal_body p1 hs tail :
  pfmt p1 = FNormal -> hs <> [] -> Forall wf_hunk_n hs -> tail_ok_n tail ->
  Sim (fun ps => (fst ps, after_n tail)) (body_if true p1 (strm (emit_normal hs))) (body_if true p1 (strm (emit_normal hs ++ tail))).
Proof.
  intros Hf Hne Hwf Ht w. unfold map_result, body_if, mlift.
  rewrite (normal_body_roundtrip p1 hs tail Hf Hne Hwf Ht).
  rewrite <- (app_nil_r (emit_normal hs)) at 1. rewrite (normal_body_roundtrip p1 hs [] Hf Hne Hwf tail_ok_n_nil). reflexivity.
Qed.

(* when the reader does not stop at the end of the input, it stops in front of what is left *)
Lemma after_n_stream tail : seof (after_n tail) = false -> after_n tail = stream_of (rest (after_n tail)).
Proof.
  unfold after_n. destruct (get_line tail) as [[[[t n] r] eof]|]; [|discriminate].
  destruct eof; [discriminate|]. cbn [orb]. destruct (is_nil t); intros _; reflexivity.
Qed.

Section NormalSections.
Variables (o : options) (f : format) (pre : list (list N)) (h1 : hunk) (hs' : list hunk) (st' : hstate).
Let hs := h1 :: hs'.
Let p := header_patch st'.
Let t1 := join_lines pre ++ emit_normal hs.

Hypothesis Hfo : format_from_options o = Ok f.
Hypothesis Hpre : Forall clean pre.
Hypothesis Hwf : Forall wf_hunk_n hs.
(* the header scan reads the lines in front, the command line of the first change group and the first line of its body, on
   which it stops; the command line is the line it hands to the body parser *)
Hypothesis Hscan : scan (strip_size o) (st0 (empty_patch f)) (pre ++ [normal_header h1; first_line_n h1]) = Some st'.
Hypothesis Hfirst : h_first st' = S (length pre).
Hypothesis Hbody : h_body st' = true.
Hypothesis Hfmt : pfmt p = FNormal.
Hypothesis Hop : poper p <> OpBinary.

Lemma header_of_section_n tail :
  parse_patch_header_full (empty_patch f) (strip_size o) (strm (t1 ++ tail)) = Ok (true, p, strm (emit_normal hs ++ tail), true).
Proof.
  inversion Hwf as [|? ? Hw1 _]; subst.
  destruct (first_line_n_shape h1 Hw1) as (m & t & rb1 & _ & _ & Cl & Eb).
  set (hdr := normal_header h1) in *. set (l1 := first_line_n h1) in *.
  set (rb := rb1 ++ emit_normal hs' ++ tail).
  assert (E : emit_normal hs ++ tail = hdr ++ 10%N :: l1 ++ 10%N :: rb).
  { unfold hs, rb. rewrite emit_normal_cons, Eb. repeat (rewrite <- ?app_assoc; cbn [app]). reflexivity. }
  assert (T : t1 ++ tail = join_lines (pre ++ [hdr; l1]) ++ rb).
  { unfold t1. rewrite <- app_assoc, E, join_lines_app. cbn [join_lines flat_map]. rewrite app_nil_r. repeat (rewrite <- ?app_assoc; cbn [app]). reflexivity. }
  rewrite T.
  rewrite (header_suffix (strip_size o) (empty_patch f) (pre ++ [hdr; l1]) rb st').
  - rewrite Hfirst, Hbody. cbn [Nat.sub Nat.eqb negb]. rewrite Nat.sub_0_r.
    rewrite skipn_app, skipn_all, Nat.sub_diag. cbn [skipn app join_lines flat_map]. rewrite app_nil_r. repeat (rewrite <- ?app_assoc; cbn [app]).
    rewrite E. reflexivity.
  - apply Forall_app. split; [exact Hpre|]. constructor; [apply normal_header_clean|]. constructor; [exact Cl|constructor].
  - exact Hscan.
  - rewrite Hfirst, app_length. cbn. lia.
Qed.

Lemma body_hyp_n tail : tail_ok_n tail ->
  forall p1, pfmt p1 = pfmt p -> hunks p1 = hunks p ->
  Sim (fun ps => (fst ps, after_n tail)) (body_if true p1 (strm (emit_normal hs))) (body_if true p1 (strm (emit_normal hs ++ tail))).
Proof.
  intros Ht p1 E _. apply Sim_normal_body; [rewrite E; exact Hfmt|discriminate|exact Hwf|exact Ht].
Qed.

Let Fm : (if negb true && true then FUnknown else pfmt p) <> FUnknown.
Proof. cbn [negb andb]. rewrite Hfmt. discriminate. Qed.

Lemma section_alone_n st1 sA w w1 :
  process_section o ds0 true p (strm (emit_normal hs)) w = (Ok (st1, sA), w1) ->
  process_section o ds0 true p (strm (emit_normal hs)) w = (Ok (st1, after_n []), w1).
Proof.
  intros Hps.
  pose proof (process_section_stream o ds0 true p (strm (emit_normal hs)) (strm (emit_normal hs ++ [])) (after_n [])
                (body_hyp_n [] tail_ok_n_nil) w) as X.
  rewrite app_nil_r in X. unfold map_result in X. rewrite Hps in X. cbn [fst] in X. rewrite Hps. exact X.
Qed.

Lemma section_followed_n t2 st1 sA w w1 : tail_ok_n t2 ->
  process_section o ds0 true p (strm (emit_normal hs)) w = (Ok (st1, sA), w1) ->
  process_section o ds0 true p (strm (emit_normal hs ++ t2)) w = (Ok (st1, after_n t2), w1).
Proof.
  intros Ht Hps.
  pose proof (process_section_stream o ds0 true p (strm (emit_normal hs)) (strm (emit_normal hs ++ t2)) (after_n t2)
                (body_hyp_n t2 Ht) w) as X.
  unfold map_result in X. rewrite Hps in X. cbn [fst] in X. exact X.
Qed.

(* C11 for normal sections, whole runs.  t1 is a normal diff for one file (text in front, change groups as diff writes them);
   t2 is whatever follows it and t2' the part of t2 the reader leaves (all of t2, except that an empty first line of t2 is
   consumed with the section).  Same conclusions as unified_sections_sum. *)
Theorem normal_sections_sum t2 st1 sA w w1 :
  tail_ok_n t2 -> seof (after_n t2) = false ->
  let t2' := rest (after_n t2) in
  process_section o ds0 true p (strm (emit_normal hs)) w = (Ok (st1, sA), w1) ->
  deferred_writes st1 = [] -> deferred_removals st1 = [] ->
  has_patch o f (stream_of t2') = true ->
  (may_backup o = true -> forall q, In q (targets_met (S (S (length t2'))) o f ds0 (stream_of t2') w1) -> fresh_backup o st1 q) ->
  process_patch o t1 w = (Ok (exit_of st1, events st1), w1) /\
  process_patch o (t1 ++ t2) w = map_result (after_run st1) (process_patch o t2') w1.
Proof.
  intros Ht Hne t2' Hps Hdw Hdr Hhp Hb.
  pose proof (section_alone_n st1 sA w w1 Hps) as PA.
  pose proof (section_followed_n t2 st1 sA w w1 Ht Hps) as PB. rewrite (after_n_stream t2 Hne) in PB. fold t2' in PB.
  split.
  - pose proof (header_of_section_n []) as H0. rewrite !app_nil_r in H0.
    apply (process_patch_single o f t1 true p (strm (emit_normal hs)) true st1 (after_n []) w w1 Hfo H0 Fm Hop PA Hdw Hdr).
    reflexivity.
  - apply (process_patch_sum o f (t1 ++ t2) t2' true p (strm (emit_normal hs ++ t2)) true st1 w w1 Hfo (header_of_section_n t2) Fm Hop PB Hdw Hdr Hhp Hb).
Qed.

Theorem normal_section_text_after t2 st1 sA w w1 :
  tail_ok_n t2 ->
  process_section o ds0 true p (strm (emit_normal hs)) w = (Ok (st1, sA), w1) ->
  deferred_writes st1 = [] -> deferred_removals st1 = [] ->
  ends_here o f (after_n t2) = true ->
  process_patch o (t1 ++ t2) w = (Ok (exit_of st1, events st1), w1) /\
  process_patch o (t1 ++ t2) w = process_patch o t1 w.
Proof.
  intros Ht Hps Hdw Hdr He.
  pose proof (section_alone_n st1 sA w w1 Hps) as PA.
  pose proof (section_followed_n t2 st1 sA w w1 Ht Hps) as PB.
  assert (E1 : process_patch o (t1 ++ t2) w = (Ok (exit_of st1, events st1), w1)).
  { apply (process_patch_single o f (t1 ++ t2) true p (strm (emit_normal hs ++ t2)) true st1 (after_n t2) w w1 Hfo (header_of_section_n t2) Fm Hop PB Hdw Hdr He). }
  split; [exact E1|]. rewrite E1. symmetry.
  pose proof (header_of_section_n []) as H0. rewrite !app_nil_r in H0.
  apply (process_patch_single o f t1 true p (strm (emit_normal hs)) true st1 (after_n []) w w1 Hfo H0 Fm Hop PA Hdw Hdr).
  reflexivity.
Qed.

Theorem normal_section_throws t2 e w w1 :
  tail_ok_n t2 ->
  process_section o ds0 true p (strm (emit_normal hs)) w = (Throw e, w1) ->
  process_patch o t1 w = (Throw e, w1) /\ process_patch o (t1 ++ t2) w = (Throw e, w1).
Proof.
  intros Ht Hps.
  assert (PB : process_section o ds0 true p (strm (emit_normal hs ++ t2)) w = (Throw e, w1)).
  { pose proof (process_section_stream o ds0 true p (strm (emit_normal hs)) (strm (emit_normal hs ++ t2)) (after_n t2)
                  (body_hyp_n t2 Ht) w) as X.
    unfold map_result in X. rewrite Hps in X. exact X. }
  split.
  - pose proof (header_of_section_n []) as H0. rewrite !app_nil_r in H0.
    apply (process_patch_first_throws o f t1 true p (strm (emit_normal hs)) true e w w1 Hfo H0 Fm Hop Hps).
  - apply (process_patch_first_throws o f (t1 ++ t2) true p (strm (emit_normal hs ++ t2)) true e w w1 Hfo (header_of_section_n t2) Fm Hop PB).
Qed.
End NormalSections.
Print Assumptions normal_sections_sum.

(* ---------- the header of a normal diff, computed ---------- *)
(* a normal diff names no file: the scan clears both names; what is kept is the "Index:" name, if any *)
Definition normal_patch (p0 : patch) : patch :=
  mkPatch FNormal (poper p0) (index_path p0) (prereq p0) [] [] (old_time p0) (new_time p0) (old_mode p0) (new_mode p0) (hunks p0).

Definition decide_oper_n (h1 : hunk) : operation :=
  if Z.eqb (rstart (newr h1)) 0 then OpDelete else if Z.eqb (rstart (oldr h1)) 0 then OpAdd else OpChange.

Lemma scan_core_n strip p0 n h1 :
  fmt_unknown_or p0 FNormal = true -> wf_hunk_n h1 ->
  scan strip (hs_at p0 n) [normal_header h1; first_line_n h1] =
  Some (mkHS (normal_patch p0) LKUnknown (S (S n)) false true (mkHunk (oldr h1) (newr h1) []) (S n)).
Proof.
  intros Hf Hw. destruct (first_line_n_shape h1 Hw) as (m & t & rb & E & Hm & _ & _).
  rewrite (scan_inl _ _ _ _ _ (step_ncmd strip p0 n h1 Hf Hw)).
  cbn [scan]. rewrite E, (step_nfirst strip p0 _ _ _ m t Hf Hm). cbn [is_nil].
  destruct p0; reflexivity.
Qed.

Lemma header_patch_normal p0 k first h1 :
  poper p0 = OpChange ->
  header_patch (mkHS (normal_patch p0) LKUnknown k false true (mkHunk (oldr h1) (newr h1) []) first) =
  set_oper (normal_patch p0) (decide_oper_n h1).
Proof.
  intros Hop. unfold header_patch, decide_oper_n. cbn [h_git h_patch h_hunk normal_patch poper newr oldr new_path old_path].
  rewrite Hop. change (str_eqb [] devnull_path) with false. rewrite !orb_false_r.
  destruct (Z.eqb (rstart (newr h1)) 0); [reflexivity|]. destruct (Z.eqb (rstart (oldr h1)) 0); [reflexivity|].
  destruct p0. cbn in Hop. subst. reflexivity.
Qed.

Section NHeader.
Variables (strip : Z) (f : format) (pre : list (list N)) (p0 : patch) (h1 : hunk) (hs : list hunk).
Let st' := mkHS (normal_patch p0) LKUnknown (S (S (length pre))) false true (mkHunk (oldr h1) (newr h1) []) (S (length pre)).

Hypothesis Hlead : leads strip (empty_patch f) pre p0.
Hypothesis Hclean : Forall clean pre.
Hypothesis Hop0 : poper p0 = OpChange.
Hypothesis Hfmt0 : fmt_unknown_or p0 FNormal = true.
Hypothesis Hwf : Forall wf_hunk_n (h1 :: hs).

Lemma scan_whole_n :
  scan strip (st0 (empty_patch f)) (pre ++ [normal_header h1; first_line_n h1]) = Some st'.
Proof.
  inversion Hwf as [|? ? Hw1 _]; subst.
  change (st0 (empty_patch f)) with (hs_at (empty_patch f) 0). rewrite Hlead. rewrite Nat.add_0_r.
  apply scan_core_n; assumption.
Qed.

Lemma header_patch_whole_n : header_patch st' = set_oper (normal_patch p0) (decide_oper_n h1).
Proof. unfold st'. apply header_patch_normal. exact Hop0. Qed.

Theorem normal_header_scan_gen tail :
  parse_patch_header_full (empty_patch f) strip (strm (join_lines pre ++ emit_normal (h1 :: hs) ++ tail)) =
  Ok (true, set_oper (normal_patch p0) (decide_oper_n h1), strm (emit_normal (h1 :: hs) ++ tail), true).
Proof.
  pose proof (header_of_section_n (with_strip strip) f pre h1 hs st' Hclean Hwf scan_whole_n eq_refl eq_refl tail) as X.
  cbn [strip_size with_strip] in X. rewrite app_assoc. rewrite X. rewrite header_patch_whole_n. reflexivity.
Qed.
End NHeader.

Lemma fmt_unknown_or_empty_n f : f = FUnknown \/ f = FNormal -> fmt_unknown_or (empty_patch f) FNormal = true.
Proof. intros [-> | ->]; reflexivity. Qed.

(* a normal diff, as diff writes it, after text that is nothing to the scan (the "diff old new" command line, ...): the scan
   stops on the first "< " / "> " line and goes back to the command line in front of it; no file name is known *)
Theorem normal_header_scan strip f fl h1 hs tail :
  f = FUnknown \/ f = FNormal ->
  Forall (Filler strip (empty_patch f)) fl -> Forall clean fl ->
  Forall wf_hunk_n (h1 :: hs) ->
  parse_patch_header_full (empty_patch f) strip (strm (join_lines fl ++ emit_normal (h1 :: hs) ++ tail)) =
  Ok (true, mkPatch FNormal (decide_oper_n h1) [] [] [] [] [] [] 0 0 [], strm (emit_normal (h1 :: hs) ++ tail), true).
Proof.
  intros Hf HF HC Hwf.
  rewrite (normal_header_scan_gen strip f fl (empty_patch f) h1 hs (leads_fillers _ _ _ HF) HC eq_refl (fmt_unknown_or_empty_n f Hf) Hwf tail).
  reflexivity.
Qed.
Print Assumptions normal_header_scan.

(* the same with an "Index: name" line in front (the name is what the driver falls back on: guess_filepath) *)
Theorem normal_header_scan_index strip f fl ixname ixt fl2 h1 hs tail :
  f = FUnknown \/ f = FNormal ->
  Forall (Filler strip (empty_patch f)) fl -> Forall clean fl ->
  plain_name ixname -> clean (ixname ++ tab_time ixt) ->
  Forall (Filler strip (set_index (empty_patch f) (stripped ixname strip))) fl2 -> Forall clean fl2 ->
  Forall wf_hunk_n (h1 :: hs) ->
  parse_patch_header_full (empty_patch f) strip
    (strm (join_lines (fl ++ [bs "Index: " ++ ixname ++ tab_time ixt] ++ fl2) ++ emit_normal (h1 :: hs) ++ tail)) =
  Ok (true, mkPatch FNormal (decide_oper_n h1) (stripped ixname strip) [] [] [] [] [] 0 0 [], strm (emit_normal (h1 :: hs) ++ tail), true).
Proof.
  intros Hf HF HC Hi Hic HF2 HC2 Hwf.
  assert (L : leads strip (empty_patch f) (fl ++ [bs "Index: " ++ ixname ++ tab_time ixt] ++ fl2) (set_index (empty_patch f) (stripped ixname strip))).
  { apply (leads_app _ _ _ (empty_patch f)); [apply leads_fillers; exact HF|].
    apply (leads_app _ _ _ (set_index (empty_patch f) (stripped ixname strip))); [apply leads_index; exact Hi|apply leads_fillers; exact HF2]. }
  assert (C : Forall clean (fl ++ [bs "Index: " ++ ixname ++ tab_time ixt] ++ fl2)).
  { apply Forall_app. split; [exact HC|]. apply Forall_app. split; [|exact HC2]. constructor; [|constructor].
    destruct Hi as (N1 & _). apply file_line_clean; [vm_compute; intuition discriminate|exact N1|exact Hic]. }
  assert (F : fmt_unknown_or (set_index (empty_patch f) (stripped ixname strip)) FNormal = true) by (destruct Hf as [-> | ->]; reflexivity).
  rewrite (normal_header_scan_gen strip f _ _ h1 hs L C eq_refl F Hwf tail).
  reflexivity.
Qed.
Print Assumptions normal_header_scan_index.

(* C11 for a normal section after lines that lead the scan to the record p0 (text, an "Index:" line): everything about the
   parser is discharged *)
Theorem normal_run_sum_gen o f pre p0 h1 hs' tx st1 sA w w1 :
  format_from_options o = Ok f ->
  leads (strip_size o) (empty_patch f) pre p0 -> Forall clean pre ->
  poper p0 = OpChange -> fmt_unknown_or p0 FNormal = true ->
  Forall wf_hunk_n (h1 :: hs') ->
  let p := set_oper (normal_patch p0) (decide_oper_n h1) in
  let text := join_lines pre ++ emit_normal (h1 :: hs') in
  tail_ok_n tx -> seof (after_n tx) = false ->
  let tx' := rest (after_n tx) in
  process_section o ds0 true p (strm (emit_normal (h1 :: hs'))) w = (Ok (st1, sA), w1) ->
  deferred_writes st1 = [] -> deferred_removals st1 = [] ->
  has_patch o f (stream_of tx') = true ->
  (may_backup o = true -> forall q, In q (targets_met (S (S (length tx'))) o f ds0 (stream_of tx') w1) -> fresh_backup o st1 q) ->
  process_patch o text w = (Ok (exit_of st1, events st1), w1) /\
  process_patch o (text ++ tx) w = map_result (after_run st1) (process_patch o tx') w1.
Proof.
  intros Hfo HL HC Hop0 Hf0 Hwf p text Ht Hne tx' Hps Hdw Hdr Hhp Hb.
  set (st' := mkHS (normal_patch p0) LKUnknown (S (S (length pre))) false true (mkHunk (oldr h1) (newr h1) []) (S (length pre))).
  assert (HP : header_patch st' = p) by (unfold st'; apply header_patch_normal; exact Hop0).
  pose proof (normal_sections_sum o f pre h1 hs' st' Hfo) as X.
  rewrite HP in X. apply (fun a b c d e g h => X a b c d e g h tx st1 sA w w1); try assumption.
  - apply (scan_whole_n (strip_size o) f pre p0 h1 hs'); assumption.
  - reflexivity.
  - reflexivity.
  - reflexivity.
  - unfold p, decide_oper_n. cbn [poper set_oper]. destruct (Z.eqb _ 0); [discriminate|]. destruct (Z.eqb _ 0); discriminate.
Qed.
Print Assumptions normal_run_sum_gen.

Lemma leads_index_fillers strip f fl ixname ixt fl2 :
  Forall (Filler strip (empty_patch f)) fl -> plain_name ixname ->
  Forall (Filler strip (set_index (empty_patch f) (stripped ixname strip))) fl2 ->
  leads strip (empty_patch f) (fl ++ [bs "Index: " ++ ixname ++ tab_time ixt] ++ fl2) (set_index (empty_patch f) (stripped ixname strip)).
Proof.
  intros HF Hi HF2.
  apply (leads_app _ _ _ (empty_patch f)); [apply leads_fillers; exact HF|].
  apply (leads_app _ _ _ (set_index (empty_patch f) (stripped ixname strip))); [apply leads_index; exact Hi|apply leads_fillers; exact HF2].
Qed.

(* the two usual ways a normal diff gets its file: (a) an "Index: name" line in front of it ... *)
Theorem normal_run_sum_index o f fl ixname ixt fl2 h1 hs' tx st1 sA w w1 :
  format_from_options o = Ok f -> f = FUnknown \/ f = FNormal ->
  Forall (Filler (strip_size o) (empty_patch f)) fl -> Forall clean fl ->
  plain_name ixname -> clean (ixname ++ tab_time ixt) ->
  Forall (Filler (strip_size o) (set_index (empty_patch f) (stripped ixname (strip_size o)))) fl2 -> Forall clean fl2 ->
  Forall wf_hunk_n (h1 :: hs') ->
  let p := mkPatch FNormal (decide_oper_n h1) (stripped ixname (strip_size o)) [] [] [] [] [] 0 0 [] in
  let text := join_lines (fl ++ [bs "Index: " ++ ixname ++ tab_time ixt] ++ fl2) ++ emit_normal (h1 :: hs') in
  tail_ok_n tx -> seof (after_n tx) = false ->
  let tx' := rest (after_n tx) in
  process_section o ds0 true p (strm (emit_normal (h1 :: hs'))) w = (Ok (st1, sA), w1) ->
  deferred_writes st1 = [] -> deferred_removals st1 = [] ->
  has_patch o f (stream_of tx') = true ->
  (may_backup o = true -> forall q, In q (targets_met (S (S (length tx'))) o f ds0 (stream_of tx') w1) -> fresh_backup o st1 q) ->
  process_patch o text w = (Ok (exit_of st1, events st1), w1) /\
  process_patch o (text ++ tx) w = map_result (after_run st1) (process_patch o tx') w1.
Proof.
  intros Hfo Hf HF HC Hi Hic HF2 HC2 Hwf p text Ht Hne tx' Hps Hdw Hdr Hhp Hb.
  apply (normal_run_sum_gen o f (fl ++ [bs "Index: " ++ ixname ++ tab_time ixt] ++ fl2)
           (set_index (empty_patch f) (stripped ixname (strip_size o))) h1 hs' tx st1 sA w w1); try assumption.
  - apply leads_index_fillers; assumption.
  - apply Forall_app. split; [exact HC|]. apply Forall_app. split; [|exact HC2]. constructor; [|constructor].
    destruct Hi as (N1 & _). apply file_line_clean; [vm_compute; intuition discriminate|exact N1|exact Hic].
  - reflexivity.
  - destruct Hf as [-> | ->]; reflexivity.
Qed.
Print Assumptions normal_run_sum_index.

(* ... (b) the operand of the command line (file_to_patch o): the patch record names no file at all; process_section takes
   the operand (its hypothesis below is about that run) *)
Theorem normal_run_sum_operand o f fl h1 hs' tx st1 sA w w1 :
  format_from_options o = Ok f -> f = FUnknown \/ f = FNormal ->
  Forall (Filler (strip_size o) (empty_patch f)) fl -> Forall clean fl ->
  Forall wf_hunk_n (h1 :: hs') ->
  let p := mkPatch FNormal (decide_oper_n h1) [] [] [] [] [] [] 0 0 [] in
  let text := join_lines fl ++ emit_normal (h1 :: hs') in
  tail_ok_n tx -> seof (after_n tx) = false ->
  let tx' := rest (after_n tx) in
  process_section o ds0 true p (strm (emit_normal (h1 :: hs'))) w = (Ok (st1, sA), w1) ->
  deferred_writes st1 = [] -> deferred_removals st1 = [] ->
  has_patch o f (stream_of tx') = true ->
  (may_backup o = true -> forall q, In q (targets_met (S (S (length tx'))) o f ds0 (stream_of tx') w1) -> fresh_backup o st1 q) ->
  process_patch o text w = (Ok (exit_of st1, events st1), w1) /\
  process_patch o (text ++ tx) w = map_result (after_run st1) (process_patch o tx') w1.
Proof.
  intros Hfo Hf HF HC Hwf p text Ht Hne tx' Hps Hdw Hdr Hhp Hb.
  apply (normal_run_sum_gen o f fl (empty_patch f) h1 hs' tx st1 sA w w1); try assumption.
  - apply leads_fillers. exact HF.
  - reflexivity.
  - apply fmt_unknown_or_empty_n. exact Hf.
Qed.
Print Assumptions normal_run_sum_operand.

(* ================================================================================================================
   any number of sections, of any formats: the run on the concatenation is the sequence of the runs
   ================================================================================================================ *)
(* the conclusions of unified_sections_sum / context_sections_sum / normal_sections_sum, chained *)
Inductive seq_ok (o : options) : list (list N) -> world -> Prop :=
| SQ_last t w : seq_ok o [t] w
| SQ_cons t t2s st1 w w1 :
    t2s <> [] ->
    process_patch o t w = (Ok (exit_of st1, events st1), w1) ->
    process_patch o (t ++ concat t2s) w = map_result (after_run st1) (process_patch o (concat t2s)) w1 ->
    seq_ok o t2s w1 ->
    seq_ok o (t :: t2s) w.

Theorem seq_sum o ts w : seq_ok o ts w -> process_patch o (concat ts) w = runs o ts w.
Proof.
  intros H. induction H as [t w|t t2s st1 w w1 Hne A B Hrest IH].
  - cbn [concat runs]. rewrite app_nil_r. reflexivity.
  - cbn [concat]. rewrite B. cbn [runs]. destruct t2s as [|t2 r]; [congruence|].
    unfold mbind. rewrite A. unfold map_result. rewrite IH. reflexivity.
Qed.
Print Assumptions seq_sum.

(* ================================================================================================================
   non-vacuity
   ================================================================================================================ *)
Local Open Scope string_scope.
Ltac concrete := vm_compute; intuition (try discriminate; try congruence).

(* ---------- (1) a context diff for f (with -b), then text, a unified section for g, text ---------- *)
Definition exq_fl : list (list N) := [bs "diff -c a/f b/f"].
Definition exq_old := bs "a/f".
Definition exq_new := bs "b/f".
Definition exq_t1 : option (list N) := Some (bs "2020-01-01 00:00:00").
Definition exq_t2 : option (list N) := Some (bs "2020-01-02 00:00:00").
Definition exq_h : hunk := mkHunk (mkRange 1 3) (mkRange 1 3)
  [mkPL Ctx (mkLine (bs "a") LF); mkPL Del (mkLine (bs "b") LF); mkPL Add (mkLine (bs "B") LF); mkPL Ctx (mkLine (bs "c") LF)].
Definition exq_text : list N :=
  join_lines (exq_fl ++ [bs "*** " ++ exq_old ++ tab_time exq_t1; bs "--- " ++ exq_new ++ tab_time exq_t2]) ++ emit_c [exq_h].
Definition exq_w := mkWorld [(bs "f", Reg (bs "a" ++ nlb ++ bs "b" ++ nlb ++ bs "c" ++ nlb) 420); (bs "g", Reg (bs "c" ++ nlb) 420)] 18 [] None [].
Definition exq_p : patch :=
  mkPatch FContext (decide_oper_c exq_h (stripped exq_old (strip_size ex_o)) (stripped exq_new (strip_size ex_o))) [] []
          (stripped exq_old (strip_size ex_o)) (stripped exq_new (strip_size ex_o)) (opt_or (time_read exq_t1) []) (opt_or (time_read exq_t2) []) 0 0 [].
Definition exq_run1 := process_section ex_o ds0 true exq_p (strm (emit_c [exq_h])) exq_w.
Definition exq_st1 : dstate := match fst exq_run1 with Ok y => fst y | Throw _ => ds0 end.
Definition exq_sA : stream := match fst exq_run1 with Ok y => snd y | Throw _ => strm [] end.
Definition exq_w1 : world := snd exq_run1.


Example context_run_sum_nonvacuous :
  process_patch ex_o exq_text exq_w = (Ok (0, events exq_st1), exq_w1) /\
  process_patch ex_o (exq_text ++ ex_t2) exq_w = map_result (after_run exq_st1) (process_patch ex_o ex_t2) exq_w1 /\
  lookup (fs exq_w1) (bs "f") = Some (Reg (bs "a" ++ nlb ++ bs "B" ++ nlb ++ bs "c" ++ nlb) 420) /\
  lookup (fs (snd (process_patch ex_o (exq_text ++ ex_t2) exq_w))) (bs "g") = Some (Reg (bs "d" ++ nlb) 420).
Proof.
  assert (T : targets_met (S (S (length ex_t2))) ex_o FUnknown ds0 (stream_of ex_t2) exq_w1 = [bs "g"]) by (vm_compute; reflexivity).
  destruct (context_run_sum ex_o FUnknown exq_fl exq_old exq_t1 exq_new exq_t2 exq_h [] ex_t2 exq_st1 exq_sA exq_w exq_w1) as [A B].
  - reflexivity.
  - left. reflexivity.
  - repeat constructor; vm_compute; reflexivity.
  - repeat constructor; vm_compute; intuition discriminate.
  - vm_compute. intuition discriminate.
  - vm_compute. intuition discriminate.
  - vm_compute. intuition discriminate.
  - vm_compute. intuition discriminate.
  - constructor; [apply wf_hunk_cb_ok; vm_compute; reflexivity|constructor].
  - apply tail_ok_cb_ok. vm_compute. reflexivity.
  - discriminate.
  - vm_compute. reflexivity.
  - vm_compute. reflexivity.
  - vm_compute. reflexivity.
  - vm_compute. reflexivity.
  - intros _ q Hq. rewrite T in Hq. destruct Hq as [<-|[]]. vm_compute. reflexivity.
  - split; [exact A|]. split; [exact B|]. split; vm_compute; reflexivity.
Qed.

(* ---------- (2) a normal diff for f named by an "Index:" line, an empty line, then the same rest ---------- *)
Definition exn_pre : list (list N) := [bs "Index: f"; bs "diff a/f b/f"].
Definition exn_h : hunk := mk_change 2 2 [mkLine (bs "b") LF] [mkLine (bs "B") LF].
Definition exn_text : list N := join_lines exn_pre ++ emit_normal [exn_h].
Definition exn_p0 : patch := set_index (empty_patch FUnknown) (bs "f").
Definition exn_p : patch := set_oper (normal_patch exn_p0) (decide_oper_n exn_h).
Definition exn_w := mkWorld [(bs "f", Reg (bs "a" ++ nlb ++ bs "b" ++ nlb ++ bs "c" ++ nlb) 420); (bs "g", Reg (bs "c" ++ nlb) 420)] 18 [] None [].
Definition exn_run1 := process_section ex_o ds0 true exn_p (strm (emit_normal [exn_h])) exn_w.
Definition exn_st1 : dstate := match fst exn_run1 with Ok y => fst y | Throw _ => ds0 end.
Definition exn_sA : stream := match fst exn_run1 with Ok y => snd y | Throw _ => strm [] end.
Definition exn_w1 : world := snd exn_run1.
(* what follows starts with an empty line, which the reader of the normal diff consumes *)
Definition exn_t2 : list N := nlb ++ ex_t2.


Example normal_run_sum_nonvacuous :
  exn_text = bs "Index: f" ++ nlb ++ bs "diff a/f b/f" ++ nlb ++ bs "2c2" ++ nlb ++ bs "< b" ++ nlb ++ bs "---" ++ nlb ++ bs "> B" ++ nlb /\
  rest (after_n exn_t2) = ex_t2 /\
  process_patch ex_o exn_text exn_w = (Ok (0, events exn_st1), exn_w1) /\
  process_patch ex_o (exn_text ++ exn_t2) exn_w = map_result (after_run exn_st1) (process_patch ex_o ex_t2) exn_w1 /\
  lookup (fs exn_w1) (bs "f") = Some (Reg (bs "a" ++ nlb ++ bs "B" ++ nlb ++ bs "c" ++ nlb) 420) /\
  lookup (fs (snd (process_patch ex_o (exn_text ++ exn_t2) exn_w))) (bs "g") = Some (Reg (bs "d" ++ nlb) 420).
Proof.
  split; [vm_compute; reflexivity|]. split; [vm_compute; reflexivity|].
  assert (R : rest (after_n exn_t2) = ex_t2) by (vm_compute; reflexivity).
  assert (T : targets_met (S (S (length ex_t2))) ex_o FUnknown ds0 (stream_of ex_t2) exn_w1 = [bs "g"]) by (vm_compute; reflexivity).
  destruct (normal_run_sum_gen ex_o FUnknown exn_pre exn_p0 exn_h [] exn_t2 exn_st1 exn_sA exn_w exn_w1) as [A B].
  - reflexivity.
  - apply (leads_index_fillers (strip_size ex_o) FUnknown [] (bs "f") None [bs "diff a/f b/f"]).
    + constructor.
    + concrete.
    + repeat constructor; vm_compute; reflexivity.
  - repeat constructor; concrete.
  - reflexivity.
  - reflexivity.
  - constructor; [concrete|constructor].
  - concrete.
  - vm_compute. reflexivity.
  - vm_compute. reflexivity.
  - vm_compute. reflexivity.
  - vm_compute. reflexivity.
  - rewrite R. vm_compute. reflexivity.
  - rewrite R. intros _ q Hq. rewrite T in Hq. destruct Hq as [<-|[]]. vm_compute. reflexivity.
  - rewrite R in B. split; [exact A|]. split; [exact B|]. split; vm_compute; reflexivity.
Qed.

(* the file named by the operand: patch f < diff; two normal diffs for it, text between them *)
Definition exo_o : options :=
  mkOptions false false [] [] false [] false false false [] (-1) 2 false (bs "f") [] false false false false false false false false
            OBUnset OBUnset MNative RFDefault ROWarn QSUnset [] [].
Definition exo_fl : list (list N) := [bs "diff old new"].
Definition exo_text : list N := join_lines exo_fl ++ emit_normal [exn_h].
Definition exo_p : patch := set_oper (normal_patch (empty_patch FUnknown)) (decide_oper_n exn_h).
Definition exo_run1 := process_section exo_o ds0 true exo_p (strm (emit_normal [exn_h])) exn_w.
Definition exo_st1 : dstate := match fst exo_run1 with Ok y => fst y | Throw _ => ds0 end.
Definition exo_sA : stream := match fst exo_run1 with Ok y => snd y | Throw _ => strm [] end.
Definition exo_w1 : world := snd exo_run1.
Definition exo_t2 : list N := bs "and now the first line:" ++ nlb ++ bs "1c1" ++ nlb ++ bs "< a" ++ nlb ++ bs "---" ++ nlb ++ bs "> A" ++ nlb.

Example normal_operand_nonvacuous :
  process_patch exo_o (exo_text ++ exo_t2) exn_w = map_result (after_run exo_st1) (process_patch exo_o exo_t2) exo_w1 /\
  lookup (fs exo_w1) (bs "f") = Some (Reg (bs "a" ++ nlb ++ bs "B" ++ nlb ++ bs "c" ++ nlb) 420) /\
  lookup (fs (snd (process_patch exo_o (exo_text ++ exo_t2) exn_w))) (bs "f") = Some (Reg (bs "A" ++ nlb ++ bs "B" ++ nlb ++ bs "c" ++ nlb) 420).
Proof.
  assert (R : rest (after_n exo_t2) = exo_t2) by (vm_compute; reflexivity).
  destruct (normal_run_sum_gen exo_o FUnknown exo_fl (empty_patch FUnknown) exn_h [] exo_t2 exo_st1 exo_sA exn_w exo_w1) as [A B].
  - reflexivity.
  - apply leads_fillers. repeat constructor; vm_compute; reflexivity.
  - repeat constructor; concrete.
  - reflexivity.
  - reflexivity.
  - constructor; [concrete|constructor].
  - concrete.
  - vm_compute. reflexivity.
  - vm_compute. reflexivity.
  - vm_compute. reflexivity.
  - vm_compute. reflexivity.
  - rewrite R. vm_compute. reflexivity.
  - intros Hm. vm_compute in Hm. discriminate Hm.
  - rewrite R in B. split; [exact B|]. split; vm_compute; reflexivity.
Qed.

(* ---------- sections of different formats in one patch: context, then (text and) unified ---------- *)
Example seq_sum_nonvacuous :
  process_patch ex_o (exq_text ++ ex_t2) exq_w = runs ex_o [exq_text; ex_t2] exq_w /\
  match fst (process_patch ex_o (exq_text ++ ex_t2) exq_w) with Ok (c, _) => c = 0 | Throw _ => False end.
Proof.
  split; [|vm_compute; reflexivity].
  destruct context_run_sum_nonvacuous as (A & B & _).
  assert (E : exq_text ++ ex_t2 = concat [exq_text; ex_t2]) by (cbn [concat]; rewrite app_nil_r; reflexivity).
  rewrite E. apply seq_sum. apply (SQ_cons ex_o exq_text [ex_t2] exq_st1 exq_w exq_w1).
  - discriminate.
  - exact A.
  - cbn [concat]. rewrite app_nil_r. exact B.
  - apply SQ_last.
Qed.

(* ---------- (3) a context diff whose hunk does not fit the file ---------- *)
(* the patch as the parser delivers it *)
Definition ex4_p : patch := match parse_patch exq_text FUnknown (-1) with Ok p => p | Throw _ => empty_patch FUnknown end.
Definition ex4_lines : list line := [mkLine (bs "x") LF; mkLine (bs "y") LF].
(* -f, context rejects *)
Definition ex4_o : options :=
  mkOptions false false [] [] false [] false false false [] (-1) 2 false [] [] true false false false false false false false
            OBUnset OBUnset MNative RFContext ROWarn QSUnset [] [].

Example parsed_context_never_fatal_nonvacuous :
  parse_patch exq_text FUnknown (-1) = Ok ex4_p /\ pfmt ex4_p = FContext /\ length (hunks ex4_p) = 1 /\
  should_write_as_unified ex4_o ex4_p = false /\
  Forall ctx_writable (hunks ex4_p) /\ Forall hunk_counts_ok (hunks ex4_p) /\
  (exists r, apply_patch ex4_o ex4_lines ex4_p = Ok r) /\
  match apply_patch ex4_o ex4_lines ex4_p with Ok r => r_failed r = 1 /\ r_out r = ex4_lines | Throw _ => False end.
Proof.
  assert (E : parse_patch exq_text FUnknown (-1) = Ok ex4_p) by (vm_compute; reflexivity).
  split; [exact E|]. split; [vm_compute; reflexivity|]. split; [vm_compute; reflexivity|]. split; [vm_compute; reflexivity|].
  split; [exact (parse_patch_ctx_writable _ _ _ _ E)|]. split; [exact (parse_patch_counts_ok _ _ _ _ E)|].
  split; [|vm_compute; split; reflexivity].
  apply (parsed_never_fatal ex4_o ex4_lines _ _ _ _ E).
  apply never_asks_no_question. left. reflexivity.
Qed.

(* through the driver: the run on that patch, in a world where f holds other lines, ends with exit status 1 and a reject
   file in context form; no exception *)
Definition ex4_w := mkWorld [(bs "f", Reg (bs "x" ++ nlb ++ bs "y" ++ nlb) 420)] 18 [] None [].
Example context_reject_not_fatal :
  match process_patch ex4_o exq_text ex4_w with
  | (Ok (c, _), w') => c = 1 /\ lookup (fs w') (bs "f.rej") <> None /\ lookup (fs w') (bs "f") = Some (Reg (bs "x" ++ nlb ++ bs "y" ++ nlb) 420)
  | (Throw _, _) => False
  end.
Proof. vm_compute. split; [reflexivity|]. split; [discriminate|reflexivity]. Qed.

(* a run that does end with an exception under -c: the cause the theorem yields is a benign one *)
Definition ex4_oc : options :=
  mkOptions false true [] [] false [] false false false [] (-1) 2 false [] [] true false false false false false false false
            OBUnset OBUnset MNative RFContext ROWarn QSUnset [] [].
Example any_run_hunk_failure_never_fatal_nonvacuous :
  (let! b := patch_file_bytes ex4_oc (bs "no patch here" ++ nlb) in process_patch ex4_oc b) ex4_w = (Throw EInvalidArgument, ex4_w) /\
  exists c, benign_cause ex4_oc c /\ explains ex4_oc c EInvalidArgument ex4_w.
Proof.
  assert (E : (let! b := patch_file_bytes ex4_oc (bs "no patch here" ++ nlb) in process_patch ex4_oc b) ex4_w = (Throw EInvalidArgument, ex4_w))
    by (vm_compute; reflexivity).
  split; [exact E|]. exact (any_run_hunk_failure_never_fatal _ _ _ _ _ E).
Qed.
