(* Proofs_PredictRun.v — C15 at the level of the run: --dry-run predicts the exit status and the report of the real run,
   for a patch that consists of one section followed by text that ends the stream. *)
From PatchV Require Import Base Lines Hunk Locator Formatter Options Applier LineParser Parser World Driver
     Proofs_Base Proofs_Fuel Proofs_Progress Proofs_Driver Proofs_Predict Proofs_Sections.

(* ---------- the options of the dry run are those of the real run but for the flag ---------- *)
Lemma set_dry_dry o : dry_run (set_dry o) = true. Proof. reflexivity. Qed.
Lemma format_from_options_dry o : format_from_options (set_dry o) = format_from_options o. Proof. reflexivity. Qed.
Lemma strip_size_dry o : strip_size (set_dry o) = strip_size o. Proof. reflexivity. Qed.
Lemma ends_here_dry o f s : ends_here (set_dry o) f s = ends_here o f s. Proof. reflexivity. Qed.

Lemma Post_weaken' {A} (m : M A) (G H : A -> Prop) : Post m G -> (forall x, G x -> H x) -> Post m H.
Proof. intros P I w x w' E. apply I. eapply P. exact E. Qed.

(* ---------- the writes at the end of the real run report nothing ---------- *)
Lemma Post_write_now_seen o st d : Post (write_now o st d) (fun st' => seen st' = seen st).
Proof.
  unfold write_now.
  eapply Post_bind with (Q := fun st1 => seen st1 = seen st).
  - destruct (d_backup d); [|apply Post_ret; reflexivity].
    unfold make_backup_for. destruct (existsb _ _); [apply Post_ret; reflexivity|].
    eapply Post_bind; [apply Post_true|intros _ _]. unfold backup_core.
    eapply Post_bind; [apply Post_true|intros m _].
    destruct (exists_ m (d_dest d)); (eapply Post_bind; [apply Post_true|intros _ _]); apply Post_ret; reflexivity.
  - intros st1 H1.
    eapply Post_bind; [apply Post_true|intros m _].
    eapply Post_bind; [apply Post_true|intros _ _].
    eapply Post_bind; [apply Post_true|intros _ _].
    eapply Post_bind; [apply Post_true|intros _ _].
    apply Post_ret. exact H1.
Qed.

Lemma Post_finalize_writes_from_seen o all : forall ds st,
  Post (finalize_writes_from o all st ds) (fun st' => seen st' = seen st).
Proof.
  induction ds as [|d r IH]; intros st; cbn [finalize_writes_from]; [apply Post_ret; reflexivity|].
  eapply Post_bind; [apply Post_true|intros _ _].
  eapply Post_bind; [apply Post_write_now_seen|intros st1 H1].
  eapply Post_weaken'; [apply IH|]. intros st2 H2. cbv beta in *. congruence.
Qed.

(* what the run returns after the loop, when it returns, is what the state of the loop shows *)
Lemma finish_seen o st w code ev w' :
  finish o st w = (Ok (code, ev), w') -> code = exit_of st /\ ev = events st.
Proof.
  revert w code ev w'.
  assert (P : Post (finish o st) (fun r => fst r = exit_of st /\ snd r = events st)).
  { unfold finish, finalize_writes.
    eapply Post_bind; [apply Post_finalize_writes_from_seen|intros st1 H1]. cbv beta in H1.
    eapply Post_bind; [apply Post_true|intros _ _].
    apply Post_ret. cbn [fst snd]. unfold seen in H1. inversion H1 as [[Hf Hev]]. unfold exit_of. rewrite Hf, Hev. split; reflexivity. }
  intros w code ev w' E. apply (P w (code, ev) w' E).
Qed.

(* a state with nothing deferred: the end of the run is immediate *)
Lemma finish_dry_state o st w :
  deferred_writes st = [] -> deferred_removals st = [] -> finish o st w = (Ok (exit_of st, events st), w).
Proof. intros H1 H2. rewrite (finish_nothing o st H1 H2). reflexivity. Qed.

(* the dry section defers nothing *)
Lemma dry_section_defers_nothing o st should p s w st_d s_d w_d :
  dry_run o = true ->
  process_section o st should p s w = (Ok (st_d, s_d), w_d) ->
  deferred_writes st_d = deferred_writes st /\ deferred_removals st_d = deferred_removals st.
Proof.
  intros Hd E. destruct (RO_process_section o Hd st should p s w) as (_ & _ & _ & Q).
  rewrite E in Q. cbn [fst] in Q. exact Q.
Qed.

Lemma exit_of_seen a b : seen a = seen b -> exit_of a = exit_of b /\ events a = events b.
Proof. unfold seen, exit_of. intros H. inversion H as [[Hf Hev]]. rewrite Hf. split; reflexivity. Qed.

(* the loop on a stream that starts with a section that is processed normally and is followed by nothing *)
Lemma section_loop_single o f k st s first should p s1 found st1 s2 w w1 :
  seof s = false ->
  parse_patch_header_full (empty_patch f) (strip_size o) s = Ok (should, p, s1, found) ->
  (if negb found && should then FUnknown else pfmt p) <> FUnknown ->
  poper p <> OpBinary ->
  process_section o st should p s1 w = (Ok (st1, s2), w1) ->
  ends_here o f s2 = true ->
  section_loop (S (S k)) o f st s first w = (Ok st1, w1).
Proof.
  intros He Hh Hf Hop Hps Hend. cbn [section_loop]. rewrite He. rewrite bind_lift, Hh.
  assert (E : (let! y := process_section o st should p s1 in section_loop (S k) o f (fst y) (snd y) false) w = (Ok st1, w1)).
  { unfold mbind. rewrite Hps. cbn [fst snd]. apply section_loop_ends. exact Hend. }
  destruct (if negb found && should then FUnknown else pfmt p); try congruence; destruct (poper p); try congruence; exact E.
Qed.

(* ---------- one section, then the end ---------- *)
(* The patch t starts with a section (its header parses under the format f the options select, it announces a known format
   and is not a binary patch); the real run processes this section normally, and what is left of the patch after it ends
   the run (ends_here: end of the text, or nothing that looks like a patch).  Then, whenever the real run returns an exit
   status and a report, the dry run from the same world returns the same exit status and the same report (the events: per
   hunk lines and summaries). *)
Theorem dry_run_predicts_single o f t should p s1 found st_r s2 w w_r code ev w' :
  format_from_options o = Ok f ->
  parse_patch_header_full (empty_patch f) (strip_size o) (stream_of t) = Ok (should, p, s1, found) ->
  (if negb found && should then FUnknown else pfmt p) <> FUnknown ->
  poper p <> OpBinary ->
  process_section o ds0 should p s1 w = (Ok (st_r, s2), w_r) ->
  ends_here o f s2 = true ->
  process_patch o t w = (Ok (code, ev), w') ->
  exists w'', process_patch (set_dry o) t w = (Ok (code, ev), w'') /\
              fs w'' = fs w /\ only_reads (trace w) (trace w'') /\
              code = exit_of st_r /\ ev = events st_r.
Proof.
  intros Hfo Hh Hf Hop Hps Hend Hreal.
  (* the real run *)
  rewrite process_patch_unfold, bind_lift, Hfo in Hreal. unfold mbind in Hreal.
  rewrite (section_loop_single o f (length t) ds0 (stream_of t) true should p s1 found st_r s2 w w_r eq_refl Hh Hf Hop Hps Hend) in Hreal.
  destruct (finish_seen o st_r w_r code ev w' Hreal) as [Hc Hev].
  (* the dry run *)
  destruct (dry_run_predicts o ds0 should p s1 w st_r s2 w_r Hps) as (st_d & w_d & Hpd & Hseen).
  destruct (dry_section_defers_nothing (set_dry o) ds0 should p s1 w st_d s2 w_d (set_dry_dry o) Hpd) as [Hdw Hdr].
  cbn [ds0 deferred_writes deferred_removals] in Hdw, Hdr.
  destruct (exit_of_seen st_d st_r Hseen) as [Hx Hevd].
  assert (Hdry : process_patch (set_dry o) t w = (Ok (code, ev), w_d)).
  { rewrite process_patch_unfold, bind_lift, format_from_options_dry, Hfo. unfold mbind.
    rewrite (section_loop_single (set_dry o) f (length t) ds0 (stream_of t) true should p s1 found st_d s2 w w_d eq_refl Hh Hf Hop Hpd Hend).
    rewrite (finish_dry_state (set_dry o) st_d w_d Hdw Hdr). rewrite Hx, Hevd, Hc, Hev. reflexivity. }
  exists w_d. split; [exact Hdry|].
  destruct (RO_process_patch (set_dry o) (set_dry_dry o) t w) as (F & _ & T & _). rewrite Hdry in F, T. cbn [snd] in F, T.
  repeat split; assumption.
Qed.
Print Assumptions dry_run_predicts_single.

(* ---------- the same at the level of run_patch ---------- *)
Lemma patch_file_bytes_dry o stdin : patch_file_bytes (set_dry o) stdin = patch_file_bytes o stdin.
Proof. reflexivity. Qed.

(* t is the patch text as the run reads it (standard input, or the file named by -i), w0 the world after that reading.
   When the real run ends with an exit status (0 or 1) and a report, the dry run ends with the same exit status and the same
   report, in a world with the tree of w. *)
Theorem dry_run_predicts_run_single o f stdin w t w0 should p s1 found st_r s2 w_r code ev w' :
  patch_file_bytes o stdin w = (Ok t, w0) ->
  format_from_options o = Ok f ->
  parse_patch_header_full (empty_patch f) (strip_size o) (stream_of t) = Ok (should, p, s1, found) ->
  (if negb found && should then FUnknown else pfmt p) <> FUnknown ->
  poper p <> OpBinary ->
  process_section o ds0 should p s1 w0 = (Ok (st_r, s2), w_r) ->
  ends_here o f s2 = true ->
  process_patch o t w0 = (Ok (code, ev), w') ->
  run_patch o stdin w = mkRR code ev w' /\
  exists w'', run_patch (set_dry o) stdin w = mkRR code ev w'' /\ fs w'' = fs w /\
              code = exit_of st_r /\ ev = events st_r.
Proof.
  intros Hb Hfo Hh Hf Hop Hps Hend Hreal.
  destruct (dry_run_predicts_single o f t should p s1 found st_r s2 w0 w_r code ev w' Hfo Hh Hf Hop Hps Hend Hreal)
    as (w'' & Hdry & _ & _ & Hc & Hev).
  split.
  - unfold run_patch, mbind. rewrite Hb, Hreal. reflexivity.
  - exists w''.
    assert (R : run_patch (set_dry o) stdin w = mkRR code ev w'').
    { unfold run_patch, mbind. rewrite patch_file_bytes_dry, Hb, Hdry. reflexivity. }
    split; [exact R|]. split; [|split; assumption].
    destruct (dry_run_pure (set_dry o) (set_dry_dry o) stdin w) as [F _]. rewrite R in F. exact F.
Qed.
Print Assumptions dry_run_predicts_run_single.

(* ---------- example: a unified diff of two hunks, the second of which fails ---------- *)
Local Open Scope string_scope.
Definition pr_opts (dry : bool) :=
  mkOptions false false [] [] false (bs "p.diff") false false false [] (-1) 2 false [] [] false false false false false false dry false OBUnset OBUnset MNative RFDefault ROWarn QSUnset [] [].
Definition pr_nl : list N := [10%N].
Definition pr_patch :=
  bs "--- f" ++ pr_nl ++ bs "+++ f" ++ pr_nl ++
  bs "@@ -1 +1 @@" ++ pr_nl ++ bs "-a" ++ pr_nl ++ bs "+b" ++ pr_nl ++
  bs "@@ -3 +3 @@" ++ pr_nl ++ bs "-x" ++ pr_nl ++ bs "+y" ++ pr_nl.
Definition pr_file := bs "a" ++ pr_nl ++ bs "m" ++ pr_nl ++ bs "c" ++ pr_nl.
Definition pr_world := mkWorld [(bs "f", Reg pr_file 420); (bs "p.diff", Reg pr_patch 420)] 18 [] None [].

Lemma pr_opts_dry : set_dry (pr_opts false) = pr_opts true. Proof. reflexivity. Qed.


(* the hypotheses of the theorem hold on this instance (the section is found, processed normally by the real run, and
   followed by the end of the patch), so the theorem predicts: both runs end with exit status 1 and the same report *)
Example pr_predicted :
  exists st_r ev w',
    run_patch (pr_opts false) [] pr_world = mkRR 1 ev w' /\
    exists w'', run_patch (set_dry (pr_opts false)) [] pr_world = mkRR 1 ev w'' /\ fs w'' = fs pr_world /\
                1 = exit_of st_r /\ ev = events st_r.
Proof.
  eexists _, _, _.
  eapply (dry_run_predicts_run_single (pr_opts false) _ [] pr_world pr_patch).
  - vm_compute; reflexivity.
  - vm_compute; reflexivity.
  - vm_compute; reflexivity.
  - vm_compute; discriminate.
  - vm_compute; discriminate.
  - vm_compute; reflexivity.
  - vm_compute; reflexivity.
  - vm_compute; reflexivity.
Qed.

(* cross-check by computation: the exit status is 1 in both runs, the reports are equal, the real run has changed the first
   line of f and left a reject file, the dry run has left the tree as it was *)
Example pr_cross_check :
  rr_exit (run_patch (pr_opts false) [] pr_world) = 1 /\
  rr_exit (run_patch (pr_opts true) [] pr_world) = 1 /\
  rr_events (run_patch (pr_opts true) [] pr_world) = rr_events (run_patch (pr_opts false) [] pr_world) /\
  rr_events (run_patch (pr_opts false) [] pr_world) <> [] /\
  lookup (fs (rr_world (run_patch (pr_opts false) [] pr_world))) (bs "f") = Some (Reg (bs "b" ++ pr_nl ++ bs "m" ++ pr_nl ++ bs "c" ++ pr_nl) 420) /\
  lookup (fs (rr_world (run_patch (pr_opts false) [] pr_world))) (bs "f.rej") <> None /\
  fs (rr_world (run_patch (pr_opts true) [] pr_world)) = fs pr_world.
Proof. vm_compute. repeat split; try reflexivity; discriminate. Qed.
