(* Proofs_StatusDriver.v — C04 at driver level, parts 2 and 3: the reject file is written exactly when some hunk failed, the exit
   status tells the truth, and an exception (exit status 2) has one of a short list of causes. *)
From PatchV Require Import Base Lines Hunk Locator Formatter Options Applier LineParser Parser World Driver
     Proofs_Base Proofs_World Proofs_Crash Proofs_Progress Proofs_Predict Proofs_Touch Proofs_Driver Proofs_Status.

(* ---------- a section, piece by piece (all pure functions of the option record, the driver state and the tree) ---------- *)
Definition sec_ftp (o : options) (st : dstate) (p : patch) (m : fsmap) : list N :=
  if is_nil (file_to_patch o) then guess_filepath m (map d_dest (deferred_writes st)) p o else file_to_patch o.

Definition sec_out (o : options) (st : dstate) (p : patch) (m : fsmap) : list N := output_path o p (sec_ftp o st p m).

(* refuse_to_patch: the target exists and is not a regular file, or is read-only under --read-only=fail *)
Definition sec_refused (o : options) (st : dstate) (p : patch) (m : fsmap) : bool :=
  (exists_ m (sec_ftp o st p m) && negb (is_regular_file m (sec_ftp o st p m))) ||
  (N.eqb (N.land (effective_perms st m (sec_out o st p m)) write_mask) 0 && match read_only o with ROFail => true | _ => false end).

(* the lines the hunks are applied to *)
Definition sec_lines (st : dstate) (m : fsmap) (ftp outf : list N) : list line :=
  match pending_content st m ftp outf with
  | Some data => split_lines data
  | None => match stat m ftp with Some (Reg d _) => split_lines d | _ => [] end
  end.

Definition sec_patch (p : patch) (ftp outf : list N) : patch :=
  match poper p with
  | OpRename => if str_eqb ftp outf then set_oper p OpChange else p
  | _ => p
  end.

Definition sec_body (should : bool) (p : patch) (s : stream) : res (patch * stream) :=
  if should then parse_patch_body p s else Ok (p, s).

Lemma body_if_lift should p s : body_if should p s = mlift (sec_body should p s).
Proof. unfold body_if, sec_body. destruct should; reflexivity. Qed.

(* the result of apply_patch in a section that is not refused *)
Definition sec_apply (o : options) (st : dstate) (should : bool) (p : patch) (s : stream) (m : fsmap) : res aresult :=
  let ftp := sec_ftp o st p m in
  let outf := sec_out o st p m in
  do ps <- sec_body should (sec_patch p ftp outf) s;
  apply_patch o (sec_lines st m ftp outf) (fst ps).

Definition sec_perms1 (o : options) (st : dstate) (p : patch) (m : fsmap) : N :=
  let old_perms := effective_perms st m (sec_out o st p m) in
  if N.eqb old_perms perms_unknown && match poper p with OpRename | OpCopy => true | _ => false end
  then get_permissions m (sec_ftp o st p m) else old_perms.

(* ---------- reading ---------- *)
Lemma perform_read_spec q w :
  exists r w1, perform (OOpenRead q) w = (Ok r, w1) /\ fs w1 = fs w /\ trace w1 = trace w ++ [OOpenRead q] /\
               (r = Some ENOENT -> stat (fs w) q = None).
Proof.
  unfold perform. destruct (fault w) as [[|k]|].
  - eexists. eexists. split; [reflexivity|]. cbn. repeat split; auto. discriminate.
  - cbn [exec_op]. destruct (stat (fs w) q) as [[d mode|mode|t|mode]|]; try destruct (owner_r mode);
      (eexists; eexists; split; [reflexivity|]; cbn; repeat split; auto; discriminate).
  - cbn [exec_op]. destruct (stat (fs w) q) as [[d mode|mode|t|mode]|]; try destruct (owner_r mode);
      (eexists; eexists; split; [reflexivity|]; cbn; repeat split; auto; discriminate).
Qed.

(* ---------- what a section that ends normally has done ---------- *)
Definition reads_only (ext : list sysop) : Prop := Forall (fun op => is_mutating op = false) ext.

Lemma process_section_ok_inv o st should p s w y w' :
  process_section o st should p s w = (Ok y, w') ->
  let m := fs w in
  let ftp := sec_ftp o st p m in
  let outf := sec_out o st p m in
  ftp <> [] /\
  if sec_refused o st p m then
    exists ps, sec_body should p s = Ok ps /\ refuse_to_patch o st outf (fst ps) w = (Ok (fst y), w') /\ snd y = snd ps
  else
    exists ps ar w3 ext0,
      sec_body should (sec_patch p ftp outf) s = Ok ps /\
      apply_patch o (sec_lines st m ftp outf) (fst ps) = Ok ar /\
      sec_apply o st should p s m = Ok ar /\
      fs w3 = fs w /\ trace w3 = trace w ++ ext0 /\ reads_only ext0 /\
      section_tail o st ftp outf (effective_perms st m outf) (sec_perms1 o st p m)
                   (N.eqb (N.land (effective_perms st m outf) write_mask) 0) ar (snd ps) w3 = (Ok y, w').
Proof.
  intros H. cbv zeta. unfold process_section in H. rewrite mbind_eq in H. cbn [get_fs] in H.
  unfold sec_refused, sec_apply, sec_perms1, sec_out.
  fold (sec_ftp o st p (fs w)) in H. set (ftp := sec_ftp o st p (fs w)) in *.
  destruct (is_nil ftp) eqn:Nil; [discriminate|].
  split; [intros E; rewrite E in Nil; discriminate|].
  set (outf := output_path o p ftp) in *.
  assert (Refuse : (let! ps := body_if should p s in let! st' := refuse_to_patch o st outf (fst ps) in mret (st', snd ps)) w = (Ok y, w') ->
     exists ps, sec_body should p s = Ok ps /\ refuse_to_patch o st outf (fst ps) w = (Ok (fst y), w') /\ snd y = snd ps).
  { intros HR. rewrite mbind_eq in HR. rewrite body_if_lift in HR. unfold mlift in HR.
    destruct (sec_body should p s) as [ps|e]; [|discriminate]. exists ps. split; [reflexivity|].
    rewrite mbind_eq in HR. destruct (refuse_to_patch o st outf (fst ps) w) as [[st'|e] w2]; [|discriminate].
    cbn [mret] in HR. inversion HR. subst. cbn [fst snd]. auto. }
  destruct (exists_ (fs w) ftp && negb (is_regular_file (fs w) ftp)); cbn [orb]; [apply Refuse; exact H|].
  destruct (N.eqb (N.land (effective_perms st (fs w) outf) write_mask) 0 && match read_only o with ROFail => true | _ => false end);
    [apply Refuse; exact H|].
  clear Refuse.
  rewrite mbind_eq in H.
  (* the read *)
  assert (Rd : forall r0 w1,
     (match pending_content st (fs w) ftp outf with
      | Some data => mret (split_lines data)
      | None => let! r := perform (OOpenRead ftp) in
                match r with
                | None => match stat (fs w) ftp with Some (Reg d _) => mret (split_lines d) | _ => mthrow ESystem end
                | Some ENOENT => if is_adding_file p o then mret [] else mthrow ESystem
                | Some _ => mthrow ESystem
                end
      end) w = (Ok r0, w1) ->
     r0 = sec_lines st (fs w) ftp outf /\ fs w1 = fs w /\ exists ext0, trace w1 = trace w ++ ext0 /\ reads_only ext0).
  { intros r0 w1. unfold sec_lines. destruct (pending_content st (fs w) ftp outf) as [data|].
    - intros [= <- <-]. repeat split; auto. exists []. rewrite app_nil_r. split; [reflexivity|constructor].
    - rewrite mbind_eq. destruct (perform_read_spec ftp w) as (r & w2 & -> & F2 & T2 & E2).
      assert (X : exists ext0, trace w2 = trace w ++ ext0 /\ reads_only ext0) by (exists [OOpenRead ftp]; split; [exact T2|repeat constructor]).
      destruct r as [e|].
      + destruct e; try discriminate. rewrite (E2 eq_refl). destruct (is_adding_file p o); [|discriminate].
        intros [= <- <-]. auto.
      + destruct (stat (fs w) ftp) as [[d mode|mode|t|mode]|]; try discriminate. intros [= <- <-]. auto. }
  match type of H with (match ?X with _ => _ end) = _ => destruct X as [[input_lines|e] w1] eqn:R; [|discriminate] end.
  destruct (Rd _ _ eq_refl) as (-> & F1 & ext0 & T1 & RO1). clear Rd R.
  rewrite mbind_eq in H.
  match type of H with (match ?X with _ => _ end) = _ => destruct X as [[[]|e] w2] eqn:PR; [|discriminate] end.
  assert (w2 = w1).
  { revert PR. destruct (negb (is_nil (prereq p)) && negb (has_prerequisite _ (prereq p))); [|cbv; intros [= <-]; reflexivity]. destruct (batch o); [discriminate|]. destruct (force o); [cbv; intros [= <-]; reflexivity|discriminate]. }
  subst w2. clear PR.
  rewrite mbind_eq in H. rewrite body_if_lift in H. unfold mlift at 1 in H.
  fold (sec_patch p ftp outf) in H.
  destruct (sec_body should (sec_patch p ftp outf) s) as [[p2 s2]|e] eqn:B; [|discriminate].
  rewrite mbind_eq in H. unfold mlift in H.
  destruct (apply_patch o (sec_lines st (fs w) ftp outf) p2) as [ar|e] eqn:A; [|discriminate].
  exists (p2, s2), ar, w1, ext0. cbn [fst snd rbind]. repeat split; auto.
Qed.

(* ---------- (2) the reject file ---------- *)
(* an operation that is not the writing of the file rp *)
Definition not_rej (rp : list N) (op : sysop) : Prop := forall data, op <> OWrite rp data.

Lemma TP_ensure_nr rp q : TP (not_rej rp) (ensure_parent_directories q).
Proof. eapply TP_weaken; [apply TP_ensure|]. intros op (d & -> & _) data. discriminate. Qed.

Lemma TP_remove_nr rp q : TP (not_rej rp) (remove_file_and_empty_parent_folders q).
Proof. eapply TP_weaken; [apply TP_remove|]. intros op [->|(d & -> & _)] data; discriminate. Qed.

Lemma not_rej_other rp q data : q <> rp -> not_rej rp (OWrite q data).
Proof. intros H d [= E _]. contradiction. Qed.

Lemma TP_backup_nr o st q rp : backup_name o q <> rp -> TP (not_rej rp) (make_backup_for o st q).
Proof.
  intros Hb. unfold make_backup_for, backup_core. pose proof (TP_ensure_nr rp (backup_name o q)).
  tp; try (intros data; discriminate). apply not_rej_other. exact Hb.
Qed.

Lemma TP_write_now_nr o st d rp : d_dest d <> rp -> backup_name o (d_dest d) <> rp -> TP (not_rej rp) (write_now o st d).
Proof.
  intros Hd Hb. unfold write_now. pose proof (TP_backup_nr o st (d_dest d) rp Hb).
  tp; try (intros data; discriminate). apply not_rej_other. exact Hd.
Qed.

(* the first step of section_tail *)
Definition tail_rejects (o : options) (st : dstate) (outf : list N) (ar : aresult) : M dstate :=
  let st1 := add_event st (r_msgs ar) in
  if negb (Nat.eqb (r_failed ar) 0) then
    let st' := set_failure (add_event st1 (inform_hunks_failed (if r_skipped ar then bs "ignored" else bs "FAILED")
                                                               (length (hunks (r_patch ar))) (r_failed ar) ++ [10%N])) in
    if dry_run o then mret st'
    else let! _ := ensure_parent_directories (reject_path o outf) in
         let! _ := checked (OWrite (reject_path o outf) (r_rej ar)) in mret st'
  else mret st1.

Lemma tail_shape o st ftp outf op op1 needed ar s2 :
  reject_path o outf <> outf -> backup_name o outf <> reject_path o outf ->
  exists K, section_tail o st ftp outf op op1 needed ar s2 = mbind (tail_rejects o st outf ar) K /\
            forall st2, TP (not_rej (reject_path o outf)) (K st2).
Proof.
  intros H1 H2. unfold section_tail, tail_rejects. eexists. split; [reflexivity|]. intros st2. cbv beta.
  set (rp := reject_path o outf) in *.
  assert (Hs : forall t, not_rej rp (OSymlink t outf)) by (intros t data; discriminate).
  pose proof (TP_ensure_nr rp) as A1. pose proof (TP_remove_nr rp) as A2.
  pose proof (fun st => TP_backup_nr o st outf rp H2) as A3.
  assert (A4 : forall st data nn bk cf pa, TP (not_rej rp) (write_now o st (mkDef data outf nn bk cf pa))).
  { intros. apply TP_write_now_nr; cbn [d_dest]; auto. }
  tp. apply Hs.
Qed.

(* what the first step records: nothing, or the creation of missing directories of the reject file and then its writing *)
Definition rej_pred (o : options) (outf : list N) (ar : aresult) (op : sysop) : Prop :=
  forall data, op = OWrite (reject_path o outf) data -> dry_run o = false /\ r_failed ar <> 0 /\ data = r_rej ar.

Lemma TP_tail_rejects o st outf ar : TP (rej_pred o outf ar) (tail_rejects o st outf ar).
Proof.
  unfold tail_rejects. destruct (Nat.eqb (r_failed ar) 0) eqn:F; cbn [negb]; [apply TP_ret|].
  destruct (dry_run o) eqn:D; [apply TP_ret|].
  apply TP_bind.
  - eapply TP_weaken; [apply (TP_ensure_nr (reject_path o outf))|]. intros op' H data E. exfalso. exact (H data E).
  - intros _. apply TP_bind; [|intros _; apply TP_ret]. apply TP_checked. intros data [= <-].
    apply Nat.eqb_neq in F. auto.
Qed.

Lemma checked_trace op w : trace (snd (checked op w)) = trace w ++ [op].
Proof.
  unfold checked, mbind, perform.
  destruct (fault w) as [[|k]|]; [reflexivity| |]; destruct (exec_op (fs w) (umask w) op); reflexivity.
Qed.

Lemma tail_rejects_written o st outf ar w st2 w1 :
  tail_rejects o st outf ar w = (Ok st2, w1) -> r_failed ar <> 0 -> dry_run o = false ->
  exists e1, trace w1 = trace w ++ e1 ++ [OWrite (reject_path o outf) (r_rej ar)].
Proof.
  intros H F D. unfold tail_rejects in H. apply Nat.eqb_neq in F. rewrite F, D in H. cbn [negb] in H.
  rewrite mbind_eq in H.
  destruct (TP_ensure (reject_path o outf) w) as (e1 & T1 & _).
  destruct (ensure_parent_directories (reject_path o outf) w) as [[[]|e] wa]; [|discriminate]. cbn [snd] in T1.
  rewrite mbind_eq in H. pose proof (checked_trace (OWrite (reject_path o outf) (r_rej ar)) wa) as T2.
  destruct (checked (OWrite (reject_path o outf) (r_rej ar)) wa) as [[[]|e] wb]; [|discriminate]. cbn [snd] in T2.
  cbn [mret] in H. inversion H; subst. exists e1. rewrite T2, T1, <- app_assoc. reflexivity.
Qed.

Lemma tail_reject_iff o st ftp outf op op1 needed ar s2 w y w' :
  section_tail o st ftp outf op op1 needed ar s2 w = (Ok y, w') ->
  reject_path o outf <> outf -> backup_name o outf <> reject_path o outf ->
  exists ext, trace w' = trace w ++ ext /\
    forall data, In (OWrite (reject_path o outf) data) ext <-> (dry_run o = false /\ r_failed ar <> 0 /\ data = r_rej ar).
Proof.
  intros H H1 H2. destruct (tail_shape o st ftp outf op op1 needed ar s2 H1 H2) as (K & EK & TK).
  rewrite EK in H. rewrite mbind_eq in H.
  destruct (TP_tail_rejects o st outf ar w) as (ea & Ta & Fa).
  destruct (tail_rejects o st outf ar w) as [[st2|e] w1] eqn:R; [|discriminate]. cbn [snd] in Ta.
  destruct (TK st2 w1) as (eb & Tb & Fb). rewrite H in Tb. cbn [snd] in Tb.
  exists (ea ++ eb). split; [rewrite Tb, Ta, app_assoc; reflexivity|].
  intros data. split.
  - intros I. apply in_app_or in I. destruct I as [I|I].
    + rewrite Forall_forall in Fa. exact (Fa _ I data eq_refl).
    + rewrite Forall_forall in Fb. exfalso. exact (Fb _ I data eq_refl).
  - intros (D & F & ->). destruct (tail_rejects_written _ _ _ _ _ _ _ R F D) as (e1 & T1).
    rewrite T1 in Ta. apply app_inv_head in Ta. rewrite <- Ta.
    apply in_or_app. left. apply in_or_app. right. left. reflexivity.
Qed.

Lemma reads_only_no_write ext q data : reads_only ext -> ~ In (OWrite q data) ext.
Proof. intros F I. unfold reads_only in F. rewrite Forall_forall in F. specialize (F _ I). discriminate. Qed.

(* (2) A section that is not refused and ends normally: among the operations it performed, the writing of its reject file
   occurs exactly when some hunk failed and the run is not a dry run, and what is written is what apply_patch collected. *)
Theorem section_reject_iff o st should p s w y w' :
  process_section o st should p s w = (Ok y, w') ->
  let outf := sec_out o st p (fs w) in
  let rp := reject_path o outf in
  rp <> outf -> backup_name o outf <> rp ->
  sec_refused o st p (fs w) = false ->
  exists ar ext, sec_apply o st should p s (fs w) = Ok ar /\ trace w' = trace w ++ ext /\
    forall data, In (OWrite rp data) ext <-> (dry_run o = false /\ r_failed ar <> 0 /\ data = r_rej ar).
Proof.
  intros H outf rp H1 H2 NR. destruct (process_section_ok_inv _ _ _ _ _ _ _ _ H) as [_ Inv]. rewrite NR in Inv.
  destruct Inv as (ps & ar & w3 & ext0 & _ & _ & SA & _ & T0 & R0 & HT).
  destruct (tail_reject_iff _ _ _ _ _ _ _ _ _ _ _ _ HT H1 H2) as (ext & T & Iff).
  exists ar, (ext0 ++ ext). split; [exact SA|]. split; [rewrite T, T0, app_assoc; reflexivity|].
  intros data. split.
  - intros I. apply in_app_or in I. destruct I as [I|I]; [exfalso; exact (reads_only_no_write _ _ _ R0 I)|]. apply Iff. exact I.
  - intros C. apply in_or_app. right. apply Iff. exact C.
Qed.

(* a refused section: every hunk goes to the reject file, outside --dry-run *)
Theorem section_refused_rejects o st should p s w y w' :
  process_section o st should p s w = (Ok y, w') ->
  sec_refused o st p (fs w) = true ->
  let rp := reject_path o (sec_out o st p (fs w)) in
  exists p2 s2 ext, sec_body should p s = Ok (p2, s2) /\ snd y = s2 /\ trace w' = trace w ++ ext /\
    forall q data, In (OWrite q data) ext <-> (dry_run o = false /\ q = rp /\ reject_all o p2 (hunks p2) 0 = Ok data).
Proof.
  intros H RF rp. destruct (process_section_ok_inv _ _ _ _ _ _ _ _ H) as [_ Inv]. rewrite RF in Inv.
  destruct Inv as ([p2 s2] & B & R & S2). cbn [fst snd] in R, S2. exists p2, s2.
  unfold refuse_to_patch in R. destruct (dry_run o) eqn:D.
  - cbn [mret] in R. inversion R; subst. exists []. rewrite app_nil_r.
    split; [exact B|]. split; [reflexivity|]. split; [reflexivity|]. intros q data. split; [intros []|intros (X & _); discriminate].
  - rewrite mbind_eq in R. unfold mlift in R. destruct (reject_all o p2 (hunks p2) 0) as [t|e]; [|discriminate].
    rewrite mbind_eq in R. pose proof (checked_trace (OWrite (reject_path o (sec_out o st p (fs w))) t) w) as T.
    destruct (checked (OWrite (reject_path o (sec_out o st p (fs w))) t) w) as [[[]|e] wb]; [|discriminate]. cbn [snd] in T.
    cbn [mret] in R. inversion R; subst. exists [OWrite rp t].
    split; [exact B|]. split; [reflexivity|]. split; [exact T|]. intros q data. split.
    + intros [E|[]]. inversion E. auto.
    + intros (_ & -> & [= ->]). left. reflexivity.
Qed.

(* with --dry-run no file at all is written, however the section ends *)
Theorem section_dry_run_writes_nothing o st should p s w :
  dry_run o = true ->
  exists ext, trace (snd (process_section o st should p s w)) = trace w ++ ext /\ forall q data, ~ In (OWrite q data) ext.
Proof.
  intros D. destruct (RO_process_section o D st should p s w) as (_ & _ & (ext & T & F) & _).
  exists ext. split; [exact T|]. intros q data. apply reads_only_no_write. exact F.
Qed.

(* ---------- (3) the failure flag and its causes ---------- *)
(* what became of a section *)
Inductive outcome :=
| OutBinary                                       (* a binary patch: not applied *)
| OutRefused (target : list N)                    (* target not a regular file, or read-only under --read-only=fail *)
| OutApplied (target : list N) (ar : aresult).    (* the hunks were applied to the target, with this result *)

Definition sec_outcome (o : options) (st : dstate) (should : bool) (p : patch) (s : stream) (m : fsmap) : option outcome :=
  if sec_refused o st p m then Some (OutRefused (sec_out o st p m))
  else match sec_apply o st should p s m with
       | Ok ar => Some (OutApplied (sec_out o st p m) ar)
       | Throw _ => None
       end.

(* the causes of exit status 1: a binary patch, a refusal, a rejected hunk (a patch skipped as already applied has all its
   hunks rejected), a deletion that leaves content behind ("Not deleting file ... as content differs from patch") *)
Definition outcome_failed (o : options) (x : outcome) : bool :=
  match x with
  | OutBinary => true
  | OutRefused _ => true
  | OutApplied _ ar => negb (Nat.eqb (r_failed ar) 0) || leftover o ar
  end.

Definition opt_cons {A} (x : option A) (l : list A) : list A := match x with Some a => a :: l | None => l end.

Lemma section_flag o st should p s w y w' :
  process_section o st should p s w = (Ok y, w') ->
  exists x, sec_outcome o st should p s (fs w) = Some x /\
            had_failure (fst y) = had_failure st || outcome_failed o x.
Proof.
  intros H. destruct (process_section_ok_inv _ _ _ _ _ _ _ _ H) as [_ Inv]. unfold sec_outcome.
  destruct (sec_refused o st p (fs w)).
  - destruct Inv as (ps & _ & R & _). eexists. split; [reflexivity|].
    rewrite (refuse_real _ _ _ _ _ _ _ R). cbn. rewrite orb_true_r. reflexivity.
  - destruct Inv as (ps & ar & w3 & ext0 & _ & _ & SA & _ & _ & _ & HT). rewrite SA. eexists. split; [reflexivity|].
    rewrite (section_failure_flag _ _ _ _ _ _ _ _ _ _ _ _ HT). cbn [outcome_failed]. rewrite orb_assoc. reflexivity.
Qed.

(* the sections the loop meets when it runs from st on s in the world w, with what became of each *)
Fixpoint outcomes_met (fuel : nat) (o : options) (f : format) (st : dstate) (s : stream) (w : world) : list outcome :=
  match fuel with
  | O => []
  | S k =>
      if seof s then []
      else match parse_patch_header_full (empty_patch f) (strip_size o) s with
           | Throw _ => []
           | Ok (should, p, s1, found) =>
               match (if negb found && should then FUnknown else pfmt p) with
               | FUnknown => []
               | _ => match poper p with
                      | OpBinary => OutBinary :: outcomes_met k o f (set_failure st) s1 w
                      | _ => match process_section o st should p s1 w with
                             | (Ok y, w') => opt_cons (sec_outcome o st should p s1 (fs w)) (outcomes_met k o f (fst y) (snd y) w')
                             | (Throw _, _) => []
                             end
                      end
               end
           end
  end.

Definition run_failed (fuel : nat) (o : options) (f : format) (st : dstate) (s : stream) (w : world) : bool :=
  existsb (outcome_failed o) (outcomes_met fuel o f st s w).

Theorem loop_flag o f : forall fuel st s first w st' w',
  section_loop fuel o f st s first w = (Ok st', w') ->
  had_failure st' = had_failure st || run_failed fuel o f st s w.
Proof.
  unfold run_failed. induction fuel as [|k IH]; intros st s first w st' w' E; [discriminate|].
  cbn [section_loop outcomes_met] in *.
  destruct (seof s); [inversion E; subst; cbn; rewrite orb_false_r; reflexivity|].
  rewrite mbind_eq in E. unfold mlift in E.
  destruct (parse_patch_header_full (empty_patch f) (strip_size o) s) as [[[[should p] s1] found]|e]; [|discriminate].
  assert (A : (let! y := process_section o st should p s1 in section_loop k o f (fst y) (snd y) false) w = (Ok st', w') ->
              had_failure st' = had_failure st ||
                existsb (outcome_failed o)
                  match process_section o st should p s1 w with
                  | (Ok y, w1) => opt_cons (sec_outcome o st should p s1 (fs w)) (outcomes_met k o f (fst y) (snd y) w1)
                  | (Throw _, _) => []
                  end).
  { rewrite mbind_eq. destruct (process_section o st should p s1 w) as [[y|e] w1] eqn:P; [|discriminate].
    intros E'. rewrite (IH _ _ _ _ _ _ E'). destruct (section_flag _ _ _ _ _ _ _ _ P) as (x & Sx & Fx).
    rewrite Sx, Fx. cbn [opt_cons existsb]. rewrite orb_assoc. reflexivity. }
  assert (B : section_loop k o f (set_failure st) s1 false w = (Ok st', w') ->
              had_failure st' = had_failure st || existsb (outcome_failed o) (OutBinary :: outcomes_met k o f (set_failure st) s1 w)).
  { intros E'. rewrite (IH _ _ _ _ _ _ E'). cbn. rewrite orb_true_r. reflexivity. }
  destruct (if negb found && should then FUnknown else pfmt p);
    try (destruct (poper p); try (apply A; exact E); apply B; exact E).
  destruct first; [discriminate|]. inversion E; subst. cbn. rewrite orb_false_r. reflexivity.
Qed.

(* ---------- the whole run ---------- *)
Lemma finalize_keeps_seen o all : forall ds st, Post (finalize_writes_from o all st ds) (fun st' => seen st' = seen st).
Proof.
  induction ds as [|d r IH]; intros st; cbn [finalize_writes_from]; [apply Post_ret; reflexivity|].
  eapply Post_bind; [apply Post_true|intros _ _].
  eapply Post_bind; [apply seen_write_now|intros st1 H1].
  intros w a w' E. rewrite (IH st1 w a w' E). exact H1.
Qed.

Definition st_init : dstate := mkDS false [] [] [] [].

(* (3) The exit status of a run that ends normally is 1 when some section met failed (binary patch, refusal, rejected
   hunk or skipped patch, deletion that left content behind) and 0 otherwise. *)
Theorem exit_status_truth o bytes w code ev w' :
  process_patch o bytes w = (Ok (code, ev), w') ->
  exists f, format_from_options o = Ok f /\
            code = if run_failed (S (S (length bytes))) o f st_init (stream_of bytes) w then 1 else 0.
Proof.
  unfold process_patch. intros H. rewrite mbind_eq in H. unfold mlift at 1 in H.
  destruct (format_from_options o) as [f|e]; [|discriminate]. exists f. split; [reflexivity|].
  rewrite mbind_eq in H. fold st_init in H.
  destruct (section_loop (S (S (length bytes))) o f st_init (stream_of bytes) true w) as [[st|e] w1] eqn:L; [|discriminate].
  rewrite mbind_eq in H. destruct (finalize_writes o st (deferred_writes st) w1) as [[st1|e] w2] eqn:F; [|discriminate].
  pose proof (finalize_keeps_seen o _ _ _ _ _ _ F) as S1. unfold seen in S1. inversion S1 as [[Hf He]].
  rewrite mbind_eq in H. destruct (finalize_removals (deferred_writes st) (deferred_removals st) w2) as [[[]|e] w3]; [|discriminate].
  cbn [mret] in H. inversion H. subst. rewrite Hf. rewrite (loop_flag _ _ _ _ _ _ _ _ _ L). reflexivity.
Qed.

Corollary exit_status_zero_iff o bytes w code ev w' f :
  process_patch o bytes w = (Ok (code, ev), w') -> format_from_options o = Ok f ->
  (code = 0 <-> Forall (fun x => outcome_failed o x = false) (outcomes_met (S (S (length bytes))) o f st_init (stream_of bytes) w)) /\
  (code = 1 <-> Exists (fun x => outcome_failed o x = true) (outcomes_met (S (S (length bytes))) o f st_init (stream_of bytes) w)) /\
  (code = 0 \/ code = 1).
Proof.
  intros H Hf. destruct (exit_status_truth _ _ _ _ _ _ H) as (f' & Hf' & ->). rewrite Hf in Hf'. inversion Hf'; subst f'.
  unfold run_failed. set (l := outcomes_met _ _ _ _ _ _).
  destruct (existsb (outcome_failed o) l) eqn:E.
  - apply existsb_exists in E. destruct E as (x & I & Fx). split; [|split; [|right; reflexivity]].
    + split; [discriminate|]. intros F. rewrite Forall_forall in F. rewrite (F x I) in Fx. discriminate.
    + split; [|reflexivity]. intros _. apply Exists_exists. eauto.
  - split; [|split; [|left; reflexivity]].
    + split; [|reflexivity]. intros _. apply Forall_forall. intros x I. destruct (outcome_failed o x) eqn:Fx; [|reflexivity].
      assert (X : existsb (outcome_failed o) l = true) by (apply existsb_exists; eauto). congruence.
    + split; [discriminate|]. intros X. apply Exists_exists in X. destruct X as (x & I & Fx).
      assert (Y : existsb (outcome_failed o) l = true) by (apply existsb_exists; eauto). congruence.
Qed.

(* the status the shell sees: 2 exactly when an exception reached main *)
Theorem run_exit_status o stdin w :
  let m := (let! b := patch_file_bytes o stdin in process_patch o b) in
  (rr_exit (run_patch o stdin w) = 2 <-> exists e, fst (m w) = Throw e) /\
  (rr_exit (run_patch o stdin w) = 0 \/ rr_exit (run_patch o stdin w) = 1 \/ rr_exit (run_patch o stdin w) = 2).
Proof.
  cbv zeta. unfold run_patch.
  destruct ((let! b := patch_file_bytes o stdin in process_patch o b) w) as [[[code ev]|e] w1] eqn:E; cbn [rr_exit fst].
  - assert (C : code = 0 \/ code = 1).
    { rewrite mbind_eq in E. destruct (patch_file_bytes o stdin w) as [[b|e] w0]; [|discriminate].
      destruct (exit_status_truth _ _ _ _ _ _ E) as (f & _ & ->). destruct (run_failed _ _ _ _ _ _); auto. }
    split; [|tauto]. split; [intros ->; destruct C; discriminate|intros [e X]; discriminate].
  - split; [|auto]. split; eauto.
Qed.

(* ---------- exit status 2: where an exception can come from ---------- *)
Inductive cause :=
| CBadOption                                         (* -e: ed scripts are not supported *)
| CNotAPatch                                         (* the first section has no recognisable format *)
| CHeader (f : format) (strip : Z) (s : stream)      (* the header parser threw on s *)
| CBody (p : patch) (s : stream)                     (* the body parser threw on s *)
| CNoFileName                                        (* no file to patch can be determined: the program would ask; no terminal *)
| CPrereq                                            (* prerequisite missing: fatal under --batch, a question otherwise *)
| CApply (lines : list line) (p : patch)             (* apply_patch threw: see apply_patch_throws_only_from *)
| CRejectAll (p : patch)                             (* a refusal: the reject writer threw on a hunk *)
| CIo (op : sysop)                                   (* this operation failed (the last one performed) *)
| CReadDir                                           (* the target is a directory: reading it fails *)
| CEmptyPath                                         (* a file with an empty name was to be written *)
| CFuel.                                             (* model artefact; excluded below *)

Definition explains (o : options) (c : cause) (e : exn) (w' : world) : Prop :=
  match c with
  | CBadOption => format_from_options o = Throw e
  | CNotAPatch => e = EInvalidArgument
  | CHeader f strip s => parse_patch_header_full (empty_patch f) strip s = Throw e
  | CBody p s => parse_patch_body p s = Throw e
  | CNoFileName => e = ESystem
  | CPrereq => (batch o = true /\ e = ERuntime) \/ (batch o = false /\ force o = false /\ e = ESystem)
  | CApply lines p => apply_patch o lines p = Throw e
  | CRejectAll p => reject_all o p (hunks p) 0 = Throw e
  | CIo op => e = ESystem /\ exists t, trace w' = t ++ [op]
  | CReadDir => e = ESystem
  | CEmptyPath => e = ESystem
  | CFuel => e = EOutOfFuel
  end.

(* Thr o K m: every exception m raises is explained by a cause among those K admits *)
Definition Thr {A} (o : options) (K : cause -> Prop) (m : M A) : Prop :=
  forall w e w', m w = (Throw e, w') -> exists c, K c /\ explains o c e w'.

Lemma perform_never_throws op w : exists r w1, perform op w = (Ok r, w1) /\ trace w1 = trace w ++ [op].
Proof.
  unfold perform. destruct (fault w) as [[|k]|]; [eauto| |]; destruct (exec_op (fs w) (umask w) op); eauto.
Qed.

Section Causes.
Variable o : options.
Variable K : cause -> Prop.

Lemma Thr_ret {A} (a : A) : Thr o K (mret a). Proof. intros w e w' E. discriminate. Qed.
Lemma Thr_getfs : Thr o K get_fs. Proof. intros w e w' E. discriminate. Qed.
Lemma Thr_stdout {A} (a : A) data : Thr o K (fun w => (Ok a, mkWorld (fs w) (umask w) (trace w) (fault w) (stdout_data w ++ data))).
Proof. intros w e w' E. discriminate. Qed.
Lemma Thr_bind {A B} (m : M A) (f : A -> M B) : Thr o K m -> (forall a, Thr o K (f a)) -> Thr o K (mbind m f).
Proof.
  intros Hm Hf w e w' E. rewrite mbind_eq in E. destruct (m w) as [[a|e0] w1] eqn:M1.
  - eapply Hf. exact E.
  - inversion E; subst. eapply Hm. exact M1.
Qed.
(* the same, knowing something about the value handed on *)
Lemma Thr_bind_post {A B} (m : M A) (f : A -> M B) (Q : A -> Prop) :
  Thr o K m -> Post m Q -> (forall a, Q a -> Thr o K (f a)) -> Thr o K (mbind m f).
Proof.
  intros Hm Hp Hf w e w' E. rewrite mbind_eq in E. destruct (m w) as [[a|e0] w1] eqn:M1.
  - eapply Hf; [eapply Hp; exact M1|exact E].
  - inversion E; subst. eapply Hm. exact M1.
Qed.
Lemma Thr_throw {A} c e : K c -> (forall w, explains o c e w) -> Thr o K (@mthrow A e).
Proof. intros Hk H w e' w' E. inversion E; subst. exists c. split; [exact Hk|apply H]. Qed.
Lemma Thr_lift {A} (r : res A) c : (forall e, r = Throw e -> K c /\ forall w, explains o c e w) -> Thr o K (mlift r).
Proof. intros H w e w' E. unfold mlift in E. inversion E; subst. exists c. destruct (H e eq_refl) as [Hk He]. split; [exact Hk|apply He]. Qed.

Hypothesis Kio : forall op, K (CIo op).
Hypothesis Kempty : K CEmptyPath.

(* after an operation: either what follows is explained on its own, or it is the immediate throw of a system error *)
Lemma Thr_perform_bind {B} op (f : option errno -> M B) :
  (forall r, Thr o K (f r) \/ f r = mthrow ESystem) -> Thr o K (mbind (perform op) f).
Proof.
  intros Hf w e w' E. rewrite mbind_eq in E. destruct (perform_never_throws op w) as (r & w1 & P & T). rewrite P in E.
  destruct (Hf r) as [H|H]; [eapply H; exact E|]. rewrite H in E. inversion E; subst. exists (CIo op).
  split; [apply Kio|]. cbn. split; [reflexivity|eauto].
Qed.

Lemma Thr_checked op : Thr o K (checked op).
Proof. unfold checked. apply Thr_perform_bind. intros [e|]; [right; reflexivity|left; apply Thr_ret]. Qed.

Lemma Thr_rmdir : forall fuel p, Thr o K (rmdir_parents fuel p).
Proof.
  induction fuel as [|k IH]; intros p; cbn [rmdir_parents]; [apply Thr_ret|].
  destruct (parent p) as [[|c d]|]; try apply Thr_ret.
  destruct (str_eqb (c :: d) [46%N]); [apply Thr_ret|].
  apply Thr_perform_bind. intros [e|]; [|left; apply IH]. destruct e; try (right; reflexivity); left; apply Thr_ret.
Qed.

Lemma Thr_remove p : Thr o K (remove_file_and_empty_parent_folders p).
Proof. unfold remove_file_and_empty_parent_folders. apply Thr_bind; [apply Thr_checked|intros _; apply Thr_rmdir]. Qed.

Lemma Thr_mkdirs : forall ds, Thr o K (mkdirs ds).
Proof.
  induction ds as [|d r IH]; cbn [mkdirs]; [apply Thr_ret|].
  apply Thr_perform_bind. intros [e|]; [|left; exact IH]. destruct e; try (right; reflexivity); left; exact IH.
Qed.

Lemma Thr_ensure p : Thr o K (ensure_parent_directories p).
Proof. unfold ensure_parent_directories. destruct (is_nil p); [apply (Thr_throw CEmptyPath); [exact Kempty|reflexivity]|apply Thr_mkdirs]. Qed.

Ltac th :=
  repeat first
    [ apply Thr_ret | apply Thr_getfs | apply Thr_stdout | apply Thr_checked | apply Thr_ensure | apply Thr_remove
    | assumption
    | match goal with H : context [Thr _ _ _] |- Thr _ _ _ => apply H end
    | match goal with
      | |- Thr _ _ (mbind _ _) => apply Thr_bind; [|intros ?]
      | |- Thr _ _ (if ?c then _ else _) => destruct c
      | |- Thr _ _ (match ?x with _ => _ end) => destruct x
      | |- Thr _ _ (let '(_, _) := ?x in _) => destruct x
      end ].

Lemma Thr_backup st p : Thr o K (make_backup_for o st p).
Proof. unfold make_backup_for, backup_core. th. Qed.

Lemma Thr_write_now st d : Thr o K (write_now o st d).
Proof. unfold write_now. pose proof Thr_backup. th. Qed.

Lemma Thr_section_tail st ftp outf op op1 needed ar s2 : Thr o K (section_tail o st ftp outf op op1 needed ar s2).
Proof. unfold section_tail. pose proof Thr_backup. pose proof Thr_write_now. th. Qed.

Lemma Thr_finalize_writes_from all : forall ds st, Thr o K (finalize_writes_from o all st ds).
Proof.
  induction ds as [|d r IH]; intros st; cbn [finalize_writes_from]; [apply Thr_ret|].
  apply Thr_bind; [apply Thr_ensure|intros _]. apply Thr_bind; [apply Thr_write_now|intros st']. apply IH.
Qed.

Lemma Thr_finalize_removals ws : forall rs, Thr o K (finalize_removals ws rs).
Proof.
  induction rs as [|p r IH]; cbn [finalize_removals]; [apply Thr_ret|].
  apply Thr_bind; [destruct (existsb _ ws); [apply Thr_ret|apply Thr_remove]|intros _; exact IH].
Qed.

(* a section, for patches that satisfy G (kept by the body parser): where its exceptions come from *)
Variable G : patch -> Prop.
Hypothesis Knofile : K CNoFileName.
Hypothesis Kreaddir : K CReadDir.
Hypothesis Kprereq : K CPrereq.
Hypothesis Kbody : forall p s, K (CBody p s).
Hypothesis Gbody : forall q s q' s', G q -> parse_patch_body q s = Ok (q', s') -> G q'.
Hypothesis Goper : forall q x, G q -> G (set_oper q x).
Hypothesis Kapply : forall lines q e, G q -> apply_patch o lines q = Throw e -> K (CApply lines q).
Hypothesis Kreject : forall q e, G q -> reject_all o q (hunks q) 0 = Throw e -> K (CRejectAll q).

Lemma Thr_refuse st outf p : G p -> Thr o K (refuse_to_patch o st outf p).
Proof.
  intros Hg. unfold refuse_to_patch. destruct (dry_run o); [apply Thr_ret|].
  apply Thr_bind; [apply (Thr_lift _ (CRejectAll p)); intros e E; split; [eapply Kreject; eauto|intros w; exact E]|intros t].
  apply Thr_bind; [apply Thr_checked|intros _; apply Thr_ret].
Qed.

Lemma Thr_body_if should p s : Thr o K (body_if should p s).
Proof. unfold body_if. destruct should; [apply (Thr_lift _ (CBody p s)); intros e E; split; [apply Kbody|intros w; exact E]|apply Thr_ret]. Qed.

Lemma Post_body_if_G should p s : G p -> Post (body_if should p s) (fun ps => G (fst ps)).
Proof.
  intros Hg. unfold body_if. destruct should.
  - intros w [q s'] w' E. unfold mlift in E. inversion E as [[E1 E2]]. cbn [fst]. eapply Gbody; eauto.
  - apply Post_ret. exact Hg.
Qed.

Lemma Thr_process_section st should p s : G p -> Thr o K (process_section o st should p s).
Proof.
  intros Hg. unfold process_section.
  apply Thr_bind; [apply Thr_getfs|intros m].
  set (ftp := if is_nil (file_to_patch o) then guess_filepath m (map d_dest (deferred_writes st)) p o else file_to_patch o).
  destruct (is_nil ftp); [apply (Thr_throw CNoFileName); [exact Knofile|reflexivity]|].
  set (outf := output_path o p ftp).
  assert (Refuse : Thr o K (let! ps := body_if should p s in let! st' := refuse_to_patch o st outf (fst ps) in mret (st', snd ps))).
  { eapply Thr_bind_post; [apply Thr_body_if|apply (Post_body_if_G should p s Hg)|intros ps Hps].
    apply Thr_bind; [apply Thr_refuse; exact Hps|intros st']. apply Thr_ret. }
  destruct (exists_ m ftp && negb (is_regular_file m ftp)); [exact Refuse|].
  destruct (N.eqb (N.land (effective_perms st m outf) write_mask) 0 && match read_only o with ROFail => true | _ => false end); [exact Refuse|].
  clear Refuse.
  apply Thr_bind.
  { destruct (pending_content st m ftp outf); [apply Thr_ret|].
    apply Thr_perform_bind. intros [e|].
    - destruct e; try (right; reflexivity). destruct (is_adding_file p o); [left; apply Thr_ret|right; reflexivity].
    - left. destruct (stat m ftp) as [[d md|md|t|md]|]; try (apply (Thr_throw CReadDir); [exact Kreaddir|reflexivity]). apply Thr_ret. }
  intros input_lines.
  apply Thr_bind.
  { destruct (negb (is_nil (prereq p)) && negb (has_prerequisite input_lines (prereq p))); [|apply Thr_ret].
    destruct (batch o) eqn:Hb; [apply (Thr_throw CPrereq); [exact Kprereq|intros w; left; auto]|].
    destruct (force o) eqn:Hf; [apply Thr_ret|apply (Thr_throw CPrereq); [exact Kprereq|intros w; right; auto]]. }
  intros _.
  assert (Hg1 : G match poper p with OpRename => if str_eqb ftp outf then set_oper p OpChange else p | _ => p end).
  { destruct (poper p); try exact Hg. destruct (str_eqb ftp outf); [apply Goper|]; exact Hg. }
  eapply Thr_bind_post; [apply Thr_body_if|apply (Post_body_if_G _ _ _ Hg1)|intros [p2 s2] Hp2]. cbn [fst] in Hp2.
  apply Thr_bind; [apply (Thr_lift _ (CApply input_lines p2)); intros e E; split; [eapply Kapply; eauto|intros w; exact E]|intros ar].
  apply Thr_section_tail.
Qed.
(* the loop over sections and the whole run *)
Hypothesis Kfuel : K CFuel.
Hypothesis Kheader : forall f strip s, K (CHeader f strip s).
Hypothesis Knotapatch : K CNotAPatch.
Hypothesis Kbadoption : K CBadOption.
Hypothesis Ghead : forall f strip s should p s1 found,
  format_from_options o = Ok f -> parse_patch_header_full (empty_patch f) strip s = Ok (should, p, s1, found) -> G p.

Lemma Thr_section_loop f : format_from_options o = Ok f -> forall fuel st s first, Thr o K (section_loop fuel o f st s first).
Proof.
  intros Hfo. induction fuel as [|k IH]; intros st s first; cbn [section_loop]; [apply (Thr_throw CFuel); [exact Kfuel|reflexivity]|].
  destruct (seof s); [apply Thr_ret|].
  eapply Thr_bind_post; [apply (Thr_lift _ (CHeader f (strip_size o) s)); intros e E; split; [apply Kheader|intros w; exact E]|apply Post_lift|].
  intros [[[should p] s1] found] HF.
  assert (A : Thr o K (let! y := process_section o st should p s1 in section_loop k o f (fst y) (snd y) false)).
  { apply Thr_bind; [|intros y; apply IH]. apply Thr_process_section. eapply Ghead; eauto. }
  destruct (if negb found && should then FUnknown else pfmt p); try (destruct (poper p); try exact A; apply IH).
  destruct first; [apply (Thr_throw CNotAPatch); [exact Knotapatch|reflexivity]|apply Thr_ret].
Qed.

Lemma Thr_process_patch bytes : Thr o K (process_patch o bytes).
Proof.
  unfold process_patch.
  eapply Thr_bind_post; [apply (Thr_lift _ CBadOption); intros e E; split; [exact Kbadoption|intros w; exact E]|apply Post_lift|intros f Hfo].
  apply Thr_bind; [apply Thr_section_loop; exact Hfo|intros st].
  apply Thr_bind; [apply Thr_finalize_writes_from|intros st1].
  apply Thr_bind; [apply Thr_finalize_removals|intros _]. apply Thr_ret.
Qed.

Lemma Thr_patch_file_bytes stdin : Thr o K (patch_file_bytes o stdin).
Proof.
  unfold patch_file_bytes. destruct (_ || _); [apply Thr_ret|].
  apply Thr_perform_bind. intros r.
  destruct r as [e|]; [right; reflexivity|left].
  apply Thr_bind; [apply Thr_getfs|intros m].
  destruct (stat m (patch_file_path o)) as [[d md|md|t|md]|]; try (apply (Thr_throw CReadDir); [exact Kreaddir|reflexivity]). apply Thr_ret.
Qed.

Lemma Thr_run stdin : Thr o K (let! b := patch_file_bytes o stdin in process_patch o b).
Proof. apply Thr_bind; [apply Thr_patch_file_bytes|intros b; apply Thr_process_patch]. Qed.
End Causes.

(* the model's own exception never reaches main *)
Lemma run_never_out_of_fuel o stdin w w' : (let! b := patch_file_bytes o stdin in process_patch o b) w <> (Throw EOutOfFuel, w').
Proof.
  intros H. rewrite mbind_eq in H. destruct (patch_file_bytes o stdin w) as [[b|e0] w0] eqn:P.
  - pose proof (process_patch_fueled o b w0) as N. rewrite H in N. apply N. reflexivity.
  - inversion H; subst. revert P. unfold patch_file_bytes. destruct (_ || _); [discriminate|].
    rewrite mbind_eq. destruct (perform_never_throws (OOpenRead (patch_file_path o)) w) as (r & w1 & -> & _).
    rewrite mbind_eq. cbn [get_fs]. destruct r; [discriminate|]. destruct (stat (fs w1) (patch_file_path o)) as [[d md|md|t|md]|]; discriminate.
Qed.

Definition any_cause (c : cause) : Prop := True.

(* Exit status 2 has one of these causes: an option that is not supported, a first section that is no patch, a parse error in
   a header or a body, a question that cannot be asked (file name, prerequisite), an exception of apply_patch (the question
   "reversed?", the reject writer, -D: apply_patch_throws_only_from), the reject writer in a refusal, a failed operation
   (the last one in the trace), a directory as target, an empty file name. *)
Theorem run_throws_only_from o stdin w e w' :
  (let! b := patch_file_bytes o stdin in process_patch o b) w = (Throw e, w') ->
  exists c, c <> CFuel /\ explains o c e w'.
Proof.
  intros H.
  assert (T : Thr o any_cause (let! b := patch_file_bytes o stdin in process_patch o b)).
  { apply (Thr_run o any_cause (fun _ => I) I (fun _ => True)); try exact I; intros; exact I. }
  destruct (T _ _ _ H) as (c & _ & X). exists c. split; [|exact X]. intros ->. cbn in X. subst e.
  exact (run_never_out_of_fuel _ _ _ _ H).
Qed.

(* ---------- a section whose hunks have the right counts: failing to place a hunk is never fatal ---------- *)
Lemma reject_all_ok o p : forall hs n, Forall ctx_writable hs -> exists t, reject_all o p hs n = Ok t.
Proof.
  induction hs as [|h r IH]; intros n F; cbn [reject_all]; [eauto|]. inversion F as [|? ? Hh Hr]; subst.
  pose proof (write_reject_spec o p n h) as W. destruct (write_reject o p n h) as [a|e]; cbn [rbind].
  - destruct (IH (S n) Hr) as (b & ->). cbn [rbind]. eauto.
  - destruct W as (_ & _ & N). contradiction.
Qed.

(* the causes left: everything but the reject writer, and of apply_patch only the question *)
Definition benign_cause (o : options) (c : cause) : Prop :=
  match c with
  | CRejectAll _ => False
  | CApply lines q => question_needed o lines q
  | CFuel => False
  | _ => True
  end.

(* G: a property of patch records that the body parser keeps, that does not depend on the operation, and that makes every
   hunk have the right counts (for instance: unified or git format and right counts so far, see Proofs_StatusParse.v) *)
Theorem section_hunk_failure_never_fatal o (G : patch -> Prop) st should p s w e w' :
  (forall q s q' s', G q -> parse_patch_body q s = Ok (q', s') -> G q') ->
  (forall q x, G q -> G (set_oper q x)) ->
  (forall q, G q -> Forall hunk_counts_ok (hunks q)) ->
  G p ->
  process_section o st should p s w = (Throw e, w') ->
  exists c, benign_cause o c /\ explains o c e w'.
Proof.
  intros Gb Go Gc Hg H.
  refine (Thr_process_section o (benign_cause o) _ _ G _ _ _ _ Gb Go _ _ st should p s Hg w e w' H); try exact I; try (intros; exact I).
  - intros lines q e0 Hq A. cbn [benign_cause].
    destruct (apply_patch_throws_only_from _ _ _ _ A) as [[(_ & _ & X)|(_ & _ & X)]|[_ Q]]; [| |exact Q];
      exfalso; apply Exists_exists in X; destruct X as (h & I0 & N); pose proof (Gc q Hq) as Hc; rewrite Forall_forall in Hc; specialize (Hc h I0).
    + apply N. apply counts_ok_writable. exact Hc.
    + destruct Hc as [A1 B1]. destruct N as [N|N]; apply N; assumption.
  - intros q e0 Hq R. exfalso.
    destruct (reject_all_ok o q (hunks q) 0) as (t & E); [|congruence].
    eapply Forall_impl; [|exact (Gc q Hq)]. intros h. apply counts_ok_writable.
Qed.

(* the same for a whole run, when every section header yields a patch record with G *)
Theorem run_hunk_failure_never_fatal o (G : patch -> Prop) stdin w e w' :
  (forall q s q' s', G q -> parse_patch_body q s = Ok (q', s') -> G q') ->
  (forall q x, G q -> G (set_oper q x)) ->
  (forall q, G q -> Forall hunk_counts_ok (hunks q)) ->
  (forall f strip s should p s1 found, format_from_options o = Ok f ->
     parse_patch_header_full (empty_patch f) strip s = Ok (should, p, s1, found) -> G p) ->
  (let! b := patch_file_bytes o stdin in process_patch o b) w = (Throw e, w') ->
  exists c, benign_cause o c /\ explains o c e w'.
Proof.
  intros Gb Go Gc Gh H.
  assert (T : Thr o (fun c => benign_cause o c \/ c = CFuel) (let! b := patch_file_bytes o stdin in process_patch o b)).
  { apply (Thr_run o _ (fun _ => or_introl I) (or_introl I) G); try (left; exact I); try (intros; left; exact I); try assumption.
    - intros lines q e0 Hq A. left. cbn [benign_cause].
      destruct (apply_patch_throws_only_from _ _ _ _ A) as [[(_ & _ & X)|(_ & _ & X)]|[_ Q]]; [| |exact Q];
        exfalso; apply Exists_exists in X; destruct X as (h & I0 & N); pose proof (Gc q Hq) as Hc; rewrite Forall_forall in Hc; specialize (Hc h I0).
      + apply N. apply counts_ok_writable. exact Hc.
      + destruct Hc as [A1 B1]. destruct N as [N|N]; apply N; assumption.
    - intros q e0 Hq R. exfalso.
      destruct (reject_all_ok o q (hunks q) 0) as (t & E); [|congruence].
      eapply Forall_impl; [|exact (Gc q Hq)]. intros h. apply counts_ok_writable.
    - right. reflexivity. }
  destruct (T _ _ _ H) as (c & [Kc|Kc] & X); [eauto|]. subst c. cbn in X. subst e. exfalso. exact (run_never_out_of_fuel _ _ _ _ H).
Qed.

(* ---------- what is reported ---------- *)
Lemma tail_report_events o st ar :
  events (tail_report o st ar) =
  events st ++ r_msgs ar ++
  (if Nat.eqb (r_failed ar) 0 then []
   else inform_hunks_failed (if r_skipped ar then bs "ignored" else bs "FAILED") (length (hunks (r_patch ar))) (r_failed ar) ++ [10%N]).
Proof.
  unfold tail_report.
  assert (E : forall x, events (set_failure x) = events x) by reflexivity.
  destruct (Nat.eqb (r_failed ar) 0); cbn [negb];
    destruct (str_eqb (out_file_path o) (bs "-"));
    repeat match goal with |- context [if ?c then set_failure ?a else ?b] => destruct c end;
    rewrite ?E; cbn [events add_event]; rewrite <- ?app_assoc, ?app_nil_r; reflexivity.
Qed.

(* A section that is not refused reports the per-hunk lines of apply_patch and, when hunks failed, one summary line
   "<r_failed> out of <number of hunks> hunk(s) FAILED|ignored" — the count it reports is the count of rejected hunks
   (Properties_C04.apply_patch_replay: r_failed = number of rejected verdicts). *)
Theorem section_report o st should p s w y w' :
  process_section o st should p s w = (Ok y, w') ->
  sec_refused o st p (fs w) = false ->
  exists ar, sec_apply o st should p s (fs w) = Ok ar /\
    events (fst y) = events st ++ r_msgs ar ++
      (if Nat.eqb (r_failed ar) 0 then []
       else inform_hunks_failed (if r_skipped ar then bs "ignored" else bs "FAILED") (length (hunks (r_patch ar))) (r_failed ar) ++ [10%N]).
Proof.
  intros H NR. destruct (process_section_ok_inv _ _ _ _ _ _ _ _ H) as [_ Inv]. rewrite NR in Inv.
  destruct Inv as (ps & ar & w3 & ext0 & _ & _ & SA & _ & _ & _ & HT). exists ar. split; [exact SA|].
  destruct (tail_real _ _ _ _ _ _ _ _ _ _ _ _ HT) as [Hs _]. unfold seen in Hs. inversion Hs as [[Hf He]].
  rewrite He. apply tail_report_events.
Qed.
