(* Properties_C15.v — C15: --dry-run changes nothing.  Statement only; proof in Proofs_Driver.v.
   The model of the run is Driver.run_patch over the file-system world of World.v. *)
From PatchV Require Import Base Lines Hunk Options Parser World Driver Proofs_Driver Proofs_Predict.

(* With --dry-run, for every option record, every patch text (from standard input or from the file named by -i), every
   tree, umask and injected operation failure: the tree after the run is the tree before it (same paths, bytes, modes,
   link targets: nothing modified, created or removed, no reject, backup or output file), and every operation recorded
   is the opening of a file for reading. *)
Theorem dry_run_pure : forall o, dry_run o = true -> forall stdin w,
  fs (rr_world (run_patch o stdin w)) = fs w /\
  only_reads (trace w) (trace (rr_world (run_patch o stdin w))).
Proof. exact Proofs_Driver.dry_run_pure. Qed.
Print Assumptions dry_run_pure.

(* --dry-run predicts the real outcome, section by section: when the real run of a section ends normally, the dry run of
   the same section from the same state (same tree, same driver state) ends normally too, has consumed the same part of the
   patch, and reports the same: the same failure flag (the section's contribution to the exit status) and the same
   per-hunk lines and summaries ([seen] = failure flag and report text).  set_dry o is o with --dry-run. *)
Theorem dry_run_predicts : forall o st should p s w st_r s_r w_r,
  process_section o st should p s w = (Ok (st_r, s_r), w_r) ->
  exists st_d w_d, process_section (set_dry o) st should p s w = (Ok (st_d, s_r), w_d) /\ seen st_d = seen st_r.
Proof. exact Proofs_Predict.dry_run_predicts. Qed.
Print Assumptions dry_run_predicts.

Local Open Scope string_scope.
(* non-vacuity: a dry run that finds work to do (a hunk applies, exit 0) and one that fails a hunk (exit 1) *)
Definition ex_opts (dry : bool) :=
  mkOptions false false [] [] false (bs "p.diff") false false false [] (-1) 2 false [] [] false false false false false false dry false OBUnset OBUnset MNative RFDefault ROWarn QSUnset [] [].
Definition nlb : list N := [10%N].
Definition ex_patch := bs "--- f" ++ nlb ++ bs "+++ f" ++ nlb ++ bs "@@ -1 +1 @@" ++ nlb ++ bs "-a" ++ nlb ++ bs "+b" ++ nlb.
Definition ex_world (content : list N) := mkWorld [(bs "f", Reg content 420); (bs "p.diff", Reg ex_patch 420)] 18 [] None [].
Example dry_run_nonvacuous :
  rr_exit (run_patch (ex_opts true) [] (ex_world (bs "a" ++ nlb))) = 0 /\
  rr_exit (run_patch (ex_opts true) [] (ex_world (bs "x" ++ nlb))) = 1 /\
  lookup (fs (rr_world (run_patch (ex_opts false) [] (ex_world (bs "a" ++ nlb))))) (bs "f") = Some (Reg (bs "b" ++ nlb) 420) /\
  lookup (fs (rr_world (run_patch (ex_opts true) [] (ex_world (bs "a" ++ nlb))))) (bs "f") = Some (Reg (bs "a" ++ nlb) 420).
Proof. vm_compute. repeat split; reflexivity. Qed.

(* ===== merged from Properties_PredictRun.v ===== *)
From PatchV Require Import Base Lines Hunk Options Parser World Driver Proofs_Driver Proofs_Predict Proofs_Sections Proofs_PredictRun Proofs_PredictSections.

(* The patch t starts with a section (its header parses under the format f selected by the options, announces a known
   format, is not a binary patch) which the real run processes normally from the world w (state st_r afterwards), and what
   follows it in t ends the run.  Whenever the real run returns an exit status and a report, the dry run from the same
   world returns the same exit status and the same report text (per-hunk lines and summaries), leaves the tree as it was
   and only opens files for reading. *)
Theorem dry_run_predicts_single : forall o f t should p s1 found st_r s2 w w_r code ev w',
  format_from_options o = Ok f ->
  parse_patch_header_full (empty_patch f) (strip_size o) (stream_of t) = Ok (should, p, s1, found) ->
  (if negb found && should then FUnknown else pfmt p) <> FUnknown ->
  poper p <> OpBinary ->
  process_section o ds0 should p s1 w = (Ok (st_r, s2), w_r) ->
  ends_here o f s2 = true ->
  process_patch o t w = (Ok (code, ev), w') ->
  exists w'', process_patch (set_dry o) t w = (Ok (code, ev), w'') /\
              fs w'' = fs w /\ only_reads (trace w) (trace w'') /\
              code = exit_of st_r /\ ev = events st_r.
Proof. exact Proofs_PredictRun.dry_run_predicts_single. Qed.
Print Assumptions dry_run_predicts_single.

(* The same for run_patch: t is the patch text as the run reads it (standard input or the file named by -i), w0 the world
   after that reading. *)
Theorem dry_run_predicts_run_single : forall o f stdin w t w0 should p s1 found st_r s2 w_r code ev w',
  patch_file_bytes o stdin w = (Ok t, w0) ->
  format_from_options o = Ok f ->
  parse_patch_header_full (empty_patch f) (strip_size o) (stream_of t) = Ok (should, p, s1, found) ->
  (if negb found && should then FUnknown else pfmt p) <> FUnknown ->
  poper p <> OpBinary ->
  process_section o ds0 should p s1 w0 = (Ok (st_r, s2), w_r) ->
  ends_here o f s2 = true ->
  process_patch o t w0 = (Ok (code, ev), w') ->
  run_patch o stdin w = mkRR code ev w' /\
  exists w'', run_patch (set_dry o) stdin w = mkRR code ev w'' /\ fs w'' = fs w /\
              code = exit_of st_r /\ ev = events st_r.
Proof. exact Proofs_PredictRun.dry_run_predicts_run_single. Qed.
Print Assumptions dry_run_predicts_run_single.

(* Several sections.  indep_done o f m0 st s w st' s' w' (Proofs_PredictSections.v): the loop of the real run processes zero
   or more sections completely from (st, s, w) to (st', s', w') (binary sections are skipped with the failure flag set), and
   each section processed starts with no write deferred and finds in the tree it starts from what it would find in the tree
   m0: the same file to patch (target_in), with the same stat, and the same stat of its output file (same_view).  That is
   the independence hypothesis: the earlier sections have not touched this section's files.  fault w = None: no operation
   failure is pending.  Then the dry run returns the exit status and the report of the real run. *)
Theorem dry_run_predicts_sections : forall o f t should p s1 found st1 s2 w w1 st' s' w' code ev wf,
  format_from_options o = Ok f ->
  fault w = None ->
  parse_patch_header_full (empty_patch f) (strip_size o) (stream_of t) = Ok (should, p, s1, found) ->
  (if negb found && should then FUnknown else pfmt p) <> FUnknown ->
  poper p <> OpBinary ->
  process_section o ds0 should p s1 w = (Ok (st1, s2), w1) ->
  indep_done o f (fs w) st1 s2 w1 st' s' w' ->
  ends_here o f s' = true ->
  process_patch o t w = (Ok (code, ev), wf) ->
  exists w'', process_patch (set_dry o) t w = (Ok (code, ev), w'') /\
              fs w'' = fs w /\ only_reads (trace w) (trace w'') /\
              code = exit_of st' /\ ev = events st'.
Proof. exact Proofs_PredictSections.dry_run_predicts_sections. Qed.
Print Assumptions dry_run_predicts_sections.

Theorem dry_run_predicts_run_sections : forall o f stdin w t w0 should p s1 found st1 s2 w1 st' s' w' code ev wf,
  patch_file_bytes o stdin w = (Ok t, w0) ->
  format_from_options o = Ok f ->
  fault w0 = None ->
  parse_patch_header_full (empty_patch f) (strip_size o) (stream_of t) = Ok (should, p, s1, found) ->
  (if negb found && should then FUnknown else pfmt p) <> FUnknown ->
  poper p <> OpBinary ->
  process_section o ds0 should p s1 w0 = (Ok (st1, s2), w1) ->
  indep_done o f (fs w0) st1 s2 w1 st' s' w' ->
  ends_here o f s' = true ->
  process_patch o t w0 = (Ok (code, ev), wf) ->
  run_patch o stdin w = mkRR code ev wf /\
  exists w'', run_patch (set_dry o) stdin w = mkRR code ev w'' /\ fs w'' = fs w /\
              code = exit_of st' /\ ev = events st'.
Proof. exact Proofs_PredictSections.dry_run_predicts_run_sections. Qed.
Print Assumptions dry_run_predicts_run_sections.

(* the section-level frame property behind it: the dry run of a section reports the same from two states that show the same
   (nothing deferred) and two worlds (no failure pending) whose trees look the same to the section *)
Theorem dry_section_frame : forall o st st2 should p s w w2 a s' w',
  seen st2 = seen st -> deferred_writes st = [] -> deferred_writes st2 = [] ->
  fault w = None -> fault w2 = None ->
  same_view o p (fs w) (fs w2) ->
  process_section (set_dry o) st should p s w = (Ok (a, s'), w') ->
  exists a2 w2', process_section (set_dry o) st2 should p s w2 = (Ok (a2, s'), w2') /\ seen a2 = seen a.
Proof. exact Proofs_PredictSections.dry_section_frame. Qed.
Print Assumptions dry_section_frame.

(* ===== the known finding K-C15-dry-run-series-same-file, as a statement about the model: two plain patches for one file, the
   second fitting only what the first leaves: the real run exits 0, the dry run 1 (the independence hypothesis indep_done of
   dry_run_predicts_sections is what excludes it) ===== *)
Theorem dry_run_series_same_file_refuted :
  rr_exit (run_patch (Proofs_PredictRun.pr_opts false) [] Proofs_PredictSections.ps_world_same) = 0 /\
  rr_exit (run_patch (Proofs_PredictRun.pr_opts true) [] Proofs_PredictSections.ps_world_same) = 1.
Proof. exact Proofs_PredictSections.ps_same_file_not_predicted. Qed.
Print Assumptions dry_run_series_same_file_refuted.
