(* Properties_C15.v — C15: --dry-run changes nothing.  Statement only; proof in Proofs_Driver.v.
   The model of the run is Driver.run_patch over the file-system world of World.v. *)
From PatchV Require Import Base Lines Hunk Options Parser World Driver Proofs_Driver Proofs_Predict.

(* With --dry-run, for every option record, every patch text (from standard input or from the file named by -i), every
   tree, umask and injected operation failure: the tree after the run is the tree before it (same paths, bytes, modes,
   link targets: nothing modified, created or removed, no reject, backup or output file), and every operation recorded
   is the opening of a file for reading. *)
Theorem dry_run_pure : forall o, dry_run o = true -> forall stdin w,
  fs (rr_world (run_patch o stdin w)) = fs w /\
  only_reads (trace w) (trace (rr_world (run_patch o stdin w))).
Proof. exact Proofs_Driver.dry_run_pure. Qed.
Print Assumptions dry_run_pure.

(* --dry-run predicts the real outcome, section by section: when the real run of a section ends normally, the dry run of
   the same section from the same state (same tree, same driver state) ends normally too, has consumed the same part of the
   patch, and reports the same: the same failure flag (the section's contribution to the exit status) and the same
   per-hunk lines and summaries ([seen] = failure flag and report text).  set_dry o is o with --dry-run. *)
Theorem dry_run_predicts : forall o st should p s w st_r s_r w_r,
  process_section o st should p s w = (Ok (st_r, s_r), w_r) ->
  exists st_d w_d, process_section (set_dry o) st should p s w = (Ok (st_d, s_r), w_d) /\ seen st_d = seen st_r.
Proof. exact Proofs_Predict.dry_run_predicts. Qed.
Print Assumptions dry_run_predicts.

Local Open Scope string_scope.
(* non-vacuity: a dry run that finds work to do (a hunk applies, exit 0) and one that fails a hunk (exit 1) *)
Definition ex_opts (dry : bool) :=
  mkOptions false false [] [] false (bs "p.diff") false false false [] (-1) 2 false [] [] false false false false false false dry false OBUnset OBUnset MNative RFDefault ROWarn QSUnset [] [].
Definition nlb : list N := [10%N].
Definition ex_patch := bs "--- f" ++ nlb ++ bs "+++ f" ++ nlb ++ bs "@@ -1 +1 @@" ++ nlb ++ bs "-a" ++ nlb ++ bs "+b" ++ nlb.
Definition ex_world (content : list N) := mkWorld [(bs "f", Reg content 420); (bs "p.diff", Reg ex_patch 420)] 18 [] None [].
Example dry_run_nonvacuous :
  rr_exit (run_patch (ex_opts true) [] (ex_world (bs "a" ++ nlb))) = 0 /\
  rr_exit (run_patch (ex_opts true) [] (ex_world (bs "x" ++ nlb))) = 1 /\
  lookup (fs (rr_world (run_patch (ex_opts false) [] (ex_world (bs "a" ++ nlb))))) (bs "f") = Some (Reg (bs "b" ++ nlb) 420) /\
  lookup (fs (rr_world (run_patch (ex_opts true) [] (ex_world (bs "a" ++ nlb))))) (bs "f") = Some (Reg (bs "a" ++ nlb) 420).
Proof. vm_compute. repeat split; reflexivity. Qed.
