(* driver.ml — reads L1 case lines on stdin, runs the extracted model, prints one canonical result
   line per case.  I/O, hex and number decoding only; all behaviour comes from model.ml. *)
module M = Model

(* ---------- conversions ---------- *)
let rec pos_of_int (i : int) : M.positive =
  if i = 1 then M.XH
  else if i land 1 = 0 then M.XO (pos_of_int (i lsr 1))
  else M.XI (pos_of_int (i lsr 1))
let n_of_int i : M.n = if i = 0 then M.N0 else M.Npos (pos_of_int i)
let z_of_int i : M.z = if i = 0 then M.Z0 else if i > 0 then M.Zpos (pos_of_int i) else M.Zneg (pos_of_int (-i))
let rec int_of_pos = function M.XH -> 1 | M.XO p -> 2 * int_of_pos p | M.XI p -> 2 * int_of_pos p + 1
let int_of_n = function M.N0 -> 0 | M.Npos p -> int_of_pos p
let rec nat_of_int i : M.nat = if i <= 0 then M.O else M.S (nat_of_int (i - 1))
let rec int_of_nat = function M.O -> 0 | M.S n -> 1 + int_of_nat n

let byte_tab = Array.init 256 n_of_int
let bytes_of_string (s : string) : M.n list =
  let r = ref [] in
  for i = String.length s - 1 downto 0 do r := byte_tab.(Char.code s.[i]) :: !r done; !r
let string_of_bytes (l : M.n list) : string =
  let b = Buffer.create 64 in
  List.iter (fun c -> Buffer.add_char b (Char.chr ((int_of_n c) land 255))) l; Buffer.contents b

(* decimal (possibly negative, up to 2^63 and beyond) -> z, using the model's own arithmetic *)
let z_of_dec (s : string) : M.z =
  let neg = String.length s > 0 && s.[0] = '-' in
  let st = if neg then 1 else 0 in
  let acc = ref M.Z0 in
  let ten = z_of_int 10 in
  for i = st to String.length s - 1 do
    acc := M.Z.add (M.Z.mul !acc ten) (z_of_int (Char.code s.[i] - 48))
  done;
  if neg then M.Z.opp !acc else !acc
let dec_of_z (z : M.z) : string = string_of_bytes (M.print_Z z)

let hexval c = match c with
  | '0'..'9' -> Char.code c - 48 | 'a'..'f' -> Char.code c - 87 | 'A'..'F' -> Char.code c - 55
  | _ -> failwith "bad hex"
let unhex (s : string) : M.n list =
  if s = "-" then [] else begin
    let r = ref [] in
    let n = String.length s / 2 in
    for i = n - 1 downto 0 do
      r := byte_tab.(hexval s.[2*i] * 16 + hexval s.[2*i+1]) :: !r
    done; !r end
let hex (l : M.n list) : string =
  if l = [] then "-" else begin
    let b = Buffer.create 64 in
    List.iter (fun c -> Buffer.add_string b (Printf.sprintf "%02x" (int_of_n c))) l; Buffer.contents b end

let split c s = if s = "-" || s = "" then [] else String.split_on_char c s

(* ---------- decoding of structured fields ---------- *)
let nl_of_char = function 'L' -> M.LF | 'C' -> M.CRLF | 'N' -> M.NoNL | _ -> failwith "bad nl"
let char_of_nl = function M.LF -> 'L' | M.CRLF -> 'C' | M.NoNL -> 'N'

(* line:  <hex>:<L|C|N> *)
let line_of s : M.line =
  match String.split_on_char ':' s with
  | [h; n] -> { M.txt = unhex h; M.nl = nl_of_char n.[0] }
  | _ -> failwith ("bad line " ^ s)
let lines_of s : M.line list = List.map line_of (split ',' s)

(* pline: <+|-|_><hex>:<nl> *)
let pline_of s : M.pline =
  let o = match s.[0] with '+' -> M.Add | '-' -> M.Del | '_' -> M.Ctx | _ -> failwith "bad op" in
  { M.pop = o; M.pl = line_of (String.sub s 1 (String.length s - 1)) }

(* hunk: os/oc/ns/nc/pl,pl,...  *)
let hunk_of s : M.hunk =
  match String.split_on_char '/' s with
  | [os; oc; ns; nc; b] ->
    { M.oldr = { M.rstart = z_of_dec os; M.rcount = z_of_dec oc };
      M.newr = { M.rstart = z_of_dec ns; M.rcount = z_of_dec nc };
      M.body = List.map pline_of (split ',' b) }
  | _ -> failwith ("bad hunk " ^ s)
let hunks_of s : M.hunk list = List.map hunk_of (split ';' s)

let fmt_of = function
  | "context" -> M.FContext | "unified" -> M.FUnified | "git" -> M.FGit | "ed" -> M.FEd
  | "normal" -> M.FNormal | _ -> M.FUnknown
let oper_of = function
  | "rename" -> M.OpRename | "copy" -> M.OpCopy | "delete" -> M.OpDelete | "add" -> M.OpAdd
  | "binary" -> M.OpBinary | _ -> M.OpChange

let bool_of s = s = "1"

(* option string: k=v,k=v *)
let opts_of (s : string) : M.options =
  let o = ref M.default_options in
  List.iter (fun kv ->
    match String.index_opt kv '=' with
    | None -> ()
    | Some i ->
      let k = String.sub kv 0 i and v = String.sub kv (i+1) (String.length kv - i - 1) in
      let d = !o in
      o := (match k with
        | "R" -> { d with M.reverse_patch_opt = bool_of v }
        | "l" -> { d with M.ignore_whitespace = bool_of v }
        | "F" -> { d with M.max_fuzz = z_of_dec v }
        | "f" -> { d with M.force = bool_of v }
        | "t" -> { d with M.batch = bool_of v }
        | "N" -> { d with M.ignore_reversed = bool_of v }
        | "D" -> { d with M.define_macro = unhex v }
        | "v" -> { d with M.verbose = bool_of v }
        | "nl" -> { d with M.newline_output = (match v with "lf" -> M.MLF | "crlf" -> M.MCRLF | "keep" -> M.MKeep | _ -> M.MNative) }
        | "rf" -> { d with M.reject_format_opt = (match v with "context" -> M.RFContext | "unified" -> M.RFUnified | _ -> M.RFDefault) }
        | _ -> d)) (split ',' s);
  !o

let b01 b = if b then "1" else "0"

let string_of_fmt = function
  | M.FContext -> "context" | M.FUnified -> "unified" | M.FGit -> "git" | M.FEd -> "ed" | M.FNormal -> "normal" | M.FUnknown -> "unknown"
let string_of_oper = function
  | M.OpChange -> "change" | M.OpRename -> "rename" | M.OpCopy -> "copy" | M.OpDelete -> "delete" | M.OpAdd -> "add" | M.OpBinary -> "binary"
let enc_line (l : M.line) = hex l.M.txt ^ ":" ^ String.make 1 (char_of_nl l.M.nl)
let enc_hunk (h : M.hunk) =
  Printf.sprintf "%s/%s/%s/%s/%s" (dec_of_z h.M.oldr.M.rstart) (dec_of_z h.M.oldr.M.rcount)
    (dec_of_z h.M.newr.M.rstart) (dec_of_z h.M.newr.M.rcount)
    (if h.M.body = [] then "-" else String.concat "," (List.map (fun p ->
       (match p.M.pop with M.Ctx -> "_" | M.Add -> "+" | M.Del -> "-") ^ enc_line p.M.pl) h.M.body))
let enc_patch (p : M.patch) =
  Printf.sprintf "PATCH fmt=%s op=%s old=%s new=%s index=%s prereq=%s ot=%s nt=%s om=%d nm=%d hunks=%s"
    (string_of_fmt p.M.pfmt) (string_of_oper p.M.poper) (hex p.M.old_path) (hex p.M.new_path) (hex p.M.index_path)
    (hex p.M.prereq) (hex p.M.old_time) (hex p.M.new_time) (int_of_n p.M.old_mode) (int_of_n p.M.new_mode)
    (if p.M.hunks = [] then "-" else String.concat ";" (List.map enc_hunk p.M.hunks))

(* ---------- L2: worlds ---------- *)
let octal_of s = int_of_string ("0o" ^ s)
let node_of kind mode data : M.node =
  match kind with
  | "R" -> M.Reg (unhex data, n_of_int (octal_of mode))
  | "D" -> M.Dir (n_of_int (octal_of mode))
  | "S" -> M.Sym (unhex data)
  | _ -> M.Other (n_of_int (octal_of mode))
let tree_of (s : string) : (M.n list * M.node) list =
  List.map (fun e -> match String.split_on_char ':' e with
    | [p; k; m; d] -> (unhex p, node_of k m d)
    | _ -> failwith ("bad tree entry " ^ e)) (split ';' s)
let enc_node (p, nd) =
  match nd with
  | M.Reg (d, m) -> Printf.sprintf "%s:R:%o:%s" (hex p) (int_of_n m) (hex d)
  | M.Dir m -> Printf.sprintf "%s:D:%o:-" (hex p) (int_of_n m)
  | M.Sym t -> Printf.sprintf "%s:S:0:%s" (hex p) (hex t)
  | M.Other m -> Printf.sprintf "%s:O:%o:-" (hex p) (int_of_n m)
let enc_tree (t : (M.n list * M.node) list) =
  let l = List.sort compare (List.map enc_node t) in
  if l = [] then "-" else String.concat ";" l
let enc_op = function
  | M.OChmod (p, m) -> Printf.sprintf "chmod:%s:%o" (hex p) (int_of_n m)
  | M.ORename (a, b) -> Printf.sprintf "rename:%s:%s" (hex a) (hex b)
  | M.OUnlink p -> "unlink:" ^ hex p
  | M.ORmdir p -> "rmdir:" ^ hex p
  | M.OMkdir p -> "mkdir:" ^ hex p
  | M.OWrite (p, d) -> Printf.sprintf "write:%s:%d" (hex p) (List.length d)
  | M.OSymlink (t, p) -> Printf.sprintf "symlink:%s:%s" (hex t) (hex p)
  | M.OOpenRead p -> "read:" ^ hex p

(* full option record: k=v,k=v *)
let full_opts_of (s : string) : M.options =
  let o = ref (opts_of s) in
  List.iter (fun kv ->
    match String.index_opt kv '=' with
    | None -> ()
    | Some i ->
      let k = String.sub kv 0 i and v = String.sub kv (i+1) (String.length kv - i - 1) in
      let d = !o in
      o := (match k with
        | "b" -> { d with M.save_backup = bool_of v }
        | "c" -> { d with M.interpret_as_context = bool_of v }
        | "n" -> { d with M.interpret_as_normal = bool_of v }
        | "u" -> { d with M.interpret_as_unified = bool_of v }
        | "e" -> { d with M.interpret_as_ed = bool_of v }
        | "i" -> { d with M.patch_file_path = unhex v }
        | "o" -> { d with M.out_file_path = unhex v }
        | "r" -> { d with M.reject_file_path = unhex v }
        | "p" -> { d with M.strip_size = z_of_dec v }
        | "file" -> { d with M.file_to_patch = unhex v }
        | "dry" -> { d with M.dry_run = bool_of v }
        | "posix" -> { d with M.posix = bool_of v }
        | "bim" -> { d with M.backup_if_mismatch = (if bool_of v then M.OBYes else M.OBNo) }
        | "E" -> { d with M.remove_empty_files = (if bool_of v then M.OBYes else M.OBNo) }
        | "z" -> { d with M.backup_suffix = unhex v }
        | "B" -> { d with M.backup_prefix = unhex v }
        | "ro" -> { d with M.read_only = (match v with "ignore" -> M.ROIgnore | "fail" -> M.ROFail | _ -> M.ROWarn) }
        | _ -> d)) (split ',' s);
  !o

let enc_options (o : M.options) : string =
  let b x = if x then "1" else "0" in
  let ob = function M.OBUnset -> "unset" | M.OBYes -> "yes" | M.OBNo -> "no" in
  String.concat " " [
    "b=" ^ b o.M.save_backup; "c=" ^ b o.M.interpret_as_context; "d=" ^ hex o.M.patch_directory_path; "D=" ^ hex o.M.define_macro;
    "e=" ^ b o.M.interpret_as_ed; "i=" ^ hex o.M.patch_file_path; "l=" ^ b o.M.ignore_whitespace; "n=" ^ b o.M.interpret_as_normal;
    "N=" ^ b o.M.ignore_reversed; "o=" ^ hex o.M.out_file_path; "p=" ^ dec_of_z o.M.strip_size; "F=" ^ dec_of_z o.M.max_fuzz;
    "R=" ^ b o.M.reverse_patch_opt; "file=" ^ hex o.M.file_to_patch; "r=" ^ hex o.M.reject_file_path; "f=" ^ b o.M.force; "t=" ^ b o.M.batch;
    "h=" ^ b o.M.show_help; "v=" ^ b o.M.show_version; "u=" ^ b o.M.interpret_as_unified; "verbose=" ^ b o.M.verbose; "dry=" ^ b o.M.dry_run;
    "posix=" ^ b o.M.posix; "bim=" ^ ob o.M.backup_if_mismatch; "E=" ^ ob o.M.remove_empty_files;
    "nl=" ^ (match o.M.newline_output with M.MNative -> "native" | M.MLF -> "lf" | M.MCRLF -> "crlf" | M.MKeep -> "keep");
    "rf=" ^ (match o.M.reject_format_opt with M.RFContext -> "context" | M.RFUnified -> "unified" | M.RFDefault -> "default");
    "ro=" ^ (match o.M.read_only with M.ROWarn -> "warn" | M.ROIgnore -> "ignore" | M.ROFail -> "fail");
    "q=" ^ (match o.M.quoting with M.QSUnset -> "unset" | M.QSLiteral -> "literal" | M.QSShell -> "shell" | M.QSShellAlways -> "shell-always" | M.QSC -> "c");
    "z=" ^ hex o.M.backup_suffix; "B=" ^ hex o.M.backup_prefix ]

(* ---------- commands ---------- *)
let spec_locate ws off mf lo ls h obs =
  let f = lines_of ls and hk = hunk_of h in
  let a = M.spec_C02_locate (bool_of ws) f hk (z_of_dec off) (z_of_dec mf) (nat_of_int (int_of_string lo)) obs in
  let b = M.spec_C03_locate (bool_of ws) f hk (z_of_dec off) (z_of_dec mf) (nat_of_int (int_of_string lo)) obs in
  Printf.sprintf "SPEC C02=%s C03=%s" (b01 a) (b01 b)

let run_case (toks : string list) : string =
  match toks with
  | ["LOCATE"; ws; off; mf; lo; ls; h] ->
    (match M.locate_hunk (lines_of ls) (hunk_of h) (bool_of ws) (z_of_dec off) (z_of_dec mf) (nat_of_int (int_of_string lo)) with
     | None -> "NOTFOUND"
     | Some l -> Printf.sprintf "FOUND %d %d %s" (int_of_nat l.M.lline) (int_of_nat l.M.lfuzz) (dec_of_z l.M.loffset))
  | ["SPEC_LOCATE"; ws; off; mf; lo; ls; h; "FOUND"; l; fz; o] ->
    let obs = Some ((nat_of_int (int_of_string l), nat_of_int (int_of_string fz)), z_of_dec o) in
    spec_locate ws off mf lo ls h obs
  | ["SPEC_LOCATE"; ws; off; mf; lo; ls; h; "NOTFOUND"] -> spec_locate ws off mf lo ls h None
  | ["SPEC_APPLY"; creates; os; ls; hs; ovs; outb; failed; rejb] ->
    let o = opts_of os in
    let hk = hunks_of hs in
    let hk = if o.M.reverse_patch_opt then List.map M.reverse_hunk hk else hk in
    let ov_of s = if s = "R" then M.ORejected else begin
        match String.split_on_char ':' (String.sub s 1 (String.length s - 1)) with
        | [l; fz; oc] -> M.OApplied (z_of_dec l, nat_of_int (int_of_string fz), z_of_dec oc)
        | _ -> failwith "bad overdict" end in
    let j = M.spec_apply (bool_of creates) o.M.ignore_whitespace o.M.max_fuzz o.M.newline_output (lines_of ls) hk
              (List.map ov_of (split ',' ovs)) (unhex outb) (nat_of_int (int_of_string failed)) (unhex rejb) in
    Printf.sprintf "SPEC C02=%s C03=%s C04=%s" (b01 j.M.j_c02) (b01 j.M.j_c03) (b01 j.M.j_c04)
  | ["PARSE1"; fmt; strip; b] ->
    (match M.parse_patch (unhex b) (fmt_of fmt) (z_of_dec strip) with
     | M.Throw _ -> "THROW" | M.Ok p -> enc_patch p)
  | ["PARSEALL"; fmt; strip; b] ->
    (match M.parse_all (unhex b) (fmt_of fmt) (z_of_dec strip) with
     | M.Throw _ -> "THROW"
     | M.Ok ps -> if ps = [] then "NONE" else String.concat " | " (List.map enc_patch ps))
  | ["STRIP"; n; p] -> "BYTES " ^ hex (M.strip_path (unhex p) (z_of_dec n))
  | ["UNQUOTE"; b] ->
    (match M.parse_quoted_string (unhex b) with M.Throw _ -> "THROW" | M.Ok (o, r) -> "BYTES " ^ hex o ^ " " ^ hex r)
  | ["FILELINE"; n; b] ->
    (match M.parse_file_line (z_of_dec n) (unhex b) with
     | M.Throw _ -> "THROW"
     | M.Ok (p, ts) -> "NAME " ^ hex p ^ " " ^ (match ts with None -> "KEEP" | Some t -> "TS=" ^ hex t))
  | ["URANGE"; b] ->
    let (ok, h) = M.parse_unified_range M.empty_hunk (unhex b) in
    if ok then "RANGE " ^ enc_hunk h else "NORANGE"
  | ["NRANGE"; b] ->
    let (ok, h) = M.parse_normal_range M.empty_hunk (unhex b) in
    if ok then "RANGE " ^ enc_hunk h else "NORANGE"
  | ["RUN"; os; um; flt; stdin; tree] ->
    let o = full_opts_of os in
    let w = { M.fs = tree_of tree; M.umask = n_of_int (octal_of um);
              M.trace = []; M.fault = (if flt = "-" then None else Some (nat_of_int (int_of_string flt)));
              M.stdout_data = [] } in
    let r = M.run_patch o (unhex stdin) w in
    Printf.sprintf "EXIT %d TREE %s EVENTS %s STDOUT %s TRACE %s" (int_of_nat r.M.rr_exit)
      (enc_tree r.M.rr_world.M.fs) (hex r.M.rr_events) (hex r.M.rr_world.M.stdout_data)
      (let t = List.map enc_op r.M.rr_world.M.trace in if t = [] then "-" else String.concat "," t)
  | ["ARGV"; px; q; args] ->
    let argv = List.map (fun a -> if a = "." then [] else unhex a) (split ',' args) in
    (match M.parse_args M.switches M.setters argv { M.p_opts = M.default_options; M.p_pos = M.O } with
     | M.Throw _ -> "THROW"
     | M.Ok p -> "OPTS " ^ enc_options (M.apply_defaults (bool_of px) (if q = "none" then None else Some (unhex q)) p.M.p_opts))
  | ["CPPEVAL"; sym; d; ls] ->
    (match M.cpp_eval (unhex sym) (bool_of d) (lines_of ls) with
     | None -> "NONE"
     | Some ls -> "LINES " ^ (if ls = [] then "-" else String.concat "," (List.map (fun l -> hex l.M.txt ^ ":" ^ String.make 1 (char_of_nl l.M.nl)) ls)))
  | ["NORMWS"; a] -> "BYTES " ^ hex (M.norm_ws (unhex a))
  | ["WSMATCH"; a; b] -> b01 (M.matches_ignoring_whitespace (unhex a) (unhex b))
  | ["MATCH"; ws; a; b] -> b01 (M.matches (line_of a) (line_of b) (bool_of ws))
  | ["SPLIT"; bts] ->
    let ls = M.split_lines (unhex bts) in
    "LINES " ^ (if ls = [] then "-" else String.concat "," (List.map (fun l -> hex l.M.txt ^ ":" ^ String.make 1 (char_of_nl l.M.nl)) ls))
  | ["JOIN"; mode; ls] ->
    let m = (match mode with "lf" -> M.MLF | "crlf" -> M.MCRLF | "keep" -> M.MKeep | _ -> M.MNative) in
    "BYTES " ^ hex (M.lines_bytes m (lines_of ls))
  | ["FMTU"; h] -> "BYTES " ^ hex (M.write_hunk_as_unified (hunk_of h))
  | ["FMTC"; h] ->
    (match M.write_hunk_as_context (hunk_of h) with M.Ok b -> "BYTES " ^ hex b | M.Throw _ -> "THROW")
  | ["NUM"; s] ->
    (match M.string_to_line_number (unhex s) with None -> "NONE" | Some n -> "NUM " ^ dec_of_z (M.Z.of_N n))
  | ["APPLY"; os; fmt; oper; op_; np; ot; nt; ls; hs] ->
    let p = { M.pfmt = fmt_of fmt; M.poper = oper_of oper; M.index_path = []; M.prereq = [];
              M.old_path = unhex op_; M.new_path = unhex np; M.old_time = unhex ot; M.new_time = unhex nt;
              M.old_mode = M.N0; M.new_mode = M.N0; M.hunks = hunks_of hs } in
    let o = opts_of os in
    (match M.apply_patch o (lines_of ls) p with
     | M.Throw _ -> "THROW"
     | M.Ok r ->
       Printf.sprintf "OK out=%s rej=%s failed=%d skipped=%s perfect=%s msgs=%s"
         (hex (M.lines_bytes o.M.newline_output r.M.r_out)) (hex r.M.r_rej) (int_of_nat r.M.r_failed)
         (b01 r.M.r_skipped) (b01 r.M.r_perfect) (hex r.M.r_msgs))
  | c :: _ -> "UNKNOWN-COMMAND " ^ c
  | [] -> "EMPTY"

let () =
  try
    while true do
      let l = input_line stdin in
      let toks = List.filter (fun s -> s <> "") (String.split_on_char ' ' l) in
      let r = (try run_case toks with
               | Failure m -> "DRIVER-ERROR " ^ m
               | Stack_overflow -> "DRIVER-ERROR stack"
               | Not_found -> "DRIVER-ERROR notfound") in
      print_string r; print_newline ()
    done
  with End_of_file -> ()
